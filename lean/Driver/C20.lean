import Aqv.Base.Proto
import Aqv.Base.Keccak
import Aqv.Model.Keystore
open Aqv Aqv.Proto Aqv.Keystore

/-!
  Model driver for C20.  Case lines (see go/harness/cmd/c20):
    dk  <exp> <file: 12 fields> <pw> <kdfO> <ksO> <cbcO> <addrO>            -> ok <key32> <addr> | err <class> | panic
    im  <exp> <file: 12 fields> <pw> <kdfO> <ksO> <cbcO> <addrO>            -> ok <addr> | err <class> | panic   (KeyStore.Import)
    gk  <exp> <acct> <file: 12 fields> <pw> <kdfO> <ksO> <cbcO> <addrO>     -> ok <addr> | err <class> | panic
    enc <d32> <addr> <id> <pw> <salt> <iv> <n> <p> <kdfO> <ksO>             -> ok <file: 12 fields> <id>
  The primitives (`Prims`) are instantiated with the VALUES supplied by the harness (finite tables) and the executable
  Keccak-256; a value the model asks for that is not in the table shows up as a disagreement, never as agreement.
-/

def hexB (s : String) : Bytes := (bytesOfHex s).getD []

def splitC (s : String) (c : Char) : List String := s.splitOn (String.singleton c)

def parseJVal (s : String) : JVal :=
  match s.toList with
  | 'S' :: r => .str (hexB (String.ofList r))
  | 'N' :: r => match (String.ofList r).toInt? with | some i => .num i | none => .other
  | _ => .other

def parseKp (s : String) : List (Bytes × JVal) :=
  if s == "-" then [] else
  (splitC s ',').filterMap fun e =>
    match splitC e ':' with
    | [k, v] => some (hexB k, parseJVal v)
    | _ => none

def parseFile (fs : List String) : Option KeyFile :=
  match fs with
  | [jo, vt, v1, v3, ver, cip, ct, iv, kdf, mac, kp, addr] =>
    let verTop := match vt.toList with
      | 'S' :: r => some (hexB (String.ofList r))
      | _ => none
    some { jsonOk := jo == "1", verTop := verTop, v1ok := v1 == "1", v3ok := v3 == "1", version3 := (ver.toInt?).getD 0,
           address := hexB addr, id := [],
           crypto := { cipher := hexB cip, ciphertext := hexB ct, iv := hexB iv, kdf := hexB kdf, kdfparams := parseKp kp,
                       mac := hexB mac } }
  | _ => none

def renderReq : KdfReq → String
  | .scrypt pw salt n r p dk => s!"s:{hexOrDash pw}:{hexOrDash salt}:{n}:{r}:{p}:{dk}"
  | .pbkdf2 pw salt c dk => s!"p:{hexOrDash pw}:{hexOrDash salt}:{c}:{dk}"

def parseKdfRes (s : String) : KdfRes :=
  match splitC s ':' with
  | ["ok", buf, len] => .ok (hexB buf) (len.toNat?.getD 0)
  | ["err"] => .err
  | _ => .panic

/-- builds the primitives from the oracle fields. -/
def mkPrims (kdfO ksO cbcO adO : String) : Prims :=
  let (kreq, kres) := match splitC kdfO '=' with
    | [a, b] => (a, parseKdfRes b)
    | _ => ("", KdfRes.panic)
  let ks := match splitC ksO ':' with
    | [k, iv, st] => some (hexB k, hexB iv, (hexB st).toArray)
    | _ => none
  let cbc := match splitC cbcO ':' with
    | [k, iv, ct, out] => some (hexB k, hexB iv, hexB ct, hexB out)
    | _ => none
  let ads : List (Bytes × Bytes) := if adO == "-" then [] else
    (splitC adO ',').filterMap fun e => match splitC e ':' with
      | [k, a] => some (hexB k, hexB a)
      | _ => none
  { kdf := fun req => if renderReq req == kreq then kres else .panic,
    H := Keccak.keccak256,
    ks := fun k iv i => match ks with
      | some (k', iv', st) => if k == k' && iv == iv' then st.getD i 0 else 0
      | none => 0,
    cbc := fun k iv ct => match cbc with
      | some (k', iv', ct', out) => if k == k' && iv == iv' && ct == ct' then out else ct.map (fun _ => 0)
      | none => ct.map (fun _ => 0),
    addrOf := fun d => match ads.find? (fun e => e.1 == paddedBigBytes d 32) with
      | some e => e.2
      | none => [0x3f] }     -- renders as "3f": never equal to a 20-byte address

/-- the request the model's getKDFKey makes (recorded by a KDF that returns its request), to detect a missing oracle. -/
def strBytes (s : String) : Bytes := s.toUTF8.toList

def modelKdfReq (c : Crypto) (pw : Bytes) : Option Bytes :=
  let rec_ : Prims := { kdf := fun req => .ok (strBytes (renderReq req)) 0, H := id, ks := fun _ _ _ => 0, cbc := fun _ _ c => c,
                        addrOf := fun _ => [] }
  match getKDFKey rec_ c pw with
  | .ok (buf, _) => some buf
  | _ => none

def errName : Err → String
  | .json => "json" | .version => "version" | .cipher => "cipher"
  | .hexMac => "hex" | .hexIv => "hex" | .hexCt => "hex" | .hexSalt => "hex"
  | .kdf => "kdf" | .prf => "prf" | .unsupportedKdf => "unsupportedKdf" | .decrypt => "decrypt" | .mismatch => "mismatch"
  | .kdfParams => "kdfParams" | .ivLength => "ivLength" | .corrupted => "corrupted"

def renderKey (full : Bool) : Res Key → String
  | .ok k => if full then s!"ok {hexOfBytes (paddedBigBytes k.d 32)} {hexOfBytes k.addr}" else s!"ok {hexOfBytes k.addr}"
  | .err e => "err " ++ errName e
  | .panic => "panic"

/-- Spec: does the property accept what the real code did?  exp = R:<key>:<addr> | W | T:<key>:<addr>. -/
def specAccepts (exp go : String) (full : Bool) : Bool :=
  if go.startsWith "panic" then false else
  match splitC exp ':' with
  | ["W"] => go.startsWith "err"
  | ["N"] => true     -- a file without an address field (not written by this keystore): only "no crash" is required
  | [kind, key, addr] =>
    let orig := if full then s!"ok {key} {addr}" else s!"ok {addr}"
    if kind == "R" then go == orig else go.startsWith "err" || go == orig
  | _ => false

def renderJVal : JVal → String
  | .str s => "S" ++ hexOrDash s
  | .num i => s!"N{i}"
  | .other => "O"

def renderFile (f : KeyFile) : String :=
  let kp := if f.crypto.kdfparams.isEmpty then "-" else
    ",".intercalate (f.crypto.kdfparams.map fun e => hexOrDash e.1 ++ ":" ++ renderJVal e.2)
  let vt := match f.verTop with | some s => "S" ++ hexOrDash s | none => "N"
  let b (x : Bool) := if x then "1" else "0"
  " ".intercalate [b f.jsonOk, vt, b f.v1ok, b f.v3ok, s!"{f.version3}", hexOrDash f.crypto.cipher, hexOrDash f.crypto.ciphertext,
    hexOrDash f.crypto.iv, hexOrDash f.crypto.kdf, hexOrDash f.crypto.mac, kp, hexOrDash f.address, hexOrDash f.id]

def why := "key-file-outcome-violates-property"

def runFile (full : Bool) (exp : String) (acct : Option Bytes) (ffs : List String) (pw kdfO ksO cbcO adO go : String) : String :=
  match parseFile ffs with
  | none => "bad-op\tspec-ok"
  | some f =>
    let P := mkPrims kdfO ksO cbcO adO
    let pwb := hexB pw
    -- a KDF request of the model that the harness did not answer is a broken correspondence
    let miss := match modelKdfReq f.crypto pwb with
      | some r => ((splitC kdfO '=').head?.map strBytes) != some r
      | none => false
    let m := if miss then "oracle-miss-kdf" else
      match acct with
      | none => renderKey full (decryptKey P f pwb)
      | some a => renderKey full (getKey P a f pwb)
    verdict m go (specAccepts exp go full) why

def handle (l : String) : String :=
  let (inp, go) := splitCase l
  match fields inp with
  | "dk" :: exp :: rest =>
    if rest.length == 17 then
      match rest.drop 12 with
      | [pw, kdfO, ksO, cbcO, adO] => runFile true exp none (rest.take 12) pw kdfO ksO cbcO adO go
      | _ => "bad-op\tspec-ok"
    else "bad-op\tspec-ok"
  | "im" :: exp :: rest =>       -- KeyStore.Import: bare DecryptKey, the stored account's address is observed
    if rest.length == 17 then
      match rest.drop 12 with
      | [pw, kdfO, ksO, cbcO, adO] => runFile false exp none (rest.take 12) pw kdfO ksO cbcO adO go
      | _ => "bad-op\tspec-ok"
    else "bad-op\tspec-ok"
  | "gk" :: exp :: acct :: rest =>
    if rest.length == 17 then
      match rest.drop 12 with
      | [pw, kdfO, ksO, cbcO, adO] => runFile false exp (some (hexB acct)) (rest.take 12) pw kdfO ksO cbcO adO go
      | _ => "bad-op\tspec-ok"
    else "bad-op\tspec-ok"
  | ["enc", d, addr, id, pw, salt, iv, n, p, kdfO, ksO] =>
    let P := mkPrims kdfO ksO "-" "-"
    let m := match encryptKey P (beNat (hexB d)) (hexB addr) (hexB id) (hexB pw) (hexB salt) (hexB iv) ((n.toInt?).getD 0) ((p.toInt?).getD 0) with
      | .ok f => "ok " ++ renderFile f
      | .err e => "err " ++ errName e
      | .panic => "panic"
    -- Spec judgement of a differing EncryptKey output: the file the real code wrote must open (in the model, under the same
    -- passphrase) to the key that was stored.
    let specOk := match fields go with
      | "ok" :: rest =>
        (match parseFile (rest.take 12) with
         | some f => (match decryptKey P f (hexB pw) with
                      | .ok k => k.d == beNat (hexB d)
                      | _ => false)
         | none => false)
      | _ => false
    verdict m go specOk "EncryptKey-output-does-not-decrypt-to-the-stored-key"
  | _ => "bad-op\tspec-ok"

def main : IO Unit := runLines handle

import Aqv.Base.Proto
import Aqv.Model.TxPool
import Aqv.Model.TxPriced
import Aqv.Model.TxSortedMap
open Aqv Aqv.Proto Aqv.TxPool

/-!
  Model driver for C15 (trace validation).  One case line is one observed transition of the real pool:

    cfg=… gp= mg= ac=… pe=… qu=… all=… op=…  TAB  res=… gp= mg= ac=… pe=… qu=… all=…

  The driver (1) evaluates the Spec clauses (`Inv`, `Limits` where the operation ends with the pool-wide enforcement,
  the replacement rule, the reorg re-injection clause) on the observed post-state, and (2) checks that the observed
  transition is one the model allows: the eviction oracle is inferred from the observed post-state, the model is run
  with it and must reproduce the post-state (items, nonces, locals, `all`, error classes; `costcap`/`gascap` only have
  to be sound upper bounds because their exact value depends on the order of equal-price evictions).
-/

def nat! (s : String) : Nat := s.toNat?.getD 0

def parseTx (s : String) : Option Tx :=
  match s.splitOn ":" with
  | [a, n, p, g, v] => some ⟨nat! a, nat! n, nat! p, nat! g, nat! v⟩
  | _ => none

def parseTxs (s : String) : List Tx :=
  if s == "-" || s == "" then [] else (s.splitOn ",").filterMap parseTx

def renderTx (t : Tx) : String := s!"{t.sender}:{t.nonce}:{t.price}:{t.gas}:{t.value}"
def renderTxs (l : List Tx) : String := if l.isEmpty then "-" else ",".intercalate (l.map renderTx)

def kv (fs : List String) (k : String) : String :=
  match fs.find? (fun f => f.startsWith (k ++ "=")) with
  | some f => strDrop f (k.length + 1)
  | none => ""

def parseCfg (s : String) : Cfg :=
  match (s.splitOn ",").map nat! with
  | [pl, pb, asl, gs, aq, gq, nl, intr] => ⟨pl, pb, asl, gs, aq, gq, nl == 1, intr⟩
  | _ => ⟨1, 10, 16, 4096, 64, 1024, false, 21000⟩

def lookupD {α : Type} (l : List (Nat × α)) (a : Nat) (d : α) : α :=
  match l.find? (fun p => p.1 == a) with
  | some p => p.2
  | none => d

def parseLists (strict : Bool) (s : String) : List (Nat × TxL) :=
  if s == "-" || s == "" then []
  else (s.splitOn ";").filterMap (fun e =>
    match e.splitOn "/" with
    | [a, cc, gc, txs] => some (nat! a, ⟨strict, parseTxs txs, nat! cc, nat! gc⟩)
    | _ => none)

/-- parse a state (fields gp mg ac pe qu all) -/
def parseState (cfg : Cfg) (fs : List String) : Pool × Nat :=
  let ac := (kv fs "ac").splitOn ";" |>.map (fun e => (e.splitOn ":").map nat!)
  let k := ac.length
  let get (i : Nat) (j : Nat) : Nat := ((ac.getD i []).getD j 0)
  let pe := parseLists true (kv fs "pe")
  let qu := parseLists false (kv fs "qu")
  let accts := List.range k
  ({ cfg := cfg,
     pending := fun a => lookupD pe a (TxL.empty true),
     queue := fun a => lookupD qu a (TxL.empty false),
     all := parseTxs (kv fs "all"),
     pnonce := fun a => get a 2, cnonce := fun a => get a 0, balance := fun a => get a 1,
     maxGas := nat! (kv fs "mg"), gasPrice := nat! (kv fs "gp"),
     locals := accts.filter (fun a => get a 3 == 1), accts := accts }, k)

def parsePriced (fs : List String) : Priced :=
  { items := parseTxs (kv fs "ph"), stales := ((kv fs "ps").toInt?).getD 0 }

def countOf (x : Tx) (l : List Tx) : Nat := (l.filter (· == x)).length
def sameMultiset (a b : List Tx) : Bool := a.length == b.length && a.all (fun x => countOf x a == countOf x b)

/-- does the model's price list reproduce the observed one? `order` = same sizes and stale counter but another content,
    which happens when a reheap fell inside a batch of deletes that Go performs in map order -/
def pricedDiff (m o : Priced) (oall : List Tx) : Option String :=
  if !m.exact then some "priced: a heap operation failed its check (array not a heap)"
  else if !isHeap o.items then some "priced: observed array is not a heap"
  else if !(oall.all (fun t => decide (t ∈ o.items))) then some "priced: observed heap does not cover all"
  else if m.stales != o.stales then some s!"priced: stales model {m.stales} go {o.stales}"
  else if m.items.length != o.items.length then some s!"priced: length model {m.items.length} go {o.items.length}"
  else if !sameMultiset m.items o.items then some "priced-order"
  else none

def capsSound (l : TxL) : Bool := l.items.all (fun t => decide (t.cost ≤ l.costcap) && decide (t.gas ≤ l.gascap))

def sameSet (a b : List Tx) : Bool := a.all (· ∈ b) && b.all (· ∈ a)

/-- does the model state `m` reproduce the observed state `o`? (first difference, or none) -/
def diffState (k : Nat) (m o : Pool) : Option String :=
  let accts := List.range k
  match accts.find? (fun a => (m.pending a).items != (o.pending a).items) with
  | some a => some s!"pending[{a}]: model {renderTxs (m.pending a).items} go {renderTxs (o.pending a).items}"
  | none =>
  match accts.find? (fun a => (m.queue a).items != (o.queue a).items) with
  | some a => some s!"queue[{a}]: model {renderTxs (m.queue a).items} go {renderTxs (o.queue a).items}"
  | none =>
  match accts.find? (fun a => m.pnonce a != o.pnonce a) with
  | some a => some s!"pnonce[{a}]: model {m.pnonce a} go {o.pnonce a}"
  | none =>
  if !sameSet m.all o.all then some s!"all: model {renderTxs m.all} go {renderTxs o.all}"
  else if accts.any (fun a => m.isLocal a != o.isLocal a) then some "locals"
  else if m.gasPrice != o.gasPrice || m.maxGas != o.maxGas then some "gasprice/maxgas"
  else if accts.any (fun a => m.cnonce a != o.cnonce a || m.balance a != o.balance a) then some "chain view"
  else if accts.any (fun a => !capsSound (o.pending a) || !capsSound (o.queue a)) then some "costcap/gascap not an upper bound"
  else none

/-! ### oracle inference -/

/-- schedule of fairness evictions that turns the pending lists of `m` into those of `o` -/
def inferSlots (k : Nat) (m o : Pool) : List Addr :=
  (List.range k).flatMap (fun a =>
    List.replicate ((m.pending a).items.length - (o.pending a).items.length) a)

/-- account order of the global queue eviction: emptied accounts first, the partially drained one last -/
def inferQOrder (k : Nat) (m o : Pool) : List Addr :=
  let ch := (List.range k).filter (fun a => (m.queue a).items.length != (o.queue a).items.length)
  ch.filter (fun a => (o.queue a).items.isEmpty) ++ ch.filter (fun a => !(o.queue a).items.isEmpty)

/-- promoteExecutables with both oracles inferred from the observed result -/
def promoteInfer (k : Nat) (s : Pool) (accounts : Option (List Addr)) (o : Pool) : Pool × List Addr × List Addr :=
  let as := match accounts with
    | some l => l
    | none => s.accts
  let m1 := as.foldl (fun s a => s.promoteAcct a) s
  let slots := inferSlots k m1 o
  let m2 := m1.slotEvict slots
  let qorder := inferQOrder k m2 o
  (s.promoteExecutables accounts slots qorder, slots, qorder)

def insertByPrice (o : Pool) (t : Tx) : List Tx → List Tx
  | [] => [t]
  | x :: xs =>
    -- cheaper first; among equal prices prefer transactions that are gone in the observed result
    if t.price < x.price || (t.price == x.price && !decide (t ∈ o.all) && decide (x ∈ o.all)) then t :: x :: xs
    else x :: insertByPrice o t xs

/-- greedy guess of the Discard victims: the `n` cheapest non-local transactions -/
def guessVictims (s o : Pool) (n : Nat) : List Tx :=
  let nl := s.all.filter (fun t => !s.isLocal t.sender)
  (nl.foldl (fun acc t => insertByPrice o t acc) []).take n

def discardCount (s : Pool) : Nat := s.all.length + 1 - (s.cfg.globalSlots + s.cfg.globalQueue)
def isFull (s : Pool) : Bool := decide (s.cfg.globalSlots + s.cfg.globalQueue ≤ s.all.length)

/-- victims must be price-minimal among the non-local transactions (what the price heap yields) -/
def victimsMinimal (s : Pool) (vs : List Tx) : Bool :=
  let rest := s.all.filter (fun t => !s.isLocal t.sender && !decide (t ∈ vs))
  vs.all (fun v => rest.all (fun u => decide (v.price ≤ u.price)))

def errName : Err → String
  | .ok => "ok" | .known => "known" | .oversized => "oversized" | .negative => "negative" | .gaslimit => "gaslimit"
  | .sender => "sender" | .underpriced => "underpriced" | .nonce => "nonce" | .funds => "funds"
  | .intrinsic => "intrinsic" | .replace => "replace"

/-- all ways to choose `n` elements of a list (order kept) -/
def choose : Nat → List Tx → List (List Tx)
  | 0, _ => [[]]
  | _ + 1, [] => []
  | n + 1, x :: xs => (choose n xs).map (x :: ·) ++ choose (n + 1) xs

/-- candidate victim sets of size `n`: everything strictly cheaper than the boundary price plus any choice among the
    transactions at the boundary price (the heap order among equal prices is not modelled) -/
def victimCandidates (s o : Pool) (n : Nat) : List (List Tx) :=
  let sorted := guessVictims s o (s.all.length)
  match sorted.drop (n - 1) with
  | [] => [sorted]
  | b :: _ =>
    let cheaper := sorted.filter (fun t => decide (t.price < b.price))
    let ties := sorted.filter (fun t => t.price == b.price)
    ((choose (n - cheaper.length) ties).take 64).map (cheaper ++ ·)

/-- model of a single add with inferred oracles, trying every tie resolution of the Discard, and fewer victims when the
    heap held duplicates -/
def runAdd (k : Nat) (s o : Pool) (t : Tx) (loc : Bool) (sh : Shape) (res : String) : Option String :=
  let cnt := if isFull s then discardCount s else 0
  let attempt (vs : List Tx) : Option String :=
    let loc' := loc && !s.cfg.noLocals
    let r := s.add t loc' sh vs
    let fin := if r.1 = .ok && !r.2.1 then (promoteInfer k r.2.2 (some [t.sender]) o).1 else r.2.2
    if errName r.1 != res then some s!"result: model {errName r.1} go {res}"
    else if !victimsMinimal s (s.sanitizeVictims cnt vs) then some "victims not minimal"
    else diffState k fin o
  let cands := if cnt == 0 then [[]] else ((List.range cnt).reverse.flatMap (fun n => victimCandidates s o (n + 1))) ++ [[]]
  match cands.find? (fun vs => (attempt vs).isNone) with
  | some _ => none
  | none => attempt (cands.headD [])

structure ManyResult where
  errs : List Err
  dirty : List Addr
  pool : Pool
  sawFull : Bool

/-- the add loop of addTxsLocked with greedy victims -/
def runMany (o : Pool) (loc : Bool) : Pool → List Tx → ManyResult
  | s, [] => ⟨[], [], s, false⟩
  | s, t :: ts =>
    let full := isFull s
    let vs := if full then guessVictims s o (discardCount s) else []
    let r := s.add t loc .wellformed vs
    let rest := runMany o loc r.2.2 ts
    ⟨r.1 :: rest.errs, (if r.1 = .ok && !r.2.1 then [t.sender] else []) ++ rest.dirty, rest.pool, full || rest.sawFull⟩

def runAdds (k : Nat) (s o : Pool) (ts : List Tx) (loc : Bool) (res : String) : Option String × Bool :=
  let loc' := loc && !s.cfg.noLocals
  let r := runMany o loc' s ts
  let fin := if r.dirty.isEmpty then r.pool else (promoteInfer k r.pool (some r.dirty.eraseDups) o).1
  let rs := if r.errs.isEmpty then "-" else ",".intercalate (r.errs.map errName)
  if rs != res then (some s!"result: model {rs} go {res}", r.sawFull)
  else (diffState k fin o, r.sawFull)

def parseView (s : String) (mg : Nat) : View :=
  let ac := (s.splitOn ";").map (fun e => (e.splitOn "/").map nat!)
  { nonce := fun a => (ac.getD a []).getD 0 0, balance := fun a => (ac.getD a []).getD 1 0, maxGas := mg }

/-- reset (`gapFix = true` is the code at HEAD, `false` the demotion before c2af732); the oracles of the final enforcement are
    inferred, the first phase (re-injection) uses greedy victims and the default completion. -/
def runReset (gapFix : Bool) (k : Nat) (s o : Pool) (v : View) (oldNum newNum : Nat) (reorg : Bool) (disc inc : List Tx) :
    Option String × Bool :=
  let depth := if oldNum ≤ newNum then newNum - oldNum else oldNum - newNum
  let reinject := if reorg && decide (depth ≤ 64) then txDifference disc inc else []
  let s1 := { s with cnonce := v.nonce, balance := v.balance, maxGas := v.maxGas, pnonce := v.nonce }
  let r := runMany o false s1 reinject
  let early :=
    if r.dirty.isEmpty then false
    else
      let m := r.dirty.eraseDups.foldl (fun s a => s.promoteAcct a) r.pool
      decide (m.cfg.globalSlots < m.pendingCount) || decide (m.cfg.globalQueue < m.queuedCount)
  let s2 := if reinject.isEmpty || r.dirty.isEmpty then r.pool else r.pool.promoteExecutables (some r.dirty.eraseDups) [] []
  let s3 := (s2.demoteUnexecutables gapFix).syncNonces
  let fin := (promoteInfer k s3 none o).1
  (diffState k fin o, r.sawFull || early)

/-! ### the concrete machine (victims from the dumped price heap, no search) -/

def firstSome (a b : Option String) : Option String := match a with | some x => some x | none => b

def cRunAdd (k : Nat) (s o : Pool) (P oP : Priced) (t : Tx) (loc : Bool) (sh : Shape) (res : String) : Option String :=
  let c : CPool := ⟨s, P⟩
  let r := c.add t (loc && !s.cfg.noLocals) sh
  let fin : CPool :=
    if r.1 = .ok && !r.2.1 then
      let inf := promoteInfer k r.2.2.2.pool (some [t.sender]) o
      r.2.2.2.promoteExecutables (some [t.sender]) inf.2.1 inf.2.2
    else r.2.2.2
  if errName r.1 != res then some s!"result: concrete model {errName r.1} go {res}"
  else firstSome (diffState k fin.pool o) (pricedDiff fin.priced oP o.all)

def cRunPrice (k : Nat) (s o : Pool) (P oP : Priced) (p : Nat) : Option String :=
  let r := (⟨s, P⟩ : CPool).setGasPrice p
  firstSome (diffState k r.2.pool o) (pricedDiff r.2.priced oP o.all)

def cRunAdds (k : Nat) (s o : Pool) (P oP : Priced) (ts : List Tx) (loc : Bool) (res : String) : Option String :=
  let c : CPool := ⟨s, P⟩
  let r := c.addMany (loc && !s.cfg.noLocals) ts
  let fin : CPool :=
    if r.2.1.isEmpty then r.2.2.2
    else
      let inf := promoteInfer k r.2.2.2.pool (some r.2.1.eraseDups) o
      r.2.2.2.promoteExecutables (some r.2.1.eraseDups) inf.2.1 inf.2.2
  let rs := if r.1.isEmpty then "-" else ",".intercalate (r.1.map errName)
  if rs != res then some s!"result: concrete model {rs} go {res}"
  else firstSome (diffState k fin.pool o) (pricedDiff fin.priced oP o.all)

def cRunReset (k : Nat) (s o : Pool) (P oP : Priced) (v : View) (oldNum newNum : Nat) (reorg : Bool) (disc inc : List Tx) :
    Option String :=
  let depth := if oldNum ≤ newNum then newNum - oldNum else oldNum - newNum
  let reinject := if reorg && decide (depth ≤ 64) then txDifference disc inc else []
  let c0 : CPool := ⟨{ s with cnonce := v.nonce, balance := v.balance, maxGas := v.maxGas, pnonce := v.nonce }, P⟩
  let c1 : CPool := if reinject.isEmpty then c0 else (c0.addTxs reinject false [] []).2.2
  let c2 := c1.with (c1.pool.demoteUnexecutables true) (evDemoteUnexecutables c1.pool)
  let c3 : CPool := ⟨c2.pool.syncNonces, c2.priced⟩
  let inf := promoteInfer k c3.pool none o
  let fin := c3.promoteExecutables none inf.2.1 inf.2.2
  firstSome (diffState k fin.pool o) (pricedDiff fin.priced oP o.all)

/-! ### Spec on the observed transition -/

def invFail (k : Nat) (o : Pool) : Option String :=
  let accts := List.range k
  match accts.find? (fun a => !o.checkRun a) with
  | some a => some s!"run:account {a} chain nonce {o.cnonce a} pending {renderTxs (o.pending a).items}"
  | none =>
  match accts.find? (fun a => !o.checkAfford a) with
  | some a => some s!"afford:account {a}"
  | none =>
  match accts.find? (fun a => !o.checkUnique a) with
  | some a => some s!"unique:account {a}"
  | none => none

def pooledB (s : Pool) (t : Tx) : Bool := decide (s.pooled t)

def slotOccupant (s : Pool) (a n : Nat) : Option Tx :=
  match getN (s.pending a).items n with
  | some t => some t
  | none => getN (s.queue a).items n

/-- replacement clause on the transition (not judged when the pool could have been full: eviction + fresh insert) -/
def replacementFail (k : Nat) (s o : Pool) (adds : Nat) : Option String :=
  if s.cfg.globalSlots + s.cfg.globalQueue < s.all.length + adds then none
  else
    let olds := (List.range k).flatMap (fun a => occupants s a)
    match olds.find? (fun t => match slotOccupant o t.sender t.nonce with
        | some n => n != t && !bumpOK t n s.cfg.priceBump
        | none => false) with
    | some t => some s!"bump:slot of {renderTx t}"
    | none => none

def validNow (o : Pool) (t : Tx) : Bool := o.validateTx t false .wellformed == .ok

/-- reorg clause, judged where the theorems apply (room in the pool, or local sender; shallow reorgs): see harness CheckReorg -/
def reorgFail (s o : Pool) (oldNum newNum : Nat) (reorg : Bool) (disc inc : List Tx) : Option String :=
  let depth := if oldNum ≤ newNum then newNum - oldNum else oldNum - newNum
  if !reorg || depth > 64 then none
  else
    let re := txDifference disc inc
    let total := s.all.length + re.length
    let room := decide (total ≤ s.cfg.globalSlots) && decide (total ≤ s.cfg.globalQueue) && decide (total ≤ s.cfg.accountQueue)
    match re.find? (fun t => (room || s.isLocal t.sender) && validNow o t && !pooledB o t &&
        (slotOccupant o t.sender t.nonce).isNone) with
    | some t => some s!"reorg-reinject:{renderTx t}"
    | none => none

/-- is a `run` failure after a reset the known re-injection hole? (chain nonce moved back below the old pending run and
    the first missing nonce lies in the re-injected range) -/
def isReinjectHole (k : Nat) (s o : Pool) : Bool :=
  (List.range k).any (fun a =>
    !o.checkRun a && decide (o.cnonce a < s.cnonce a) &&
    (let run := (runFrom (o.cnonce a) (o.pending a).items).1.length
     decide (o.cnonce a + run < s.cnonce a)))

/-! ### txSortedMap cases (`sm=1 it=<contents> ca=<n|cache> op=… o.a=… ⇥ res=<returned> it=… ca=…`) -/

def parseCache (s : String) : Option (List Tx) := if s == "n" then none else some (parseTxs s)

def renderSMap (m : SMap) : String :=
  "it=" ++ renderTxs m.items ++ " ca=" ++ (match m.cache with | none => "n" | some c => renderTxs c)

def handleSM (fi fo : List String) : String :=
  let m : SMap := ⟨parseTxs (kv fi "it"), parseCache (kv fi "ca")⟩
  let o : SMap := ⟨parseTxs (kv fo "it"), parseCache (kv fo "ca")⟩
  let a := nat! (kv fi "o.a")
  let op : Option SOp := match kv fi "op" with
    | "put" => (parseTx (kv fi "o.tx")).map SOp.put
    | "forward" => some (.forward a)
    | "filter" => some (.filter (fun t => decide (a < t.price)))
    | "cap" => some (.cap a)
    | "remove" => some (.remove a)
    | "ready" => some (.ready a)
    | "flatten" => some .flatten
    | _ => none
  match op with
  | none => "bad-op\tagree"
  | some op =>
    -- Spec first: the observed map is sorted and its cache, if any, is its contents
    if !o.coherentB then "spec\tspec-reject:cache: the cached list is not the nonce-sorted contents"
    else
      let r := m.step op
      let res := parseTxs (kv fo "res")
      -- returned transactions: Cap returns highest nonce first, Filter in map order: compared as sets; the others in order
      let resOK := match op with
        | .cap _ => res.reverse == r.1
        | .filter _ => sameSet res r.1 && res.length == r.1.length
        | _ => res == r.1
      if !resOK then s!"returned {renderTxs r.1}\tspec-ok"
      else if r.2.items != o.items then s!"{renderSMap r.2}\tspec-ok"
      else if r.2.cache != o.cache then s!"{renderSMap r.2}\tspec-ok"
      else "ok\tagree"

def handle (l : String) : String :=
  let (inp, go) := splitCase l
  let fi := fields inp
  let fo := fields go
  if kv fi "sm" == "1" then handleSM fi fo else
  let cfg := parseCfg (kv fi "cfg")
  let (s, k) := parseState cfg fi
  let (o, _) := parseState cfg fo
  let P := parsePriced fi
  let oP := parsePriced fo
  -- the concrete machine first; the oracle search only when the heap order could not be predicted (a reheap or a batch of
  -- Puts in Go map order inside the same operation)
  -- `multi`: the operation walks several accounts in Go map order (batch add, reset); then the moment a reheap falls and
  -- with it the size of the heap and the stale counter depend on that order: sizes are not compared, the observed heap
  -- still has to be a heap covering `all`
  let both (multi : Bool) (conc : Option String) (abs : Option String × Bool) : Option String × Bool :=
    match conc with
    | none => (none, false)
    | some w =>
      if w == "priced-order" || (multi && (w.startsWith "priced: stales" || w.startsWith "priced: length")) then (none, false)
      else match abs.1 with
        -- the oracle model matches, the heap prediction does not: legitimate only inside a multi-account operation, where a
        -- reheap in Go map order makes the later tie-breaks unpredictable (counted as `weak`)
        | none => (some ("concrete: " ++ w), multi)
        | some a => (some a, abs.2)
  let res := kv fo "res"
  let op := kv fi "op"
  let arg (k : String) : String := kv fi ("o." ++ k)
  let finish (adds : Nat) (limits : Bool) (isReset : Bool) (extra : Option String) (d : Option String) (weakOK : Bool) : String :=
    -- Spec first
    let spec : Option String :=
      match invFail k o with
      | some w => some (if isReset && w.startsWith "run:" && isReinjectHole k s o then "run-reinject-hole:" ++ strDrop w 4 else w)
      | none =>
        if limits && !o.checkLimits (List.range k) then some "limits"
        else match replacementFail k s o adds with
          | some w => some w
          | none => extra
    match spec with
    | some w => "spec\tspec-reject:" ++ w
    | none =>
      match d with
      | none => "ok\tagree"
      | some w => if weakOK then "weak\tagree" else (w ++ "\tspec-ok")
  match op with
  | "check" =>
    -- concurrent tier: only the state clauses; a hole below a nonce the chain had already reached is the re-injection hole
    let hi := ((arg "hi").splitOn ";").map nat!
    match invFail k o with
    | some w =>
      let known := w.startsWith "run:" && (List.range k).any (fun a =>
        !o.checkRun a && decide (o.cnonce a + (runFrom (o.cnonce a) (o.pending a).items).1.length < hi.getD a 0))
      "spec\tspec-reject:" ++ (if known then "run-reinject-hole:" ++ strDrop w 4 else w)
    | none => "ok\tagree"
  | "add" =>
    match parseTx (arg "tx") with
    | none => "bad-op\tagree"
    | some t =>
      let shp := arg "kind"
      let sh : Shape := if shp == "1" then .oversized else if shp == "2" then .badsig else .wellformed
      let r := both false (cRunAdd k s o P oP t (arg "loc" == "1") sh res) (runAdd k s o t (arg "loc" == "1") sh res, false)
      finish 1 false false none r.1 false
  | "adds" =>
    let ts := parseTxs (arg "txs")
    let r := both true (cRunAdds k s o P oP ts (arg "loc" == "1") res) (runAdds k s o ts (arg "loc" == "1") res)
    finish ts.length false false none r.1 r.2
  | "price" =>
    let r := both false (cRunPrice k s o P oP (nat! (arg "p"))) (diffState k (s.setGasPrice (nat! (arg "p"))) o, false)
    finish 0 false false none r.1 false
  | "reset" =>
    let disc := parseTxs (arg "disc")
    let inc := parseTxs (arg "inc")
    let oldN := nat! (arg "old")
    let newN := nat! (arg "new")
    let v := parseView (arg "view") (nat! (arg "mg"))
    let reorg := arg "lin" != "1"
    let r := both true (cRunReset k s o P oP v oldN newN reorg disc inc) (runReset true k s o v oldN newN reorg disc inc)
    finish disc.length true true (reorgFail s o oldN newN reorg disc inc) r.1 r.2
  | _ => "bad-op\tagree"

def main : IO Unit := runLines handle

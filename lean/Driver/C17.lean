import Aqv.Base.Proto
import Aqv.Base.Keccak
import Aqv.Model.Net
open Aqv Aqv.Proto Aqv.Net

/-! Model driver for C17. Case kinds (see go/harness/cmd/c17):
  disc <nc> <packet> <rec>                       decodePacket; rec = recovered NodeID hex | e (recovery error) | x (not consulted)
  enc  <nc> <type> <sig> <rendering of request>   encodePacket (signature supplied by the harness)
  exp  <now> <ts>                                 expired
  sess <snW> <snR> <preload> <tamper> <E> <D> <msgs>   a frame session over the toy primitives
  hmsg <code> <size> <decodes>                    aqua handleMsg front
  phs  <code> <size> <decodes>                    readProtocolHandshake front
  hs   <a|r> <plainSize> <conn> <d1> <d2> <rlp>   readHandshakeMsg size logic
  bond <history>                                  discovery bonding history: which findnodes are served
  idv  <id>                                       NodeID.Pubkey / validateComplete: identity is a curve point
  auth <id> <ecdhOk> <recOk>                      responder handleAuthMsg for a claimed identity
-/

def natOf (s : String) : Nat := s.toNat?.getD 0

/-! ### rendering of discovery packets (must match the Go harness) -/

def rEp (e : Endpoint) : String := hexOrDash e.ip ++ "/" ++ toString e.udp ++ "/" ++ toString e.tcp
def rNd (n : RpcNode) : String := hexOrDash n.ip ++ "/" ++ toString n.udp ++ "/" ++ toString n.tcp ++ "/" ++ hexOrDash n.id
def joinWith (sep : String) (xs : List String) : String :=
  match xs with
  | [] => "-"
  | x :: rest => rest.foldl (fun acc y => acc ++ sep ++ y) x
def rRest (rs : List Bytes) : String := joinWith "," (rs.map hexOrDash)

def renderPacket : Packet → String
  | .ping v s d e r => "p v=" ++ toString v ++ " src=" ++ rEp s ++ " dst=" ++ rEp d ++ " exp=" ++ toString e ++ " rest=" ++ rRest r
  | .pong d t e r => "o dst=" ++ rEp d ++ " tok=" ++ hexOrDash t ++ " exp=" ++ toString e ++ " rest=" ++ rRest r
  | .findnode t e r => "f target=" ++ hexOrDash t ++ " exp=" ++ toString e ++ " rest=" ++ rRest r
  | .neighbors ns e r => "n nodes=" ++ joinWith ";" (ns.map rNd) ++ " exp=" ++ toString e ++ " rest=" ++ rRest r

def renderDecoded (d : Decoded) : String :=
  "ok id=" ++ hexOrDash d.from_ ++ " h=" ++ hexOrDash d.hash ++ " " ++ renderPacket d.pkt

/-! ### parsing of a request rendering (for `enc`) -/

def parseEp (s : String) : Option Endpoint :=
  match s.splitOn "/" with
  | [ip, u, t] => (bytesOfHex ip).map (fun b => { ip := b, udp := natOf u, tcp := natOf t })
  | _ => none
def parseNd (s : String) : Option RpcNode :=
  match s.splitOn "/" with
  | [ip, u, t, id] =>
    match bytesOfHex ip, bytesOfHex id with
    | some b, some i => some { ip := b, udp := natOf u, tcp := natOf t, id := i }
    | _, _ => none
  | _ => none
def parseList {α : Type} (sep : String) (f : String → Option α) (s : String) : Option (List α) :=
  if s = "-" then some [] else (s.splitOn sep).mapM f
def kv (key : String) (fs : List String) : Option String :=
  fs.findSome? (fun f => if f.startsWith (key ++ "=") then some (strDrop f (key.length + 1)) else none)

def parsePacket (fs : List String) : Option Packet :=
  match fs with
  | "p" :: r => do
    let v ← kv "v" r; let s ← (kv "src" r).bind parseEp; let d ← (kv "dst" r).bind parseEp
    let e ← kv "exp" r; let rest ← (kv "rest" r).bind (parseList "," bytesOfHex)
    some (.ping (natOf v) s d (natOf e) rest)
  | "o" :: r => do
    let d ← (kv "dst" r).bind parseEp; let t ← (kv "tok" r).bind bytesOfHex
    let e ← kv "exp" r; let rest ← (kv "rest" r).bind (parseList "," bytesOfHex)
    some (.pong d t (natOf e) rest)
  | "f" :: r => do
    let t ← (kv "target" r).bind bytesOfHex
    let e ← kv "exp" r; let rest ← (kv "rest" r).bind (parseList "," bytesOfHex)
    some (.findnode t (natOf e) rest)
  | "n" :: r => do
    let ns ← (kv "nodes" r).bind (parseList ";" parseNd)
    let e ← kv "exp" r; let rest ← (kv "rest" r).bind (parseList "," bytesOfHex)
    some (.neighbors ns (natOf e) rest)
  | _ => none

/-! ### discovery -/

def discOut (nc : Bool) (buf : Bytes) (rec : String) : String :=
  let missing := rec = "x"
  let P : DiscPrims := { H := Keccak.keccak256, recover := fun _ _ => if rec = "e" ∨ rec = "x" then none else bytesOfHex rec }
  match decodePacket P nc buf with
  | .ok d => renderDecoded d
  | .err .badSig => if missing then "oracle-missing" else "err"
  | .err _ => "err"
  | .panic _ => "panic"

/-! ### toy primitives shared with the Go harness (`toy.go`) -/

def toyAbsorb (st : UInt64 × UInt64 × UInt64 × UInt64 × Nat) (b : UInt8) : UInt64 × UInt64 × UInt64 × UInt64 × Nat :=
  let (a0, a1, a2, a3, n) := st
  let p : UInt64 := 0x100000001b3
  match n % 4 with
  | 0 => let x := (a0 ^^^ b.toUInt64) * p; (x, a1 ^^^ (x >>> 29), a2, a3, n + 1)
  | 1 => let x := (a1 ^^^ b.toUInt64) * p; (a0, x, a2 ^^^ (x >>> 29), a3, n + 1)
  | 2 => let x := (a2 ^^^ b.toUInt64) * p; (a0, a1, x, a3 ^^^ (x >>> 29), n + 1)
  | _ => let x := (a3 ^^^ b.toUInt64) * p; (a0 ^^^ (x >>> 29), a1, a2, x, n + 1)

def be64 (x : UInt64) : Bytes :=
  [(x >>> 56).toUInt8, (x >>> 48).toUInt8, (x >>> 40).toUInt8, (x >>> 32).toUInt8,
   (x >>> 24).toUInt8, (x >>> 16).toUInt8, (x >>> 8).toUInt8, x.toUInt8]

def toyH (bs : Bytes) : Bytes :=
  let o : UInt64 := 0xcbf29ce484222325
  let (a0, a1, a2, a3, n) := bs.foldl toyAbsorb (o, o + 1, o + 2, o + 3, 0)
  let g : UInt64 := 0x9E3779B97F4A7C15
  let l := UInt64.ofNat n
  be64 (a0 ^^^ (a1 * g) ^^^ l) ++ be64 (a1 ^^^ (a2 * g) ^^^ l) ++ be64 (a2 ^^^ (a3 * g) ^^^ l) ++ be64 (a3 ^^^ (a0 * g) ^^^ l)

def toyE (blk : Bytes) : Bytes :=
  (List.range 16).map (fun i =>
    (blk.getD ((i + 5) % 16) 0 ^^^ UInt8.ofNat (0x3c + 11 * i)) + UInt8.ofNat (7 * i + 1))

def toyKs (n : Nat) : UInt8 :=
  let x : UInt64 := UInt64.ofNat n * 0x9E3779B97F4A7C15 + 0x1234567
  ((x >>> 29) ^^^ (x >>> 47)).toUInt8

/-! ### frame sessions -/

def lookupE (tab : List (Bytes × Bytes)) (x : Bytes) : Bytes :=
  match tab.find? (fun e => e.1 == x) with
  | some e => e.2
  | none => [0xde, 0xad]      -- oracle missing: shows up as a disagreement
def lookupD (tab : List (Bytes × Option Nat × Option Bytes)) (x : Bytes) : Option Nat × Option Bytes :=
  match tab.find? (fun e => e.1 == x) with
  | some e => e.2
  | none => (none, none)

def parseE (s : String) : List (Bytes × Bytes) :=
  if s = "-" then [] else (s.splitOn ",").filterMap (fun e =>
    match e.splitOn ">" with
    | [a, b] => match bytesOfHex a, bytesOfHex b with
      | some x, some y => some (x, y)
      | _, _ => none
    | _ => none)
def parseD (s : String) : List (Bytes × Option Nat × Option Bytes) :=
  if s = "-" then [] else (s.splitOn ",").filterMap (fun e =>
    match e.splitOn ">" with
    | [a, l, o] => match bytesOfHex a with
      | some x => some (x, (if l = "e" then none else some (natOf l)), (if o = "e" then none else bytesOfHex o))
      | none => none
    | _ => none)
def parseMsgs (s : String) : List Msg :=
  if s = "-" then [] else (s.splitOn ",").filterMap (fun e =>
    match e.splitOn ":" with
    | [c, z, p] => (bytesOfHex p).map (fun b => { code := natOf c, size := natOf z, payload := b })
    | _ => none)

def tamper (w : Bytes) (t : String) : Bytes :=
  match t.splitOn ":" with
  | ["flip", i, x] => let i := natOf i; match w[i]? with
    | some b => w.set i (b ^^^ UInt8.ofNat (natOf x))
    | none => w
  | ["drop", i] => w.eraseIdx (natOf i)
  | ["trunc", n] => w.take (natOf n)
  | ["ins", i, b] => w.take (natOf i) ++ [UInt8.ofNat (natOf b)] ++ w.drop (natOf i)
  | _ => w

/-- write until the first failing message: (wire, index of the failing message) -/
def writeSeq (P : Prims) (sn : Bool) : Dir → List Msg → Nat → Bytes → Bytes × String
  | _, [], _, acc => (acc, "-")
  | d, m :: ms, i, acc =>
    match writeMsg P sn d m with
    | .ok (d1, w) => writeSeq P sn d1 ms (i + 1) (acc ++ w)
    | .err _ => (acc, toString i)
    | .panic _ => (acc, "panic" ++ toString i)

def renderMsg (m : Msg) : String := "ok:" ++ toString m.code ++ ":" ++ toString m.size ++ ":" ++ hexOrDash m.payload

def readSeq (P : Prims) (sn : Bool) : Nat → Dir → Bytes → List String → List String
  | 0, _, _, acc => acc.reverse
  | f+1, d, conn, acc =>
    match readMsg P sn d conn with
    | .ok (d1, m, conn1) => readSeq P sn f d1 conn1 (renderMsg m :: acc)
    | .err _ => ("err" :: acc).reverse
    | .panic _ => ("panic" :: acc).reverse

def sessOut (snW snR : Bool) (preload : Bytes) (tam : String) (eo : String) (dor : String) (ms : List Msg) : String :=
  let et := parseE eo
  let dt := parseD dor
  let P : Prims := { H := toyH, E := toyE, ks := toyKs, snapEnc := lookupE et,
                     snapLen := fun x => (lookupD dt x).1, snapDec := fun x => (lookupD dt x).2 }
  let d0 : Dir := { mac := preload, pos := 0 }
  let (w, werr) := writeSeq P snW d0 ms 0 []
  let w' := tamper w tam
  let rs := readSeq P snR (w'.length / 48 + 2) d0 w' []
  "W " ++ hexOrDash w ++ " " ++ werr ++ " R " ++ String.intercalate ";" rs

/-- Spec judgement of a Go session output: no panic; with equal snappy modes everything delivered is a prefix of what
    was written (exact), and an untampered session delivers everything. -/
def sessSpec (snW snR : Bool) (tam : String) (ms : List Msg) (go : String) : Bool :=
  match go.splitOn " R " with
  | [wpart, r] =>
    let rs := r.splitOn ";"
    let oks := rs.filter (fun s => s.startsWith "ok:")
    let werr := (fields wpart).getLast?.getD "-"
    let nwritten := if werr = "-" then ms.length else natOf werr
    let written := (ms.take nwritten).map renderMsg
    !(rs.any (· == "panic")) && !(werr.startsWith "panic") &&
      (snW != snR || (oks.length ≤ written.length && oks == written.take oks.length &&
        (tam != "none" || oks.length == written.length)))
  | _ => false

/-! ### handshake size logic -/

def hsOut (isAuth : Bool) (plainSize : Nat) (conn : Bytes) (d1 d2 rlp : String) : String :=
  let plain (s : String) : Option Bytes := if s = "x" then none else some (List.replicate (natOf s) 0)
  let P : HsPrims := { decrypt := fun _ s2 => if s2.isEmpty then plain d1 else plain d2, decodeEip8 := fun _ => rlp = "1" }
  match (readHandshakeMsg P isAuth plainSize conn).2 with
  | .ok n => "ok " ++ toString n
  | .err _ => "err"
  | .panic _ => "panic"

def classOf {α : Type} (o : Out α) : String :=
  match o with
  | .ok _ => "ok"
  | .err .msgTooLarge => "toolarge"
  | .err .extraStatus => "extrastatus"
  | .err .invalidCode => "badcode"
  | .err .decode => "decode"
  | .err .discRequested => "disc"
  | .err _ => "err"
  | .panic _ => "panic"

def handle (l : String) : String :=
  let (inp, go) := splitCase l
  match fields inp with
  | ["disc", nc, hex, rec] =>
    match bytesOfHex hex with
    | none => "bad-op\tagree"
    | some buf =>
      let m := discOut (nc = "1") buf rec
      -- Spec: never a panic; nothing is delivered that the model (hash + signature + well-formed body) rejects,
      -- and what is delivered is exactly the authenticated content. Rejecting more is a harmless difference.
      verdict m go (go == "err") (if go.startsWith "panic" then "panic-on-network-input" else "delivered-unauthenticated-or-different")
  | "enc" :: nc :: ty :: sig :: rest =>
    match bytesOfHex sig, parsePacket rest with
    | some sg, some p =>
      let m := match encodePacket Keccak.keccak256 (fun _ => sg) (nc = "1") (UInt8.ofNat (natOf ty)) p with
        | .ok (pk, h) => "ok " ++ hexOrDash pk ++ " " ++ hexOrDash h
        | .err _ => "err"
        | .panic _ => "panic"
      verdict m go false "encoding-differs"
    | _, _ => "bad-op\tagree"
  | ["exp", now, ts] =>
    let m := if expired (natOf now) (natOf ts) then "1" else "0"
    verdict m go false "expiry-differs"
  | ["sess", snW, snR, pre, tam, eo, dor, msgs] =>
    match bytesOfHex pre with
    | none => "bad-op\tagree"
    | some p =>
      let ms := parseMsgs msgs
      let m := sessOut (snW = "1") (snR = "1") p tam eo dor ms
      verdict m go (sessSpec (snW = "1") (snR = "1") tam ms go) "frame-session-delivers-altered-or-panics"
  | ["hmsg", code, size, dec] =>
    let m := classOf (handleMsg (fun _ _ => dec = "1") { code := natOf code, size := natOf size, payload := List.replicate (min (natOf size) 64) 0 })
    verdict m go (go != "panic" && (natOf size ≤ protocolMaxMsgSize || go == "toolarge")) "oversize-or-panic-in-handler"
  | ["phs", code, size, dec] =>
    let m := classOf (readProtoHandshake (fun _ => dec = "1") { code := natOf code, size := natOf size, payload := List.replicate (min (natOf size) 64) 0 })
    verdict m go (go != "panic" && (natOf size ≤ baseProtocolMaxMsgSize || go == "toolarge")) "oversize-or-panic-in-proto-handshake"
  | ["bond", evs] =>
    -- history tokens: P:<id>:<ok|timeout|badtok>  (ping from id, then the fate of our ping-back), O:<id> (unsolicited pong), F:<id>
    let step (acc : BondSt × List String × Nat) (tok : String) : BondSt × List String × Nat :=
      let (st, outs, n) := acc
      let h : Bytes := [UInt8.ofNat n]
      match tok.splitOn ":" with
      | ["P", id, fate] =>
        let i := id.toUTF8.toList
        let st1 := bondRun st [.pingRecv i, .pingSent i h]
        let st2 := match fate with
          | "ok" => bondRun st1 [.pongRecv i h]
          | "badtok" => bondRun st1 [.pongRecv i (0xff :: h), .pingTimeout i]
          | _ => bondRun st1 [.pingTimeout i]
        (st2, outs, n + 1)
      | ["O", id] => (bondRun st [.pongRecv id.toUTF8.toList [0xee]], outs, n + 1)
      | ["F", id] => (bondStep st (.findnode id.toUTF8.toList), outs ++ [if findnodeServed st id.toUTF8.toList then "1" else "0"], n + 1)
      | _ => (st, outs, n)
    let (_, outs, _) := (evs.splitOn ",").foldl step (({} : BondSt), [], 0)
    let m := String.intercalate "," outs
    -- Spec: a findnode that the model refuses (no verified pong from that key) must be refused; refusing more is harmless
    let goOuts := go.splitOn ","
    let ok := goOuts.length == outs.length && (List.zip goOuts outs).all (fun (g, mo) => g == "0" || mo == "1")
    verdict m go ok "findnode-served-without-a-verified-pong"
  | ["idv", hex] =>
    match bytesOfHex hex with
    | none => "bad-op\tagree"
    | some id =>
      let m := if idOnCurve id then "1" else "0"
      -- Spec: an identity that is not a point of the curve must never be accepted; refusing more is harmless.
      verdict m go (go == "0") "off-curve-identity-accepted"
  | ["auth", hex, ecdhOk, recOk] =>
    match bytesOfHex hex with
    | none => "bad-op\tagree"
    | some id =>
      let P : AuthPrims := { validID := idOnCurve, ecdh := fun _ => if ecdhOk = "1" then some (List.replicate 32 1) else none,
                             recover := fun _ _ => if recOk = "1" then some (List.replicate 65 4) else none }
      let m := classOf (handleAuthMsg P { sig := List.replicate 65 0, pub := id, nonce := List.replicate 32 2 })
      verdict m go (go == "err") "responder-derived-secrets-for-an-off-curve-identity"
  | ["hs", k, ps, conn, d1, d2, rlp] =>
    match bytesOfHex conn with
    | none => "bad-op\tagree"
    | some c =>
      let m := hsOut (k = "a") (natOf ps) c d1 d2 rlp
      verdict m go (go == "err") "handshake-reader"
  | _ => "bad-op\tagree"

def main : IO Unit := runLines handle

import Driver.C11

// exemptions: T-gen extractor (go/ast) for the hard-coded uncle exemptions of (*Aquahash).VerifyUncles.
// usage: (cd go/extract && go run ./exemptions <repo>/consensus/aquahash)   -> JSON between VERIF-DUMP-BEGIN / VERIF-DUMP-END
// Collects, inside VerifyUncles, every `<lhs> == "0x<64 hex>" && <x>.Uint64() == <n>` conjunction (lhs printed as source text)
// and every `number > <n>` threshold.
package main

import (
	"encoding/json"
	"fmt"
	"go/ast"
	"go/parser"
	"go/token"
	"go/types"
	"os"
	"strconv"
)

type entry struct {
	Lhs    string `json:"lhs"`
	Hash   string `json:"hash"`
	NumLhs string `json:"numLhs"`
	Number uint64 `json:"number"`
}

func eqLit(e ast.Expr, kind token.Token) (string, string, bool) {
	b, ok := e.(*ast.BinaryExpr)
	if !ok || b.Op != token.EQL {
		return "", "", false
	}
	lit, ok := b.Y.(*ast.BasicLit)
	if !ok || lit.Kind != kind {
		return "", "", false
	}
	return types.ExprString(b.X), lit.Value, true
}

func main() {
	fset := token.NewFileSet()
	f, err := parser.ParseFile(fset, os.Args[1]+"/consensus.go", nil, 0)
	if err != nil {
		fmt.Println(err)
		os.Exit(1)
	}
	var entries []entry
	var thresholds []uint64
	found := false
	for _, d := range f.Decls {
		fd, ok := d.(*ast.FuncDecl)
		if !ok || fd.Name.Name != "VerifyUncles" || fd.Body == nil {
			continue
		}
		found = true
		ast.Inspect(fd.Body, func(n ast.Node) bool {
			b, ok := n.(*ast.BinaryExpr)
			if !ok {
				return true
			}
			if b.Op == token.LAND {
				l, h, ok1 := eqLit(b.X, token.STRING)
				nl, num, ok2 := eqLit(b.Y, token.INT)
				if ok1 && ok2 {
					hs, _ := strconv.Unquote(h)
					v, _ := strconv.ParseUint(num, 10, 64)
					entries = append(entries, entry{l, hs, nl, v})
				}
			}
			if b.Op == token.GTR {
				if id, ok := b.X.(*ast.Ident); ok && id.Name == "number" {
					if lit, ok := b.Y.(*ast.BasicLit); ok && lit.Kind == token.INT {
						v, _ := strconv.ParseUint(lit.Value, 10, 64)
						thresholds = append(thresholds, v)
					}
				}
			}
			return true
		})
	}
	if !found {
		fmt.Println("VerifyUncles not found")
		os.Exit(1)
	}
	out, _ := json.Marshal(map[string]interface{}{"entries": entries, "thresholds": thresholds})
	fmt.Printf("VERIF-DUMP-BEGIN\n%s\nVERIF-DUMP-END\n", out)
}

package main

import (
	"fmt"
	"go/token"
	"go/types"
	"sort"
	"strings"

	"golang.org/x/tools/go/ssa"
)

type step func(next node) node

func (ft *ftr) run() error {
	if err := ft.prepass(); err != nil {
		return err
	}
	f := ft.f
	if f.Signature.Variadic() {
		return ft.refuse(nil, "variadic function")
	}
	if len(f.FreeVars) > 0 {
		return ft.refuse(nil, "closure with free variables")
	}
	if f.Recover != nil {
		return ft.refuse(nil, "function with defer/recover")
	}
	ft.info.lean = ft.t.leanName(f)
	// parameters
	for i, p := range f.Params {
		name := leanIdent(p.Name())
		if p.Name() == "_" || p.Name() == "" {
			name = fmt.Sprintf("arg%d", i)
		}
		t := p.Type()
		switch {
		case isBigPtr(t):
			if ft.nilable[p] {
				ft.declare(name, "(Option Int)")
				ft.env[p] = value{k: kBigOpt, e: ref(name), ty: t}
				ft.paramSlots = append(ft.paramSlots, slot{kind: sBigOpt, name: name, ty: "(Option Int)", param: i, goTy: t})
			} else {
				ft.declare(name, "Int")
				ft.env[p] = value{k: kBig, e: ref(name), ty: t}
				ft.paramSlots = append(ft.paramSlots, slot{kind: sBig, name: name, ty: "Int", param: i, goTy: t})
			}
		case ft.roots[p] != nil:
			r := ft.roots[p]
			ft.env[p] = value{k: kPtr, ty: t, root: r}
		default:
			if si, ok := scalarOf(t); ok {
				ft.declare(name, si.lean)
				ft.env[p] = value{k: kScalar, e: ref(name), ty: t}
				ft.paramSlots = append(ft.paramSlots, slot{kind: sScalar, name: name, ty: si.lean, param: i, goTy: t})
			} else if _, ok := t.Underlying().(*types.Struct); ok {
				ft.env[p] = ft.structParam(i, name, t, nil)
			} else if _, ok := t.Underlying().(*types.Slice); ok {
				// a slice parameter is visible only through len(): parameter <name>_len
				ln := name + "_len"
				ft.declare(ln, "Int64")
				ft.env[p] = value{k: kSlice, e: ref(ln), ty: t}
				ft.paramSlots = append(ft.paramSlots, slot{kind: sSliceLen, name: ln, ty: "Int64", param: i, goTy: t})
			} else if _, ok := t.Underlying().(*types.Map); ok {
				lt, err := mapLeanTy(t)
				if err != nil {
					return ft.refuse(nil, "parameter %s: %v", p.Name(), err)
				}
				ft.declare(name, lt)
				ft.env[p] = value{k: kMap, e: ref(name), ty: t}
				ft.paramSlots = append(ft.paramSlots, slot{kind: sMap, name: name, ty: lt, param: i, goTy: t})
			} else {
				// unsupported parameter types are only a problem when used: remember a poison value
				ft.env[p] = value{k: kind(-1), ty: t, e: lit(p.Name())}
			}
		}
	}
	// cells
	cur := map[*cell]ex{}
	for _, c := range ft.cells {
		lt, _ := c.leanTy()
		ft.declare(c.name, lt)
		if c.root.param >= 0 || c.root.param == -2 {
			cur[c] = ref(c.name)
		} else if c.bigVal {
			cur[c] = lit("(0 : Int)")
		} else if c.threaded {
			z, err := zeroOf(c.ty)
			if err != nil {
				return ft.refuse(nil, "local variable %s: %v", c.name, err)
			}
			cur[c] = lit(z)
		}
	}
	body, err := ft.block(f.Blocks[0], cur)
	if err != nil {
		return err
	}
	return ft.finish(body)
}

func zeroOf(t types.Type) (string, error) {
	si, ok := scalarOf(t)
	if !ok {
		return "", fmt.Errorf("no zero value for %s", t)
	}
	switch {
	case si.lean == "Bool":
		return "false", nil
	case si.lean == "String":
		return "\"\"", nil
	}
	return fmt.Sprintf("(0 : %s)", si.lean), nil
}

// structParam: the value of a by-value struct parameter (or a nested struct field of one); leaf fields become Lean
// parameters `<param>_<Field>` the first time they are read.
func (ft *ftr) structParam(param int, name string, t types.Type, path []int) value {
	v := value{k: kStruct, ty: t}
	v.sfield = func(i int) (value, error) {
		st := t.Underlying().(*types.Struct)
		if i >= st.NumFields() {
			return value{}, fmt.Errorf("field index %d out of range for %s", i, t)
		}
		fld := st.Field(i)
		fname := name + "_" + leanIdent(fld.Name())
		fpath := append(append([]int{}, path...), i)
		ftyp := fld.Type()
		if _, ok := ftyp.Underlying().(*types.Struct); ok {
			return ft.structParam(param, fname, ftyp, fpath), nil
		}
		var lt string
		var k kind
		switch {
		case isBigPtr(ftyp):
			lt, k = "(Option Int)", kBigOpt
		default:
			si, ok := scalarOf(ftyp)
			if !ok {
				return value{}, fmt.Errorf("struct field %s of unsupported type %s", fname, ftyp)
			}
			lt, k = si.lean, kScalar
		}
		if _, ok := ft.fieldsUsed[fname]; !ok {
			ft.fieldsUsed[fname] = &slot{kind: sField, name: fname, ty: lt, param: param, path: fpath, goTy: ftyp}
			ft.declare(fname, lt)
		}
		return value{k: k, e: ref(fname), ty: ftyp}, nil
	}
	return v
}

// ---- values ------------------------------------------------------------------------------------------------------------

func (ft *ftr) valOf(at ssa.Instruction, v ssa.Value) (value, error) {
	switch v := v.(type) {
	case *ssa.Const:
		t := v.Type()
		if v.Value == nil {
			switch {
			case isBigPtr(t):
				return value{k: kBigOpt, e: lit("(none : Option Int)"), ty: t}, nil
			case isErrorType(t):
				return value{k: kErr, e: lit("(none : Option String)"), ty: t}, nil
			}
			if si, ok := scalarOf(t); ok && si.lean == "String" { // zero string
				return value{k: kScalar, e: lit("\"\""), ty: t}, nil
			}
			return value{}, ft.refuse(at, "nil / zero constant of unsupported type %s", t)
		}
		s, err := constLit(v.Value, t)
		if err != nil {
			return value{}, ft.refuse(at, "%v", err)
		}
		return value{k: kScalar, e: lit(s), ty: t}, nil
	case *ssa.Global:
		return value{}, ft.refuse(at, "address of package-level variable %s used as a value", v.Name())
	case *ssa.Function, *ssa.Builtin:
		return value{}, ft.refuse(at, "function value %s used as data (dynamic call / closure)", v.Name())
	}
	if x, ok := ft.env[v]; ok {
		if x.bcell != nil {
			e, ok := ft.curNow[x.bcell]
			if !ok {
				return value{}, ft.refuse(at, "internal: no current value for the big.Int cell %s", x.bcell.name)
			}
			x.e = e
		}
		if x.k == kind(-1) {
			return value{}, ft.refuse(at, "parameter %s has unsupported type %s", v.Name(), v.Type())
		}
		return x, nil
	}
	if r, path, ok := ft.resolvePtr(v); ok {
		return value{k: kPtr, ty: v.Type(), root: r, path: path}, nil
	}
	return value{}, ft.refuse(at, "operand %s (%T) was not produced by a translated instruction", v.Name(), v)
}

func (ft *ftr) scalar(at ssa.Instruction, v ssa.Value) (value, scalarInfo, error) {
	x, err := ft.valOf(at, v)
	if err != nil {
		return x, scalarInfo{}, err
	}
	if x.k != kScalar {
		return x, scalarInfo{}, ft.refuse(at, "operand %s of type %s is not an integer/bool/string value", v.Name(), v.Type())
	}
	si, ok := scalarOf(x.ty)
	if !ok {
		return x, si, ft.refuse(at, "operand %s of unsupported type %s", v.Name(), v.Type())
	}
	return x, si, nil
}

// bind gives the result of an instruction its register name.
func (ft *ftr) bind(steps *[]step, ins ssa.Value, k kind, e ex) error {
	v := value{k: k, ty: ins.Type()}
	lt, err := v.leanTy()
	if err != nil {
		return err
	}
	name := ins.Name()
	ft.declare(name, lt)
	*steps = append(*steps, func(next node) node { return &nLet{name: name, e: e, next: next} })
	v.e = ref(name)
	ft.env[ins] = v
	return nil
}

// unwrap: a possibly-nil big value is dereferenced: nil panics (as the method call would in Go).
func (ft *ftr) unwrap(steps *[]step, at ssa.Instruction, v value, tag string) ex {
	if v.k == kBig {
		return v.e
	}
	name := fmt.Sprintf("%s_%s", at.(ssa.Value).Name(), tag)
	ft.declare(name, "Int")
	e := v.e
	*steps = append(*steps, func(next node) node { return &nBind{name: name, e: e, why: "nil *big.Int dereference", next: next} })
	return ref(name)
}

// ---- blocks ------------------------------------------------------------------------------------------------------------

func copyCur(m map[*cell]ex) map[*cell]ex {
	n := make(map[*cell]ex, len(m))
	for k, v := range m {
		n[k] = v
	}
	return n
}

func (ft *ftr) block(b *ssa.BasicBlock, cur map[*cell]ex) (node, error) {
	var steps []step
	var term node
	for _, ins := range b.Instrs {
		ft.curNow = cur
		switch ins := ins.(type) {
		case *ssa.Phi, *ssa.DebugRef:
			continue
		case *ssa.If:
			c, si, err := ft.scalar(ins, ins.Cond)
			if err != nil {
				return nil, err
			}
			if si.lean != "Bool" {
				return nil, ft.refuse(ins, "condition is not a bool")
			}
			a, err := ft.edge(b, 0, cur)
			if err != nil {
				return nil, err
			}
			bb, err := ft.edge(b, 1, cur)
			if err != nil {
				return nil, err
			}
			term = &nIf{cond: c.e, a: a, b: bb}
		case *ssa.Jump:
			n, err := ft.edge(b, 0, cur)
			if err != nil {
				return nil, err
			}
			term = n
		case *ssa.Return:
			var vals []value
			for _, r := range ins.Results {
				v, err := ft.valOf(ins, r)
				if err != nil {
					return nil, err
				}
				switch v.k {
				case kScalar, kBig, kBigOpt, kErr:
				case kPtr:
					if v.root.param < 0 || len(v.path) != 0 {
						return nil, ft.refuse(ins, "returns a pointer that is not one of its pointer parameters")
					}
					v = value{k: kUnit, e: lit("()"), ty: v.ty}
				default:
					return nil, ft.refuse(ins, "result %s of unsupported type %s", r.Name(), r.Type())
				}
				vals = append(vals, v)
			}
			for _, c := range ft.cells {
				if c.root.param >= 0 && c.written {
					vals = append(vals, value{k: kScalar, e: cur[c], ty: c.ty})
				}
			}
			term = &nRet{vals: vals}
		case *ssa.Panic:
			why := "panic"
			if mi, ok := ins.X.(*ssa.MakeInterface); ok {
				if c, ok := mi.X.(*ssa.Const); ok && c.Value != nil {
					why = "panic(" + strings.ReplaceAll(c.Value.ExactString(), "-/", "- /") + ")"
				}
			}
			term = &nPanic{why: why}
		case *ssa.MakeInterface:
			// only as the operand of panic
			for _, r := range *ins.Referrers() {
				if _, ok := r.(*ssa.Panic); !ok {
					return nil, ft.refuse(ins, "conversion to an interface value")
				}
			}
		default:
			if err := ft.instr(&steps, ins, cur); err != nil {
				return nil, err
			}
		}
	}
	if term == nil {
		return nil, ft.refuse(nil, "block %d has no terminator", b.Index)
	}
	for i := len(steps) - 1; i >= 0; i-- {
		term = steps[i](term)
	}
	return term, nil
}

func (ft *ftr) edge(b *ssa.BasicBlock, k int, cur map[*cell]ex) (node, error) {
	s := b.Succs[k]
	if len(s.Preds) == 1 {
		return ft.block(s, copyCur(cur))
	}
	jd, err := ft.join(s)
	if err != nil {
		return nil, err
	}
	ft.curNow = cur // translating the join block moved the memory state: back to the state at this edge
	occ := 0
	for i := 0; i < k; i++ {
		if b.Succs[i] == s {
			occ++
		}
	}
	pi := -1
	for j, p := range s.Preds {
		if p == b {
			if occ == 0 {
				pi = j
				break
			}
			occ--
		}
	}
	if pi < 0 {
		return nil, ft.refuse(nil, "internal: predecessor index of block %d in block %d not found", b.Index, s.Index)
	}
	at := b.Instrs[len(b.Instrs)-1]
	j := &nJump{target: jd}
	for _, ins := range s.Instrs {
		phi, ok := ins.(*ssa.Phi)
		if !ok {
			break
		}
		v, err := ft.valOf(at, phi.Edges[pi])
		if err != nil {
			return nil, err
		}
		want := ft.env[phi].k
		switch {
		case v.k == want:
			j.phiArgs = append(j.phiArgs, v.e)
		case want == kBigOpt && v.k == kBig:
			j.phiArgs = append(j.phiArgs, fx("(some %s)", v.e))
		default:
			return nil, ft.refuse(phi, "φ operand %s has an unsupported kind", phi.Edges[pi].Name())
		}
	}
	for _, c := range ft.joinCells(s) {
		e, ok := cur[c]
		if !ok {
			return nil, ft.refuse(at, "internal: no current value for cell %s", c.name)
		}
		j.cellArgs = append(j.cellArgs, e)
	}
	return j, nil
}

// surelyNonNil: a *big.Int value that cannot be nil by construction (decides whether a φ-node is `Int` or `Option Int`).
func (ft *ftr) surelyNonNil(v ssa.Value, seen map[ssa.Value]bool) bool {
	if seen[v] {
		return true
	}
	seen[v] = true
	switch v := v.(type) {
	case *ssa.Alloc:
		return true
	case *ssa.Parameter:
		return !ft.nilable[v]
	case *ssa.UnOp:
		_, isGlobal := v.X.(*ssa.Global)
		return v.Op == token.MUL && isGlobal
	case *ssa.Phi:
		for _, e := range v.Edges {
			if !ft.surelyNonNil(e, seen) {
				return false
			}
		}
		return true
	case *ssa.Call:
		callee := ft.staticCallee(&v.Call)
		if callee == nil {
			return false
		}
		if callee.Pkg != nil && callee.Pkg.Pkg.Path() == "math/big" {
			return isBigPtr(v.Type()) // NewInt and every method returning its receiver
		}
		if ci, ok := ft.t.done[callee]; ok && ci.nGoRes == 1 {
			return ci.results[0].k == kBig
		}
	case *ssa.Extract:
		if c, ok := v.Tuple.(*ssa.Call); ok {
			if callee := ft.staticCallee(&c.Call); callee != nil {
				if ci, ok := ft.t.done[callee]; ok && v.Index < ci.nGoRes {
					return ci.results[v.Index].k == kBig
				}
			}
		}
	}
	return false
}

// joinCells: the threaded cells a join block receives as parameters.
func (ft *ftr) joinCells(s *ssa.BasicBlock) []*cell {
	var r []*cell
	for _, c := range ft.cells {
		if !c.threaded {
			continue
		}
		if c.root.param >= 0 || c.bigVal || ft.reach[s][c.root] {
			r = append(r, c)
		}
	}
	return r
}

func (ft *ftr) join(s *ssa.BasicBlock) (*joinDef, error) {
	if jd, ok := ft.joins[s]; ok {
		if jd.body == nil {
			return nil, ft.refuse(nil, "internal: cyclic join block %d", s.Index)
		}
		return jd, nil
	}
	jd := &joinDef{name: fmt.Sprintf("%s.b%d", ft.info.lean, s.Index)}
	ft.joins[s] = jd
	bound := map[string]bool{}
	for _, ins := range s.Instrs {
		phi, ok := ins.(*ssa.Phi)
		if !ok {
			break
		}
		t := phi.Type()
		v := value{ty: t}
		switch {
		case isBigPtr(t):
			v.k = kBigOpt
			if ft.surelyNonNil(phi, map[ssa.Value]bool{}) {
				v.k = kBig
			}
		case isErrorType(t):
			v.k = kErr
		default:
			if _, ok := scalarOf(t); !ok {
				return nil, ft.refuse(phi, "φ-node of unsupported type %s", t)
			}
			v.k = kScalar
		}
		lt, _ := v.leanTy()
		ft.declare(phi.Name(), lt)
		v.e = ref(phi.Name())
		ft.env[phi] = v
		jd.phiParams = append(jd.phiParams, lparam{phi.Name(), lt})
		bound[phi.Name()] = true
	}
	cur := map[*cell]ex{}
	for _, c := range ft.cells { // read-only parameter cells keep their entry value everywhere
		if (c.root.param >= 0 || c.root.param == -2) && !c.threaded {
			cur[c] = ref(c.name)
		}
	}
	for _, c := range ft.joinCells(s) {
		lt, _ := c.leanTy()
		jd.cellParams = append(jd.cellParams, lparam{c.name, lt})
		cur[c] = ref(c.name)
		bound[c.name] = true
	}
	body, err := ft.block(s, cur)
	if err != nil {
		return nil, err
	}
	jd.body = body
	fv := freeVars(body)
	for _, n := range ft.declOrder {
		if fv[n] && !bound[n] {
			jd.free = append(jd.free, n)
			delete(fv, n)
		}
	}
	for n := range fv {
		if !bound[n] {
			return nil, ft.refuse(nil, "internal: undeclared name %s is live into block %d", n, s.Index)
		}
	}
	ft.joinOrder = append(ft.joinOrder, jd)
	return jd, nil
}

// ---- finishing: signature, result type, text ------------------------------------------------------------------------------

func (ft *ftr) finish(body node) error {
	fi := ft.info
	// slots: externs, globals, then the Go parameters in order
	var ext, glob []slot
	for _, s := range ft.externUsed {
		ext = append(ext, *s)
	}
	for _, s := range ft.globalsUsed {
		glob = append(glob, *s)
	}
	sort.Slice(ext, func(i, j int) bool { return ext[i].name < ext[j].name })
	sort.Slice(glob, func(i, j int) bool { return glob[i].name < glob[j].name })
	fi.slots = append(append(fi.slots, ext...), glob...)
	for _, c := range ft.cells {
		if c.root.param == -2 {
			lt, _ := c.leanTy()
			fi.slots = append(fi.slots, slot{kind: sGlobalCell, name: c.name, ty: lt, g: c.root.g, param: -1, path: c.path, goTy: c.ty})
		}
	}
	for i := range ft.f.Params {
		for _, s := range ft.paramSlots {
			if s.param == i {
				fi.slots = append(fi.slots, s)
			}
		}
		var fs []slot
		for _, s := range ft.fieldsUsed {
			if s.param == i {
				fs = append(fs, *s)
			}
		}
		sort.Slice(fs, func(a, b int) bool { return lessPath(fs[a].path, fs[b].path) })
		fi.slots = append(fi.slots, fs...)
		for _, c := range ft.cells {
			if c.root.param == i {
				lt, _ := c.leanTy()
				fi.slots = append(fi.slots, slot{kind: sCell, name: c.name, ty: lt, param: i, path: c.path, written: c.written, goTy: c.ty})
			}
		}
	}
	names := map[string]bool{}
	for _, s := range fi.slots {
		if names[s.name] {
			return ft.refuse(nil, "two Lean parameters would be called %s", s.name)
		}
		names[s.name] = true
	}
	// a local name must not shadow a definition the body refers to
	for _, c := range append(append([]string{}, ft.called...), "decide", "Big", "Int", "Int64", "UInt64", "UInt32", "UInt16", "UInt8", "Int32", "Int16", "Int8", fi.lean) {
		if _, ok := ft.tyOf[c]; ok {
			return ft.refuse(nil, "local name %s would shadow a definition the generated body refers to", c)
		}
	}
	// results
	var rets []*nRet
	collectRets(body, &rets, map[*joinDef]bool{})
	fi.mayPanic = hasPanic(body)
	res := ft.f.Signature.Results()
	fi.nGoRes = res.Len()
	if len(rets) > 0 {
		n := len(rets[0].vals)
		for i := 0; i < n; i++ {
			ri := resInfo{k: rets[0].vals[i].k}
			for _, r := range rets {
				if len(r.vals) != n {
					return ft.refuse(nil, "internal: return arity differs")
				}
				k := r.vals[i].k
				if k == kBigOpt && ri.k == kBig || k == kBig && ri.k == kBigOpt {
					ri.k = kBigOpt
				} else if k != ri.k {
					return ft.refuse(nil, "result %d has different kinds on different paths", i)
				}
			}
			v := value{k: ri.k, ty: rets[0].vals[i].ty}
			lt, err := v.leanTy()
			if err != nil {
				return ft.refuse(nil, "result %d: %v", i, err)
			}
			ri.ty = lt
			fi.results = append(fi.results, ri)
		}
	} else {
		// every path panics
		for i := 0; i < res.Len(); i++ {
			return ft.refuse(nil, "function never returns")
		}
	}
	rc := &renderCtx{mayPanic: fi.mayPanic}
	rc.retWrap = func(vals []value) string {
		var parts []string
		for i, v := range vals {
			s := v.e.s
			if fi.results[i].k == kBigOpt && v.k == kBig {
				s = "some " + paren(s)
			}
			parts = append(parts, s)
		}
		switch len(parts) {
		case 0:
			return "()"
		case 1:
			return parts[0]
		}
		return "(" + strings.Join(parts, ", ") + ")"
	}
	// free variables of the entry body must all be parameters
	fv := freeVars(body)
	for n := range fv {
		if !names[n] {
			return ft.refuse(nil, "internal: name %s is free in the function body but is not a parameter", n)
		}
	}
	var b strings.Builder
	rty := fi.resultTy()
	for _, jd := range ft.joinOrder {
		fmt.Fprintf(&b, "@[simp] def %s", jd.name)
		for _, p := range jd.phiParams {
			fmt.Fprintf(&b, " (%s : %s)", p.name, unparen(p.ty))
		}
		for _, p := range jd.cellParams {
			fmt.Fprintf(&b, " (%s : %s)", p.name, unparen(p.ty))
		}
		for _, n := range jd.free {
			fmt.Fprintf(&b, " (%s : %s)", n, unparen(ft.tyOf[n]))
		}
		fmt.Fprintf(&b, " : %s :=\n", rty)
		rc.node(&b, jd.body, "  ")
		b.WriteString("\n")
	}
	fmt.Fprintf(&b, "def %s", fi.lean)
	for _, s := range fi.slots {
		fmt.Fprintf(&b, " (%s : %s)", s.name, unparen(s.ty))
	}
	fmt.Fprintf(&b, " : %s :=\n", rty)
	rc.node(&b, body, "  ")
	fi.text = b.String()
	return nil
}

func unparen(s string) string {
	if strings.HasPrefix(s, "(") && matchingClose(s) == len(s)-1 {
		return s[1 : len(s)-1]
	}
	return s
}

var _ = token.ADD

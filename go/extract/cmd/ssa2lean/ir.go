package main

import (
	"fmt"
	"sort"
	"strings"
)

// ex: a Lean expression together with the local names it mentions (for the live-in computation of join blocks).
type ex struct {
	s  string
	fv []string
}

func lit(s string) ex { return ex{s: s} }
func ref(n string) ex { return ex{s: n, fv: []string{n}} }
func fx(format string, args ...ex) ex {
	ss := make([]interface{}, len(args))
	var fv []string
	for i, a := range args {
		ss[i] = a.s
		fv = append(fv, a.fv...)
	}
	return ex{s: fmt.Sprintf(format, ss...), fv: fv}
}

// IR of one block body: a chain of bindings ending in a terminator.
type node interface{}

type nLet struct { // let name := e
	name string
	e    ex
	next node
}
type nGuard struct { // if cond then <panic> else next
	cond ex
	why  string
	next node
}
type nBind struct { // match e with | none => <panic> | some name => next
	name string
	e    ex
	why  string
	next node
}
type nIf struct {
	cond ex
	a, b node
}
type nRet struct{ vals []value }
type nPanic struct{ why string }
type nJump struct {
	target   *joinDef
	phiArgs  []ex
	cellArgs []ex
}

type lparam struct{ name, ty string }

type joinDef struct {
	name       string
	phiParams  []lparam
	cellParams []lparam
	body       node
	free       []string // live-in names (besides phi and cell params), in declaration order
}

func setOf(xs []string) map[string]bool {
	m := map[string]bool{}
	for _, x := range xs {
		m[x] = true
	}
	return m
}

// freeVars of an IR tree.
func freeVars(n node) map[string]bool {
	switch n := n.(type) {
	case *nLet:
		m := freeVars(n.next)
		delete(m, n.name)
		for _, v := range n.e.fv {
			m[v] = true
		}
		return m
	case *nGuard:
		m := freeVars(n.next)
		for _, v := range n.cond.fv {
			m[v] = true
		}
		return m
	case *nBind:
		m := freeVars(n.next)
		delete(m, n.name)
		for _, v := range n.e.fv {
			m[v] = true
		}
		return m
	case *nIf:
		m := freeVars(n.a)
		for v := range freeVars(n.b) {
			m[v] = true
		}
		for _, v := range n.cond.fv {
			m[v] = true
		}
		return m
	case *nRet:
		m := map[string]bool{}
		for _, x := range n.vals {
			for _, v := range x.e.fv {
				m[v] = true
			}
		}
		return m
	case *nPanic:
		return map[string]bool{}
	case *nJump:
		m := setOf(n.target.free)
		for _, a := range append(append([]ex{}, n.phiArgs...), n.cellArgs...) {
			for _, v := range a.fv {
				m[v] = true
			}
		}
		return m
	}
	panic("freeVars: unknown node")
}

func hasPanic(n node) bool {
	switch n := n.(type) {
	case *nLet:
		return hasPanic(n.next)
	case *nGuard, *nBind, *nPanic:
		return true
	case *nIf:
		return hasPanic(n.a) || hasPanic(n.b)
	case *nJump:
		return hasPanic(n.target.body)
	}
	return false
}

func collectRets(n node, out *[]*nRet, seen map[*joinDef]bool) {
	switch n := n.(type) {
	case *nLet:
		collectRets(n.next, out, seen)
	case *nGuard:
		collectRets(n.next, out, seen)
	case *nBind:
		collectRets(n.next, out, seen)
	case *nIf:
		collectRets(n.a, out, seen)
		collectRets(n.b, out, seen)
	case *nRet:
		*out = append(*out, n)
	case *nJump:
		if !seen[n.target] {
			seen[n.target] = true
			collectRets(n.target.body, out, seen)
		}
	}
}

// renderer ---------------------------------------------------------------------------------------------------------------

type renderCtx struct {
	mayPanic bool
	retWrap  func(vals []value) string // renders the returned tuple (without `some`)
}

func (rc *renderCtx) node(b *strings.Builder, n node, ind string) {
	switch n := n.(type) {
	case *nLet:
		fmt.Fprintf(b, "%slet %s := %s\n", ind, n.name, n.e.s)
		rc.node(b, n.next, ind)
	case *nGuard:
		fmt.Fprintf(b, "%sif %s then none /- panic: %s -/ else\n", ind, n.cond.s, n.why)
		rc.node(b, n.next, ind)
	case *nBind:
		fmt.Fprintf(b, "%smatch %s with\n%s| none => none /- panic: %s -/\n%s| some %s =>\n", ind, n.e.s, ind, n.why, ind, n.name)
		rc.node(b, n.next, ind+"  ")
	case *nIf:
		fmt.Fprintf(b, "%sif %s then\n", ind, n.cond.s)
		rc.node(b, n.a, ind+"  ")
		fmt.Fprintf(b, "%selse\n", ind)
		rc.node(b, n.b, ind+"  ")
	case *nRet:
		r := rc.retWrap(n.vals)
		if rc.mayPanic {
			r = "some " + paren(r)
		}
		fmt.Fprintf(b, "%s%s\n", ind, r)
	case *nPanic:
		fmt.Fprintf(b, "%snone /- panic: %s -/\n", ind, n.why)
	case *nJump:
		parts := []string{n.target.name}
		for _, a := range n.phiArgs {
			parts = append(parts, paren(a.s))
		}
		for _, a := range n.cellArgs {
			parts = append(parts, paren(a.s))
		}
		parts = append(parts, n.target.free...)
		fmt.Fprintf(b, "%s%s\n", ind, strings.Join(parts, " "))
	default:
		panic("render: unknown node")
	}
}

// paren wraps a non-atomic expression.
func paren(s string) string {
	if s == "" {
		return s
	}
	if strings.HasPrefix(s, "(") && matchingClose(s) == len(s)-1 {
		return s
	}
	if strings.HasPrefix(s, "\"") && !strings.ContainsAny(s[1:len(s)-1], "\"") {
		return s
	}
	if strings.ContainsAny(s, " ") {
		return "(" + s + ")"
	}
	return s
}

func matchingClose(s string) int {
	depth := 0
	inStr := false
	for i := 0; i < len(s); i++ {
		c := s[i]
		if inStr {
			if c == '\\' {
				i++
			} else if c == '"' {
				inStr = false
			}
			continue
		}
		switch c {
		case '"':
			inStr = true
		case '(':
			depth++
		case ')':
			depth--
			if depth == 0 {
				return i
			}
		}
	}
	return -1
}

func sortedKeys(m map[string]bool) []string {
	var r []string
	for k := range m {
		r = append(r, k)
	}
	sort.Strings(r)
	return r
}

package main

import (
	"fmt"
	"go/constant"
	"go/types"
	"strings"
	"unicode"
	"unicode/utf8"
)

// ---- type mapping (documented in docs/notes/translator.md) ------------------------------------------------------------------
//
//	uint64, uint, uintptr -> UInt64   (uint is 64 bit: GOARCH=amd64/arm64 is assumed)      int, int64 -> Int64
//	uint32 -> UInt32   uint16 -> UInt16   uint8/byte -> UInt8   int32/rune -> Int32   int16 -> Int16   int8 -> Int8
//	bool -> Bool       string -> String (valid UTF-8 only)
//	*big.Int -> Int (non-nil) or Option Int (nil-able: compared with nil, read from a map or a struct field)
//	error -> Option String (nil or the qualified name of the package-level error variable that was loaded)

type scalarInfo struct {
	lean   string
	bits   int
	signed bool
	isInt  bool
}

func scalarOf(t types.Type) (scalarInfo, bool) {
	b, ok := t.Underlying().(*types.Basic)
	if !ok {
		return scalarInfo{}, false
	}
	switch b.Kind() {
	case types.Uint64, types.Uint, types.Uintptr:
		return scalarInfo{"UInt64", 64, false, true}, true
	case types.Uint32:
		return scalarInfo{"UInt32", 32, false, true}, true
	case types.Uint16:
		return scalarInfo{"UInt16", 16, false, true}, true
	case types.Uint8:
		return scalarInfo{"UInt8", 8, false, true}, true
	case types.Int64, types.Int:
		return scalarInfo{"Int64", 64, true, true}, true
	case types.Int32:
		return scalarInfo{"Int32", 32, true, true}, true
	case types.Int16:
		return scalarInfo{"Int16", 16, true, true}, true
	case types.Int8:
		return scalarInfo{"Int8", 8, true, true}, true
	case types.Bool, types.UntypedBool:
		return scalarInfo{"Bool", 0, false, false}, true
	case types.String:
		return scalarInfo{"String", 0, false, false}, true
	}
	return scalarInfo{}, false
}

func isBigPtr(t types.Type) bool {
	p, ok := t.(*types.Pointer)
	if !ok {
		return false
	}
	return isBigInt(p.Elem())
}

func isBigInt(t types.Type) bool {
	n, ok := t.(*types.Named)
	return ok && n.Obj().Pkg() != nil && n.Obj().Pkg().Path() == "math/big" && n.Obj().Name() == "Int"
}

func isErrorType(t types.Type) bool {
	n, ok := t.(*types.Named)
	return ok && n.Obj().Pkg() == nil && n.Obj().Name() == "error"
}

// constLit renders a constant of scalar type as a type-ascribed Lean literal.
func constLit(v constant.Value, t types.Type) (string, error) {
	si, ok := scalarOf(t)
	if !ok {
		return "", fmt.Errorf("constant of unsupported type %s", t)
	}
	switch {
	case si.lean == "Bool":
		if constant.BoolVal(v) {
			return "true", nil
		}
		return "false", nil
	case si.lean == "String":
		return leanString(constant.StringVal(v))
	case si.isInt:
		iv := constant.ToInt(v)
		if iv.Kind() != constant.Int {
			return "", fmt.Errorf("non-integer constant %s of type %s", v, t)
		}
		s := iv.ExactString()
		return fmt.Sprintf("(%s : %s)", s, si.lean), nil
	}
	return "", fmt.Errorf("constant of unsupported type %s", t)
}

func leanString(s string) (string, error) {
	if !utf8.ValidString(s) {
		return "", fmt.Errorf("string constant %q is not valid UTF-8 (Lean String cannot represent it)", s)
	}
	var b strings.Builder
	b.WriteByte('"')
	for _, r := range s {
		switch {
		case r == '"':
			b.WriteString("\\\"")
		case r == '\\':
			b.WriteString("\\\\")
		case r == '\n':
			b.WriteString("\\n")
		case r == '\t':
			b.WriteString("\\t")
		case r == '\r':
			b.WriteString("\\r")
		case r < 0x20 || r == 0x7f:
			fmt.Fprintf(&b, "\\x%02x", r)
		case r < 0x80 || unicode.IsPrint(r):
			b.WriteRune(r)
		case r <= 0xffff:
			fmt.Fprintf(&b, "\\u%04x", r)
		default:
			b.WriteRune(r)
		}
	}
	b.WriteByte('"')
	return b.String(), nil
}

var leanKeywords = map[string]bool{}

func init() {
	for _, k := range strings.Fields(`abbrev at axiom by calc class def deriving do else end example extends finally for from fun
		have if import in inductive infix infixl infixr instance let local macro match mut mutual namespace noncomputable notation
		nomatch open opaque partial postfix prefix private protected return section set_option show structure syntax then theorem
		unless universe unsafe using variable where with some none true false Type Prop Sort seal exists forall suffices obtain rfl
		this id`) {
		leanKeywords[k] = true
	}
}

// leanIdent makes a Go identifier safe as a Lean local name.
func leanIdent(s string) string {
	if s == "" || s == "_" {
		return "unnamed"
	}
	var b strings.Builder
	for _, r := range s {
		if r == '_' || (r < 0x80 && (unicode.IsLetter(r) || unicode.IsDigit(r))) {
			b.WriteRune(r)
		} else {
			fmt.Fprintf(&b, "u%x", r)
		}
	}
	s = b.String()
	if leanKeywords[s] || isTemp(s) {
		s += "_"
	}
	return s
}

// isTemp: names of the shape tNNN are reserved for SSA registers.
func isTemp(s string) bool {
	if len(s) < 2 || s[0] != 't' {
		return false
	}
	for _, c := range s[1:] {
		if c < '0' || c > '9' {
			return false
		}
	}
	return true
}

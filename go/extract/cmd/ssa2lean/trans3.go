package main

import (
	"fmt"
	"go/constant"
	"go/token"
	"go/types"
	"strings"

	"golang.org/x/tools/go/ssa"
)

func (ft *ftr) instr(steps *[]step, ins ssa.Instruction, cur map[*cell]ex) error {
	switch ins := ins.(type) {
	case *ssa.BinOp:
		return ft.binop(steps, ins)
	case *ssa.UnOp:
		return ft.unop(steps, ins, cur)
	case *ssa.Convert:
		return ft.convert(steps, ins)
	case *ssa.ChangeType:
		if _, ok := ins.Type().(*types.Pointer); ok {
			if _, _, ok := ft.resolvePtr(ins); ok {
				return nil // resolved statically
			}
			return ft.refuse(ins, "pointer conversion of a pointer that is not a parameter or local variable")
		}
		x, err := ft.valOf(ins, ins.X)
		if err != nil {
			return err
		}
		if x.k != kScalar {
			return ft.refuse(ins, "type change of a non-scalar value")
		}
		a, ok1 := scalarOf(x.ty)
		b, ok2 := scalarOf(ins.Type())
		if !ok1 || !ok2 || a.lean != b.lean {
			return ft.refuse(ins, "type change between %s and %s", x.ty, ins.Type())
		}
		return ft.bind(steps, ins, kScalar, x.e)
	case *ssa.Alloc:
		if cl := ft.bigCellOf[ins]; cl != nil {
			cur[cl] = lit("(0 : Int)")
			ft.env[ins] = value{k: kBig, ty: ins.Type(), bcell: cl, owned: true}
			return nil
		}
		if isBigInt(ins.Type().(*types.Pointer).Elem()) {
			if err := ft.bind(steps, ins, kBig, lit("(0 : Int)")); err != nil {
				return ft.refuse(ins, "%v", err)
			}
			v := ft.env[ins]
			v.owned = true
			ft.env[ins] = v
			return nil
		}
		if _, ok := ft.roots[ins]; !ok {
			return ft.refuse(ins, "allocation of unsupported type")
		}
		// every use of the address is checked where it occurs (FieldAddr / load / store / call argument)
		return nil
	case *ssa.FieldAddr:
		if _, _, ok := ft.resolvePtr(ins); !ok {
			return ft.refuse(ins, "field address of a pointer that is not a parameter or local variable")
		}
		return nil
	case *ssa.Field:
		x, err := ft.valOf(ins, ins.X)
		if err != nil {
			return err
		}
		if x.k != kStruct {
			return ft.refuse(ins, "field selection on an unsupported struct value")
		}
		v, err := x.sfield(ins.Field)
		if err != nil {
			return ft.refuse(ins, "%v", err)
		}
		ft.env[ins] = v
		return nil
	case *ssa.Store:
		return ft.store(ins, cur)
	case *ssa.Extract:
		x, err := ft.valOf(ins, ins.Tuple)
		if err != nil {
			return err
		}
		if x.k != kTuple || ins.Index >= len(x.elems) {
			return ft.refuse(ins, "extract from an unsupported tuple")
		}
		ft.env[ins] = x.elems[ins.Index]
		return nil
	case *ssa.Lookup:
		if ins.CommaOk {
			return ft.refuse(ins, "comma-ok map lookup is outside the grammar")
		}
		m, err := ft.valOf(ins, ins.X)
		if err != nil {
			return err
		}
		if m.k != kMap {
			return ft.refuse(ins, "lookup in an unsupported container (%s)", ins.X.Type())
		}
		idx, _, err := ft.scalar(ins, ins.Index)
		if err != nil {
			return err
		}
		k := kScalar
		if isBigPtr(ins.Type()) {
			k = kBigOpt
		}
		if err := ft.bind(steps, ins, k, fx("%s %s", m.e, idx.e)); err != nil {
			return ft.refuse(ins, "%v", err)
		}
		return nil
	case *ssa.Call:
		return ft.call(steps, ins, cur)
	}
	return ft.refuse(ins, "instruction %T is outside the grammar", ins)
}

// ---- arithmetic --------------------------------------------------------------------------------------------------------

func (ft *ftr) binop(steps *[]step, ins *ssa.BinOp) error {
	// nil comparisons of *big.Int
	if isBigPtr(ins.X.Type()) || isBigPtr(ins.Y.Type()) {
		if ins.Op != token.EQL && ins.Op != token.NEQ {
			return ft.refuse(ins, "operator %s on *big.Int", ins.Op)
		}
		x, y := ins.X, ins.Y
		if isNilConst(x) {
			x, y = y, x
		}
		if !isNilConst(y) {
			return ft.refuse(ins, "pointer comparison of two *big.Int values (identity is not modelled)")
		}
		v, err := ft.valOf(ins, x)
		if err != nil {
			return err
		}
		var e ex
		switch v.k {
		case kBigOpt:
			e = fx("%s.isNone", v.e)
		case kBig:
			e = lit("false") // a value known to be non-nil (freshly allocated / result of a big.Int method)
		default:
			return ft.refuse(ins, "nil comparison of an unsupported value")
		}
		if ins.Op == token.NEQ {
			e = fx("(!%s)", e)
		}
		return ft.bind(steps, ins, kScalar, e)
	}
	if isErrorType(ins.X.Type()) || isErrorType(ins.Y.Type()) {
		x, y := ins.X, ins.Y
		if isNilConst(x) {
			x, y = y, x
		}
		if !isNilConst(y) || (ins.Op != token.EQL && ins.Op != token.NEQ) {
			return ft.refuse(ins, "comparison of two error values is outside the grammar (only `err == nil` / `err != nil`)")
		}
		v, err := ft.valOf(ins, x)
		if err != nil {
			return err
		}
		if v.k != kErr {
			return ft.refuse(ins, "nil comparison of an unsupported error value")
		}
		if ins.Op == token.EQL {
			return ft.bind(steps, ins, kScalar, fx("%s.isNone", v.e))
		}
		return ft.bind(steps, ins, kScalar, fx("%s.isSome", v.e))
	}
	x, sx, err := ft.scalar(ins, ins.X)
	if err != nil {
		return err
	}
	y, sy, err := ft.scalar(ins, ins.Y)
	if err != nil {
		return err
	}
	rs, ok := scalarOf(ins.Type())
	if !ok {
		return ft.refuse(ins, "result type %s", ins.Type())
	}
	isShift := ins.Op == token.SHL || ins.Op == token.SHR
	if !isShift && sx.lean != sy.lean {
		return ft.refuse(ins, "operands of different Lean types %s / %s", sx.lean, sy.lean)
	}
	var e ex
	switch ins.Op {
	case token.EQL:
		e = fx("decide (%s = %s)", x.e, y.e)
	case token.NEQ:
		e = fx("!decide (%s = %s)", x.e, y.e)
	case token.LSS, token.LEQ, token.GTR, token.GEQ:
		if !sx.isInt {
			return ft.refuse(ins, "ordering comparison on %s", sx.lean)
		}
		op := map[token.Token]string{token.LSS: "<", token.LEQ: "≤", token.GTR: ">", token.GEQ: "≥"}[ins.Op]
		e = fx("decide (%s "+op+" %s)", x.e, y.e)
	case token.ADD, token.SUB, token.MUL:
		if !sx.isInt {
			return ft.refuse(ins, "operator %s on %s", ins.Op, sx.lean)
		}
		e = fx("%s "+ins.Op.String()+" %s", x.e, y.e)
	case token.QUO, token.REM:
		if !sx.isInt {
			return ft.refuse(ins, "operator %s on %s", ins.Op, sx.lean)
		}
		c, isConst := ins.Y.(*ssa.Const)
		if !isConst || constant.Sign(constant.ToInt(c.Value)) == 0 {
			cond := fx("%s = 0", y.e)
			*steps = append(*steps, func(next node) node { return &nGuard{cond: cond, why: "integer divide by zero", next: next} })
		}
		e = fx("%s "+strings.ReplaceAll(ins.Op.String(), "%", "%%")+" %s", x.e, y.e)
	case token.AND:
		e = fx("%s &&& %s", x.e, y.e)
	case token.OR:
		e = fx("%s ||| %s", x.e, y.e)
	case token.XOR:
		e = fx("%s ^^^ %s", x.e, y.e)
	case token.AND_NOT:
		e = fx("%s &&& ~~~%s", x.e, y.e)
	case token.SHL, token.SHR:
		if !sx.isInt || !sy.isInt {
			return ft.refuse(ins, "shift on non-integers")
		}
		op := "<<<"
		if ins.Op == token.SHR {
			op = ">>>"
		}
		// Go: a shift count ≥ width gives 0 (or the sign fill for signed >>); Lean reduces the count mod width.
		over := fmt.Sprintf("(0 : %s)", sx.lean)
		if ins.Op == token.SHR && sx.signed {
			over = fmt.Sprintf("(%%s >>> (%d : %s))", sx.bits-1, sx.lean)
		}
		if c, ok := ins.Y.(*ssa.Const); ok {
			n := constant.ToInt(c.Value)
			if constant.Sign(n) < 0 {
				return ft.refuse(ins, "negative constant shift count")
			}
			if constant.Compare(n, token.GEQ, constant.MakeInt64(int64(sx.bits))) {
				if strings.Contains(over, "%s") {
					e = fx(over, x.e)
				} else {
					e = lit(over)
				}
			} else {
				e = fx("%s "+op+" (%s : %s)", x.e, lit(n.ExactString()), lit(sx.lean))
			}
			break
		}
		cnt := fx("%s.toNat", y.e)
		if sy.signed {
			cond := fx("%s < 0", y.e)
			*steps = append(*steps, func(next node) node { return &nGuard{cond: cond, why: "negative shift amount", next: next} })
			cnt = fx("%s.toInt.toNat", y.e)
		}
		var ov ex
		if strings.Contains(over, "%s") {
			ov = fx(over, x.e)
		} else {
			ov = lit(over)
		}
		e = fx("if %s ≥ %s then %s else %s "+op+" %s.ofNat %s", cnt, lit(fmt.Sprint(sx.bits)), ov, x.e, lit(sx.lean), cnt)
	default:
		return ft.refuse(ins, "operator %s is outside the grammar", ins.Op)
	}
	_ = rs
	return ft.bind(steps, ins, kScalar, e)
}

func (ft *ftr) unop(steps *[]step, ins *ssa.UnOp, cur map[*cell]ex) error {
	switch ins.Op {
	case token.NOT:
		x, _, err := ft.scalar(ins, ins.X)
		if err != nil {
			return err
		}
		return ft.bind(steps, ins, kScalar, fx("!%s", x.e))
	case token.SUB:
		x, si, err := ft.scalar(ins, ins.X)
		if err != nil {
			return err
		}
		if !si.isInt {
			return ft.refuse(ins, "negation of %s", si.lean)
		}
		return ft.bind(steps, ins, kScalar, fx("(0 : %s) - %s", lit(si.lean), x.e))
	case token.XOR:
		x, si, err := ft.scalar(ins, ins.X)
		if err != nil {
			return err
		}
		if !si.isInt {
			return ft.refuse(ins, "complement of %s", si.lean)
		}
		return ft.bind(steps, ins, kScalar, fx("~~~%s", x.e))
	case token.MUL:
		if g, ok := ins.X.(*ssa.Global); ok {
			if _, _, ok := ft.resolvePtr(ins); ok {
				return nil // *G is a pointer to a struct: a read-only root, resolved statically
			}
			return ft.loadGlobal(steps, ins, g)
		}
		r, path, ok := ft.resolvePtr(ins.X)
		if !ok {
			return ft.refuse(ins, "load through a pointer that is neither a parameter, a local variable nor a package-level variable")
		}
		if _, isStruct := ins.Type().Underlying().(*types.Struct); isStruct {
			// snapshot of a local struct variable: its leaves as they are now
			snap := map[string]ex{}
			for _, c := range ft.cells {
				if c.root == r && len(c.path) > len(path) && pathKey(c.path[:len(path)]) == pathKey(path) {
					e, ok := cur[c]
					if !ok {
						return ft.refuse(ins, "internal: no current value for cell %s", c.name)
					}
					snap[pathKey(c.path[len(path):])] = e
				}
			}
			ft.env[ins] = ft.snapStruct(ins.Type(), nil, snap)
			return nil
		}
		c, err := ft.cellAt(r, path)
		if err != nil {
			return ft.refuse(ins, "%v", err)
		}
		e, ok := cur[c]
		if !ok {
			return ft.refuse(ins, "internal: no current value for cell %s", c.name)
		}
		switch {
		case isBigPtr(c.ty):
			ft.env[ins] = value{k: kBigOpt, e: e, ty: c.ty}
		default:
			if _, ok := c.ty.Underlying().(*types.Slice); ok {
				ft.env[ins] = value{k: kSlice, e: e, ty: c.ty, cell: c}
				return nil
			}
			if _, ok := c.ty.Underlying().(*types.Map); ok {
				ft.env[ins] = value{k: kMap, e: e, ty: c.ty}
				return nil
			}
			return ft.bind(steps, ins, kScalar, e)
		}
		return nil
	}
	return ft.refuse(ins, "unary operator %s is outside the grammar", ins.Op)
}

// snapStruct: a struct value made of the current values of the cells of a local variable.
func (ft *ftr) snapStruct(t types.Type, rel []int, snap map[string]ex) value {
	v := value{k: kStruct, ty: t}
	v.sfield = func(i int) (value, error) {
		st := t.Underlying().(*types.Struct)
		if i >= st.NumFields() {
			return value{}, fmt.Errorf("field index %d out of range for %s", i, t)
		}
		ftyp := st.Field(i).Type()
		p := append(append([]int{}, rel...), i)
		if _, ok := ftyp.Underlying().(*types.Struct); ok {
			return ft.snapStruct(ftyp, p, snap), nil
		}
		e, ok := snap[pathKey(p)]
		if !ok {
			return value{}, fmt.Errorf("field %s of a loaded struct is not a scalar cell", st.Field(i).Name())
		}
		return value{k: kScalar, e: e, ty: ftyp}, nil
	}
	return v
}

// loadGlobal: reading a package-level variable makes it an explicit parameter g_<pkg>_<Name> of the generated definition
// (scalars and *big.Int, assumed non-nil); an error variable is represented by its qualified name.
func (ft *ftr) loadGlobal(steps *[]step, ins *ssa.UnOp, g *ssa.Global) error {
	t := ins.Type()
	qual := g.Pkg.Pkg.Name() + "." + g.Name()
	if isErrorType(t) {
		s, _ := leanString(qual)
		ft.env[ins] = value{k: kErr, e: lit("(some " + s + ")"), ty: t}
		return nil
	}
	name := "g_" + leanIdent(g.Pkg.Pkg.Name()) + "_" + leanIdent(g.Name())
	var lt string
	var k kind
	switch {
	case isBigPtr(t):
		lt, k = "Int", kBig
	default:
		si, ok := scalarOf(t)
		if !ok {
			return ft.refuse(ins, "package-level variable %s of unsupported type %s", qual, t)
		}
		lt, k = si.lean, kScalar
	}
	if _, ok := ft.globalsUsed[g]; !ok {
		ft.globalsUsed[g] = &slot{kind: sGlobal, name: name, ty: lt, g: g, param: -1, goTy: t}
		ft.declare(name, lt)
	}
	ft.env[ins] = value{k: k, e: ref(name), ty: t}
	return nil
}

func (ft *ftr) store(ins *ssa.Store, cur map[*cell]ex) error {
	r, path, ok := ft.resolvePtr(ins.Addr)
	if !ok {
		return ft.refuse(ins, "heap write through a pointer that is neither a parameter nor a local variable")
	}
	v, err := ft.valOf(ins, ins.Val)
	if err != nil {
		return err
	}
	if v.k == kStruct {
		// whole-struct initialisation of a local variable: every cell below `path` takes the corresponding field
		for _, c := range ft.cells {
			if c.root != r || len(c.path) < len(path) || pathKey(c.path[:len(path)]) != pathKey(path) {
				continue
			}
			fv := v
			for _, i := range c.path[len(path):] {
				if fv.k != kStruct {
					return ft.refuse(ins, "field path does not fit the stored struct")
				}
				fv, err = fv.sfield(i)
				if err != nil {
					return ft.refuse(ins, "%v", err)
				}
			}
			if fv.k != kScalar {
				return ft.refuse(ins, "struct field %s of unsupported kind", c.name)
			}
			cur[c] = fv.e
		}
		return nil
	}
	if v.k != kScalar {
		return ft.refuse(ins, "store of a non-scalar value")
	}
	c, err := ft.cellAt(r, path)
	if err != nil {
		return ft.refuse(ins, "%v", err)
	}
	cur[c] = v.e
	return nil
}

func (ft *ftr) convert(steps *[]step, ins *ssa.Convert) error {
	x, from, err := ft.scalar(ins, ins.X)
	if err != nil {
		return err
	}
	to, ok := scalarOf(ins.Type())
	if !ok || !from.isInt || !to.isInt {
		return ft.refuse(ins, "conversion %s -> %s is outside the grammar", ins.X.Type(), ins.Type())
	}
	var e ex
	switch {
	case from.lean == to.lean:
		e = x.e
	case !from.signed && !to.signed:
		e = fx("%s.ofNat %s.toNat", lit(to.lean), x.e)
	case !from.signed && to.signed:
		e = fx("%s.ofNat %s.toNat", lit(to.lean), x.e)
	default: // from signed
		e = fx("%s.ofInt %s.toInt", lit(to.lean), x.e)
	}
	return ft.bind(steps, ins, kScalar, e)
}

// ---- calls -------------------------------------------------------------------------------------------------------------

func tupleProj(base string, i, n int) string {
	if n == 1 {
		return base
	}
	s := base + strings.Repeat(".2", i)
	if i < n-1 {
		s += ".1"
	}
	return s
}

func (ft *ftr) call(steps *[]step, ins *ssa.Call, cur map[*cell]ex) error {
	common := &ins.Call
	if common.IsInvoke() {
		return ft.refuse(ins, "dynamic call through interface method %s", common.Method.Name())
	}
	if b, ok := common.Value.(*ssa.Builtin); ok {
		return ft.builtin(steps, ins, b)
	}
	callee := ft.staticCallee(common)
	if callee == nil {
		return ft.refuse(ins, "dynamic call (function value)")
	}
	if callee.Pkg != nil && callee.Pkg.Pkg.Path() == "math/big" {
		return ft.bigCall(steps, ins, callee)
	}
	if ft.t.extern[callee] {
		return ft.externCall(steps, ins, callee)
	}
	if !inModule(callee) {
		return ft.refuse(ins, "call to %s, which is outside the module and not a modelled math/big operation", callee)
	}
	ci, err := ft.t.translate(callee)
	if err != nil {
		return ft.refuse(ins, "callee refused: %v", err)
	}
	args := []ex{}
	type wb struct {
		c *cell
	}
	var writes []*cell
	for _, s := range ci.slots {
		switch s.kind {
		case sExtern:
			sl := ft.useExtern(s.fn, s.ty)
			args = append(args, ref(sl.name))
		case sGlobal:
			if _, ok := ft.globalsUsed[s.g]; !ok {
				cp := s
				ft.globalsUsed[s.g] = &cp
				ft.declare(s.name, s.ty)
			}
			args = append(args, ref(s.name))
		case sGlobalCell:
			st, _ := s.g.Type().(*types.Pointer).Elem().(*types.Pointer)
			if st == nil {
				return ft.refuse(ins, "internal: global cell of %s", s.g.Name())
			}
			c, err := ft.cellAt(ft.globalRoot(s.g, st.Elem()), s.path)
			if err != nil {
				return ft.refuse(ins, "%v", err)
			}
			args = append(args, ref(c.name))
		case sScalar, sMap:
			v, err := ft.valOf(ins, common.Args[s.param])
			if err != nil {
				return err
			}
			want := kScalar
			if s.kind == sMap {
				want = kMap
			}
			if v.k != want {
				return ft.refuse(ins, "argument %d has an unsupported kind", s.param)
			}
			args = append(args, v.e)
		case sSliceLen:
			v, err := ft.valOf(ins, common.Args[s.param])
			if err != nil {
				return err
			}
			if v.k != kSlice {
				return ft.refuse(ins, "argument %d is not a slice whose length the translator knows", s.param)
			}
			args = append(args, v.e)
		case sBig:
			v, err := ft.valOf(ins, common.Args[s.param])
			if err != nil {
				return err
			}
			if v.k != kBig {
				return ft.refuse(ins, "possibly-nil *big.Int passed to parameter %s of %s, which is translated for non-nil values only", s.name, ci.spec)
			}
			args = append(args, v.e)
		case sBigOpt:
			v, err := ft.valOf(ins, common.Args[s.param])
			if err != nil {
				return err
			}
			switch v.k {
			case kBigOpt:
				args = append(args, v.e)
			case kBig:
				args = append(args, fx("(some %s)", v.e))
			default:
				return ft.refuse(ins, "argument %d has an unsupported kind", s.param)
			}
		case sField:
			v, err := ft.valOf(ins, common.Args[s.param])
			if err != nil {
				return err
			}
			for _, i := range s.path {
				if v.k != kStruct {
					return ft.refuse(ins, "argument %d is not a struct value the translator can take apart", s.param)
				}
				v, err = v.sfield(i)
				if err != nil {
					return ft.refuse(ins, "%v", err)
				}
			}
			args = append(args, v.e)
		case sCell:
			r, path, ok := ft.resolvePtr(common.Args[s.param])
			if !ok {
				return ft.refuse(ins, "pointer argument %d does not denote a parameter or local variable", s.param)
			}
			c, err := ft.cellAt(r, append(append([]int{}, path...), s.path...))
			if err != nil {
				return ft.refuse(ins, "%v", err)
			}
			e, ok := cur[c]
			if !ok {
				return ft.refuse(ins, "internal: no current value for cell %s", c.name)
			}
			args = append(args, e)
			if s.written {
				writes = append(writes, c)
			}
		}
	}
	ft.called = append(ft.called, ci.lean)
	parts := []string{ci.lean}
	var fv []string
	for _, a := range args {
		parts = append(parts, paren(a.s))
		fv = append(fv, a.fv...)
	}
	callEx := ex{s: strings.Join(parts, " "), fv: fv}
	raw := ins.Name()
	n := len(ci.results)
	if n != ci.nGoRes+len(writes) {
		return ft.refuse(ins, "internal: result arity of %s", ci.spec)
	}
	if n > 1 || ci.nGoRes == 0 {
		raw = ins.Name() + "_r"
	}
	ft.declare(raw, unparen(ci.resultTyNoOpt()))
	if ci.mayPanic {
		*steps = append(*steps, func(next node) node {
			return &nBind{name: raw, e: callEx, why: "panic in " + ci.spec, next: next}
		})
	} else {
		*steps = append(*steps, func(next node) node { return &nLet{name: raw, e: callEx, next: next} })
	}
	mk := func(i int) value {
		return value{k: ci.results[i].k, e: fx(tupleProj("%s", i, n), ref(raw)), ty: nil}
	}
	res := ft.f.Signature // placeholder to keep types import used
	_ = res
	sigRes := callee.Signature.Results()
	var goVals []value
	for i := 0; i < ci.nGoRes; i++ {
		v := mk(i)
		v.ty = sigRes.At(i).Type()
		goVals = append(goVals, v)
	}
	switch ci.nGoRes {
	case 0:
	case 1:
		ft.env[ins] = goVals[0]
	default:
		ft.env[ins] = value{k: kTuple, elems: goVals, ty: ins.Type()}
	}
	for j, c := range writes {
		name := fmt.Sprintf("%s_w%d", ins.Name(), j)
		lt, _ := c.leanTy()
		ft.declare(name, lt)
		e := fx(tupleProj("%s", ci.nGoRes+j, n), ref(raw))
		*steps = append(*steps, func(next node) node { return &nLet{name: name, e: e, next: next} })
		cur[c] = ref(name)
	}
	return nil
}

func (fi *fnInfo) resultTyNoOpt() string {
	var parts []string
	for _, r := range fi.results {
		parts = append(parts, r.ty)
	}
	if len(parts) == 0 {
		return "Unit"
	}
	return strings.Join(parts, " × ")
}

func (ft *ftr) useExtern(f *ssa.Function, ty string) *slot {
	if s, ok := ft.externUsed[f]; ok {
		return s
	}
	name := leanIdent(f.Name())
	s := &slot{kind: sExtern, name: name, ty: ty, fn: f, param: -1}
	ft.externUsed[f] = s
	ft.declare(name, ty)
	return s
}

// externCall: the callee is deliberately left untranslated and becomes a function parameter (scalars only).
func (ft *ftr) externCall(steps *[]step, ins *ssa.Call, callee *ssa.Function) error {
	sig := callee.Signature
	var tys []string
	for i := 0; i < sig.Params().Len(); i++ {
		si, ok := scalarOf(sig.Params().At(i).Type())
		if !ok {
			return ft.refuse(ins, "extern %s has a parameter of unsupported type", specOf(callee))
		}
		tys = append(tys, si.lean)
	}
	if sig.Recv() != nil || sig.Results().Len() != 1 {
		return ft.refuse(ins, "extern %s must be a plain function with one result", specOf(callee))
	}
	rs, ok := scalarOf(sig.Results().At(0).Type())
	if !ok {
		return ft.refuse(ins, "extern %s has a result of unsupported type", specOf(callee))
	}
	tys = append(tys, rs.lean)
	sl := ft.useExtern(callee, "("+strings.Join(tys, " → ")+")")
	e := ref(sl.name)
	for _, a := range ins.Call.Args {
		v, _, err := ft.scalar(ins, a)
		if err != nil {
			return err
		}
		e = fx("%s %s", e, ex{s: paren(v.e.s), fv: v.e.fv})
	}
	return ft.bind(steps, ins, kScalar, e)
}

func (ft *ftr) builtin(steps *[]step, ins *ssa.Call, b *ssa.Builtin) error {
	if b.Name() == "len" && len(ins.Call.Args) == 1 {
		v, err := ft.valOf(ins, ins.Call.Args[0])
		if err != nil {
			return err
		}
		if v.k == kSlice {
			return ft.bind(steps, ins, kScalar, v.e) // the cell holds the length
		}
		return ft.refuse(ins, "len of a value that is not a slice parameter or a slice-typed struct field")
	}
	return ft.refuse(ins, "builtin %s is outside the grammar", b.Name())
}

// bigCall: the modelled fragment of math/big.  Reading methods work on any value; mutating methods only on a receiver that
// was allocated in this function and is not used anywhere else (so no aliasing is observable).
func (ft *ftr) bigCall(steps *[]step, ins *ssa.Call, callee *ssa.Function) error {
	args := ins.Call.Args
	name := callee.Name()
	if callee.Signature.Recv() == nil {
		if name == "NewInt" && len(args) == 1 {
			x, _, err := ft.scalar(ins, args[0])
			if err != nil {
				return err
			}
			e := fx("%s.toInt", x.e)
			nonzero := false
			if c, ok := args[0].(*ssa.Const); ok && c.Value != nil {
				n := constant.ToInt(c.Value)
				e = lit(fmt.Sprintf("(%s : Int)", n.ExactString()))
				nonzero = constant.Sign(n) != 0
			}
			if err := ft.bind(steps, ins, kBig, e); err != nil {
				return ft.refuse(ins, "%v", err)
			}
			v := ft.env[ins]
			v.owned = true
			v.nonzero = nonzero
			ft.env[ins] = v
			return nil
		}
		return ft.refuse(ins, "math/big function %s is not modelled", name)
	}
	if !isBigPtr(callee.Signature.Recv().Type()) {
		return ft.refuse(ins, "math/big method %s is not modelled", callee)
	}
	recv, err := ft.valOf(ins, args[0])
	if err != nil {
		return err
	}
	if recv.k != kBig && recv.k != kBigOpt {
		return ft.refuse(ins, "receiver of %s is not a *big.Int value", name)
	}
	bigArg := func(i int, tag string) (ex, error) {
		v, err := ft.valOf(ins, args[i])
		if err != nil {
			return ex{}, err
		}
		if v.k != kBig && v.k != kBigOpt {
			return ex{}, ft.refuse(ins, "argument %d of %s is not a *big.Int value", i, name)
		}
		return ft.unwrap(steps, ins, v, tag), nil
	}
	// reading methods
	switch name {
	case "BitLen", "Uint64", "Int64", "Sign", "IsUint64", "IsInt64":
		x := ft.unwrap(steps, ins, recv, "x")
		return ft.bind(steps, ins, kScalar, fx("Big."+strings.ToLower(name[:1])+name[1:]+" %s", x))
	case "Cmp", "CmpAbs":
		x := ft.unwrap(steps, ins, recv, "x")
		y, err := bigArg(1, "y")
		if err != nil {
			return err
		}
		return ft.bind(steps, ins, kScalar, fx("Big."+strings.ToLower(name[:1])+name[1:]+" %s %s", x, y))
	}
	// mutating methods: z.Op(args) with z fresh and otherwise unused
	if recv.k != kBig || !recv.owned {
		return ft.refuse(ins, "(*big.Int).%s writes to a receiver that was not allocated in this function (aliasing is not modelled)", name)
	}
	for _, r := range *args[0].Referrers() {
		if recv.bcell != nil {
			break // an in-place update of a cell: every later read sees the new value
		}
		if r != ssa.Instruction(ins) {
			return ft.refuse(ins, "receiver %s of the mutating method %s is used elsewhere (`%s`): aliasing is not modelled", args[0].Name(), name, r)
		}
	}
	var e ex
	switch name {
	case "Set":
		y, err := bigArg(1, "y")
		if err != nil {
			return err
		}
		e = y
	case "SetUint64":
		x, _, err := ft.scalar(ins, args[1])
		if err != nil {
			return err
		}
		e = fx("Int.ofNat %s.toNat", x.e)
	case "SetInt64":
		x, _, err := ft.scalar(ins, args[1])
		if err != nil {
			return err
		}
		e = fx("%s.toInt", x.e)
	case "Add", "Sub", "Mul", "Div", "Mod", "Quo", "Rem":
		x, err := bigArg(1, "a")
		if err != nil {
			return err
		}
		y, err := bigArg(2, "b")
		if err != nil {
			return err
		}
		switch name {
		case "Add":
			e = fx("%s + %s", x, y)
		case "Sub":
			e = fx("%s - %s", x, y)
		case "Mul":
			e = fx("%s * %s", x, y)
		default:
			if yv, _ := ft.valOf(ins, args[2]); !yv.nonzero { // a divisor built by big.NewInt(<non-zero constant>) needs no check
				cond := fx("%s = 0", y)
				*steps = append(*steps, func(next node) node { return &nGuard{cond: cond, why: "division by zero", next: next} })
			}
			e = fx(map[string]string{"Div": "%s / %s", "Mod": "%s %% %s", "Quo": "Int.tdiv %s %s", "Rem": "Int.tmod %s %s"}[name], x, y)
		}
	case "Neg":
		x, err := bigArg(1, "a")
		if err != nil {
			return err
		}
		e = fx("- %s", x)
	case "Abs":
		x, err := bigArg(1, "a")
		if err != nil {
			return err
		}
		e = fx("Int.ofNat %s.natAbs", x)
	default:
		return ft.refuse(ins, "(*big.Int).%s is not modelled", name)
	}
	if err := ft.bind(steps, ins, kBig, e); err != nil {
		return ft.refuse(ins, "%v", err)
	}
	v := ft.env[ins]
	v.owned = true
	if recv.bcell != nil {
		ft.curNow[recv.bcell] = v.e
		v.bcell = recv.bcell
	}
	ft.env[ins] = v
	return nil
}

// ssa2lean: the mini-translator of DESIGN.md 2.2 (restricted go/ssa -> Lean 4).
//
//	ssa2lean [-o FILE] [-extern f,g] [-refuse f,g] [-dump] <function>...
//
// A <function> is `pkg/path.Func`, `pkg/path.(*T).Method` or `pkg/path.(T).Method`, package paths relative to the module of the
// tree under test ($VERIF_REPO, default /repo).  Every listed function (and every function of the module it calls statically)
// is translated into Lean definitions in namespace Aqv.Gen.Translated.  Anything outside the grammar (docs/notes/translator.md)
// is REFUSED: a message naming the function, the instruction and its position is printed and the exit status is 1; nothing is
// approximated.  `-extern` lists callees that are deliberately NOT translated: they become explicit function parameters of the
// generated definition (used for loops such as rlp.intsize, which stay tied by the differential harness).  `-refuse` lists
// functions that MUST be refused (self-test of the grammar check: a loop that is translated would be a translator bug).
package main

import (
	"crypto/sha256"
	"flag"
	"fmt"
	"go/token"
	"go/types"
	"os"
	"path/filepath"
	"sort"
	"strings"

	"golang.org/x/tools/go/packages"
	"golang.org/x/tools/go/ssa"
	"golang.org/x/tools/go/ssa/ssautil"
)

var (
	repo    string
	modPath string
	prog    *ssa.Program
	fset    *token.FileSet
	built   = map[*ssa.Package]bool{}
	byPath  = map[string]*packages.Package{}
)

func fatal(format string, a ...interface{}) {
	fmt.Fprintf(os.Stderr, "ssa2lean: "+format+"\n", a...)
	os.Exit(2)
}

// spec = "core/vm.toWordSize" | "core.(*GasPool).SubGas" | "params.(T).M"
func splitSpec(spec string) (pkg, recv, name string, ptr bool, err error) {
	i := strings.Index(spec, ".(")
	if i >= 0 {
		pkg = spec[:i]
		rest := spec[i+2:]
		j := strings.Index(rest, ").")
		if j < 0 {
			return "", "", "", false, fmt.Errorf("bad method spec %q", spec)
		}
		recv, name = rest[:j], rest[j+2:]
		if strings.HasPrefix(recv, "*") {
			ptr, recv = true, recv[1:]
		}
		return
	}
	i = strings.LastIndex(spec, ".")
	if i < 0 {
		return "", "", "", false, fmt.Errorf("bad function spec %q", spec)
	}
	return spec[:i], "", spec[i+1:], false, nil
}

func lookup(spec string) (*ssa.Function, error) {
	pkg, recv, name, ptr, err := splitSpec(spec)
	if err != nil {
		return nil, err
	}
	full := modPath + "/" + pkg
	sp := prog.ImportedPackage(full)
	if sp == nil {
		return nil, fmt.Errorf("package %s not loaded", full)
	}
	buildPkg(sp)
	if recv == "" {
		f := sp.Func(name)
		if f == nil {
			return nil, fmt.Errorf("function %s not found in %s", name, full)
		}
		return f, nil
	}
	t := sp.Type(recv)
	if t == nil {
		return nil, fmt.Errorf("type %s not found in %s", recv, full)
	}
	var typ types.Type = t.Type()
	if ptr {
		typ = types.NewPointer(typ)
	}
	ms := prog.MethodSets.MethodSet(typ)
	for i := 0; i < ms.Len(); i++ {
		if ms.At(i).Obj().Name() == name {
			f := prog.MethodValue(ms.At(i))
			if f == nil {
				return nil, fmt.Errorf("method %s has no body", spec)
			}
			if f.Synthetic != "" {
				return nil, fmt.Errorf("method %s resolves to a synthetic wrapper (%s): give the declared receiver kind", spec, f.Synthetic)
			}
			return f, nil
		}
	}
	return nil, fmt.Errorf("method %s not found", spec)
}

func buildPkg(p *ssa.Package) {
	if !built[p] {
		p.Build()
		built[p] = true
	}
}

// specOf renders an ssa.Function the way the command line names it.
func specOf(f *ssa.Function) string {
	if f.Pkg == nil {
		return f.String()
	}
	pp := strings.TrimPrefix(f.Pkg.Pkg.Path(), modPath+"/")
	if recv := f.Signature.Recv(); recv != nil {
		t := recv.Type()
		star := ""
		if p, ok := t.(*types.Pointer); ok {
			star, t = "*", p.Elem()
		}
		n := "?"
		if nt, ok := t.(*types.Named); ok {
			n = nt.Obj().Name()
		}
		return fmt.Sprintf("%s.(%s%s).%s", pp, star, n, f.Name())
	}
	return pp + "." + f.Name()
}

func posOf(p token.Pos) string {
	if !p.IsValid() {
		return "?"
	}
	ps := fset.Position(p)
	rel, err := filepath.Rel(repo, ps.Filename)
	if err != nil {
		rel = ps.Filename
	}
	return fmt.Sprintf("%s:%d", rel, ps.Line)
}

// srcHash: sha256 of the source text of the function declaration (12 hex digits).
func srcHash(f *ssa.Function) string {
	syn := f.Syntax()
	if syn == nil {
		return "nosyntax"
	}
	a, b := fset.Position(syn.Pos()), fset.Position(syn.End())
	data, err := os.ReadFile(a.Filename)
	if err != nil || b.Offset > len(data) {
		return "unreadable"
	}
	return fmt.Sprintf("%x", sha256.Sum256(data[a.Offset:b.Offset]))[:12]
}

func main() {
	outFile := flag.String("o", "", "write the Lean module here (default stdout)")
	externs := flag.String("extern", "", "comma separated functions that become explicit function parameters instead of being translated")
	refuses := flag.String("refuse", "", "comma separated functions that must be refused (self-test)")
	dump := flag.Bool("dump", false, "print the SSA of every requested function to stderr")
	keepGoing := flag.Bool("keep-going", false, "write the module without the refused functions (their dependants then fail to compile) and exit 0; self-test failures still exit 1")
	survey := flag.String("survey", "", "comma separated packages: try every function and method, report which are inside the grammar (no output file)")
	flag.Parse()
	specs := flag.Args()
	if len(specs) == 0 && *survey == "" {
		fatal("no functions given")
	}
	repo = os.Getenv("VERIF_REPO")
	if repo == "" {
		repo = "/repo"
	}
	repo, _ = filepath.Abs(repo)
	env := []string{}
	for _, e := range os.Environ() {
		if strings.HasPrefix(e, "GOFLAGS=") || strings.HasPrefix(e, "GOPROXY=") {
			continue
		}
		env = append(env, e)
	}
	env = append(env, "GOFLAGS=-mod=mod", "GOPROXY=off")

	split := func(s string) []string {
		var r []string
		for _, x := range strings.Split(s, ",") {
			if x = strings.TrimSpace(x); x != "" {
				r = append(r, x)
			}
		}
		return r
	}
	externList, refuseList := split(*externs), split(*refuses)
	pkgSet := map[string]bool{}
	for _, s := range append(append(append([]string{}, specs...), externList...), refuseList...) {
		p, _, _, _, err := splitSpec(s)
		if err != nil {
			fatal("%v", err)
		}
		pkgSet["./"+p] = true
	}
	for _, p := range strings.Split(*survey, ",") {
		if p != "" {
			pkgSet["./"+p] = true
		}
	}
	var patterns []string
	for p := range pkgSet {
		patterns = append(patterns, p)
	}
	sort.Strings(patterns)
	cfg := &packages.Config{Mode: packages.LoadAllSyntax, Dir: repo, Env: env}
	pkgs, err := packages.Load(cfg, patterns...)
	if err != nil {
		fatal("load: %v", err)
	}
	nerr := 0
	packages.Visit(pkgs, nil, func(p *packages.Package) {
		byPath[p.PkgPath] = p
		for _, e := range p.Errors {
			if nerr < 10 {
				fmt.Fprintln(os.Stderr, "load error:", e)
			}
			nerr++
		}
	})
	if nerr > 0 {
		fatal("%d package errors (the tree under test does not type-check)", nerr)
	}
	if gm, err := os.ReadFile(filepath.Join(repo, "go.mod")); err == nil {
		for _, l := range strings.Split(string(gm), "\n") {
			if f := strings.Fields(l); len(f) == 2 && f[0] == "module" {
				modPath = strings.Trim(f[1], "\"")
			}
		}
	}
	if modPath == "" {
		fatal("cannot determine the module path of %s", repo)
	}
	prog, _ = ssautil.AllPackages(pkgs, ssa.InstantiateGenerics)
	fset = prog.Fset

	tr := newTranslator()
	for _, s := range externList {
		f, err := lookup(s)
		if err != nil {
			fatal("extern %s: %v", s, err)
		}
		tr.extern[f] = true
	}
	if *survey != "" {
		runSurvey(strings.Split(*survey, ","), tr)
		return
	}
	failed := 0
	var refusedReq []string
	for _, s := range specs {
		f, err := lookup(s)
		if err != nil {
			fmt.Fprintf(os.Stderr, "REFUSED %s: %v\n", s, err)
			refusedReq = append(refusedReq, fmt.Sprintf("%s — %v", s, err))
			failed++
			continue
		}
		if *dump {
			f.WriteTo(os.Stderr)
		}
		tr.requested[f] = true
	}
	for _, s := range specs {
		f, err := lookup(s)
		if err != nil {
			continue
		}
		if _, err := tr.translate(f); err != nil {
			fmt.Fprintf(os.Stderr, "REFUSED %s: %v\n", s, err)
			refusedReq = append(refusedReq, fmt.Sprintf("%s — %v", s, err))
			failed++
		}
	}
	if *keepGoing {
		failed = 0 // only self-test failures count below
	}
	var refusedOK []string
	for _, s := range refuseList {
		f, err := lookup(s)
		if err != nil {
			fmt.Fprintf(os.Stderr, "SELF-TEST %s: %v\n", s, err)
			failed++
			continue
		}
		probe := newTranslator() // separate instance: an expected refusal must not leak definitions into the output
		for e := range tr.extern {
			probe.extern[e] = true
		}
		if _, err := probe.translate(f); err == nil {
			fmt.Fprintf(os.Stderr, "SELF-TEST FAILED: %s is expected to be outside the grammar but was translated\n", s)
			failed++
		} else {
			refusedOK = append(refusedOK, fmt.Sprintf("%s — %v", s, err))
			fmt.Fprintf(os.Stderr, "refused as expected: %s: %v\n", s, err)
		}
	}
	if failed > 0 {
		fmt.Fprintf(os.Stderr, "ssa2lean: %d function(s) refused / self-tests failed; no output written\n", failed)
		os.Exit(1)
	}
	text := tr.render(specs, refusedOK, refusedReq)
	if *outFile == "" {
		fmt.Print(text)
		return
	}
	old, err := os.ReadFile(*outFile)
	if err == nil && string(old) == text {
		fmt.Fprintf(os.Stderr, "ssa2lean: %s unchanged\n", *outFile)
		return
	}
	if err := os.WriteFile(*outFile, []byte(text), 0o644); err != nil {
		fatal("%v", err)
	}
	fmt.Fprintf(os.Stderr, "ssa2lean: %s written (%d bytes)\n", *outFile, len(text))
}

// runSurvey: candidate finder. Tries every declared function and method of the packages.
func runSurvey(pkgs []string, base *translator) {
	for _, pp := range pkgs {
		sp := prog.ImportedPackage(modPath + "/" + pp)
		if sp == nil {
			fmt.Printf("package %s not loaded\n", pp)
			continue
		}
		buildPkg(sp)
		var fns []*ssa.Function
		for _, m := range sp.Members {
			switch m := m.(type) {
			case *ssa.Function:
				fns = append(fns, m)
			case *ssa.Type:
				for _, typ := range []types.Type{m.Type(), types.NewPointer(m.Type())} {
					ms := prog.MethodSets.MethodSet(typ)
					for i := 0; i < ms.Len(); i++ {
						if f := prog.MethodValue(ms.At(i)); f != nil && f.Synthetic == "" && f.Pkg == sp {
							fns = append(fns, f)
						}
					}
				}
			}
		}
		sort.Slice(fns, func(i, j int) bool { return fns[i].Pos() < fns[j].Pos() })
		seen := map[*ssa.Function]bool{}
		for _, f := range fns {
			if seen[f] || f.Name() == "init" || len(f.Blocks) == 0 {
				continue
			}
			seen[f] = true
			tr := newTranslator()
			for e := range base.extern {
				tr.extern[e] = true
			}
			if fi, err := tr.translate(f); err != nil {
				msg := err.Error()
				if len(msg) > 230 {
					msg = msg[:230]
				}
				fmt.Printf("no  %-50s %s\n", specOf(f), msg)
			} else {
				fmt.Printf("OK  %-50s %s : %s\n", specOf(f), posOf(f.Pos()), fi.resultTy())
			}
		}
	}
}

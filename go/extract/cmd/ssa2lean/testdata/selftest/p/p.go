// Package p: functions exercising every construct of the ssa2lean grammar. The translator self-test translates them, runs the
// real Go code on a few hundred inputs and lets Lean evaluate the generated definitions on the same inputs (#guard).
package p

import (
	"errors"
	"math/big"
)

var ErrLow = errors.New("low")

type Counter uint64

type Box struct {
	A    uint64
	B    int32
	Name string
	Data []byte
	Big  *big.Int
	M    map[int]*big.Int
}

type Pair struct {
	X, Y uint32
}

func Arith(a, b uint64, c int64, d uint8) (uint64, int64, uint8, bool) {
	x := a*b + a - b ^ (a &^ b) | (b & 0xff)
	y := c*3 - c/7 + c%5
	z := d<<3 + d>>1
	return x, y, z, x > a && y <= c || z != d
}

func Conv(a uint64, b int64, c uint8, d int8, e uint32, f int32) (uint8, int8, uint32, int64, uint64, int32, uint16, int16) {
	return uint8(a), int8(b), uint32(b), int64(a), uint64(d), int32(e), uint16(f), int16(c)
}

func Shifts(a uint64, b int64, n uint8, m uint64) (uint64, uint64, int64, int64, uint64, int64) {
	return a << n, a >> m, b << n, b >> m, a << 70, b >> 64
}

func SignedShift(a uint64, n int64) uint64 {
	return a << n // panics for negative n
}

func Div(a, b uint64, c, d int64) (uint64, uint64, int64, int64) {
	return a / b, a % b, c / d, c % d
}

func Neg(c int64, a uint64, d int8) (int64, uint64, int8, uint64) {
	return -c, -a, -d, ^a
}

func Str(s string, t string) (bool, bool, bool) {
	return s == "abc", s != t, s == "Ünï\"\\\n" || t == ""
}

func Diamond(a uint64, b bool) uint64 {
	x := a
	if b {
		x = a + 1
	} else if a > 10 {
		x = a * 2
	}
	y := x + 3
	if y%2 == 0 {
		y /= 2
	}
	return x + y
}

func (c *Counter) Add(n uint64) (uint64, error) {
	if n > 100 {
		return uint64(*c), ErrLow
	}
	if n%2 == 0 {
		*c += Counter(n)
	} else {
		*c -= 1
	}
	*c *= 2
	return uint64(*c), nil
}

func (c *Counter) Twice(n uint64) (uint64, error) {
	a, err := c.Add(n)
	if err != nil {
		return 0, err
	}
	b, err := c.Add(a % 7)
	return a + b, err
}

func (b *Box) Touch(k uint64) int {
	if b.Name == "skip" {
		return len(b.Data)
	}
	b.A += k
	if b.A > 1000 {
		b.B = -1
	}
	return len(b.Data) + int(b.B)
}

func (b *Box) Look(i int, x *big.Int) int {
	if b.Big == nil || b.M[i] == nil {
		return -2
	}
	return b.Big.Cmp(x) + b.M[i].Sign()
}

func ByValue(p Pair, q Pair) uint32 {
	if p.X > q.Y {
		return p.X - q.Y
	}
	return sum(q) + p.Y
}

func sum(p Pair) uint32 { return p.X + p.Y }

func Local(a, b uint32) uint32 {
	var p Pair
	p.X = a
	if a > b {
		p.Y = b
	}
	p.X += p.Y
	return sum(p) + p.X
}

func BigOps(x, y *big.Int, k uint64) (*big.Int, int, uint64, bool) {
	if x.Sign() < 0 {
		return new(big.Int).Neg(x), x.BitLen(), x.Uint64(), x.IsUint64()
	}
	z := new(big.Int).Add(x, y)
	z = z.Mul(z, big.NewInt(3))
	if y.Sign() != 0 {
		z = new(big.Int).Div(z, y)
		z = new(big.Int).Mod(z, new(big.Int).SetUint64(k|1))
		q := new(big.Int).Quo(x, y)
		r := new(big.Int).Rem(x, y)
		z = z.Sub(z, q.Add(q, r))
	}
	return z, z.BitLen(), z.Uint64(), z.Cmp(x) >= 0
}

func MaybeNil(x *big.Int, y *big.Int) *big.Int {
	if x == nil {
		return y
	}
	if y != nil && y.Sign() > 0 {
		return nil
	}
	return new(big.Int).Abs(x)
}

func Panics(a uint64) uint64 {
	if a == 7 {
		panic("seven")
	}
	return 100 / (a % 4)
}

func Words(input []byte, extra []byte) uint64 {
	return uint64(len(input)+31)/32*12 + 60 + wordsOf(extra)
}

func wordsOf(b []byte) uint64 { return uint64(len(b)) / 192 }

var bigTen = big.NewInt(10)
var minD = big.NewInt(5)

type Hdr struct {
	Time *big.Int
	Diff *big.Int
}

var Main = &Hdr{Time: big.NewInt(7), Diff: big.NewInt(5)}

// InPlace: big.Int variables updated in place, merged by a φ-node, a package-level struct pointer
func InPlace(t uint64, h *Hdr, id uint64) *big.Int {
	x := new(big.Int)
	y := new(big.Int)
	x.Sub(new(big.Int).SetUint64(t), h.Time)
	x.Div(x, bigTen)
	x.Sub(bigTen, x)
	if x.Sign() < 0 {
		x.Set(h.Diff)
	}
	y.Div(h.Diff, bigTen)
	x.Mul(y, x)
	x.Add(h.Diff, x)
	if id == Main.Time.Uint64() {
		x = BigMaxP(x, minD)
	}
	return x
}

func BigMaxP(a, b *big.Int) *big.Int {
	if a.Cmp(b) < 0 {
		return b
	}
	return a
}

// prints one Lean `#guard` line per (function, input): the value the real Go code computed
package main

import (
	"fmt"
	"math/big"
	"math/rand"
	"strings"

	"selftest/p"
)

var rng = rand.New(rand.NewSource(1))

func u64() uint64 {
	switch rng.Intn(6) {
	case 0:
		return uint64(rng.Intn(5))
	case 1:
		return ^uint64(0) - uint64(rng.Intn(3))
	case 2:
		return 1 << uint(rng.Intn(64))
	case 3:
		return uint64(rng.Intn(200))
	}
	return rng.Uint64()
}
func i64() int64 {
	switch rng.Intn(6) {
	case 0:
		return int64(rng.Intn(5)) - 2
	case 1:
		return -1 << 63
	case 2:
		return 1<<63 - 1
	}
	return int64(rng.Uint64())
}
func bigv() *big.Int {
	switch rng.Intn(5) {
	case 0:
		return big.NewInt(int64(rng.Intn(7)) - 3)
	case 1:
		return new(big.Int).Lsh(big.NewInt(1), uint(rng.Intn(130)))
	case 2:
		return new(big.Int).Neg(new(big.Int).SetUint64(rng.Uint64()))
	}
	return new(big.Int).Mul(new(big.Int).SetUint64(rng.Uint64()), new(big.Int).SetUint64(rng.Uint64()))
}

func lu(x uint64) string   { return fmt.Sprintf("(%d : UInt64)", x) }
func li(x int64) string    { return fmt.Sprintf("(%d : Int64)", x) }
func lB(x *big.Int) string { return fmt.Sprintf("(%s : Int)", x.String()) }
func lob(x *big.Int) string {
	if x == nil {
		return "(none : Option Int)"
	}
	return fmt.Sprintf("(some (%s : Int))", x.String())
}
func lb(b bool) string {
	if b {
		return "true"
	}
	return "false"
}
func lerr(e error) string {
	if e == nil {
		return "(none : Option String)"
	}
	return `(some "p.ErrLow")`
}
func lstr(s string) string {
	r := strings.NewReplacer(`\`, `\\`, `"`, `\"`, "\n", `\n`)
	return `"` + r.Replace(s) + `"`
}

func guard(call string, res string) { fmt.Printf("#guard (%s) == %s\n", call, res) }

// try runs f; ok=false when it panicked
func try(f func()) (ok bool) {
	defer func() {
		if recover() != nil {
			ok = false
		}
	}()
	f()
	return true
}

func main() {
	const N = 40
	for i := 0; i < N; i++ {
		a, b, c, d := u64(), u64(), i64(), uint8(rng.Intn(256))
		x, y, z, w := p.Arith(a, b, c, d)
		guard(fmt.Sprintf("Arith %s %s %s (%d : UInt8)", lu(a), lu(b), li(c), d), fmt.Sprintf("(%s, %s, (%d : UInt8), %s)", lu(x), li(y), z, lb(w)))
	}
	for i := 0; i < N; i++ {
		a, b, c, d, e, f := u64(), i64(), uint8(rng.Intn(256)), int8(rng.Intn(256)-128), uint32(rng.Uint64()), int32(rng.Uint64())
		r1, r2, r3, r4, r5, r6, r7, r8 := p.Conv(a, b, c, d, e, f)
		guard(fmt.Sprintf("Conv %s %s (%d : UInt8) (%d : Int8) (%d : UInt32) (%d : Int32)", lu(a), li(b), c, d, e, f),
			fmt.Sprintf("((%d : UInt8), (%d : Int8), (%d : UInt32), %s, %s, (%d : Int32), (%d : UInt16), (%d : Int16))", r1, r2, r3, li(r4), lu(r5), r6, r7, r8))
	}
	for i := 0; i < N; i++ {
		a, b, n, m := u64(), i64(), uint8(rng.Intn(80)), uint64(rng.Intn(80))
		r1, r2, r3, r4, r5, r6 := p.Shifts(a, b, n, m)
		guard(fmt.Sprintf("Shifts %s %s (%d : UInt8) %s", lu(a), li(b), n, lu(m)), fmt.Sprintf("(%s, %s, %s, %s, %s, %s)", lu(r1), lu(r2), li(r3), li(r4), lu(r5), li(r6)))
	}
	for i := 0; i < N; i++ {
		a, n := u64(), int64(rng.Intn(90))-10
		var r uint64
		if try(func() { r = p.SignedShift(a, n) }) {
			guard(fmt.Sprintf("SignedShift %s %s", lu(a), li(n)), "some "+lu(r))
		} else {
			guard(fmt.Sprintf("SignedShift %s %s", lu(a), li(n)), "none")
		}
	}
	for i := 0; i < N; i++ {
		a, b, c, d := u64(), u64(), i64(), i64()
		if rng.Intn(4) == 0 {
			d = -1
		}
		var r1, r2 uint64
		var r3, r4 int64
		if try(func() { r1, r2, r3, r4 = p.Div(a, b, c, d) }) {
			guard(fmt.Sprintf("Div %s %s %s %s", lu(a), lu(b), li(c), li(d)), fmt.Sprintf("some (%s, %s, %s, %s)", lu(r1), lu(r2), li(r3), li(r4)))
		} else {
			guard(fmt.Sprintf("Div %s %s %s %s", lu(a), lu(b), li(c), li(d)), "none")
		}
	}
	for i := 0; i < N; i++ {
		c, a, d := i64(), u64(), int8(rng.Intn(256)-128)
		r1, r2, r3, r4 := p.Neg(c, a, d)
		guard(fmt.Sprintf("Neg %s %s (%d : Int8)", li(c), lu(a), d), fmt.Sprintf("(%s, %s, (%d : Int8), %s)", li(r1), lu(r2), r3, lu(r4)))
	}
	strs := []string{"abc", "", "Ünï\"\\\n", "abd", "x"}
	for _, s := range strs {
		for _, t := range strs {
			r1, r2, r3 := p.Str(s, t)
			guard(fmt.Sprintf("Str %s %s", lstr(s), lstr(t)), fmt.Sprintf("(%s, %s, %s)", lb(r1), lb(r2), lb(r3)))
		}
	}
	for i := 0; i < N; i++ {
		a, b := u64(), rng.Intn(2) == 0
		guard(fmt.Sprintf("Diamond %s %s", lu(a), lb(b)), lu(p.Diamond(a, b)))
	}
	for i := 0; i < N; i++ {
		c0, n := u64(), uint64(rng.Intn(130))
		c := p.Counter(c0)
		r, err := c.Add(n)
		guard(fmt.Sprintf("Counter_Add %s %s", lu(c0), lu(n)), fmt.Sprintf("(%s, %s, %s)", lu(r), lerr(err), lu(uint64(c))))
		c = p.Counter(c0)
		r, err = c.Twice(n)
		guard(fmt.Sprintf("Counter_Twice %s %s", lu(c0), lu(n)), fmt.Sprintf("(%s, %s, %s)", lu(r), lerr(err), lu(uint64(c))))
	}
	for i := 0; i < N; i++ {
		bx := &p.Box{A: uint64(rng.Intn(1200)), B: int32(rng.Intn(100) - 50), Name: []string{"skip", "go"}[rng.Intn(2)], Data: make([]byte, rng.Intn(9))}
		a0, b0, k := bx.A, bx.B, uint64(rng.Intn(600))
		r := bx.Touch(k)
		// parameter order: cells of b in field order (A, B, Name, Data_len), then k; result, then written cells (A, B)
		guard(fmt.Sprintf("Box_Touch %s (%d : Int32) %s (%d : Int64) %s", lu(a0), b0, lstr(bx.Name), len(bx.Data), lu(k)),
			fmt.Sprintf("(%s, %s, (%d : Int32))", li(int64(r)), lu(bx.A), bx.B))
	}
	for i := 0; i < N; i++ {
		bx := &p.Box{M: map[int]*big.Int{}}
		if rng.Intn(4) != 0 {
			bx.Big = bigv()
		}
		if rng.Intn(3) != 0 {
			bx.M[3] = bigv()
		}
		key := []int{3, 4}[rng.Intn(2)]
		x := bigv()
		r := bx.Look(key, x)
		mfun := "(fun k => if k = 3 then " + lob(bx.M[3]) + " else none)"
		guard(fmt.Sprintf("Box_Look %s %s %s %s", lob(bx.Big), mfun, li(int64(key)), lB(x)), "some "+li(int64(r)))
	}
	for i := 0; i < N; i++ {
		pp, q := p.Pair{X: uint32(rng.Intn(50)), Y: uint32(rng.Uint64())}, p.Pair{X: uint32(rng.Uint64()), Y: uint32(rng.Intn(50))}
		guard(fmt.Sprintf("ByValue (%d : UInt32) (%d : UInt32) (%d : UInt32) (%d : UInt32)", pp.X, pp.Y, q.X, q.Y), fmt.Sprintf("(%d : UInt32)", p.ByValue(pp, q)))
		a, b := uint32(rng.Intn(20)), uint32(rng.Intn(20))
		guard(fmt.Sprintf("Local (%d : UInt32) (%d : UInt32)", a, b), fmt.Sprintf("(%d : UInt32)", p.Local(a, b)))
	}
	for i := 0; i < 2*N; i++ {
		x, y, k := bigv(), bigv(), u64()
		x0, y0 := new(big.Int).Set(x), new(big.Int).Set(y)
		z, bl, u, c := p.BigOps(x, y, k)
		if x.Cmp(x0) != 0 || y.Cmp(y0) != 0 {
			panic("BigOps modified an argument")
		}
		guard(fmt.Sprintf("BigOps %s %s %s", lB(x0), lB(y0), lu(k)), fmt.Sprintf("some (%s, %s, %s, %s)", lB(z), li(int64(bl)), lu(u), lb(c)))
	}
	for i := 0; i < N; i++ {
		var x, y *big.Int
		if rng.Intn(3) != 0 {
			x = bigv()
		}
		if rng.Intn(3) != 0 {
			y = bigv()
		}
		guard(fmt.Sprintf("MaybeNil %s %s", lob(x), lob(y)), "some "+lob(p.MaybeNil(x, y)))
	}
	for i := 0; i < N; i++ {
		a, b := make([]byte, rng.Intn(500)), make([]byte, rng.Intn(1000))
		guard(fmt.Sprintf("Words (%d : Int64) (%d : Int64)", len(a), len(b)), lu(p.Words(a, b)))
	}
	for i := 0; i < 2*N; i++ {
		h := &p.Hdr{Time: bigv(), Diff: bigv()}
		t, id := u64(), uint64(rng.Intn(2))*7
		r := p.InPlace(t, h, id)
		// parameters: globals (bigTen, minD), global cell (Main.Time), t, cells of h (Time, Diff), id
		guard(fmt.Sprintf("InPlace (g_p_bigTen := 10) (g_p_minD := 5) (g_p_Main_Time := some 7) %s (h_Time := %s) (h_Diff := %s) %s", lu(t), lob(h.Time), lob(h.Diff), lu(id)),
			"some "+lB(r))
	}
	for a := uint64(0); a < 12; a++ {
		var r uint64
		if try(func() { r = p.Panics(a) }) {
			guard(fmt.Sprintf("Panics %s", lu(a)), "some "+lu(r))
		} else {
			guard(fmt.Sprintf("Panics %s", lu(a)), "none")
		}
	}
}

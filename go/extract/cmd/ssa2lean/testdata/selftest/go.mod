module selftest

go 1.24.0

package main

import (
	"fmt"
	"go/token"
	"go/types"
	"sort"
	"strings"

	"golang.org/x/tools/go/ssa"
)

// ---- values ------------------------------------------------------------------------------------------------------------

type kind int

const (
	kScalar kind = iota // integer / bool / string: Lean expression of the mapped type
	kBig                // *big.Int known to be non-nil: Lean Int
	kBigOpt             // *big.Int that may be nil: Lean Option Int
	kErr                // error: Lean Option String
	kPtr                // pointer into a root (pointer parameter / local variable): no Lean expression, resolved statically
	kStruct             // struct value (of a by-value parameter)
	kTuple              // result of a multi-result call
	kMap                // map read as a total function
	kSlice              // slice loaded from a field: only len() is allowed
	kUnit               // a returned pointer parameter (the receiver itself): Lean Unit
)

type value struct {
	k       kind
	e       ex
	ty      types.Type
	root    *root
	path    []int
	sfield  func(i int) (value, error)
	elems   []value
	bcell   *cell // kBig: the pointer denotes this in-place updated cell (its value is read from the memory state)
	owned   bool  // kBig: freshly allocated in this function (may be the receiver of a mutating method once)
	nonzero bool  // kBig: big.NewInt(c) with a non-zero constant c
	cell    *cell
}

func (v value) leanTy() (string, error) {
	switch v.k {
	case kScalar:
		si, ok := scalarOf(v.ty)
		if !ok {
			return "", fmt.Errorf("no Lean type for %s", v.ty)
		}
		return si.lean, nil
	case kBig:
		return "Int", nil
	case kBigOpt:
		return "(Option Int)", nil
	case kErr:
		return "(Option String)", nil
	case kUnit:
		return "Unit", nil
	case kMap:
		return mapLeanTy(v.ty)
	}
	return "", fmt.Errorf("value of kind %d has no Lean type", v.k)
}

func mapLeanTy(t types.Type) (string, error) {
	m, ok := t.Underlying().(*types.Map)
	if !ok {
		return "", fmt.Errorf("%s is not a map", t)
	}
	ks, ok := scalarOf(m.Key())
	if !ok {
		return "", fmt.Errorf("map key type %s unsupported", m.Key())
	}
	if isBigPtr(m.Elem()) {
		return fmt.Sprintf("(%s → Option Int)", ks.lean), nil
	}
	vs, ok := scalarOf(m.Elem())
	if !ok {
		return "", fmt.Errorf("map element type %s unsupported", m.Elem())
	}
	return fmt.Sprintf("(%s → %s)", ks.lean, vs.lean), nil
}

// ---- memory cells ------------------------------------------------------------------------------------------------------

// root: a pointer parameter (to a struct or to a named basic type) or a local variable whose address never leaves the
// function.  Its leaves that are read or written are "cells".
type root struct {
	name  string
	g     *ssa.Global // param == -2: the struct a package-level pointer variable points to (read only)
	param int         // index into f.Params, -1 for a local, -2 for a package-level pointer variable
	elem  types.Type
	order int
	cells map[string]*cell
}

type cell struct {
	root     *root
	path     []int
	name     string
	ty       types.Type
	written  bool
	threaded bool
	bigVal   bool // the value of a `new(big.Int)` that is updated in place by math/big methods (Lean Int)
}

func pathKey(p []int) string {
	var s []string
	for _, i := range p {
		s = append(s, fmt.Sprint(i))
	}
	return strings.Join(s, ".")
}

func (c *cell) leanTy() (string, error) {
	if c.bigVal {
		return "Int", nil
	}
	if si, ok := scalarOf(c.ty); ok {
		return si.lean, nil
	}
	if isBigPtr(c.ty) {
		return "(Option Int)", nil
	}
	if _, ok := c.ty.Underlying().(*types.Slice); ok {
		return "Int64", nil // only the length is visible
	}
	if _, ok := c.ty.Underlying().(*types.Map); ok {
		return mapLeanTy(c.ty)
	}
	return "", fmt.Errorf("field %s of unsupported type %s", c.name, c.ty)
}

// ---- function summaries ------------------------------------------------------------------------------------------------

type slotKind int

const (
	sExtern slotKind = iota
	sGlobal
	sScalar
	sBig
	sBigOpt
	sMap
	sSliceLen
	sField
	sCell
	sGlobalCell
)

type slot struct {
	kind    slotKind
	name    string
	ty      string
	fn      *ssa.Function
	g       *ssa.Global
	param   int
	path    []int
	written bool
	goTy    types.Type
}

type resInfo struct {
	k  kind
	ty string
}

type fnInfo struct {
	f        *ssa.Function
	spec     string
	lean     string
	slots    []slot
	results  []resInfo // Go results, then written cells
	nGoRes   int
	mayPanic bool
	text     string
	pos      string
	hash     string
	notes    []string
}

func (fi *fnInfo) resultTy() string {
	var parts []string
	for _, r := range fi.results {
		parts = append(parts, r.ty)
	}
	s := "Unit"
	if len(parts) > 0 {
		s = strings.Join(parts, " × ")
	}
	if fi.mayPanic {
		if len(parts) > 1 {
			return "Option (" + s + ")"
		}
		return "Option " + s
	}
	return s
}

type translator struct {
	requested  map[*ssa.Function]bool
	extern     map[*ssa.Function]bool
	done       map[*ssa.Function]*fnInfo
	failed     map[*ssa.Function]error
	inProgress map[*ssa.Function]bool
	order      []*fnInfo
	names      map[string]*ssa.Function
}

func newTranslator() *translator {
	return &translator{requested: map[*ssa.Function]bool{}, extern: map[*ssa.Function]bool{}, done: map[*ssa.Function]*fnInfo{},
		failed: map[*ssa.Function]error{}, inProgress: map[*ssa.Function]bool{}, names: map[string]*ssa.Function{}}
}

func (t *translator) leanName(f *ssa.Function) string {
	n := leanIdent(f.Name())
	if recv := f.Signature.Recv(); recv != nil {
		rt := recv.Type()
		if p, ok := rt.(*types.Pointer); ok {
			rt = p.Elem()
		}
		if nt, ok := rt.(*types.Named); ok {
			n = leanIdent(nt.Obj().Name()) + "_" + leanIdent(f.Name())
		}
	}
	if g, ok := t.names[n]; ok && g != f {
		n = leanIdent(f.Pkg.Pkg.Name()) + "_" + n
	}
	t.names[n] = f
	return n
}

type refusal struct {
	fn  *ssa.Function
	msg string
}

func (r *refusal) Error() string { return r.msg }

func (t *translator) translate(f *ssa.Function) (fi *fnInfo, err error) {
	if fi, ok := t.done[f]; ok {
		return fi, nil
	}
	if e, ok := t.failed[f]; ok {
		return nil, e
	}
	if t.inProgress[f] {
		return nil, fmt.Errorf("recursive call cycle through %s", specOf(f))
	}
	if f.Pkg == nil || !strings.HasPrefix(f.Pkg.Pkg.Path(), modPath) {
		return nil, fmt.Errorf("%s is outside the module", f)
	}
	buildPkg(f.Pkg)
	if len(f.Blocks) == 0 {
		return nil, fmt.Errorf("%s has no body", specOf(f))
	}
	t.inProgress[f] = true
	defer func() {
		delete(t.inProgress, f)
		if err != nil {
			t.failed[f] = err
		}
	}()
	ft := &ftr{t: t, f: f, env: map[ssa.Value]value{}, tyOf: map[string]string{}, roots: map[ssa.Value]*root{},
		joins: map[*ssa.BasicBlock]*joinDef{}, nilable: map[*ssa.Parameter]bool{}, externUsed: map[*ssa.Function]*slot{},
		globalsUsed: map[*ssa.Global]*slot{}, fieldsUsed: map[string]*slot{}, touch: map[*ssa.BasicBlock]map[*root]bool{},
		reach: map[*ssa.BasicBlock]map[*root]bool{}, bigCellOf: map[ssa.Value]*cell{}, globalRoots: map[*ssa.Global]*root{}}
	ft.info = &fnInfo{f: f, spec: specOf(f), pos: posOf(f.Pos()), hash: srcHash(f)}
	if err := ft.run(); err != nil {
		return nil, err
	}
	t.done[f] = ft.info
	t.order = append(t.order, ft.info)
	return ft.info, nil
}

// ---- per-function state --------------------------------------------------------------------------------------------------

type ftr struct {
	t           *translator
	f           *ssa.Function
	info        *fnInfo
	env         map[ssa.Value]value
	tyOf        map[string]string
	roots       map[ssa.Value]*root
	rootList    []*root
	cells       []*cell
	joins       map[*ssa.BasicBlock]*joinDef
	joinOrder   []*joinDef
	nilable     map[*ssa.Parameter]bool
	externUsed  map[*ssa.Function]*slot
	globalsUsed map[*ssa.Global]*slot
	fieldsUsed  map[string]*slot
	paramSlots  []slot
	touch       map[*ssa.BasicBlock]map[*root]bool
	reach       map[*ssa.BasicBlock]map[*root]bool
	bigCellOf   map[ssa.Value]*cell // new(big.Int) and the results of in-place methods on it
	globalRoots map[*ssa.Global]*root
	curNow      map[*cell]ex // memory state at the instruction being translated
	called      []string     // Lean names of the translated functions this one calls
	declOrder   []string     // names in declaration order (parameters first, then registers) for deterministic live-in lists
}

func (ft *ftr) refuse(at ssa.Instruction, format string, a ...interface{}) error {
	msg := fmt.Sprintf(format, a...)
	if at != nil {
		return fmt.Errorf("%s: instruction `%s` at %s: %s", specOf(ft.f), at.String(), posOf(instrPos(at)), msg)
	}
	return fmt.Errorf("%s (%s): %s", specOf(ft.f), posOf(ft.f.Pos()), msg)
}

func instrPos(i ssa.Instruction) token.Pos {
	if p := i.Pos(); p.IsValid() {
		return p
	}
	// fall back to the position of the nearest instruction with one in the same block, then to the function
	if b := i.Block(); b != nil {
		for _, j := range b.Instrs {
			if p := j.Pos(); p.IsValid() {
				return p
			}
		}
	}
	return i.Parent().Pos()
}

func (ft *ftr) declare(name, ty string) {
	if _, ok := ft.tyOf[name]; !ok {
		ft.declOrder = append(ft.declOrder, name)
	}
	ft.tyOf[name] = ty
}

// ---- pre-pass: loops, nil-able parameters, roots and cells ----------------------------------------------------------------

func (ft *ftr) checkLoopFree() error {
	color := map[*ssa.BasicBlock]int{}
	var visit func(b *ssa.BasicBlock) error
	visit = func(b *ssa.BasicBlock) error {
		color[b] = 1
		for _, s := range b.Succs {
			if color[s] == 1 {
				var at ssa.Instruction
				if len(b.Instrs) > 0 {
					at = b.Instrs[len(b.Instrs)-1]
				}
				return ft.refuse(at, "loop: back edge from block %d (%s) to block %d (%s)", b.Index, b.Comment, s.Index, s.Comment)
			}
			if color[s] == 0 {
				if err := visit(s); err != nil {
					return err
				}
			}
		}
		color[b] = 2
		return nil
	}
	return visit(ft.f.Blocks[0])
}

func isNilConst(v ssa.Value) bool {
	c, ok := v.(*ssa.Const)
	return ok && c.Value == nil
}

func (ft *ftr) newRoot(v ssa.Value, name string, param int, elem types.Type) *root {
	r := &root{name: name, param: param, elem: elem, order: len(ft.rootList), cells: map[string]*cell{}}
	ft.roots[v] = r
	ft.rootList = append(ft.rootList, r)
	return r
}

// resolvePtr: the root and field path a pointer value statically denotes.
func (ft *ftr) resolvePtr(v ssa.Value) (*root, []int, bool) {
	switch v := v.(type) {
	case *ssa.Parameter, *ssa.Alloc:
		r, ok := ft.roots[v]
		return r, nil, ok
	case *ssa.FieldAddr:
		r, p, ok := ft.resolvePtr(v.X)
		if !ok {
			return nil, nil, false
		}
		return r, append(append([]int{}, p...), v.Field), true
	case *ssa.ChangeType:
		if _, ok := v.Type().(*types.Pointer); ok {
			return ft.resolvePtr(v.X)
		}
	case *ssa.UnOp:
		// *G where the package-level variable G is a pointer to a struct: a read-only root (assumed non-nil)
		if g, ok := v.X.(*ssa.Global); ok && v.Op == token.MUL {
			if pt, ok := v.Type().(*types.Pointer); ok && !isBigPtr(v.Type()) {
				if _, ok := pt.Elem().Underlying().(*types.Struct); ok {
					return ft.globalRoot(g, pt.Elem()), nil, true
				}
			}
		}
	}
	return nil, nil, false
}

func typeAt(t types.Type, path []int) (types.Type, []string, error) {
	var names []string
	for _, i := range path {
		st, ok := t.Underlying().(*types.Struct)
		if !ok || i >= st.NumFields() {
			return nil, nil, fmt.Errorf("field path %v does not fit type %s", path, t)
		}
		names = append(names, st.Field(i).Name())
		t = st.Field(i).Type()
	}
	return t, names, nil
}

func (ft *ftr) cellAt(r *root, path []int) (*cell, error) {
	k := pathKey(path)
	if c, ok := r.cells[k]; ok {
		return c, nil
	}
	t, names, err := typeAt(r.elem, path)
	if err != nil {
		return nil, err
	}
	name := r.name
	for _, n := range names {
		name += "_" + leanIdent(n)
	}
	if _, ok := t.Underlying().(*types.Slice); ok {
		name += "_len" // only the length of a slice-typed field is visible
	}
	c := &cell{root: r, path: append([]int{}, path...), name: name, ty: t}
	if _, err := c.leanTy(); err != nil {
		return nil, err
	}
	r.cells[k] = c
	return c, nil
}

// leafCells creates the cells of every scalar / *big.Int leaf below path (a struct that is loaded as a whole).
func (ft *ftr) leafCells(r *root, path []int, t types.Type) error {
	st, ok := t.Underlying().(*types.Struct)
	if !ok {
		return fmt.Errorf("%s is not a struct", t)
	}
	for i := 0; i < st.NumFields(); i++ {
		ft2 := st.Field(i).Type()
		p2 := append(append([]int{}, path...), i)
		if _, ok := ft2.Underlying().(*types.Struct); ok {
			if err := ft.leafCells(r, p2, ft2); err != nil {
				return err
			}
			continue
		}
		if _, ok := scalarOf(ft2); !ok {
			return fmt.Errorf("whole-struct load of %s: field %s has unsupported type %s", t, st.Field(i).Name(), ft2)
		}
		if _, err := ft.cellAt(r, p2); err != nil {
			return err
		}
	}
	return nil
}

func (ft *ftr) globalRoot(g *ssa.Global, elem types.Type) *root {
	if r, ok := ft.globalRoots[g]; ok {
		return r
	}
	r := &root{name: "g_" + leanIdent(g.Pkg.Pkg.Name()) + "_" + leanIdent(g.Name()), g: g, param: -2, elem: elem, order: len(ft.rootList), cells: map[string]*cell{}}
	ft.globalRoots[g] = r
	ft.rootList = append(ft.rootList, r)
	return r
}

var bigMutators = map[string]bool{"Set": true, "SetUint64": true, "SetInt64": true, "Add": true, "Sub": true, "Mul": true, "Div": true,
	"Mod": true, "Quo": true, "Rem": true, "Neg": true, "Abs": true}

func bigMutatorCall(ins ssa.Instruction) (*ssa.Call, bool) {
	c, ok := ins.(*ssa.Call)
	if !ok || c.Call.IsInvoke() {
		return nil, false
	}
	f, _ := c.Call.Value.(*ssa.Function)
	if f == nil || f.Pkg == nil || f.Pkg.Pkg.Path() != "math/big" || f.Signature.Recv() == nil || !bigMutators[f.Name()] || len(c.Call.Args) == 0 {
		return nil, false
	}
	return c, true
}

// bigCells: every new(big.Int) is a cell holding an Int that math/big methods update in place; the result of such a method is the
// receiver, i.e. the same cell.  A cell that flows into a φ-node or into a call of a module function is read there as a value
// (a snapshot): that is only sound if the cell is not updated afterwards, which is checked here.
func (ft *ftr) bigCells() error {
	f := ft.f
	for _, b := range f.Blocks {
		for _, ins := range b.Instrs {
			if a, ok := ins.(*ssa.Alloc); ok && isBigInt(a.Type().(*types.Pointer).Elem()) {
				r := ft.newRoot(a, a.Name(), -1, a.Type().(*types.Pointer).Elem())
				c := &cell{root: r, name: a.Name() + "_v", ty: a.Type(), bigVal: true, threaded: true}
				r.cells[""] = c
				ft.bigCellOf[a] = c
			}
		}
	}
	if len(ft.bigCellOf) == 0 {
		return nil
	}
	for changed := true; changed; {
		changed = false
		for _, b := range f.Blocks {
			for _, ins := range b.Instrs {
				if c, ok := bigMutatorCall(ins); ok {
					if cl := ft.bigCellOf[c.Call.Args[0]]; cl != nil && ft.bigCellOf[c] == nil {
						ft.bigCellOf[c] = cl
						changed = true
					}
				}
			}
		}
	}
	type point struct {
		b *ssa.BasicBlock
		i int
	}
	muts := map[*cell][]point{}
	for _, b := range f.Blocks {
		for i, ins := range b.Instrs {
			if c, ok := bigMutatorCall(ins); ok {
				if cl := ft.bigCellOf[c.Call.Args[0]]; cl != nil {
					muts[cl] = append(muts[cl], point{b, i})
				}
			}
		}
	}
	var reachable func(from *ssa.BasicBlock, seen map[*ssa.BasicBlock]bool)
	reachable = func(from *ssa.BasicBlock, seen map[*ssa.BasicBlock]bool) {
		for _, s := range from.Succs {
			if !seen[s] {
				seen[s] = true
				reachable(s, seen)
			}
		}
	}
	check := func(cl *cell, b *ssa.BasicBlock, i int, at ssa.Instruction, what string) error {
		after := map[*ssa.BasicBlock]bool{}
		reachable(b, after)
		for _, m := range muts[cl] {
			if (m.b == b && m.i > i) || after[m.b] {
				return ft.refuse(at, "the big.Int %s is updated in place (`%s`) after its pointer was %s: aliasing is not modelled", cl.name, m.b.Instrs[m.i], what)
			}
		}
		return nil
	}
	for _, b := range f.Blocks {
		for i, ins := range b.Instrs {
			switch ins := ins.(type) {
			case *ssa.Phi:
				for k, e := range ins.Edges {
					if cl := ft.bigCellOf[e]; cl != nil {
						// the φ reads the cell at the end of predecessor k
						pb := b.Preds[k]
						if err := check(cl, pb, len(pb.Instrs), ins, "merged by a φ-node"); err != nil {
							return err
						}
					}
				}
			case *ssa.Call:
				if _, isMut := bigMutatorCall(ins); isMut {
					continue
				}
				callee := ft.staticCallee(&ins.Call)
				if callee != nil && callee.Pkg != nil && callee.Pkg.Pkg.Path() == "math/big" {
					continue // reading methods / NewInt
				}
				for _, a := range ins.Call.Args {
					if cl := ft.bigCellOf[a]; cl != nil {
						if err := check(cl, b, i, ins, "passed to "+ins.Call.Value.Name()); err != nil {
							return err
						}
					}
				}
			}
		}
	}
	return nil
}

func (ft *ftr) touchRoot(b *ssa.BasicBlock, r *root) {
	if ft.touch[b] == nil {
		ft.touch[b] = map[*root]bool{}
	}
	ft.touch[b][r] = true
}

func (ft *ftr) staticCallee(c *ssa.CallCommon) *ssa.Function {
	if c.IsInvoke() {
		return nil
	}
	f, _ := c.Value.(*ssa.Function)
	return f
}

func inModule(f *ssa.Function) bool {
	return f != nil && f.Pkg != nil && (f.Pkg.Pkg.Path() == modPath || strings.HasPrefix(f.Pkg.Pkg.Path(), modPath+"/"))
}

func (ft *ftr) prepass() error {
	if err := ft.checkLoopFree(); err != nil {
		return err
	}
	f := ft.f
	// roots: pointer parameters
	for i, p := range f.Params {
		pt, ok := p.Type().(*types.Pointer)
		if !ok || isBigPtr(p.Type()) {
			continue
		}
		switch pt.Elem().Underlying().(type) {
		case *types.Struct, *types.Basic:
			ft.newRoot(p, leanIdent(p.Name()), i, pt.Elem())
		}
	}
	for _, b := range f.Blocks {
		for _, ins := range b.Instrs {
			if a, ok := ins.(*ssa.Alloc); ok && !isBigInt(a.Type().(*types.Pointer).Elem()) {
				name := a.Name()
				if a.Comment != "" && a.Comment != "complit" && a.Comment != "new" {
					name = a.Name() + "_" + leanIdent(a.Comment)
				}
				ft.newRoot(a, name, -1, a.Type().(*types.Pointer).Elem())
			}
		}
	}
	if err := ft.bigCells(); err != nil {
		return err
	}
	// nil-able big parameters: compared with nil here, or handed to a nil-able parameter of a callee (computed below, after
	// the callees have been translated)
	for _, b := range f.Blocks {
		for _, ins := range b.Instrs {
			bo, ok := ins.(*ssa.BinOp)
			if !ok || (bo.Op != token.EQL && bo.Op != token.NEQ) {
				continue
			}
			for _, pair := range [][2]ssa.Value{{bo.X, bo.Y}, {bo.Y, bo.X}} {
				if p, ok := pair[0].(*ssa.Parameter); ok && isNilConst(pair[1]) && isBigPtr(p.Type()) {
					ft.nilable[p] = true
				}
			}
		}
	}
	// cells
	for _, b := range f.Blocks {
		for _, ins := range b.Instrs {
			switch ins := ins.(type) {
			case *ssa.UnOp:
				if ins.Op != token.MUL {
					continue
				}
				if r, path, ok := ft.resolvePtr(ins.X); ok {
					ft.touchRoot(b, r)
					if _, isStruct := ins.Type().Underlying().(*types.Struct); isStruct {
						if r.param >= 0 {
							return ft.refuse(ins, "whole-struct load through a pointer parameter is outside the grammar")
						}
						if err := ft.leafCells(r, path, ins.Type()); err != nil {
							return ft.refuse(ins, "%v", err)
						}
						continue
					}
					if _, err := ft.cellAt(r, path); err != nil {
						return ft.refuse(ins, "%v", err)
					}
				}
			case *ssa.Store:
				r, path, ok := ft.resolvePtr(ins.Addr)
				if !ok {
					return ft.refuse(ins, "heap write through a pointer that is neither a parameter nor a local variable")
				}
				ft.touchRoot(b, r)
				if r.param == -2 {
					return ft.refuse(ins, "write to memory reached through the package-level variable %s", r.g.Name())
				}
				if _, isStruct := ins.Val.Type().Underlying().(*types.Struct); isStruct {
					if r.param >= 0 {
						return ft.refuse(ins, "whole-struct store through a pointer parameter is outside the grammar")
					}
					continue
				}
				c, err := ft.cellAt(r, path)
				if err != nil {
					return ft.refuse(ins, "%v", err)
				}
				if _, ok := scalarOf(c.ty); !ok {
					return ft.refuse(ins, "store of a non-scalar value (%s) to memory", c.ty)
				}
				c.written = true
			case ssa.CallInstruction:
				common := ins.Common()
				callee := ft.staticCallee(common)
				if callee == nil || !inModule(callee) || ft.t.extern[callee] {
					continue
				}
				if _, isDefer := ins.(*ssa.Defer); isDefer {
					return ft.refuse(ins, "defer is outside the grammar")
				}
				if _, isGo := ins.(*ssa.Go); isGo {
					return ft.refuse(ins, "go statement is outside the grammar")
				}
				ci, err := ft.t.translate(callee)
				if err != nil {
					return ft.refuse(ins, "callee refused: %v", err)
				}
				for _, s := range ci.slots {
					if s.kind == sGlobalCell {
						st, _ := s.g.Type().(*types.Pointer).Elem().(*types.Pointer)
						if st == nil {
							return ft.refuse(ins, "internal: global cell of %s", s.g.Name())
						}
						if _, err := ft.cellAt(ft.globalRoot(s.g, st.Elem()), s.path); err != nil {
							return ft.refuse(ins, "%v", err)
						}
						continue
					}
					if s.param < 0 || s.param >= len(common.Args) {
						continue
					}
					arg := common.Args[s.param]
					switch s.kind {
					case sCell:
						r, path, ok := ft.resolvePtr(arg)
						if !ok {
							return ft.refuse(ins, "pointer argument %s does not denote a parameter or local variable of the caller", arg.Name())
						}
						ft.touchRoot(b, r)
						c, err := ft.cellAt(r, append(append([]int{}, path...), s.path...))
						if err != nil {
							return ft.refuse(ins, "%v", err)
						}
						if s.written {
							c.written = true
						}
					case sBigOpt:
						if p, ok := arg.(*ssa.Parameter); ok {
							ft.nilable[p] = true
						}
					}
				}
			}
		}
	}
	// a local struct that is stored as a whole: its cells are (re)initialised from the struct value, nothing else to do here
	for _, r := range ft.rootList {
		for _, k := range sortedCellKeys(r) {
			c := r.cells[k]
			c.threaded = r.param == -1 || c.written
			ft.cells = append(ft.cells, c)
		}
	}
	// two pointer parameters of the same type could alias: refuse when both carry cells
	seen := map[string]*root{}
	for _, r := range ft.rootList {
		if r.param < 0 || len(r.cells) == 0 {
			continue
		}
		k := types.TypeString(r.elem, nil)
		if o, ok := seen[k]; ok {
			return ft.refuse(nil, "pointer parameters %s and %s have the same type and are both dereferenced: they may alias", o.name, r.name)
		}
		seen[k] = r
	}
	// roots touched in blocks reachable from b
	var reach func(b *ssa.BasicBlock) map[*root]bool
	reach = func(b *ssa.BasicBlock) map[*root]bool {
		if m, ok := ft.reach[b]; ok {
			return m
		}
		m := map[*root]bool{}
		ft.reach[b] = m
		for r := range ft.touch[b] {
			m[r] = true
		}
		for _, s := range b.Succs {
			for r := range reach(s) {
				m[r] = true
			}
		}
		return m
	}
	for _, b := range f.Blocks {
		reach(b)
	}
	return nil
}

func sortedCellKeys(r *root) []string {
	var ks []string
	for k := range r.cells {
		ks = append(ks, k)
	}
	sort.Slice(ks, func(i, j int) bool { return lessPath(r.cells[ks[i]].path, r.cells[ks[j]].path) })
	return ks
}

func lessPath(a, b []int) bool {
	for i := 0; i < len(a) && i < len(b); i++ {
		if a[i] != b[i] {
			return a[i] < b[i]
		}
	}
	return len(a) < len(b)
}

// vmaccess: T-gen extractor for property C07 (second wave): derives from the SOURCE of core/vm (go/packages + go/ssa over the
// tree under test, $VERIF_REPO) what the hand tables `execReads` / `execMemRanges` used to transcribe:
//
//   - for every function of package core/vm that takes a *Stack parameter (execute functions op*, the closures returned by
//     makePush/makeDup/makeSwap/makeLog/makeGasLog, gas functions, memory-size functions): the stack height it NEEDS on entry,
//     i.e. the maximum over all paths of (items required by pop / peek / Back(n) / dup(n) / swap(n) / stack.data[len-k] at the
//     point of the access, given the pops and pushes before it). Heights are linear forms c0 + Σ ci·pi over the parameters
//     pi of the maker function for closures (captured variables are evaluated symbolically at `make closure`); one counted
//     loop shape `for i := 0; i < bound; i++ { single path }` is supported (makeLog).
//   - for every such function that also takes a *Memory parameter: the memory ranges it dereferences — call sites of
//     (*Memory).Get / GetPtr / Set (offset, size) and element accesses memory.store[i] (i, 1) — with offset/size expressed in
//     the function's ENTRY stack operands: Back(k)+c (through big.Int.Int64/Uint64, integer conversions, +const) or a constant.
//   - for every instruction-set constructor: opcode -> (maker, constant arguments) for execute/gasCost closures.
//
// Anything outside the recognised shapes is a per-function refusal (`stackRefused` / `memRefused`); the generator treats a
// refusal of a function that an instruction table uses as a broken tie.
package main

import (
	"encoding/json"
	"fmt"
	"go/constant"
	"go/token"
	"go/types"
	"os"
	"sort"
	"strings"

	"golang.org/x/tools/go/packages"
	"golang.org/x/tools/go/ssa"
	"golang.org/x/tools/go/ssa/ssautil"
)

const vmPath = "gitlab.com/aquachain/aquachain/core/vm"

// lin: c + Σ co[p]·p over maker parameters
type lin struct {
	C  int64            `json:"c"`
	Co map[string]int64 `json:"co,omitempty"`
}

func konst(c int64) lin { return lin{C: c} }
func (a lin) add(b lin) lin {
	r := lin{C: a.C + b.C, Co: map[string]int64{}}
	for k, v := range a.Co {
		r.Co[k] += v
	}
	for k, v := range b.Co {
		r.Co[k] += v
	}
	for k, v := range r.Co {
		if v == 0 {
			delete(r.Co, k)
		}
	}
	if len(r.Co) == 0 {
		r.Co = nil
	}
	return r
}
func (a lin) scale(s int64) lin {
	r := lin{C: a.C * s}
	if s != 0 && len(a.Co) > 0 {
		r.Co = map[string]int64{}
		for k, v := range a.Co {
			r.Co[k] = v * s
		}
	}
	return r
}
func (a lin) neg() lin         { return a.scale(-1) }
func (a lin) sub(b lin) lin    { return a.add(b.neg()) }
func (a lin) isConst() bool    { return len(a.Co) == 0 }
func (a lin) String() string   { b, _ := json.Marshal(a); return string(b) }

type operand struct {
	Kind  string `json:"kind"` // "back" | "const"
	Back  int64  `json:"back,omitempty"`
	Const int64  `json:"const"` // additive constant for back, value for const
}

type memRange struct {
	Via  string  `json:"via"` // Get | GetPtr | Set | store[i]
	Off  operand `json:"off"`
	Size operand `json:"size"`
}

type fnResult struct {
	Name         string     `json:"name"`  // package-level name; closures: name of the enclosing maker
	Params       []string   `json:"params"` // maker parameters (closures)
	Needs        []lin      `json:"needs"` // entry height needed = max of these (and 0)
	StackRefused string     `json:"stackRefused,omitempty"`
	HasMemory    bool       `json:"hasMemory"`
	Ranges       []memRange `json:"ranges"`
	MemRefused   string     `json:"memRefused,omitempty"`
}

// convSite: one big.Int -> int64/uint64 conversion
type convSite struct {
	Fn     string   `json:"fn"`
	Method string   `json:"method"`
	Src    string   `json:"src"`   // back:<k> | derived | min | param:<i> | other
	Uses   []string `json:"uses"`  // cmp | mem | slice | index | pc | store | arg:<callee> | other:<what>
	Guard  string   `json:"guard"` // none | direct:<callee> | sum:<callee> | min
}

// helperCall: an execute function passes a big.Int to a non-method helper of package vm
type helperCall struct {
	Fn     string `json:"fn"`
	Helper string `json:"helper"`
	Arg    int    `json:"arg"`
	Opnd   string `json:"opnd"` // back:<k> | global:<name> | other
}

type makerUse struct {
	Ctor   string  `json:"ctor"`
	Opcode int64   `json:"opcode"`
	Field  string  `json:"field"`
	Maker  string  `json:"maker"`
	Args   []int64 `json:"args"`
}

type output struct {
	Funcs   []fnResult `json:"funcs"`
	Makers  []makerUse `json:"makers"`
	Convs   []convSite   `json:"convs"`
	Helpers []helperCall `json:"helpers"`
	Refused []string   `json:"refused"`
}

var out output
var helperSet = map[string]bool{}

func fatal(format string, a ...interface{}) {
	fmt.Fprintf(os.Stderr, "vmaccess: "+format+"\n", a...)
	os.Exit(1)
}

func isPtrTo(t types.Type, name string) bool {
	p, ok := t.(*types.Pointer)
	if !ok {
		return false
	}
	n, ok := p.Elem().(*types.Named)
	return ok && n.Obj().Name() == name && n.Obj().Pkg() != nil && n.Obj().Pkg().Path() == vmPath
}

// ---------------------------------------------------------------------------------------------------------------------
// symbolic evaluation of integer SSA values inside a maker / closure

type env struct {
	free map[*ssa.FreeVar]lin // value of *freevar (captured cell) at closure creation
	par  map[*ssa.Parameter]string
}

func constInt(c *ssa.Const) (int64, bool) {
	if c.Value == nil || c.Value.Kind() != constant.Int {
		return 0, false
	}
	v, ok := constant.Int64Val(c.Value)
	return v, ok
}

func (e *env) eval(v ssa.Value) (lin, bool) {
	switch x := v.(type) {
	case *ssa.Const:
		c, ok := constInt(x)
		return konst(c), ok
	case *ssa.Parameter:
		if n, ok := e.par[x]; ok {
			return lin{Co: map[string]int64{n: 1}}, true
		}
	case *ssa.Convert:
		if _, ok := x.Type().Underlying().(*types.Basic); ok {
			return e.eval(x.X)
		}
	case *ssa.ChangeType:
		return e.eval(x.X)
	case *ssa.UnOp:
		if x.Op == token.MUL { // load
			if fv, ok := x.X.(*ssa.FreeVar); ok {
				if l, ok := e.free[fv]; ok {
					return l, true
				}
			}
		}
	case *ssa.BinOp:
		a, ok1 := e.eval(x.X)
		b, ok2 := e.eval(x.Y)
		if ok1 && ok2 {
			switch x.Op {
			case token.ADD:
				return a.add(b), true
			case token.SUB:
				return a.sub(b), true
			case token.MUL:
				if a.isConst() {
					return b.scale(a.C), true
				}
				if b.isConst() {
					return a.scale(b.C), true
				}
			}
		}
	}
	return lin{}, false
}

// makerBindings: for `make closure fn [cells...]` in a maker whose body is one straight-line block, the value of every
// captured cell at that point as a linear form in the maker's parameters.
func makerBindings(maker *ssa.Function, mc *ssa.MakeClosure) (map[*ssa.FreeVar]lin, []string, string) {
	if len(maker.Blocks) != 1 {
		return nil, nil, "maker has more than one basic block"
	}
	e := &env{par: map[*ssa.Parameter]string{}}
	var pnames []string
	for _, p := range maker.Params {
		e.par[p] = p.Name()
		pnames = append(pnames, p.Name())
	}
	cells := map[ssa.Value]lin{}
	known := map[ssa.Value]bool{}
	// loads must be evaluated at their position: walk in order, caching load results
	loadVal := map[*ssa.UnOp]lin{}
	var evalAt func(v ssa.Value) (lin, bool)
	evalAt = func(v ssa.Value) (lin, bool) {
		switch x := v.(type) {
		case *ssa.UnOp:
			if x.Op == token.MUL {
				l, ok := loadVal[x]
				return l, ok
			}
		case *ssa.BinOp:
			a, ok1 := evalAt(x.X)
			b, ok2 := evalAt(x.Y)
			if ok1 && ok2 {
				switch x.Op {
				case token.ADD:
					return a.add(b), true
				case token.SUB:
					return a.sub(b), true
				}
			}
			return lin{}, false
		case *ssa.Convert:
			return evalAt(x.X)
		}
		return e.eval(v)
	}
	for _, ins := range maker.Blocks[0].Instrs {
		switch x := ins.(type) {
		case *ssa.UnOp:
			if x.Op == token.MUL && known[x.X] {
				loadVal[x] = cells[x.X]
			}
		case *ssa.Store:
			if _, isAlloc := x.Addr.(*ssa.Alloc); isAlloc {
				if l, ok := evalAt(x.Val); ok {
					cells[x.Addr], known[x.Addr] = l, true
				} else {
					known[x.Addr] = false
				}
			}
		case *ssa.MakeClosure:
			if x == mc {
				fn := x.Fn.(*ssa.Function)
				res := map[*ssa.FreeVar]lin{}
				for i, b := range x.Bindings {
					if !known[b] {
						return nil, nil, fmt.Sprintf("captured variable %s has no symbolic value at closure creation", fn.FreeVars[i].Name())
					}
					res[fn.FreeVars[i]] = cells[b]
				}
				return res, pnames, ""
			}
		}
	}
	return nil, nil, "make closure not found in maker"
}

// ---------------------------------------------------------------------------------------------------------------------
// per-function analysis

type event struct {
	kind string // pop push peek back dup swap
	n    lin    // depth argument (back: index; dup/swap: n)
	ins  ssa.Instruction
}

type analysis struct {
	fn      *ssa.Function
	stack   *ssa.Parameter
	memory  *ssa.Parameter
	env     *env
	res     *fnResult
	popIdx  map[ssa.Value]int64 // pop()/peek()/Back() result -> entry Back index
	popBad  map[ssa.Value]bool
	visited int
}

func (a *analysis) refuseStack(format string, x ...interface{}) {
	if a.res.StackRefused == "" {
		a.res.StackRefused = fmt.Sprintf(format, x...)
	}
}
func (a *analysis) refuseMem(format string, x ...interface{}) {
	if a.res.MemRefused == "" {
		a.res.MemRefused = fmt.Sprintf(format, x...)
	}
}

func stackMethod(c *ssa.CallCommon) string {
	if c.IsInvoke() {
		return ""
	}
	f, ok := c.Value.(*ssa.Function)
	if !ok || f.Signature.Recv() == nil {
		return ""
	}
	if isPtrTo(f.Signature.Recv().Type(), "Stack") {
		return f.Name()
	}
	return ""
}
func memoryMethod(c *ssa.CallCommon) string {
	if c.IsInvoke() {
		return ""
	}
	f, ok := c.Value.(*ssa.Function)
	if !ok || f.Signature.Recv() == nil {
		return ""
	}
	if isPtrTo(f.Signature.Recv().Type(), "Memory") {
		return f.Name()
	}
	return ""
}

// blockEvents: stack events of one block in order; also checks that the stack/memory parameters do not escape
func (a *analysis) blockEvents(b *ssa.BasicBlock) []event {
	var evs []event
	for _, ins := range b.Instrs {
		var call *ssa.CallCommon
		switch x := ins.(type) {
		case *ssa.Call:
			call = &x.Call
		case *ssa.Defer:
			call = &x.Call
		case *ssa.Go:
			call = &x.Call
		}
		if call != nil {
			if _, isCall := ins.(*ssa.Call); !isCall {
				// deferred / go calls run out of order: they must not touch the stack or the memory
				if stackMethod(call) != "" || memoryMethod(call) != "" {
					a.refuseStack("%s: a deferred call accesses the stack or the memory", a.fn.Name())
				}
				for _, arg := range call.Args {
					if arg == ssa.Value(a.stack) || (a.memory != nil && arg == ssa.Value(a.memory)) {
						a.refuseStack("%s: the stack or the memory is passed to a deferred call", a.fn.Name())
					}
				}
				continue
			}
			if m := stackMethod(call); m != "" && len(call.Args) > 0 && call.Args[0] == ssa.Value(a.stack) {
				switch m {
				case "pop", "push", "peek":
					evs = append(evs, event{kind: m, ins: ins})
				case "Back":
					n, ok := a.env.eval(call.Args[1])
					if !ok {
						a.refuseStack("%s: Back() with a non-constant index", a.fn.Name())
					}
					evs = append(evs, event{kind: "back", n: n, ins: ins})
				case "dup":
					n, ok := a.env.eval(call.Args[2])
					if !ok {
						a.refuseStack("%s: dup() with an index that is not a linear form of the maker parameters", a.fn.Name())
					}
					evs = append(evs, event{kind: "dup", n: n, ins: ins})
				case "swap":
					n, ok := a.env.eval(call.Args[1])
					if !ok {
						a.refuseStack("%s: swap() with an index that is not a linear form of the maker parameters", a.fn.Name())
					}
					evs = append(evs, event{kind: "swap", n: n, ins: ins})
				case "len", "require", "Print":
				default:
					a.refuseStack("%s: unknown Stack method %s", a.fn.Name(), m)
				}
			} else {
				for i, arg := range call.Args {
					if arg == ssa.Value(a.stack) {
						a.refuseStack("%s: the stack is passed to %s (argument %d)", a.fn.Name(), call.Value.Name(), i)
					}
				}
			}
			continue
		}
		// direct use of stack.data: only stack.data[stack.len()-k]
		if fa, ok := ins.(*ssa.FieldAddr); ok && fa.X == ssa.Value(a.stack) {
			okUse := true
			for _, r := range *fa.Referrers() {
				ld, isLoad := r.(*ssa.UnOp)
				if !isLoad || ld.Op != token.MUL {
					okUse = false
					break
				}
				for _, r2 := range *ld.Referrers() {
					ia, isIdx := r2.(*ssa.IndexAddr)
					if !isIdx {
						okUse = false
						break
					}
					bo, isBin := ia.Index.(*ssa.BinOp)
					if !isBin || bo.Op != token.SUB {
						okUse = false
						break
					}
					lc, isCall := bo.X.(*ssa.Call)
					k, isConst := bo.Y.(*ssa.Const)
					if !isCall || !isConst || stackMethod(&lc.Call) != "len" {
						okUse = false
						break
					}
					kv, _ := constInt(k)
					// data[len-k] = Back(k-1)
					evs = append(evs, event{kind: "back", n: konst(kv - 1), ins: ia})
				}
			}
			if !okUse {
				a.refuseStack("%s: stack.data is used other than as stack.data[stack.len()-k]", a.fn.Name())
			}
		}
	}
	return evs
}

type walkState struct {
	h lin // height relative to entry
}

func (a *analysis) need(l lin) {
	for _, x := range a.res.Needs {
		if x.String() == l.String() {
			return
		}
	}
	a.res.Needs = append(a.res.Needs, l)
}

// apply one block's events at relative height h; returns the new height
func (a *analysis) apply(evs []event, h lin) lin {
	for _, ev := range evs {
		switch ev.kind {
		case "pop":
			a.need(konst(1).sub(h))
			a.notePop(ev.ins, h, 0)
			h = h.add(konst(-1))
		case "peek":
			a.need(konst(1).sub(h))
			a.notePop(ev.ins, h, 0)
		case "push":
			h = h.add(konst(1))
		case "back":
			a.need(ev.n.add(konst(1)).sub(h))
			if ev.n.isConst() {
				a.notePop(ev.ins, h, ev.n.C)
			}
		case "dup":
			a.need(ev.n.sub(h))
			h = h.add(konst(1))
		case "swap":
			a.need(ev.n.sub(h))
		}
	}
	return h
}

// notePop: the value produced by this pop/peek/Back is entry operand Back(k - h) when h is a constant ≤ 0
func (a *analysis) notePop(ins ssa.Instruction, h lin, k int64) {
	v, ok := ins.(ssa.Value)
	if !ok {
		return
	}
	if !h.isConst() || h.C > 0 {
		a.popBad[v] = true
		return
	}
	idx := k - h.C
	if old, seen := a.popIdx[v]; seen && old != idx {
		a.popBad[v] = true
		return
	}
	a.popIdx[v] = idx
}

func (a *analysis) walk(b *ssa.BasicBlock, h lin, onPath map[*ssa.BasicBlock]bool, evCache map[*ssa.BasicBlock][]event) {
	a.visited++
	if a.visited > 20000 {
		a.refuseStack("%s: too many paths", a.fn.Name())
		return
	}
	if a.res.StackRefused != "" {
		return
	}
	// counted loop header?
	if lp := a.loopAt(b, evCache); lp != nil {
		if lp.err != "" {
			a.refuseStack("%s: %s", a.fn.Name(), lp.err)
			return
		}
		// header has no events (checked); iterations 0..T-1, net effect e per iteration, body events at relative offsets
		T, e := lp.trip, lp.effect
		var base lin
		if e <= 0 {
			base = h.add(T.add(konst(-1)).scale(e)) // height at the start of the last iteration
		} else {
			base = h
		}
		hh := base
		for _, bb := range lp.body {
			hh = a.apply(evCache[bb], hh)
		}
		h2 := h.add(T.scale(e))
		onPath[b] = true
		a.walk(lp.exit, h2, onPath, evCache)
		delete(onPath, b)
		return
	}
	if onPath[b] {
		a.refuseStack("%s: loop that is not of the shape `for i := 0; i < bound; i++ { single path }`", a.fn.Name())
		return
	}
	h = a.apply(evCache[b], h)
	onPath[b] = true
	for _, s := range b.Succs {
		a.walk(s, h, onPath, evCache)
	}
	delete(onPath, b)
}

type loopInfo struct {
	err    string
	trip   lin
	effect int64
	body   []*ssa.BasicBlock
	exit   *ssa.BasicBlock
}

// loopAt: b is a loop header iff one of its predecessors is dominated by it
func (a *analysis) loopAt(b *ssa.BasicBlock, evCache map[*ssa.BasicBlock][]event) *loopInfo {
	var latch *ssa.BasicBlock
	for _, p := range b.Preds {
		if b.Dominates(p) {
			if latch != nil {
				return &loopInfo{err: "loop with several back edges"}
			}
			latch = p
		}
	}
	if latch == nil {
		return nil
	}
	if len(evCache[b]) != 0 {
		return &loopInfo{err: "loop header accesses the stack"}
	}
	ifi, ok := b.Instrs[len(b.Instrs)-1].(*ssa.If)
	if !ok || len(b.Succs) != 2 {
		return &loopInfo{err: "loop header does not end in a conditional branch"}
	}
	cond, ok := ifi.Cond.(*ssa.BinOp)
	if !ok || cond.Op != token.LSS {
		return &loopInfo{err: "loop condition is not `i < bound`"}
	}
	phi, ok := cond.X.(*ssa.Phi)
	if !ok || phi.Block() != b || len(phi.Edges) != 2 {
		return &loopInfo{err: "loop counter is not a phi of the header"}
	}
	okInit, okStep := false, false
	for i, e := range phi.Edges {
		if b.Preds[i] == latch {
			if bo, ok := e.(*ssa.BinOp); ok && bo.Op == token.ADD && bo.X == ssa.Value(phi) {
				if c, ok := bo.Y.(*ssa.Const); ok {
					if v, _ := constInt(c); v == 1 {
						okStep = true
					}
				}
			}
		} else if c, ok := e.(*ssa.Const); ok {
			if v, _ := constInt(c); v == 0 {
				okInit = true
			}
		}
	}
	if !okInit || !okStep {
		return &loopInfo{err: "loop counter does not run 0, 1, 2, …"}
	}
	T, ok := a.env.eval(cond.Y)
	if !ok {
		return &loopInfo{err: "loop bound is not a linear form of the maker parameters"}
	}
	// body: single path from Succs[0] to latch
	var body []*ssa.BasicBlock
	cur := b.Succs[0]
	for {
		body = append(body, cur)
		if cur == latch {
			break
		}
		if len(cur.Succs) != 1 || len(body) > 50 {
			return &loopInfo{err: "loop body branches"}
		}
		cur = cur.Succs[0]
	}
	if len(latch.Succs) != 1 || latch.Succs[0] != b {
		return &loopInfo{err: "loop latch has other successors"}
	}
	var eff int64
	for _, bb := range body {
		for _, ev := range evCache[bb] {
			switch ev.kind {
			case "pop":
				eff--
			case "push", "dup":
				eff++
			}
		}
	}
	return &loopInfo{trip: T, effect: eff, body: body, exit: b.Succs[1]}
}

// operandOf: express an integer SSA value in the entry stack operands
func (a *analysis) operandOf(v ssa.Value, depth int) (operand, bool) {
	if depth > 8 {
		return operand{}, false
	}
	switch x := v.(type) {
	case *ssa.Const:
		c, ok := constInt(x)
		return operand{Kind: "const", Const: c}, ok
	case *ssa.Convert:
		return a.operandOf(x.X, depth+1)
	case *ssa.Call:
		if x.Call.IsInvoke() {
			return operand{}, false
		}
		f, ok := x.Call.Value.(*ssa.Function)
		if !ok {
			return operand{}, false
		}
		if f.Signature.Recv() != nil && f.Pkg != nil && f.Pkg.Pkg.Path() == "math/big" && (f.Name() == "Int64" || f.Name() == "Uint64") {
			src := x.Call.Args[0]
			if a.popBad[src] {
				return operand{}, false
			}
			if idx, ok := a.popIdx[src]; ok {
				return operand{Kind: "back", Back: idx}, true
			}
		}
	case *ssa.BinOp:
		if x.Op == token.ADD {
			l, ok1 := a.operandOf(x.X, depth+1)
			r, ok2 := a.operandOf(x.Y, depth+1)
			if ok1 && ok2 {
				if l.Kind == "back" && r.Kind == "const" {
					return operand{Kind: "back", Back: l.Back, Const: l.Const + r.Const}, true
				}
				if l.Kind == "const" && r.Kind == "back" {
					return operand{Kind: "back", Back: r.Back, Const: l.Const + r.Const}, true
				}
				if l.Kind == "const" && r.Kind == "const" {
					return operand{Kind: "const", Const: l.Const + r.Const}, true
				}
			}
		}
	}
	return operand{}, false
}

func (a *analysis) memoryAccesses() {
	for _, b := range a.fn.Blocks {
		for _, ins := range b.Instrs {
			var call *ssa.CallCommon
			switch x := ins.(type) {
			case *ssa.Call:
				call = &x.Call
			case *ssa.Defer:
				call = &x.Call
			case *ssa.Go:
				call = &x.Call
			}
			if call != nil {
				if m := memoryMethod(call); m != "" && len(call.Args) > 0 && call.Args[0] == ssa.Value(a.memory) {
					switch m {
					case "Get", "GetPtr", "Set":
						off, ok1 := a.operandOf(call.Args[1], 0)
						sz, ok2 := a.operandOf(call.Args[2], 0)
						if !ok1 || !ok2 {
							a.refuseMem("%s: memory.%s with an offset/size that is not an entry stack operand (+constant) or a constant", a.fn.Name(), m)
							continue
						}
						a.res.Ranges = append(a.res.Ranges, memRange{Via: m, Off: off, Size: sz})
					case "Len", "Data", "Print":
						if m == "Data" {
							a.refuseMem("%s: memory.Data() exposes the backing slice", a.fn.Name())
						}
					default:
						a.refuseMem("%s: unknown Memory method %s", a.fn.Name(), m)
					}
				} else {
					for i, arg := range call.Args {
						if arg == ssa.Value(a.memory) {
							a.refuseMem("%s: the memory is passed to %s (argument %d)", a.fn.Name(), call.Value.Name(), i)
						}
					}
				}
				continue
			}
			if fa, ok := ins.(*ssa.FieldAddr); ok && fa.X == ssa.Value(a.memory) {
				for _, r := range *fa.Referrers() {
					ld, isLoad := r.(*ssa.UnOp)
					if !isLoad || ld.Op != token.MUL {
						a.refuseMem("%s: a field of memory is written or its address taken", a.fn.Name())
						continue
					}
					for _, r2 := range *ld.Referrers() {
						switch u := r2.(type) {
						case *ssa.IndexAddr:
							off, ok := a.operandOf(u.Index, 0)
							if !ok {
								a.refuseMem("%s: memory.store[i] with an index that is not an entry stack operand (+constant)", a.fn.Name())
								continue
							}
							a.res.Ranges = append(a.res.Ranges, memRange{Via: "store[i]", Off: off, Size: operand{Kind: "const", Const: 1}})
						case *ssa.Call:
							if bi, ok := u.Call.Value.(*ssa.Builtin); ok && bi.Name() == "len" {
								continue
							}
							a.refuseMem("%s: memory.store is passed to a call", a.fn.Name())
						default:
							a.refuseMem("%s: memory.store is used other than by indexing (%T)", a.fn.Name(), r2)
						}
					}
				}
			}
		}
	}
}

func analyse(fn *ssa.Function, name string, e *env, params []string) fnResult {
	res := fnResult{Name: name, Params: params}
	a := &analysis{fn: fn, env: e, res: &res, popIdx: map[ssa.Value]int64{}, popBad: map[ssa.Value]bool{}}
	for _, p := range fn.Params {
		if isPtrTo(p.Type(), "Stack") {
			a.stack = p
		}
		if isPtrTo(p.Type(), "Memory") {
			a.memory = p
		}
	}
	if len(fn.Blocks) == 0 {
		res.StackRefused = name + ": no body"
		return res
	}
	evCache := map[*ssa.BasicBlock][]event{}
	for _, b := range fn.Blocks {
		evCache[b] = a.blockEvents(b)
	}
	a.walk(fn.Blocks[0], konst(0), map[*ssa.BasicBlock]bool{}, evCache)
	sort.Slice(res.Needs, func(i, j int) bool { return res.Needs[i].String() < res.Needs[j].String() })
	if a.memory != nil {
		res.HasMemory = true
		if res.StackRefused != "" {
			res.MemRefused = "stack analysis refused"
		} else {
			a.memoryAccesses()
		}
	}
	if a.stack != nil && a.memory != nil && res.StackRefused == "" {
		for _, c := range a.conversions(nil) {
			c.Fn = name
			out.Convs = append(out.Convs, c)
		}
		for _, h := range a.helperCalls() {
			h.Fn = name
			out.Helpers = append(out.Helpers, h)
			helperSet[h.Helper] = true
		}
	}
	return res
}

func isBigMethod(c *ssa.CallCommon, names ...string) (string, bool) {
	if c.IsInvoke() {
		return "", false
	}
	f, ok := c.Value.(*ssa.Function)
	if !ok || f.Signature.Recv() == nil || f.Pkg == nil || f.Pkg.Pkg.Path() != "math/big" {
		return "", false
	}
	for _, n := range names {
		if f.Name() == n {
			return n, true
		}
	}
	return f.Name(), len(names) == 0
}

func calleeName(c *ssa.CallCommon) string {
	if c.IsInvoke() {
		return "invoke:" + c.Method.Name()
	}
	switch f := c.Value.(type) {
	case *ssa.Function:
		return f.Name()
	case *ssa.Builtin:
		return "builtin:" + f.Name()
	}
	return "dynamic"
}

// conversions: every (*big.Int).Uint64 / Int64 call of fn: where its receiver comes from, what the result feeds, and whether a
// check on the same big.Int (or on a sum it is an addend of) dominates it
func (a *analysis) conversions(params map[ssa.Value]int) []convSite {
	var res []convSite
	fn := a.fn
	srcOf := func(v ssa.Value) string {
		if idx, ok := a.popIdx[v]; ok && !a.popBad[v] {
			return fmt.Sprintf("back:%d", idx)
		}
		if i, ok := params[v]; ok {
			return fmt.Sprintf("param:%d", i)
		}
		if c, ok := v.(*ssa.Call); ok {
			if _, ok := isBigMethod(&c.Call, "Add", "Sub", "Mul", "Set", "Div", "Mod"); ok {
				return "derived"
			}
			if n := calleeName(&c.Call); n == "BigMin" {
				return "min"
			}
		}
		return "other"
	}
	// guard: an If whose condition depends on a call that takes v as an argument, in a block strictly dominating blk through
	// an edge that belongs to the If alone
	var dependsOn func(cond ssa.Value, v ssa.Value, depth int) string
	dependsOn = func(cond ssa.Value, v ssa.Value, depth int) string {
		if depth > 6 {
			return ""
		}
		switch x := cond.(type) {
		case *ssa.Call:
			for _, arg := range x.Call.Args {
				if arg == v {
					return calleeName(&x.Call)
				}
			}
		case *ssa.BinOp:
			if r := dependsOn(x.X, v, depth+1); r != "" {
				return r
			}
			return dependsOn(x.Y, v, depth+1)
		case *ssa.UnOp:
			return dependsOn(x.X, v, depth+1)
		case *ssa.Convert:
			return dependsOn(x.X, v, depth+1)
		}
		return ""
	}
	guardOf := func(v ssa.Value, blk *ssa.BasicBlock) string {
		for _, b := range fn.Blocks {
			if b == blk || !b.Dominates(blk) || len(b.Instrs) == 0 {
				continue
			}
			ifi, ok := b.Instrs[len(b.Instrs)-1].(*ssa.If)
			if !ok {
				continue
			}
			callee := dependsOn(ifi.Cond, v, 0)
			if callee == "" {
				continue
			}
			for _, s := range b.Succs {
				if len(s.Preds) == 1 && s.Dominates(blk) {
					return callee
				}
			}
		}
		return ""
	}
	for _, b := range fn.Blocks {
		for _, ins := range b.Instrs {
			call, ok := ins.(*ssa.Call)
			if !ok {
				continue
			}
			m, ok := isBigMethod(&call.Call, "Uint64", "Int64")
			if !ok {
				continue
			}
			recv := call.Call.Args[0]
			site := convSite{Fn: fn.Name(), Method: m, Src: srcOf(recv), Guard: "none"}
			if site.Src == "min" {
				site.Guard = "min"
			} else if g := guardOf(recv, b); g != "" {
				site.Guard = "direct:" + g
			} else {
				// addend of a guarded sum
				for _, r := range *recv.Referrers() {
					if c2, ok := r.(*ssa.Call); ok {
						if _, ok := isBigMethod(&c2.Call, "Add"); ok {
							if g := guardOf(c2, b); g != "" {
								site.Guard = "sum:" + g
							}
						}
					}
				}
			}
			// uses
			seen := map[ssa.Value]bool{}
			uses := map[string]bool{}
			var follow func(v ssa.Value, depth int)
			follow = func(v ssa.Value, depth int) {
				if seen[v] || depth > 10 {
					return
				}
				seen[v] = true
				refs := v.Referrers()
				if refs == nil {
					return
				}
				for _, r := range *refs {
					switch u := r.(type) {
					case *ssa.Convert:
						follow(u, depth+1)
					case *ssa.ChangeType:
						follow(u, depth+1)
					case *ssa.Phi:
						follow(u, depth+1)
					case *ssa.BinOp:
						switch u.Op {
						case token.EQL, token.NEQ, token.LSS, token.LEQ, token.GTR, token.GEQ:
							uses["cmp"] = true
						default:
							follow(u, depth+1)
						}
					case *ssa.Call:
						if mm := memoryMethod(&u.Call); mm != "" && a.memory != nil && len(u.Call.Args) > 0 && u.Call.Args[0] == ssa.Value(a.memory) {
							uses["mem"] = true
						} else {
							uses["arg:"+calleeName(&u.Call)] = true
						}
					case *ssa.IndexAddr:
						isMem := false
						if ld, ok := u.X.(*ssa.UnOp); ok {
							if fa, ok := ld.X.(*ssa.FieldAddr); ok && a.memory != nil && fa.X == ssa.Value(a.memory) {
								isMem = true
							}
						}
						if isMem {
							uses["mem"] = true
						} else {
							uses["index"] = true
						}
					case *ssa.Slice:
						uses["slice"] = true
					case *ssa.Store:
						if p, ok := u.Addr.(*ssa.Parameter); ok && p.Name() == "pc" {
							uses["pc"] = true
						} else {
							uses["store"] = true
						}
					case *ssa.MakeSlice:
						uses["other:makeslice"] = true
					case *ssa.DebugRef:
					default:
						uses[fmt.Sprintf("other:%T", r)] = true
					}
				}
			}
			follow(call, 0)
			for u := range uses {
				site.Uses = append(site.Uses, u)
			}
			sort.Strings(site.Uses)
			res = append(res, site)
		}
	}
	return res
}

// helperCalls: big.Int arguments handed to non-method functions of package vm
func (a *analysis) helperCalls() []helperCall {
	var res []helperCall
	for _, b := range a.fn.Blocks {
		for _, ins := range b.Instrs {
			call, ok := ins.(*ssa.Call)
			if !ok || call.Call.IsInvoke() {
				continue
			}
			f, ok := call.Call.Value.(*ssa.Function)
			if !ok || f.Pkg == nil || f.Pkg.Pkg.Path() != vmPath || f.Signature.Recv() != nil {
				continue
			}
			for i, arg := range call.Call.Args {
				if p, ok := arg.Type().(*types.Pointer); !ok || p.Elem().String() != "math/big.Int" {
					continue
				}
				op := "other"
				if idx, ok := a.popIdx[arg]; ok && !a.popBad[arg] {
					op = fmt.Sprintf("back:%d", idx)
				} else if ld, ok := arg.(*ssa.UnOp); ok {
					if g, ok := ld.X.(*ssa.Global); ok {
						op = "global:" + g.Name()
					}
				}
				res = append(res, helperCall{Fn: a.fn.Name(), Helper: f.Name(), Arg: i, Opnd: op})
			}
		}
	}
	return res
}

// analyseHelper: conversions inside a helper that takes big.Int parameters (no stack)
func analyseHelper(fn *ssa.Function) []convSite {
	a := &analysis{fn: fn, env: &env{}, res: &fnResult{}, popIdx: map[ssa.Value]int64{}, popBad: map[ssa.Value]bool{}}
	params := map[ssa.Value]int{}
	for i, p := range fn.Params {
		params[p] = i
	}
	return a.conversions(params)
}

// ---------------------------------------------------------------------------------------------------------------------

func main() {
	repo := os.Getenv("VERIF_REPO")
	if repo == "" {
		repo = "/repo"
	}
	envv := []string{}
	for _, e := range os.Environ() {
		if strings.HasPrefix(e, "GOFLAGS=") || strings.HasPrefix(e, "GOPROXY=") {
			continue
		}
		envv = append(envv, e)
	}
	envv = append(envv, "GOFLAGS=-mod=mod", "GOPROXY=off")
	cfg := &packages.Config{Mode: packages.LoadAllSyntax, Dir: repo, Env: envv}
	pkgs, err := packages.Load(cfg, "./core/vm")
	if err != nil {
		fatal("load: %v", err)
	}
	nerr := 0
	packages.Visit(pkgs, nil, func(p *packages.Package) {
		for _, e := range p.Errors {
			if nerr < 10 {
				fmt.Fprintln(os.Stderr, "load error:", e)
			}
			nerr++
		}
	})
	if nerr > 0 {
		fatal("%d package errors (the tree under test does not type-check)", nerr)
	}
	prog, _ := ssautil.AllPackages(pkgs, 0)
	prog.Build()
	vm := prog.ImportedPackage(vmPath)
	if vm == nil {
		fatal("package core/vm not loaded")
	}
	var names []string
	for n, m := range vm.Members {
		if _, ok := m.(*ssa.Function); ok {
			names = append(names, n)
		}
	}
	sort.Strings(names)
	hasStackParam := func(f *ssa.Function) bool {
		for _, p := range f.Params {
			if isPtrTo(p.Type(), "Stack") {
				return true
			}
		}
		return false
	}
	for _, n := range names {
		f := vm.Members[n].(*ssa.Function)
		if hasStackParam(f) {
			out.Funcs = append(out.Funcs, analyse(f, n, &env{}, nil))
		}
		// closures returned by makers
		for _, anon := range f.AnonFuncs {
			if !hasStackParam(anon) {
				continue
			}
			var mc *ssa.MakeClosure
			cnt := 0
			for _, b := range f.Blocks {
				for _, ins := range b.Instrs {
					if x, ok := ins.(*ssa.MakeClosure); ok && x.Fn == ssa.Value(anon) {
						mc = x
						cnt++
					}
				}
			}
			var res fnResult
			if len(anon.FreeVars) == 0 {
				res = analyse(anon, n, &env{}, nil)
			} else if mc == nil || cnt != 1 {
				res = fnResult{Name: n, StackRefused: n + ": closure is not created exactly once in its maker"}
			} else {
				free, pnames, why := makerBindings(f, mc)
				if why != "" {
					res = fnResult{Name: n, StackRefused: n + ": " + why}
				} else {
					res = analyse(anon, n, &env{free: free}, pnames)
				}
			}
			// a maker with several closures taking a stack is ambiguous
			for i := range out.Funcs {
				if out.Funcs[i].Name == n {
					out.Funcs[i].StackRefused = n + ": several functions share this name"
				}
			}
			out.Funcs = append(out.Funcs, res)
		}
	}
	// ---- instruction-set constructors: opcode -> maker call with constant arguments
	for _, n := range names {
		f := vm.Members[n].(*ssa.Function)
		if !strings.HasSuffix(n, "InstructionSet") || !strings.HasPrefix(n, "New") {
			continue
		}
		// complit alloc -> opcode
		opOf := map[ssa.Value]int64{}
		for _, b := range f.Blocks {
			for _, ins := range b.Instrs {
				st, ok := ins.(*ssa.Store)
				if !ok {
					continue
				}
				ia, ok := st.Addr.(*ssa.IndexAddr)
				if !ok {
					continue
				}
				c, ok := ia.Index.(*ssa.Const)
				if !ok {
					if os.Getenv("VMACCESS_DEBUG") != "" {
						fmt.Fprintf(os.Stderr, "%s: index %T %s\n", n, ia.Index, ia.Index)
					}
					continue
				}
				idx, _ := constInt(c)
				if ld, ok := st.Val.(*ssa.UnOp); ok && ld.Op == token.MUL {
					opOf[ld.X] = idx
				}
				if os.Getenv("VMACCESS_DEBUG") != "" {
					fmt.Fprintf(os.Stderr, "%s: store idx=%d val=%T %s\n", n, idx, st.Val, st.Val)
				}
			}
		}
		for _, b := range f.Blocks {
			for _, ins := range b.Instrs {
				call, ok := ins.(*ssa.Call)
				if !ok {
					continue
				}
				callee, ok := call.Call.Value.(*ssa.Function)
				if !ok || callee.Pkg != vm || !strings.HasPrefix(callee.Name(), "make") {
					continue
				}
				var args []int64
				okArgs := true
				for _, a := range call.Call.Args {
					c, isC := a.(*ssa.Const)
					if !isC {
						okArgs = false
						break
					}
					v, _ := constInt(c)
					args = append(args, v)
				}
				found := false
				for _, r := range *call.Referrers() {
					st, ok := r.(*ssa.Store)
					if !ok {
						continue
					}
					fa, ok := st.Addr.(*ssa.FieldAddr)
					if !ok {
						continue
					}
					idx, known := opOf[fa.X]
					if !known {
						// element initialised in place: &table[const].field
						if ia, ok := fa.X.(*ssa.IndexAddr); ok {
							if c, ok := ia.Index.(*ssa.Const); ok {
								idx, known = constInt(c)
							}
						}
					}
					if !known {
						continue
					}
					field := fa.X.Type().Underlying().(*types.Pointer).Elem().Underlying().(*types.Struct).Field(fa.Field).Name()
					if !okArgs {
						out.Refused = append(out.Refused, fmt.Sprintf("%s: %s for opcode %#x is called with non-constant arguments", n, callee.Name(), idx))
					}
					out.Makers = append(out.Makers, makerUse{Ctor: n, Opcode: idx, Field: field, Maker: callee.Name(), Args: args})
					found = true
				}
				if !found {
					out.Refused = append(out.Refused, fmt.Sprintf("%s: result of %s is not stored into a field of an instruction-table element", n, callee.Name()))
				}
			}
		}
	}
	// helpers reached with big.Int arguments: their own conversions, with the parameters as sources
	var hs []string
	for h := range helperSet {
		hs = append(hs, h)
	}
	sort.Strings(hs)
	for _, h := range hs {
		if f, ok := vm.Members[h].(*ssa.Function); ok {
			out.Convs = append(out.Convs, analyseHelper(f)...)
		}
	}
	sort.Slice(out.Funcs, func(i, j int) bool { return out.Funcs[i].Name < out.Funcs[j].Name })
	b, _ := json.Marshal(out)
	fmt.Println(string(b))
}

// rpcsign: T-gen extractor for property C18 (DESIGN.md 2.2, section 4 "C18").
//
// Reads the tree under test ($VERIF_REPO, default /repo) with go/packages + go/ssa and prints one JSON document:
//
//   - apis:        every rpc.API literal constructed by a function reachable from (*node.Node).startRPC
//     (namespace, public flag, concrete service type, origin function, node kind that constructs it)
//   - methods:     for every such service type, every exported method that rpc.suitableCallbacks would register
//     (the criteria are re-implemented over go/types), with static reachability (class-hierarchy call graph,
//     every method force-built) to the keystore signing entry points, a witness call path, and the same
//     reachability with the methods of config-gated consensus engines removed (see "gated")
//   - entryPoints: the exported *KeyStore methods that call crypto.Sign / types.SignTx (found, not listed by hand)
//   - protected:   the string constants of rpc.isProtectedMethodName (the function must be a pure `name == "lit" || ...`)
//   - flags:       RegisterName's caller-suffix switch: suffix -> (allow variable, environment variable)
//   - registrars:  every static caller of (*rpc.Server).RegisterName with the flag its runtime name selects
//   - gated:       consensus.Engine implementations whose only construction site is a guarded branch of
//     aqua.CreateConsensusEngine (e.g. clique: `chainConfig.Clique != nil`)
//
// Anything outside the recognised shapes is reported in "refused" (the generator treats a non-empty list as a broken tie).
package main

import (
	"encoding/json"
	"fmt"
	"go/ast"
	"go/token"
	"go/types"
	"os"
	"sort"
	"strconv"
	"strings"
	"time"
	"unicode"
	"unicode/utf8"

	"golang.org/x/tools/go/callgraph/cha"
	"golang.org/x/tools/go/packages"
	"golang.org/x/tools/go/ssa"
	"golang.org/x/tools/go/ssa/ssautil"
)

const mod = "gitlab.com/aquachain/aquachain"

type apiEntry struct {
	Origin    string `json:"origin"`
	Namespace string `json:"namespace"`
	Public    bool   `json:"public"`
	Service   string `json:"service"` // e.g. *gitlab.com/aquachain/aquachain/internal/aquaapi.PrivateAccountAPI
	Short     string `json:"short"`   // e.g. aquaapi.PrivateAccountAPI
	GatedBy   string `json:"gatedBy"` // "" or the gated engine type whose method constructs this entry
}

type methodEntry struct {
	Service       string   `json:"service"`
	Short         string   `json:"short"`
	GoName        string   `json:"goName"`
	RpcName       string   `json:"rpcName"`
	IsSub         bool     `json:"isSub"`
	Args          []string `json:"args"`
	ReachesSign   bool     `json:"reachesSign"`      // full CHA (sound for every node kind)
	ReachesNoGate bool     `json:"reachesSignNoGate"` // CHA with the gated engines' methods removed
	Entry         []string `json:"entry"`            // entry points reached (full CHA)
	Path          []string `json:"path"`             // a shortest witness path (full CHA)
	PathNoGate    []string `json:"pathNoGate"`
}

type flagEntry struct {
	Suffix  string `json:"suffix"`
	Var     string `json:"var"`
	Env     string `json:"env"`     // from `var <Var> = sense.EnvBool("<Env>")`
	LogName string `json:"logName"` // the envname literal used in the log line
}

type registrar struct {
	Func    string `json:"func"`    // runtime-style name, e.g. gitlab.com/.../node.(*Node).startIPC
	Base    string `json:"base"`    // filepath.Base of it
	Suffix  string `json:"suffix"`  // matched suffix or ""
	Env     string `json:"env"`     // selected env var or ""
}

type directReg struct {
	Registrar string `json:"registrar"`
	Namespace string `json:"namespace"`
	Service   string `json:"service"`
	Short     string `json:"short"`
}

type gatedEntry struct {
	Type         string   `json:"type"`
	Constructors []string `json:"constructors"`
	Callers      []string `json:"callers"`
	Guard        string   `json:"guard"`
}

type output struct {
	Apis        []apiEntry    `json:"apis"`
	Methods     []methodEntry `json:"methods"`
	EntryPoints []string      `json:"entryPoints"`
	Hooked      []string      `json:"hookedEntryPoints"`
	HookPresent bool          `json:"hookPresent"`
	Protected   []string      `json:"protected"`
	Flags       []flagEntry   `json:"flags"`
	DeadFlags   []flagEntry   `json:"deadFlags"` // EnvBool variables of package rpc that RegisterName never consults
	Registrars  []registrar   `json:"registrars"`
	Direct      []directReg   `json:"direct"` // RegisterName calls with a constant namespace and a concrete receiver (rpc.NewServer)
	Gated       []gatedEntry  `json:"gated"`
	Engines     []string      `json:"engines"`
	Refused     []string      `json:"refused"`
	Stats       map[string]int `json:"stats"`
}

var out = output{Stats: map[string]int{}}

func refuse(format string, a ...interface{}) {
	out.Refused = append(out.Refused, fmt.Sprintf(format, a...))
}

func main() {
	repo := os.Getenv("VERIF_REPO")
	if repo == "" {
		repo = "/repo"
	}
	env := []string{}
	for _, e := range os.Environ() {
		if strings.HasPrefix(e, "GOFLAGS=") || strings.HasPrefix(e, "GOPROXY=") {
			continue
		}
		env = append(env, e)
	}
	env = append(env, "GOFLAGS=-mod=mod", "GOPROXY=off")
	t0 := time.Now()
	lap := func(what string) {
		if os.Getenv("RPCSIGN_TIMING") != "" {
			fmt.Fprintf(os.Stderr, "rpcsign: %-12s %.1fs\n", what, time.Since(t0).Seconds())
		}
	}
	cfg := &packages.Config{Mode: packages.LoadAllSyntax, Dir: repo, Env: env}
	pkgs, err := packages.Load(cfg, "./node", "./aqua", "./rpc", "./internal/aquaapi", "./aqua/accounts/keystore", "./consensus/...", "./opt/miner", "./opt/aquastats")
	if err != nil {
		fatal("load: %v", err)
	}
	nerr := 0
	packages.Visit(pkgs, nil, func(p *packages.Package) {
		for _, e := range p.Errors {
			if nerr < 10 {
				fmt.Fprintln(os.Stderr, "load error:", e)
			}
			nerr++
		}
	})
	if nerr > 0 {
		fatal("%d package errors (the tree under test does not type-check)", nerr)
	}
	lap("load")
	prog, _ := ssautil.AllPackages(pkgs, ssa.InstantiateGenerics)
	prog.Build()
	lap("ssa")
	// force-build every method of every named type (CHA resolves interface calls to them)
	for _, p := range prog.AllPackages() {
		for _, m := range p.Members {
			if t, ok := m.(*ssa.Type); ok {
				for _, typ := range []types.Type{t.Type(), types.NewPointer(t.Type())} {
					ms := prog.MethodSets.MethodSet(typ)
					for i := 0; i < ms.Len(); i++ {
						prog.MethodValue(ms.At(i))
					}
				}
			}
		}
	}
	lap("methods")
	cg := cha.CallGraph(prog)
	lap("cha")
	out.Stats["functions"] = len(cg.Nodes)

	byPath := map[string]*packages.Package{}
	packages.Visit(pkgs, nil, func(p *packages.Package) { byPath[p.PkgPath] = p })

	// ---- keystore signing entry points -------------------------------------------------------------------------
	ksPkg := prog.ImportedPackage(mod + "/aqua/accounts/keystore")
	if ksPkg == nil {
		fatal("keystore package not loaded")
	}
	ksType := ksPkg.Type("KeyStore")
	if ksType == nil {
		fatal("keystore.KeyStore not found")
	}
	isPrimitive := func(f *ssa.Function) bool {
		if f == nil || f.Pkg == nil {
			return false
		}
		p, n := f.Pkg.Pkg.Path(), f.Name()
		return (p == mod+"/crypto" && n == "Sign") || (p == mod+"/core/types" && n == "SignTx")
	}
	entry := map[*ssa.Function]bool{}
	ms := prog.MethodSets.MethodSet(types.NewPointer(ksType.Type()))
	for i := 0; i < ms.Len(); i++ {
		sel := ms.At(i)
		if !sel.Obj().Exported() {
			continue
		}
		f := prog.MethodValue(sel)
		if f == nil {
			continue
		}
		calls, hooked := false, false
		for _, b := range f.Blocks {
			for _, in := range b.Instrs {
				if c, ok := in.(ssa.CallInstruction); ok {
					if g := c.Common().StaticCallee(); g != nil {
						if isPrimitive(g) {
							calls = true
						}
						if g.Name() == "verifSignHook" {
							hooked = true
						}
					}
				}
			}
		}
		if calls {
			entry[f] = true
			out.EntryPoints = append(out.EntryPoints, f.Name())
			if hooked {
				out.Hooked = append(out.Hooked, f.Name())
			}
		}
	}
	sort.Strings(out.EntryPoints)
	sort.Strings(out.Hooked)
	out.HookPresent = ksPkg.Func("verifSignHook") != nil
	if len(entry) == 0 {
		refuse("no keystore signing entry point found (no exported *KeyStore method calls crypto.Sign or types.SignTx)")
	}
	// every other function of the keystore package that calls a signing primitive must do so only through an entry point
	for f := range cg.Nodes {
		if f == nil || f.Pkg != ksPkg || entry[f] {
			continue
		}
		for _, b := range f.Blocks {
			for _, in := range b.Instrs {
				if c, ok := in.(ssa.CallInstruction); ok && isPrimitive(c.Common().StaticCallee()) {
					refuse("keystore function %s calls a signing primitive directly but is not an exported *KeyStore method", f.String())
				}
			}
		}
	}

	lap("entry")
	// ---- config-gated consensus engines ------------------------------------------------------------------------
	gatedTypes := map[*types.Named]bool{}
	consPkg := prog.ImportedPackage(mod + "/consensus")
	if consPkg == nil || consPkg.Type("Engine") == nil {
		refuse("consensus.Engine not found")
	} else {
		engIface := consPkg.Type("Engine").Type().Underlying().(*types.Interface)
		for _, p := range prog.AllPackages() {
			if !strings.HasPrefix(p.Pkg.Path(), mod) {
				continue
			}
			for _, m := range p.Members {
				t, ok := m.(*ssa.Type)
				if !ok {
					continue
				}
				named, ok := t.Type().(*types.Named)
				if !ok || types.IsInterface(named) {
					continue
				}
				if !types.Implements(types.NewPointer(named), engIface) && !types.Implements(named, engIface) {
					continue
				}
				out.Engines = append(out.Engines, named.String())
				// allocation sites
				ctors := map[*ssa.Function]bool{}
				for f := range cg.Nodes {
					if f == nil {
						continue
					}
					for _, b := range f.Blocks {
						for _, in := range b.Instrs {
							if a, ok := in.(*ssa.Alloc); ok {
								if pt, ok := a.Type().Underlying().(*types.Pointer); ok && types.Identical(pt.Elem(), named) {
									ctors[f] = true
								}
							}
						}
					}
				}
				ge := gatedEntry{Type: named.String()}
				ok2 := len(ctors) > 0
				callers := map[*ssa.Function]bool{}
				for c := range ctors {
					ge.Constructors = append(ge.Constructors, c.String())
					if c.Pkg != p {
						ok2 = false
					}
					if n := cg.Nodes[c]; n != nil {
						for _, e := range n.In {
							if !ctors[e.Caller.Func] {
								callers[e.Caller.Func] = true
							}
						}
					}
				}
				guard := ""
				for c := range callers {
					ge.Callers = append(ge.Callers, c.String())
					if c.String() != mod+"/aqua.CreateConsensusEngine" {
						ok2 = false
						continue
					}
					g, gok := guardOfCalls(c, ctors)
					if !gok {
						ok2 = false
					}
					guard = g
				}
				if len(callers) == 0 {
					ok2 = false
				}
				sort.Strings(ge.Constructors)
				sort.Strings(ge.Callers)
				ge.Guard = guard
				if ok2 {
					gatedTypes[named] = true
					out.Gated = append(out.Gated, ge)
				}
			}
		}
	}
	sort.Strings(out.Engines)
	sort.Slice(out.Gated, func(i, j int) bool { return out.Gated[i].Type < out.Gated[j].Type })
	gatedOf := func(f *ssa.Function) *types.Named {
		for f != nil && f.Parent() != nil {
			f = f.Parent()
		}
		if f == nil || f.Signature.Recv() == nil {
			// bound-method and interface thunks carry the receiver in FreeVars / first param; use the declared object
			if f != nil && f.Object() != nil {
				if fn, ok := f.Object().(*types.Func); ok {
					if r := fn.Type().(*types.Signature).Recv(); r != nil {
						return namedOf(r.Type())
					}
				}
			}
			return nil
		}
		return namedOf(f.Signature.Recv().Type())
	}
	isGated := func(f *ssa.Function) bool {
		n := gatedOf(f)
		return n != nil && gatedTypes[n]
	}

	lap("gated")
	// ---- reachability ------------------------------------------------------------------------------------------
	reach := func(excludeGated bool) map[*ssa.Function]bool {
		seen := map[*ssa.Function]bool{}
		var work []*ssa.Function
		for f := range entry {
			seen[f] = true
			work = append(work, f)
		}
		for len(work) > 0 {
			f := work[len(work)-1]
			work = work[:len(work)-1]
			n := cg.Nodes[f]
			if n == nil {
				continue
			}
			for _, e := range n.In {
				c := e.Caller.Func
				if c == nil || seen[c] {
					continue
				}
				if excludeGated && isGated(c) {
					continue
				}
				seen[c] = true
				work = append(work, c)
			}
		}
		return seen
	}
	rFull, rNoGate := reach(false), reach(true)
	out.Stats["reachFull"] = len(rFull)
	out.Stats["reachNoGate"] = len(rNoGate)
	witness := func(from *ssa.Function, r map[*ssa.Function]bool) ([]string, []string) {
		if !r[from] {
			return nil, nil
		}
		prev := map[*ssa.Function]*ssa.Function{from: nil}
		q := []*ssa.Function{from}
		var hit *ssa.Function
		ents := map[string]bool{}
		for len(q) > 0 {
			f := q[0]
			q = q[1:]
			if entry[f] {
				if hit == nil {
					hit = f
				}
				ents[f.Name()] = true
				continue
			}
			n := cg.Nodes[f]
			if n == nil {
				continue
			}
			// deterministic order
			outs := make([]*ssa.Function, 0, len(n.Out))
			for _, e := range n.Out {
				outs = append(outs, e.Callee.Func)
			}
			sort.Slice(outs, func(i, j int) bool { return outs[i].String() < outs[j].String() })
			for _, g := range outs {
				if g == nil || !r[g] {
					continue
				}
				if _, ok := prev[g]; ok {
					continue
				}
				prev[g] = f
				q = append(q, g)
			}
		}
		var path []string
		for f := hit; f != nil; f = prev[f] {
			path = append([]string{strings.ReplaceAll(f.String(), mod+"/", "")}, path...)
		}
		var es []string
		for e := range ents {
			es = append(es, e)
		}
		sort.Strings(es)
		return path, es
	}

	lap("reach")
	// ---- API inventory -----------------------------------------------------------------------------------------
	rpcPkg := prog.ImportedPackage(mod + "/rpc")
	nodePkg := prog.ImportedPackage(mod + "/node")
	if rpcPkg == nil || nodePkg == nil {
		fatal("rpc/node packages not loaded")
	}
	apiType := rpcPkg.Type("API").Type()
	var startRPC *ssa.Function
	if nt := nodePkg.Type("Node"); nt != nil {
		startRPC = prog.LookupMethod(types.NewPointer(nt.Type()), nodePkg.Pkg, "startRPC")
	}
	if startRPC == nil {
		refuse("(*node.Node).startRPC not found")
	}
	fwd := map[*ssa.Function]bool{}
	if startRPC != nil {
		q := []*ssa.Function{startRPC}
		fwd[startRPC] = true
		for len(q) > 0 {
			f := q[0]
			q = q[1:]
			if n := cg.Nodes[f]; n != nil {
				for _, e := range n.Out {
					g := e.Callee.Func
					if g != nil && !fwd[g] {
						fwd[g] = true
						q = append(q, g)
					}
				}
			}
		}
	}
	type acc struct {
		ns      *string
		public  bool
		svc     types.Type
		origin  *ssa.Function
		pos     token.Pos
		bad     string
	}
	accs := map[ssa.Value]*acc{}
	var order []ssa.Value
	for f := range cg.Nodes {
		if f == nil || f.Pkg == nil || !strings.HasPrefix(f.Pkg.Pkg.Path(), mod) {
			continue
		}
		for _, b := range f.Blocks {
			for _, in := range b.Instrs {
				st, ok := in.(*ssa.Store)
				if !ok {
					continue
				}
				fa, ok := st.Addr.(*ssa.FieldAddr)
				if !ok {
					continue
				}
				pt, ok := fa.X.Type().Underlying().(*types.Pointer)
				if !ok || !types.Identical(pt.Elem(), apiType) {
					continue
				}
				a := accs[fa.X]
				if a == nil {
					a = &acc{origin: f, pos: fa.X.Pos()}
					accs[fa.X] = a
					order = append(order, fa.X)
				}
				fld := pt.Elem().Underlying().(*types.Struct).Field(fa.Field).Name()
				switch fld {
				case "Namespace":
					if c, ok := st.Val.(*ssa.Const); ok && c.Value != nil {
						s, _ := strconv.Unquote(c.Value.ExactString())
						a.ns = &s
					} else {
						a.bad = "namespace is not a string constant"
					}
				case "Public":
					if c, ok := st.Val.(*ssa.Const); ok && c.Value != nil {
						a.public = c.Value.ExactString() == "true"
					} else {
						a.bad = "public flag is not a constant"
					}
				case "Service":
					if mi, ok := st.Val.(*ssa.MakeInterface); ok {
						a.svc = mi.X.Type()
					} else {
						a.bad = "service is not a concrete value converted at the literal"
					}
				}
			}
		}
	}
	svcSeen := map[string]types.Type{}
	svcSeenDirect := map[string]types.Type{}
	for _, v := range order {
		a := accs[v]
		if !fwd[a.origin] {
			out.Stats["apiLiteralsNotReachableFromStartRPC"]++
			continue
		}
		if a.bad != "" || a.ns == nil || a.svc == nil {
			refuse("rpc.API literal in %s: %s (ns set=%v svc set=%v)", a.origin.String(), a.bad, a.ns != nil, a.svc != nil)
			continue
		}
		e := apiEntry{Origin: strings.ReplaceAll(a.origin.String(), mod+"/", ""), Namespace: *a.ns, Public: a.public, Service: a.svc.String(), Short: shortType(a.svc)}
		if n := gatedOf(a.origin); n != nil && gatedTypes[n] {
			e.GatedBy = n.String()
		}
		out.Apis = append(out.Apis, e)
		svcSeen[a.svc.String()] = a.svc
	}
	sort.SliceStable(out.Apis, func(i, j int) bool {
		a, b := out.Apis[i], out.Apis[j]
		if a.Namespace != b.Namespace {
			return a.Namespace < b.Namespace
		}
		return a.Service < b.Service
	})

	// ---- methods of every service type -------------------------------------------------------------------------
	ctxType := lookupType(prog, "context", "Context")
	subType := rpcPkg.Type("Subscription").Type()
	errIface := types.Universe.Lookup("error").Type().Underlying().(*types.Interface)
	enumerate := func(svcs map[string]types.Type) {
		var svcNames []string
		for s := range svcs {
			svcNames = append(svcNames, s)
		}
		sort.Strings(svcNames)
		for _, sn := range svcNames {
			T := svcs[sn]
			mset := prog.MethodSets.MethodSet(T)
			for i := 0; i < mset.Len(); i++ {
				sel := mset.At(i)
				if !sel.Obj().Exported() {
					continue
				}
				sig := sel.Type().(*types.Signature)
				ok, isSub, args := suitable(sig, ctxType, subType, errIface)
				if !ok {
					out.Stats["methodsRejectedBySuitableCallbacks"]++
					continue
				}
				f := prog.MethodValue(sel)
				me := methodEntry{Service: sn, Short: shortType(T), GoName: sel.Obj().Name(), RpcName: formatName(sel.Obj().Name()), IsSub: isSub, Args: args}
				if f != nil {
					me.ReachesSign = rFull[f]
					me.ReachesNoGate = rNoGate[f]
					me.Path, me.Entry = witness(f, rFull)
					me.PathNoGate, _ = witness(f, rNoGate)
				} else {
					refuse("no SSA function for %s.%s", sn, sel.Obj().Name())
				}
				out.Methods = append(out.Methods, me)
			}
		}
	}
	enumerate(svcSeen)

	// ---- isProtectedMethodName, RegisterName flag switch (AST of package rpc) ------------------------------------
	rp := byPath[mod+"/rpc"]
	extractRpcAst(rp)

	// ---- registrars -------------------------------------------------------------------------------------------
	var regName *ssa.Function
	if st := rpcPkg.Type("Server"); st != nil {
		regName = prog.LookupMethod(types.NewPointer(st.Type()), rpcPkg.Pkg, "RegisterName")
	}
	if regName == nil {
		refuse("(*rpc.Server).RegisterName not found")
	} else if n := cg.Nodes[regName]; n != nil {
		seen := map[string]bool{}
		for _, e := range n.In {
			c := e.Caller.Func
			rn := runtimeName(c)
			if seen[rn] {
				continue
			}
			seen[rn] = true
			r := registrar{Func: rn, Base: rn[strings.LastIndex(rn, "/")+1:]}
			for _, fl := range out.Flags { // later matches override earlier ones, as in RegisterName
				if strings.HasSuffix(r.Base, fl.Suffix) {
					r.Suffix, r.Env = fl.Suffix, fl.Env
				}
			}
			out.Registrars = append(out.Registrars, r)
		}
		// classify every call site: (api.Namespace, api.Service) read from an rpc.API value, or a constant registration
		for _, e := range n.In {
			if e.Site == nil {
				continue
			}
			args := e.Site.Common().Args
			if len(args) != 3 {
				refuse("RegisterName call in %s has an unexpected shape", e.Caller.Func.String())
				continue
			}
			nsC, isConst := args[1].(*ssa.Const)
			mi, isMI := args[2].(*ssa.MakeInterface)
			switch {
			case isConst && isMI && nsC.Value != nil:
				ns, _ := strconv.Unquote(nsC.Value.ExactString())
				out.Direct = append(out.Direct, directReg{Registrar: runtimeName(e.Caller.Func), Namespace: ns, Service: mi.X.Type().String(), Short: shortType(mi.X.Type())})
				svcSeenDirect[mi.X.Type().String()] = mi.X.Type()
			case !isConst && !isMI && fromAPIField(args[1], apiType, "Namespace") && fromAPIField(args[2], apiType, "Service"):
				// ok: the API list
			default:
				refuse("RegisterName call in %s registers something that is neither an rpc.API entry nor a constant service", e.Caller.Func.String())
			}
		}
		sort.Slice(out.Registrars, func(i, j int) bool { return out.Registrars[i].Func < out.Registrars[j].Func })
	}

	for k := range svcSeenDirect {
		if _, dup := svcSeen[k]; dup {
			delete(svcSeenDirect, k)
		}
	}
	enumerate(svcSeenDirect)
	lap("rest")
	enc := json.NewEncoder(os.Stdout)
	enc.SetIndent("", " ")
	enc.Encode(out)
}

func fatal(format string, a ...interface{}) {
	fmt.Fprintf(os.Stderr, "rpcsign: "+format+"\n", a...)
	os.Exit(1)
}

func namedOf(t types.Type) *types.Named {
	if p, ok := t.(*types.Pointer); ok {
		t = p.Elem()
	}
	n, _ := types.Unalias(t).(*types.Named)
	return n
}

func shortType(t types.Type) string {
	return types.TypeString(t, func(p *types.Package) string { return p.Name() })
}

func lookupType(prog *ssa.Program, pkg, name string) types.Type {
	p := prog.ImportedPackage(pkg)
	if p == nil || p.Type(name) == nil {
		fatal("type %s.%s not loaded", pkg, name)
	}
	return p.Type(name).Type()
}

func formatName(name string) string {
	r := []rune(name)
	if len(r) > 0 {
		r[0] = unicode.ToLower(r[0])
	}
	return string(r)
}

func deref(t types.Type) types.Type {
	for {
		p, ok := types.Unalias(t).Underlying().(*types.Pointer)
		if !ok {
			return types.Unalias(t)
		}
		// reflect's Kind()==Ptr also holds for named pointer types; follow reflect
		t = p.Elem()
	}
}

// isExportedOrBuiltinType mirrors rpc/utils.go.
func isExportedOrBuiltinType(t types.Type) bool {
	t = deref(t)
	if n, ok := t.(*types.Named); ok {
		rn, _ := utf8.DecodeRuneInString(n.Obj().Name())
		return unicode.IsUpper(rn) || n.Obj().Pkg() == nil
	}
	return true // unnamed composite types and basic types have PkgPath() == ""
}

// suitable mirrors rpc.suitableCallbacks / isPubSub for one exported method (signature without receiver).
func suitable(sig *types.Signature, ctxType, subType types.Type, errIface *types.Interface) (ok bool, isSub bool, args []string) {
	in, res := sig.Params(), sig.Results()
	isCtx := func(t types.Type) bool { return types.Identical(deref(t), ctxType) }
	isErr := func(t types.Type) bool { return types.Implements(deref(t), errIface) }
	isSubT := func(t types.Type) bool { return types.Identical(deref(t), subType) }
	first := 0
	if in.Len() >= 1 && types.Identical(types.Unalias(in.At(0).Type()), ctxType) {
		first = 1
	}
	isSub = in.Len() >= 1 && res.Len() == 2 && isCtx(in.At(0).Type()) && isSubT(res.At(0).Type()) && isErr(res.At(1).Type())
	for i := first; i < in.Len(); i++ {
		if !isExportedOrBuiltinType(in.At(i).Type()) {
			return false, isSub, nil
		}
		args = append(args, shortType(in.At(i).Type()))
	}
	if isSub {
		return true, true, args
	}
	for i := 0; i < res.Len(); i++ {
		if !isExportedOrBuiltinType(res.At(i).Type()) {
			return false, false, nil
		}
	}
	errPos := -1
	for i := 0; i < res.Len(); i++ {
		if isErr(res.At(i).Type()) {
			errPos = i
			break
		}
	}
	if errPos >= 0 && errPos != res.Len()-1 {
		return false, false, nil
	}
	switch res.Len() {
	case 0, 1:
		return true, false, args
	case 2:
		return errPos != -1, false, args
	}
	return false, false, nil
}

func runtimeName(f *ssa.Function) string {
	if f == nil {
		return "?"
	}
	if f.Parent() != nil {
		// closures: parent.funcN (the runtime numbers them per parent; ssa uses $N)
		return runtimeName(f.Parent()) + ".func" + strings.TrimPrefix(f.Name()[strings.LastIndex(f.Name(), "$")+1:], "$")
	}
	pkg := ""
	if f.Pkg != nil {
		pkg = f.Pkg.Pkg.Path()
	}
	if r := f.Signature.Recv(); r != nil {
		t := r.Type()
		if p, ok := t.(*types.Pointer); ok {
			return pkg + ".(*" + namedOf(p).Obj().Name() + ")." + f.Name()
		}
		if n := namedOf(t); n != nil {
			return pkg + "." + n.Obj().Name() + "." + f.Name()
		}
	}
	return pkg + "." + f.Name()
}

// guardOfCalls finds, in caller, the call(s) to the constructors and returns the condition of the If that
// immediately dominates the calling block on its true edge, rendered as "<field> != nil" when it has that shape.
func guardOfCalls(caller *ssa.Function, ctors map[*ssa.Function]bool) (string, bool) {
	guard, okAll, found := "", true, false
	for _, b := range caller.Blocks {
		for _, in := range b.Instrs {
			c, ok := in.(ssa.CallInstruction)
			if !ok || c.Common().StaticCallee() == nil || !ctors[c.Common().StaticCallee()] {
				continue
			}
			found = true
			if len(b.Preds) != 1 {
				okAll = false
				continue
			}
			p := b.Preds[0]
			iff, ok := p.Instrs[len(p.Instrs)-1].(*ssa.If)
			if !ok || p.Succs[0] != b {
				okAll = false
				continue
			}
			bo, ok := iff.Cond.(*ssa.BinOp)
			if !ok || bo.Op != token.NEQ {
				okAll = false
				continue
			}
			cst, ok := bo.Y.(*ssa.Const)
			if !ok || !cst.IsNil() {
				okAll = false
				continue
			}
			ld, ok := bo.X.(*ssa.UnOp)
			if !ok || ld.Op != token.MUL {
				okAll = false
				continue
			}
			fa, ok := ld.X.(*ssa.FieldAddr)
			if !ok {
				okAll = false
				continue
			}
			st := fa.X.Type().Underlying().(*types.Pointer).Elem().Underlying().(*types.Struct)
			guard = shortType(fa.X.Type().Underlying().(*types.Pointer).Elem()) + "." + st.Field(fa.Field).Name() + " != nil"
		}
	}
	return guard, okAll && found
}

// extractRpcAst reads isProtectedMethodName and the caller-suffix switch of RegisterName from the syntax of package rpc.
func extractRpcAst(p *packages.Package) {
	if p == nil {
		refuse("package rpc syntax not loaded")
		return
	}
	envOf := map[string]string{} // allow variable -> env name
	var protDecl, regDecl *ast.FuncDecl
	for _, f := range p.Syntax {
		for _, d := range f.Decls {
			switch d := d.(type) {
			case *ast.FuncDecl:
				if d.Recv == nil && d.Name.Name == "isProtectedMethodName" {
					protDecl = d
				}
				if d.Recv != nil && d.Name.Name == "RegisterName" {
					regDecl = d
				}
			case *ast.GenDecl:
				if d.Tok != token.VAR {
					continue
				}
				for _, s := range d.Specs {
					vs := s.(*ast.ValueSpec)
					if len(vs.Names) != 1 || len(vs.Values) != 1 {
						continue
					}
					if c, ok := vs.Values[0].(*ast.CallExpr); ok && len(c.Args) == 1 {
						if se, ok := c.Fun.(*ast.SelectorExpr); ok && se.Sel.Name == "EnvBool" {
							if x, ok := se.X.(*ast.Ident); ok && x.Name == "sense" {
								if lit, ok := c.Args[0].(*ast.BasicLit); ok && lit.Kind == token.STRING {
									s, _ := strconv.Unquote(lit.Value)
									envOf[vs.Names[0].Name] = s
								}
							}
						}
					}
				}
			}
		}
	}
	// isProtectedMethodName: single `return a == "x" || a == "y" ...`
	if protDecl == nil || protDecl.Body == nil {
		refuse("rpc.isProtectedMethodName not found")
	} else {
		param := ""
		if protDecl.Type.Params != nil && len(protDecl.Type.Params.List) == 1 && len(protDecl.Type.Params.List[0].Names) == 1 {
			param = protDecl.Type.Params.List[0].Names[0].Name
		}
		okShape := param != "" && len(protDecl.Body.List) == 1
		var names []string
		if okShape {
			rs, ok := protDecl.Body.List[0].(*ast.ReturnStmt)
			if !ok || len(rs.Results) != 1 {
				okShape = false
			} else {
				var walk func(e ast.Expr) bool
				walk = func(e ast.Expr) bool {
					switch e := e.(type) {
					case *ast.ParenExpr:
						return walk(e.X)
					case *ast.BinaryExpr:
						if e.Op == token.LOR {
							return walk(e.X) && walk(e.Y)
						}
						if e.Op == token.EQL {
							id, ok1 := e.X.(*ast.Ident)
							lit, ok2 := e.Y.(*ast.BasicLit)
							if !ok1 || !ok2 {
								id, ok1 = e.Y.(*ast.Ident)
								lit, ok2 = e.X.(*ast.BasicLit)
							}
							if ok1 && ok2 && id.Name == param && lit.Kind == token.STRING {
								s, _ := strconv.Unquote(lit.Value)
								names = append(names, s)
								return true
							}
						}
					case *ast.Ident:
						if e.Name == "false" {
							return true
						}
					}
					return false
				}
				okShape = walk(rs.Results[0])
			}
		}
		if !okShape {
			refuse("rpc.isProtectedMethodName is not a pure disjunction of `name == \"literal\"` (cannot be translated)")
		}
		sort.Strings(names)
		out.Protected = names
	}
	// RegisterName: if strings.HasSuffix(funcname, ".startX") { ...; envname = "E"; is_allowed = allow_sign_x }
	used := map[string]bool{}
	if regDecl == nil || regDecl.Body == nil {
		refuse("rpc.(*Server).RegisterName not found")
	} else {
		filterSeen := false
		initFalse := false
		ast.Inspect(regDecl.Body, func(n ast.Node) bool {
			switch n := n.(type) {
			case *ast.AssignStmt:
				if n.Tok == token.DEFINE && len(n.Lhs) == 1 && len(n.Rhs) == 1 {
					if id, ok := n.Lhs[0].(*ast.Ident); ok && id.Name == "is_allowed" {
						if v, ok := n.Rhs[0].(*ast.Ident); ok && v.Name == "false" {
							initFalse = true
						}
					}
				}
			case *ast.IfStmt:
				if c, ok := n.Cond.(*ast.CallExpr); ok {
					if se, ok := c.Fun.(*ast.SelectorExpr); ok && se.Sel.Name == "HasSuffix" && len(c.Args) == 2 {
						if lit, ok := c.Args[1].(*ast.BasicLit); ok && lit.Kind == token.STRING {
							fe := flagEntry{}
							fe.Suffix, _ = strconv.Unquote(lit.Value)
							for _, s := range n.Body.List {
								if as, ok := s.(*ast.AssignStmt); ok && len(as.Lhs) == 1 && len(as.Rhs) == 1 {
									l, _ := as.Lhs[0].(*ast.Ident)
									if l == nil {
										continue
									}
									switch l.Name {
									case "is_allowed":
										if r, ok := as.Rhs[0].(*ast.Ident); ok {
											fe.Var = r.Name
										} else {
											refuse("RegisterName: is_allowed assigned a non-variable under suffix %s", fe.Suffix)
										}
									case "envname":
										if r, ok := as.Rhs[0].(*ast.BasicLit); ok {
											fe.LogName, _ = strconv.Unquote(r.Value)
										}
									}
								}
							}
							if fe.Var == "true" {
								refuse("RegisterName: suffix %s allows signing unconditionally", fe.Suffix)
							} else if fe.Var != "" {
								env, ok := envOf[fe.Var]
								if !ok {
									refuse("RegisterName: %s is not initialised from sense.EnvBool", fe.Var)
								}
								fe.Env = env
								used[fe.Var] = true
								out.Flags = append(out.Flags, fe)
							}
						}
					}
					if id, ok := c.Fun.(*ast.Ident); ok && id.Name == "isProtectedMethodName" {
						// expect a nested `if !is_allowed { ... delete(methods, k) ... }`
						ast.Inspect(n.Body, func(m ast.Node) bool {
							if in, ok := m.(*ast.IfStmt); ok {
								if u, ok := in.Cond.(*ast.UnaryExpr); ok && u.Op == token.NOT {
									if id, ok := u.X.(*ast.Ident); ok && id.Name == "is_allowed" {
										ast.Inspect(in.Body, func(k ast.Node) bool {
											if ce, ok := k.(*ast.CallExpr); ok {
												if f, ok := ce.Fun.(*ast.Ident); ok && f.Name == "delete" {
													filterSeen = true
												}
											}
											return true
										})
									}
								}
							}
							return true
						})
					}
				}
			}
			return true
		})
		if !filterSeen {
			refuse("RegisterName: the `if isProtectedMethodName(..) { if !is_allowed { delete(methods, k) } }` filter was not found")
		}
		if !initFalse {
			refuse("RegisterName: `is_allowed := false` not found")
		}
	}
	var dead []string
	for v := range envOf {
		if !used[v] && strings.HasPrefix(envOf[v], "UNSAFE_") {
			dead = append(dead, v)
		}
	}
	sort.Strings(dead)
	for _, v := range dead {
		out.DeadFlags = append(out.DeadFlags, flagEntry{Var: v, Env: envOf[v]})
	}
}

// fromAPIField: v is a load of field `name` of an rpc.API value.
func fromAPIField(v ssa.Value, apiType types.Type, name string) bool {
	switch x := v.(type) {
	case *ssa.UnOp:
		if fa, ok := x.X.(*ssa.FieldAddr); ok {
			if pt, ok := fa.X.Type().Underlying().(*types.Pointer); ok && types.Identical(pt.Elem(), apiType) {
				return pt.Elem().Underlying().(*types.Struct).Field(fa.Field).Name() == name
			}
		}
	case *ssa.Field:
		if types.Identical(x.X.Type(), apiType) {
			return x.X.Type().Underlying().(*types.Struct).Field(x.Field).Name() == name
		}
	}
	return false
}

// balsites: T-gen inventory for C05. Syntactic (go/parser + go/ast) enumeration over a source tree of
//   (1) every mention (call or method value) of a balance mutator — AddBalance, SubBalance, SetBalance, Suicide, CreateAccount —
//       outside core/state and outside _test.go files, as (file, enclosing function, selector) with a count;
//   (2) inside core/state: every function that assigns a `.Balance` field or calls `setBalance`.
// By name, not by type: a superset of the real call sites (any method of these names is reported), which is the safe direction.
package main

import (
	"encoding/json"
	"fmt"
	"go/ast"
	"go/parser"
	"go/token"
	"os"
	"path/filepath"
	"sort"
	"strings"
)

var mutators = map[string]bool{"AddBalance": true, "SubBalance": true, "SetBalance": true, "Suicide": true, "CreateAccount": true}

func recvName(fd *ast.FuncDecl) string {
	if fd.Recv == nil || len(fd.Recv.List) == 0 {
		return fd.Name.Name
	}
	t := fd.Recv.List[0].Type
	if s, ok := t.(*ast.StarExpr); ok {
		t = s.X
	}
	if id, ok := t.(*ast.Ident); ok {
		return id.Name + "." + fd.Name.Name
	}
	return "?." + fd.Name.Name
}

func main() {
	root := os.Args[1]
	sites := map[string]int{}
	stateFns := map[string]bool{}
	fset := token.NewFileSet()
	err := filepath.Walk(root, func(p string, info os.FileInfo, err error) error {
		if err != nil {
			return err
		}
		rel, _ := filepath.Rel(root, p)
		if info.IsDir() {
			b := filepath.Base(p)
			if rel != "." && (strings.HasPrefix(b, ".") || b == "vendor" || b == "testdata" || b == "node_modules") {
				return filepath.SkipDir
			}
			return nil
		}
		if !strings.HasSuffix(p, ".go") || strings.HasSuffix(p, "_test.go") {
			return nil
		}
		f, err := parser.ParseFile(fset, p, nil, 0)
		if err != nil {
			return fmt.Errorf("parse %s: %v", rel, err)
		}
		inState := filepath.ToSlash(filepath.Dir(rel)) == "core/state"
		for _, d := range f.Decls {
			fd, ok := d.(*ast.FuncDecl)
			if !ok {
				// package-level vars / consts with function literals
				ast.Inspect(d, func(n ast.Node) bool {
					if se, ok := n.(*ast.SelectorExpr); ok && mutators[se.Sel.Name] && !inState {
						sites[filepath.ToSlash(rel)+"|<package>|"+se.Sel.Name]++
					}
					return true
				})
				continue
			}
			if fd.Body == nil {
				continue
			}
			name := recvName(fd)
			ast.Inspect(fd.Body, func(n ast.Node) bool {
				switch x := n.(type) {
				case *ast.SelectorExpr:
					if mutators[x.Sel.Name] && !inState {
						sites[filepath.ToSlash(rel)+"|"+name+"|"+x.Sel.Name]++
					}
				case *ast.AssignStmt:
					if inState {
						for _, l := range x.Lhs {
							if se, ok := l.(*ast.SelectorExpr); ok && se.Sel.Name == "Balance" {
								stateFns[name] = true
							}
						}
					}
				case *ast.CallExpr:
					if inState {
						switch fn := x.Fun.(type) {
						case *ast.SelectorExpr:
							if fn.Sel.Name == "setBalance" {
								stateFns[name] = true
							}
						case *ast.Ident:
							if fn.Name == "setBalance" {
								stateFns[name] = true
							}
						}
					}
				}
				return true
			})
		}
		return nil
	})
	if err != nil {
		fmt.Fprintln(os.Stderr, err)
		os.Exit(1)
	}
	type site struct {
		File, Func, Sel string
		N             int
	}
	var out []site
	for k, n := range sites {
		p := strings.Split(k, "|")
		out = append(out, site{p[0], p[1], p[2], n})
	}
	sort.Slice(out, func(i, j int) bool {
		a, b := out[i], out[j]
		if a.File != b.File {
			return a.File < b.File
		}
		if a.Func != b.Func {
			return a.Func < b.Func
		}
		return a.Sel < b.Sel
	})
	var sf []string
	for k := range stateFns {
		sf = append(sf, k)
	}
	sort.Strings(sf)
	b, _ := json.Marshal(map[string]interface{}{"sites": out, "stateFns": sf})
	fmt.Println(string(b))
}

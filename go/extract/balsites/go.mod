module balsites

go 1.23

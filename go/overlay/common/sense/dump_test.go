package sense

import (
	"encoding/json"
	"fmt"
	"os"
	"testing"
)

// TestVerifDumpEnvBool (C18, T-gen): what the real EnvBool answers for a lattice of values of a variable in the real
// process environment (unset, empty, every spelling boolString knows in several cases, unparsable values).
func TestVerifDumpEnvBool(t *testing.T) {
	const name = "VERIF_C18_PROBE_FLAG"
	type row struct {
		Set   bool   `json:"set"`
		Value string `json:"value"`
		On    bool   `json:"on"`
	}
	values := []string{"", "0", "false", "no", "off", "disabled", "disable", "1", "true", "yes", "on", "enabled", "enable",
		"FALSE", "False", "No", "OFF", "Disabled", "TRUE", "True", "Yes", "ON", "Enabled",
		" 1", "1 ", " ", "2", "-1", "00", "01", "t", "f", "y", "n", "null", "nil", "none", "unset", "-", "maybe", "0x0", "false ", "\t"}
	var rows []row
	os.Unsetenv(name)
	rows = append(rows, row{false, "", EnvBool(name)})
	for _, v := range values {
		os.Setenv(name, v)
		rows = append(rows, row{true, v, EnvBool(name)})
	}
	os.Unsetenv(name)
	b, _ := json.Marshal(map[string]interface{}{"rows": rows})
	fmt.Printf("VERIF-DUMP-BEGIN\n%s\nVERIF-DUMP-END\n", b)
}

package rpc

import (
	"reflect"
	"sort"
)

// VerifCallback describes one callback or subscription actually registered on a live Server (C18 harness accessor).
type VerifCallback struct {
	Namespace string
	Name      string // RPC-visible name (formatName of the Go method name)
	GoName    string
	Rcvr      string // receiver type as reflect prints it, e.g. *aquaapi.PrivateAccountAPI
	IsSub     bool
	HasCtx    bool
	ArgTypes  []reflect.Type
}

// VerifServices lists what s.services holds, sorted by namespace, kind, name.
func VerifServices(s *Server) []VerifCallback {
	var out []VerifCallback
	if s == nil {
		return nil
	}
	for ns, svc := range s.services {
		for name, cb := range svc.callbacks {
			out = append(out, VerifCallback{ns, name, cb.method.Name, cb.rcvr.Type().String(), false, cb.hasCtx, cb.argTypes})
		}
		for name, cb := range svc.subscriptions {
			out = append(out, VerifCallback{ns, name, cb.method.Name, cb.rcvr.Type().String(), true, cb.hasCtx, cb.argTypes})
		}
	}
	sort.Slice(out, func(i, j int) bool {
		a, b := out[i], out[j]
		if a.Namespace != b.Namespace {
			return a.Namespace < b.Namespace
		}
		if a.IsSub != b.IsSub {
			return !a.IsSub
		}
		return a.Name < b.Name
	})
	return out
}

// VerifIsProtectedMethodName exposes the real predicate.
func VerifIsProtectedMethodName(name string) bool { return isProtectedMethodName(name) }

// VerifAllowFlags returns the opt-in flags as package rpc read them from the environment at start-up.
func VerifAllowFlags() map[string]bool {
	return map[string]bool{
		"allow_all_rpc_signing": allow_all_rpc_signing,
		"allow_sign_ipc":        allow_sign_ipc,
		"allow_sign_http":       allow_sign_http,
		"allow_sign_ws":         allow_sign_ws,
		"allow_sign_inProc":     allow_sign_inProc,
	}
}

// Accessor file injected into package p2p at harness build time (go build -overlay); /repo itself is not modified.
// Gives the C17 harness the unexported RLPx frame codec, the encryption-handshake readers, the protocol-handshake
// reader and Server.runPeer over a caller-supplied connection.
package p2p

import (
	"context"
	"crypto/cipher"
	"crypto/ecdsa"
	"hash"
	"io"
	"net"

	"github.com/btcsuite/btcd/btcec/v2"
	"gitlab.com/aquachain/aquachain/crypto/sha3"
	"gitlab.com/aquachain/aquachain/p2p/discover"
	"gitlab.com/aquachain/aquachain/rlp"
)

const (
	VerifMaxUint24              = maxUint24
	VerifBaseProtocolMaxMsgSize = baseProtocolMaxMsgSize
	VerifBaseProtocolLength     = baseProtocolLength
	VerifEncAuthMsgLen          = encAuthMsgLen
	VerifEncAuthRespLen         = encAuthRespLen
	VerifEciesOverhead          = eciesOverhead
	VerifHandshakeMsg           = handshakeMsg
	VerifDiscMsg                = discMsg
	VerifPingMsg                = pingMsg
	VerifPongMsg                = pongMsg
	VerifSnappyProtocolVersion  = snappyProtocolVersion
)

// VerifKeccakMAC returns a Keccak-256 hash pre-loaded with init (what encHandshake.secrets does with
// xor(MAC, nonce) ‖ auth-packet).
func VerifKeccakMAC(init []byte) hash.Hash {
	h := sha3.NewKeccak256()
	h.Write(init)
	return h
}

// VerifFrameRW is newRLPXFrameRW: the real frame codec with real AES/Keccak derived from the given secrets.
func VerifFrameRW(conn io.ReadWriter, aesKey, macKey []byte, egress, ingress hash.Hash, snappy bool) MsgReadWriter {
	rw := newRLPXFrameRW(conn, secrets{AES: aesKey, MAC: macKey, EgressMAC: egress, IngressMAC: ingress})
	rw.snappy = snappy
	return rw
}

// VerifFrameRWPrims builds an rlpxFrameRW over caller-supplied primitives (the struct's fields are interfaces);
// WriteMsg/ReadMsg are the real code. Used to run the frame codec over primitives the Lean model can compute.
func VerifFrameRWPrims(conn io.ReadWriter, enc, dec cipher.Stream, macc cipher.Block, egress, ingress hash.Hash, snappy bool) MsgReadWriter {
	return &rlpxFrameRW{conn: conn, enc: enc, dec: dec, macCipher: macc, egressMAC: egress, ingressMAC: ingress, snappy: snappy}
}

// VerifReadHandshakeMsg is readHandshakeMsg for the auth ('a') or auth-response ('r') message.
// It reports the size of the buffer the reader ended up with (the allocation the peer can cause).
func VerifReadHandshakeMsg(kind byte, prv *ecdsa.PrivateKey, r io.Reader) (buflen int, err error) {
	var buf []byte
	if kind == 'a' {
		buf, err = readHandshakeMsg(new(authMsgV4), encAuthMsgLen, prv, r)
	} else {
		buf, err = readHandshakeMsg(new(authRespV4), encAuthRespLen, prv, r)
	}
	return len(buf), err
}

// VerifReceiverEncHandshake / VerifInitiatorEncHandshake run the real encryption handshake on conn.
func VerifReceiverEncHandshake(conn io.ReadWriter, prv *ecdsa.PrivateKey) (remote discover.NodeID, aesKey, macKey []byte, err error) {
	s, err := receiverEncHandshake(conn, prv)
	return s.RemoteID, s.AES, s.MAC, err
}

func VerifInitiatorEncHandshake(conn io.ReadWriter, prv *ecdsa.PrivateKey, remote discover.NodeID) (aesKey, macKey []byte, err error) {
	s, err := initiatorEncHandshake(conn, prv, remote)
	return s.AES, s.MAC, err
}

// VerifEncHandshakePair runs both sides over conn and returns two frame codecs with the negotiated secrets.
func VerifEncHandshakeRW(conn io.ReadWriter, prv *ecdsa.PrivateKey, dial *discover.NodeID) (MsgReadWriter, discover.NodeID, error) {
	var (
		s   secrets
		err error
	)
	if dial == nil {
		s, err = receiverEncHandshake(conn, prv)
	} else {
		s, err = initiatorEncHandshake(conn, prv, *dial)
	}
	if err != nil {
		return nil, discover.NodeID{}, err
	}
	return newRLPXFrameRW(conn, s), s.RemoteID, nil
}

// VerifReadProtocolHandshake is readProtocolHandshake.
func VerifReadProtocolHandshake(rw MsgReader) (version uint64, name string, ncaps int, id discover.NodeID, err error) {
	hs, err := readProtocolHandshake(rw, &protoHandshake{Version: baseProtocolVersion})
	if err != nil {
		return 0, "", 0, discover.NodeID{}, err
	}
	return hs.Version, hs.Name, len(hs.Caps), hs.ID, nil
}

// VerifRunPeer runs the real Server.runPeer (peer.run + the drop bookkeeping that follows it) for a peer whose
// transport is the real rlpx frame codec over fd with the given secrets. One sub-protocol of the given length is
// matched; its Run function is supplied by the caller.
func VerifRunPeer(fd net.Conn, aesKey, macKey []byte, egress, ingress hash.Hash, snappy bool, protoLen uint64,
	run func(rw MsgReadWriter) error) (requested bool, err error) {
	rw := newRLPXFrameRW(fd, secrets{AES: aesKey, MAC: macKey, EgressMAC: egress, IngressMAC: ingress})
	rw.snappy = snappy
	proto := Protocol{Name: "vrf", Version: 1, Length: protoLen, Run: func(p *Peer, mrw MsgReadWriter) error { return run(mrw) }}
	c := &conn{fd: fd, transport: &rlpx{fd: fd, rw: rw}, caps: []Cap{proto.cap()}, name: "verif"}
	c.id[0] = 1
	p := newPeer(c, []Protocol{proto})
	srv := &Server{delpeer: make(chan peerDrop, 1)}
	srv.runPeer(p)
	pd := <-srv.delpeer
	return pd.requested, pd.err
}

// ---- real Server: connection setup against silent / stalling / hostile remotes ----

const (
	VerifHandshakeTimeout = handshakeTimeout
	VerifFrameReadTimeout = frameReadTimeout
)

// VerifNewServer starts a real Server (no discovery, no listener, no dialing) with one sub-protocol whose handler
// drains messages.
func VerifNewServer(key *btcec.PrivateKey, protoLen uint64) (*Server, error) {
	NoCountdown = true
	srv := &Server{Config: &Config{Name: "verif", MaxPeers: 50, NoDiscovery: true, NoDial: true, PrivateKey: key, ChainId: 222,
		Protocols: []Protocol{{Name: "vrf", Version: 1, Length: protoLen, Run: func(p *Peer, rw MsgReadWriter) error {
			for {
				m, err := rw.ReadMsg()
				if err != nil {
					return err
				}
				m.Discard()
			}
		}}}}}
	if err := srv.Start(context.Background()); err != nil {
		return nil, err
	}
	return srv, nil
}

// VerifSetupConn is Server.SetupConn for an inbound connection (dial == nil) or a dialed one.
func VerifSetupConn(srv *Server, fd net.Conn, dial *discover.Node) error {
	if dial == nil {
		return srv.SetupConn(fd, inboundConn, nil)
	}
	return srv.SetupConn(fd, dynDialedConn, dial)
}

// VerifDoEncHandshake is the real rlpx.doEncHandshake of the listening side (deadline set by newRLPX).
func VerifDoEncHandshake(fd net.Conn, prv *ecdsa.PrivateKey) (discover.NodeID, error) {
	return newRLPX(fd).(*rlpx).doEncHandshake(prv, nil)
}

// VerifProtoHandshakePayload encodes a protocol handshake as the real senders do.
func VerifProtoHandshakePayload(version uint64, name string, caps []Cap, id discover.NodeID) []byte {
	b, err := rlp.EncodeToBytes(&protoHandshake{Version: version, Name: name, Caps: caps, ID: id})
	if err != nil {
		panic(err)
	}
	return b
}

// Accessor file injected into package discover at harness build time (go build -overlay); /repo itself is not modified.
// Gives the C17 harness the unexported discovery codec (encodePacket / decodePacket / expired) and a neutral
// description of the four packet types.
package discover

import (
	"fmt"
	"net"

	"gitlab.com/aquachain/aquachain/rlp"
)

// VerifEP mirrors rpcEndpoint.
type VerifEP struct {
	IP       []byte
	UDP, TCP uint16
}

// VerifNode mirrors rpcNode.
type VerifNode struct {
	IP       []byte
	UDP, TCP uint16
	ID       NodeID
}

// VerifPkt is a neutral description of ping / pong / findnode / neighbors (Kind = 'p','o','f','n').
type VerifPkt struct {
	Kind       byte
	Version    uint
	From, To   VerifEP
	ReplyTok   []byte
	Target     NodeID
	Nodes      []VerifNode
	Expiration uint64
	Rest       [][]byte // raw RLP values of the tail
}

const (
	VerifHeadSize = headSize
	VerifMacSize  = macSize
	VerifSigSize  = sigSize
)

// VerifTypeByte returns the wire type byte the real senders use for the packet kind in the given mode
// (udp.ping / ping.handle / findnode.handle pick eth* in netcompat mode and aqua* otherwise).
func VerifTypeByte(netcompat bool, kind byte) byte {
	var i byte
	switch kind {
	case 'p':
		i = 0
	case 'o':
		i = 1
	case 'f':
		i = 2
	default:
		i = 3
	}
	if netcompat {
		return ethpingPacket + i
	}
	return aquapingPacket + i
}

func verifEP(e VerifEP) rpcEndpoint { return rpcEndpoint{IP: net.IP(e.IP), UDP: e.UDP, TCP: e.TCP} }
func verifPE(e rpcEndpoint) VerifEP { return VerifEP{IP: []byte(e.IP), UDP: e.UDP, TCP: e.TCP} }
func verifRaw(r [][]byte) []rlp.RawValue {
	var out []rlp.RawValue
	for _, x := range r {
		out = append(out, rlp.RawValue(x))
	}
	return out
}
func verifUnraw(r []rlp.RawValue) [][]byte {
	var out [][]byte
	for _, x := range r {
		out = append(out, []byte(x))
	}
	return out
}

// VerifReq builds the real (unexported) request struct for a description.
func VerifReq(p *VerifPkt) interface{} {
	switch p.Kind {
	case 'p':
		return &ping{Version: p.Version, From: verifEP(p.From), To: verifEP(p.To), Expiration: p.Expiration, Rest: verifRaw(p.Rest)}
	case 'o':
		return &pong{To: verifEP(p.To), ReplyTok: p.ReplyTok, Expiration: p.Expiration, Rest: verifRaw(p.Rest)}
	case 'f':
		return &findnode{Target: p.Target, Expiration: p.Expiration, Rest: verifRaw(p.Rest)}
	default:
		n := &neighbors{Expiration: p.Expiration, Rest: verifRaw(p.Rest)}
		for _, x := range p.Nodes {
			n.Nodes = append(n.Nodes, rpcNode{IP: net.IP(x.IP), UDP: x.UDP, TCP: x.TCP, ID: x.ID})
		}
		return n
	}
}

// VerifEncodePacket is encodePacket on a description.
func VerifEncodePacket(netcompat bool, priv *PrivateKey, ptype byte, p *VerifPkt) (packet, hash []byte, err error) {
	return encodePacket(netcompat, priv, ptype, VerifReq(p))
}

// VerifDecodePacket is decodePacket; the packet is returned as a description. buf is not copied (the real read
// loop hands decodePacket its receive buffer, and decodePacket rewrites the type byte in place in netcompat mode).
func VerifDecodePacket(netcompat bool, buf []byte) (*VerifPkt, NodeID, []byte, error) {
	req, id, hash, err := decodePacket(netcompat, buf)
	if err != nil {
		return nil, id, hash, err
	}
	out := &VerifPkt{}
	switch r := req.(type) {
	case *ping:
		out.Kind, out.Version, out.From, out.To, out.Expiration, out.Rest = 'p', r.Version, verifPE(r.From), verifPE(r.To), r.Expiration, verifUnraw(r.Rest)
	case *pong:
		out.Kind, out.To, out.ReplyTok, out.Expiration, out.Rest = 'o', verifPE(r.To), r.ReplyTok, r.Expiration, verifUnraw(r.Rest)
	case *findnode:
		out.Kind, out.Target, out.Expiration, out.Rest = 'f', r.Target, r.Expiration, verifUnraw(r.Rest)
	case *neighbors:
		out.Kind, out.Expiration, out.Rest = 'n', r.Expiration, verifUnraw(r.Rest)
		for _, x := range r.Nodes {
			out.Nodes = append(out.Nodes, VerifNode{IP: []byte(x.IP), UDP: x.UDP, TCP: x.TCP, ID: x.ID})
		}
	default:
		return nil, id, hash, fmt.Errorf("verif: unexpected packet type %T", req)
	}
	return out, id, hash, nil
}

// VerifExpired is expired(ts) != nil (the check every packet handler performs first).
func VerifExpired(ts uint64) bool { return expired(ts) != nil }

// VerifRecoverNodeID is recoverNodeID.
func VerifRecoverNodeID(hash, sig []byte) (NodeID, error) { return recoverNodeID(hash, sig) }

// VerifValidateComplete runs Node.validateComplete (what discovery applies to every node learned from the network)
// for a node with this ID and otherwise valid address fields.
func VerifValidateComplete(id NodeID) error {
	n, err := NewNode(id, net.IP{10, 1, 2, 3}, 30303, 30303)
	if err != nil {
		return err
	}
	return n.validateComplete()
}

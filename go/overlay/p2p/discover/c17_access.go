// Accessor file injected into package discover at harness build time (go build -overlay); /repo itself is not modified.
// Gives the C17 harness the unexported discovery codec (encodePacket / decodePacket / expired) and a neutral
// description of the four packet types.
package discover

import (
	"errors"
	"fmt"
	"net"
	"sync"
	"time"

	"gitlab.com/aquachain/aquachain/rlp"
)

// VerifEP mirrors rpcEndpoint.
type VerifEP struct {
	IP       []byte
	UDP, TCP uint16
}

// VerifNode mirrors rpcNode.
type VerifNode struct {
	IP       []byte
	UDP, TCP uint16
	ID       NodeID
}

// VerifPkt is a neutral description of ping / pong / findnode / neighbors (Kind = 'p','o','f','n').
type VerifPkt struct {
	Kind       byte
	Version    uint
	From, To   VerifEP
	ReplyTok   []byte
	Target     NodeID
	Nodes      []VerifNode
	Expiration uint64
	Rest       [][]byte // raw RLP values of the tail
}

const (
	VerifHeadSize = headSize
	VerifMacSize  = macSize
	VerifSigSize  = sigSize
)

// VerifTypeByte returns the wire type byte the real senders use for the packet kind in the given mode
// (udp.ping / ping.handle / findnode.handle pick eth* in netcompat mode and aqua* otherwise).
func VerifTypeByte(netcompat bool, kind byte) byte {
	var i byte
	switch kind {
	case 'p':
		i = 0
	case 'o':
		i = 1
	case 'f':
		i = 2
	default:
		i = 3
	}
	if netcompat {
		return ethpingPacket + i
	}
	return aquapingPacket + i
}

func verifEP(e VerifEP) rpcEndpoint { return rpcEndpoint{IP: net.IP(e.IP), UDP: e.UDP, TCP: e.TCP} }
func verifPE(e rpcEndpoint) VerifEP { return VerifEP{IP: []byte(e.IP), UDP: e.UDP, TCP: e.TCP} }
func verifRaw(r [][]byte) []rlp.RawValue {
	var out []rlp.RawValue
	for _, x := range r {
		out = append(out, rlp.RawValue(x))
	}
	return out
}
func verifUnraw(r []rlp.RawValue) [][]byte {
	var out [][]byte
	for _, x := range r {
		out = append(out, []byte(x))
	}
	return out
}

// VerifReq builds the real (unexported) request struct for a description.
func VerifReq(p *VerifPkt) interface{} {
	switch p.Kind {
	case 'p':
		return &ping{Version: p.Version, From: verifEP(p.From), To: verifEP(p.To), Expiration: p.Expiration, Rest: verifRaw(p.Rest)}
	case 'o':
		return &pong{To: verifEP(p.To), ReplyTok: p.ReplyTok, Expiration: p.Expiration, Rest: verifRaw(p.Rest)}
	case 'f':
		return &findnode{Target: p.Target, Expiration: p.Expiration, Rest: verifRaw(p.Rest)}
	default:
		n := &neighbors{Expiration: p.Expiration, Rest: verifRaw(p.Rest)}
		for _, x := range p.Nodes {
			n.Nodes = append(n.Nodes, rpcNode{IP: net.IP(x.IP), UDP: x.UDP, TCP: x.TCP, ID: x.ID})
		}
		return n
	}
}

// VerifEncodePacket is encodePacket on a description.
func VerifEncodePacket(netcompat bool, priv *PrivateKey, ptype byte, p *VerifPkt) (packet, hash []byte, err error) {
	return encodePacket(netcompat, priv, ptype, VerifReq(p))
}

// VerifDecodePacket is decodePacket; the packet is returned as a description. buf is not copied (the real read
// loop hands decodePacket its receive buffer, and decodePacket rewrites the type byte in place in netcompat mode).
func VerifDecodePacket(netcompat bool, buf []byte) (*VerifPkt, NodeID, []byte, error) {
	req, id, hash, err := decodePacket(netcompat, buf)
	if err != nil {
		return nil, id, hash, err
	}
	out := &VerifPkt{}
	switch r := req.(type) {
	case *ping:
		out.Kind, out.Version, out.From, out.To, out.Expiration, out.Rest = 'p', r.Version, verifPE(r.From), verifPE(r.To), r.Expiration, verifUnraw(r.Rest)
	case *pong:
		out.Kind, out.To, out.ReplyTok, out.Expiration, out.Rest = 'o', verifPE(r.To), r.ReplyTok, r.Expiration, verifUnraw(r.Rest)
	case *findnode:
		out.Kind, out.Target, out.Expiration, out.Rest = 'f', r.Target, r.Expiration, verifUnraw(r.Rest)
	case *neighbors:
		out.Kind, out.Expiration, out.Rest = 'n', r.Expiration, verifUnraw(r.Rest)
		for _, x := range r.Nodes {
			out.Nodes = append(out.Nodes, VerifNode{IP: []byte(x.IP), UDP: x.UDP, TCP: x.TCP, ID: x.ID})
		}
	default:
		return nil, id, hash, fmt.Errorf("verif: unexpected packet type %T", req)
	}
	return out, id, hash, nil
}

// VerifExpired is expired(ts) != nil (the check every packet handler performs first).
func VerifExpired(ts uint64) bool { return expired(ts) != nil }

// VerifRecoverNodeID is recoverNodeID.
func VerifRecoverNodeID(hash, sig []byte) (NodeID, error) { return recoverNodeID(hash, sig) }

// VerifValidateComplete runs Node.validateComplete (what discovery applies to every node learned from the network)
// for a node with this ID and otherwise valid address fields.
func VerifValidateComplete(id NodeID) error {
	n, err := NewNode(id, net.IP{10, 1, 2, 3}, 30303, 30303)
	if err != nil {
		return err
	}
	return n.validateComplete()
}

// ---- bonding histories: a real udp + Table over a recording connection ----

type verifConn struct {
	mu     sync.Mutex
	sent   []VerifSent
	closed chan struct{}
}

// VerifSent is one datagram the node wrote.
type VerifSent struct {
	To   *net.UDPAddr
	Data []byte
}

func (c *verifConn) ReadFromUDP(b []byte) (int, *net.UDPAddr, error) {
	<-c.closed
	return 0, nil, errors.New("verif: closed")
}
func (c *verifConn) WriteToUDP(b []byte, addr *net.UDPAddr) (int, error) {
	c.mu.Lock()
	c.sent = append(c.sent, VerifSent{addr, append([]byte{}, b...)})
	c.mu.Unlock()
	return len(b), nil
}
func (c *verifConn) Close() error {
	defer func() { recover() }()
	close(c.closed)
	return nil
}
func (c *verifConn) LocalAddr() net.Addr { return &net.UDPAddr{IP: net.IP{10, 9, 9, 9}, Port: 30303} }

// verifNet wraps the real udp transport; the ping-back can be made to fail at once with the error the real one
// returns after respTimeout (so that a history does not have to wait 4 s for the timeout to elapse).
type verifNet struct {
	*udp
	mu       sync.Mutex
	pingMode string // "real" | "timeout" | "ok"
	pings    int
}

func (n *verifNet) ping(id NodeID, addr *net.UDPAddr) error {
	n.mu.Lock()
	mode := n.pingMode
	n.mu.Unlock()
	var err error
	switch mode {
	case "timeout":
		err = errTimeout
	case "ok":
		err = nil
	default:
		err = n.udp.ping(id, addr)
	}
	n.mu.Lock()
	n.pings++
	n.mu.Unlock()
	return err
}

// VerifDisc is a discovery endpoint (real udp, real Table, in-memory node DB) whose datagrams are injected directly
// into handlePacket and whose outgoing datagrams are recorded.
type VerifDisc struct {
	t    *udp
	tab  *Table
	conn *verifConn
	net  *verifNet
}

func VerifNewDisc(priv *PrivateKey, chainID uint64) (*VerifDisc, error) {
	c := &verifConn{closed: make(chan struct{})}
	tab, t, err := newUDP(c, Config{PrivateKey: priv, ChainId: chainID})
	if err != nil {
		return nil, err
	}
	select {
	case <-tab.initDone:
	case <-time.After(20 * time.Second):
		return nil, errors.New("verif: table initialisation did not finish")
	}
	n := &verifNet{udp: t, pingMode: "real"}
	tab.net = n
	return &VerifDisc{t: t, tab: tab, conn: c, net: n}, nil
}

// SetPingBack selects how the node's own ping (the ping-back of the bonding process) ends: "real" (wire + 4 s
// respTimeout), "timeout" (fails at once with errTimeout) or "ok" (a matching pong is taken as received).
func (d *VerifDisc) SetPingBack(mode string) {
	d.net.mu.Lock()
	d.net.pingMode = mode
	d.net.mu.Unlock()
}

// Inject hands one datagram to the real handlePacket, as readLoop does.
func (d *VerifDisc) Inject(from *net.UDPAddr, datagram []byte) error {
	return d.t.handlePacket(from, append([]byte{}, datagram...))
}

// IsUnknownNode reports whether err is the rejection of an unbonded findnode.
func VerifIsUnknownNode(err error) bool { return err == errUnknownNode }

// WaitBondIdle waits until `pings` ping-backs have ended and no bonding process is running.
func (d *VerifDisc) WaitBondIdle(pings int, max time.Duration) bool {
	deadline := time.Now().Add(max)
	for time.Now().Before(deadline) {
		d.net.mu.Lock()
		n := d.net.pings
		d.net.mu.Unlock()
		d.tab.bondmu.Lock()
		busy := len(d.tab.bonding)
		d.tab.bondmu.Unlock()
		if n >= pings && busy == 0 {
			return true
		}
		time.Sleep(5 * time.Millisecond)
	}
	return false
}

// Sent returns (and clears) what the node wrote since the last call.
func (d *VerifDisc) Sent() []VerifSent {
	d.conn.mu.Lock()
	defer d.conn.mu.Unlock()
	s := d.conn.sent
	d.conn.sent = nil
	return s
}

// HasBond is db.hasBond.
func (d *VerifDisc) HasBond(id NodeID) bool { return d.tab.db.hasBond(id) }

// VerifKindOf classifies a datagram the node sent: 'p','o','f','n' or 0.
func VerifKindOf(netcompat bool, datagram []byte) byte {
	if len(datagram) <= headSize {
		return 0
	}
	t := datagram[headSize]
	if netcompat && t < 133 {
		t += 133
	}
	switch t {
	case aquapingPacket:
		return 'p'
	case aquapongPacket:
		return 'o'
	case aquafindnodePacket:
		return 'f'
	case aquaneighborsPacket:
		return 'n'
	}
	return 0
}

func (d *VerifDisc) Close() { d.tab.Close() }

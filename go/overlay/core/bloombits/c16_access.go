// Accessor file injected into package bloombits at harness build time (go build -overlay); /repo itself is not modified.
package bloombits

// VerifCalcBloomIndexes exposes calcBloomIndexes (the three bit positions the matcher fetches for a filter clause).
func VerifCalcBloomIndexes(b []byte) [3]uint { return [3]uint(calcBloomIndexes(b)) }

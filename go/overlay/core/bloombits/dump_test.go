// Overlay test injected into package bloombits by tools/gen.py (generator "bloom"); /repo itself is not modified.
// Dumps the constants the C16 model depends on, as the compiled program sees them.
package bloombits

import (
	"encoding/json"
	"fmt"
	"testing"

	"gitlab.com/aquachain/aquachain/core/types"
	"gitlab.com/aquachain/aquachain/params"
)

func TestVerifDumpBloom(t *testing.T) {
	var idx bloomIndexes
	// smallest section size (multiple of 8) for which a filled generator hands out all BloomBitLength bit vectors
	minOK := 0
	for size := 8; size <= 4096; size += 8 {
		g, err := NewGenerator(uint(size))
		if err != nil {
			continue
		}
		g.nextBit = g.sections // "filled" without adding blooms
		if _, err := g.Bitset(uint(types.BloomBitLength - 1)); err == nil {
			minOK = size
			break
		}
	}
	_, err7 := NewGenerator(7)
	out := map[string]interface{}{
		"bloomByteLength":       types.BloomByteLength,
		"bloomBitLength":        types.BloomBitLength,
		"bloomBitsBlocks":       params.BloomBitsBlocks,
		"bloomBitsBlocksClient": params.BloomBitsBlocksClient,
		"indexesPerKey":         len(idx),
		"generatorMinSection":   minOK,
		"generatorRejects7":     err7 != nil,
	}
	b, _ := json.Marshal(out)
	fmt.Printf("VERIF-DUMP-BEGIN\n%s\nVERIF-DUMP-END\n", b)
}

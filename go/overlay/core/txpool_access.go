// Accessor file injected into package core at harness build time (go build -overlay); /repo itself is not modified.
// Gives the C15 harness a synchronous reset and a consistent snapshot of the pool's internal tables.
package core

import (
	"math/big"
	"sort"
	"time"

	"gitlab.com/aquachain/aquachain/common"
	"gitlab.com/aquachain/aquachain/core/types"
)

// VerifPoolSnap is a snapshot of the transaction pool taken under pool.mu.
type VerifPoolSnap struct {
	Pending      map[common.Address]types.Transactions // nonce-sorted
	Queue        map[common.Address]types.Transactions // nonce-sorted
	All          types.Transactions                    // sorted by hash
	PNonce       map[common.Address]uint64             // pendingState.GetNonce for the requested accounts
	CNonce       map[common.Address]uint64             // currentState.GetNonce for the requested accounts
	Balance      map[common.Address]*big.Int           // currentState.GetBalance
	Locals       map[common.Address]bool
	PCostCap     map[common.Address]*big.Int // txList.costcap / gascap of every pending and queue list (also of empty ones)
	QCostCap     map[common.Address]*big.Int
	PGasCap      map[common.Address]uint64
	QGasCap      map[common.Address]uint64
	PricedItems  types.Transactions // txPricedList.items: the price heap array, in array order (stale entries included)
	PricedStales int
	GasPrice     *big.Int
	MaxGas       uint64
}

func verifSorted(l *txList) types.Transactions {
	out := make(types.Transactions, 0, len(l.txs.items))
	for _, tx := range l.txs.items {
		out = append(out, tx)
	}
	sort.Sort(types.TxByNonce(out))
	return out
}

// VerifSnap dumps pending/queue/all/pendingState nonces. It does not call Flatten (which would warm the
// sorted cache and thereby change later behaviour of the code under test).
func (pool *TxPool) VerifSnap(addrs []common.Address) *VerifPoolSnap {
	pool.mu.Lock()
	defer pool.mu.Unlock()
	s := &VerifPoolSnap{
		Pending: map[common.Address]types.Transactions{}, Queue: map[common.Address]types.Transactions{},
		PNonce: map[common.Address]uint64{}, CNonce: map[common.Address]uint64{}, Balance: map[common.Address]*big.Int{},
		PCostCap: map[common.Address]*big.Int{}, QCostCap: map[common.Address]*big.Int{},
		PGasCap: map[common.Address]uint64{}, QGasCap: map[common.Address]uint64{},
		Locals: map[common.Address]bool{}, GasPrice: new(big.Int).Set(pool.gasPrice), MaxGas: pool.currentMaxGas,
	}
	for a, l := range pool.pending {
		s.Pending[a] = verifSorted(l)
		s.PCostCap[a], s.PGasCap[a] = new(big.Int).Set(l.costcap), l.gascap
	}
	for a, l := range pool.queue {
		s.Queue[a] = verifSorted(l)
		s.QCostCap[a], s.QGasCap[a] = new(big.Int).Set(l.costcap), l.gascap
	}
	for _, tx := range pool.all {
		s.All = append(s.All, tx)
	}
	sort.Slice(s.All, func(i, j int) bool { return s.All[i].Hash().Big().Cmp(s.All[j].Hash().Big()) < 0 })
	for _, a := range addrs {
		s.PNonce[a] = pool.pendingState.GetNonce(a)
		s.CNonce[a] = pool.currentState.GetNonce(a)
		s.Balance[a] = new(big.Int).Set(pool.currentState.GetBalance(a))
	}
	for a := range pool.locals.accounts {
		s.Locals[a] = true
	}
	s.PricedItems = append(types.Transactions{}, (*pool.priced.items)...)
	s.PricedStales = pool.priced.stales
	return s
}

// VerifReset runs reset(oldHead, newHead) synchronously under the pool lock (the path the event loop takes).
func (pool *TxPool) VerifReset(oldHead, newHead *types.Header) {
	pool.mu.Lock()
	defer pool.mu.Unlock()
	if pool.chainconfig.IsHomestead(newHead.Number) {
		pool.homestead = true
	}
	pool.reset(oldHead, newHead)
}

// VerifMaxGas returns currentMaxGas under the lock (used to detect that the event loop finished a reset).
func (pool *TxPool) VerifMaxGas() uint64 {
	pool.mu.RLock()
	defer pool.mu.RUnlock()
	return pool.currentMaxGas
}

// VerifHeadBacklog is the number of head events not yet taken by the event loop.
func (pool *TxPool) VerifHeadBacklog() int { return len(pool.chainHeadCh) }

// VerifConfig returns the sanitised configuration in effect.
func (pool *TxPool) VerifConfig() TxPoolConfig { return pool.config }

// VerifSetEvictionInterval sets the period of the pool loop's idle-eviction tick for pools created afterwards
// (the concurrent tier uses a short period so that the real eviction path runs against concurrent submissions).
func VerifSetEvictionInterval(d time.Duration) { evictionInterval = d }

// VerifRotateJournal regenerates the local transaction journal from pool.local() the way the loop's journal tick does
// (no-op when journaling is disabled).
func (pool *TxPool) VerifRotateJournal() error {
	pool.mu.Lock()
	defer pool.mu.Unlock()
	if pool.journal == nil {
		return nil
	}
	return pool.journal.rotate(pool.local())
}

// VerifSortedMap drives a real txSortedMap on its own (cache coherence cases of C15).
type VerifSortedMap struct{ m *txSortedMap }

func NewVerifSortedMap() *VerifSortedMap { return &VerifSortedMap{m: newTxSortedMap()} }

func (v *VerifSortedMap) Put(tx *types.Transaction)             { v.m.Put(tx) }
func (v *VerifSortedMap) Forward(th uint64) types.Transactions  { return v.m.Forward(th) }
func (v *VerifSortedMap) Cap(k int) types.Transactions          { return v.m.Cap(k) }
func (v *VerifSortedMap) Ready(start uint64) types.Transactions { return v.m.Ready(start) }
func (v *VerifSortedMap) Flatten() types.Transactions           { return v.m.Flatten() }
func (v *VerifSortedMap) Filter(f func(*types.Transaction) bool) types.Transactions {
	return v.m.Filter(f)
}

// Remove returns the removed transaction (nil if the nonce was not present).
func (v *VerifSortedMap) Remove(nonce uint64) *types.Transaction {
	tx := v.m.Get(nonce)
	if !v.m.Remove(nonce) {
		return nil
	}
	return tx
}

// Dump returns the contents sorted by nonce (computed from the map, never from the cache) and the cache as it is
// (cacheNil = Go's nil, i.e. Flatten would rebuild it).
func (v *VerifSortedMap) Dump() (items types.Transactions, cache types.Transactions, cacheNil bool) {
	for _, tx := range v.m.items {
		items = append(items, tx)
	}
	sort.Slice(items, func(i, j int) bool { return items[i].Nonce() < items[j].Nonce() })
	if v.m.cache == nil {
		return items, nil, true
	}
	return items, append(types.Transactions{}, v.m.cache...), false
}

// Injected into package core/state as a test file by tools/gen.py (go test -overlay); /repo is not modified.
// T-gen for C09: a syntactic inventory (go/ast over the package's own source files) of
//   * which journal entry types every function appends to the journal,
//   * which functions call the raw, unjournalled setters (setBalance, setNonce, setCode, setState, markSuicided) or write the
//     journalled object fields directly,
//   * which entry types have an undo method and which raw setters each undo uses.
package state

import (
	"encoding/json"
	"fmt"
	"go/ast"
	"go/parser"
	"go/token"
	"sort"
	"strings"
	"testing"
)

type verifFn struct {
	Name    string   `json:"name"`
	Appends []string `json:"appends"`
	Raw     []string `json:"raw"`
}

func TestVerifDumpJournal(t *testing.T) {
	fset := token.NewFileSet()
	out := []verifFn{}
	rawNames := map[string]bool{"setBalance": true, "setNonce": true, "setCode": true, "setState": true, "markSuicided": true}
	for _, file := range []string{"statedb.go", "state_object.go", "journal.go", "managed_state.go"} {
		f, err := parser.ParseFile(fset, file, nil, 0)
		if err != nil {
			t.Fatal(err)
		}
		for _, d := range f.Decls {
			fd, ok := d.(*ast.FuncDecl)
			if !ok || fd.Body == nil {
				continue
			}
			name := fd.Name.Name
			if fd.Recv != nil && len(fd.Recv.List) > 0 {
				var sb strings.Builder
				switch x := fd.Recv.List[0].Type.(type) {
				case *ast.StarExpr:
					if id, ok := x.X.(*ast.Ident); ok {
						sb.WriteString(id.Name)
					}
				case *ast.Ident:
					sb.WriteString(x.Name)
				}
				name = sb.String() + "." + name
			}
			fn := verifFn{Name: name, Appends: []string{}, Raw: []string{}}
			seenA, seenR := map[string]bool{}, map[string]bool{}
			ast.Inspect(fd.Body, func(n ast.Node) bool {
				switch x := n.(type) {
				case *ast.CallExpr:
					if id, ok := x.Fun.(*ast.Ident); ok && id.Name == "append" && len(x.Args) >= 2 {
						if sel, ok := x.Args[0].(*ast.SelectorExpr); ok && sel.Sel.Name == "journal" {
							for _, a := range x.Args[1:] {
								if cl, ok := a.(*ast.CompositeLit); ok {
									if tid, ok := cl.Type.(*ast.Ident); ok && !seenA[tid.Name] {
										seenA[tid.Name] = true
										fn.Appends = append(fn.Appends, tid.Name)
									}
								}
							}
						}
					}
					if sel, ok := x.Fun.(*ast.SelectorExpr); ok && rawNames[sel.Sel.Name] && !seenR[sel.Sel.Name] {
						seenR[sel.Sel.Name] = true
						fn.Raw = append(fn.Raw, sel.Sel.Name)
					}
				case *ast.AssignStmt:
					for _, lhs := range x.Lhs {
						if sel, ok := lhs.(*ast.SelectorExpr); ok {
							w := ""
							switch sel.Sel.Name {
							case "suicided", "touched", "refund":
								w = "=" + sel.Sel.Name
							case "Balance", "Nonce", "CodeHash":
								w = "=data." + sel.Sel.Name
							}
							if w != "" && !seenR[w] {
								seenR[w] = true
								fn.Raw = append(fn.Raw, w)
							}
						}
					}
				}
				return true
			})
			if len(fn.Appends) > 0 || len(fn.Raw) > 0 {
				sort.Strings(fn.Appends)
				sort.Strings(fn.Raw)
				out = append(out, fn)
			}
		}
	}
	sort.Slice(out, func(i, j int) bool { return out[i].Name < out[j].Name })
	b, _ := json.Marshal(map[string]interface{}{"funcs": out})
	fmt.Printf("VERIF-DUMP-BEGIN\n%s\nVERIF-DUMP-END\n", b)
}

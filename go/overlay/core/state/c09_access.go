// Injected into package core/state at harness build time (go build -overlay); /repo is not modified.
// Read-only accessors used by the C09 harness to observe the write-back cache bookkeeping of a StateDB.
package state

import (
	"sort"

	"gitlab.com/aquachain/aquachain/common"
)

// VerifDirty returns stateObjectsDirty, sorted.
func (s *StateDB) VerifDirty() []common.Address {
	out := make([]common.Address, 0, len(s.stateObjectsDirty))
	for a := range s.stateObjectsDirty {
		out = append(out, a)
	}
	sort.Slice(out, func(i, j int) bool { return string(out[i][:]) < string(out[j][:]) })
	return out
}

// VerifObj reports the raw stateObjects entry of addr (no load from the trie).
func (s *StateDB) VerifObj(addr common.Address) (present, deleted, suicided, touched, armed bool) {
	o := s.stateObjects[addr]
	if o == nil {
		return false, false, false, false, false
	}
	return true, o.deleted, o.suicided, o.touched, o.onDirty != nil
}

// VerifLeaf returns the raw value stored for addr in the account trie (nil when absent).
func (s *StateDB) VerifLeaf(addr common.Address) []byte {
	enc, _ := s.trie.TryGet(addr[:])
	return enc
}

// VerifJournalLen returns len(journal) and len(validRevisions).
func (s *StateDB) VerifJournalLen() (int, int) { return len(s.journal), len(s.validRevisions) }

// VerifObjErr reports whether the cached object of addr has memoized a database error (stateObject.dbErr).
func (s *StateDB) VerifObjErr(addr common.Address) bool {
	o := s.stateObjects[addr]
	return o != nil && o.dbErr != nil
}

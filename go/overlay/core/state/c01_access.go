// Injected into package core/state at harness build time (go build -overlay); /repo is not modified.
// Read-only accessors used by the C01 harness to observe the inputs and outputs of StateDB.Finalise.
package state

import (
	"bytes"
	"math/big"
	"sort"

	"gitlab.com/aquachain/aquachain/common"
	"gitlab.com/aquachain/aquachain/rlp"
)

// VerifC01Entry describes one entry of stateObjectsDirty before Finalise.
type VerifC01Entry struct {
	Addr      common.Address
	HasObj    bool
	Suicided  bool
	Deleted   bool
	Nonce     uint64
	Balance   *big.Int
	CodeEmpty bool
	Keys      []common.Hash // dirtyStorage keys, sorted
	Vals      []common.Hash // dirtyStorage values
	Pre       []common.Hash // value of each key in the object's storage trie before the flush
}

// VerifC01Dirty dumps stateObjectsDirty (sorted by address) with each object's dirtyStorage (sorted by key).
func (s *StateDB) VerifC01Dirty() []VerifC01Entry {
	var out []VerifC01Entry
	for a := range s.stateObjectsDirty {
		e := VerifC01Entry{Addr: a, Balance: new(big.Int)}
		if o := s.stateObjects[a]; o != nil {
			e.HasObj, e.Suicided, e.Deleted, e.Nonce = true, o.suicided, o.deleted, o.data.Nonce
			e.Balance.Set(o.data.Balance)
			e.CodeEmpty = bytes.Equal(o.data.CodeHash, emptyCodeHash)
			for k := range o.dirtyStorage {
				e.Keys = append(e.Keys, k)
			}
			sort.Slice(e.Keys, func(i, j int) bool { return bytes.Compare(e.Keys[i][:], e.Keys[j][:]) < 0 })
			for _, k := range e.Keys {
				e.Vals = append(e.Vals, o.dirtyStorage[k])
				e.Pre = append(e.Pre, verifC01TrieVal(o.getTrie(s.db), k))
			}
		}
		out = append(out, e)
	}
	sort.Slice(out, func(i, j int) bool { return bytes.Compare(out[i].Addr[:], out[j].Addr[:]) < 0 })
	return out
}

func verifC01TrieVal(tr Trie, k common.Hash) common.Hash {
	enc, err := tr.TryGet(k[:])
	if err != nil || len(enc) == 0 {
		return common.Hash{}
	}
	_, content, _, _ := rlp.Split(enc)
	return common.BytesToHash(content)
}

// VerifC01Leaf reads the account-trie leaf of addr: present?, nonce, balance.
func (s *StateDB) VerifC01Leaf(addr common.Address) (bool, uint64, *big.Int) {
	enc, _ := s.trie.TryGet(addr[:])
	if len(enc) == 0 {
		return false, 0, new(big.Int)
	}
	var acc Account
	if err := rlp.DecodeBytes(enc, &acc); err != nil {
		return false, 0, new(big.Int)
	}
	return true, acc.Nonce, acc.Balance
}

// VerifC01Storage reads keys from the live object's storage trie (what updateTrie wrote), bypassing cachedStorage.
func (s *StateDB) VerifC01Storage(addr common.Address, keys []common.Hash) []common.Hash {
	out := make([]common.Hash, len(keys))
	o := s.stateObjects[addr]
	if o == nil {
		return out
	}
	tr := o.getTrie(s.db)
	for i, k := range keys {
		out[i] = verifC01TrieVal(tr, k)
	}
	return out
}

// VerifC01DirtyCount is len(stateObjectsDirty).
func (s *StateDB) VerifC01DirtyCount() int { return len(s.stateObjectsDirty) }

// Accessors for the C07 harness (injected as /repo/core/vm/zz_verif_c07_access.go with `go build -overlay`; the repository
// is not modified). Read-only views of unexported EVM/interpreter state.
package vm

import "reflect"

// VerifC07SetNames: names of the package-level instruction sets whose content (function identities, flags) equals the
// jump table the interpreter of this EVM uses.
func VerifC07SetNames(evm *EVM) []string {
	names := []string{"frontier", "homestead", "byzantium", "constantinople", "spring"}
	sets := [][256]operation{frontierInstructionSet, homesteadInstructionSet, byzantiumInstructionSet, constantinopleInstructionSet, springInstructionSet}
	fp := func(f interface{}) uintptr {
		v := reflect.ValueOf(f)
		if v.IsNil() {
			return 0
		}
		return v.Pointer()
	}
	var out []string
	for k, s := range sets {
		same := true
		for i := 0; i < 256 && same; i++ {
			x, y := evm.interpreter.cfg.JumpTable[i], s[i]
			if x.valid != y.valid {
				same = false
			} else if x.valid {
				// closures made by the same maker share a code pointer; their stack behaviour is compared by probing
				if fp(x.execute) != fp(y.execute) || fp(x.gasCost) != fp(y.gasCost) || fp(x.memorySize) != fp(y.memorySize) ||
					x.halts != y.halts || x.jumps != y.jumps || x.writes != y.writes || x.reverts != y.reverts || x.returns != y.returns {
					same = false
				}
			}
		}
		if same {
			out = append(out, names[k])
		}
	}
	return out
}

// VerifC07Rules: the rule flags the wrappers and gas functions consult.
func VerifC07Rules(evm *EVM) (homestead, eip150, eip158, byzantium bool) {
	c, n := evm.chainConfig, evm.BlockNumber
	return c.IsHomestead(n), c.IsEIP150(n), c.IsEIP158(n), evm.chainRules.IsByzantium
}

// VerifC07GasTable: the gas table the interpreter uses.
func VerifC07GasTable(evm *EVM) [8]uint64 {
	g := evm.interpreter.gasTable
	return [8]uint64{g.ExtcodeSize, g.ExtcodeCopy, g.Balance, g.SLoad, g.Calls, g.Suicide, g.ExpByte, g.CreateBySuicide}
}

func VerifC07ReadOnly(evm *EVM) bool { return evm.interpreter.readOnly }
func VerifC07Depth(evm *EVM) int     { return evm.depth }

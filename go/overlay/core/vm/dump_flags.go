// T-gen extractor `vmflags` for property C07: injected into /repo/core/vm as zz_verif_dump_flags.go with `go build -overlay`
// (the repository is not modified) and called by go/harness/cmd/c07dump. (Not a _test.go file: linking the core/vm test
// binary takes minutes on every run, a cached `go build` of the small dump command seconds.)
// Dumps from the COMPILED program, per named instruction set and valid opcode:
// stack arity (recovered by probing validateStack with stacks of every size), the five flags, the names of the gas /
// memory / execute functions (runtime.FuncForPC; closures by the name of their maker), the constant of constant gas
// functions (by calling the closure); the two gas tables, the protocol constants the call machinery uses, the precompile
// address sets, and which instruction set / rule flags NewEVM selects for the chain configurations the C07 harness runs.
package vm

import (
	"encoding/json"
	"fmt"
	"math/big"
	"reflect"
	"regexp"
	"runtime"
	"sort"
	"strings"

	"gitlab.com/aquachain/aquachain/params"
)

type vfOp struct {
	Op       int     `json:"op"`
	Name     string  `json:"name"`
	Pops     int     `json:"pops"`
	Pushes   int     `json:"pushes"`
	GasFn    string  `json:"gasFn"`
	ConstGas *uint64 `json:"constGas"`
	MemFn    string  `json:"memFn"`
	ExecFn   string  `json:"execFn"`
	Halts    bool    `json:"halts"`
	Jumps    bool    `json:"jumps"`
	Writes   bool    `json:"writes"`
	Reverts  bool    `json:"reverts"`
	Returns  bool    `json:"returns"`
}

var vfClosureRe = regexp.MustCompile(`\.func\d+(\.\d+)*$`)

func vfFuncName(f interface{}) string {
	v := reflect.ValueOf(f)
	if v.IsNil() {
		return ""
	}
	n := runtime.FuncForPC(v.Pointer()).Name()
	if i := strings.LastIndex(n, "/"); i >= 0 {
		n = n[i+1:]
	}
	n = strings.TrimPrefix(n, "vm.")
	if vfClosureRe.MatchString(n) {
		n = vfClosureRe.ReplaceAllString(n, "")
		if i := strings.LastIndex(n, "."); i >= 0 {
			n = n[i+1:]
		}
	}
	return n
}

var vfStackBuf = make([]*big.Int, 1101)

func vfProbeStack(op operation) (pops, pushes int) {
	pops, maxOK := -1, -1
	for n := 0; n <= 1100; n++ {
		st := &Stack{data: vfStackBuf[:n]}
		if op.validateStack(st) == nil {
			if pops < 0 {
				pops = n
			}
			maxOK = n
		}
	}
	pushes = int(params.StackLimit) + pops - maxOK
	return
}

func vfConst(f gasFunc, gt params.GasTable) (g uint64, ok bool) {
	defer func() {
		if recover() != nil {
			ok = false
		}
	}()
	g, err := f(gt, nil, nil, nil, nil, 0)
	return g, err == nil
}

var vfConstFns = map[string]bool{"constGasFunc": true, "gasPush": true, "gasSwap": true, "gasDup": true}

func vfDumpSet(set [256]operation) []vfOp {
	var out []vfOp
	for i := 0; i < 256; i++ {
		op := set[i]
		if !op.valid {
			continue
		}
		v := vfOp{Op: i, Name: OpCode(i).String(), GasFn: vfFuncName(op.gasCost), MemFn: vfFuncName(op.memorySize), ExecFn: vfFuncName(op.execute),
			Halts: op.halts, Jumps: op.jumps, Writes: op.writes, Reverts: op.reverts, Returns: op.returns}
		v.Pops, v.Pushes = vfProbeStack(op)
		if vfConstFns[v.GasFn] {
			g1, ok1 := vfConst(op.gasCost, params.GasTableHomestead)
			g2, ok2 := vfConst(op.gasCost, params.GasTableHF1)
			g3, ok3 := vfConst(op.gasCost, params.GasTable{})
			if !ok1 || !ok2 || !ok3 || g1 != g2 || g1 != g3 {
				panic(fmt.Sprintf("gas function %s of opcode %#x is not constant", v.GasFn, i))
			}
			v.ConstGas = &g1
		}
		out = append(out, v)
	}
	return out
}

func vfJSON(a [256]operation) string {
	x, _ := json.Marshal(vfDumpSet(a))
	return string(x)
}

func vfGasTable(gt params.GasTable) map[string]uint64 {
	return map[string]uint64{"ExtcodeSize": gt.ExtcodeSize, "ExtcodeCopy": gt.ExtcodeCopy, "Balance": gt.Balance, "SLoad": gt.SLoad,
		"Calls": gt.Calls, "Suicide": gt.Suicide, "ExpByte": gt.ExpByte, "CreateBySuicide": gt.CreateBySuicide}
}

// vfConfigs: the chain configurations / heights the C07 harness runs. The harness has its own copy of this table and emits,
// per configuration, what the accessor overlay (go/overlay/core/vm/c07_access.go) reports about the EVM it built; the Lean
// driver compares that line with the generated `configs` (so the two copies cannot drift apart silently).
func vfConfigs() []struct {
	Name   string
	Cfg    *params.ChainConfig
	Height uint64
} {
	byz := &params.ChainConfig{ChainId: big.NewInt(7), HomesteadBlock: big.NewInt(0), EIP150Block: big.NewInt(0), EIP155Block: big.NewInt(0),
		EIP158Block: big.NewInt(0), ByzantiumBlock: big.NewInt(0), Aquahash: new(params.AquahashConfig), HF: params.ForkMap{1: big.NewInt(0)}}
	return []struct {
		Name   string
		Cfg    *params.ChainConfig
		Height uint64
	}{
		{"homestead", params.MainnetChainConfig, 100},     // pre-HF1, pre-HF5: homestead set, GasTableHomestead, no EIP158/Byzantium
		{"homesteadHF1", params.MainnetChainConfig, 5000}, // HF1 gas table, still homestead set
		{"byzantium", byz, 10},                            // Byzantium rules and instruction set without HF5
		{"springPre7", params.MainnetChainConfig, 30000},  // HF5 <= h < HF7: spring set (STATICCALL, REVERT) but IsByzantium = false
		{"spring", params.MainnetChainConfig, 40000},      // >= HF7: spring set + Byzantium + EIP158
	}
}

// VerifC07DumpJSON returns the dump as JSON.
func VerifC07DumpJSON() (res string, rerr error) {
	fatalf := func(format string, a ...interface{}) { panic(fmt.Errorf(format, a...)) }
	defer func() {
		if e := recover(); e != nil {
			rerr = fmt.Errorf("%v", e)
		}
	}()
	names := []string{"frontier", "homestead", "byzantium", "constantinople", "spring"}
	vars := map[string][256]operation{
		"frontier": frontierInstructionSet, "homestead": homesteadInstructionSet, "byzantium": byzantiumInstructionSet,
		"constantinople": constantinopleInstructionSet, "spring": springInstructionSet,
	}
	ctors := map[string][256]operation{
		"frontier": NewFrontierInstructionSet(), "homestead": NewHomesteadInstructionSet(), "byzantium": NewByzantiumInstructionSet(),
		"constantinople": NewConstantinopleInstructionSet(), "spring": NewSpringInstructionSet(),
	}
	sets := map[string][]vfOp{}
	setJSON := map[string]string{}
	for _, n := range names {
		setJSON[n] = vfJSON(vars[n])
		if setJSON[n] != vfJSON(ctors[n]) {
			fatalf("package variable %sInstructionSet differs from its constructor", n)
		}
		sets[n] = vfDumpSet(vars[n])
	}
	consts := map[string]uint64{
		"CallCreateDepth": params.CallCreateDepth, "StackLimit": params.StackLimit, "CallStipend": params.CallStipend,
		"CallValueTransferGas": params.CallValueTransferGas, "CallNewAccountGas": params.CallNewAccountGas, "CreateGas": params.CreateGas,
		"CreateDataGas": params.CreateDataGas, "MaxCodeSize": uint64(params.MaxCodeSize), "MemoryGas": params.MemoryGas,
		"QuadCoeffDiv": params.QuadCoeffDiv, "CopyGas": params.CopyGas, "LogGas": params.LogGas, "LogTopicGas": params.LogTopicGas,
		"LogDataGas": params.LogDataGas, "Sha3Gas": params.Sha3Gas, "Sha3WordGas": params.Sha3WordGas, "SstoreSetGas": params.SstoreSetGas,
		"SstoreResetGas": params.SstoreResetGas, "SstoreClearGas": params.SstoreClearGas, "GasFastestStep": GasFastestStep, "GasSlowStep": GasSlowStep,
		"EcrecoverGas": params.EcrecoverGas, "Sha256BaseGas": params.Sha256BaseGas, "Sha256PerWordGas": params.Sha256PerWordGas,
		"Ripemd160BaseGas": params.Ripemd160BaseGas, "Ripemd160PerWordGas": params.Ripemd160PerWordGas, "IdentityBaseGas": params.IdentityBaseGas,
		"IdentityPerWordGas": params.IdentityPerWordGas, "ModExpQuadCoeffDiv": params.ModExpQuadCoeffDiv, "Bn256AddGas": params.Bn256AddGas,
		"Bn256ScalarMulGas": params.Bn256ScalarMulGas, "Bn256PairingBaseGas": params.Bn256PairingBaseGas, "Bn256PairingPerPointGas": params.Bn256PairingPerPointGas,
	}
	addrList := func(keys [][20]byte) []int {
		var out []int
		for _, k := range keys {
			// precompile addresses are small integers (checked)
			for i := 0; i < 19; i++ {
				if k[i] != 0 {
					fatalf("precompile address %x is not a small integer", k)
				}
			}
			out = append(out, int(k[19]))
		}
		sort.Ints(out)
		return out
	}
	var hk, bk [][20]byte
	for a := range PrecompiledContractsHomestead {
		hk = append(hk, [20]byte(a))
	}
	for a := range PrecompiledContractsByzantium {
		bk = append(bk, [20]byte(a))
	}
	type cfgOut struct {
		Name      string   `json:"name"`
		Height    uint64   `json:"height"`
		Sets      []string `json:"sets"`
		GasTable  string   `json:"gasTable"`
		Homestead bool     `json:"homestead"`
		EIP150    bool     `json:"eip150"`
		EIP158    bool     `json:"eip158"`
		Byzantium bool     `json:"byzantium"`
	}
	var cfgs []cfgOut
	for _, c := range vfConfigs() {
		num := new(big.Int).SetUint64(c.Height)
		evm := NewEVM(Context{BlockNumber: num}, nil, c.Cfg, Config{})
		o := cfgOut{Name: c.Name, Height: c.Height, Homestead: c.Cfg.IsHomestead(num), EIP150: c.Cfg.IsEIP150(num), EIP158: c.Cfg.IsEIP158(num),
			Byzantium: evm.chainRules.IsByzantium}
		if evm.chainRules.IsByzantium != c.Cfg.IsByzantium(num) {
			fatalf("chainRules.IsByzantium differs from ChainConfig.IsByzantium for %s", c.Name)
		}
		sel := vfJSON(evm.interpreter.cfg.JumpTable)
		for _, n := range names {
			if sel == setJSON[n] {
				o.Sets = append(o.Sets, n)
			}
		}
		switch evm.interpreter.gasTable {
		case params.GasTableHomestead:
			o.GasTable = "homestead"
		case params.GasTableHF1:
			o.GasTable = "hf1"
		default:
			o.GasTable = "other"
		}
		cfgs = append(cfgs, o)
	}
	out := map[string]interface{}{
		"setNames": names, "sets": sets, "consts": consts,
		"gasTables":   map[string]map[string]uint64{"homestead": vfGasTable(params.GasTableHomestead), "hf1": vfGasTable(params.GasTableHF1)},
		"precompiles": map[string][]int{"homestead": addrList(hk), "byzantium": addrList(bk)},
		"configs":     cfgs,
	}
	b, err := json.Marshal(out)
	if err != nil {
		return "", err
	}
	return string(b), nil
}

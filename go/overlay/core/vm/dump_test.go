// T-gen extractor for core/vm (properties C07, C08): injected into /repo/core/vm as zz_verif_dump_test.go with
// `go test -overlay` (the repository is not modified). Dumps, from the COMPILED program:
//   * every named instruction set ([256]operation) — per opcode: validity, mnemonic, stack pops/pushes (recovered
//     behaviourally by probing validateStack with stacks of every size 0..1100), constant gas where the gas function is
//     a constant function (value obtained by calling the closure), flags, and the names of the execute / gas / memory
//     functions via runtime.FuncForPC;
//   * the gas tier constants of core/vm/gas.go, the params gas constants and the two params.GasTable values;
//   * for every built-in chain config: its fork heights and, at probe heights around every fork boundary, which
//     instruction set NewInterpreter selected (by content comparison) and which gas table ChainConfig.GasTable returned.
package vm

import (
	"encoding/json"
	"fmt"
	"math/big"
	"reflect"
	"regexp"
	"runtime"
	"sort"
	"strings"
	"testing"

	"gitlab.com/aquachain/aquachain/params"
)

type verifOp struct {
	Op       int               `json:"op"`
	Name     string            `json:"name"`
	Pops     int               `json:"pops"`
	Pushes   int               `json:"pushes"`
	ConstGas *uint64           `json:"constGas"` // non-nil iff the gas function is a constant function
	GasFn    string            `json:"gasFn"`
	GasBase  map[string]uint64 `json:"gasBase"` // non-constant gas functions: value with memorySize=0 and nil env, per gas table, where computable
	MemFn    string            `json:"memFn"`
	ExecFn   string            `json:"execFn"`
	Halts    bool              `json:"halts"`
	Jumps    bool              `json:"jumps"`
	Writes   bool              `json:"writes"`
	Reverts  bool              `json:"reverts"`
	Returns  bool              `json:"returns"`
}

var verifClosureRe = regexp.MustCompile(`\.func\d+(\.\d+)*$`)

// verifFuncName: package-less function name; closures are reported by the name of their maker (constGasFunc, makePush,
// makeDup, makeSwap, makeLog, makeGasLog, makeStackFunc ...) so that inlining-dependent suffixes do not leak into the table.
func verifFuncName(f interface{}) string {
	v := reflect.ValueOf(f)
	if v.IsNil() {
		return ""
	}
	n := runtime.FuncForPC(v.Pointer()).Name()
	if i := strings.LastIndex(n, "/"); i >= 0 {
		n = n[i+1:]
	}
	n = strings.TrimPrefix(n, "vm.")
	if verifClosureRe.MatchString(n) {
		n = verifClosureRe.ReplaceAllString(n, "")
		// "NewFrontierInstructionSet.constGasFunc" (closure inlined into the caller) -> "constGasFunc"
		if i := strings.LastIndex(n, "."); i >= 0 {
			n = n[i+1:]
		}
	}
	return n
}

var verifBacking = make([]*big.Int, 1101)

func verifProbeStack(op operation) (pops, pushes int) {
	pops, maxOK := -1, -1
	for n := 0; n <= 1100; n++ {
		st := &Stack{data: verifBacking[:n]}
		if op.validateStack(st) == nil {
			if pops < 0 {
				pops = n
			}
			maxOK = n
		}
	}
	// ok iff pops <= n && n+push-pop <= StackLimit  =>  maxOK = StackLimit - push + pop
	pushes = int(params.StackLimit) + pops - maxOK
	return
}

func verifCallGas(f gasFunc, gt params.GasTable) (g uint64, ok bool) {
	defer func() {
		if recover() != nil {
			ok = false
		}
	}()
	g, err := f(gt, nil, nil, nil, nil, 0)
	return g, err == nil
}

var verifConstGasFns = map[string]bool{"constGasFunc": true, "gasPush": true, "gasSwap": true, "gasDup": true}

func verifDumpSet(set [256]operation) []verifOp {
	var out []verifOp
	for i := 0; i < 256; i++ {
		op := set[i]
		if !op.valid {
			continue
		}
		v := verifOp{Op: i, Name: OpCode(i).String(), GasFn: verifFuncName(op.gasCost), MemFn: verifFuncName(op.memorySize),
			ExecFn: verifFuncName(op.execute), Halts: op.halts, Jumps: op.jumps, Writes: op.writes, Reverts: op.reverts, Returns: op.returns}
		v.Pops, v.Pushes = verifProbeStack(op)
		if verifConstGasFns[v.GasFn] {
			g1, ok1 := verifCallGas(op.gasCost, params.GasTableHomestead)
			g2, ok2 := verifCallGas(op.gasCost, params.GasTableHF1)
			g3, ok3 := verifCallGas(op.gasCost, params.GasTable{})
			if !ok1 || !ok2 || !ok3 || g1 != g2 || g1 != g3 {
				panic(fmt.Sprintf("gas function %s of opcode %#x is not constant", v.GasFn, i))
			}
			v.ConstGas = &g1
		} else {
			v.GasBase = map[string]uint64{}
			if g, ok := verifCallGas(op.gasCost, params.GasTableHomestead); ok {
				v.GasBase["homestead"] = g
			}
			if g, ok := verifCallGas(op.gasCost, params.GasTableHF1); ok {
				v.GasBase["hf1"] = g
			}
		}
		out = append(out, v)
	}
	return out
}

// verifFingerprint: everything observable about an instruction set (validity, function identities, flags, stack
// behaviour, constant gas) as one string; two sets are "the same" iff their fingerprints are equal.
func verifFingerprint(a [256]operation) string {
	var sb strings.Builder
	for i := 0; i < 256; i++ {
		x := a[i]
		if !x.valid {
			continue
		}
		p, q := verifProbeStack(x)
		g := uint64(0)
		if verifConstGasFns[verifFuncName(x.gasCost)] {
			g, _ = verifCallGas(x.gasCost, params.GasTable{})
		}
		fmt.Fprintf(&sb, "%d:%s,%s,%s,%v,%v,%v,%v,%v,%d,%d,%d;", i, verifFuncName(x.execute), verifFuncName(x.gasCost), verifFuncName(x.memorySize),
			x.halts, x.jumps, x.writes, x.reverts, x.returns, p, q, g)
	}
	return sb.String()
}

func verifSameSet(a, b [256]operation) bool { return verifFingerprint(a) == verifFingerprint(b) }

func verifBigOpt(b *big.Int) interface{} {
	if b == nil {
		return nil
	}
	return b.Uint64()
}

func verifGasTable(gt params.GasTable) map[string]uint64 {
	return map[string]uint64{"ExtcodeSize": gt.ExtcodeSize, "ExtcodeCopy": gt.ExtcodeCopy, "Balance": gt.Balance, "SLoad": gt.SLoad,
		"Calls": gt.Calls, "Suicide": gt.Suicide, "ExpByte": gt.ExpByte, "CreateBySuicide": gt.CreateBySuicide}
}

func TestVerifDumpJumpTables(t *testing.T) {
	names := []string{"frontier", "homestead", "byzantium", "constantinople", "spring"}
	ctors := map[string][256]operation{
		"frontier": NewFrontierInstructionSet(), "homestead": NewHomesteadInstructionSet(), "byzantium": NewByzantiumInstructionSet(),
		"constantinople": NewConstantinopleInstructionSet(), "spring": NewSpringInstructionSet(),
	}
	// the package-level variables NewInterpreter actually copies from
	vars := map[string][256]operation{
		"frontier": frontierInstructionSet, "homestead": homesteadInstructionSet, "byzantium": byzantiumInstructionSet,
		"constantinople": constantinopleInstructionSet, "spring": springInstructionSet,
	}
	sets := map[string][]verifOp{}
	fps := map[string]string{}
	for _, n := range names {
		fps[n] = verifFingerprint(vars[n])
		if !verifSameSet(ctors[n], vars[n]) {
			t.Fatalf("package variable %sInstructionSet differs from its constructor", n)
		}
		sets[n] = verifDumpSet(vars[n])
	}

	gasConsts := map[string]uint64{
		"GasQuickStep": GasQuickStep, "GasFastestStep": GasFastestStep, "GasFastStep": GasFastStep, "GasMidStep": GasMidStep,
		"GasSlowStep": GasSlowStep, "GasExtStep": GasExtStep, "GasReturn": GasReturn, "GasStop": GasStop, "GasContractByte": GasContractByte,
		"ExpByteGas": params.ExpByteGas, "SloadGas": params.SloadGas, "CallValueTransferGas": params.CallValueTransferGas,
		"CallNewAccountGas": params.CallNewAccountGas, "TxGas": params.TxGas, "TxGasContractCreation": params.TxGasContractCreation,
		"TxDataZeroGas": params.TxDataZeroGas, "QuadCoeffDiv": params.QuadCoeffDiv, "SstoreSetGas": params.SstoreSetGas,
		"LogDataGas": params.LogDataGas, "CallStipend": params.CallStipend, "Sha3Gas": params.Sha3Gas, "Sha3WordGas": params.Sha3WordGas,
		"SstoreResetGas": params.SstoreResetGas, "SstoreClearGas": params.SstoreClearGas, "SstoreRefundGas": params.SstoreRefundGas,
		"JumpdestGas": params.JumpdestGas, "CallGas": params.CallGas, "CreateDataGas": params.CreateDataGas,
		"CallCreateDepth": params.CallCreateDepth, "ExpGas": params.ExpGas, "LogGas": params.LogGas, "CopyGas": params.CopyGas,
		"StackLimit": params.StackLimit, "TierStepGas": params.TierStepGas, "LogTopicGas": params.LogTopicGas, "CreateGas": params.CreateGas,
		"SuicideRefundGas": params.SuicideRefundGas, "MemoryGas": params.MemoryGas, "TxDataNonZeroGas": params.TxDataNonZeroGas,
		"MaxCodeSize": uint64(params.MaxCodeSize),
	}

	// ---- built-in chain configs: fork heights and the selection made by NewInterpreter / ChainConfig.GasTable ----
	type cfgDump struct {
		Name           string          `json:"name"`
		Homestead      interface{}     `json:"homestead"`
		EIP150         interface{}     `json:"eip150"`
		EIP155         interface{}     `json:"eip155"`
		EIP158         interface{}     `json:"eip158"`
		Byzantium      interface{}     `json:"byzantium"`
		Constantinople interface{}     `json:"constantinople"`
		HF             [][2]uint64     `json:"hf"`     // (fork number, height) for every non-nil entry, ascending
		Probes         [][]interface{} `json:"probes"` // [height, [matching set names], gas table name]
	}
	builtin := []struct {
		name string
		cfg  *params.ChainConfig
	}{
		{"mainnet", params.MainnetChainConfig}, {"testnet", params.TestnetChainConfig}, {"testnet2", params.Testnet2ChainConfig},
		{"testnet3", params.Testnet3ChainConfig}, {"dev", params.AllAquahashProtocolChanges}, {"devclique", params.AllCliqueProtocolChanges},
		{"test", params.TestChainConfig},
	}
	var cfgs []cfgDump
	for _, b := range builtin {
		c := b.cfg
		d := cfgDump{Name: b.name, Homestead: verifBigOpt(c.HomesteadBlock), EIP150: verifBigOpt(c.EIP150Block), EIP155: verifBigOpt(c.EIP155Block),
			EIP158: verifBigOpt(c.EIP158Block), Byzantium: verifBigOpt(c.ByzantiumBlock), Constantinople: verifBigOpt(c.ConstantinopleBlock)}
		hs := map[uint64]bool{0: true, 1: true, 1 << 40: true}
		add := func(x *big.Int) {
			if x != nil {
				h := x.Uint64()
				hs[h], hs[h+1] = true, true
				if h > 0 {
					hs[h-1] = true
				}
			}
		}
		add(c.HomesteadBlock)
		add(c.EIP150Block)
		add(c.EIP155Block)
		add(c.EIP158Block)
		add(c.ByzantiumBlock)
		add(c.ConstantinopleBlock)
		var hfk []int
		for k := range c.HF {
			hfk = append(hfk, k)
		}
		sort.Ints(hfk)
		for _, k := range hfk {
			if c.HF[k] != nil {
				d.HF = append(d.HF, [2]uint64{uint64(k), c.HF[k].Uint64()})
				add(c.HF[k])
			}
		}
		var heights []uint64
		for h := range hs {
			heights = append(heights, h)
		}
		sort.Slice(heights, func(i, j int) bool { return heights[i] < heights[j] })
		for _, h := range heights {
			num := new(big.Int).SetUint64(h)
			evm := NewEVM(Context{BlockNumber: num}, nil, c, Config{})
			var match []string
			fp := verifFingerprint(evm.interpreter.cfg.JumpTable)
			for _, n := range names {
				if fp == fps[n] {
					match = append(match, n)
				}
			}
			gtName := "other"
			switch evm.interpreter.gasTable {
			case params.GasTableHomestead:
				gtName = "homestead"
			case params.GasTableHF1:
				gtName = "hf1"
			}
			d.Probes = append(d.Probes, []interface{}{h, match, gtName})
		}
		cfgs = append(cfgs, d)
	}

	out := map[string]interface{}{
		"setNames":  names,
		"sets":      sets,
		"gasConsts": gasConsts,
		"gasTables": map[string]map[string]uint64{"homestead": verifGasTable(params.GasTableHomestead), "hf1": verifGasTable(params.GasTableHF1)},
		"configs":   cfgs,
	}
	b, err := json.Marshal(out)
	if err != nil {
		t.Fatal(err)
	}
	fmt.Printf("VERIF-DUMP-BEGIN\n%s\nVERIF-DUMP-END\n", b)
}

// Accessors for the C08 correspondence harness; injected into /repo/core/vm at harness build time (-overlay),
// the repository itself is not modified. Every function calls the real unexported code and adds no logic of its own.
package vm

import (
	"math/big"

	"gitlab.com/aquachain/aquachain/common"
	"gitlab.com/aquachain/aquachain/crypto"
	"gitlab.com/aquachain/aquachain/params"
)

// VerifHasJumpdest: destinations.has on a fresh analysis cache.
func VerifHasJumpdest(code []byte, dest *big.Int) bool {
	d := make(destinations)
	return d.has(crypto.Keccak256Hash(code), code, dest)
}

// VerifJumpdests: destinations.has for every position of the code, as a string of '0'/'1' (one shared analysis cache,
// as inside one contract execution).
func VerifJumpdests(code []byte) string {
	d := make(destinations)
	h := crypto.Keccak256Hash(code)
	out := make([]byte, len(code))
	for i := range code {
		if d.has(h, code, new(big.Int).SetUint64(uint64(i))) {
			out[i] = '1'
		} else {
			out[i] = '0'
		}
	}
	return string(out)
}

var verifMemBuf = make([]byte, 1<<21)

func verifMem(memLen, last uint64) *Memory {
	if memLen > uint64(len(verifMemBuf)) {
		panic("verifMem: memLen too large for the probe buffer")
	}
	return &Memory{store: verifMemBuf[:memLen], lastGasCost: last}
}

// VerifMemoryGasCost: memoryGasCost on a memory of memLen bytes with the given lastGasCost.
func VerifMemoryGasCost(memLen, last, newSize uint64) (fee, newLast uint64, err error) {
	m := verifMem(memLen, last)
	fee, err = memoryGasCost(m, newSize)
	return fee, m.lastGasCost, err
}

// VerifGasFn: the gasCost function of `op` in the spring instruction set, called with a nil EVM and contract (only valid
// for gas functions that do not consult the state). stack[len-1] is the top.
func VerifGasFn(op byte, gt params.GasTable, stack []*big.Int, memLen, last, memorySize uint64) (uint64, error) {
	st := &Stack{data: stack}
	return springInstructionSet[op].gasCost(gt, nil, nil, st, verifMem(memLen, last), memorySize)
}

func VerifCallGas(gt params.GasTable, avail, base uint64, cost *big.Int) (uint64, error) {
	return callGas(gt, avail, base, cost)
}

func VerifToWordSize(n uint64) uint64 { return toWordSize(n) }

func VerifCalcMemSize(off, l *big.Int) *big.Int { return calcMemSize(off, l) }

func VerifIsGasUintOverflow(err error) bool { return err == errGasUintOverflow }

var _ = common.Big0

// VerifReturnDataCopy: the real opReturnDataCopy on a memory of memLen zero bytes with the interpreter's return-data buffer
// set to `ret` (a state that otherwise needs a completed CALL). Returns the memory afterwards and the error.
func VerifReturnDataCopy(ret []byte, memLen uint64, memOffset, dataOffset, length *big.Int) ([]byte, error) {
	evm := NewEVM(Context{BlockNumber: new(big.Int)}, nil, params.TestChainConfig, Config{})
	evm.interpreter.returnData = ret
	mem := NewMemory()
	mem.Resize(memLen)
	st := newstack()
	st.push(new(big.Int).Set(length))
	st.push(new(big.Int).Set(dataOffset))
	st.push(new(big.Int).Set(memOffset))
	pc := uint64(0)
	_, err := opReturnDataCopy(&pc, evm, nil, mem, st)
	return mem.Data(), err
}

func VerifIsReturnDataOOB(err error) bool { return err == errReturnDataOutOfBounds }

// VerifGetDataBig: the real getDataBig.
func VerifGetDataBig(data []byte, start, size *big.Int) []byte { return getDataBig(data, start, size) }

package aquahash

// verif accessors (injected with -overlay at harness build time; /repo is not modified).

import (
	"math/big"

	"gitlab.com/aquachain/aquachain/consensus"
	"gitlab.com/aquachain/aquachain/core/types"
	"gitlab.com/aquachain/aquachain/params"
)

// VerifVerifyHeader exposes (*Aquahash).verifyHeader (the rule list, with the uncle flag).
func (aquahash *Aquahash) VerifVerifyHeader(chain consensus.ChainReader, header, parent, grandparent *types.Header, uncle bool, seal bool) error {
	return aquahash.verifyHeader(chain, header, parent, grandparent, uncle, seal)
}

// VerifCalcDifficultyHFX exposes calcDifficultyHFX.
func VerifCalcDifficultyHFX(config *params.ChainConfig, time uint64, parent, grandparent *types.Header) *big.Int {
	return calcDifficultyHFX(config, time, parent, grandparent)
}

// VerifFakeDifficultyMode reports whether the FAKEPOWTEST environment switch is on (the harness refuses to run then).
func VerifFakeDifficultyMode() bool { return fakedifficultymode }

// VerifSetMaxUint256 replaces the numerator of the proof-of-work target (the package variable maxUint256 = 2^256) and
// returns the previous value. The C14 harness uses it to place the target exactly on / next to a computed hash
// (target = N / difficulty with N chosen after hashing), which no choice of difficulty alone can achieve because the
// difficulty is part of the hashed header. Always restored by the caller.
func VerifSetMaxUint256(n *big.Int) *big.Int {
	old := maxUint256
	maxUint256 = n
	return old
}

package aquahash

// T-gen dump for Aqv.Gen.Supply (C05): the reward constants as the compiled package holds them, a behavioural probe table of
// accumulateRewards on a fresh StateDB (who is credited how much for which height / uncle set), the cut-off height found by
// bisection on the real function, and the HF4 de-allocation list.

import (
	"encoding/json"
	"fmt"
	"math/big"
	"sort"
	"testing"

	"gitlab.com/aquachain/aquachain/aquadb"
	"gitlab.com/aquachain/aquachain/common"
	"gitlab.com/aquachain/aquachain/consensus/misc"
	"gitlab.com/aquachain/aquachain/core/state"
	"gitlab.com/aquachain/aquachain/core/types"
	"gitlab.com/aquachain/aquachain/params"
)

func verifRewards(h int64, uncleNums []int64) [][2]string {
	st, err := state.New(common.Hash{}, state.NewDatabase(aquadb.NewMemDatabase()))
	if err != nil {
		panic(err)
	}
	miner := common.BigToAddress(big.NewInt(1000))
	var uncles []*types.Header
	for i, n := range uncleNums {
		uncles = append(uncles, &types.Header{Number: big.NewInt(n), Coinbase: common.BigToAddress(big.NewInt(int64(2000 + i)))})
	}
	accumulateRewards(params.TestChainConfig, st, &types.Header{Number: big.NewInt(h), Coinbase: miner}, uncles)
	out := [][2]string{}
	who := []int64{1000}
	for i := range uncleNums {
		who = append(who, int64(2000+i))
	}
	for _, w := range who {
		out = append(out, [2]string{fmt.Sprint(w), st.GetBalance(common.BigToAddress(big.NewInt(w))).String()})
	}
	return out
}

func TestVerifDumpSupply(t *testing.T) {
	type probe struct {
		H      int64       `json:"h"`
		Uncles []int64     `json:"uncles"`
		Paid   [][2]string `json:"paid"` // (account id, balance after); 1000 = miner, 2000+i = miner of uncle i
	}
	var probes []probe
	add := func(h int64, u ...int64) { probes = append(probes, probe{h, append([]int64{}, u...), verifRewards(h, u)}) }
	mm := params.MaxMoney.Int64()
	for _, h := range []int64{1, 9, 100, 22800, mm - 1, mm, mm + 1, 2 * mm} {
		add(h)
		if h >= 9 {
			add(h, h-1)
			add(h, h-2, h-7)
			add(h, h-6, h-8)
			add(h, h-1, h-1)
			add(h, h, h+1)
		}
	}
	// bisection: the smallest height at which a block without uncles pays nothing
	lo, hi := int64(0), int64(1)<<62
	paid := func(h int64) bool { return verifRewards(h, nil)[0][1] != "0" }
	if !paid(lo) || paid(hi) {
		t.Fatalf("reward schedule is not a cut-off: paid(0)=%v paid(2^62)=%v", paid(lo), paid(hi))
	}
	for hi-lo > 1 {
		mid := lo + (hi-lo)/2
		if paid(mid) {
			lo = mid
		} else {
			hi = mid
		}
	}
	dealloc := append([]string{}, misc.DeallocListHF4...)
	sort.Strings(dealloc)
	out := map[string]interface{}{
		"blockReward":  BlockReward.String(),
		"paramsReward": params.BlockReward.String(),
		"maxMoney":     params.MaxMoney.String(),
		"big8":         big8.String(),
		"big32":        big32.String(),
		"cutoff":       hi,
		"probes":       probes,
		"deallocCount": len(misc.DeallocListHF4),
		"deallocFirst": dealloc[0],
		"deallocLast":  dealloc[len(dealloc)-1],
	}
	b, _ := json.Marshal(out)
	fmt.Printf("VERIF-DUMP-BEGIN\n%s\nVERIF-DUMP-END\n", b)
}

package aquahash

// T-gen dump for Aqv.Gen.Pow (C13/C14): unexported consensus constants of package aquahash.

import (
	"encoding/json"
	"fmt"
	"testing"
)

func TestVerifDumpAquahash(t *testing.T) {
	out := map[string]interface{}{
		"maxUncles":              maxUncles,
		"maxUnclesHF5":           maxUnclesHF5,
		"allowedFutureBlockTime": int64(allowedFutureBlockTime.Seconds()),
		"epochLength":            epochLength,
		"maxEpoch":               maxEpoch,
		"maxUint256":             maxUint256.String(),
	}
	b, _ := json.Marshal(out)
	fmt.Printf("VERIF-DUMP-BEGIN\n%s\nVERIF-DUMP-END\n", b)
}

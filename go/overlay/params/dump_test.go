package params

// T-gen dump for Aqv.Gen.Params (C13/C14 and others): the fork maps of every built-in chain configuration and the
// difficulty / gas-limit / supply constants, read from the compiled package (not parsed from text).

import (
	"encoding/json"
	"fmt"
	"math/big"
	"sort"
	"testing"
)

type verifCfg struct {
	Name    string      `json:"name"`
	ChainId string      `json:"chainId"`
	Forks   [][2]string `json:"forks"` // (hf, height) sorted by hf; nil entries are omitted (IsHF treats them as absent)
	Engine  string      `json:"engine"`
}

func verifBig(x *big.Int) string {
	if x == nil {
		return "nil"
	}
	return x.String()
}

func TestVerifDumpParams(t *testing.T) {
	named := []struct {
		n string
		c *ChainConfig
	}{
		{"mainnet", MainnetChainConfig}, {"testnet", TestnetChainConfig}, {"testnet2", Testnet2ChainConfig},
		{"testnet3", Testnet3ChainConfig}, {"dev", AllAquahashProtocolChanges}, {"test", TestChainConfig},
	}
	var cfgs []verifCfg
	for _, nc := range named {
		v := verifCfg{Name: nc.n, ChainId: verifBig(nc.c.ChainId), Engine: nc.c.EngineName(), Forks: [][2]string{}}
		keys := []int{}
		for k, h := range nc.c.HF {
			if h != nil {
				keys = append(keys, k)
			}
		}
		sort.Ints(keys)
		for _, k := range keys {
			v.Forks = append(v.Forks, [2]string{fmt.Sprint(k), nc.c.HF[k].String()})
		}
		cfgs = append(cfgs, v)
	}
	// every config reachable through the registry must be one of the named ones (a new built-in network shows up here)
	extra := []string{}
	for _, c := range AllChainConfigs() {
		found := false
		for _, nc := range named {
			if nc.c == c {
				found = true
			}
		}
		if !found {
			extra = append(extra, verifBig(c.ChainId))
		}
	}
	out := map[string]interface{}{
		"configs":       cfgs,
		"unnamed":       extra,
		"knownHF":       KnownHF,
		"mainnetChainId": verifBig(MainnetChainConfig.ChainId),
		"big": map[string]string{
			"maxMoney":                         verifBig(MaxMoney),
			"blockReward":                      verifBig(BlockReward),
			"genesisDifficulty":                verifBig(GenesisDifficulty),
			"minimumDifficultyGenesis":         verifBig(MinimumDifficultyGenesis),
			"minimumDifficultyHF1":             verifBig(MinimumDifficultyHF1),
			"minimumDifficultyHF3":             verifBig(MinimumDifficultyHF3),
			"minimumDifficultyHF5":             verifBig(MinimumDifficultyHF5),
			"minimumDifficultyHF5Testnet":      verifBig(MinimumDifficultyHF5Testnet),
			"minimumDifficultyHF8Testnet":      verifBig(MinimumDifficultyHF8Testnet),
			"minimumDifficultyTestnet":         verifBig(MinimumDifficultyTestnet),
			"difficultyBoundDivisor":           verifBig(DifficultyBoundDivisor),
			"difficultyBoundDivisorHF5":        verifBig(DifficultyBoundDivisorHF5),
			"difficultyBoundDivisorHF6":        verifBig(DifficultyBoundDivisorHF6),
			"difficultyBoundDivisorHF8":        verifBig(DifficultyBoundDivisorHF8),
			"difficultyBoundDivisorHF8Testnet": verifBig(DifficultyBoundDivisorHF8Testnet),
			"difficultyBoundDivisorHF9":        verifBig(DifficultyBoundDivisorHF9),
			"durationLimit":                    verifBig(DurationLimit),
			"durationLimitHF6":                 verifBig(DurationLimitHF6),
		},
		"u64": map[string]uint64{
			"gasLimitBoundDivisor": GasLimitBoundDivisor,
			"minGasLimit":          MinGasLimit,
			"genesisGasLimit":      GenesisGasLimit,
			"maximumExtraDataSize": MaximumExtraDataSize,
			"epochDuration":        EpochDuration,
		},
	}
	b, err := json.Marshal(out)
	if err != nil {
		t.Fatal(err)
	}
	fmt.Printf("VERIF-DUMP-BEGIN\n%s\nVERIF-DUMP-END\n", b)
}

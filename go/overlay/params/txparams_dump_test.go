package params

// T-gen dump for Aqv.Gen.TxParams (C06, C05): the transaction gas constants and the Homestead/EIP158/Byzantium switch
// blocks of every built-in chain configuration, read from the compiled package.

import (
	"encoding/json"
	"fmt"
	"testing"
)

func TestVerifDumpTxParams(t *testing.T) {
	named := []struct {
		n string
		c *ChainConfig
	}{
		{"mainnet", MainnetChainConfig}, {"testnet", TestnetChainConfig}, {"testnet2", Testnet2ChainConfig},
		{"testnet3", Testnet3ChainConfig}, {"dev", AllAquahashProtocolChanges}, {"test", TestChainConfig},
	}
	type sw struct {
		Name      string `json:"name"`
		Homestead string `json:"homestead"`
		EIP158    string `json:"eip158"`
		Byzantium string `json:"byzantium"`
	}
	b2s := func(x interface{ String() string }, isnil bool) string {
		if isnil {
			return "nil"
		}
		return x.String()
	}
	var sws []sw
	for _, nc := range named {
		sws = append(sws, sw{nc.n, b2s(nc.c.HomesteadBlock, nc.c.HomesteadBlock == nil), b2s(nc.c.EIP158Block, nc.c.EIP158Block == nil),
			b2s(nc.c.ByzantiumBlock, nc.c.ByzantiumBlock == nil)})
	}
	extra := 0
	for _, c := range AllChainConfigs() {
		found := false
		for _, nc := range named {
			if nc.c == c {
				found = true
			}
		}
		if !found {
			extra++
		}
	}
	out := map[string]interface{}{
		"switches": sws,
		"unnamed":  extra,
		"u64": map[string]uint64{
			"txGas":                 TxGas,
			"txGasContractCreation": TxGasContractCreation,
			"txDataZeroGas":         TxDataZeroGas,
			"txDataNonZeroGas":      TxDataNonZeroGas,
			"callCreateDepth":       CallCreateDepth,
			"createDataGas":         CreateDataGas,
			"maxCodeSize":           MaxCodeSize,
			"sstoreRefundGas":       SstoreRefundGas,
			"suicideRefundGas":      SuicideRefundGas,
		},
	}
	b, _ := json.Marshal(out)
	fmt.Printf("VERIF-DUMP-BEGIN\n%s\nVERIF-DUMP-END\n", b)
}

package params

import (
	"encoding/json"
	"fmt"
	"sort"
	"testing"
)

// TestVerifDumpCliqueNets (C18, T-gen): for every chain configuration in the package's registry (chainNames), whether
// aqua.CreateConsensusEngine's clique guard `chainConfig.Clique != nil` holds.
func TestVerifDumpCliqueNets(t *testing.T) {
	type row struct {
		Name   string `json:"name"`
		Clique bool   `json:"clique"`
	}
	var rows []row
	for n, c := range chainNames {
		rows = append(rows, row{n, c != nil && c.Clique != nil})
	}
	sort.Slice(rows, func(i, j int) bool { return rows[i].Name < rows[j].Name })
	b, _ := json.Marshal(map[string]interface{}{"rows": rows})
	fmt.Printf("VERIF-DUMP-BEGIN\n%s\nVERIF-DUMP-END\n", b)
}

package node

import (
	"gitlab.com/aquachain/aquachain/common/log"
	"gitlab.com/aquachain/aquachain/internal/debug"
	"gitlab.com/aquachain/aquachain/rpc"
)

// VerifInitLogging does what the aquachain binary does at start-up (internal/debug Setup): it installs the glog handler
// behind debug_verbosity / debug_vmodule — here over a discarding sink.
func VerifInitLogging() {
	g := log.NewGlogHandler(log.DiscardHandler())
	g.Verbosity(log.LvlCrit)
	debug.SetGlogger(g)
	log.SetRootHandler(g)
}

// VerifHandlers returns the four per-transport RPC servers of a started node (nil when a transport is disabled)
// and the addresses the HTTP / WS listeners are actually bound to (C18 harness accessor).
func VerifHandlers(n *Node) (inproc, ipc, http, ws *rpc.Server, httpAddr, wsAddr string) {
	n.lock.RLock()
	defer n.lock.RUnlock()
	if n.httpListener != nil {
		httpAddr = n.httpListener.Addr().String()
	}
	if n.wsListener != nil {
		wsAddr = n.wsListener.Addr().String()
	}
	return n.inprocHandler, n.ipcHandler, n.httpHandler, n.wsHandler, httpAddr, wsAddr
}

// VerifStopProfiling ends a Go trace / CPU profile that an RPC call (debug_startGoTrace, debug_startCPUProfile) left running.
func VerifStopProfiling() {
	debug.Handler.StopGoTrace()
	debug.Handler.StopCPUProfile()
}

package trie

// Accessors for the C10 correspondence harness (injected with -overlay; /repo is not modified).

import (
	"encoding/hex"
	"strings"

	"gitlab.com/aquachain/aquachain/common"
)

func VerifKeybytesToHex(b []byte) []byte { return keybytesToHex(b) }
func VerifHexToCompact(h []byte) []byte  { return hexToCompact(h) }
func VerifCompactToHex(c []byte) []byte  { return compactToHex(c) }
func VerifHexToKeybytes(h []byte) []byte { return hexToKeybytes(h) }
func VerifEmptyRoot() common.Hash        { return emptyRoot }

func verifHex(b []byte) string {
	if len(b) == 0 {
		return "-"
	}
	return hex.EncodeToString(b)
}

func verifRender(n node) string {
	switch n := n.(type) {
	case nil:
		return "n"
	case valueNode:
		return "v" + verifHex(n)
	case hashNode:
		return "h" + verifHex(n)
	case *shortNode:
		return "s" + verifHex(n.Key) + "(" + verifRender(n.Val) + ")"
	case *fullNode:
		parts := make([]string, 17)
		for i, c := range n.Children {
			parts[i] = verifRender(c)
		}
		return "f[" + strings.Join(parts, ",") + "]"
	}
	return "?"
}

// VerifDecodeNode runs decodeNode and renders the result ("ok <node>" | "err").
func VerifDecodeNode(buf []byte) string {
	n, err := decodeNode(nil, buf, 0)
	if err != nil {
		return "err"
	}
	return "ok " + verifRender(n)
}

// VerifRootShape renders the in-memory root of a trie (hash nodes stay unresolved).
func VerifRootShape(t *Trie) string { return verifRender(t.root) }

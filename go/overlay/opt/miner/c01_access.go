// Injected into package opt/miner at harness build time (go build -overlay); /repo is not modified.
// Drives worker.commitNewWork synchronously (no goroutines, no agents) so that the C01 harness can take the block the
// node's own block-building path assembles and feed it to the import path of another node.
package miner

import (
	"gitlab.com/aquachain/aquachain/aqua/accounts"
	"gitlab.com/aquachain/aquachain/aqua/event"
	"gitlab.com/aquachain/aquachain/aquadb"
	"gitlab.com/aquachain/aquachain/common"
	"gitlab.com/aquachain/aquachain/consensus"
	"gitlab.com/aquachain/aquachain/core"
	"gitlab.com/aquachain/aquachain/core/state"
	"gitlab.com/aquachain/aquachain/core/types"
	"gitlab.com/aquachain/aquachain/params"
)

type verifC01Backend struct {
	bc   *core.BlockChain
	pool *core.TxPool
	db   aquadb.Database
}

func (b *verifC01Backend) AccountManager() *accounts.Manager { return nil }
func (b *verifC01Backend) BlockChain() *core.BlockChain      { return b.bc }
func (b *verifC01Backend) TxPool() *core.TxPool              { return b.pool }
func (b *verifC01Backend) ChainDb() aquadb.Database          { return b.db }

// VerifC01CommitWork runs worker.commitNewWork on top of bc's current head with the pool's pending transactions and
// the given possible uncles, and returns the assembled (unsealed) block, its receipts and the post state.
func VerifC01CommitWork(config *params.ChainConfig, engine consensus.Engine, bc *core.BlockChain, pool *core.TxPool, db aquadb.Database,
	coinbase common.Address, extra []byte, uncles []*types.Block) (*types.Block, types.Receipts, *state.StateDB) {
	be := &verifC01Backend{bc, pool, db}
	w := &worker{
		config:         config,
		engine:         engine,
		aqua:           be,
		mux:            new(event.TypeMux),
		chainDb:        db,
		recv:           make(chan *Result, resultQueueSize),
		chain:          bc,
		proc:           bc.Validator(),
		possibleUncles: make(map[common.Hash]*types.Block),
		coinbase:       coinbase,
		extra:          extra,
		agents:         make(map[Agent]struct{}),
		unconfirmed:    newUnconfirmedBlocks(bc, miningLogAtDepth),
		mining:         1,
	}
	for _, u := range uncles {
		w.possibleUncles[u.Hash()] = u
	}
	w.commitNewWork()
	if w.current == nil || w.current.Block == nil {
		return nil, nil, nil
	}
	return w.current.Block, w.current.receipts, w.current.state
}

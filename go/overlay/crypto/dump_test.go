package crypto

// T-gen dump for Aqv.Gen.Pow (C14): the argon2id parameters behind VersionHash(2|3|4, ·), recovered behaviourally —
// the (time, memory KiB, threads) triple of golang.org/x/crypto/argon2.IDKey that reproduces VersionHash on probe inputs —
// and the fact that version 1 is Keccak-256.

import (
	"bytes"
	"encoding/json"
	"fmt"
	"testing"

	"golang.org/x/crypto/argon2"
)

func TestVerifDumpPow(t *testing.T) {
	probes := [][]byte{{}, []byte("verif-probe-1"), bytes.Repeat([]byte{0xa5}, 40)}
	type triple struct {
		Version int    `json:"version"`
		Time    uint32 `json:"time"`
		Mem     uint32 `json:"mem"`
		Threads uint8  `json:"threads"`
		Matches int    `json:"matches"`
	}
	var res []triple
	for v := 2; v <= KnownVersion; v++ {
		want := make([][]byte, len(probes))
		for i, p := range probes {
			want[i] = VersionHash(byte(v), p)
		}
		found := triple{Version: v}
		for tm := uint32(1); tm <= 3; tm++ {
			for mem := uint32(1); mem <= 96; mem++ {
				for th := uint8(1); th <= 2; th++ {
					ok := true
					for i, p := range probes {
						if !bytes.Equal(argon2.IDKey(p, nil, tm, mem, th, 32), want[i]) {
							ok = false
							break
						}
					}
					if ok {
						found.Time, found.Mem, found.Threads = tm, mem, th
						found.Matches++
					}
				}
			}
		}
		res = append(res, found)
	}
	keccak := true
	for _, p := range probes {
		if !bytes.Equal(VersionHash(1, p), Keccak256(p)) {
			keccak = false
		}
	}
	// multi-slice input is hashed as the concatenation
	concat := bytes.Equal(VersionHash(2, []byte("ab"), []byte("cd")), VersionHash(2, []byte("abcd")))
	out := map[string]interface{}{"argon": res, "v1IsKeccak": keccak, "knownVersion": KnownVersion, "concat": concat}
	b, _ := json.Marshal(out)
	fmt.Printf("VERIF-DUMP-BEGIN\n%s\nVERIF-DUMP-END\n", b)
}

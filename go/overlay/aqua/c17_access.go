// Accessor file injected into package aqua at harness build time (go build -overlay); /repo itself is not modified.
// Gives the C17 harness the real ProtocolManager.handleMsg / peer.readStatus behind a stub transport, over a small real
// chain (fake PoW), plus valid payloads of every message code built from the package's own wire types.
package aqua

import (
	"bytes"
	"context"
	"errors"
	"io"
	"io/ioutil"
	"math/big"
	"strings"
	"sync/atomic"

	"gitlab.com/aquachain/aquachain/aqua/downloader"
	"gitlab.com/aquachain/aquachain/aqua/event"
	"gitlab.com/aquachain/aquachain/aquadb"
	"gitlab.com/aquachain/aquachain/common"
	"gitlab.com/aquachain/aquachain/consensus/aquahash"
	"gitlab.com/aquachain/aquachain/core"
	"gitlab.com/aquachain/aquachain/core/types"
	"gitlab.com/aquachain/aquachain/core/vm"
	"gitlab.com/aquachain/aquachain/crypto"
	"gitlab.com/aquachain/aquachain/p2p"
	"gitlab.com/aquachain/aquachain/p2p/discover"
	"gitlab.com/aquachain/aquachain/params"
	"gitlab.com/aquachain/aquachain/rlp"
)

const VerifProtocolMaxMsgSize = ProtocolMaxMsgSize

// verifRW is the stub transport: ReadMsg yields the queued message once, WriteMsg drains and counts.
type verifRW struct {
	next    *p2p.Msg
	Written int
	Bytes   int64
}

func (rw *verifRW) ReadMsg() (p2p.Msg, error) {
	if rw.next == nil {
		return p2p.Msg{}, io.EOF
	}
	m := *rw.next
	rw.next = nil
	return m, nil
}
func (rw *verifRW) WriteMsg(m p2p.Msg) error {
	n, _ := io.Copy(ioutil.Discard, m.Payload)
	rw.Written++
	rw.Bytes += n
	return nil
}

type verifPool struct{ feed event.Feed }

func (p *verifPool) AddRemotes(txs []*types.Transaction) []error { return make([]error, len(txs)) }
func (p *verifPool) Pending() (map[common.Address]types.Transactions, error) {
	return map[common.Address]types.Transactions{}, nil
}
func (p *verifPool) SubscribeTxPreEvent(ch chan<- core.TxPreEvent) event.Subscription {
	return p.feed.Subscribe(ch)
}

// VerifPM is a ProtocolManager over a small chain with one stub peer.
type VerifPM struct {
	pm      *ProtocolManager
	p       *peer
	rw      *verifRW
	chain   []*types.Block
	genesis *types.Block
	key     interface{}
}

// VerifNewPM builds the manager (full sync mode, fetcher running, transactions accepted).
func VerifNewPM(blocks int) (*VerifPM, error) {
	bankKey, _ := crypto.HexToBtcec("b71c71a67e1177ad4e901695e1b4b9ee17ae16c6668d313eac2f96dbcda3f291")
	bank := crypto.PubkeyToAddress(bankKey.PubKey())
	var (
		evmux  = new(event.TypeMux)
		engine = aquahash.NewFaker()
		db     = aquadb.NewMemDatabase()
		gspec  = &core.Genesis{Config: params.TestChainConfig, Alloc: core.GenesisAlloc{bank: {Balance: big.NewInt(1000000000)}}}
	)
	genesis := gspec.MustCommit(db)
	blockchain, err := core.NewBlockChain(context.TODO(), db, nil, gspec.Config, engine, vm.Config{})
	if err != nil {
		return nil, err
	}
	signer := types.HomesteadSigner{}
	chain, _ := core.GenerateChain(context.TODO(), gspec.Config, genesis, aquahash.NewFaker(), db, blocks, func(i int, b *core.BlockGen) {
		for j := 0; j < i%3; j++ {
			tx, _ := types.SignTx(types.NewTransaction(b.TxNonce(bank), common.Address{byte(i), byte(j), 7}, big.NewInt(1000), params.TxGas, nil, nil), signer, bankKey)
			b.AddTx(tx)
		}
	})
	if blocks != 0 {
		if _, err := blockchain.InsertChain(chain); err != nil {
			return nil, err
		}
	}
	pm, err := NewProtocolManager(gspec.Config, downloader.FullSync, DefaultConfig.ChainId, evmux, &verifPool{}, engine, blockchain, db)
	if err != nil {
		return nil, err
	}
	if pm == nil {
		return nil, errors.New("verif: no protocol manager")
	}
	pm.fetcher.Start()
	pm.maxPeers = 1000
	atomic.StoreUint32(&pm.acceptTxs, 1)
	rw := &verifRW{}
	var id discover.NodeID
	id[0], id[1] = 0x17, 0x42
	p := pm.newPeer(int(ProtocolVersions[0]), p2p.NewPeer(id, "verif", nil), rw)
	// what Handshake stores after a successful status exchange
	p.td, p.head = big.NewInt(1), genesis.Hash()
	return &VerifPM{pm: pm, p: p, rw: rw, chain: chain, genesis: genesis}, nil
}

func (v *VerifPM) Close() { v.pm.fetcher.Stop() }

// HandleMsg runs the real handleMsg on one message. Returns the error and how many replies were written.
func (v *VerifPM) HandleMsg(code uint64, size uint32, payload []byte) (err error, replies int) {
	v.rw.next = &p2p.Msg{Code: code, Size: size, Payload: bytes.NewReader(payload)}
	v.rw.Written = 0
	err = v.pm.handleMsg(v.p)
	return err, v.rw.Written
}

// ReadStatus runs the real peer.readStatus (the reading half of Handshake) on one message.
func (v *VerifPM) ReadStatus(code uint64, size uint32, payload []byte) error {
	v.rw.next = &p2p.Msg{Code: code, Size: size, Payload: bytes.NewReader(payload)}
	var st statusData
	return v.p.readStatus(v.pm.networkId, &st, v.genesis.Hash())
}

// VerifClass maps a handler error to the small class enum shared with the model.
func VerifClass(err error) string {
	if err == nil {
		return "ok"
	}
	s := err.Error()
	switch {
	case strings.HasPrefix(s, errCode(ErrMsgTooLarge).String()+" - "):
		return "toolarge"
	case strings.HasPrefix(s, errCode(ErrExtraStatusMsg).String()+" - "):
		return "extrastatus"
	case strings.HasPrefix(s, errCode(ErrInvalidMsgCode).String()+" - "):
		return "badcode"
	case strings.HasPrefix(s, errCode(ErrNoStatusMsg).String()+" - "):
		return "nostatus"
	case strings.HasPrefix(s, errCode(ErrGenesisBlockMismatch).String()+" - "), strings.HasPrefix(s, errCode(ErrNetworkIdMismatch).String()+" - "),
		strings.HasPrefix(s, errCode(ErrProtocolVersionMismatch).String()+" - "):
		return "mismatch"
	default:
		return "decode"
	}
}

// Decodes reports whether the payload decodes into the wire type of the message code exactly the way handleMsg
// decodes it (rlp stream limited to msg.Size; streaming list of hashes for the three Get* requests).
func (v *VerifPM) Decodes(code uint64, size uint32, payload []byte) bool {
	msg := p2p.Msg{Code: code, Size: size, Payload: bytes.NewReader(payload)}
	hashes := func() bool {
		s := rlp.NewStream(msg.Payload, uint64(msg.Size))
		if _, err := s.List(); err != nil {
			return false
		}
		var h common.Hash
		for {
			if err := s.Decode(&h); err == rlp.EOL {
				return true
			} else if err != nil {
				return false
			}
		}
	}
	switch code {
	case GetBlockHeadersMsg:
		var q getBlockHeadersData
		return msg.Decode(&q) == nil
	case BlockHeadersMsg:
		var h []*types.Header
		return msg.Decode(&h) == nil
	case GetBlockBodiesMsg, GetNodeDataMsg, GetReceiptsMsg:
		return hashes()
	case BlockBodiesMsg:
		var r blockBodiesData
		return msg.Decode(&r) == nil
	case NodeDataMsg:
		var d [][]byte
		return msg.Decode(&d) == nil
	case ReceiptsMsg:
		var r [][]*types.Receipt
		return msg.Decode(&r) == nil
	case NewBlockHashesMsg:
		var a newBlockHashesData
		return msg.Decode(&a) == nil
	case NewBlockMsg:
		var r newBlockData
		return msg.Decode(&r) == nil
	case TxMsg:
		var txs []*types.Transaction
		return msg.Decode(&txs) == nil
	case StatusMsg:
		var st statusData
		return msg.Decode(&st) == nil
	}
	return false
}

// ValidPayload returns a well-formed payload for the message code, built from the chain; pick(n) chooses in [0,n).
func (v *VerifPM) ValidPayload(code uint64, pick func(int) int) []byte {
	blk := func() *types.Block { return v.chain[pick(len(v.chain))] }
	hashes := func() []common.Hash {
		var hs []common.Hash
		for i := pick(6); i >= 0; i-- {
			if pick(3) == 0 {
				hs = append(hs, common.Hash{byte(pick(256)), 1})
			} else {
				hs = append(hs, blk().Hash())
			}
		}
		return hs
	}
	var val interface{}
	switch code {
	case StatusMsg:
		val = &statusData{ProtocolVersion: uint32(v.p.version), ChainId: v.pm.networkId, TD: big.NewInt(int64(pick(1 << 30))), CurrentBlock: blk().Hash(), GenesisBlock: v.genesis.Hash()}
	case NewBlockHashesMsg:
		a := make(newBlockHashesData, 1+pick(4))
		for i := range a {
			b := blk()
			a[i].Hash, a[i].Number = b.Hash(), b.NumberU64()
			if pick(3) == 0 {
				a[i].Hash[0] ^= 0xff
			}
		}
		val = a
	case TxMsg:
		var txs types.Transactions
		for i := pick(3); i >= 0; i-- {
			txs = append(txs, blk().Transactions()...)
		}
		val = txs
	case GetBlockHeadersMsg:
		q := &getBlockHeadersData{Amount: uint64(pick(300)), Skip: uint64(pick(5)), Reverse: pick(2) == 0}
		switch pick(4) {
		case 0:
			q.Origin.Hash = blk().Hash()
		case 1:
			q.Origin.Number = uint64(pick(len(v.chain) + 3))
		case 2:
			q.Origin.Hash, q.Skip = blk().Hash(), ^uint64(0)-uint64(pick(3))
		default:
			q.Origin.Number, q.Skip = uint64(pick(len(v.chain))), ^uint64(0)-uint64(pick(3))
		}
		val = q
	case BlockHeadersMsg:
		var hs []*types.Header
		for i := pick(4); i > 0; i-- {
			hs = append(hs, blk().Header())
		}
		val = hs
	case GetBlockBodiesMsg, GetNodeDataMsg, GetReceiptsMsg:
		if code == GetNodeDataMsg && pick(2) == 0 {
			val = []common.Hash{blk().Root(), blk().Root()}
		} else {
			val = hashes()
		}
	case BlockBodiesMsg:
		var bs blockBodiesData
		for i := pick(3); i >= 0; i-- {
			b := blk()
			bs = append(bs, &blockBody{Transactions: b.Transactions(), Uncles: b.Uncles()})
		}
		val = bs
	case NodeDataMsg:
		val = [][]byte{{1, 2, 3}, {}, bytes.Repeat([]byte{9}, pick(100))}
	case ReceiptsMsg:
		var rs [][]*types.Receipt
		for i := pick(3); i >= 0; i-- {
			rs = append(rs, v.pm.blockchain.GetReceiptsByHash(blk().Hash()))
		}
		val = rs
	case NewBlockMsg:
		b := blk()
		val = &newBlockData{Block: b, TD: big.NewInt(int64(pick(1 << 30)))}
	default:
		val = []uint{uint(pick(100))}
	}
	out, err := rlp.EncodeToBytes(val)
	if err != nil {
		panic("verif: cannot encode valid payload: " + err.Error())
	}
	return out
}

// ---- stalling peers ----

const VerifHandshakeTimeout = handshakeTimeout

// VerifStallRW is a transport whose reads and writes can be withheld: ReadMsg delivers the messages put on In and
// returns io.EOF once In is closed; WriteMsg completes only while Accept is true (otherwise it blocks until Release).
type VerifStallRW struct {
	In      chan p2p.Msg
	Accept  bool
	release chan struct{}
	Wrote   chan uint64 // codes of completed writes (buffered)
}

func VerifNewStallRW(acceptWrites bool) *VerifStallRW {
	return &VerifStallRW{In: make(chan p2p.Msg, 4), Accept: acceptWrites, release: make(chan struct{}), Wrote: make(chan uint64, 64)}
}
func (rw *VerifStallRW) ReadMsg() (p2p.Msg, error) {
	m, ok := <-rw.In
	if !ok {
		return p2p.Msg{}, io.EOF
	}
	return m, nil
}
func (rw *VerifStallRW) WriteMsg(m p2p.Msg) error {
	if !rw.Accept {
		<-rw.release
		return errors.New("verif: connection released")
	}
	io.Copy(ioutil.Discard, m.Payload)
	select {
	case rw.Wrote <- m.Code:
	default:
	}
	return nil
}

// Release unblocks everything that is still waiting on the transport (after the judgement was taken).
func (rw *VerifStallRW) Release() {
	defer func() { recover() }()
	close(rw.release)
	close(rw.In)
}

func (v *VerifPM) stallPeer(rw p2p.MsgReadWriter, tag byte) *peer {
	var id discover.NodeID
	id[0], id[1], id[2] = 0x57, tag, 0x01
	return v.pm.newPeer(int(ProtocolVersions[int(tag)%len(ProtocolVersions)]), p2p.NewPeer(id, "verif-stall", nil), rw)
}

// Handle runs the real ProtocolManager.handle (status handshake, registration, message loop) for a fresh peer on rw.
func (v *VerifPM) Handle(rw p2p.MsgReadWriter, tag byte) error {
	return v.pm.handle(v.stallPeer(rw, tag))
}

// Handshake runs the real peer.Handshake with the manager's own chain parameters.
func (v *VerifPM) Handshake(rw p2p.MsgReadWriter, tag byte) error {
	head := v.pm.blockchain.CurrentHeader()
	td := v.pm.blockchain.GetTd(head.Hash(), head.Number.Uint64())
	return v.stallPeer(rw, tag).Handshake(v.pm.networkId, td, head.Hash(), v.genesis.Hash())
}

// StatusFor returns a well-formed Status payload for the protocol version the stall peer with this tag speaks.
func (v *VerifPM) StatusFor(tag byte) []byte {
	b, err := rlp.EncodeToBytes(&statusData{ProtocolVersion: uint32(ProtocolVersions[int(tag)%len(ProtocolVersions)]), ChainId: v.pm.networkId,
		TD: big.NewInt(12345), CurrentBlock: v.genesis.Hash(), GenesisBlock: v.genesis.Hash()})
	if err != nil {
		panic(err)
	}
	return b
}

package event

// Variant used when the tree under test carries the `verif` yield hook (aqua/event/feed_verif.go).

// VerifSetYield installs the scheduler callback; reports whether yield points exist in this build.
func VerifSetYield(fn func(point int)) bool {
	VerifYieldFn = fn
	return true
}

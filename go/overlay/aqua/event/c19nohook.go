package event

// Variant used when the tree under test has no yield hook: the harness then relies on runtime schedules
// perturbed at its own call boundaries only.

// VerifSetYield reports that no yield points exist in this build.
func VerifSetYield(fn func(point int)) bool { return false }

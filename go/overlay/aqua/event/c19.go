package event

// Accessors for the C19 harness (injected with -overlay; /repo is not modified).

// VerifFeedChans returns the channels currently held in f.sendCases[1:] and f.inbox.
// Only meaningful at quiescence (no Send/Subscribe/Unsubscribe in progress).
func VerifFeedChans(f *Feed) (sendCases []interface{}, inbox []interface{}) {
	f.mu.Lock()
	defer f.mu.Unlock()
	for i, c := range f.sendCases {
		if i < firstSubSendCase {
			continue
		}
		sendCases = append(sendCases, c.Chan.Interface())
	}
	for _, c := range f.inbox {
		inbox = append(inbox, c.Chan.Interface())
	}
	return
}

// VerifFeedTokenFree reports whether the sendLock token is available (true for a feed that was never used).
func VerifFeedTokenFree(f *Feed) bool {
	if f.sendLock == nil {
		return true
	}
	return len(f.sendLock) == 1
}

// Accessor file injected into package downloader at harness build time (go build -overlay); /repo itself is not modified.
// Gives the C17 harness a real skeleton-fill queue (newQueue / ScheduleSkeleton / ReserveHeaders / DeliverHeaders) fed
// with header batches that went through RLP decoding exactly as ProtocolManager.handleMsg hands them over
// (Header.Version unset), plus body / receipt deliveries against scheduled blocks.
package downloader

import (
	"math/big"

	"gitlab.com/aquachain/aquachain/common"
	"gitlab.com/aquachain/aquachain/common/log"
	"gitlab.com/aquachain/aquachain/core/types"
	"gitlab.com/aquachain/aquachain/params"
	"gitlab.com/aquachain/aquachain/rlp"
)

var VerifMaxHeaderFetch = MaxHeaderFetch

// VerifChain builds n+1 linked headers numbered 0..n (hash version 1 = keccak for every height).
func VerifChain(n int) []*types.Header {
	chain := make([]*types.Header, 0, n+1)
	parent := common.Hash{}
	for i := 0; i <= n; i++ {
		h := &types.Header{ParentHash: parent, Number: big.NewInt(int64(i)), Difficulty: big.NewInt(131072), Time: big.NewInt(int64(1000 + 10*i)),
			GasLimit: 4700000, Extra: []byte{byte(i), byte(i >> 8)}, UncleHash: types.EmptyUncleHash, TxHash: types.EmptyRootHash, ReceiptHash: types.EmptyRootHash}
		parent = h.SetVersion(1)
		chain = append(chain, h)
	}
	return chain
}

// VerifWire encodes headers as a BlockHeaders payload.
func VerifWire(hs []*types.Header) []byte {
	b, err := rlp.EncodeToBytes(hs)
	if err != nil {
		panic(err)
	}
	return b
}

// VerifQueue is a real queue with a scheduled skeleton.
type VerifQueue struct {
	q      *queue
	procCh chan []*types.Header
}

// VerifNewQueue schedules a skeleton of `batches` fill tasks starting at block `from` over chain (skeleton header i is
// the last header of batch i, as Downloader.fillHeaderSkeleton schedules it).
func VerifNewQueue(chain []*types.Header, from uint64, batches int) *VerifQueue {
	q := newQueue(func(*big.Int) params.HeaderVersion { return 1 })
	var skeleton []*types.Header
	for i := 0; i < batches; i++ {
		skeleton = append(skeleton, types.CopyHeader(chain[int(from)+(i+1)*MaxHeaderFetch-1]))
	}
	q.ScheduleSkeleton(from, skeleton)
	return &VerifQueue{q: q, procCh: make(chan []*types.Header, 16)}
}

// Reserve is ReserveHeaders for a peer; returns the first block number of the batch the peer is asked for.
func (v *VerifQueue) Reserve(peer string) (uint64, bool) {
	r := v.q.ReserveHeaders(newPeerConnection(peer, 64, nil, log.New()), MaxHeaderFetch)
	if r == nil {
		return 0, false
	}
	return r.From, true
}

// Deliver decodes a BlockHeaders payload the way handleMsg does (msg.Decode(&headers)) and hands it to DeliverHeaders.
func (v *VerifQueue) Deliver(peer string, payload []byte) (accepted int, decodeErr, err error) {
	var headers []*types.Header
	if derr := rlp.DecodeBytes(payload, &headers); derr != nil {
		return 0, derr, nil
	}
	n, err := v.q.DeliverHeaders(peer, headers, v.procCh)
	return n, nil, err
}

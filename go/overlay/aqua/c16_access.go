// Accessor file injected into package aqua at harness build time (go build -overlay); /repo itself is not modified.
// Gives the C16 harness the REAL bloom indexer backend (BloomIndexer.Reset/Process/Commit), the REAL retrieval goroutines
// (startBloomHandlers) and the REAL AquaApiBackend.BloomStatus/ServiceFilter without starting a full node.
package aqua

import (
	"context"

	"gitlab.com/aquachain/aquachain/aquadb"
	"gitlab.com/aquachain/aquachain/core"
	"gitlab.com/aquachain/aquachain/core/bloombits"
	"gitlab.com/aquachain/aquachain/params"
)

// VerifBloomBackend returns the chain indexer backend NewBloomIndexer wraps (so that a test hook can be put around it).
func VerifBloomBackend(db aquadb.Database, size uint64) *BloomIndexer {
	return &BloomIndexer{db: db, size: size}
}

// VerifBloomNode is the part of an Aquachain node that serves bloom-bits retrievals.
type VerifBloomNode struct{ aq *Aquachain }

// VerifNewBloomNode wires a chain indexer to the retrieval handlers exactly as aqua.New does and starts the handlers.
func VerifNewBloomNode(cfg *params.ChainConfig, db aquadb.Database, indexer *core.ChainIndexer) *VerifBloomNode {
	aq := &Aquachain{
		chainConfig:   cfg,
		chainDb:       db,
		shutdownChan:  make(chan bool),
		bloomRequests: make(chan chan *bloombits.Retrieval),
		bloomIndexer:  indexer,
	}
	aq.startBloomHandlers()
	return &VerifBloomNode{aq}
}

func (n *VerifBloomNode) Close() { close(n.aq.shutdownChan) }
func (n *VerifBloomNode) BloomStatus() (uint64, uint64) {
	return (&AquaApiBackend{aqua: n.aq}).BloomStatus()
}
func (n *VerifBloomNode) ServiceFilter(ctx context.Context, session *bloombits.MatcherSession) {
	(&AquaApiBackend{aqua: n.aq}).ServiceFilter(ctx, session)
}

package keystore

import "gitlab.com/aquachain/aquachain/common"

// VerifIsUnlocked reports whether the key of addr is currently held decrypted (C18 harness accessor).
func VerifIsUnlocked(ks *KeyStore, addr common.Address) bool {
	ks.mu.RLock()
	defer ks.mu.RUnlock()
	_, ok := ks.unlocked[addr]
	return ok
}

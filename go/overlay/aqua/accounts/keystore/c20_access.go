package keystore

// C20 accessor (injected with -overlay; /repo is not modified).
// VerifAbstract shows a key file exactly as DecryptKey's three json.Unmarshal calls see it: the generic map (only the
// dynamic type of "version" matters), encryptedKeyJSONV1 and encryptedKeyJSONV3.  No decision is taken here; the
// dispatch on the version and everything after it is the model's job.

import "encoding/json"

type VerifKeyFile struct {
	JSONOk      bool
	VerTopIsStr bool
	VerTop      string
	V1Ok, V3Ok  bool
	Version3    int
	Address, Id string
	Cipher      string
	CipherText  string
	IV          string
	KDF         string
	MAC         string
	KDFParams   map[string]interface{}
}

func VerifAbstract(keyjson []byte) VerifKeyFile {
	var out VerifKeyFile
	m := make(map[string]interface{})
	if err := json.Unmarshal(keyjson, &m); err != nil {
		return out
	}
	out.JSONOk = true
	out.VerTop, out.VerTopIsStr = m["version"].(string)
	k1 := new(encryptedKeyJSONV1)
	out.V1Ok = json.Unmarshal(keyjson, k1) == nil
	k3 := new(encryptedKeyJSONV3)
	out.V3Ok = json.Unmarshal(keyjson, k3) == nil
	out.Version3 = k3.Version
	c, addr, id := k3.Crypto, k3.Address, k3.Id
	if out.V1Ok && !out.V3Ok {
		c, addr, id = k1.Crypto, k1.Address, k1.Id
	}
	out.Address, out.Id = addr, id
	out.Cipher, out.CipherText, out.IV, out.KDF, out.MAC, out.KDFParams = c.Cipher, c.CipherText, c.CipherParams.IV, c.KDF, c.MAC, c.KDFParams
	return out
}

// Accessor file injected into package filters at harness build time (go build -overlay); /repo itself is not modified.
package filters

import (
	"gitlab.com/aquachain/aquachain/common"
	"gitlab.com/aquachain/aquachain/core/types"
)

// VerifBloomFilter exposes bloomFilter.
func VerifBloomFilter(bloom types.Bloom, addresses []common.Address, topics [][]common.Hash) bool {
	return bloomFilter(bloom, addresses, topics)
}

// VerifFilterLogs exposes filterLogs with nil block bounds (as every call site in Filter uses it).
func VerifFilterLogs(logs []*types.Log, addresses []common.Address, topics [][]common.Hash) []*types.Log {
	return filterLogs(logs, nil, nil, addresses, topics)
}

// Package chainx builds random block trees with the repository's own block builder (core.GenerateChain on a fake-PoW
// engine) and imports them into fresh chains. Shared by the chain-level harnesses (C01..C04).
package chainx

import (
	"context"
	"fmt"
	"math/big"

	"gitlab.com/aquachain/aquachain/aquadb"
	"gitlab.com/aquachain/aquachain/common"
	"gitlab.com/aquachain/aquachain/common/log"
	"gitlab.com/aquachain/aquachain/consensus/aquahash"
	"gitlab.com/aquachain/aquachain/core"
	"gitlab.com/aquachain/aquachain/core/types"
	"gitlab.com/aquachain/aquachain/core/vm"
	"gitlab.com/aquachain/aquachain/crypto"
	"gitlab.com/aquachain/aquachain/params"
	"verifharness/hx"

	"github.com/btcsuite/btcd/btcec/v2"
)

// Node is one block of the tree. ID 0 is the genesis block.
type Node struct {
	ID       int
	Parent   int
	Block    *types.Block
	Receipts types.Receipts
	Children []int
	TxIDs    []int // indices into Tree.Txs of the transactions in this block
}

type Tree struct {
	Cfg     *params.ChainConfig
	Gspec   *core.Genesis
	Nodes   []*Node
	ByHash  map[common.Hash]int
	Keys    []*btcec.PrivateKey
	Addrs   []common.Address
	Txs     []*types.Transaction // every distinct transaction used in the tree
	txIndex map[common.Hash]int
	gendb   aquadb.Database // holds the state of every generated block
	Signer  types.Signer
	Opts    Opts
	// Contracts lists every contract address created on any branch (WithContracts only).
	Contracts []common.Address
}

type Opts struct {
	WithTxs    bool  // blocks carry value transfers (same tx may be mined on sibling branches)
	MinOffset  int64 // block timestamp offset range relative to the builder's default (parent+10s)
	MaxOffset  int64
	ForkFree   bool // use a config without hard forks: difficulty is time-sensitive from block 1
	// WithContracts (requires WithTxs): some transactions deploy a small storage contract or call one
	// (SSTORE of calldata[0..32] := calldata[32..64], zero values delete slots), so that states carry
	// storage tries and code. Off by default; when off no extra random numbers are drawn.
	WithContracts bool
	// FreshTransfers (requires WithTxs): every block additionally carries this many 1-wei transfers to addresses that
	// never occurred before (big states: hundreds of new account leaves per block). 0 by default; draws no random numbers.
	FreshTransfers int
}

// contractInit deploys: SSTORE(7, v) then returns the 8-byte runtime `SSTORE(calldata[0], calldata[32]); STOP`.
func contractInit(v byte) []byte {
	return []byte{0x60, v, 0x60, 0x07, 0x55, // sstore(7, v)
		0x67, 0x60, 0x20, 0x35, 0x60, 0x00, 0x35, 0x55, 0x00, // push8 runtime
		0x60, 0x00, 0x52, // mstore(0, ..)  -> runtime right-aligned in word 0
		0x60, 0x08, 0x60, 0x18, 0xf3} // return(24, 8)
}

// ForkFreeConfig is TestChainConfig without scheduled forks.
func ForkFreeConfig() *params.ChainConfig {
	c := *params.TestChainConfig
	c.HF = params.ForkMap{}
	return &c
}

func NewTree(opts Opts) *Tree {
	cfg := params.TestChainConfig
	if opts.ForkFree {
		cfg = ForkFreeConfig()
	}
	t := &Tree{Cfg: cfg, ByHash: map[common.Hash]int{}, txIndex: map[common.Hash]int{}, gendb: aquadb.NewMemDatabase(), Opts: opts}
	alloc := core.GenesisAlloc{}
	for i := 0; i < 3; i++ {
		k, _ := crypto.BytesToKey(common.LeftPadBytes([]byte{byte(i + 1), 0x42}, 32))
		t.Keys = append(t.Keys, k)
		a := crypto.PubkeyToAddress(k.PubKey())
		t.Addrs = append(t.Addrs, a)
		alloc[a] = core.GenesisAccount{Balance: new(big.Int).Mul(big.NewInt(1000), big.NewInt(params.Aqua))}
	}
	t.Gspec = &core.Genesis{Config: cfg, Alloc: alloc, GasLimit: 4712388, Difficulty: big.NewInt(131072)}
	g := t.Gspec.MustCommit(t.gendb)
	t.Signer = types.NewEIP155Signer(cfg.ChainId)
	if !cfg.IsEIP155(big.NewInt(1)) {
		t.Signer = types.HomesteadSigner{}
	}
	t.Nodes = []*Node{{ID: 0, Parent: -1, Block: g}}
	t.ByHash[g.Hash()] = 0
	return t
}

// AddChild builds one block on top of node `parent`.
func (t *Tree) AddChild(r *hx.Rng, parent int) *Node {
	p := t.Nodes[parent]
	id := len(t.Nodes)
	var txids []int
	blocks, receipts := core.GenerateChain(context.Background(), t.Cfg, p.Block, aquahash.NewFaker(), t.gendb, 1, func(i int, b *core.BlockGen) {
		b.SetCoinbase(common.Address{0xc0, byte(id)})
		b.SetExtra([]byte{byte(id >> 8), byte(id)}) // siblings differ even with equal content
		if t.Opts.MaxOffset > t.Opts.MinOffset {
			b.OffsetTime(t.Opts.MinOffset + int64(r.Intn(int(t.Opts.MaxOffset-t.Opts.MinOffset))))
		}
		if t.Opts.WithTxs && t.Opts.FreshTransfers > 0 {
			for k := 0; k < t.Opts.FreshTransfers; k++ {
				from := k % len(t.Keys)
				to := common.BytesToAddress([]byte{0xf5, byte(id >> 8), byte(id), byte(k >> 8), byte(k)})
				raw := types.NewTransaction(b.TxNonce(t.Addrs[from]), to, big.NewInt(1), 21000, big.NewInt(1), nil)
				tx, err := types.SignTx(raw, t.Signer, t.Keys[from])
				if err != nil {
					panic(err)
				}
				b.AddTx(tx)
				h := tx.Hash()
				if _, ok := t.txIndex[h]; !ok {
					t.txIndex[h] = len(t.Txs)
					t.Txs = append(t.Txs, tx)
				}
				txids = append(txids, t.txIndex[h])
			}
		}
		if t.Opts.WithTxs {
			for k := r.Intn(3); k > 0; k-- {
				from := r.Intn(len(t.Keys))
				nonce := b.TxNonce(t.Addrs[from])
				// reuse a transaction already mined on another branch when the nonce fits (same tx on two branches)
				var tx *types.Transaction
				if r.Intn(2) == 0 {
					for _, old := range t.Txs {
						if s, _ := types.Sender(t.Signer, old); s == t.Addrs[from] && old.Nonce() == nonce {
							tx = old
							break
						}
					}
				}
				if tx == nil && t.Opts.WithContracts && r.Intn(3) == 0 {
					var raw *types.Transaction
					if len(t.Contracts) == 0 || r.Intn(3) == 0 {
						raw = types.NewContractCreation(nonce, big.NewInt(0), 200000, big.NewInt(int64(1+r.Intn(5))), contractInit(byte(1+r.Intn(200))))
						t.Contracts = append(t.Contracts, crypto.CreateAddress(t.Addrs[from], nonce))
					} else {
						// call (on branches where the contract does not exist this is a plain transfer with data)
						data := make([]byte, 64)
						data[31] = byte(r.Intn(4))
						data[63] = byte(r.Intn(3)) // 0 deletes the slot
						raw = types.NewTransaction(nonce, t.Contracts[r.Intn(len(t.Contracts))], big.NewInt(0), 100000, big.NewInt(int64(1+r.Intn(5))), data)
					}
					var err error
					tx, err = types.SignTx(raw, t.Signer, t.Keys[from])
					if err != nil {
						panic(err)
					}
				}
				if tx == nil {
					to := t.Addrs[r.Intn(len(t.Addrs))]
					raw := types.NewTransaction(nonce, to, big.NewInt(int64(1+r.Intn(1000))), 21000, big.NewInt(int64(1+r.Intn(5))), nil)
					var err error
					tx, err = types.SignTx(raw, t.Signer, t.Keys[from])
					if err != nil {
						panic(err)
					}
				}
				b.AddTx(tx)
				h := tx.Hash()
				if _, ok := t.txIndex[h]; !ok {
					t.txIndex[h] = len(t.Txs)
					t.Txs = append(t.Txs, tx)
				}
				txids = append(txids, t.txIndex[h])
			}
		}
	})
	n := &Node{ID: id, Parent: parent, Block: blocks[0], Receipts: receipts[0], TxIDs: txids}
	t.Nodes = append(t.Nodes, n)
	p.Children = append(p.Children, id)
	t.ByHash[n.Block.Hash()] = id
	return n
}

// Grow adds n random blocks; `branchy` in [0,100] is the chance (percent) of extending a non-tip node.
func (t *Tree) Grow(r *hx.Rng, n int, branchy int) {
	for i := 0; i < n; i++ {
		parent := len(t.Nodes) - 1
		if r.Intn(100) < branchy {
			parent = r.Intn(len(t.Nodes))
		} else if r.Intn(100) < 30 {
			// extend some existing tip
			tips := []int{}
			for _, nd := range t.Nodes {
				if len(nd.Children) == 0 {
					tips = append(tips, nd.ID)
				}
			}
			parent = tips[r.Intn(len(tips))]
		}
		t.AddChild(r, parent)
	}
}

// NewChain opens a fresh chain (genesis only) on a new in-memory database.
func (t *Tree) NewChain(cache *core.CacheConfig) (*core.BlockChain, aquadb.Database) {
	db := aquadb.NewMemDatabase()
	return t.OpenChain(db, cache), db
}

// OpenChain (re)opens a chain on db, committing the genesis block if the database is empty.
func (t *Tree) OpenChain(db aquadb.Database, cache *core.CacheConfig) *core.BlockChain {
	if core.GetCanonicalHash(db, 0) == (common.Hash{}) {
		t.Gspec.MustCommit(db)
	}
	bc, err := core.NewBlockChain(context.Background(), db, cache, t.Cfg, aquahash.NewFaker(), vm.Config{})
	if err != nil {
		panic(fmt.Sprintf("NewBlockChain: %v", err))
	}
	return bc
}

// Path returns the blocks from (excluding) genesis to node id.
func (t *Tree) Path(id int) []*types.Block {
	var rev []*types.Block
	for n := t.Nodes[id]; n.Parent >= 0; n = t.Nodes[n.Parent] {
		rev = append(rev, n.Block)
	}
	for i, j := 0, len(rev)-1; i < j; i, j = i+1, j-1 {
		rev[i], rev[j] = rev[j], rev[i]
	}
	return rev
}

// Td is the total difficulty of node id (recurrence from genesis).
func (t *Tree) Td(id int) *big.Int {
	td := new(big.Int)
	for n := t.Nodes[id]; n != nil; {
		td.Add(td, n.Block.Difficulty())
		if n.Parent < 0 {
			break
		}
		n = t.Nodes[n.Parent]
	}
	return td
}

// Ancestor returns the id of the ancestor of node id at the given height, or -1.
func (t *Tree) Ancestor(id int, height uint64) int {
	n := t.Nodes[id]
	for n.Block.NumberU64() > height {
		n = t.Nodes[n.Parent]
	}
	if n.Block.NumberU64() != height {
		return -1
	}
	return n.ID
}

// ParentClosedOrder returns a random linearisation of all non-genesis nodes in which parents precede children.
func (t *Tree) ParentClosedOrder(r *hx.Rng) []int {
	ready := append([]int{}, t.Nodes[0].Children...)
	var order []int
	for len(ready) > 0 {
		i := r.Intn(len(ready))
		id := ready[i]
		ready = append(ready[:i], ready[i+1:]...)
		order = append(order, id)
		ready = append(ready, t.Nodes[id].Children...)
	}
	return order
}

// Batches splits an order into InsertChain batches: maximal runs where each block is the child of the previous one are
// kept together with probability, otherwise single blocks.
func (t *Tree) Batches(r *hx.Rng, order []int) [][]int {
	var out [][]int
	for i := 0; i < len(order); {
		j := i + 1
		for j < len(order) && t.Nodes[order[j]].Parent == order[j-1] && r.Intn(3) > 0 {
			j++
		}
		out = append(out, order[i:j])
		i = j
	}
	return out
}

func (t *Tree) Blocks(ids []int) types.Blocks {
	bs := make(types.Blocks, len(ids))
	for i, id := range ids {
		bs[i] = t.Nodes[id].Block
	}
	return bs
}

// Quiet silences the repository's logger (the harness output must stay small and deterministic).
func Quiet() { log.Root().SetHandler(log.DiscardHandler()) }

// rich.go — extensions of chainx for the block-import harness (C01): trees whose blocks carry contract creations, calls
// into a small library of contracts (storage writers, self-destructors, reverting / out-of-gas callees, LOG emitters,
// a proxy doing a nested call), uncles, empty blocks, on TestChainConfig (forks at heights 1..7) or on a shifted schedule
// with a late Byzantium switch.  Everything here is NEW API; the functions of chainx.go are unchanged.
package chainx

import (
	"context"
	"math/big"
	"strings"

	"gitlab.com/aquachain/aquachain/aquadb"
	"gitlab.com/aquachain/aquachain/common"
	"gitlab.com/aquachain/aquachain/consensus/aquahash"
	"gitlab.com/aquachain/aquachain/core"
	"gitlab.com/aquachain/aquachain/core/types"
	"gitlab.com/aquachain/aquachain/core/vm"
	"gitlab.com/aquachain/aquachain/crypto"
	"gitlab.com/aquachain/aquachain/params"
	"gitlab.com/aquachain/aquachain/rlp"
	"verifharness/hx"
)

// ---- contract library (runtime byte code) ----------------------------------------------------------------------------

var (
	// SSTORE(k, v); SSTORE(k+1, v); SSTORE(k+2, 0)   with k = calldata[0:32], v = calldata[32:64]
	CodeWriter = common.FromHex("602035600035" + "818155" + "8181600101" + "55" + "600081600201" + "55" + "00")
	// SELFDESTRUCT(calldata[0:32])
	CodeSuicide = common.FromHex("600035ff")
	// SSTORE(0, 1); REVERT(0, 0)
	CodeRevert = common.FromHex("600160005560006000fd")
	// JUMPDEST; PUSH1 0; JUMP  (runs out of gas)
	CodeLoop = common.FromHex("5b600056")
	// INVALID
	CodeInvalid = common.FromHex("fe")
	// MSTORE(0, calldata[64:96]); LOG2(0, 32, calldata[0:32], calldata[32:64]); SSTORE(7, calldata[64:96])
	CodeLogger = common.FromHex("6040356000" + "52" + "602035" + "600035" + "6020" + "6000" + "a2" + "604035600755" + "00")
	// LOG1(0,0,calldata[0:32]); REVERT  (the log must vanish)
	CodeLogRevert = common.FromHex("60003560006000a1" + "60006000fd")
	// CALLDATACOPY(0, 32, 64); r = CALL(50000, calldata[0:32], 0, 0, 64, 0, 0); SSTORE(0x99, r+1)
	CodeProxy = common.FromHex("604060206000" + "37" + "6000600060406000600060003562" + "00c350" + "f1" + "600101609955" + "00")
)

// Deployer wraps runtime code (< 256 bytes) into init code returning it.
func Deployer(runtime []byte) []byte {
	init := []byte{0x60, byte(len(runtime)), 0x80, 0x60, 0x0c, 0x60, 0x00, 0x39, 0x60, 0x00, 0xf3}
	return append(init, runtime...)
}

// Library returns the contract kinds by name (deterministic order).
func Library() []struct {
	Name string
	Code []byte
} {
	return []struct {
		Name string
		Code []byte
	}{
		{"writer", CodeWriter}, {"suicide", CodeSuicide}, {"revert", CodeRevert}, {"loop", CodeLoop},
		{"invalid", CodeInvalid}, {"logger", CodeLogger}, {"logrevert", CodeLogRevert}, {"proxy", CodeProxy},
	}
}

// ---- configs ---------------------------------------------------------------------------------------------------------

// ShiftedConfig is TestChainConfig with the forks moved to irregular heights and Byzantium switched on late (height 4),
// so that blocks 1..3 produce pre-Byzantium receipts (an intermediate state root after every transaction).
func ShiftedConfig() *params.ChainConfig {
	c := *params.TestChainConfig
	c.HF = params.ForkMap{1: big.NewInt(2), 2: big.NewInt(3), 3: big.NewInt(5), 4: big.NewInt(6), 5: big.NewInt(8), 6: big.NewInt(9), 7: big.NewInt(11)}
	c.ByzantiumBlock = big.NewInt(4)
	return &c
}

// DeallocAddr is one of the addresses whose balance HF4 zeroes (consensus/misc.DeallocListHF4); RichTree funds it in genesis.
var DeallocAddr = common.HexToAddress("962cd22a8edf1e4f4e55b4b15ddbfb5d9d541971")

// ---- the rich tree ---------------------------------------------------------------------------------------------------

type RichOpts struct {
	GasLimit  uint64 // genesis gas limit (default 4712388); raise it for blocks with hundreds of transactions
	Shifted   bool   // ShiftedConfig instead of TestChainConfig
	EIP155At  uint64 // when non-zero: replay protection only from this height on (blocks below it must carry unprotected txs)
	MaxTxs    int    // max transactions per block (default 5)
	EmptyPct  int    // chance (percent) of an empty block
	UnclePct  int    // chance (percent) of trying to include uncles
	MinOffset int64
	MaxOffset int64
}

// Contract is a contract instance known to exist on some branch.
type Contract struct {
	Addr common.Address
	Kind string
}

// RichTree is a Tree whose blocks exercise the whole import pipeline.
type RichTree struct {
	*Tree
	RO        RichOpts
	Contracts map[int][]Contract // node id -> contracts alive after that block (inherited + deployed - destroyed)
	Kinds     map[int][]string   // node id -> kinds of the transactions in the block (statistics)
	Uncles    map[int][]int      // node id -> node ids included as uncles
	used      map[int]map[int]bool
}

// GenesisContracts are library instances present from genesis (fixed addresses 0x…c1xx).
func GenesisContracts() []Contract {
	var out []Contract
	for i, l := range Library() {
		out = append(out, Contract{Addr: common.BytesToAddress([]byte{0xc1, byte(i + 1)}), Kind: l.Name})
	}
	return out
}

func NewRichTree(o RichOpts) *RichTree {
	cfg := params.TestChainConfig
	if o.Shifted {
		cfg = ShiftedConfig()
	}
	if o.EIP155At != 0 {
		c := *cfg
		c.EIP155Block = new(big.Int).SetUint64(o.EIP155At)
		cfg = &c
	}
	if o.MaxTxs == 0 {
		o.MaxTxs = 5
	}
	t := &Tree{Cfg: cfg, ByHash: map[common.Hash]int{}, txIndex: map[common.Hash]int{}, gendb: aquadb.NewMemDatabase(),
		Opts: Opts{WithTxs: true, MinOffset: o.MinOffset, MaxOffset: o.MaxOffset}}
	alloc := core.GenesisAlloc{}
	for i := 0; i < 4; i++ {
		k, _ := crypto.BytesToKey(common.LeftPadBytes([]byte{byte(i + 1), 0x43}, 32))
		t.Keys = append(t.Keys, k)
		a := crypto.PubkeyToAddress(k.PubKey())
		t.Addrs = append(t.Addrs, a)
		alloc[a] = core.GenesisAccount{Balance: new(big.Int).Mul(big.NewInt(1000), big.NewInt(params.Aqua))}
	}
	alloc[DeallocAddr] = core.GenesisAccount{Balance: big.NewInt(777777)}
	lib := Library()
	for i, c := range GenesisContracts() {
		acc := core.GenesisAccount{Balance: big.NewInt(int64(1000 + i)), Code: lib[i].Code}
		if c.Kind == "writer" {
			acc.Storage = map[common.Hash]common.Hash{common.BigToHash(big.NewInt(1)): common.BigToHash(big.NewInt(11)), common.BigToHash(big.NewInt(2)): common.BigToHash(big.NewInt(22))}
		}
		alloc[c.Addr] = acc
	}
	alloc[ProbeAddr] = core.GenesisAccount{Balance: big.NewInt(1), Code: CodeProbe}
	alloc[BlockhashAddr] = core.GenesisAccount{Balance: big.NewInt(1), Code: CodeBlockhash()}
	alloc[CallValueAddr] = core.GenesisAccount{Balance: big.NewInt(1), Code: CodeCallValue}
	alloc[DelegatorAddr] = core.GenesisAccount{Balance: big.NewInt(1), Code: CodeDelegator}
	alloc[CallValueIncAddr] = core.GenesisAccount{Balance: big.NewInt(1), Code: CodeCallValueInc}
	gl := uint64(4712388)
	if o.GasLimit != 0 {
		gl = o.GasLimit
	}
	t.Gspec = &core.Genesis{Config: cfg, Alloc: alloc, GasLimit: gl, Difficulty: big.NewInt(131072)}
	g := t.Gspec.MustCommit(t.gendb)
	t.Signer = types.NewEIP155Signer(cfg.ChainId)
	t.Nodes = []*Node{{ID: 0, Parent: -1, Block: g}}
	t.ByHash[g.Hash()] = 0
	return &RichTree{Tree: t, RO: o, Contracts: map[int][]Contract{0: GenesisContracts()}, Kinds: map[int][]string{}, Uncles: map[int][]int{},
		used: map[int]map[int]bool{0: {}}}
}

// GenDB exposes the database holding the state of every generated block (read-only use: state dumps).
func (t *Tree) GenDB() aquadb.Database { return t.gendb }

func word(n uint64) []byte             { return common.BigToHash(new(big.Int).SetUint64(n)).Bytes() }
func addrWord(a common.Address) []byte { return common.LeftPadBytes(a.Bytes(), 32) }

// uncleCandidates: nodes that may be included as uncle of a child of `parent`: within 7 generations, child of a PROPER
// ancestor of parent... i.e. their parent is an ancestor of `parent` (not `parent` itself), they are no ancestor, and no
// ancestor has already included them.
func (t *RichTree) uncleCandidates(parent int) []int {
	anc := map[int]bool{}
	usedUp := map[int]bool{}
	var ancList []int
	for n, d := parent, 0; n >= 0 && d < 7; n, d = t.Nodes[n].Parent, d+1 {
		anc[n] = true
		ancList = append(ancList, n)
		for _, u := range t.Uncles[n] {
			usedUp[u] = true
		}
	}
	var out []int
	for _, a := range ancList {
		if a == parent {
			continue
		}
		for _, c := range t.Nodes[a].Children {
			if !anc[c] && !usedUp[c] {
				out = append(out, c)
			}
		}
	}
	return out
}

// AddRichChild builds one block on `parent` with a random mix of transactions (and possibly uncles).
func (t *RichTree) AddRichChild(r *hx.Rng, parent int) *Node {
	p := t.Nodes[parent]
	id := len(t.Nodes)
	var txids []int
	var kinds []string
	alive := append([]Contract{}, t.Contracts[parent]...)
	var uncles []int
	height := p.Block.NumberU64() + 1
	blocks, receipts := core.GenerateChain(context.Background(), t.Cfg, p.Block, aquahash.NewFaker(), t.gendb, 1, func(i int, b *core.BlockGen) {
		b.SetCoinbase(common.Address{0xc0, byte(id)})
		b.SetExtra([]byte{byte(id >> 8), byte(id)})
		if t.RO.MaxOffset > t.RO.MinOffset {
			b.OffsetTime(t.RO.MinOffset + int64(r.Intn(int(t.RO.MaxOffset-t.RO.MinOffset))))
		}
		if r.Intn(100) < t.RO.UnclePct {
			cands := t.uncleCandidates(parent)
			max := 2
			if t.Cfg.IsHF(5, new(big.Int).SetUint64(height)) {
				max = 1
			}
			for len(cands) > 0 && len(uncles) < max {
				k := r.Intn(len(cands))
				u := cands[k]
				cands = append(cands[:k], cands[k+1:]...)
				b.AddUncle(t.Nodes[u].Block.Header())
				uncles = append(uncles, u)
				if r.Bool() {
					break
				}
			}
		}
		if r.Intn(100) < t.RO.EmptyPct {
			return
		}
		ntx := 1 + r.Intn(t.RO.MaxTxs)
		for k := 0; k < ntx; k++ {
			from := r.Intn(len(t.Keys))
			nonce := b.TxNonce(t.Addrs[from])
			price := big.NewInt(int64(1 + r.Intn(5)))
			var raw *types.Transaction
			kind := ""
			pick := func(kinds ...string) (Contract, bool) {
				var cs []Contract
				for _, c := range alive {
					for _, kd := range kinds {
						if c.Kind == kd {
							cs = append(cs, c)
						}
					}
				}
				if len(cs) == 0 {
					return Contract{}, false
				}
				return cs[r.Intn(len(cs))], true
			}
			switch r.Intn(13) {
			case 0, 1: // plain transfer between funded accounts, to a fresh address, or of zero value to an empty one
				to := t.Addrs[r.Intn(len(t.Addrs))]
				val := big.NewInt(int64(1 + r.Intn(1000)))
				kind = "transfer"
				switch r.Intn(4) {
				case 0:
					to = common.BytesToAddress([]byte{0xf0, byte(r.Intn(4))})
					kind = "transfer-new"
				case 1:
					to = common.BytesToAddress([]byte{0xe0, byte(r.Intn(3))})
					val = big.NewInt(0)
					kind = "touch-empty"
				}
				raw = types.NewTransaction(nonce, to, val, 21000, price, nil)
			case 2: // reuse a transaction mined on another branch when the nonce fits
				for _, old := range t.Txs {
					if s, _ := types.Sender(t.Signer, old); s == t.Addrs[from] && old.Nonce() == nonce && old.To() != nil && len(old.Data()) == 0 {
						kind = "reused"
						b.AddTx(old)
						txids = append(txids, t.txIndex[old.Hash()])
						kinds = append(kinds, kind)
						break
					}
				}
				if kind != "" {
					continue
				}
				kind = "transfer"
				raw = types.NewTransaction(nonce, t.Addrs[r.Intn(len(t.Addrs))], big.NewInt(int64(1+r.Intn(50))), 21000, price, nil)
			case 3: // creation of a library contract (sometimes with value, sometimes with too little gas)
				lib := Library()
				l := lib[r.Intn(len(lib))]
				gas := uint64(200000)
				kind = "create-" + l.Name
				if r.Intn(6) == 0 {
					ig, _ := core.IntrinsicGas(Deployer(l.Code), true, true)
					gas = ig + uint64(r.Intn(3000)) // out of gas during init / code deposit
					kind = "create-oog"
				}
				val := big.NewInt(0)
				if r.Intn(3) == 0 {
					val = big.NewInt(int64(r.Intn(500)))
				}
				raw = types.NewContractCreation(nonce, val, gas, price, Deployer(l.Code))
				if kind != "create-oog" {
					alive = append(alive, Contract{Addr: crypto.CreateAddress(t.Addrs[from], nonce), Kind: l.Name})
				}
			case 4: // creation whose init code reverts / is invalid
				kind = "create-fail"
				code := CodeRevert
				if r.Bool() {
					code = CodeInvalid
				}
				raw = types.NewContractCreation(nonce, big.NewInt(0), 100000, price, code)
			case 5, 6: // storage writes (set, overwrite, delete)
				c, ok := pick("writer")
				if !ok {
					continue
				}
				kind = "call-writer"
				v := uint64(r.Intn(4)) // 0 deletes
				data := append(word(uint64(r.Intn(6))), word(v)...)
				raw = types.NewTransaction(nonce, c.Addr, big.NewInt(int64(r.Intn(3))), 120000, price, data)
			case 7: // LOG emitters
				c, ok := pick("logger", "logrevert")
				if !ok {
					continue
				}
				kind = "call-" + c.Kind
				data := append(append(word(uint64(1+r.Intn(5))), word(uint64(100+r.Intn(5)))...), word(r.U64()%1000)...)
				raw = types.NewTransaction(nonce, c.Addr, big.NewInt(0), 90000, price, data)
			case 8: // failing callees
				c, ok := pick("revert", "loop", "invalid")
				if !ok {
					continue
				}
				kind = "call-" + c.Kind
				raw = types.NewTransaction(nonce, c.Addr, big.NewInt(int64(r.Intn(2))), 40000+uint64(r.Intn(20000)), price, nil)
			case 9: // self-destruct (beneficiary: funded account, fresh address, or the contract itself)
				c, ok := pick("suicide")
				if !ok {
					continue
				}
				kind = "call-suicide"
				ben := t.Addrs[r.Intn(len(t.Addrs))]
				switch r.Intn(3) {
				case 0:
					ben = common.BytesToAddress([]byte{0xf1, byte(r.Intn(3))})
				case 1:
					ben = c.Addr
				}
				raw = types.NewTransaction(nonce, c.Addr, big.NewInt(int64(r.Intn(5))), 60000, price, addrWord(ben))
				for k2, a := range alive {
					if a.Addr == c.Addr {
						alive = append(alive[:k2:k2], alive[k2+1:]...)
						break
					}
				}
			case 10: // nested call through the proxy into any contract (callee may revert / run out of gas / log / write)
				px, ok := pick("proxy")
				if !ok || len(alive) == 0 {
					continue
				}
				callee := alive[r.Intn(len(alive))]
				if callee.Kind == "suicide" {
					continue // keep `alive` exact
				}
				kind = "proxy-" + callee.Kind
				data := append(append(addrWord(callee.Addr), word(uint64(r.Intn(6)))...), word(uint64(r.Intn(4)))...)
				raw = types.NewTransaction(nonce, px.Addr, big.NewInt(0), 150000, price, data)
			case 12: // msg.value consumers: top-level call, creation whose init code does the same, DELEGATECALL into it — all with value
				val := big.NewInt(int64(1 + r.Intn(1000)))
				switch r.Intn(4) {
				case 3:
					kind = "call-callvalue-inc"
					raw = types.NewTransaction(nonce, CallValueIncAddr, val, 120000, price, nil)
				case 0:
					kind = "call-callvalue"
					raw = types.NewTransaction(nonce, CallValueAddr, val, 120000, price, nil)
				case 1:
					kind = "create-callvalue"
					raw = types.NewContractCreation(nonce, val, 150000, price, CodeCallValue)
				default:
					kind = "delegate-callvalue"
					raw = types.NewTransaction(nonce, DelegatorAddr, val, 150000, price, nil)
				}
			default: // call with too little gas for the body (intrinsic gas is covered)
				c, ok := pick("writer", "logger")
				if !ok {
					continue
				}
				kind = "call-oog"
				data := append(word(uint64(r.Intn(6))), word(uint64(1+r.Intn(3)))...)
				g, _ := core.IntrinsicGas(data, false, true)
				raw = types.NewTransaction(nonce, c.Addr, big.NewInt(0), g+uint64(r.Intn(3000)), price, data)
			}
			tx, err := types.SignTx(raw, t.Signer, t.Keys[from])
			if err != nil {
				panic(err)
			}
			Remember(tx)
			b.AddTx(tx)
			h := tx.Hash()
			if _, ok := t.txIndex[h]; !ok {
				t.txIndex[h] = len(t.Txs)
				t.Txs = append(t.Txs, tx)
			}
			txids = append(txids, t.txIndex[h])
			kinds = append(kinds, kind)
		}
	})
	n := &Node{ID: id, Parent: parent, Block: blocks[0], Receipts: receipts[0], TxIDs: txids}
	t.Nodes = append(t.Nodes, n)
	p.Children = append(p.Children, id)
	t.ByHash[n.Block.Hash()] = id
	t.Contracts[id] = alive
	t.Kinds[id] = kinds
	t.Uncles[id] = uncles
	return n
}

// GrowRich adds n blocks. `branchy` as in Grow; additionally the first blocks branch early so that uncles are available
// before the heights at which the fork schedule restricts them.
func (t *RichTree) GrowRich(r *hx.Rng, n int, branchy int) {
	for i := 0; i < n; i++ {
		parent := len(t.Nodes) - 1
		switch {
		case len(t.Nodes) < 4 && r.Intn(100) < 60:
			parent = r.Intn(len(t.Nodes)) // early siblings
		case r.Intn(100) < branchy:
			parent = r.Intn(len(t.Nodes))
		case r.Intn(100) < 30:
			var tips []int
			for _, nd := range t.Nodes {
				if len(nd.Children) == 0 {
					tips = append(tips, nd.ID)
				}
			}
			parent = tips[r.Intn(len(tips))]
		}
		t.AddRichChild(r, parent)
	}
}

// Depth is the height of the highest node.
func (t *Tree) Depth() uint64 {
	var d uint64
	for _, n := range t.Nodes {
		if n.Block.NumberU64() > d {
			d = n.Block.NumberU64()
		}
	}
	return d
}

// PathIDs returns the node ids from (excluding) genesis to node id.
func (t *Tree) PathIDs(id int) []int {
	var rev []int
	for n := t.Nodes[id]; n.Parent >= 0; n = t.Nodes[n.Parent] {
		rev = append(rev, n.ID)
	}
	for i, j := 0, len(rev)-1; i < j; i, j = i+1, j-1 {
		rev[i], rev[j] = rev[j], rev[i]
	}
	return rev
}

// UncleCandidates lists the nodes a child of `parent` could include as uncles.
func (t *RichTree) UncleCandidates(parent int) []int { return t.uncleCandidates(parent) }

// ---- scripted blocks (C01: very large blocks, fork-divergent code at one address) ------------------------------------------

// CodeProbe: a = calldata[0:32]; SSTORE(1, EXTCODESIZE(a)); SSTORE(2, BALANCE(a)); EXTCODECOPY(a, 0, 0, 32); SSTORE(3, MLOAD(0)).
// It observes another account's code WITHOUT that account's code being loaded by a call.
var CodeProbe = common.FromHex("600035" + "803b600155" + "8031600255" + "602060006000833c" + "600051600355" + "00")

// ProbeAddr is where RichTree puts CodeProbe in genesis (it is not part of Library(), so random blocks never call it).
var ProbeAddr = common.BytesToAddress([]byte{0xc1, 0xff})

// AddTxBlock builds one block on `parent` carrying exactly the transactions `build` returns (it is handed the nonce oracle
// of the block under construction). Contract bookkeeping of the parent is inherited unchanged.
func (t *RichTree) AddTxBlock(parent int, kind string, build func(nonce func(common.Address) uint64) []*types.Transaction) *Node {
	p := t.Nodes[parent]
	id := len(t.Nodes)
	var txids []int
	var kinds []string
	blocks, receipts := core.GenerateChain(context.Background(), t.Cfg, p.Block, aquahash.NewFaker(), t.gendb, 1, func(i int, b *core.BlockGen) {
		b.SetCoinbase(common.Address{0xc0, byte(id)})
		b.SetExtra([]byte{byte(id >> 8), byte(id)})
		for _, tx := range build(b.TxNonce) {
			Remember(tx)
			b.AddTx(tx)
			h := tx.Hash()
			if _, ok := t.txIndex[h]; !ok {
				t.txIndex[h] = len(t.Txs)
				t.Txs = append(t.Txs, tx)
			}
			txids = append(txids, t.txIndex[h])
			kinds = append(kinds, kind)
		}
	})
	n := &Node{ID: id, Parent: parent, Block: blocks[0], Receipts: receipts[0], TxIDs: txids}
	t.Nodes = append(t.Nodes, n)
	p.Children = append(p.Children, id)
	t.ByHash[n.Block.Hash()] = id
	t.Contracts[id] = append([]Contract{}, t.Contracts[parent]...)
	t.Kinds[id] = kinds
	return n
}

// GhostAddr is an address no generator ever funds: a zero-value transfer to it is a no-op after EIP158 (touch + delete).
func GhostAddr(series byte, i int) common.Address {
	return common.BytesToAddress([]byte{0xe0 + series, byte(i >> 8), byte(i)})
}

// Sign signs raw with the i-th funded key.
func (t *Tree) Sign(raw *types.Transaction, key int) *types.Transaction {
	tx, err := types.SignTx(raw, t.Signer, t.Keys[key])
	if err != nil {
		panic(err)
	}
	return tx
}

// KeyOf returns the index of the funded key that signed tx, or -1.
func (t *Tree) KeyOf(tx *types.Transaction) int {
	s, err := types.Sender(t.Signer, tx)
	if err != nil {
		return -1
	}
	for i, a := range t.Addrs {
		if a == s {
			return i
		}
	}
	return -1
}

// AddBigBlock builds a block of n cheap transactions: zero-value transfers to never-funded addresses (each replaceable by an
// execution-equivalent one), interleaved round-robin over the funded keys.
func (t *RichTree) AddBigBlock(r *hx.Rng, parent int, n int) *Node {
	return t.AddTxBlock(parent, "ghost-touch", func(nonce func(common.Address) uint64) []*types.Transaction {
		next := map[int]uint64{}
		var out []*types.Transaction
		for i := 0; i < n; i++ {
			k := i % len(t.Keys)
			if _, ok := next[k]; !ok {
				next[k] = nonce(t.Addrs[k])
			}
			raw := types.NewTransaction(next[k], GhostAddr(0, i), big.NewInt(0), 21000, big.NewInt(int64(1+r.Intn(3))), nil)
			next[k]++
			out = append(out, t.Sign(raw, k))
		}
		return out
	})
}

// ---- hand-built blocks (ApplyTransaction + engine.Finalize on a real chain): needed for BLOCKHASH, which GenerateChain cannot run ----

// BlockhashAddr holds CodeBlockhash in the genesis of every RichTree (never called by random blocks).
var BlockhashAddr = common.BytesToAddress([]byte{0xc1, 0xfe})

// CodeBlockhash: SSTORE(k, BLOCKHASH(NUMBER - k)) for k = 1..8.
func CodeBlockhash() []byte {
	var code []byte
	for k := byte(1); k <= 8; k++ {
		code = append(code, 0x60, k, 0x43, 0x03, 0x40, 0x60, k, 0x55)
	}
	return append(code, 0x00)
}

// builderChain returns a FRESH archive node holding exactly the ancestry of node `upTo` (no competing branches: the builder's
// view of the chain is the branch it builds on).
func (t *RichTree) builderChain(upTo int) (*core.BlockChain, aquadb.Database) {
	bc, db := t.NewChain(&core.CacheConfig{Disabled: true})
	if p := t.Path(upTo); len(p) > 0 {
		if _, err := bc.InsertChain(p); err != nil {
			panic("builder chain refused the ancestry: " + err.Error())
		}
	}
	return bc, db
}

// AddHandBuilt builds one block on `parent` the way the miner does — header, engine.Prepare, ApplyTransaction per transaction
// with a real chain context (so BLOCKHASH works), engine.Finalize — `dt` seconds after the parent.
func (t *RichTree) AddHandBuilt(parent int, dt int64, kind string, build func(nonce func(common.Address) uint64) []*types.Transaction) *Node {
	bc, bdb := t.builderChain(parent)
	defer bc.Stop()
	p := t.Nodes[parent]
	id := len(t.Nodes)
	num := new(big.Int).Add(p.Block.Number(), common.Big1)
	coinbase := common.Address{0xc0, byte(id)}
	header := &types.Header{ParentHash: p.Block.Hash(), Number: num, GasLimit: core.CalcGasLimit(p.Block), Extra: []byte{byte(id >> 8), byte(id)},
		Time: new(big.Int).Add(p.Block.Time(), big.NewInt(dt)), Coinbase: coinbase, Version: t.Cfg.GetBlockVersion(num)}
	eng := aquahash.NewFaker()
	if err := eng.Prepare(bc, header); err != nil {
		panic(err)
	}
	st, err := bc.StateAt(p.Block.Root())
	if err != nil {
		panic(err)
	}
	gp := new(core.GasPool).AddGas(header.GasLimit)
	var receipts types.Receipts
	var txids []int
	var kinds []string
	txs := build(st.GetNonce)
	for i, tx := range txs {
		Remember(tx)
		st.Prepare(tx.Hash(), common.Hash{}, i)
		rc, _, err := core.ApplyTransaction(t.Cfg, bc, &coinbase, gp, st, header, tx, &header.GasUsed, vm.Config{})
		if err != nil {
			panic("hand-built block: " + err.Error())
		}
		receipts = append(receipts, rc)
		h := tx.Hash()
		if _, ok := t.txIndex[h]; !ok {
			t.txIndex[h] = len(t.Txs)
			t.Txs = append(t.Txs, tx)
		}
		txids = append(txids, t.txIndex[h])
		kinds = append(kinds, kind)
	}
	block, err := eng.Finalize(bc, header, st, txs, nil, receipts)
	if err != nil {
		panic(err)
	}
	if _, err := bc.InsertChain(types.Blocks{block}); err != nil {
		panic("hand-built block refused by its builder: " + err.Error())
	}
	// make the new state available in the generator database (content-addressed entries only: trie nodes and code)
	mdb := bdb.(*aquadb.MemDatabase)
	for _, k := range mdb.Keys() {
		if len(k) == 32 || strings.HasPrefix(string(k), "secure-key-") {
			v, _ := mdb.Get(k)
			t.gendb.Put(k, v)
		}
	}
	n := &Node{ID: id, Parent: parent, Block: block, Receipts: receipts, TxIDs: txids}
	t.Nodes = append(t.Nodes, n)
	p.Children = append(p.Children, id)
	t.ByHash[block.Hash()] = id
	t.Contracts[id] = append([]Contract{}, t.Contracts[parent]...)
	t.Kinds[id] = kinds
	return n
}

// ---- msg.value consumers (the EVM must not hand out the transaction's own big.Int) ------------------------------------------

// CodeCallValue: SSTORE(0, CALLVALUE+1); CALLVALUE ISZERO POP; ORIGIN BALANCE POP; GASPRICE POP; STOP — consumes stack items that
// alias values owned by the transaction / the state (amount, balance, gas price).
var CodeCallValue = common.FromHex("34600101600055" + "341550" + "323150" + "3a50" + "00")

// CodeDelegator: DELEGATECALL(50000, CallValueAddr, 0, 0, 0, 0); POP; STOP (the callee sees the caller's msg.value).
var CodeDelegator = common.FromHex("6000600060006000" + "61c1fd" + "6200c350" + "f4" + "5000")

// CodeCallValueInc: SSTORE(0, CALLVALUE+1); STOP — nothing after it re-uses the consumed stack item, so an aliased amount is
// changed by exactly one per execution (a mutation that does NOT reach a fixed point).
var CodeCallValueInc = common.FromHex("34600101600055" + "00")

var (
	CallValueIncAddr = common.BytesToAddress([]byte{0xc1, 0xfb})
	CallValueAddr    = common.BytesToAddress([]byte{0xc1, 0xfd})
	DelegatorAddr    = common.BytesToAddress([]byte{0xc1, 0xfc})
)

// ---- transactions must survive execution unchanged ---------------------------------------------------------------------------

var txEnc = map[*types.Transaction][]byte{}

// Remember records the RLP bytes of a transaction object BEFORE it is executed for the first time (the builders call it).
func Remember(tx *types.Transaction) {
	if _, ok := txEnc[tx]; !ok {
		b, err := rlp.EncodeToBytes(tx)
		if err != nil {
			panic(err)
		}
		txEnc[tx] = b
	}
}

// ChangedTxs returns the indices (into t.Txs) of transaction objects that no longer encode to the bytes they had before their
// first execution: executing a transaction (building or importing a block) must not modify it.
func (t *Tree) ChangedTxs() []int {
	var out []int
	for i, tx := range t.Txs {
		if want, ok := txEnc[tx]; ok {
			if got, _ := rlp.EncodeToBytes(tx); string(got) != string(want) {
				out = append(out, i)
			}
		}
	}
	return out
}

module verifharness

go 1.24.0

require (
	github.com/btcsuite/btcd/btcec/v2 v2.3.5-0.20250307104530-c7191d2913c7
	github.com/golang/snappy v1.0.0
	github.com/pborman/uuid v1.2.1
	gitlab.com/aquachain/aquachain v0.0.0
	golang.org/x/crypto v0.37.0
)

require (
	github.com/BurntSushi/toml v1.5.0 // indirect
	github.com/deckarep/golang-set v1.8.0 // indirect
	github.com/decred/dcrd/dcrec/secp256k1/v4 v4.4.0 // indirect
	github.com/edsrzf/mmap-go v1.2.0 // indirect
	github.com/go-stack/stack v1.8.1 // indirect
	github.com/google/uuid v1.6.0 // indirect
	github.com/hashicorp/golang-lru v1.0.2 // indirect
	github.com/huin/goupnp v1.3.0 // indirect
	github.com/jackpal/go-nat-pmp v1.0.2 // indirect
	github.com/joho/godotenv v1.5.1 // indirect
	github.com/mattn/go-colorable v0.1.14 // indirect
	github.com/mattn/go-isatty v0.0.20 // indirect
	github.com/rs/cors v1.11.1 // indirect
	github.com/shopspring/decimal v1.4.0 // indirect
	github.com/syndtr/goleveldb v1.0.0 // indirect
	github.com/urfave/cli/v3 v3.1.1 // indirect
	golang.org/x/net v0.39.0 // indirect
	golang.org/x/sync v0.13.0 // indirect
	golang.org/x/sys v0.32.0 // indirect
	gopkg.in/olebedev/go-duktape.v3 v3.0.0-20210326210528-650f7c854440 // indirect
)

replace gitlab.com/aquachain/aquachain => /repo

// Package hx: shared helpers for the correspondence harnesses (PRNG, case writer, stats, watchdog).
package hx

import (
	"bufio"
	"encoding/hex"
	"encoding/json"
	"flag"
	"fmt"
	"os"
	"sort"
	"strconv"
	"time"
)

// Rng is splitmix64; every random choice of a harness derives from one Rng seeded by VERIF_SEED.
type Rng struct{ s uint64 }

func NewRng(seed uint64) *Rng { return &Rng{s: seed*0x9E3779B97F4A7C15 + 0x1234567} }
func (r *Rng) U64() uint64 {
	r.s += 0x9E3779B97F4A7C15
	z := r.s
	z = (z ^ (z >> 30)) * 0xBF58476D1CE4E5B9
	z = (z ^ (z >> 27)) * 0x94D049BB133111EB
	return z ^ (z >> 31)
}
func (r *Rng) Intn(n int) int {
	if n <= 0 {
		return 0
	}
	return int(r.U64() % uint64(n))
}
func (r *Rng) Bool() bool { return r.U64()&1 == 1 }
func (r *Rng) Bytes(n int) []byte {
	b := make([]byte, n)
	for i := range b {
		b[i] = byte(r.U64())
	}
	return b
}
func (r *Rng) Pick(xs []int) int { return xs[r.Intn(len(xs))] }

// Fork derives an independent stream (so sections of a harness do not perturb each other).
func (r *Rng) Fork(tag uint64) *Rng { return NewRng(r.U64() ^ tag*0xD6E8FEB86659FD93) }

func Hex(b []byte) string {
	if len(b) == 0 {
		return "-"
	}
	return hex.EncodeToString(b)
}

// Run holds the per-run context: flags, the case file, statistics.
type Run struct {
	Seed    uint64
	Tier    string
	OutDir  string
	Replay  string
	cases   *bufio.Writer
	casesF  *os.File
	NCases  int
	Hist    map[string]int
	Samples []string
	Viol    []Violation
	Notes   map[string]interface{}
	violSeen map[string]int
	start   time.Time
}

// Violation is a direct (Go-side) judgement that the property fails on a concrete input.
type Violation struct {
	Kind   string      `json:"kind"`
	Sig    string      `json:"sig"`   // stable signature used to match known findings
	Input  interface{} `json:"input"` // concrete replay input
	Detail string      `json:"detail"`
}

func Start() *Run {
	seed := flag.Uint64("seed", 1, "PRNG seed")
	tier := flag.String("tier", "quick", "quick|thorough")
	out := flag.String("out", ".", "output directory")
	replay := flag.String("replay", "", "replay file")
	flag.Parse()
	r := &Run{Seed: *seed, Tier: *tier, OutDir: *out, Replay: *replay, Hist: map[string]int{}, Notes: map[string]interface{}{}, start: time.Now()}
	if err := os.MkdirAll(r.OutDir, 0o755); err != nil {
		panic(err)
	}
	f, err := os.Create(r.OutDir + "/cases.txt")
	if err != nil {
		panic(err)
	}
	r.casesF = f
	r.cases = bufio.NewWriterSize(f, 1<<20)
	return r
}

func (r *Run) Thorough() bool { return r.Tier == "thorough" }

// Case records one correspondence case: the input line for the model and what the real code produced.
func (r *Run) Case(input, goOut string) {
	r.cases.WriteString(input)
	r.cases.WriteByte('\t')
	r.cases.WriteString(goOut)
	r.cases.WriteByte('\n')
	r.NCases++
	if len(r.Samples) < 12 && (r.NCases%977 == 1) {
		r.Samples = append(r.Samples, clip(input, 300)+" => "+clip(goOut, 200))
	}
}

func (r *Run) Count(key string) { r.Hist[key]++ }

// Violate records a direct Spec violation. At most 5 records per (kind, sig) and 400 in total are kept (all are
// counted in the histogram), so that a frequently reproduced known finding cannot crowd out a new violation.
func (r *Run) Violate(kind, sig string, input interface{}, detail string) {
	if r.violSeen == nil {
		r.violSeen = map[string]int{}
	}
	k := kind + "\x00" + sig
	r.violSeen[k]++
	if r.violSeen[k] <= 5 && len(r.Viol) < 400 {
		r.Viol = append(r.Viol, Violation{kind, sig, input, detail})
	}
	r.Hist["violation:"+kind]++
}

// Finish writes stats.json next to cases.txt.
func (r *Run) Finish() {
	r.cases.Flush()
	r.casesF.Close()
	keys := make([]string, 0, len(r.Hist))
	for k := range r.Hist {
		keys = append(keys, k)
	}
	sort.Strings(keys)
	st := map[string]interface{}{
		"cases": r.NCases, "hist": r.Hist, "samples": r.Samples, "violations": append([]Violation{}, r.Viol...),
		"seed": r.Seed, "tier": r.Tier, "notes": r.Notes, "wall_s": time.Since(r.start).Seconds(),
	}
	b, _ := json.MarshalIndent(st, "", " ")
	if err := os.WriteFile(r.OutDir+"/stats.json", b, 0o644); err != nil {
		panic(err)
	}
	fmt.Printf("harness: %d cases, %d direct violations, %.1fs\n", r.NCases, len(r.Viol), time.Since(r.start).Seconds())
}

// Guard runs f, converting a panic into the outcome class "panic" and a timeout into "hang".
// A hung goroutine is leaked (the harness process exits at the end anyway).
func Guard(timeout time.Duration, f func() string) (out string) {
	ch := make(chan string, 1)
	go func() {
		defer func() {
			if e := recover(); e != nil {
				ch <- "panic " + strconv.Quote(fmt.Sprint(e))
			}
		}()
		ch <- f()
	}()
	select {
	case s := <-ch:
		return s
	case <-time.After(timeout):
		return "hang"
	}
}

// Safe runs f on the calling goroutine and converts a panic to "panic".
func Safe(f func() string) (out string) {
	defer func() {
		if e := recover(); e != nil {
			out = "panic " + strconv.Quote(fmt.Sprint(e))
		}
	}()
	return f()
}

// ---- watchdog: turns a hang or runaway allocation in the code under test into a reported outcome ----

var current atomicString
var progress uint64

type atomicString struct{ v atomicValue }

// Current records the case about to be executed (cheap; called before every risky case).
func (r *Run) Current(s string) { current.v.Store(s); addProgress() }

func clip(s string, n int) string {
	if len(s) <= n {
		return s
	}
	return s[:n] + fmt.Sprintf("…(+%d bytes)", len(s)-n)
}

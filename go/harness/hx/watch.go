package hx

import (
	"os"
	"runtime"
	"sync/atomic"
	"time"
)

type atomicValue = atomic.Value

func addProgress() { atomic.AddUint64(&progress, 1) }

// Watch starts the watchdog. If no case completes for `stall`, or the heap exceeds `maxHeap` bytes, the current
// case is reported as a violation of kind hang / oom, the run is finished (stats written) and the process exits.
func (r *Run) Watch(stall time.Duration, maxHeap uint64, sigOf func(cur string) string) {
	go func() {
		last := atomic.LoadUint64(&progress)
		lastT := time.Now()
		for {
			time.Sleep(200 * time.Millisecond)
			p := atomic.LoadUint64(&progress)
			if p != last {
				last, lastT = p, time.Now()
			}
			var ms runtime.MemStats
			runtime.ReadMemStats(&ms)
			kind := ""
			if ms.HeapAlloc > maxHeap {
				kind = "oom"
			} else if time.Since(lastT) > stall {
				kind = "hang"
			}
			if kind != "" {
				cur, _ := current.v.Load().(string)
				r.Violate(kind, sigOf(cur), cur, "watchdog: "+kind+" while executing the case")
				r.Notes["aborted"] = kind
				r.Finish()
				os.Exit(0)
			}
		}
	}()
}

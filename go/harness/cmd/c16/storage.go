// c16 (second file): the index as stored and as built by the real chain indexer.
//
//	part E  common/bitutil CompressBytes/DecompressBytes around the break-even density (cases cz, dz; judgement J6 bitutil-roundtrip)
//	part F  a chain in which busy contracts log in exactly 218/219/220 of the 256 eight-block groups of a 2048-block section, so
//	        that a stored bit vector's encoding is one byte shorter than / exactly as long as / one byte longer than the vector
//	part G  the real core.ChainIndexer (own ChainIndexerBackend = what aqua.BloomIndexer does, plus a hook) with a reorg landing
//	        while processSection is between two headers; afterwards Filter.Logs vs brute force over the final canonical chain
package main

import (
	"bytes"
	"context"
	"fmt"
	"math/big"
	"sort"
	"strings"
	"time"

	"gitlab.com/aquachain/aquachain/aqua/event"
	"gitlab.com/aquachain/aquachain/aquadb"
	"gitlab.com/aquachain/aquachain/common"
	"gitlab.com/aquachain/aquachain/common/bitutil"
	"gitlab.com/aquachain/aquachain/consensus/aquahash"
	"gitlab.com/aquachain/aquachain/core"
	"gitlab.com/aquachain/aquachain/core/bloombits"
	"gitlab.com/aquachain/aquachain/core/types"
	"gitlab.com/aquachain/aquachain/params"
	"verifharness/hx"
)

// encLen is the harness' own statement of the length of the sparse bitset encoding (independent of bitutil): 0 for an all-zero
// vector, 1 for a single non-zero byte, otherwise encLen(bitset) + number of non-zero bytes.
func encLen(v []byte) int {
	nz := 0
	for _, b := range v {
		if b != 0 {
			nz++
		}
	}
	if nz == 0 || len(v) == 0 {
		return 0
	}
	if len(v) == 1 {
		return 1
	}
	bs := make([]byte, (len(v)+7)/8)
	for i, b := range v {
		if b != 0 {
			bs[i/8] |= 1 << uint(7-i%8)
		}
	}
	return encLen(bs) + nz
}

func zErr(err error) string {
	switch {
	case err == nil:
		return "ok"
	case strings.Contains(err.Error(), "missing bytes"):
		return "missing"
	case strings.Contains(err.Error(), "extra bytes"):
		return "unreferenced"
	case strings.Contains(err.Error(), "size exceeded"):
		return "exceeded"
	case strings.Contains(err.Error(), "zero byte"):
		return "zero"
	}
	return "err?" + err.Error()
}

// czCase: compress + decompress one vector on the real code, emit the case, judge the round trip (J6).
func (g *gen) czCase(v []byte) {
	run := g.run
	out := hx.Safe(func() string {
		c := bitutil.CompressBytes(v)
		d, err := bitutil.DecompressBytes(c, len(v))
		st := "ok"
		if err != nil {
			st = "err"
		} else if !bytes.Equal(d, v) {
			st = "bad"
		}
		return hx.Hex(c) + " " + st
	})
	e := encLen(v)
	switch {
	case e == len(v):
		run.Count("cz:encoding-equals-length")
	case e == len(v)-1:
		run.Count("cz:encoding-one-shorter")
	case e == len(v)+1:
		run.Count("cz:encoding-one-longer")
	case e < len(v):
		run.Count("cz:compressible")
	default:
		run.Count("cz:incompressible")
	}
	run.Count("op:cz")
	run.Case("cz "+hx.Hex(v), out)
	if !strings.HasSuffix(out, " ok") {
		run.Violate("bitutil-roundtrip", "bitutil-roundtrip", "cz "+hx.Hex(v), fmt.Sprintf("DecompressBytes(CompressBytes(v), len v) != v (len %d, encoding length %d): %s", len(v), e, out[strings.LastIndex(out, " ")+1:]))
	}
}

func (g *gen) vecWith(L, k int) []byte {
	v := make([]byte, L)
	perm := make([]int, L)
	for i := range perm {
		perm[i] = i
	}
	for i := L - 1; i > 0; i-- {
		j := g.r.Intn(i + 1)
		perm[i], perm[j] = perm[j], perm[i]
	}
	for _, p := range perm[:k] {
		v[p] = byte(1 + g.r.Intn(255))
	}
	return v
}

func (g *gen) partCompress(nRandom int) {
	run := g.run
	// vectors around the break-even density, by construction: for every length scan the number of non-zero bytes and keep the
	// vectors whose encoding length is len-1, len, len+1 (plus the all-zero, single-byte and full vectors)
	for _, L := range []int{0, 1, 2, 3, 8, 9, 16, 17, 64, 128, 256, 257, 512} {
		for k := 0; k <= L; k++ {
			tries := 1
			if L <= 64 {
				tries = 2
			}
			for t := 0; t < tries; t++ {
				v := g.vecWith(L, k)
				e := encLen(v)
				if e >= L-1 && e <= L+1 || k == 0 || k == L || k == 1 || g.r.Intn(40) == 0 {
					g.czCase(v)
				}
			}
		}
	}
	// 512-byte vector (4096-block section) with exactly 439 non-zero bytes and no all-zero 8-byte group: 439 + 64 + 8 + 1 = 512
	for _, k := range []int{438, 439, 440} {
		for t := 0; t < 3; t++ {
			g.czCase(g.vecWith(512, k))
		}
	}
	for i := 0; i < nRandom; i++ {
		L := g.r.Intn(70)
		v := g.vecWith(L, g.r.Intn(L+1))
		g.czCase(v)
		// malformed stream for the decoder: mutated encodings and random bytes with arbitrary targets
		c := bitutil.CompressBytes(v)
		m := append([]byte{}, c...)
		target := L
		switch g.r.Intn(6) {
		case 0:
			if len(m) > 0 {
				m = m[:len(m)-1]
			}
		case 1:
			m = append(m, byte(g.r.Intn(256)))
		case 2:
			if len(m) > 0 {
				m[g.r.Intn(len(m))] = 0
			}
		case 3:
			if len(m) > 0 {
				m[0] ^= 1 << uint(g.r.Intn(8))
			}
		case 4:
			target = g.r.Intn(80)
		case 5:
			m = g.r.Bytes(g.r.Intn(12))
			target = g.r.Intn(40)
		}
		run.Count("op:dz")
		o := hx.Safe(func() string {
			d, err := bitutil.DecompressBytes(m, target)
			if err != nil {
				return zErr(err)
			}
			return "ok:" + hx.Hex(d)
		})
		run.Count("dz:" + strings.SplitN(o, ":", 2)[0])
		run.Case(fmt.Sprintf("dz %s %d", hx.Hex(m), target), o)
	}
}

// ---------------------------------------------------------------------------------------------------------------------
// part F

func (g *gen) partBusy(d *dropper) {
	const size = 2048
	nblocks := size + 8 + g.r.Intn(20)
	cd := chainData{size: size, attempted: 1, nblocks: nblocks, blocks: map[int]receiptSet{}}
	type busy struct {
		it     item
		groups int
	}
	var bs []busy
	for _, k := range []int{218, 219, 220} { // encoding of the address' bit vectors: 255 (kept), 256 (raw at break-even), 257 (raw)
		bs = append(bs, busy{itX(g.r.Bytes(20)), k})
	}
	next := map[int]uint64{}
	for _, b := range bs {
		// choose the 8-block groups: every cluster of 8 groups (64 blocks) keeps at least one, so that no 8-byte group of the
		// vector is all-zero
		chosen := map[int]bool{}
		for c := 0; c < 32; c++ {
			chosen[c*8+g.r.Intn(8)] = true
		}
		for len(chosen) < b.groups {
			chosen[g.r.Intn(256)] = true
		}
		grps := make([]int, 0, len(chosen))
		for grp := range chosen {
			grps = append(grps, grp)
		}
		sort.Ints(grps) // map order must not leak into the generated chain
		for _, grp := range grps {
			n := grp*8 + g.r.Intn(8)
			if n == 0 {
				n = 1 + g.r.Intn(7)
			}
			id := uint64(n)*100 + next[n]
			next[n]++
			cd.blocks[n] = append(cd.blocks[n], []lg{{id: id, zero: g.r.Bool(), addr: b.it}})
		}
	}
	for n := range cd.blocks {
		cd.nums = append(cd.nums, n)
	}
	sort.Ints(cd.nums)
	be, chainLine := g.materialize(cd, d)
	g.run.Count("busy-chain")
	for _, b := range bs {
		c := crit{addrs: []item{b.it}}
		g.query(be, cd, chainLine, 0, int64(size-1), c)
		g.query(be, cd, chainLine, 0, -1, c)
		lo := int64(g.r.Intn(size / 2))
		g.query(be, cd, chainLine, lo, lo+int64(g.r.Intn(size/2)), c)
	}
	g.query(be, cd, chainLine, 0, -1, crit{addrs: []item{bs[0].it, bs[1].it, bs[2].it}})
}

// ---------------------------------------------------------------------------------------------------------------------
// part G

// idxBackend is what aqua.BloomIndexer does (Reset / Process / Commit), plus a hook fired once right after the header with
// number `at` went through Process.
type idxBackend struct {
	db      aquadb.Database
	size    uint64
	gen     *bloombits.Generator
	section uint64
	head    common.Hash
	at      uint64
	fired   bool
	fn      func()
}

func (b *idxBackend) Reset(section uint64, lastSectionHead common.Hash) error {
	gen, err := bloombits.NewGenerator(uint(b.size))
	b.gen, b.section, b.head = gen, section, common.Hash{}
	return err
}

func (b *idxBackend) Process(header *types.Header) {
	b.gen.AddBloom(uint(header.Number.Uint64()-b.section*b.size), header.Bloom)
	b.head = header.Hash()
	if !b.fired && b.fn != nil && header.Number.Uint64() == b.at {
		b.fired = true
		b.fn()
	}
}

func (b *idxBackend) Commit() error {
	batch := b.db.NewBatch()
	for i := 0; i < types.BloomBitLength; i++ {
		bits, err := b.gen.Bitset(uint(i))
		if err != nil {
			return err
		}
		noteVec(bits)
		core.WriteBloomBits(batch, uint(i), b.section, b.head, bitutil.CompressBytes(bits))
	}
	return batch.Write()
}

type idxChain struct {
	head *types.Header
	feed event.Feed
	sink chan<- core.ChainEvent
}

func (c *idxChain) CurrentHeader() *types.Header { return types.CopyHeader(c.head) }
func (c *idxChain) SubscribeChainEvent(ch chan<- core.ChainEvent) event.Subscription {
	c.sink = ch
	return c.feed.Subscribe(ch)
}
func (c *idxChain) post(block *types.Block) { c.sink <- core.ChainEvent{Block: block, Hash: block.Hash()} }
func (c *idxChain) drained() bool          { return len(c.sink) == 0 }

// reorgScenario: the node is on fork A; while the real ChainIndexer walks section 0, right after header #switchAt, the canonical
// chain is rewritten to the heavier fork B (common ancestor `ancestor` < switchAt, inside the section) and the chain events are
// delivered; the node then keeps importing on B until the index has caught up. The committed index must describe fork B.
func (g *gen) reorgScenario(d *dropper, ancestor int, switchAt uint64) {
	run := g.run
	const size = 2048
	lenA, lenB := size+20, size+30
	run.Current(fmt.Sprintf("reorg ancestor=%d switchAt=%d (building)", ancestor, switchAt))
	// logs: common part and fork A from one generator call each, fork B elsewhere
	place := func(lo, hi, n int, forced []int) map[int]receiptSet {
		out := map[int]receiptSet{}
		nums := append([]int{}, forced...)
		for i := 0; i < n; i++ {
			nums = append(nums, lo+g.r.Intn(hi-lo+1))
		}
		for _, x := range nums {
			if x < lo || x > hi {
				continue
			}
			rs := g.receipts(uint64(x) * 100)
			for t := 0; t < 20 && len(rs.flat()) == 0; t++ {
				rs = g.receipts(uint64(x) * 100)
			}
			out[x] = rs
		}
		return out
	}
	sw := int(switchAt)
	common_ := place(1, ancestor, 8, []int{1, ancestor})
	onlyA := place(ancestor+1, lenA, 14, []int{ancestor + 1, sw, sw + 1, size - 1, size})
	onlyB := place(ancestor+1, lenB, 14, []int{ancestor + 1, ancestor + 2, sw - 1, sw, sw + 1, size - 1, size, size + 1})
	blocksA := map[int]receiptSet{}
	for n, rs := range common_ {
		blocksA[n] = rs
	}
	for n, rs := range onlyA {
		blocksA[n] = rs
	}
	db := aquadb.NewMemDatabase()
	genesis := core.GenesisBlockForTesting(db, common.Address{1}, big.NewInt(1000000))
	chainA, receiptsA := core.GenerateChain(context.TODO(), params.TestChainConfig, genesis, aquahash.NewFaker(), db, lenA, func(i int, bg *core.BlockGen) {
		if rs, ok := blocksA[i+1]; ok {
			for _, rc := range rs.real(uint64(i + 1)) {
				bg.AddUncheckedReceipt(rc)
			}
		}
	})
	chainB, receiptsB := core.GenerateChain(context.TODO(), params.TestChainConfig, chainA[ancestor-1], aquahash.NewFaker(), db, lenB-ancestor, func(i int, bg *core.BlockGen) {
		bg.SetCoinbase(common.Address{0xb})
		if rs, ok := onlyB[ancestor+i+1]; ok {
			for _, rc := range rs.real(uint64(ancestor + i + 1)) {
				bg.AddUncheckedReceipt(rc)
			}
		}
	})
	write := func(blocks []*types.Block, receipts []types.Receipts) {
		for i, block := range blocks {
			core.WriteBlock(db, block)
			core.WriteBlockReceipts(db, block.Hash(), block.NumberU64(), receipts[i])
		}
	}
	canonical := func(blocks []*types.Block) {
		for _, block := range blocks {
			core.WriteCanonicalHash(db, block.Hash(), block.NumberU64())
		}
		head := blocks[len(blocks)-1]
		core.WriteHeadBlockHash(db, head.Hash())
		core.WriteHeadHeaderHash(db, head.Hash())
	}
	write(chainA, receiptsA)
	write(chainB, receiptsB)
	canonical(chainA)

	chain := &idxChain{head: chainA[len(chainA)-1].Header()}
	reorged := make(chan struct{})
	nB := len(chainB)
	hook := &idxBackend{db: db, size: size, at: switchAt}
	hook.fn = func() {
		// what core.BlockChain does on a reorg: rewrite number->hash and the head, then post the chain events
		canonical(chainB)
		chain.post(chainB[nB-3])
		chain.post(chainB[nB-2])
		for !chain.drained() { // the second event picked up = the event loop is done with the first (reorg notified)
			time.Sleep(2 * time.Millisecond)
		}
		close(reorged)
	}
	indexer := core.NewChainIndexer(params.TestChainConfig, db, aquadb.NewTable(db, string(core.BloomBitsIndexPrefix)), hook, size, 0, 0, "verif-bloombits")
	defer indexer.Close()
	run.Current(fmt.Sprintf("reorg ancestor=%d switchAt=%d (indexing)", ancestor, switchAt))
	indexer.Start(chain)
	status := "ok"
	select {
	case <-reorged:
	case <-time.After(240 * time.Second):
		status = "hang"
	}
	last := chainB[nB-1]
	if status == "ok" {
		deadline := time.Now().Add(240 * time.Second)
		stable := 0
		for {
			time.Sleep(20 * time.Millisecond)
			if sections, _, _ := indexer.Sections(); sections == 1 && chain.drained() {
				stable++
				if stable >= 3 {
					break
				}
				continue
			}
			stable = 0
			if time.Now().After(deadline) {
				status = "hang"
				break
			}
			if chain.drained() {
				chain.post(last)
			}
		}
	}
	// the final canonical chain: common part + fork B
	cd := chainData{size: size, attempted: 1, nblocks: lenB, blocks: map[int]receiptSet{}}
	for n, rs := range common_ {
		cd.blocks[n] = rs
	}
	for n, rs := range onlyB {
		cd.blocks[n] = rs
	}
	for n := range cd.blocks {
		cd.nums = append(cd.nums, n)
	}
	sort.Ints(cd.nums)
	chainLine := cd.line()
	run.Count("op:chain")
	run.Count("reorg-scenario")
	if status != "ok" {
		run.Violate("hang", "indexer-hang", fmt.Sprintf("reorg ancestor=%d switchAt=%d", ancestor, switchAt), "the chain indexer never finished section 0 after the reorg")
		run.Case(chainLine, "hang")
		return
	}
	run.Case(chainLine, "ok")
	sections, _, _ := indexer.Sections()
	be := &backend{db: db, size: size, sections: sections, d: d, mux: new(event.TypeMux), feed: new(event.Feed)}
	// queries: logs that exist only on fork B in the part of the section walked before the switch, and everything around it
	var bLogs []lg
	for n, rs := range onlyB {
		if n <= sw {
			bLogs = append(bLogs, rs.flat()...)
		}
	}
	sort.Slice(bLogs, func(i, j int) bool { return bLogs[i].id < bLogs[j].id })
	qs := [][2]int64{{0, -1}, {0, size - 1}, {int64(ancestor), int64(sw)}, {int64(ancestor + 1), int64(sw + 1)}, {int64(sw) - 3, int64(sw) + 3}, {int64(sw + 1), -1}}
	for _, r := range qs {
		g.query(be, cd, chainLine, r[0], r[1], crit{})
		var from *lg
		if len(bLogs) > 0 {
			from = &bLogs[g.r.Intn(len(bLogs))]
		}
		if from != nil {
			g.query(be, cd, chainLine, r[0], r[1], crit{addrs: []item{from.addr}})
		}
		g.query(be, cd, chainLine, r[0], r[1], g.crit(from))
	}
}

func (g *gen) partReorg(n int, d *dropper) {
	const size = 2048
	for i := 0; i < n; i++ {
		ancestor := 50 + g.r.Intn(size-300)
		var sw int
		switch i % 3 {
		case 0:
			sw = ancestor + 2 + g.r.Intn(200)
		case 1:
			sw = size - 2 - g.r.Intn(4) // just before the section end
		default:
			sw = ancestor + 1 + g.r.Intn(size-2-ancestor)
		}
		if sw > size-2 {
			sw = size - 2
		}
		if sw <= ancestor {
			sw = ancestor + 1
		}
		t0 := time.Now()
		g.reorgScenario(d, ancestor, uint64(sw))
		g.run.Notes[fmt.Sprintf("reorg%d_s", i)] = fmt.Sprintf("%.1f", time.Since(t0).Seconds())
	}
}

// c16 (second file): the index as stored and as built by the real chain indexer.
//
//	part E  common/bitutil CompressBytes/DecompressBytes around the break-even density (cases cz, dz; judgement J6 bitutil-roundtrip)
//	part F  a chain in which busy contracts log in exactly 218/219/220 of the 256 eight-block groups of a 2048-block section, so
//	        that a stored bit vector's encoding is one byte shorter than / exactly as long as / one byte longer than the vector
//	part G  the real core.ChainIndexer over the REAL aqua.BloomIndexer backend (plus a hook) with a reorg landing
//	        while processSection is between two headers; afterwards Filter.Logs vs brute force over the final canonical chain
package main

import (
	"bytes"
	"context"
	"fmt"
	"math/big"
	"sort"
	"strings"
	"time"

	"gitlab.com/aquachain/aquachain/aqua"
	"gitlab.com/aquachain/aquachain/aqua/event"
	"gitlab.com/aquachain/aquachain/aquadb"
	"gitlab.com/aquachain/aquachain/common"
	"gitlab.com/aquachain/aquachain/common/bitutil"
	"gitlab.com/aquachain/aquachain/consensus/aquahash"
	"gitlab.com/aquachain/aquachain/core"
	"gitlab.com/aquachain/aquachain/core/types"
	"gitlab.com/aquachain/aquachain/params"
	"verifharness/hx"
)

// encLen is the harness' own statement of the length of the sparse bitset encoding (independent of bitutil): 0 for an all-zero
// vector, 1 for a single non-zero byte, otherwise encLen(bitset) + number of non-zero bytes.
func encLen(v []byte) int {
	nz := 0
	for _, b := range v {
		if b != 0 {
			nz++
		}
	}
	if nz == 0 || len(v) == 0 {
		return 0
	}
	if len(v) == 1 {
		return 1
	}
	bs := make([]byte, (len(v)+7)/8)
	for i, b := range v {
		if b != 0 {
			bs[i/8] |= 1 << uint(7-i%8)
		}
	}
	return encLen(bs) + nz
}

func zErr(err error) string {
	switch {
	case err == nil:
		return "ok"
	case strings.Contains(err.Error(), "missing bytes"):
		return "missing"
	case strings.Contains(err.Error(), "extra bytes"):
		return "unreferenced"
	case strings.Contains(err.Error(), "size exceeded"):
		return "exceeded"
	case strings.Contains(err.Error(), "zero byte"):
		return "zero"
	}
	return "err?" + err.Error()
}

// czCase: compress + decompress one vector on the real code, emit the case, judge the round trip (J6).
func (g *gen) czCase(v []byte) {
	run := g.run
	out := hx.Safe(func() string {
		c := bitutil.CompressBytes(v)
		d, err := bitutil.DecompressBytes(c, len(v))
		st := "ok"
		if err != nil {
			st = "err"
		} else if !bytes.Equal(d, v) {
			st = "bad"
		}
		return hx.Hex(c) + " " + st
	})
	e := encLen(v)
	switch {
	case e == len(v):
		run.Count("cz:encoding-equals-length")
	case e == len(v)-1:
		run.Count("cz:encoding-one-shorter")
	case e == len(v)+1:
		run.Count("cz:encoding-one-longer")
	case e < len(v):
		run.Count("cz:compressible")
	default:
		run.Count("cz:incompressible")
	}
	run.Count("op:cz")
	run.Case("cz "+hx.Hex(v), out)
	if !strings.HasSuffix(out, " ok") {
		run.Violate("bitutil-roundtrip", "bitutil-roundtrip", "cz "+hx.Hex(v), fmt.Sprintf("DecompressBytes(CompressBytes(v), len v) != v (len %d, encoding length %d): %s", len(v), e, out[strings.LastIndex(out, " ")+1:]))
	}
}

func (g *gen) vecWith(L, k int) []byte {
	v := make([]byte, L)
	perm := make([]int, L)
	for i := range perm {
		perm[i] = i
	}
	for i := L - 1; i > 0; i-- {
		j := g.r.Intn(i + 1)
		perm[i], perm[j] = perm[j], perm[i]
	}
	for _, p := range perm[:k] {
		v[p] = byte(1 + g.r.Intn(255))
	}
	return v
}

func (g *gen) partCompress(nRandom int) {
	run := g.run
	// vectors around the break-even density, by construction: for every length scan the number of non-zero bytes and keep the
	// vectors whose encoding length is len-1, len, len+1 (plus the all-zero, single-byte and full vectors)
	for _, L := range []int{0, 1, 2, 3, 8, 9, 16, 17, 64, 128, 256, 257, 512} {
		for k := 0; k <= L; k++ {
			tries := 1
			if L <= 64 {
				tries = 2
			}
			for t := 0; t < tries; t++ {
				v := g.vecWith(L, k)
				e := encLen(v)
				if e >= L-1 && e <= L+1 || k == 0 || k == L || k == 1 || g.r.Intn(40) == 0 {
					g.czCase(v)
				}
			}
		}
	}
	// 512-byte vector (4096-block section) with exactly 439 non-zero bytes and no all-zero 8-byte group: 439 + 64 + 8 + 1 = 512
	for _, k := range []int{438, 439, 440} {
		for t := 0; t < 3; t++ {
			g.czCase(g.vecWith(512, k))
		}
	}
	for i := 0; i < nRandom; i++ {
		L := g.r.Intn(70)
		v := g.vecWith(L, g.r.Intn(L+1))
		g.czCase(v)
		// malformed stream for the decoder: mutated encodings and random bytes with arbitrary targets
		c := bitutil.CompressBytes(v)
		m := append([]byte{}, c...)
		target := L
		switch g.r.Intn(6) {
		case 0:
			if len(m) > 0 {
				m = m[:len(m)-1]
			}
		case 1:
			m = append(m, byte(g.r.Intn(256)))
		case 2:
			if len(m) > 0 {
				m[g.r.Intn(len(m))] = 0
			}
		case 3:
			if len(m) > 0 {
				m[0] ^= 1 << uint(g.r.Intn(8))
			}
		case 4:
			target = g.r.Intn(80)
		case 5:
			m = g.r.Bytes(g.r.Intn(12))
			target = g.r.Intn(40)
		}
		run.Count("op:dz")
		o := hx.Safe(func() string {
			d, err := bitutil.DecompressBytes(m, target)
			if err != nil {
				return zErr(err)
			}
			return "ok:" + hx.Hex(d)
		})
		run.Count("dz:" + strings.SplitN(o, ":", 2)[0])
		run.Case(fmt.Sprintf("dz %s %d", hx.Hex(m), target), o)
	}
}

// ---------------------------------------------------------------------------------------------------------------------
// part F

func (g *gen) partBusy(d *dropper) {
	const size = 2048
	nblocks := size + 8 + g.r.Intn(20)
	cd := chainData{size: size, attempted: 1, nblocks: nblocks, blocks: map[int]receiptSet{}}
	type busy struct {
		it     item
		groups int
	}
	var bs []busy
	for _, k := range []int{218, 219, 220} { // encoding of the address' bit vectors: 255 (kept), 256 (raw at break-even), 257 (raw)
		bs = append(bs, busy{itX(g.r.Bytes(20)), k})
	}
	next := map[int]uint64{}
	for _, b := range bs {
		// choose the 8-block groups: every cluster of 8 groups (64 blocks) keeps at least one, so that no 8-byte group of the
		// vector is all-zero
		chosen := map[int]bool{}
		for c := 0; c < 32; c++ {
			chosen[c*8+g.r.Intn(8)] = true
		}
		for len(chosen) < b.groups {
			chosen[g.r.Intn(256)] = true
		}
		grps := make([]int, 0, len(chosen))
		for grp := range chosen {
			grps = append(grps, grp)
		}
		sort.Ints(grps) // map order must not leak into the generated chain
		for _, grp := range grps {
			n := grp*8 + g.r.Intn(8)
			if n == 0 {
				n = 1 + g.r.Intn(7)
			}
			id := uint64(n)*100 + next[n]
			next[n]++
			cd.blocks[n] = append(cd.blocks[n], []lg{{id: id, zero: g.r.Bool(), addr: b.it}})
		}
	}
	for n := range cd.blocks {
		cd.nums = append(cd.nums, n)
	}
	sort.Ints(cd.nums)
	be, chainLine := g.materialize(cd, d)
	g.run.Count("busy-chain")
	for _, b := range bs {
		c := crit{addrs: []item{b.it}}
		g.query(be, cd, chainLine, 0, int64(size-1), c)
		g.query(be, cd, chainLine, 0, -1, c)
		lo := int64(g.r.Intn(size / 2))
		g.query(be, cd, chainLine, lo, lo+int64(g.r.Intn(size/2)), c)
	}
	g.query(be, cd, chainLine, 0, -1, crit{addrs: []item{bs[0].it, bs[1].it, bs[2].it}})
}

// ---------------------------------------------------------------------------------------------------------------------
// part G

// hookBackend is the REAL aqua.BloomIndexer backend (Reset / Process / Commit as compiled from aqua/bloombits.go) plus a hook
// fired once right after the header with number `at` went through Process.
type hookBackend struct {
	*aqua.BloomIndexer
	at    uint64
	fired bool
	fn    func()
}

func (h *hookBackend) Process(header *types.Header) {
	h.BloomIndexer.Process(header)
	if !h.fired && h.fn != nil && header.Number.Uint64() == h.at {
		h.fired = true
		h.fn()
	}
}

type idxChain struct {
	head *types.Header
	feed event.Feed
	sink chan<- core.ChainEvent
}

func (c *idxChain) CurrentHeader() *types.Header { return types.CopyHeader(c.head) }
func (c *idxChain) SubscribeChainEvent(ch chan<- core.ChainEvent) event.Subscription {
	c.sink = ch
	return c.feed.Subscribe(ch)
}
func (c *idxChain) post(block *types.Block) { c.sink <- core.ChainEvent{Block: block, Hash: block.Hash()} }
func (c *idxChain) drained() bool          { return len(c.sink) == 0 }

// reorgScenario: the node is on fork A; while the real ChainIndexer walks section 0, right after header #switchAt, the canonical
// chain is rewritten to the heavier fork B (common ancestor `ancestor` < switchAt, inside the section) and the chain events are
// delivered; the node then keeps importing on B until the index has caught up. The committed index must describe fork B.
func (g *gen) reorgScenario(d *dropper, ancestor int, switchAt uint64) {
	run := g.run
	const size = 2048
	lenA, lenB := size+20, size+30
	run.Current(fmt.Sprintf("reorg ancestor=%d switchAt=%d (building)", ancestor, switchAt))
	// logs: common part and fork A from one generator call each, fork B elsewhere
	place := func(lo, hi, n int, forced []int) map[int]receiptSet {
		out := map[int]receiptSet{}
		nums := append([]int{}, forced...)
		for i := 0; i < n; i++ {
			nums = append(nums, lo+g.r.Intn(hi-lo+1))
		}
		for _, x := range nums {
			if x < lo || x > hi {
				continue
			}
			rs := g.receipts(uint64(x) * 100)
			for t := 0; t < 20 && len(rs.flat()) == 0; t++ {
				rs = g.receipts(uint64(x) * 100)
			}
			out[x] = rs
		}
		return out
	}
	sw := int(switchAt)
	common_ := place(1, ancestor, 8, []int{1, ancestor})
	onlyA := place(ancestor+1, lenA, 14, []int{ancestor + 1, sw, sw + 1, size - 1, size})
	onlyB := place(ancestor+1, lenB, 14, []int{ancestor + 1, ancestor + 2, sw - 1, sw, sw + 1, size - 1, size, size + 1})
	blocksA := map[int]receiptSet{}
	for n, rs := range common_ {
		blocksA[n] = rs
	}
	for n, rs := range onlyA {
		blocksA[n] = rs
	}
	db := aquadb.NewMemDatabase()
	genesis := core.GenesisBlockForTesting(db, common.Address{1}, big.NewInt(1000000))
	chainA, receiptsA := core.GenerateChain(context.TODO(), params.TestChainConfig, genesis, aquahash.NewFaker(), db, lenA, func(i int, bg *core.BlockGen) {
		if rs, ok := blocksA[i+1]; ok {
			for _, rc := range rs.real(uint64(i + 1)) {
				bg.AddUncheckedReceipt(rc)
			}
		}
	})
	chainB, receiptsB := core.GenerateChain(context.TODO(), params.TestChainConfig, chainA[ancestor-1], aquahash.NewFaker(), db, lenB-ancestor, func(i int, bg *core.BlockGen) {
		bg.SetCoinbase(common.Address{0xb})
		if rs, ok := onlyB[ancestor+i+1]; ok {
			for _, rc := range rs.real(uint64(ancestor + i + 1)) {
				bg.AddUncheckedReceipt(rc)
			}
		}
	})
	write := func(blocks []*types.Block, receipts []types.Receipts) {
		for i, block := range blocks {
			core.WriteBlock(db, block)
			core.WriteBlockReceipts(db, block.Hash(), block.NumberU64(), receipts[i])
		}
	}
	canonical := func(blocks []*types.Block) {
		for _, block := range blocks {
			core.WriteCanonicalHash(db, block.Hash(), block.NumberU64())
		}
		head := blocks[len(blocks)-1]
		core.WriteHeadBlockHash(db, head.Hash())
		core.WriteHeadHeaderHash(db, head.Hash())
	}
	write(chainA, receiptsA)
	write(chainB, receiptsB)
	canonical(chainA)

	chain := &idxChain{head: chainA[len(chainA)-1].Header()}
	reorged := make(chan struct{})
	nB := len(chainB)
	hook := &hookBackend{BloomIndexer: aqua.VerifBloomBackend(db, size), at: switchAt}
	hook.fn = func() {
		// what core.BlockChain does on a reorg: rewrite number->hash and the head, then post the chain events
		canonical(chainB)
		chain.post(chainB[nB-3])
		chain.post(chainB[nB-2])
		for !chain.drained() { // the second event picked up = the event loop is done with the first (reorg notified)
			time.Sleep(2 * time.Millisecond)
		}
		close(reorged)
	}
	indexer := core.NewChainIndexer(params.TestChainConfig, db, aquadb.NewTable(db, string(core.BloomBitsIndexPrefix)), hook, size, 0, 0, "verif-bloombits")
	defer indexer.Close()
	run.Current(fmt.Sprintf("reorg ancestor=%d switchAt=%d (indexing)", ancestor, switchAt))
	indexer.Start(chain)
	status := "ok"
	select {
	case <-reorged:
	case <-time.After(240 * time.Second):
		status = "hang"
	}
	last := chainB[nB-1]
	if status == "ok" {
		deadline := time.Now().Add(240 * time.Second)
		stable := 0
		for {
			time.Sleep(20 * time.Millisecond)
			if sections, _, _ := indexer.Sections(); sections == 1 && chain.drained() {
				stable++
				if stable >= 3 {
					break
				}
				continue
			}
			stable = 0
			if time.Now().After(deadline) {
				status = "hang"
				break
			}
			if chain.drained() {
				chain.post(last)
			}
		}
	}
	// the final canonical chain: common part + fork B
	cd := chainData{size: size, attempted: 1, nblocks: lenB, blocks: map[int]receiptSet{}}
	for n, rs := range common_ {
		cd.blocks[n] = rs
	}
	for n, rs := range onlyB {
		cd.blocks[n] = rs
	}
	for n := range cd.blocks {
		cd.nums = append(cd.nums, n)
	}
	sort.Ints(cd.nums)
	chainLine := cd.line()
	run.Count("op:chain")
	run.Count("reorg-scenario")
	if status != "ok" {
		run.Violate("hang", "indexer-hang", fmt.Sprintf("reorg ancestor=%d switchAt=%d", ancestor, switchAt), "the chain indexer never finished section 0 after the reorg")
		run.Case(chainLine, "hang")
		return
	}
	run.Case(chainLine, "ok")
	sections, _, _ := indexer.Sections()
	be := &backend{db: db, size: size, sections: sections, d: d, mux: new(event.TypeMux), feed: new(event.Feed)}
	// queries: logs that exist only on fork B in the part of the section walked before the switch, and everything around it
	var bLogs []lg
	for n, rs := range onlyB {
		if n <= sw {
			bLogs = append(bLogs, rs.flat()...)
		}
	}
	sort.Slice(bLogs, func(i, j int) bool { return bLogs[i].id < bLogs[j].id })
	qs := [][2]int64{{0, -1}, {0, size - 1}, {int64(ancestor), int64(sw)}, {int64(ancestor + 1), int64(sw + 1)}, {int64(sw) - 3, int64(sw) + 3}, {int64(sw + 1), -1}}
	for _, r := range qs {
		g.query(be, cd, chainLine, r[0], r[1], crit{})
		var from *lg
		if len(bLogs) > 0 {
			from = &bLogs[g.r.Intn(len(bLogs))]
		}
		if from != nil {
			g.query(be, cd, chainLine, r[0], r[1], crit{addrs: []item{from.addr}})
		}
		g.query(be, cd, chainLine, r[0], r[1], g.crit(from))
	}
}

func (g *gen) partReorg(n int, d *dropper) {
	const size = 2048
	for i := 0; i < n; i++ {
		ancestor := 50 + g.r.Intn(size-300)
		var sw int
		switch i % 3 {
		case 0:
			sw = ancestor + 2 + g.r.Intn(200)
		case 1:
			sw = size - 2 - g.r.Intn(4) // just before the section end
		default:
			sw = ancestor + 1 + g.r.Intn(size-2-ancestor)
		}
		if sw > size-2 {
			sw = size - 2
		}
		if sw <= ancestor {
			sw = ancestor + 1
		}
		t0 := time.Now()
		g.reorgScenario(d, ancestor, uint64(sw))
		g.run.Notes[fmt.Sprintf("reorg%d_s", i)] = fmt.Sprintf("%.1f", time.Since(t0).Seconds())
	}
}

// ---------------------------------------------------------------------------------------------------------------------
// part H: the node's own wiring — aqua.NewBloomIndexer (256 confirmations, throttling), aqua.startBloomHandlers and
// AquaApiBackend.BloomStatus/ServiceFilter (section size params.BloomBitsBlocks) — through: index section 0 on fork A, query;
// reorg to the heavier fork B whose common ancestor lies inside section 0; the chain indexer re-processes the section; query again.

func (g *gen) reindexScenario(d *dropper, ancestor int) {
	run := g.run
	size := int(params.BloomBitsBlocks)
	const confirms = 256
	lenA, lenB := size+confirms+4, size+confirms+14
	run.Current(fmt.Sprintf("reindex ancestor=%d (building)", ancestor))
	place := func(lo, hi, n int, forced []int) map[int]receiptSet {
		out := map[int]receiptSet{}
		nums := append([]int{}, forced...)
		for i := 0; i < n; i++ {
			nums = append(nums, lo+g.r.Intn(hi-lo+1))
		}
		for _, x := range nums {
			if x < lo || x > hi {
				continue
			}
			rs := g.receipts(uint64(x) * 100)
			for t := 0; t < 20 && len(rs.flat()) == 0; t++ {
				rs = g.receipts(uint64(x) * 100)
			}
			out[x] = rs
		}
		return out
	}
	common_ := place(1, ancestor, 8, []int{1, ancestor})
	onlyA := place(ancestor+1, lenA, 12, []int{ancestor + 1, size - 1, size})
	onlyB := place(ancestor+1, lenB, 14, []int{ancestor + 1, ancestor + 2, (ancestor + size) / 2, size - 1, size, size + 1})
	merge := func(a, b map[int]receiptSet) map[int]receiptSet {
		out := map[int]receiptSet{}
		for n, rs := range a {
			out[n] = rs
		}
		for n, rs := range b {
			out[n] = rs
		}
		return out
	}
	blocksA := merge(common_, onlyA)
	db := aquadb.NewMemDatabase()
	genesis := core.GenesisBlockForTesting(db, common.Address{1}, big.NewInt(1000000))
	chainA, receiptsA := core.GenerateChain(context.TODO(), params.TestChainConfig, genesis, aquahash.NewFaker(), db, lenA, func(i int, bg *core.BlockGen) {
		if rs, ok := blocksA[i+1]; ok {
			for _, rc := range rs.real(uint64(i + 1)) {
				bg.AddUncheckedReceipt(rc)
			}
		}
	})
	run.Current(fmt.Sprintf("reindex ancestor=%d (building fork B)", ancestor))
	chainB, receiptsB := core.GenerateChain(context.TODO(), params.TestChainConfig, chainA[ancestor-1], aquahash.NewFaker(), db, lenB-ancestor, func(i int, bg *core.BlockGen) {
		bg.SetCoinbase(common.Address{0xb})
		if rs, ok := onlyB[ancestor+i+1]; ok {
			for _, rc := range rs.real(uint64(ancestor + i + 1)) {
				bg.AddUncheckedReceipt(rc)
			}
		}
	})
	write := func(blocks []*types.Block, receipts []types.Receipts) {
		for i, block := range blocks {
			core.WriteBlock(db, block)
			core.WriteBlockReceipts(db, block.Hash(), block.NumberU64(), receipts[i])
		}
	}
	canonical := func(blocks []*types.Block) {
		for _, block := range blocks {
			core.WriteCanonicalHash(db, block.Hash(), block.NumberU64())
		}
		head := blocks[len(blocks)-1]
		core.WriteHeadBlockHash(db, head.Hash())
		core.WriteHeadHeaderHash(db, head.Hash())
	}
	write(chainA, receiptsA)
	write(chainB, receiptsB)
	canonical(chainA)

	chain := &idxChain{head: chainA[len(chainA)-1].Header()}
	indexer := aqua.NewBloomIndexer(params.TestChainConfig, db, uint64(size)) // the node's constructor: confirmations + throttling
	defer indexer.Close()
	node := aqua.VerifNewBloomNode(params.TestChainConfig, db, indexer)
	defer node.Close()
	run.Current(fmt.Sprintf("reindex ancestor=%d (indexing fork A)", ancestor))
	indexer.Start(chain)
	waitIndexed := func(repost *types.Block) bool {
		deadline := time.Now().Add(240 * time.Second)
		stable := 0
		for {
			time.Sleep(20 * time.Millisecond)
			if sections, _, _ := indexer.Sections(); sections == 1 && (chain.sink == nil || chain.drained()) {
				stable++
				if stable >= 3 {
					return true
				}
				continue
			}
			stable = 0
			if time.Now().After(deadline) {
				return false
			}
			if repost != nil && chain.drained() {
				chain.post(repost)
			}
		}
	}
	mkcd := func(blocks map[int]receiptSet, nblocks int) chainData {
		cd := chainData{size: size, attempted: 1, nblocks: nblocks, blocks: blocks}
		for n := range blocks {
			cd.nums = append(cd.nums, n)
		}
		sort.Ints(cd.nums)
		return cd
	}
	phase := func(tag string, cd chainData, probe map[int]receiptSet) {
		chainLine := cd.line()
		run.Count("op:chain")
		run.Count("reindex-scenario:" + tag)
		run.Case(chainLine, "ok")
		_, sections := node.BloomStatus()
		be := &backend{db: db, size: uint64(size), sections: sections, d: d, mux: new(event.TypeMux), feed: new(event.Feed), node: node}
		var pl []lg
		for n, rs := range probe {
			if n < size {
				pl = append(pl, rs.flat()...)
			}
		}
		sort.Slice(pl, func(i, j int) bool { return pl[i].id < pl[j].id })
		for _, r := range [][2]int64{{0, -1}, {0, int64(size - 1)}, {int64(ancestor), int64(size)}, {int64(ancestor + 1), int64(size - 1)}} {
			g.query(be, cd, chainLine, r[0], r[1], crit{})
			var from *lg
			if len(pl) > 0 {
				from = &pl[g.r.Intn(len(pl))]
				g.query(be, cd, chainLine, r[0], r[1], crit{addrs: []item{from.addr}})
			}
			g.query(be, cd, chainLine, r[0], r[1], g.crit(from))
		}
	}
	if !waitIndexed(nil) {
		run.Violate("hang", "indexer-hang", fmt.Sprintf("reindex ancestor=%d phase A", ancestor), "the bloom indexer never stored section 0")
		return
	}
	phase("fork-A-indexed", mkcd(blocksA, lenA), onlyA)
	// the reorg: what core.BlockChain does (canonical rewrite + chain events); the indexer drops section 0 and re-processes it
	run.Current(fmt.Sprintf("reindex ancestor=%d (reorg, re-indexing)", ancestor))
	nB := len(chainB)
	canonical(chainB)
	chain.post(chainB[nB-3])
	chain.post(chainB[nB-2])
	for !chain.drained() {
		time.Sleep(2 * time.Millisecond)
	}
	if !waitIndexed(chainB[nB-1]) {
		run.Violate("hang", "indexer-hang", fmt.Sprintf("reindex ancestor=%d phase B", ancestor), "the bloom indexer never re-stored section 0 after the reorg")
		return
	}
	phase("fork-B-reindexed", mkcd(merge(common_, onlyB), lenB), onlyB)
}

func (g *gen) partReindex(n int, d *dropper) {
	size := int(params.BloomBitsBlocks)
	for i := 0; i < n; i++ {
		ancestor := 100 + g.r.Intn(size-600)
		t0 := time.Now()
		g.reindexScenario(d, ancestor)
		g.run.Notes[fmt.Sprintf("reindex%d_s", i)] = fmt.Sprintf("%.1f", time.Since(t0).Seconds())
	}
}

// c16: correspondence harness for log blooms, the bloom-bits index and log queries (property C16).
// Drives the real code in-process:
//
//	core/types      Bloom9, LogsBloom, CreateBloom, BloomLookup, Bloom.Test/TestBytes      (cases b9, cb, lk)
//	core/bloombits  calcBloomIndexes (overlay accessor), Generator, Matcher sessions           (cases idx, gen, mset/mq)
//	aqua/filters    bloomFilter, filterLogs (overlay accessors), Filter.Logs over generated
//	                chains with a committed bloom-bits index in a MemDatabase                  (cases bf, fl, chain/q)
//
// Every case line goes to the Lean model (which recomputes everything with its own Keccak); independently the harness
// judges the property directly on the real code:
//
//	J1 bloom-false-negative   an address/topic of a covered log does not test positive in the receipt or header bloom
//	J2 bloomfilter-excludes   bloomFilter rejects a bloom although filterLogs finds a matching log among the covered logs
//	J3 matcher-not-exact      a matcher session does not deliver exactly the blocks whose bloom passes every filter group
//	J4 logs-not-exact         Filter.Logs differs from the brute-force scan of the generated canonical receipts
//	J5 generator-transpose    Bitset(i) bit n != bit i of bloom n
//	hang / panic              a session or query does not finish / panics
package main

import (
	"context"
	"encoding/binary"
	"encoding/hex"
	"encoding/json"
	"fmt"
	"math/big"
	"os"
	"sort"
	"strconv"
	"strings"
	"sync"
	"time"

	"gitlab.com/aquachain/aquachain/aqua"
	"gitlab.com/aquachain/aquachain/aqua/event"
	"gitlab.com/aquachain/aquachain/aqua/filters"
	"gitlab.com/aquachain/aquachain/aquadb"
	"gitlab.com/aquachain/aquachain/common"
	"gitlab.com/aquachain/aquachain/common/bitutil"
	alog "gitlab.com/aquachain/aquachain/common/log"
	"gitlab.com/aquachain/aquachain/consensus/aquahash"
	"gitlab.com/aquachain/aquachain/core"
	"gitlab.com/aquachain/aquachain/core/bloombits"
	"gitlab.com/aquachain/aquachain/core/types"
	"gitlab.com/aquachain/aquachain/crypto"
	"gitlab.com/aquachain/aquachain/params"
	"gitlab.com/aquachain/aquachain/rpc"
	"verifharness/hx"
)

// ---------------------------------------------------------------------------------------------------------------------
// items, logs, criteria and their line encodings

type raw []byte

func (r raw) Bytes() []byte { return []byte(r) }

var (
	poolA [][]byte // 20-byte addresses
	poolT [][]byte // 32-byte topics
)

// item: pool reference or raw bytes
type item struct {
	tok string
	b   []byte
}

func itA(i int) item { return item{"A" + strconv.Itoa(i), poolA[i]} }
func itT(i int) item { return item{"T" + strconv.Itoa(i), poolT[i]} }
func itX(b []byte) item {
	if len(b) == 0 {
		return item{"x", b}
	}
	return item{"x" + fmt.Sprintf("%x", b), b}
}

type lg struct {
	id     uint64
	zero   bool // TxHash == 0
	addr   item
	topics []item
}

func (l lg) tok() string {
	f := "n"
	if l.zero {
		f = "z"
	}
	ts := make([]string, len(l.topics))
	for i, t := range l.topics {
		ts[i] = t.tok
	}
	return f + strconv.FormatUint(l.id, 10) + ":" + l.addr.tok + ":" + strings.Join(ts, ",")
}

func (l lg) real(blockNumber uint64) *types.Log {
	out := &types.Log{Address: common.BytesToAddress(l.addr.b), BlockNumber: blockNumber}
	for _, t := range l.topics {
		out.Topics = append(out.Topics, common.BytesToHash(t.b))
	}
	out.Data = make([]byte, 8)
	binary.BigEndian.PutUint64(out.Data, l.id)
	if !l.zero {
		out.TxHash = common.BytesToHash([]byte{0x77, byte(l.id), byte(l.id >> 8)})
	}
	return out
}

func logID(l *types.Log) uint64 {
	if len(l.Data) != 8 {
		return ^uint64(0)
	}
	return binary.BigEndian.Uint64(l.Data)
}

type receiptSet [][]lg

func (rs receiptSet) flat() []lg {
	var out []lg
	for _, r := range rs {
		out = append(out, r...)
	}
	return out
}

func (rs receiptSet) tok() string {
	if len(rs) == 0 {
		return "-"
	}
	parts := make([]string, len(rs))
	for i, r := range rs {
		if len(r) == 0 {
			parts[i] = "_"
			continue
		}
		ls := make([]string, len(r))
		for j, l := range r {
			ls[j] = l.tok()
		}
		parts[i] = strings.Join(ls, ";")
	}
	return strings.Join(parts, "|")
}

func (rs receiptSet) real(blockNumber uint64) types.Receipts {
	out := make(types.Receipts, len(rs))
	for i, r := range rs {
		rc := types.NewReceipt(nil, false, 0)
		for _, l := range r {
			rc.Logs = append(rc.Logs, l.real(blockNumber))
		}
		rc.Bloom = types.CreateBloom(types.Receipts{rc})
		out[i] = rc
	}
	return out
}

type crit struct {
	addrs  []item
	topics [][]item
}

func (c crit) tok() string {
	a := "-"
	if len(c.addrs) > 0 {
		p := make([]string, len(c.addrs))
		for i, x := range c.addrs {
			p[i] = x.tok
		}
		a = strings.Join(p, ",")
	}
	t := "-"
	if len(c.topics) > 0 {
		p := make([]string, len(c.topics))
		for i, pos := range c.topics {
			if len(pos) == 0 {
				p[i] = "*"
				continue
			}
			q := make([]string, len(pos))
			for j, x := range pos {
				q[j] = x.tok
			}
			p[i] = strings.Join(q, ",")
		}
		t = strings.Join(p, "/")
	}
	return a + " " + t
}

func (c crit) real() ([]common.Address, [][]common.Hash) {
	var as []common.Address
	for _, a := range c.addrs {
		as = append(as, common.BytesToAddress(a.b))
	}
	var ts [][]common.Hash
	for _, pos := range c.topics {
		hs := []common.Hash{}
		for _, x := range pos {
			hs = append(hs, common.BytesToHash(x.b))
		}
		ts = append(ts, hs)
	}
	return as, ts
}

// specMatch is the harness' own statement of "log matches criteria" (independent of filterLogs).
func specMatch(c crit, l lg) bool {
	if len(c.addrs) > 0 {
		ok := false
		for _, a := range c.addrs {
			if common.BytesToAddress(a.b) == common.BytesToAddress(l.addr.b) {
				ok = true
			}
		}
		if !ok {
			return false
		}
	}
	if len(c.topics) > len(l.topics) {
		return false
	}
	for i, pos := range c.topics {
		if len(pos) == 0 {
			continue
		}
		ok := false
		for _, x := range pos {
			if common.BytesToHash(x.b) == common.BytesToHash(l.topics[i].b) {
				ok = true
			}
		}
		if !ok {
			return false
		}
	}
	return true
}

func idsTok(ids []uint64) string {
	if len(ids) == 0 {
		return "-"
	}
	p := make([]string, len(ids))
	for i, x := range ids {
		p[i] = strconv.FormatUint(x, 10)
	}
	return strings.Join(p, ",")
}

// searchCoinciding returns a random n-byte item at least two of whose three bloom bit indexes (bytes 0..5 of its Keccak-256,
// 11 bits each) are equal, the shared index satisfying want.
func searchCoinciding(r *hx.Rng, n int, want func(bit uint) bool) []byte {
	for {
		b := r.Bytes(n)
		h := crypto.Keccak256(b)
		var ix [3]uint
		for i := 0; i < 3; i++ {
			ix[i] = (uint(h[2*i+1]) + uint(h[2*i])<<8) & 2047
		}
		switch {
		case ix[0] == ix[1] && want(ix[0]), ix[0] == ix[2] && want(ix[0]), ix[1] == ix[2] && want(ix[1]):
			return b
		}
	}
}

// ---------------------------------------------------------------------------------------------------------------------
// generators

type gen struct {
	r   *hx.Rng
	run *hx.Run
}

func (g *gen) addr() item {
	if g.r.Intn(12) == 0 {
		b := g.r.Bytes(20)
		if g.r.Intn(4) == 0 {
			b[0] = 0 // leading zero byte (big.Int round trips would drop it)
		}
		return itX(b)
	}
	return itA(g.r.Intn(len(poolA)))
}
func (g *gen) topic() item {
	if g.r.Intn(12) == 0 {
		b := g.r.Bytes(32)
		if g.r.Intn(4) == 0 {
			b[0] = 0
		}
		return itX(b)
	}
	return itT(g.r.Intn(len(poolT)))
}

func (g *gen) log(id uint64) lg {
	l := lg{id: id, zero: g.r.Intn(3) != 0, addr: g.addr()}
	n := g.r.Intn(5) // 0..4 topics
	for i := 0; i < n; i++ {
		l.topics = append(l.topics, g.topic())
	}
	return l
}

func (g *gen) receipts(base uint64) receiptSet {
	var rs receiptSet
	nr := g.r.Intn(4)
	if g.r.Intn(4) == 0 {
		nr = 1
	}
	k := uint64(0)
	for i := 0; i < nr; i++ {
		var r []lg
		nl := g.r.Intn(4)
		for j := 0; j < nl; j++ {
			r = append(r, g.log(base+k))
			k++
		}
		rs = append(rs, r)
	}
	return rs
}

// criteria: mostly built from pool items so that answers are non-empty; sometimes derived from a concrete log.
func (g *gen) crit(from *lg) crit {
	var c crit
	switch g.r.Intn(4) {
	case 0: // no address constraint
	case 1:
		c.addrs = []item{g.addr()}
	default:
		n := 1 + g.r.Intn(3)
		for i := 0; i < n; i++ {
			c.addrs = append(c.addrs, g.addr())
		}
	}
	if from != nil && g.r.Bool() {
		c.addrs = append(c.addrs, from.addr)
	}
	np := g.r.Intn(4)
	if g.r.Intn(10) == 0 {
		np = 4 + g.r.Intn(2) // up to 5 positions: more positions than any log has topics
	}
	for i := 0; i < np; i++ {
		var pos []item
		switch g.r.Intn(3) {
		case 0: // wildcard
		case 1:
			pos = []item{g.topic()}
		default:
			n := 1 + g.r.Intn(3)
			for j := 0; j < n; j++ {
				pos = append(pos, g.topic())
			}
		}
		if from != nil && i < len(from.topics) && len(pos) > 0 && g.r.Intn(3) != 0 {
			pos = append(pos, from.topics[i])
		}
		c.topics = append(c.topics, pos)
	}
	if g.r.Intn(20) == 0 && len(c.topics) > 0 { // duplicate alternatives
		c.topics[0] = append(c.topics[0], c.topics[0]...)
	}
	return c
}

// ---------------------------------------------------------------------------------------------------------------------
// part A: bloom primitives

func bloomHex(b types.Bloom) string { return fmt.Sprintf("%x", b[:]) }

func (g *gen) partBloom(n int) {
	run := g.run
	items := []item{itX(nil), itX([]byte{0}), itX([]byte{0xff})}
	for i := range poolA {
		items = append(items, itA(i))
	}
	for i := range poolT {
		items = append(items, itT(i))
	}
	for i := 0; i < n; i++ {
		items = append(items, itX(g.r.Bytes(g.r.Intn(41))))
	}
	for _, it := range items {
		run.Count("op:b9")
		run.Case("b9 "+it.tok, hx.Safe(func() string { return hx.Hex(types.Bloom9(it.b).Bytes()) }))
		run.Count("op:idx")
		run.Case("idx "+it.tok, hx.Safe(func() string {
			ix := bloombits.VerifCalcBloomIndexes(it.b)
			return fmt.Sprintf("%d,%d,%d", ix[0], ix[1], ix[2])
		}))
	}
	// deterministic probes: addresses and topics with 1..3 leading zero bytes are covered for BloomLookup AND for TestBytes
	for nz := 1; nz <= 3; nz++ {
		za := itX(append(make([]byte, nz), poolA[0][nz:]...))
		zt := itX(append(make([]byte, nz), poolT[0][nz:]...))
		rc := types.NewReceipt(nil, false, 0)
		rc.Logs = []*types.Log{{Address: common.BytesToAddress(za.b), Topics: []common.Hash{common.BytesToHash(zt.b)}}}
		b := types.CreateBloom(types.Receipts{rc})
		for _, z := range []item{za, zt} {
			run.Count("op:tb-leading-zero-probe")
			run.Case("lk "+bloomHex(b)+" "+z.tok, strconv.FormatBool(types.BloomLookup(b, raw(z.b))))
			run.Case("tb "+bloomHex(b)+" "+z.tok, strconv.FormatBool(b.TestBytes(z.b)))
			if !types.BloomLookup(b, raw(z.b)) || !b.TestBytes(z.b) {
				run.Violate("bloom-false-negative", "bloom-false-negative-leading-zero", "probe "+z.tok, "item with leading zero bytes of a covered log tests negative (BloomLookup/TestBytes)")
			}
		}
	}
	for i := 0; i < n; i++ {
		rs := g.receipts(uint64(i * 100))
		real := rs.real(7)
		hdr := types.CreateBloom(real)
		run.Count("op:cb")
		run.Count(fmt.Sprintf("cb-receipts:%d", len(rs)))
		run.Case("cb "+rs.tok(), bloomHex(hdr))
		// J1: no false negatives, on the real code
		var all []lg
		for ri, r := range rs {
			rb := types.CreateBloom(types.Receipts{real[ri]})
			lb := types.BytesToBloom(types.LogsBloom(real[ri].Logs).Bytes())
			for _, l := range r {
				all = append(all, l)
				its := append([]item{l.addr}, l.topics...)
				for k, it := range its {
					var bb interface{ Bytes() []byte } = raw(it.b)
					if k == 0 {
						bb = common.BytesToAddress(it.b)
					} else {
						bb = common.BytesToHash(it.b)
					}
					if !types.BloomLookup(hdr, bb) || !types.BloomLookup(rb, bb) || !types.BloomLookup(lb, bb) {
						run.Violate("bloom-false-negative", "bloom-false-negative", "cb "+rs.tok()+" item "+it.tok, "an item of a covered log tests negative")
					}
					// Bloom.TestBytes is an exported bloom test: it must be positive for every covered item, leading zero bytes
					// or not (fix 7d17e77), on the header bloom and on the receipt bloom. (Bloom.Test takes a *big.Int, whose
					// Bytes() has no leading zeros by construction; it is only required to agree with TestBytes on such items.)
					tb := hdr.TestBytes(bb.Bytes())
					run.Count("op:tb")
					run.Case("tb "+bloomHex(hdr)+" "+it.tok, strconv.FormatBool(tb))
					if !tb || !rb.TestBytes(bb.Bytes()) {
						run.Violate("bloom-false-negative", "bloom-false-negative-testbytes", "cb "+rs.tok()+" item "+it.tok, "TestBytes negative on an item of a covered log")
					}
					if len(bb.Bytes()) > 0 && bb.Bytes()[0] != 0 && tb != hdr.Test(new(big.Int).SetBytes(bb.Bytes())) {
						run.Violate("testbytes-differs-from-test", "testbytes-differs-from-test", "tb "+it.tok, "TestBytes != Test on an item without leading zero")
					}
				}
			}
		}
		// lookups: members, non-members and near misses (one of the item's bits cleared)
		for k := 0; k < 3; k++ {
			it := g.topic()
			if g.r.Bool() {
				it = g.addr()
			}
			b := hdr
			if g.r.Intn(3) == 0 {
				bits := types.Bloom9(it.b)
				for j := 0; j < 2048; j++ {
					if bits.Bit(j) == 1 && g.r.Bool() {
						b[255-j/8] &^= 1 << uint(j%8)
					}
				}
			}
			run.Count("op:lk")
			res := types.BloomLookup(b, raw(it.b))
			run.Count(fmt.Sprintf("lk:%v", res))
			run.Case("lk "+bloomHex(b)+" "+it.tok, strconv.FormatBool(res))
		}
		// bloomFilter / filterLogs on the real code
		var from *lg
		if len(all) > 0 && g.r.Intn(3) != 0 {
			from = &all[g.r.Intn(len(all))]
		}
		c := g.crit(from)
		as, ts := c.real()
		bf := filters.VerifBloomFilter(hdr, as, ts)
		run.Count("op:bf")
		run.Count(fmt.Sprintf("bf:%v", bf))
		run.Case("bf "+bloomHex(hdr)+" "+c.tok(), strconv.FormatBool(bf))
		var flat []*types.Log
		for _, rc := range real {
			flat = append(flat, rc.Logs...)
		}
		got := filters.VerifFilterLogs(flat, as, ts)
		var ids, want []uint64
		for _, l := range got {
			ids = append(ids, logID(l))
		}
		for _, l := range all {
			if specMatch(c, l) {
				want = append(want, l.id)
			}
		}
		run.Count("op:fl")
		if len(ids) > 0 {
			run.Count("fl:nonempty")
		}
		run.Case("fl "+receiptSet{all}.tok()+" "+c.tok(), idsTok(ids))
		if idsTok(ids) != idsTok(want) {
			run.Violate("filterlogs-not-spec", "filterlogs-not-spec", "fl "+receiptSet{all}.tok()+" "+c.tok(), "filterLogs="+idsTok(ids)+" spec="+idsTok(want))
		}
		if !bf && len(ids) > 0 {
			run.Violate("bloomfilter-excludes", "bloomfilter-excludes", "bf "+rs.tok()+" "+c.tok(), "bloomFilter=false but filterLogs finds "+idsTok(ids))
		}
	}
}

// ---------------------------------------------------------------------------------------------------------------------
// part B: generator sessions

func bitsTok(bits []int) string {
	p := make([]string, len(bits))
	for i, b := range bits {
		p[i] = strconv.Itoa(b)
	}
	return strings.Join(p, ".")
}

func bloomOfBits(bits []int) types.Bloom {
	n := new(big.Int)
	for _, b := range bits {
		n.SetBit(n, b, 1)
	}
	return types.BytesToBloom(n.Bytes())
}

func (g *gen) sparseBits(max int) []int {
	n := g.r.Intn(max + 1)
	seen := map[int]bool{}
	var out []int
	for i := 0; i < n; i++ {
		b := g.r.Intn(2048)
		if g.r.Intn(6) == 0 {
			b = g.r.Pick([]int{0, 1, 7, 8, 2040, 2046, 2047, 1023, 1024})
		}
		if !seen[b] {
			seen[b] = true
			out = append(out, b)
		}
	}
	sort.Ints(out)
	return out
}

func genErr(err error) string {
	switch {
	case err == nil:
		return "ok"
	case strings.Contains(err.Error(), "out of bounds"):
		return "oob"
	case strings.Contains(err.Error(), "unexpected index"):
		return "idx"
	case strings.Contains(err.Error(), "not fully"):
		return "notfull"
	case strings.Contains(err.Error(), "multiple of 8"):
		return "err8"
	}
	return "err?" + err.Error()
}

func (g *gen) partGenerator(sizes []int) {
	run := g.run
	for _, size := range sizes {
		run.Count("op:gen")
		run.Count(fmt.Sprintf("gen-size:%d", size))
		var ops, outs []string
		gn, err := bloombits.NewGenerator(uint(size))
		if err != nil {
			run.Case(fmt.Sprintf("gen %d -", size), genErr(err))
			continue
		}
		nadd := size
		mode := g.r.Intn(5)
		if mode == 0 && size > 0 {
			nadd = g.r.Intn(size) // not filled
		}
		if mode == 1 {
			nadd = size + 2 // overflow
		}
		var blooms [][]int
		next := 0
		for k := 0; next < nadd && k < nadd+40; k++ {
			max := 6
			if g.r.Intn(30) == 0 {
				max = 200 // a few dense blooms
			}
			if next >= size { // overflow attempts
				max = 2
			}
			bits := g.sparseBits(max)
			idx := next
			if g.r.Intn(200) == 0 {
				idx = next + 1 + g.r.Intn(3) // wrong index
			}
			e := gn.AddBloom(uint(idx), bloomOfBits(bits))
			ops = append(ops, fmt.Sprintf("a%d:%s", idx, bitsTok(bits)))
			outs = append(outs, genErr(e))
			if e == nil {
				blooms = append(blooms, bits)
				next++
			} else if next >= size {
				next++ // count the refused overflow attempt
			}
		}
		qs := []int{0, 1, 7, 8, 2047, 2048, 2049, size - 1, size, size + 1, 5000}
		for k := 0; k < 6; k++ {
			qs = append(qs, g.r.Intn(2048))
		}
		for _, q := range qs {
			if q < 0 {
				continue
			}
			ops = append(ops, fmt.Sprintf("q%d", q))
			o := hx.Safe(func() string {
				v, e := gn.Bitset(uint(q))
				if e != nil {
					return genErr(e)
				}
				// J5: transposition judged directly
				for n := 0; n < len(blooms) && n < size; n++ {
					has := false
					for _, b := range blooms[n] {
						if b == q {
							has = true
						}
					}
					if (v[n/8]&(1<<uint(7-n%8)) != 0) != has {
						run.Violate("generator-transpose", "generator-transpose", fmt.Sprintf("gen %d bit %d block %d", size, q, n), "Bitset bit differs from the bloom's bit")
						break
					}
				}
				return "ok:" + hx.Hex(v)
			})
			if strings.HasPrefix(o, "panic") {
				o = "panic"
			}
			run.Count("genq:" + strings.SplitN(o, ":", 2)[0])
			outs = append(outs, o)
		}
		run.Case(fmt.Sprintf("gen %d %s", size, strings.Join(ops, ";")), strings.Join(outs, ";"))
	}
}

// ---------------------------------------------------------------------------------------------------------------------
// part C: matcher sessions over raw blooms with an in-memory bit-vector server

type vkey struct {
	bit uint
	sec uint64
}

type dropper struct {
	mu sync.Mutex
	r  *hx.Rng
}

func (d *dropper) drop() bool { d.mu.Lock(); defer d.mu.Unlock(); return d.r.Intn(8) == 0 }
func (d *dropper) intn(n int) int { d.mu.Lock(); defer d.mu.Unlock(); return d.r.Intn(n) }

// serve answers retrieval requests of one session from fetch(bit, section); occasionally it leaves a vector out (the
// distributor must re-request it). It keeps answering until ctx is cancelled.
func serve(ctx context.Context, session *bloombits.MatcherSession, fetch func(bit uint, sec uint64) []byte, d *dropper, threads, batch int) {
	requests := make(chan chan *bloombits.Retrieval)
	for i := 0; i < threads; i++ {
		go session.Multiplex(batch, 0, requests)
	}
	go func() {
		for {
			select {
			case <-ctx.Done():
				return
			case request := <-requests:
				task := <-request
				task.Bitsets = make([][]byte, len(task.Sections))
				for i, sec := range task.Sections {
					if !d.drop() {
						task.Bitsets[i] = fetch(task.Bit, sec)
					}
				}
				// the schedules the pipeline theorem quantifies over: answers out of order, the same section twice, and a
				// section nobody asked for (must all be harmless)
				secs, sets := append([]uint64{}, task.Sections...), append([][]byte{}, task.Bitsets...)
				for i := len(secs) - 1; i > 0; i-- {
					j := d.intn(i + 1)
					secs[i], secs[j] = secs[j], secs[i]
					sets[i], sets[j] = sets[j], sets[i]
				}
				if len(secs) > 0 && d.intn(4) == 0 {
					k := d.intn(len(secs))
					if len(sets[k]) > 0 {
						secs, sets = append(secs, secs[k]), append(sets, sets[k])
					}
				}
				if d.intn(8) == 0 {
					secs, sets = append(secs, 1000+uint64(d.intn(50))), append(sets, []byte{0xff})
				}
				task.Sections, task.Bitsets = secs, sets
				request <- task
			}
		}
	}()
}

// buildVectors runs the real Generator over the blooms of every section; ok=false when the generator refuses.
func buildVectors(size, sections int, bloomAt func(n int) types.Bloom) (map[vkey][]byte, bool) {
	vecs := map[vkey][]byte{}
	for s := 0; s < sections; s++ {
		gn, err := bloombits.NewGenerator(uint(size))
		if err != nil {
			return nil, false
		}
		for n := 0; n < size; n++ {
			gn.AddBloom(uint(n), bloomAt(s*size+n)) // error ignored, as BloomIndexer.Process does
		}
		for i := 0; i < types.BloomBitLength; i++ {
			v, err := gn.Bitset(uint(i))
			if err != nil {
				return nil, false
			}
			vecs[vkey{uint(i), uint64(s)}] = v
		}
	}
	return vecs, true
}

func runMatcher(m *bloombits.Matcher, begin, end uint64, fetch func(uint, uint64) []byte, d *dropper, threads, batch int) (string, []uint64) {
	ctx, cancel := context.WithTimeout(context.Background(), 120*time.Second)
	defer cancel()
	matches := make(chan uint64, 16)
	session, err := m.Start(ctx, begin, end, matches)
	if err != nil {
		return "starterr", nil
	}
	serve(ctx, session, fetch, d, threads, batch)
	var got []uint64
	for {
		select {
		case n, ok := <-matches:
			if !ok {
				session.Close()
				if session.Error() != nil {
					return "sessionerr", got
				}
				return "", got
			}
			got = append(got, n)
		case <-ctx.Done():
			go session.Close()
			return "hang", got
		}
	}
}

func (g *gen) filterGroups() ([][][]byte, string) {
	ng := g.r.Intn(4)
	var fs [][][]byte
	var toks []string
	for i := 0; i < ng; i++ {
		var grp [][]byte
		var gt []string
		na := g.r.Intn(4)
		for j := 0; j < na; j++ {
			if g.r.Intn(25) == 0 {
				grp = append(grp, nil)
				gt = append(gt, "nil")
				continue
			}
			it := g.topic()
			if g.r.Bool() {
				it = g.addr()
			}
			if g.r.Intn(15) == 0 {
				it = itX(g.r.Bytes(g.r.Intn(6))) // odd-length clause (never produced by filters.New, accepted by NewMatcher)
			}
			b := it.b
			if b == nil {
				b = []byte{}
			}
			grp = append(grp, b)
			gt = append(gt, it.tok)
		}
		fs = append(fs, grp)
		if len(gt) == 0 {
			toks = append(toks, "*")
		} else {
			toks = append(toks, strings.Join(gt, ","))
		}
	}
	if len(toks) == 0 {
		return fs, "-"
	}
	return fs, strings.Join(toks, "/")
}

func (g *gen) partMatcher(nsets, nq int, sizes []int) {
	run := g.run
	d := &dropper{r: g.r.Fork(99)}
	for si := 0; si < nsets; si++ {
		size := sizes[g.r.Intn(len(sizes))]
		sections := 1 + g.r.Intn(2)
		if size >= 4096 {
			sections = 1
		}
		total := size * sections
		// blooms: most blocks empty; some carry pool items (+ noise bits), clustered at byte and section edges
		bits := map[int][]int{}
		blockItems := map[int][]item{}
		nb := 10 + g.r.Intn(30)
		forced := []int{0, total - 1} // first block, last block and every section multiple always carry items
		for k := 1; k < sections; k++ {
			forced = append(forced, k*size, k*size-1)
		}
		for k := 0; k < nb+len(forced); k++ {
			n := g.r.Intn(total)
			switch g.r.Intn(4) {
			case 0:
				n = (g.r.Intn(sections+1)*size + g.r.Intn(5) - 2 + total) % total
			case 1:
				n = (g.r.Intn(total/8)*8 + g.r.Pick([]int{0, 7, 8})) % total
			}
			if k < len(forced) {
				n = forced[k]
			}
			acc := new(big.Int)
			ni := 1 + g.r.Intn(4)
			for j := 0; j < ni; j++ {
				it := g.topic()
				if g.r.Bool() {
					it = g.addr()
				}
				blockItems[n] = append(blockItems[n], it)
				// the block's bloom is built the way LogsBloom builds it: OR of bloom9 of its items
				acc.Or(acc, types.Bloom9(it.b))
			}
			var bl []int
			for j := 0; j < 2048; j++ {
				if acc.Bit(j) == 1 {
					bl = append(bl, j)
				}
			}
			bl = append(bl, g.sparseBits(3)...)
			sort.Ints(bl)
			bits[n] = bl
		}
		blooms := make([]types.Bloom, total)
		var toks []string
		keys := make([]int, 0, len(bits))
		for n := range bits {
			keys = append(keys, n)
		}
		sort.Ints(keys)
		for _, n := range keys {
			blooms[n] = bloomOfBits(bits[n])
			toks = append(toks, fmt.Sprintf("%d:%s", n, bitsTok(bits[n])))
		}
		vecs, ok := buildVectors(size, sections, func(n int) types.Bloom { return blooms[n] })
		setLine := fmt.Sprintf("mset %d %d %s", size, sections, strings.Join(toks, ";"))
		run.Count("op:mset")
		if !ok {
			run.Case(setLine, "generr")
			continue
		}
		run.Case(setLine, "ok")
		for qi := 0; qi < nq; qi++ {
			fs, ftok := g.filterGroups()
			begin := uint64(g.r.Intn(total))
			end := uint64(g.r.Intn(total))
			switch g.r.Intn(8) {
			case 0:
				begin, end = 0, uint64(total-1)
			case 1:
				begin = uint64(g.r.Intn(sections)*size + g.r.Intn(3))
				end = uint64(total - 1 - g.r.Intn(3))
			case 2:
				if end < begin {
					begin, end = end, begin
				}
			case 3:
				end = begin + uint64(g.r.Intn(20))
				if end >= uint64(total) {
					end = uint64(total - 1)
				}
			case 4, 5: // range END (or begin) exactly at a section multiple / the first / the last block, filter taken from that block
				tgt := forced[g.r.Intn(len(forced))]
				if its := blockItems[tgt]; len(its) > 0 {
					it := its[g.r.Intn(len(its))]
					fs, ftok = [][][]byte{{it.b}}, it.tok
				}
				end = uint64(tgt)
				begin = 0
				if tgt > 0 && g.r.Bool() {
					begin = uint64(g.r.Intn(tgt + 1))
				}
				if g.r.Intn(4) == 0 {
					begin, end = end, uint64(total-1) // begin at the multiple instead
				}
			}
			line := fmt.Sprintf("mq %s %d %d", ftok, begin, end)
			run.Current(line)
			m := bloombits.NewMatcher(uint64(size), fs)
			status, got := runMatcher(m, begin, end, func(bit uint, sec uint64) []byte { return vecs[vkey{bit, sec}] }, d, 1+g.r.Intn(3), 1+g.r.Intn(16))
			run.Count("op:mq")
			if status != "" {
				run.Violate(status, "matcher-"+status, setLine+" ## "+line, "matcher session outcome "+status)
				run.Case(line, status)
				continue
			}
			// J3: expected matches straight from the blooms
			var want []uint64
			for n := begin; n <= end && n < uint64(total); n++ {
				all := true
				for _, grp := range fs {
					if len(grp) == 0 {
						continue
					}
					hasNil, any := false, false
					for _, cl := range grp {
						if cl == nil {
							hasNil = true
						}
					}
					if hasNil {
						continue
					}
					for _, cl := range grp {
						if types.BloomLookup(blooms[n], raw(cl)) {
							any = true
						}
					}
					if !any {
						all = false
					}
				}
				if all {
					want = append(want, n)
				}
			}
			if len(got) > 0 {
				run.Count("mq:nonempty")
			}
			run.Case(line, idsTok(got))
			if idsTok(got) != idsTok(want) {
				run.Violate("matcher-not-exact", "matcher-not-exact", setLine+" ## "+line, "session="+idsTok(got)+" expected="+idsTok(want))
			}
		}
	}
}

// ---------------------------------------------------------------------------------------------------------------------
// part D: Filter.Logs over generated chains

type backend struct {
	db       aquadb.Database
	size     uint64
	sections uint64
	d        *dropper
	mux      *event.TypeMux
	feed     *event.Feed
	node     *aqua.VerifBloomNode // when set: the node's real BloomStatus / ServiceFilter / retrieval handlers
}

func (b *backend) ChainDb() aquadb.Database { return b.db }
func (b *backend) EventMux() *event.TypeMux { return b.mux }
func (b *backend) GetHeaderVersion(h *big.Int) params.HeaderVersion {
	return params.TestChainConfig.GetBlockVersion(h)
}
func (b *backend) HeaderByNumber(ctx context.Context, blockNr rpc.BlockNumber) (*types.Header, error) {
	var hash common.Hash
	var num uint64
	if blockNr == rpc.LatestBlockNumber {
		hash = core.GetHeadBlockHash(b.db)
		num = core.GetBlockNumber(b.db, hash)
	} else {
		num = uint64(blockNr)
		hash = core.GetCanonicalHash(b.db, num)
	}
	header := core.GetHeaderNoVersion(b.db, hash, num)
	if header != nil {
		header.Version = b.GetHeaderVersion(header.Number)
	}
	return header, nil
}
func (b *backend) GetReceipts(ctx context.Context, blockHash common.Hash) (types.Receipts, error) {
	number := core.GetBlockNumber(b.db, blockHash)
	return core.GetBlockReceipts(b.db, blockHash, number), nil
}
func (b *backend) GetLogs(ctx context.Context, blockHash common.Hash) ([][]*types.Log, error) {
	number := core.GetBlockNumber(b.db, blockHash)
	receipts := core.GetBlockReceipts(b.db, blockHash, number)
	logs := make([][]*types.Log, len(receipts))
	for i, receipt := range receipts {
		logs[i] = receipt.Logs
	}
	return logs, nil
}
func (b *backend) SubscribeTxPreEvent(ch chan<- core.TxPreEvent) event.Subscription { return b.feed.Subscribe(ch) }
func (b *backend) SubscribeRemovedLogsEvent(ch chan<- core.RemovedLogsEvent) event.Subscription {
	return b.feed.Subscribe(ch)
}
func (b *backend) SubscribeLogsEvent(ch chan<- []*types.Log) event.Subscription { return b.feed.Subscribe(ch) }
func (b *backend) SubscribeChainEvent(ch chan<- core.ChainEvent) event.Subscription {
	return b.feed.Subscribe(ch)
}
func (b *backend) BloomStatus() (uint64, uint64) {
	if b.node != nil {
		return b.node.BloomStatus()
	}
	return b.size, b.sections
}

// ServiceFilter: what aqua.startBloomHandlers does (GetBloomBits + DecompressBytes), per session.
func (b *backend) ServiceFilter(ctx context.Context, session *bloombits.MatcherSession) {
	if b.node != nil {
		b.node.ServiceFilter(ctx, session)
		return
	}
	serve(ctx, session, func(bit uint, sec uint64) []byte {
		head := core.GetCanonicalHash(b.db, (sec+1)*b.size-1)
		comp, err := core.GetBloomBits(b.db, bit, sec, head)
		if err != nil {
			return nil
		}
		blob, err := bitutil.DecompressBytes(comp, int(b.size)/8)
		if err != nil {
			return nil
		}
		return blob
	}, b.d, 3, 16)
}

// commitIndex: what BloomIndexer.Reset/Process/Commit do for sections 0..sections-1. Returns false when the generator refuses.
func commitIndex(db aquadb.Database, size uint64, sections uint64) bool {
	for s := uint64(0); s < sections; s++ {
		gn, err := bloombits.NewGenerator(uint(size))
		if err != nil {
			return false
		}
		var head common.Hash
		for n := s * size; n < (s+1)*size; n++ {
			hash := core.GetCanonicalHash(db, n)
			header := core.GetHeaderNoVersion(db, hash, n)
			if header == nil {
				return false
			}
			gn.AddBloom(uint(n-s*size), header.Bloom)
			head = hash
		}
		batch := db.NewBatch()
		for i := 0; i < types.BloomBitLength; i++ {
			bits, err := gn.Bitset(uint(i))
			if err != nil {
				return false
			}
			noteVec(bits)
			// exactly what aqua.BloomIndexer.Commit writes
			core.WriteBloomBits(batch, uint(i), s, head, bitutil.CompressBytes(bits))
		}
		if err := batch.Write(); err != nil {
			return false
		}
	}
	return true
}

// vecStats: how the committed bit vectors relate to the break-even point of the storage codec (reported through run.Count).
var vecStats = map[string]int{}

func noteVec(bits []byte) {
	switch e := encLen(bits); {
	case e == 0:
		vecStats["index-vector:all-zero"]++
	case e == len(bits):
		vecStats["index-vector:encoding-equals-length"]++
	case e == len(bits)-1:
		vecStats["index-vector:encoding-one-shorter"]++
	case e == len(bits)+1:
		vecStats["index-vector:encoding-one-longer"]++
	case e < len(bits):
		vecStats["index-vector:compressible"]++
	default:
		vecStats["index-vector:incompressible"]++
	}
}

type chainSpec struct {
	size, sections, nblocks int
}

// chainData: one generated chain (genesis + nblocks blocks; logs only in the listed blocks) and the index progress to attempt.
type chainData struct {
	size, attempted, nblocks int
	blocks                   map[int]receiptSet
	nums                     []int
}

func (cd chainData) line() string {
	var btoks []string
	for _, n := range cd.nums {
		btoks = append(btoks, fmt.Sprintf("%d=%s", n, cd.blocks[n].tok()))
	}
	bt := "-"
	if len(btoks) > 0 {
		bt = strings.Join(btoks, "&")
	}
	return fmt.Sprintf("chain %d %d %d %s", cd.size, cd.attempted, cd.nblocks+1, bt)
}

// materialize builds the chain with the repository's block builder (header bloom = CreateBloom(receipts) in NewBlock), stores it
// with its receipts, commits the bloom-bits index for the attempted progress and emits the `chain` case.
func (g *gen) materialize(cd chainData, d *dropper) (*backend, string) {
	run := g.run
	run.Current(fmt.Sprintf("chain %d %d %d (building)", cd.size, cd.attempted, cd.nblocks+1))
	db := aquadb.NewMemDatabase()
	genesis := core.GenesisBlockForTesting(db, common.Address{1}, big.NewInt(1000000))
	chain, receipts := core.GenerateChain(context.TODO(), params.TestChainConfig, genesis, aquahash.NewFaker(), db, cd.nblocks, func(i int, bg *core.BlockGen) {
		if rs, ok := cd.blocks[i+1]; ok {
			for _, rc := range rs.real(uint64(i + 1)) {
				bg.AddUncheckedReceipt(rc)
			}
		}
	})
	for i, block := range chain {
		core.WriteBlock(db, block)
		core.WriteCanonicalHash(db, block.Hash(), block.NumberU64())
		core.WriteHeadBlockHash(db, block.Hash())
		core.WriteBlockReceipts(db, block.Hash(), block.NumberU64(), receipts[i])
		// the header bloom the chain carries must be the bloom of its receipts (what ValidateState enforces)
		if block.Bloom() != types.CreateBloom(receipts[i]) {
			run.Violate("header-bloom", "header-bloom", fmt.Sprintf("%s block %d", cd.line(), block.NumberU64()), "header bloom != CreateBloom(receipts)")
		}
	}
	run.Current(fmt.Sprintf("chain %d %d %d (indexing)", cd.size, cd.attempted, cd.nblocks+1))
	sections := cd.attempted
	status := "ok"
	if sections > 0 && !commitIndex(db, uint64(cd.size), uint64(sections)) {
		status = "generr" // the indexer cannot commit: progress stays 0, queries are served by the header scan
		sections = 0
	}
	chainLine := cd.line()
	run.Count("op:chain")
	run.Count("chain-index:" + status)
	run.Count(fmt.Sprintf("chain-size:%d", cd.size))
	run.Count(fmt.Sprintf("chain-sections:%d", sections))
	run.Case(chainLine, status)
	return &backend{db: db, size: uint64(cd.size), sections: uint64(sections), d: d, mux: new(event.TypeMux), feed: new(event.Feed)}, chainLine
}

// query runs one Filter.Logs on the real code, emits the `q` case and judges it against the brute-force scan (J4).
func (g *gen) query(be *backend, cd chainData, chainLine string, begin, end int64, c crit) {
	run := g.run
	head := cd.nblocks
	indexed := int(be.sections) * cd.size
	line := fmt.Sprintf("q %d %d %s", begin, end, c.tok())
	run.Current(line)
	as, ts := c.real()
	var ids []uint64
	status := hx.Safe(func() string {
		ctx, cancel := context.WithTimeout(context.Background(), 120*time.Second)
		defer cancel()
		f := filters.New(be, begin, end, as, ts)
		logs, err := f.Logs(ctx)
		if err != nil {
			if ctx.Err() != nil {
				return "hang"
			}
			return "err"
		}
		for _, l := range logs {
			ids = append(ids, logID(l))
		}
		return ""
	})
	run.Count("op:q")
	if status != "" {
		if strings.HasPrefix(status, "panic") {
			status = "panic"
		}
		run.Violate(status, "logs-"+status, chainLine+" ## "+line, "Filter.Logs outcome "+status)
		run.Case(line, status)
		return
	}
	b, e := begin, end
	if b == -1 {
		b = int64(head)
	}
	if e == -1 {
		e = int64(head)
	}
	var wantIDs []uint64
	for _, n := range cd.nums {
		if int64(n) < b || int64(n) > e {
			continue
		}
		for _, r := range cd.blocks[n] {
			for _, l := range r {
				if specMatch(c, l) {
					wantIDs = append(wantIDs, l.id)
				}
			}
		}
	}
	switch {
	case indexed > 0 && b < int64(indexed) && e >= int64(indexed):
		run.Count("q-range:straddles-boundary")
	case indexed > 0 && b < int64(indexed):
		run.Count("q-range:indexed-only")
	default:
		run.Count("q-range:unindexed-only")
	}
	if begin == -1 || end == -1 {
		run.Count("q-range:open-end")
	}
	if cd.size > 0 && e > 0 && e%int64(cd.size) == 0 && e < int64(indexed) {
		run.Count("q-range:end-at-indexed-section-multiple")
		if len(ids) > 0 && ids[len(ids)-1]/100 == uint64(e) {
			run.Count("q-range:end-at-indexed-section-multiple-with-match-in-last-block")
		}
	}
	if len(ids) > 0 {
		run.Count("q:nonempty")
	}
	run.Case(line, idsTok(ids))
	if idsTok(ids) != idsTok(wantIDs) {
		run.Violate("logs-not-exact", "logs-not-exact", chainLine+" ## "+line, "Filter.Logs="+idsTok(ids)+" bruteforce="+idsTok(wantIDs))
	}
}

func (g *gen) partChains(specs []chainSpec, nq int) {
	run := g.run
	d := &dropper{r: g.r.Fork(77)}
	for ci, sp := range specs {
		t0 := time.Now()
		size, nblocks := sp.size, sp.nblocks
		head := nblocks // genesis is block 0, generated blocks are 1..nblocks
		// where the logs go: section edges, the indexed boundary, byte edges, genesis+1, the head, and random places
		want := map[int]bool{}
		edges := []int{1, 2, head, head - 1}
		for s := 1; s*size <= head+size; s++ {
			for _, dlt := range []int{-2, -1, 0, 1, 2} {
				edges = append(edges, s*size+dlt)
			}
		}
		for _, e := range edges {
			if e >= 1 && e <= head && g.r.Intn(3) != 0 {
				want[e] = true
			}
		}
		var multiples []int // every section multiple (and the block before it) always holds logs
		for s := 1; s*size <= head; s++ {
			want[s*size], want[s*size-1] = true, true
			multiples = append(multiples, s*size)
		}
		nr := 8 + g.r.Intn(25)
		for k := 0; k < nr; k++ {
			n := 1 + g.r.Intn(head)
			if g.r.Intn(3) == 0 {
				n = (n/8)*8 + g.r.Pick([]int{0, 7})
			}
			if n >= 1 && n <= head {
				want[n] = true
			}
		}
		cd := chainData{size: size, attempted: sp.sections, nblocks: nblocks, blocks: map[int]receiptSet{}}
		var allLogs []lg
		for n := range want {
			cd.nums = append(cd.nums, n)
		}
		sort.Ints(cd.nums)
		for _, n := range cd.nums {
			rs := g.receipts(uint64(n) * 100)
			if n%size == 0 || (n+1)%size == 0 { // never empty at a section edge
				for tries := 0; tries < 20 && len(rs.flat()) == 0; tries++ {
					rs = g.receipts(uint64(n) * 100)
				}
			}
			cd.blocks[n] = rs
			for _, r := range rs {
				allLogs = append(allLogs, r...)
			}
		}
		be, chainLine := g.materialize(cd, d)
		indexed := int(be.sections) * size
		for qi := 0; qi < nq; qi++ {
			var from *lg
			if len(allLogs) > 0 && g.r.Intn(4) != 0 {
				from = &allLogs[g.r.Intn(len(allLogs))]
			}
			c := g.crit(from)
			begin, end := int64(g.r.Intn(head+3)), int64(g.r.Intn(head+6))
			switch g.r.Intn(11) {
			case 0:
				begin, end = 0, -1
			case 1:
				begin, end = -1, -1
			case 2:
				begin = -1
			case 3: // straddle the indexed boundary
				if indexed > 0 {
					begin = int64(indexed - 1 - g.r.Intn(40))
					end = int64(indexed + g.r.Intn(40))
				}
			case 4: // just inside / just outside the boundary
				if indexed > 0 {
					begin = int64(indexed + g.r.Intn(3) - 1)
					end = int64(indexed + g.r.Intn(3) - 1)
				}
			case 5:
				begin = 0
				end = int64(head + g.r.Intn(3))
			case 6:
				if from != nil {
					bn := int64(from.id / 100)
					begin, end = bn-int64(g.r.Intn(3)), bn+int64(g.r.Intn(3))
				}
			case 7:
				if end < begin {
					begin, end = end, begin
				}
			case 8: // the range ends (or begins) exactly at a section multiple; criteria from a log of that very block
				if len(multiples) > 0 {
					m := multiples[g.r.Intn(len(multiples))]
					if ls := cd.blocks[m].flat(); len(ls) > 0 {
						c = g.crit(&ls[g.r.Intn(len(ls))])
						if g.r.Bool() { // make sure it matches: only the log's own address
							c = crit{addrs: []item{ls[0].addr}}
						}
					}
					end = int64(m)
					begin = int64(g.r.Intn(m + 1))
					if g.r.Intn(3) == 0 {
						begin = 0
					}
					if g.r.Intn(5) == 0 {
						begin, end = int64(m), int64(head)
					}
				}
			}
			if begin < -1 {
				begin = 0
			}
			g.query(be, cd, chainLine, begin, end, c)
		}
		run.Notes[fmt.Sprintf("chain%d_s", ci)] = fmt.Sprintf("%.1f", time.Since(t0).Seconds())
	}
}

// ---------------------------------------------------------------------------------------------------------------------
// replay of a recorded `chain … ## q …` input (check.py --replay FILE): the chain is rebuilt from its line and the one query
// is run against the real code again. Other kinds of replay files re-run the whole (seed-deterministic) generation.

func parseItemTok(t string) (item, bool) {
	if len(t) == 0 {
		return item{}, false
	}
	switch t[0] {
	case 'A', 'T':
		i, err := strconv.Atoi(t[1:])
		if err != nil || i < 0 {
			return item{}, false
		}
		if t[0] == 'A' && i < len(poolA) {
			return itA(i), true
		}
		if t[0] == 'T' && i < len(poolT) {
			return itT(i), true
		}
		return item{}, false
	case 'x':
		b, err := hex.DecodeString(t[1:])
		if err != nil {
			return item{}, false
		}
		return itX(b), true
	}
	return item{}, false
}

func parseItemsTok(s string) ([]item, bool) {
	var out []item
	for _, t := range strings.Split(s, ",") {
		it, ok := parseItemTok(t)
		if !ok {
			return nil, false
		}
		out = append(out, it)
	}
	return out, true
}

func parseReceiptsTok(s string) (receiptSet, bool) {
	if s == "-" {
		return nil, true
	}
	var rs receiptSet
	for _, r := range strings.Split(s, "|") {
		var logs []lg
		if r != "_" {
			for _, lt := range strings.Split(r, ";") {
				f := strings.Split(lt, ":")
				if len(f) != 3 || len(f[0]) < 2 {
					return nil, false
				}
				id, err := strconv.ParseUint(f[0][1:], 10, 64)
				ad, ok := parseItemTok(f[1])
				if err != nil || !ok {
					return nil, false
				}
				l := lg{id: id, zero: f[0][0] == 'z', addr: ad}
				if f[2] != "" {
					ts, ok := parseItemsTok(f[2])
					if !ok {
						return nil, false
					}
					l.topics = ts
				}
				logs = append(logs, l)
			}
		}
		rs = append(rs, logs)
	}
	return rs, true
}

func parseCritTok(a, t string) (crit, bool) {
	var c crit
	if a != "-" {
		as, ok := parseItemsTok(a)
		if !ok {
			return c, false
		}
		c.addrs = as
	}
	if t != "-" {
		for _, p := range strings.Split(t, "/") {
			if p == "*" {
				c.topics = append(c.topics, nil)
				continue
			}
			ts, ok := parseItemsTok(p)
			if !ok {
				return c, false
			}
			c.topics = append(c.topics, ts)
		}
	}
	return c, true
}

func (g *gen) replay(input string) bool {
	parts := strings.Split(input, " ## ")
	if len(parts) < 2 {
		return false
	}
	cf := strings.Fields(parts[0])
	if len(cf) != 5 || cf[0] != "chain" {
		return false
	}
	size, e1 := strconv.Atoi(cf[1])
	att, e2 := strconv.Atoi(cf[2])
	nb, e3 := strconv.Atoi(cf[3])
	if e1 != nil || e2 != nil || e3 != nil || nb < 1 {
		return false
	}
	type qq struct {
		b, e int64
		c    crit
	}
	var qs []qq
	for _, qp := range parts[1:] {
		qf := strings.Fields(qp)
		if len(qf) != 5 || qf[0] != "q" {
			return false
		}
		begin, e4 := strconv.ParseInt(qf[1], 10, 64)
		end, e5 := strconv.ParseInt(qf[2], 10, 64)
		c, ok := parseCritTok(qf[3], qf[4])
		if e4 != nil || e5 != nil || !ok {
			return false
		}
		qs = append(qs, qq{begin, end, c})
	}
	cd := chainData{size: size, attempted: att, nblocks: nb - 1, blocks: map[int]receiptSet{}}
	if cf[4] != "-" {
		for _, bt := range strings.Split(cf[4], "&") {
			kv := strings.SplitN(bt, "=", 2)
			if len(kv) != 2 {
				return false
			}
			n, err := strconv.Atoi(kv[0])
			rs, ok := parseReceiptsTok(kv[1])
			if err != nil || !ok {
				return false
			}
			cd.blocks[n] = rs
			cd.nums = append(cd.nums, n)
		}
	}
	be, chainLine := g.materialize(cd, &dropper{r: g.r.Fork(77)})
	for _, q := range qs {
		g.query(be, cd, chainLine, q.b, q.e, q.c)
	}
	return true
}

// corpus: boundary seeds and minimised past disagreements, `chain … ## q … ## q …` per line; always run first.
func (g *gen) corpus() {
	dir := os.Getenv("VERIF_ROOT")
	if dir == "" {
		return
	}
	b, err := os.ReadFile(dir + "/corpus/C16/seeds.txt")
	if err != nil {
		return
	}
	for _, line := range strings.Split(string(b), "\n") {
		line = strings.TrimSpace(line)
		if line == "" || strings.HasPrefix(line, "#") {
			continue
		}
		if g.replay(line) {
			g.run.Count("corpus:lines")
		} else {
			g.run.Count("corpus:unparsed")
		}
	}
}

// ---------------------------------------------------------------------------------------------------------------------

func main() {
	run := hx.Start()
	alog.Root().SetHandler(alog.DiscardHandler())
	rng := hx.NewRng(run.Seed)
	run.Watch(300*time.Second, 6<<30, func(cur string) string { return "watchdog:" + strings.SplitN(cur, " ", 2)[0] })
	// item pools (fixed per seed)
	pr := rng.Fork(1)
	for i := 0; i < 6; i++ {
		poolA = append(poolA, pr.Bytes(20))
	}
	for i := 0; i < 8; i++ {
		poolT = append(poolT, pr.Bytes(32))
	}
	// items whose three bloom indexes are not distinct (about 1 in 700 items): two equal indexes with the shared bit at position 7
	// of its byte / elsewhere, found by search with the real Keccak. They exercise "set the bit" vs "add the bit".
	poolA[4] = searchCoinciding(pr, 20, func(bit uint) bool { return bit%8 != 7 })
	poolA[5] = searchCoinciding(pr, 20, func(bit uint) bool { return bit%8 == 7 })
	poolT[6] = searchCoinciding(pr, 32, func(bit uint) bool { return bit%8 != 7 })
	poolT[7] = searchCoinciding(pr, 32, func(bit uint) bool { return bit%8 == 7 })
	poolA[2] = make([]byte, 20) // the all-zero address and the all-zero topic are ordinary values: logs carry them, criteria name them
	poolT[4] = make([]byte, 32)
	poolA[3][0] = 0 // one pool address and one pool topic with a leading zero byte
	poolT[5][0], poolT[5][1] = 0, 0
	as := make([]string, len(poolA))
	for i, a := range poolA {
		as[i] = fmt.Sprintf("%x", a)
	}
	tsx := make([]string, len(poolT))
	for i, t := range poolT {
		tsx[i] = fmt.Sprintf("%x", t)
	}
	run.Case("pool "+strings.Join(as, ",")+" "+strings.Join(tsx, ","), "ok")

	if run.Replay != "" {
		var rec struct {
			Input interface{} `json:"input"`
		}
		if b, err := os.ReadFile(run.Replay); err == nil && json.Unmarshal(b, &rec) == nil {
			if in, ok := rec.Input.(string); ok {
				if (&gen{r: rng.Fork(5), run: run}).replay(in) {
					run.Notes["replayed"] = "chain+query"
					run.Finish()
					return
				}
			}
		}
		run.Notes["replayed"] = "full run (the recorded kind is regenerated from the seed)"
	}
	(&gen{r: rng.Fork(6), run: run}).corpus()
	g := &gen{r: rng.Fork(2), run: run}
	if run.Thorough() {
		g.partBloom(3000)
	} else {
		g.partBloom(300)
	}

	g = &gen{r: rng.Fork(3), run: run}
	sizes := []int{0, 8, 16, 100, 1000, 2040, 2047, 2048, 2048, 2056, 4096}
	for i := 0; i < 4; i++ {
		sizes = append(sizes, 8*g.r.Intn(300))
	}
	if run.Thorough() {
		for i := 0; i < 30; i++ {
			sizes = append(sizes, 2048+8*g.r.Intn(400), 8*g.r.Intn(256))
		}
	}
	g.partGenerator(sizes)

	g = &gen{r: rng.Fork(4), run: run}
	if run.Thorough() {
		g.partMatcher(40, 40, []int{2048, 2048, 2056, 2304, 4096})
	} else {
		g.partMatcher(4, 25, []int{2048, 2048, 2056})
	}

	g = &gen{r: rng.Fork(5), run: run}
	var specs []chainSpec
	mk := func(size int) chainSpec {
		maxSec := 2
		nb := size*g.r.Intn(maxSec+1) + g.r.Intn(600) + 3
		if size < 2048 {
			nb = 300 + g.r.Intn(2500)
		}
		if size >= 4096 {
			nb = size + g.r.Intn(300)
		}
		have := (nb + 1) / size
		sec := 0
		if have > 0 {
			sec = g.r.Intn(have + 1)
			if g.r.Bool() {
				sec = have
			}
		}
		return chainSpec{size, sec, nb}
	}
	d := func(n int) int { return g.r.Intn(n) }
	quick := []chainSpec{
		{2048, 1, 2048 + d(500)},     // one committed section + unindexed tail
		{2048, 2, 4096 + d(300)},     // two committed sections + tail
		{2048, 1, 4096 + d(200)},     // partial progress: a complete but uncommitted section is header-scanned
		{2056, 1, 2056 + d(400)},     // section size that is not a power of two
		{2048, 1, 2047},              // chain ends exactly at the section end (head = 2047)
		{2048, 0, 300 + d(900)},      // nothing indexed
		{256, 1, 600 + d(300)},       // generator refuses (bit index compared with section size): progress stays 0
		{2040, 1, 2040 + d(200)},     // just below 2048: refused as well
		{1000, 1, 1000 + d(200)},     // not a multiple of 8: NewGenerator refuses
		{2048, 2, 4095},              // head = 4095: two full sections, no tail
	}
	if run.Thorough() {
		for i := 0; i < 120; i++ {
			specs = append(specs, mk(g.r.Pick([]int{2048, 2048, 2048, 2056, 2304, 4096, 8, 256, 1024, 2040, 100, 2047})))
		}
		g.partChains(specs, 40)
	} else {
		g.partChains(quick, 24)
	}
	// the index as stored (bitutil codec), busy contracts at the codec's break-even density, the real ChainIndexer under a reorg
	g = &gen{r: rng.Fork(7), run: run}
	dd := &dropper{r: rng.Fork(78)}
	if run.Thorough() {
		g.partCompress(3000)
		for i := 0; i < 6; i++ {
			g.partBusy(dd)
		}
		g.partReorg(9, dd)
		g.partReindex(3, dd)
	} else {
		g.partCompress(200)
		g.partBusy(dd)
		g.partReorg(2, dd)
		g.partReindex(1, dd)
	}
	for k, v := range vecStats {
		run.Hist[k] += v
	}
	run.Finish()
}

// c05: correspondence harness for the coin supply (property C05). Drives the real EVM, core.ApplyMessage,
// StateProcessor.Process and Aquahash.Finalize in-process on worlds full of hostile contracts.
//
// Case kinds written for the Lean model (lean/Driver/C05.lean):
//
//	rw   Aquahash.Finalize on an empty state: who is credited how much for (height, uncles)            — accumulateRewards
//	tx   one core.ApplyMessage through a logging vm.StateDB proxy: the raw sequence of SubBalance / AddBalance / Suicide /
//	     CreateAccount / Snapshot / RevertToSnapshot calls must parse into the model's alphabet (buyGas, transfer, suicide,
//	     createAccount, snapshot, revert, refund, fee) and the model, replaying the word, must reproduce every balance that
//	     RawDump shows after Finalise
//	blk  one block (HF4 height or not, with uncles, around the reward cut-off) through Process + Finalize: Σ balances over RawDump
//	     after must equal Σ before − HF4 zeroing + issuance when no SELFDESTRUCT executed, and be at most that otherwise
//
// Independently of the model: Σ after ≤ Σ before (+ issuance) is judged directly on the dumps.
package main

import (
	"fmt"
	"math/big"
	"sort"
	"strings"
	"time"

	"gitlab.com/aquachain/aquachain/common"
	"gitlab.com/aquachain/aquachain/consensus/misc"
	"gitlab.com/aquachain/aquachain/core"
	"gitlab.com/aquachain/aquachain/core/state"
	"gitlab.com/aquachain/aquachain/core/types"
	"gitlab.com/aquachain/aquachain/core/vm"
	"gitlab.com/aquachain/aquachain/crypto"
	"gitlab.com/aquachain/aquachain/params"
	"verifharness/hx"
	"verifharness/txlib"
)

var (
	run    *hx.Run
	keys   [3]txlib.Key
	cbAddr = txlib.AddrN(0xcb0000)
	ghost  = txlib.AddrN(0x990000) // never exists before the transaction
	sink   = txlib.AddrN(0x51ac00) // existing plain account
	pre2   = txlib.AddrN(2)        // sha256 precompile
	nK     = 5
)

func kAddr(i int) common.Address { return txlib.AddrN(0xc0de00 + uint64(i)) }
func bi(x uint64) *big.Int       { return new(big.Int).SetUint64(x) }

// ---------------------------------------------------------------------------------------------------------------------
// hostile programs

type progStats struct{ frags map[string]int }

func pushAll(a *txlib.Asm, vs ...uint64) {
	for _, v := range vs {
		a.PushU(v)
	}
}

func pickTarget(r *hx.Rng, self int) common.Address {
	switch r.Intn(12) {
	case 0:
		return pre2
	case 1:
		return ghost
	case 2:
		return keys[r.Intn(3)].Addr
	case 3:
		return cbAddr
	case 4:
		return kAddr(self)
	case 5:
		return sink
	}
	return kAddr(r.Intn(nK))
}

func pickValue(r *hx.Rng) *big.Int {
	switch r.Intn(10) {
	case 0, 1, 2:
		return new(big.Int)
	case 3:
		return big.NewInt(1)
	case 4:
		return new(big.Int).Lsh(big.NewInt(1), 70) // more than any contract holds → insufficient balance
	}
	return bi(uint64(1 + r.Intn(300)))
}

func gasArg(r *hx.Rng, a *txlib.Asm) {
	if r.Intn(4) == 0 {
		a.Op(txlib.GAS)
	} else {
		a.PushU(uint64(3000 + r.Intn(70000)))
	}
}

// initCode for CREATE fragments (≤ 32 bytes)
func initCode(r *hx.Rng, self int) ([]byte, string) {
	switch r.Intn(7) {
	case 0:
		return []byte{txlib.STOP}, "init-stop"
	case 1:
		return new(txlib.Asm).PushAddr(pickTarget(r, self)).Op(txlib.SELFDESTRUCT).Bytes(), "init-suicide"
	case 2:
		return new(txlib.Asm).PushU(0).PushU(0).Op(txlib.REVERT).Bytes(), "init-revert"
	case 3:
		return []byte{txlib.INVALID}, "init-invalid"
	case 4:
		// returns a runtime that self-destructs to a target: PUSH22 <runtime> PUSH1 0 MSTORE PUSH1 22 PUSH1 10 RETURN
		rt := new(txlib.Asm).PushAddr(pickTarget(r, self)).Op(txlib.SELFDESTRUCT).Bytes()
		a := new(txlib.Asm).Push(new(big.Int).SetBytes(rt)).PushU(0).Op(txlib.MSTORE).PushU(uint64(len(rt))).PushU(uint64(32 - len(rt))).Op(txlib.RETURN)
		return a.Bytes(), "init-returns-suicider"
	case 5:
		// address(this) suicides to itself inside init
		return []byte{0x30, txlib.SELFDESTRUCT}, "init-suicide-self"
	}
	return new(txlib.Asm).PushU(1).PushU(0).Op(txlib.RETURN).Bytes(), "init-return1"
}

// genProgram builds the code of contract `self`.
func genProgram(r *hx.Rng, self int, hasRevert bool, st *progStats) []byte {
	a := new(txlib.Asm)
	n := 1 + r.Intn(5)
	for f := 0; f < n; f++ {
		switch r.Intn(9) {
		case 0, 1, 2: // CALL with value
			pushAll(a, 0, 0, 0, 0)
			a.Push(pickValue(r)).PushAddr(pickTarget(r, self))
			gasArg(r, a)
			a.Op(txlib.CALL, txlib.POP)
			st.frags["call"]++
		case 3: // CALLCODE with value (no transfer happens, but CanTransfer is checked)
			pushAll(a, 0, 0, 0, 0)
			a.Push(pickValue(r)).PushAddr(pickTarget(r, self))
			gasArg(r, a)
			a.Op(txlib.CALLCODE, txlib.POP)
			st.frags["callcode"]++
		case 4: // DELEGATECALL
			pushAll(a, 0, 0, 0, 0)
			a.PushAddr(pickTarget(r, self))
			gasArg(r, a)
			a.Op(txlib.DELEGATECALL, txlib.POP)
			st.frags["delegatecall"]++
		case 5: // STATICCALL (invalid opcode before Byzantium/HF5 → the frame fails)
			if hasRevert || r.Intn(4) == 0 {
				pushAll(a, 0, 0, 0, 0)
				a.PushAddr(pickTarget(r, self))
				gasArg(r, a)
				a.Op(txlib.STATICCALL, txlib.POP)
				st.frags["staticcall"]++
			}
		case 6, 7: // CREATE with value
			ic, nm := initCode(r, self)
			word := make([]byte, 32)
			copy(word, ic)
			a.Push(new(big.Int).SetBytes(word)).PushU(0).Op(txlib.MSTORE)
			a.PushU(uint64(len(ic))).PushU(0).Push(pickValue(r)).Op(txlib.CREATE, txlib.POP)
			st.frags["create:"+nm]++
		case 8:
			a.PushU(uint64(r.Intn(3))).PushU(uint64(r.Intn(3))).Op(txlib.SSTORE)
			st.frags["sstore"]++
		}
	}
	switch r.Intn(10) {
	case 0, 1, 2, 3:
		a.Op(txlib.STOP)
		st.frags["end:stop"]++
	case 4:
		a.PushU(0).PushU(0).Op(txlib.REVERT)
		st.frags["end:revert"]++
	case 5:
		a.Op(txlib.INVALID)
		st.frags["end:invalid"]++
	case 6:
		a.PushAddr(kAddr(self)).Op(txlib.SELFDESTRUCT)
		st.frags["end:suicide-self"]++
	case 7:
		a.PushAddr(txlib.AddrN(0x5e1f00 + uint64(r.Intn(3)))).Op(txlib.SELFDESTRUCT)
		st.frags["end:suicide-new"]++
	default:
		a.PushAddr(pickTarget(r, self)).Op(txlib.SELFDESTRUCT)
		st.frags["end:suicide-existing"]++
	}
	return a.Bytes()
}

// ---------------------------------------------------------------------------------------------------------------------
// world

type world struct {
	prefund []common.Address // future CREATE addresses that already hold coins (CreateAccount must carry the balance over)
	rules   txlib.Rules
	codes   [][]byte
	kBal    []*big.Int
	eBal    [3]*big.Int
	dealloc []common.Address // HF4 accounts present in the state (funded)
	dBal    []*big.Int
}

func newWorld(r *hx.Rng, rules txlib.Rules, st *progStats) *world {
	w := &world{rules: rules}
	for i := 0; i < nK; i++ {
		w.codes = append(w.codes, genProgram(r, i, rules.HasRevert, st))
		switch r.Intn(5) {
		case 0:
			w.kBal = append(w.kBal, new(big.Int))
		default:
			w.kBal = append(w.kBal, bi(uint64(1000+r.Intn(1000000))))
		}
	}
	for i := range w.eBal {
		w.eBal[i] = new(big.Int).Lsh(big.NewInt(1), uint(70+r.Intn(10)))
	}
	for i := 0; i < nK; i++ {
		if r.Intn(3) == 0 {
			w.prefund = append(w.prefund, crypto.CreateAddress(kAddr(i), 1))
		}
	}
	if r.Intn(3) == 0 {
		w.prefund = append(w.prefund, crypto.CreateAddress(keys[r.Intn(3)].Addr, 0))
	}
	return w
}

func (w *world) build() *state.StateDB {
	st := txlib.NewState()
	for i, c := range w.codes {
		st.SetCode(kAddr(i), c)
		st.SetNonce(kAddr(i), 1)
		if w.kBal[i].Sign() > 0 {
			st.SetBalance(kAddr(i), w.kBal[i])
		}
	}
	for i := range keys {
		st.SetBalance(keys[i].Addr, w.eBal[i])
	}
	st.SetBalance(sink, bi(4242))
	for _, a := range w.prefund {
		st.SetBalance(a, bi(555))
	}
	for i, a := range w.dealloc {
		st.SetBalance(a, w.dBal[i])
	}
	return txlib.Settle(st, false)
}

// index of accounts for the model (assigned on first sight, stable within one case)
type indexer struct {
	m    map[common.Address]int
	list []common.Address
}

func newIndexer() *indexer { return &indexer{m: map[common.Address]int{}} }
func (ix *indexer) of(a common.Address) int {
	if i, ok := ix.m[a]; ok {
		return i
	}
	ix.m[a] = len(ix.list)
	ix.list = append(ix.list, a)
	return ix.m[a]
}

func balancesStr(ix *indexer, d map[common.Address]txlib.Acct) string {
	type kv struct {
		i int
		b *big.Int
	}
	// deterministic index assignment for accounts first seen in a dump: by address
	var addrs []common.Address
	for a := range d {
		addrs = append(addrs, a)
	}
	sort.Slice(addrs, func(i, j int) bool { return strings.Compare(addrs[i].Hex(), addrs[j].Hex()) < 0 })
	var xs []kv
	for _, a := range addrs {
		if d[a].Bal.Sign() != 0 {
			xs = append(xs, kv{ix.of(a), d[a].Bal})
		}
	}
	sort.Slice(xs, func(i, j int) bool { return xs[i].i < xs[j].i })
	if len(xs) == 0 {
		return "-"
	}
	var sb strings.Builder
	for k, x := range xs {
		if k > 0 {
			sb.WriteByte(',')
		}
		fmt.Fprintf(&sb, "%d:%s", x.i, x.b)
	}
	return sb.String()
}

// ---------------------------------------------------------------------------------------------------------------------
// logging proxy: sees every balance-relevant call the EVM and the state transition make on the state

type proxy struct {
	*state.StateDB
	ix  *indexer
	log *[]string
}

func (p proxy) AddBalance(a common.Address, v *big.Int) {
	*p.log = append(*p.log, fmt.Sprintf("A%d:%s", p.ix.of(a), v))
	p.StateDB.AddBalance(a, v)
}
func (p proxy) SubBalance(a common.Address, v *big.Int) {
	*p.log = append(*p.log, fmt.Sprintf("S%d:%s", p.ix.of(a), v))
	p.StateDB.SubBalance(a, v)
}
func (p proxy) CreateAccount(a common.Address) {
	*p.log = append(*p.log, fmt.Sprintf("C%d", p.ix.of(a)))
	p.StateDB.CreateAccount(a)
}
func (p proxy) Suicide(a common.Address) bool {
	ok := p.StateDB.Suicide(a)
	if ok {
		*p.log = append(*p.log, fmt.Sprintf("K%d", p.ix.of(a)))
	} else {
		*p.log = append(*p.log, fmt.Sprintf("k%d", p.ix.of(a)))
	}
	return ok
}
func (p proxy) Snapshot() int {
	id := p.StateDB.Snapshot()
	*p.log = append(*p.log, fmt.Sprintf("P%d", id))
	return id
}
func (p proxy) RevertToSnapshot(id int) {
	*p.log = append(*p.log, fmt.Sprintf("R%d", id))
	p.StateDB.RevertToSnapshot(id)
}

// ---------------------------------------------------------------------------------------------------------------------
// tx cases

type msgSpec struct {
	from  int
	to    *common.Address
	value *big.Int
	gas   uint64
	price *big.Int
	data  []byte
}

func randMsg(r *hx.Rng, w *world) msgSpec {
	m := msgSpec{from: r.Intn(3), value: pickValue(r), gas: uint64(120000 + r.Intn(700000)), price: bi(uint64(r.Intn(4)))}
	if m.value.BitLen() > 64 {
		m.value = bi(uint64(r.Intn(1000)))
	}
	if r.Intn(7) == 0 {
		// creation whose init code is one of the hostile programs
		m.data = w.codes[r.Intn(nK)]
	} else {
		var t common.Address
		if r.Intn(8) == 0 {
			t = pickTarget(r, 0)
		} else {
			t = kAddr(r.Intn(nK))
		}
		m.to = &t
	}
	return m
}

var total = map[string]int{}

func oneTx(r *hx.Rng, rules txlib.Rules, st *progStats) {
	w := newWorld(r, rules, st)
	m := randMsg(r, w)
	sdb := w.build()
	ix := newIndexer()
	before := txlib.DumpAll(sdb, false)
	preS := balancesStr(ix, before)
	sumBefore := txlib.SumBalances(before)
	var log []string
	px := proxy{sdb, ix, &log}
	tracer := txlib.NewTracer(sdb, nil)
	msg := types.NewMessage(keys[m.from].Addr, m.to, sdb.GetNonce(keys[m.from].Addr), m.value, m.gas, m.price, m.data, true)
	header := &types.Header{Number: rules.Number, Time: big.NewInt(1000), Difficulty: big.NewInt(1), GasLimit: 8000000, Coinbase: cbAddr}
	cb := cbAddr
	evm := vm.NewEVM(core.NewEVMContext(msg, header, nil, &cb), px, rules.Cfg, vm.Config{Debug: true, Tracer: tracer})
	gp := new(core.GasPool).AddGas(8000000)
	run.Current(fmt.Sprintf("tx %s", rules.Name))
	_, _, failed, err := core.ApplyMessage(evm, msg, gp)
	if err != nil {
		run.Count("tx:refused:" + err.Error())
		return
	}
	after := txlib.DumpAll(sdb, rules.EIP158) // ApplyTransaction: Finalise(true) / IntermediateRoot(eip158)
	sumAfter := txlib.SumBalances(after)
	mgval := new(big.Int).Mul(bi(m.gas), m.price)
	in := fmt.Sprintf("tx %d %d %s %s %s", ix.of(keys[m.from].Addr), ix.of(cbAddr), mgval, preS, strings.Join(log, " "))
	run.Case(in, balancesStr(ix, after))
	// statistics: is the generator exercising the interesting paths?
	run.Count("tx:rules:" + rules.Name)
	if failed {
		run.Count("tx:top-level:failed")
	} else {
		run.Count("tx:top-level:ok")
	}
	nTransfer, nRevert := 0, 0
	for i, t := range log {
		if t[0] == 'S' && i > 0 && !strings.HasSuffix(t, ":0") {
			nTransfer++
		}
		if t[0] == 'R' {
			nRevert++
		}
	}
	total["value-transfers-executed"] += nTransfer
	total["value-call-ops-seen"] += tracer.ValueCalls
	total["reverts"] += nRevert
	total["selfdestructs"] += tracer.Suicides
	total["selfdestruct-to-self"] += tracer.SuicideSelf
	total["creates"] += tracer.Creates
	total["calls"] += tracer.Calls
	total["faults"] += tracer.Faults
	if tracer.Suicides > 0 {
		run.Count("tx:with-selfdestruct")
	}
	switch c := sumAfter.Cmp(sumBefore); {
	case c > 0:
		run.Violate("supply-increased", "tx-supply-increased", map[string]interface{}{"rules": rules.Name, "case": in},
			fmt.Sprintf("sum before %s after %s (executing a transaction created coins)", sumBefore, sumAfter))
	case c < 0:
		run.Count("tx:supply-decreased")
		if tracer.Suicides == 0 {
			run.Violate("supply-decreased-without-selfdestruct", "tx-supply-decreased", map[string]interface{}{"rules": rules.Name, "case": in},
				fmt.Sprintf("sum before %s after %s and no SELFDESTRUCT executed", sumBefore, sumAfter))
		}
	default:
		run.Count("tx:supply-unchanged")
	}
}

// ---------------------------------------------------------------------------------------------------------------------
// rewards (Finalize on an empty state)

func hdr(cfg *params.ChainConfig, n *big.Int, cb common.Address) *types.Header {
	return &types.Header{Version: cfg.GetBlockVersion(n), ParentHash: common.Hash{7}, Number: new(big.Int).Set(n), Time: big.NewInt(1000), Difficulty: big.NewInt(1),
		GasLimit: 8000000, Coinbase: cb, Extra: []byte{}}
}

var chains = map[string]*core.BlockChain{}

func chainFor(rules txlib.Rules) *core.BlockChain {
	if bc, ok := chains[rules.Name]; ok {
		return bc
	}
	bc, _ := txlib.NewChain(rules.Cfg)
	chains[rules.Name] = bc
	return bc
}

type uncleSpec struct {
	num uint64
	who int
}

func pickHeight(r *hx.Rng) uint64 {
	mm := params.MaxMoney.Uint64()
	switch r.Intn(8) {
	case 0:
		return mm - 1
	case 1:
		return mm
	case 2:
		return mm + 1
	case 3:
		return mm - 2 - uint64(r.Intn(5))
	case 4:
		return uint64(9 + r.Intn(100))
	case 5:
		return mm + uint64(r.Intn(1000000))
	}
	return uint64(9 + r.Intn(50000000))
}

func pickUncles(r *hx.Rng, h uint64) []uncleSpec {
	var us []uncleSpec
	n := r.Intn(3)
	if r.Intn(3) == 0 {
		n = 0
	}
	for i := 0; i < n; i++ {
		d := uint64(1 + r.Intn(8)) // distance 1..8 (8 → reward 0; valid uncles have 1..6... the function itself is total on 0..8)
		if r.Intn(10) == 0 {
			d = 0
		}
		us = append(us, uncleSpec{h - d, r.Intn(4)})
	}
	return us
}

func uncleAddr(i int) common.Address {
	if i == 3 {
		return cbAddr // an uncle mined by the block's own miner
	}
	return txlib.AddrN(0x0ec1e0 + uint64(i))
}

func unclesStr(ix *indexer, us []uncleSpec) string {
	if len(us) == 0 {
		return "-"
	}
	var ps []string
	for _, u := range us {
		ps = append(ps, fmt.Sprintf("%d:%d", u.num, ix.of(uncleAddr(u.who))))
	}
	return strings.Join(ps, ",")
}

func oneReward(r *hx.Rng, rules txlib.Rules) {
	h := pickHeight(r)
	us := pickUncles(r, h)
	ix := newIndexer()
	st := txlib.NewState()
	bc := chainFor(rules)
	header := hdr(rules.Cfg, bi(h), cbAddr)
	var uhs []*types.Header
	for _, u := range us {
		uhs = append(uhs, hdr(rules.Cfg, bi(u.num), uncleAddr(u.who)))
	}
	in := fmt.Sprintf("rw %d %d %s", h, ix.of(cbAddr), unclesStr(ix, us))
	run.Current(in)
	if _, err := bc.Engine().Finalize(bc, header, st, nil, uhs, nil); err != nil {
		panic(err)
	}
	run.Case(in, balancesStr(ix, txlib.DumpAll(st, false)))
	run.Count("rw")
	if h >= params.MaxMoney.Uint64() {
		run.Count("rw:at-or-after-cutoff")
	}
}

// ---------------------------------------------------------------------------------------------------------------------
// blocks through Process + Finalize

func oneBlock(r *hx.Rng, st *progStats) {
	variants := txlib.Variants()
	base := variants[1+r.Intn(len(variants)-1)] // homestead, hf5, eip158, byzantium
	h := pickHeight(r)
	isHF4 := r.Intn(3) == 0
	// private copy of the config with HF4 at this height (or nowhere)
	cfg := *base.Cfg
	cfg.HF = params.ForkMap{}
	for k, v := range base.Cfg.HF {
		cfg.HF[k] = v
	}
	if isHF4 {
		cfg.HF[4] = bi(h)
	}
	// … or the HF5 height (misc.ApplyHardFork5 runs; as written it only QUERIES the listed accounts)
	isHF5 := r.Intn(4) == 0
	if isHF5 {
		cfg.HF[5] = bi(h)
	}
	rules := base
	rules.Cfg = &cfg
	rules.Number = bi(h)
	w := newWorld(r, rules, st)
	// some of the real HF4 accounts are present and funded (in HF4 and non-HF4 blocks alike)
	nd := r.Intn(4)
	for i := 0; i < nd; i++ {
		w.dealloc = append(w.dealloc, common.HexToAddress(misc.DeallocListHF4[r.Intn(len(misc.DeallocListHF4))]))
		w.dBal = append(w.dBal, bi(uint64(1+r.Intn(1000000))))
	}
	sdb := w.build()
	ix := newIndexer()
	before := txlib.DumpAll(sdb, false)
	preS := balancesStr(ix, before)
	sumBefore := txlib.SumBalances(before)
	// transactions: valid by construction
	signer := types.MakeSigner(rules.Cfg, rules.Number)
	var txs []*types.Transaction
	nonces := [3]uint64{}
	ntx := r.Intn(5)
	var gasSum uint64
	for k := 0; k < ntx; k++ {
		m := randMsg(r, w)
		if gasSum+m.gas > 7900000 {
			break
		}
		gasSum += m.gas
		var tx *types.Transaction
		if m.to == nil {
			tx = types.NewContractCreation(nonces[m.from], m.value, m.gas, m.price, m.data)
		} else {
			tx = types.NewTransaction(nonces[m.from], *m.to, m.value, m.gas, m.price, m.data)
		}
		nonces[m.from]++
		stx, err := types.SignTx(tx, signer, keys[m.from].Priv)
		if err != nil {
			panic(err)
		}
		txs = append(txs, stx)
	}
	us := pickUncles(r, h)
	var uhs []*types.Header
	for _, u := range us {
		uhs = append(uhs, hdr(rules.Cfg, bi(u.num), uncleAddr(u.who)))
	}
	header := hdr(rules.Cfg, bi(h), cbAddr)
	block := types.NewBlock(header, txs, uhs, nil)
	bc := chainFor(base)
	tracer := txlib.NewTracer(sdb, nil)
	proc := core.NewStateProcessor(rules.Cfg, bc, bc.Engine())
	run.Current(fmt.Sprintf("blk %s h=%d ntx=%d", base.Name, h, len(txs)))
	receipts, _, _, err := proc.Process(block, sdb, vm.Config{Debug: true, Tracer: tracer})
	if err != nil {
		run.Count("blk:refused:" + strings.SplitN(err.Error(), ":", 2)[0])
		return
	}
	after := txlib.DumpAll(sdb, rules.EIP158)
	sumAfter := txlib.SumBalances(after)
	var ds []string
	for _, a := range w.dealloc {
		ds = append(ds, fmt.Sprint(ix.of(a)))
	}
	dS := "-"
	if isHF4 || isHF5 {
		// the model zeroes (HF4) / queries (HF5) the whole list; only the listed accounts that hold something matter
		dS = strings.Join(ds, ",")
		if dS == "" {
			dS = "-"
		}
	}
	in := fmt.Sprintf("blk %d %d %d %d %s %s %s %d %s", h, b2i(isHF4), b2i(isHF5), ix.of(cbAddr), unclesStr(ix, us), dS, preS, tracer.Suicides, sumAfter)
	out := sumAfter.String()
	if tracer.Suicides > 0 {
		out = "bounded"
	}
	run.Case(in, out)
	run.Count("blk:rules:" + base.Name)
	run.Count(fmt.Sprintf("blk:uncles:%d", len(us)))
	if isHF4 {
		run.Count("blk:hf4-height")
	}
	if isHF5 {
		run.Count("blk:hf5-height")
		for _, a := range w.dealloc {
			x, ok := after[a]
			if !isHF4 && len(txs) == 0 && (!ok || x.Bal.Cmp(before[a].Bal) != 0) {
				run.Violate("hf5-changed-balance", "hf5-changed-balance", map[string]interface{}{"case": in}, "a listed account's balance changed in an empty HF5 block")
			}
		}
	}
	if h >= params.MaxMoney.Uint64() {
		run.Count("blk:at-or-after-cutoff")
	}
	if tracer.Suicides > 0 {
		run.Count("blk:with-selfdestruct")
	}
	nf := 0
	for _, rc := range receipts {
		if rc.Status == types.ReceiptStatusFailed {
			nf++
		}
	}
	total["blk-txs"] += len(receipts)
	total["blk-txs-failed"] += nf
	total["blk-selfdestructs"] += tracer.Suicides
	total["blk-value-call-ops"] += tracer.ValueCalls
	// direct judgement with an independently computed issuance (the statement's formula)
	iss := new(big.Int)
	if h < 42000000 {
		R := new(big.Int).Exp(big.NewInt(10), big.NewInt(18), nil)
		iss.Set(R)
		for _, u := range us {
			x := new(big.Int).Mul(R, bi(u.num+8-h))
			iss.Add(iss, x.Div(x, big.NewInt(8)))
			iss.Add(iss, new(big.Int).Div(R, big.NewInt(32)))
		}
	}
	bound := new(big.Int).Add(sumBefore, iss)
	if sumAfter.Cmp(bound) > 0 {
		run.Violate("supply-above-issuance", "block-supply-above-issuance", map[string]interface{}{"case": in},
			fmt.Sprintf("sum before %s + issuance %s < sum after %s", sumBefore, iss, sumAfter))
	}
	if !isHF4 && tracer.Suicides == 0 && sumAfter.Cmp(bound) != 0 {
		run.Violate("supply-not-exact", "block-supply-not-exact", map[string]interface{}{"case": in},
			fmt.Sprintf("no SELFDESTRUCT, not HF4: sum before %s + issuance %s != sum after %s", sumBefore, iss, sumAfter))
	}
	if isHF4 {
		for _, a := range w.dealloc {
			if x, ok := after[a]; ok && x.Bal.Sign() != 0 {
				// a listed account may have been paid during the block (it is an ordinary account afterwards) — only flag growth over its old balance
				if x.Bal.Cmp(before[a].Bal) > 0 && len(txs) == 0 {
					run.Violate("hf4-raised-balance", "hf4-raised", map[string]interface{}{"case": in}, "a de-allocated account grew in an empty HF4 block")
				}
			}
		}
	}
}

func b2i(b bool) int {
	if b {
		return 1
	}
	return 0
}

func main() {
	run = hx.Start()
	for i := range keys {
		keys[i] = txlib.NewKey(i)
	}
	run.Watch(120*time.Second, 3<<30, func(cur string) string { return "watchdog:" + strings.SplitN(cur, " ", 3)[0] })
	r := hx.NewRng(run.Seed)
	nTx, nBlk, nRw := 5000, 1200, 600
	if run.Thorough() {
		nTx, nBlk, nRw = 80000, 15000, 5000
	}
	st := &progStats{frags: map[string]int{}}
	variants := txlib.Variants()
	rr := r.Fork(1)
	for i := 0; i < nRw; i++ {
		oneReward(rr, variants[4])
	}
	rt := r.Fork(2)
	for i := 0; i < nTx; i++ {
		rules := variants[1+rt.Intn(len(variants)-1)]
		if o := hx.Safe(func() string { oneTx(rt, rules, st); return "" }); o != "" {
			run.Violate("panic", "panic:tx", map[string]interface{}{"rules": rules.Name}, o)
		}
	}
	rb := r.Fork(3)
	for i := 0; i < nBlk; i++ {
		if o := hx.Safe(func() string { oneBlock(rb, st); return "" }); o != "" {
			run.Violate("panic", "panic:blk", nil, o)
		}
	}
	for k, v := range total {
		run.Hist["total:"+k] = v
	}
	for k, v := range st.frags {
		run.Hist["frag:"+k] = v
	}
	run.Notes["insufficient-balance-share"] = fmt.Sprintf("value-carrying CALL/CALLCODE ops seen %d; value transfers executed (incl. top level and CREATE) %d",
		total["value-call-ops-seen"], total["value-transfers-executed"])
	run.Finish()
}

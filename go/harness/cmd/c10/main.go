// c10: correspondence harness for the Merkle-Patricia trie (property C10). Drives the real trie package in-process.
//
// Case kinds written for the Lean model driver (lean/Driver/C10.lean):
//
//	T <plain|secure> <op>|<op>|…   one whole history on a real trie.Trie / trie.SecureTrie over trie.NewDatabase(MemDatabase)
//	D <item>,<item>,…              types.DeriveSha
//	K <bytes>                      key encodings (overlay accessors)
//	N <blob>                       decodeNode (overlay accessor)
//	V <root> <key> <h>=<blob>,…    VerifyProof over an explicit, possibly hostile database
//
// Direct judgements on the Go side (run.Violate): Prove's database keys are the hashes of the elements, every
// single-byte alteration of every proof element fails or verifies to the same value, reopen never misses a node.
package main

import (
	"bufio"
	"bytes"
	"fmt"
	"os"
	"path/filepath"
	"sort"
	"strings"
	"time"

	"gitlab.com/aquachain/aquachain/aquadb"
	"gitlab.com/aquachain/aquachain/common"
	"gitlab.com/aquachain/aquachain/core/types"
	"gitlab.com/aquachain/aquachain/crypto/sha3"
	"gitlab.com/aquachain/aquachain/rlp"
	"gitlab.com/aquachain/aquachain/trie"
	"verifharness/hx"
)

// ---- the trie under test behind one interface (plain and secure) -------------------------------------------------

type anyTrie interface {
	TryGet(key []byte) ([]byte, error)
	TryUpdate(key, value []byte) error
	TryDelete(key []byte) error
	Hash() common.Hash
	Commit(onleaf trie.LeafCallback) (common.Hash, error)
	NodeIterator(start []byte) trie.NodeIterator
	Prove(key []byte, fromLevel uint, proofDb aquadb.Putter) error
}

type world struct {
	secure bool
	disk   *aquadb.MemDatabase
	tdb    *trie.Database
	t      anyTrie
	plain  *trie.Trie
	limit  uint16
	rng    *hx.Rng
}

func (w *world) open(root common.Hash) error {
	if w.secure {
		st, err := trie.NewSecure(root, w.tdb, w.limit)
		if err != nil {
			return err
		}
		w.t, w.plain = st, nil
		return nil
	}
	t, err := trie.New(root, w.tdb)
	if err != nil {
		return err
	}
	t.SetCacheLimit(w.limit)
	w.t, w.plain = t, t
	return nil
}

func newWorld(secure bool, rng *hx.Rng) *world {
	w := &world{secure: secure, disk: aquadb.NewMemDatabase(), rng: rng}
	w.tdb = trie.NewDatabase(w.disk)
	if err := w.open(common.Hash{}); err != nil {
		panic(err)
	}
	return w
}

func (w *world) key(k []byte) []byte {
	if w.secure {
		return sha3.Keccak256(k)
	}
	return k
}

// nodeList collects Prove's output in order.
type nodeList struct {
	keys [][]byte
	vals [][]byte
}

func (n *nodeList) Put(k, v []byte) error {
	n.keys = append(n.keys, common.CopyBytes(k))
	n.vals = append(n.vals, common.CopyBytes(v))
	return nil
}

func proofDbOf(elems [][]byte) *aquadb.MemDatabase {
	db := aquadb.NewMemDatabase()
	for _, e := range elems {
		db.Put(sha3.Keccak256(e), e)
	}
	return db
}

func verifyStr(root common.Hash, key []byte, db trie.DatabaseReader) string {
	return hx.Safe(func() string {
		v, err, _ := trie.VerifyProof(root, key, db)
		if err != nil {
			return "err"
		}
		if v == nil {
			return "absent"
		}
		return "v" + hx.Hex(v)
	})
}

func unhex(s string) []byte {
	if s == "-" || s == "" {
		return nil
	}
	b := make([]byte, len(s)/2)
	for i := range b {
		fmt.Sscanf(s[2*i:2*i+2], "%02x", &b[i])
	}
	return b
}

// ---- executing one history ------------------------------------------------------------------------------------------

type seqStats struct {
	alterations int
	proofs      int
}

// runSeq executes ops on the real code and returns the Go output line. Direct violations go to run.
func runSeq(run *hx.Run, kind string, ops []string, seed uint64, alterAll bool, st *seqStats) string {
	rng := hx.NewRng(seed)
	w := newWorld(kind == "secure", rng)
	ref := map[string][]byte{} // reference content keyed by the trie-level key (hashed for secure)
	var outs []string
	input := "T " + kind + " " + strings.Join(ops, "|")
	for _, op := range ops {
		f := strings.Split(op, ":")
		switch f[0] {
		case "u":
			raw, v := unhex(f[1]), unhex(f[2])
			k := w.key(raw)
			if err := w.t.TryUpdate(raw, v); err != nil {
				run.Violate("trie-error", "update-error", input, err.Error())
			}
			if len(v) == 0 {
				delete(ref, string(k))
			} else {
				ref[string(k)] = v
			}
		case "d":
			raw := unhex(f[1])
			k := w.key(raw)
			if err := w.t.TryDelete(raw); err != nil {
				run.Violate("trie-error", "delete-error", input, err.Error())
			}
			delete(ref, string(k))
		case "g":
			v, err := w.t.TryGet(unhex(f[1])) // SecureTrie hashes the key itself
			if err != nil {
				run.Violate("trie-error", "get-error", input, err.Error())
			}
			outs = append(outs, hx.Hex(v))
		case "h":
			outs = append(outs, hx.Hex(w.t.Hash().Bytes()))
		case "c":
			root, err := w.t.Commit(nil)
			if err != nil {
				run.Violate("trie-error", "commit-error", input, err.Error())
			}
			outs = append(outs, hx.Hex(root.Bytes()))
		case "r":
			root, err := w.t.Commit(nil)
			if err != nil {
				run.Violate("trie-error", "commit-error", input, err.Error())
			}
			switch rng.Intn(3) {
			case 0: // reopen on the same node database
			case 1: // flush to disk, same node database
				if err := w.tdb.Commit(root, false); err != nil {
					run.Violate("trie-error", "db-commit-error", input, err.Error())
				}
			default: // flush to disk and forget every in-memory node (process restart)
				if err := w.tdb.Commit(root, false); err != nil {
					run.Violate("trie-error", "db-commit-error", input, err.Error())
				}
				w.tdb = trie.NewDatabase(w.disk)
			}
			if w.secure {
				w.limit = uint16(rng.Intn(3))
			}
			if err := w.open(root); err != nil {
				run.Violate("reopen-missing-node", "reopen-error", input, err.Error())
				outs = append(outs, "reopen-error")
				return strings.Join(outs, "|")
			}
			outs = append(outs, hx.Hex(w.t.Hash().Bytes()))
		case "l":
			var n int
			fmt.Sscanf(f[1], "%d", &n)
			w.limit = uint16(n)
			if w.plain != nil {
				w.plain.SetCacheLimit(uint16(n))
			}
		case "i":
			it := trie.NewIterator(w.t.NodeIterator(nil))
			var parts []string
			for it.Next() {
				parts = append(parts, hx.Hex(it.Key)+"="+hx.Hex(it.Value))
			}
			s := strings.Join(parts, ",")
			if len(parts) == 0 {
				s = "-"
			}
			if it.Err != nil {
				s += "!err"
				run.Violate("trie-error", "iterator-error", input, it.Err.Error())
			}
			outs = append(outs, s)
		case "p":
			k := w.key(unhex(f[1]))
			nl := &nodeList{}
			if err := w.t.Prove(k, 0, nl); err != nil {
				run.Violate("trie-error", "prove-error", input, err.Error())
			}
			root := w.t.Hash()
			for i := range nl.vals {
				if !bytes.Equal(nl.keys[i], sha3.Keccak256(nl.vals[i])) {
					run.Violate("proof-key-not-hash", "prove-key", input, fmt.Sprintf("element %d stored under %x", i, nl.keys[i]))
				}
			}
			res := verifyStr(root, k, proofDbOf(nl.vals))
			want := "absent"
			if v, ok := ref[string(k)]; ok {
				want = "v" + hx.Hex(v)
			}
			if res != want {
				if len(ref) == 0 && len(nl.vals) == 0 && res == "err" {
					// the empty trie: Prove yields no node and VerifyProof(emptyRoot, …) reports "proof node 0 missing"
					run.Violate("proof-empty-trie-unverifiable", "empty-trie-absence-proof", map[string]string{"history": input, "key": hx.Hex(k)},
						"Prove on the empty trie returns no nodes and VerifyProof(emptyRoot) fails instead of proving absence")
				} else {
					run.Violate("proof-wrong-value", "prove-verify", map[string]string{"history": input, "key": hx.Hex(k)}, "verify="+res+" content="+want)
				}
			}
			hexes := make([]string, len(nl.vals))
			for i, e := range nl.vals {
				hexes[i] = hx.Hex(e)
			}
			outs = append(outs, strings.Join(hexes, ",")+">"+res)
			st.proofs++
			alterProof(run, input, root, k, nl.vals, want, rng, alterAll, st)
		case "x":
			k, k2 := w.key(unhex(f[1])), w.key(unhex(f[2]))
			nl := &nodeList{}
			w.t.Prove(k, 0, nl)
			outs = append(outs, verifyStr(w.t.Hash(), k2, proofDbOf(nl.vals)))
		}
	}
	return strings.Join(outs, "|")
}

// alterProof: every single-byte alteration (quick tier: a fixed set of 4 alterations per byte, all 255 for sampled
// proofs; thorough: all 255) of every element, plus truncation, extension and removal of elements, must make
// VerifyProof fail or return the value the content holds.
func alterProof(run *hx.Run, input string, root common.Hash, key []byte, elems [][]byte, want string, rng *hx.Rng, all bool, st *seqStats) {
	check := func(alt [][]byte, what string) {
		st.alterations++
		res := verifyStr(root, key, proofDbOf(alt))
		if res != "err" && res != want {
			run.Violate("altered-proof-accepted", "altered-proof", map[string]interface{}{"history": input, "key": hx.Hex(key), "alteration": what},
				"altered proof verifies to "+res+" but the content is "+want)
		}
		if strings.HasPrefix(res, "panic") {
			run.Violate("verify-panic", "altered-proof-panic", map[string]interface{}{"history": input, "key": hx.Hex(key), "alteration": what}, res)
		}
		run.Count("alter:" + strings.Fields(res)[0][:1])
	}
	for ei, e := range elems {
		for pos := range e {
			var vals []byte
			if all {
				for d := 1; d < 256; d++ {
					vals = append(vals, e[pos]^byte(d))
				}
			} else {
				vals = []byte{e[pos] ^ 0x01, e[pos] ^ 0x80, e[pos] + 1, byte(rng.U64())}
			}
			for _, nv := range vals {
				if nv == e[pos] {
					continue
				}
				alt := make([][]byte, len(elems))
				copy(alt, elems)
				m := common.CopyBytes(e)
				m[pos] = nv
				alt[ei] = m
				check(alt, fmt.Sprintf("elem %d byte %d -> %02x", ei, pos, nv))
			}
		}
		// structural alterations of one element
		alt := make([][]byte, len(elems))
		copy(alt, elems)
		alt[ei] = e[:len(e)-1]
		check(alt, fmt.Sprintf("elem %d truncated", ei))
		alt = make([][]byte, len(elems))
		copy(alt, elems)
		alt[ei] = append(common.CopyBytes(e), 0x00)
		check(alt, fmt.Sprintf("elem %d extended", ei))
		alt = append(append([][]byte{}, elems[:ei]...), elems[ei+1:]...)
		check(alt, fmt.Sprintf("elem %d removed", ei))
	}
}

// ---- generators -------------------------------------------------------------------------------------------------------

var smallAlpha = []byte{0x00, 0x01, 0x0f, 0x10, 0x11, 0x1f, 0xf0, 0xff, 0x80, 0x81}

func rlpUint(i uint) []byte { b, _ := rlp.EncodeToBytes(i); return b }

// genKeys: a pool of keys whose prefixes and siblings collide.
func genKeys(r *hx.Rng, style int) [][]byte {
	var keys [][]byte
	n := 3 + r.Intn(10)
	switch style {
	case 0: // variable length 0..4 over a tiny alphabet (one key a prefix of another, empty key included)
		al := []byte{smallAlpha[r.Intn(len(smallAlpha))], smallAlpha[r.Intn(len(smallAlpha))], smallAlpha[r.Intn(len(smallAlpha))]}
		for i := 0; i < n; i++ {
			k := make([]byte, r.Intn(5))
			for j := range k {
				k[j] = al[r.Intn(len(al))]
			}
			keys = append(keys, k)
		}
	case 1: // fixed-length 32-byte keys sharing long prefixes (hashed-key shape)
		base := r.Bytes(32)
		for i := 0; i < n; i++ {
			k := common.CopyBytes(base)
			switch r.Intn(4) {
			case 0:
				k[31] = smallAlpha[r.Intn(len(smallAlpha))]
			case 1:
				k[30], k[31] = smallAlpha[r.Intn(4)], smallAlpha[r.Intn(4)]
			case 2:
				k[0] = smallAlpha[r.Intn(len(smallAlpha))]
			default:
				p := r.Intn(32)
				k[p] ^= 1 << uint(r.Intn(8))
			}
			keys = append(keys, k)
		}
	case 2: // DeriveSha keys rlp(i): 0x80, 0x01.., 0x7f, 0x8180, …
		for i := 0; i < n; i++ {
			keys = append(keys, rlpUint(uint(hx.NewRng(r.U64()).Pick([]int{0, 1, 2, 15, 16, 17, 127, 128, 129, 255, 256, 300}))))
		}
	default: // short keys, one or two bytes, nibble-level siblings
		for i := 0; i < n; i++ {
			k := []byte{byte(r.Intn(4))<<4 | byte(r.Intn(3))}
			if r.Bool() {
				k = append(k, byte(r.Intn(2))<<4|byte(r.Intn(2)))
			}
			keys = append(keys, k)
		}
	}
	return keys
}

var valLens = []int{1, 1, 2, 3, 5, 8, 20, 29, 30, 31, 32, 33, 34, 40, 70, 100}

func genVal(r *hx.Rng) []byte {
	n := valLens[r.Intn(len(valLens))]
	if r.Intn(3) == 0 { // few distinct values so that equal-value updates (clean path) happen
		return bytes.Repeat([]byte{byte(1 + r.Intn(3))}, n)
	}
	return r.Bytes(n)
}

func genSeq(r *hx.Rng, maxOps int) (string, []string) {
	kind := "plain"
	if r.Intn(4) == 0 {
		kind = "secure"
	}
	keys := genKeys(r, r.Intn(4))
	pick := func() string { return hx.Hex(keys[r.Intn(len(keys))]) }
	n := 5 + r.Intn(maxOps-4)
	ops := make([]string, 0, n+2)
	lastVal := map[string]string{}
	for i := 0; i < n; i++ {
		x := r.Intn(100)
		switch {
		case x < 36:
			k := pick()
			v := hx.Hex(genVal(r))
			if lv, ok := lastVal[k]; ok && r.Intn(6) == 0 {
				v = lv // rewrite the same value
			}
			lastVal[k] = v
			ops = append(ops, "u:"+k+":"+v)
		case x < 40:
			ops = append(ops, "u:"+pick()+":-") // empty value = delete
		case x < 52:
			ops = append(ops, "d:"+pick())
		case x < 64:
			ops = append(ops, "g:"+pick())
		case x < 72:
			ops = append(ops, "h")
		case x < 79:
			ops = append(ops, "c")
		case x < 85:
			ops = append(ops, "r")
		case x < 88:
			ops = append(ops, fmt.Sprintf("l:%d", r.Intn(3)))
		case x < 92:
			ops = append(ops, "i")
		case x < 97:
			ops = append(ops, "p:"+pick())
		default:
			ops = append(ops, "x:"+pick()+":"+pick())
		}
	}
	ops = append(ops, "h", "i")
	return kind, ops
}

type gcVersion struct {
	root    common.Hash
	content map[string][]byte
}

func copyContent(m map[string][]byte) map[string][]byte {
	c := make(map[string][]byte, len(m))
	for k, v := range m {
		c[k] = v
	}
	return c
}

func sortedKeys(m map[string][]byte) []string {
	ks := make([]string, 0, len(m))
	for k := range m {
		ks = append(ks, k)
	}
	sort.Strings(ks)
	return ks
}

// checkRoot reopens root on tdb and compares with the recorded content.
func checkRoot(tdb *trie.Database, v gcVersion, probes [][]byte) string {
	return hx.Safe(func() string {
		t, err := trie.New(v.root, tdb)
		if err != nil {
			return "reopen-error: " + err.Error()
		}
		for _, k := range probes {
			got, err := t.TryGet(k)
			if err != nil {
				return "get-error: " + err.Error()
			}
			if !bytes.Equal(got, v.content[string(k)]) {
				return fmt.Sprintf("wrong-value key=%x", k)
			}
		}
		n := 0
		it := trie.NewIterator(t.NodeIterator(nil))
		for it.Next() {
			if !bytes.Equal(it.Value, v.content[string(it.Key)]) {
				return fmt.Sprintf("iterator-wrong key=%x", it.Key)
			}
			n++
		}
		if it.Err != nil {
			return "iterator-error: " + it.Err.Error()
		}
		if n != len(v.content) {
			return fmt.Sprintf("iterator-count %d want %d", n, len(v.content))
		}
		if t.Hash() != v.root {
			return "hash-differs"
		}
		return "ok"
	})
}

func gcHistory(run *hx.Run, r *hx.Rng) {
	disk := aquadb.NewMemDatabase()
	tdb := trie.NewDatabase(disk)
	keys := genKeys(r, r.Intn(4))
	empty := trie.VerifEmptyRoot()
	var versions []gcVersion
	verPins := []int{} // outstanding pins taken by version i (0 or 1)
	pins := map[common.Hash]int{}
	var ops, outs []string
	fail := func(kind, detail string) {
		run.Violate(kind, "gc", map[string]interface{}{"history": "G " + strings.Join(ops, "|")}, detail)
	}
	gcCheck := func() bool {
		ok := true
		for i, v := range versions {
			if verPins[i] == 0 && pins[v.root] == 0 {
				continue
			}
			if pins[v.root] == 0 || v.root == empty {
				continue
			}
			if res := checkRoot(tdb, v, keys); res != "ok" {
				fail("gc-lost-referenced-root", fmt.Sprintf("version %d root %x has %d outstanding reference(s) but: %s", i, v.root, pins[v.root], res))
				ok = false
			}
		}
		hs := tdb.Nodes()
		sort.Slice(hs, func(a, b int) bool { return bytes.Compare(hs[a][:], hs[b][:]) < 0 })
		var cat []byte
		for _, h := range hs {
			cat = append(cat, h[:]...)
		}
		ops = append(ops, "k")
		outs = append(outs, fmt.Sprintf("%d:%s", len(hs), hx.Hex(sha3.Keccak256(cat)[:8])))
		return ok
	}
	newVersion := func(base int, content map[string][]byte, muts []string) bool {
		baseRoot := common.Hash{}
		b := "-"
		if base >= 0 {
			baseRoot, b = versions[base].root, fmt.Sprint(base)
		}
		t, err := trie.New(baseRoot, tdb)
		if err != nil {
			fail("gc-lost-referenced-root", fmt.Sprintf("cannot open pinned base version %d: %v", base, err))
			return false
		}
		for _, m := range muts {
			kv := strings.Split(m, "=")
			if err := t.TryUpdate(unhex(kv[0]), unhex(kv[1])); err != nil {
				fail("gc-lost-referenced-root", "update on pinned base failed: "+err.Error())
				return false
			}
		}
		root, err := t.Commit(nil)
		if err != nil {
			fail("trie-error", err.Error())
			return false
		}
		if root != empty {
			tdb.Reference(root, common.Hash{})
			pins[root]++
			verPins = append(verPins, 1)
		} else {
			verPins = append(verPins, 0)
		}
		versions = append(versions, gcVersion{root, content})
		ops = append(ops, "v:"+b+":"+strings.Join(muts, ";"))
		outs = append(outs, hx.Hex(root.Bytes()))
		return true
	}
	pinnedVersions := func() []int {
		var ps []int
		for i := range versions {
			if verPins[i] > 0 {
				ps = append(ps, i)
			}
		}
		return ps
	}
	steps := 6 + r.Intn(10)
	for s := 0; s < steps; s++ {
		ps := pinnedVersions()
		x := r.Intn(100)
		switch {
		case len(versions) == 0 || x < 35: // mutate a pinned version (or start from the empty trie)
			base := -1
			content := map[string][]byte{}
			if len(ps) > 0 && r.Intn(5) > 0 {
				base = ps[r.Intn(len(ps))]
				content = copyContent(versions[base].content)
			}
			var muts []string
			for j := 0; j < 1+r.Intn(4); j++ {
				k := keys[r.Intn(len(keys))]
				if r.Intn(4) == 0 {
					muts = append(muts, hx.Hex(k)+"=-")
					delete(content, string(k))
				} else {
					v := genVal(r)
					muts = append(muts, hx.Hex(k)+"="+hx.Hex(v))
					content[string(k)] = v
				}
			}
			if !newVersion(base, content, muts) {
				return
			}
		case x < 55 && len(ps) > 0: // return to the content of an EARLIER version from a pinned one (A -> B -> A)
			base := ps[r.Intn(len(ps))]
			target := versions[r.Intn(len(versions))].content
			cur := versions[base].content
			var muts []string
			for _, k := range sortedKeys(cur) {
				if _, ok := target[k]; !ok {
					muts = append(muts, hx.Hex([]byte(k))+"=-")
				}
			}
			for _, k := range sortedKeys(target) {
				if !bytes.Equal(cur[k], target[k]) {
					muts = append(muts, hx.Hex([]byte(k))+"="+hx.Hex(target[k]))
				}
			}
			if !newVersion(base, copyContent(target), muts) {
				return
			}
		case x < 68: // rebuild the content of an earlier version from scratch in a shuffled insertion order
			target := versions[r.Intn(len(versions))].content
			ks := sortedKeys(target)
			for j := len(ks) - 1; j > 0; j-- {
				k := r.Intn(j + 1)
				ks[j], ks[k] = ks[k], ks[j]
			}
			var muts []string
			for _, k := range ks {
				muts = append(muts, hx.Hex([]byte(k))+"="+hx.Hex(target[k]))
			}
			if !newVersion(-1, copyContent(target), muts) {
				return
			}
		case x < 90 && len(ps) > 0: // release one pin
			i := ps[r.Intn(len(ps))]
			tdb.Dereference(versions[i].root, common.Hash{})
			pins[versions[i].root]--
			verPins[i] = 0
			ops = append(ops, fmt.Sprintf("f:%d", i))
		default:
			if !gcCheck() {
				return
			}
		}
	}
	ok := gcCheck()
	run.Case("G "+strings.Join(ops, "|"), strings.Join(outs, "|"))
	run.Count("gc-history")
	if !ok {
		return
	}
	// flush every still-pinned root to disk and reopen through a fresh node database
	for _, v := range versions {
		if pins[v.root] > 0 && v.root != empty {
			if err := tdb.Commit(v.root, false); err != nil {
				fail("trie-error", "Database.Commit: "+err.Error())
			}
		}
	}
	fresh := trie.NewDatabase(disk)
	for i, v := range versions {
		if pins[v.root] > 0 && v.root != empty {
			run.Count("gc-pinned-root-checked")
			if res := checkRoot(fresh, v, keys); res != "ok" {
				fail("gc-lost-referenced-root", fmt.Sprintf("after Database.Commit + fresh Database: version %d root %x (%d outstanding reference(s)): %s", i, v.root, pins[v.root], res))
			}
		}
	}
}

type byteList [][]byte

func (l byteList) Len() int            { return len(l) }
func (l byteList) GetRlp(i int) []byte { return l[i] }

func main() {
	run := hx.Start()
	rng := hx.NewRng(run.Seed)
	run.Watch(30*time.Second, 3<<30, func(cur string) string { return "watchdog" })
	st := &seqStats{}

	doSeq := func(kind string, ops []string, seed uint64, alterAll bool) {
		input := "T " + kind + " " + strings.Join(ops, "|")
		run.Current(input)
		out := hx.Safe(func() string { return runSeq(run, kind, ops, seed, alterAll, st) })
		if strings.HasPrefix(out, "panic") {
			run.Violate("panic", "history-panic", input, out)
		}
		run.Case(input, out)
		run.Count("seq:" + kind)
		for _, op := range ops {
			run.Count("op:" + op[:1])
		}
	}

	// 0. corpus: hand-written boundary histories and minimised past disagreements, always first
	if root := os.Getenv("VERIF_ROOT"); root != "" {
		files, _ := filepath.Glob(filepath.Join(root, "corpus", "C10", "*.txt"))
		sort.Strings(files)
		for _, fn := range files {
			f, err := os.Open(fn)
			if err != nil {
				continue
			}
			sc := bufio.NewScanner(f)
			sc.Buffer(make([]byte, 1<<20), 1<<24)
			for sc.Scan() {
				fs := strings.Fields(sc.Text())
				if len(fs) == 3 && fs[0] == "T" {
					doSeq(fs[1], strings.Split(fs[2], "|"), 7, true)
					run.Count("corpus")
				}
			}
			f.Close()
		}
	}

	// 1. random histories
	nSeq, maxOps := 1500, 80
	if run.Thorough() {
		nSeq = 30000
	}
	r1 := rng.Fork(1)
	for i := 0; i < nSeq; i++ {
		kind, ops := genSeq(r1, maxOps)
		alterAll := run.Thorough() && i%40 == 0 || !run.Thorough() && i%250 == 0
		doSeq(kind, ops, r1.U64(), alterAll)
	}

	// 2. order independence on the real code alone: the same content inserted in two orders, with and without
	//    intermediate commits/reopens — judged by the model through the root each history reports
	r2 := rng.Fork(2)
	nPerm := 200
	if run.Thorough() {
		nPerm = 5000
	}
	for i := 0; i < nPerm; i++ {
		keys := genKeys(r2, r2.Intn(4))
		var ups []string
		for _, k := range keys {
			ups = append(ups, "u:"+hx.Hex(k)+":"+hx.Hex(genVal(r2)))
		}
		// extra keys inserted then deleted again
		var extra []string
		for j := 0; j < 1+r2.Intn(4); j++ {
			k := hx.Hex(genKeys(r2, r2.Intn(4))[0])
			extra = append(extra, k)
		}
		a := append([]string{}, ups...)
		a = append(a, "h")
		b := []string{}
		for _, k := range extra {
			b = append(b, "u:"+k+":"+hx.Hex(genVal(r2)))
		}
		perm := append([]string{}, ups...)
		for j := len(perm) - 1; j > 0; j-- {
			k := r2.Intn(j + 1)
			perm[j], perm[k] = perm[k], perm[j]
		}
		// note: duplicates in `keys` make the LAST write win; keep relative order of equal keys by re-applying ups in order
		b = append(b, perm...)
		b = append(b, "c")
		for _, k := range extra {
			b = append(b, "d:"+k)
		}
		b = append(b, "r")
		b = append(b, ups...)
		b = append(b, "h")
		kind := "plain"
		if r2.Intn(4) == 0 {
			kind = "secure"
		}
		sa := r2.U64()
		doSeq(kind, a, sa, false)
		doSeq(kind, b, sa, false)
		run.Count("perm-pair")
	}

	// 3. DeriveSha differential (keys rlp(i): 0x80, 0x01..0x7f, 0x8180.., 0x820100..; from i = 128 on one key is a byte-prefix
	//    of another). The model driver recomputes the root independently: model insert AND mptRoot of {rlp(i) -> item_i}.
	r3 := rng.Fork(3)
	sizeSet := map[int]bool{}
	for _, n := range []int{0, 1, 2, 3, 15, 16, 17, 18, 55, 56, 57, 126, 127, 128, 129, 130, 131, 200, 254, 255, 256, 257, 258, 300} {
		sizeSet[n] = true
	}
	nRand := 12
	if run.Thorough() {
		nRand = 150
		for n := 0; n <= 300; n++ {
			sizeSet[n] = true
		}
		sizeSet[500], sizeSet[1000] = true, true
	}
	for i := 0; i < nRand; i++ {
		sizeSet[r3.Intn(301)] = true
	}
	var sizes []int
	for n := range sizeSet {
		sizes = append(sizes, n)
	}
	sort.Ints(sizes)
	for _, n := range sizes {
		items := make(byteList, n)
		parts := make([]string, n)
		for i := range items {
			items[i] = genVal(r3)
			if r3.Intn(8) == 0 { // receipt / transaction sized items
				items[i] = r3.Bytes(100 + r3.Intn(200))
			}
			parts[i] = hx.Hex(items[i])
		}
		in := "D " + strings.Join(parts, ",")
		if n == 0 {
			in = "D -"
		}
		run.Current(in)
		out := hx.Safe(func() string { return hx.Hex(types.DeriveSha(items).Bytes()) })
		run.Case(in, out)
		run.Count("derivesha")
		if n >= 129 {
			run.Count("derivesha:n>=129")
		}
	}
	run.Notes["derivesha_sizes"] = sizes

	// 4. key encodings: exhaustive short keys over the alphabet + random
	var kcases [][]byte
	kcases = append(kcases, nil)
	for _, a := range smallAlpha {
		kcases = append(kcases, []byte{a})
		for _, b := range smallAlpha {
			kcases = append(kcases, []byte{a, b})
		}
	}
	for b := 0; b < 256; b++ {
		kcases = append(kcases, []byte{byte(b)}, []byte{byte(b), 0x5a, 0xa5})
	}
	r4 := rng.Fork(4)
	for i := 0; i < 500; i++ {
		kcases = append(kcases, r4.Bytes(r4.Intn(40)))
	}
	for _, k := range kcases {
		in := "K " + hx.Hex(k)
		run.Current(in)
		out := hx.Safe(func() string {
			hexk := trie.VerifKeybytesToHex(k)
			nt := common.CopyBytes(hexk[:len(hexk)-1])
			c2h := hx.Safe(func() string { return hx.Hex(trie.VerifCompactToHex(common.CopyBytes(k))) })
			if strings.HasPrefix(c2h, "panic") {
				c2h = "panic"
			}
			back := hx.Safe(func() string { return hx.Hex(trie.VerifHexToKeybytes(common.CopyBytes(hexk))) })
			return hx.Hex(hexk) + " " + hx.Hex(trie.VerifHexToCompact(common.CopyBytes(hexk))) + " " + hx.Hex(trie.VerifHexToCompact(nt)) + " " + c2h + " " + back
		})
		run.Case(in, out)
		run.Count("keyenc")
	}

	// 5. decodeNode and VerifyProof on genuine and hostile node blobs (malformed stream)
	r5 := rng.Fork(5)
	nHost := 150
	if run.Thorough() {
		nHost = 6000
	}
	decode := func(blob []byte) {
		in := "N " + hx.Hex(blob)
		run.Current(in)
		out := hx.Safe(func() string { return trie.VerifDecodeNode(blob) })
		if strings.HasPrefix(out, "panic") {
			out = "panic"
			run.Count("decode:panic")
		} else {
			run.Count("decode:" + strings.Fields(out)[0])
		}
		run.Case(in, out)
	}
	decode(nil)
	for _, s := range []string{"c0", "c180", "c28080", "c22001", "c20001", "c21001", "c23001", "c2800a", "c3c08080", "80", "c22080", "c2208180",
		"d1808080808080808080808080808080808080", "d180808080808080808080808080808080800a", "d28080808080808080808080808080808080c0"} {
		decode(unhex(s))
	}
	for i := 0; i < nHost; i++ {
		// a genuine trie, a genuine proof, then mutations of single blobs kept under their ORIGINAL hash
		w := newWorld(false, r5)
		keys := genKeys(r5, r5.Intn(4))
		for _, k := range keys {
			w.t.TryUpdate(k, genVal(r5))
		}
		root := w.t.Hash()
		k := keys[r5.Intn(len(keys))]
		if r5.Intn(4) == 0 {
			k = append(common.CopyBytes(k), byte(r5.U64()))
		}
		nl := &nodeList{}
		w.t.Prove(k, 0, nl)
		for _, e := range nl.vals {
			decode(e)
		}
		emitV := func(vals [][]byte) {
			pairs := make([]string, len(vals))
			db := aquadb.NewMemDatabase()
			for j := range vals {
				pairs[j] = hx.Hex(nl.keys[j]) + "=" + hx.Hex(vals[j])
				db.Put(nl.keys[j], vals[j])
			}
			ps := strings.Join(pairs, ",")
			if len(pairs) == 0 {
				ps = "-"
			}
			in := "V " + hx.Hex(root.Bytes()) + " " + hx.Hex(k) + " " + ps
			run.Current(in)
			out := verifyStr(root, k, db)
			if strings.HasPrefix(out, "panic") {
				out = "panic"
			}
			run.Count("hostile-verify:" + out[:1])
			run.Case(in, out)
		}
		emitV(nl.vals)
		for m := 0; m < 12; m++ {
			vals := make([][]byte, len(nl.vals))
			copy(vals, nl.vals)
			ei := r5.Intn(len(vals))
			e := common.CopyBytes(vals[ei])
			switch r5.Intn(6) {
			case 0:
				e[r5.Intn(len(e))] ^= 1 << uint(r5.Intn(8))
			case 1:
				e[r5.Intn(len(e))] = byte(r5.U64())
			case 2:
				e = e[:r5.Intn(len(e))]
			case 3:
				e = append(e, byte(r5.U64()))
			case 4: // splice a header byte
				e[0] = []byte{0xc0, 0xc1, 0xc2, 0xd1, 0xf8, 0xf7, 0x80, 0xb8}[r5.Intn(8)]
			default:
				p := r5.Intn(len(e))
				e[p] = []byte{0x00, 0x80, 0x81, 0xa0, 0xc0, 0x20, 0x30, 0x10}[r5.Intn(8)]
			}
			vals[ei] = e
			decode(e)
			emitV(vals)
		}
	}

	// 6. missing nodes (direct judgement, Lean: missing_node_is_reported): commit a trie, flush it to disk, delete ONE node
	//    blob from the disk database, reopen over a fresh node database: every TryGet / TryUpdate / TryDelete must either
	//    fail with a MissingNodeError or behave exactly as on the intact trie — never return a wrong value, never panic.
	r6 := rng.Fork(6)
	nMiss := 150
	if run.Thorough() {
		nMiss = 5000
	}
	for i := 0; i < nMiss; i++ {
		w := newWorld(false, r6)
		keys := genKeys(r6, r6.Intn(4))
		ref := map[string][]byte{}
		var desc []string
		for _, k := range keys {
			v := genVal(r6)
			w.t.TryUpdate(k, v)
			ref[string(k)] = v
			desc = append(desc, "u:"+hx.Hex(k)+":"+hx.Hex(v))
		}
		root, _ := w.t.Commit(nil)
		w.tdb.Commit(root, false)
		dk := w.disk.Keys()
		sort.Slice(dk, func(a, b int) bool { return bytes.Compare(dk[a], dk[b]) < 0 })
		if len(dk) == 0 {
			continue
		}
		victim := dk[r6.Intn(len(dk))]
		w.disk.Delete(victim)
		input := map[string]interface{}{"history": strings.Join(desc, "|"), "deleted_node": hx.Hex(victim)}
		run.Current(fmt.Sprint(input))
		res := hx.Safe(func() string {
			t2, err := trie.New(root, trie.NewDatabase(w.disk))
			if err != nil {
				if _, ok := err.(*trie.MissingNodeError); !ok {
					return "bad-error-type " + err.Error()
				}
				return "root-missing"
			}
			probe := append([][]byte{}, keys...)
			probe = append(probe, genKeys(r6, r6.Intn(4))...)
			missing := 0
			for _, k := range probe {
				v, err := t2.TryGet(k)
				if err != nil {
					if _, ok := err.(*trie.MissingNodeError); !ok {
						return "bad-error-type " + err.Error()
					}
					missing++
					continue
				}
				if !bytes.Equal(v, ref[string(k)]) {
					return fmt.Sprintf("wrong-value key=%x got=%x want=%x", k, v, ref[string(k)])
				}
			}
			// mutate through the damaged trie: an operation either reports the missing node or takes effect exactly
			for _, k := range probe[:len(probe)/2] {
				var err error
				if r6.Bool() {
					nv := genVal(r6)
					if err = t2.TryUpdate(k, nv); err == nil {
						ref[string(k)] = nv
					}
				} else {
					if err = t2.TryDelete(k); err == nil {
						delete(ref, string(k))
					}
				}
				if err != nil {
					if _, ok := err.(*trie.MissingNodeError); !ok {
						return "bad-error-type " + err.Error()
					}
				}
			}
			for _, k := range probe {
				v, err := t2.TryGet(k)
				if err == nil && !bytes.Equal(v, ref[string(k)]) {
					return fmt.Sprintf("wrong-value-after-update key=%x got=%x want=%x", k, v, ref[string(k)])
				}
			}
			if missing == 0 {
				return "ok-unaffected"
			}
			return "ok-missing-reported"
		})
		run.Count("missing-node:" + strings.Fields(res)[0])
		if !strings.HasPrefix(res, "ok-") && res != "root-missing" {
			run.Violate("missing-node-misbehaviour", "missing-node", input, res)
		}
	}

	// 7. the reference-counted node store (trie.Database Reference / Dereference — state pruning as core/blockchain does):
	//    versions committed in memory and pinned with Reference(root, {}), incl. REPEATED identical contents (A -> B -> A,
	//    the same content rebuilt in another insertion order); some pins released; then every root with an outstanding
	//    pin must reopen and reproduce its content, survive Database.Commit to disk and reopen through a fresh Database.
	//    The model (Model.TrieGc) replays the same ops and must end up with the same SET of cached nodes.
	r7 := rng.Fork(7)
	nGc := 250
	if run.Thorough() {
		nGc = 4000
	}
	for i := 0; i < nGc; i++ {
		gcHistory(run, r7)
	}

	// a run that produced (almost) no cases is a broken correspondence, never a pass
	minCases := 3000
	if run.NCases < minCases || st.proofs < 100 || run.Hist["derivesha"] < 20 {
		run.Violate("degenerate-run", "degenerate-run", map[string]int{"cases": run.NCases, "proofs": st.proofs, "derivesha": run.Hist["derivesha"]},
			"the harness produced too few cases to say anything")
	}
	run.Notes["proofs"] = st.proofs
	run.Notes["proof_alterations_judged"] = st.alterations
	run.Notes["empty_root_is_keccak_of_0x80"] = bytes.Equal(trie.VerifEmptyRoot().Bytes(), sha3.Keccak256([]byte{0x80}))
	if !bytes.Equal(trie.VerifEmptyRoot().Bytes(), sha3.Keccak256([]byte{0x80})) {
		run.Violate("empty-root", "empty-root", "", "emptyRoot is not Keccak256(rlp(\"\"))")
	}
	run.Finish()
}

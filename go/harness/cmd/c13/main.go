// c13: correspondence harness for the header / uncle consensus rules (property C13).
// Drives the REAL consensus/aquahash code in-process: CalcDifficulty, verifyHeader (through an -overlay accessor),
// VerifyHeader, VerifyHeaders (under GOMAXPROCS 1..16 with jitter), VerifyUncles — with a fake-seal engine and an
// in-memory ChainReader.  Every case is written for the Lean model (Impl) which also judges the Go verdict by the Spec.
package main

import (
	"context"
	"fmt"
	"math/big"
	"os"
	"runtime"
	"strings"
	"sync/atomic"
	"time"

	"gitlab.com/aquachain/aquachain/aquadb"
	"gitlab.com/aquachain/aquachain/common"
	"gitlab.com/aquachain/aquachain/common/log"
	"gitlab.com/aquachain/aquachain/consensus"
	"gitlab.com/aquachain/aquachain/consensus/aquahash"
	"gitlab.com/aquachain/aquachain/core"
	"gitlab.com/aquachain/aquachain/core/types"
	"gitlab.com/aquachain/aquachain/core/vm"
	"gitlab.com/aquachain/aquachain/params"
	"verifharness/hx"
)

// ---------------------------------------------------------------------------------------------------------------------
// configurations

type cfgT struct {
	spec string // "@name" for built-in configurations, "c<chainId>/<hf>=<h>,..." for custom fork maps
	c    *params.ChainConfig
}

func builtin() []cfgT {
	return []cfgT{
		{"@mainnet", params.MainnetChainConfig}, {"@testnet", params.TestnetChainConfig}, {"@testnet2", params.Testnet2ChainConfig},
		{"@testnet3", params.Testnet3ChainConfig}, {"@dev", params.AllAquahashProtocolChanges}, {"@test", params.TestChainConfig},
	}
}

func customCfg(chainId uint64, forks [][2]uint64) cfgT {
	fm := params.ForkMap{}
	parts := []string{}
	for _, f := range forks {
		if _, dup := fm[int(f[0])]; dup {
			continue
		}
		fm[int(f[0])] = new(big.Int).SetUint64(f[1])
		parts = append(parts, fmt.Sprintf("%d=%d", f[0], f[1]))
	}
	return cfgT{fmt.Sprintf("c%d/%s", chainId, strings.Join(parts, ",")), &params.ChainConfig{ChainId: new(big.Int).SetUint64(chainId), HF: fm, Aquahash: new(params.AquahashConfig)}}
}

// forkHeights returns the activation heights of a configuration (sorted by hf).
func forkHeights(c *params.ChainConfig) []uint64 {
	var hs []uint64
	for i := 0; i <= 12; i++ {
		if h := c.HF[i]; h != nil {
			hs = append(hs, h.Uint64())
		}
	}
	return hs
}

func randomCfg(r *hx.Rng) cfgT {
	chain := []uint64{61717561, 617175611, 3, 1337, 7}[r.Intn(5)]
	var forks [][2]uint64
	switch r.Intn(4) {
	case 0: // increasing schedule with gaps
		h := uint64(r.Intn(4))
		for hf := uint64(1); hf <= 9; hf++ {
			if r.Intn(5) == 0 {
				continue
			}
			forks = append(forks, [2]uint64{hf, h})
			h += uint64(r.Intn(4))
		}
	case 1: // dense small heights, arbitrary order, collisions likely
		for hf := uint64(1); hf <= 10; hf++ {
			if r.Intn(3) != 0 {
				forks = append(forks, [2]uint64{hf, uint64(r.Intn(8))})
			}
		}
	case 2: // late-era only (like testnet2)
		h := uint64(r.Intn(3))
		for hf := uint64(5); hf <= 9; hf++ {
			forks = append(forks, [2]uint64{hf, h})
			h += uint64(r.Intn(6))
		}
	default: // increasing, large heights
		h := uint64(1000 + r.Intn(5000))
		for hf := uint64(1); hf <= 8; hf++ {
			forks = append(forks, [2]uint64{hf, h})
			h += uint64(1 + r.Intn(3000))
		}
		if r.Intn(4) == 0 {
			forks = append(forks, [2]uint64{10, h + 5})
		}
	}
	return customCfg(chain, forks)
}

// ---------------------------------------------------------------------------------------------------------------------
// headers

func bigHex(x *big.Int) string {
	if x.Sign() < 0 {
		return "-" + new(big.Int).Neg(x).Text(16)
	}
	return x.Text(16)
}

// render: hash:parent:number:time:difficulty:gasLimit:gasUsed:extraLen (all hex)
func render(h *types.Header, withHash bool) string {
	hash := "0"
	if withHash {
		hash = new(big.Int).SetBytes(h.Hash().Bytes()).Text(16)
	}
	return fmt.Sprintf("%s:%s:%s:%s:%s:%x:%x:%x", hash, new(big.Int).SetBytes(h.ParentHash.Bytes()).Text(16), bigHex(h.Number), bigHex(h.Time),
		bigHex(h.Difficulty), h.GasLimit, h.GasUsed, len(h.Extra))
}

func renderList(hs []*types.Header) string {
	if len(hs) == 0 {
		return "-"
	}
	p := make([]string, len(hs))
	for i, h := range hs {
		p[i] = render(h, true)
	}
	return strings.Join(p, ",")
}

func renderBlockCfg(c *params.ChainConfig, b *types.Block) string {
	hd := b.Header()
	hd.Version = c.GetBlockVersion(hd.Number)
	p := []string{render(hd, true)}
	for _, u := range b.Uncles() {
		u.Version = c.GetBlockVersion(u.Number)
		p = append(p, render(u, true))
	}
	return strings.Join(p, "+")
}

func newHeader(r *hx.Rng, c *params.ChainConfig, parent common.Hash, number uint64, tm *big.Int, diff *big.Int, gl, gu uint64, extra int) *types.Header {
	h := &types.Header{
		ParentHash: parent, UncleHash: types.EmptyUncleHash, Coinbase: common.BytesToAddress(r.Bytes(20)), Root: common.BytesToHash(r.Bytes(32)),
		TxHash: types.EmptyRootHash, ReceiptHash: types.EmptyRootHash, Difficulty: new(big.Int).Set(diff), Number: new(big.Int).SetUint64(number),
		GasLimit: gl, GasUsed: gu, Time: new(big.Int).Set(tm), Extra: make([]byte, extra),
	}
	h.Version = c.GetBlockVersion(h.Number)
	return h
}

// ---------------------------------------------------------------------------------------------------------------------
// in-memory chain reader (same lookup semantics as core.HeaderChain: keyed by hash AND number)

type fakeChain struct {
	cfg     *params.ChainConfig
	headers map[common.Hash]*types.Header
	blocks  map[common.Hash]*types.Block
	head    *types.Header // what CurrentHeader() reports (the uncle section puts it on either side of HF5, far from the block under test)
	jitter  *uint64 // when non-nil, GetHeader yields/sleeps pseudo-randomly (perturbs worker schedules)
}

func newChain(c *params.ChainConfig) *fakeChain {
	return &fakeChain{cfg: c, headers: map[common.Hash]*types.Header{}, blocks: map[common.Hash]*types.Block{}}
}
func (f *fakeChain) Config() *params.ChainConfig      { return f.cfg }
func (f *fakeChain) GetContext() context.Context      { return context.Background() }
func (f *fakeChain) CurrentHeader() *types.Header     { return f.head }
func (f *fakeChain) GetHeaderByNumber(uint64) *types.Header { return nil }
func (f *fakeChain) GetHeaderByHash(h common.Hash) *types.Header { return f.headers[h] }
func (f *fakeChain) GetHeader(h common.Hash, n uint64) *types.Header {
	if f.jitter != nil {
		x := atomic.AddUint64(f.jitter, 0x9E3779B97F4A7C15)
		x ^= x >> 29
		switch x % 7 {
		case 0:
			time.Sleep(time.Duration(x%150) * time.Microsecond)
		case 1, 2:
			runtime.Gosched()
		}
	}
	if x := f.headers[h]; x != nil && x.Number.Uint64() == n {
		return x
	}
	return nil
}
func (f *fakeChain) GetBlock(h common.Hash, n uint64) *types.Block {
	if b := f.blocks[h]; b != nil && b.NumberU64() == n {
		return b
	}
	return nil
}
func (f *fakeChain) addHeader(h *types.Header) { f.headers[h.Hash()] = h }
func (f *fakeChain) addBlock(b *types.Block) {
	f.blocks[b.Hash()] = b
	f.headers[b.Hash()] = b.Header()
}

// ---------------------------------------------------------------------------------------------------------------------
// error classes (shared with the model: Aqv.Consensus.VErr.name)

func class(err error) string {
	if err == nil {
		return "ok"
	}
	s := err.Error()
	switch {
	case err == consensus.ErrFutureBlock:
		return "err future"
	case err == consensus.ErrUnknownAncestor:
		return "err unknown-ancestor"
	case err == consensus.ErrInvalidNumber:
		return "err number"
	case strings.Contains(s, "extra-data too long"):
		return "err extra"
	case s == "timestamp too big":
		return "err large-time"
	case s == "timestamp equals parent's":
		return "err zero-time"
	case strings.Contains(s, "invalid difficulty"):
		return "err difficulty"
	case strings.Contains(s, "invalid gasLimit: have"):
		return "err gas-cap"
	case strings.Contains(s, "invalid gasUsed"):
		return "err gas-used"
	case strings.Contains(s, "invalid gas limit: have"):
		return "err gas-limit"
	case s == "invalid proof-of-work":
		return "err seal"
	case strings.HasPrefix(s, "nil grandparent"):
		return "err unknown-grandparent"
	case s == "too many uncles":
		return "err too-many-uncles"
	case s == "duplicate uncle":
		return "err duplicate-uncle"
	case s == "uncle is ancestor":
		return "err uncle-is-ancestor"
	case s == "uncle's parent is not ancestor":
		return "err dangling-uncle"
	}
	return "err other:" + strings.ReplaceAll(s, " ", "_")
}

func engine(fail uint64) *aquahash.Aquahash {
	if fail == 0 {
		return aquahash.NewFaker()
	}
	return aquahash.NewFakeFailer(fail)
}

var two64 = new(big.Int).Lsh(big.NewInt(1), 64)
var two256 = new(big.Int).Lsh(big.NewInt(1), 256)

func u(x uint64) *big.Int { return new(big.Int).SetUint64(x) }

// ---------------------------------------------------------------------------------------------------------------------

type H struct {
	run *hx.Run
	now int64
}

func optHdr(h *types.Header) string {
	if h == nil {
		return "-"
	}
	return render(h, false)
}

// diffCase: real aquahash.CalcDifficulty on (cfg, time, parent, grandparent)
func (x *H) diffCase(c cfgT, tm uint64, parent, grand *types.Header) {
	line := fmt.Sprintf("diff %s %d %s %s", c.spec, tm, render(parent, false), optHdr(grand))
	x.run.Current(line)
	out := hx.Safe(func() string {
		d := aquahash.CalcDifficulty(c.c, tm, parent, grand)
		return "ok " + bigHex(d)
	})
	if strings.HasPrefix(out, "panic") {
		x.run.Count("diff:panic")
		out = "panic"
	} else {
		x.run.Count("diff:ok")
	}
	x.run.Case(line, out)
}

// hdrCase: real (*Aquahash).verifyHeader through the overlay accessor
func (x *H) hdrCase(c cfgT, now int64, uncle, seal bool, fail uint64, parent, grand, h *types.Header) string {
	line := fmt.Sprintf("hdr %s %d %d %d %d %s %s %s", c.spec, now, b2i(uncle), b2i(seal), fail, render(parent, false), optHdr(grand), render(h, false))
	x.run.Current(line)
	ch := newChain(c.c)
	out := hx.Safe(func() string {
		return class(engine(fail).VerifVerifyHeader(ch, h, parent, grand, uncle, seal))
	})
	if strings.HasPrefix(out, "panic") {
		out = "panic"
	}
	x.run.Count("hdr:" + out)
	x.run.Case(line, out)
	return out
}

func b2i(b bool) int {
	if b {
		return 1
	}
	return 0
}

func main() {
	run := hx.Start()
	rng := hx.NewRng(run.Seed)
	run.Watch(60*time.Second, 3<<30, func(cur string) string { return cur })
	if aquahash.VerifFakeDifficultyMode() {
		fmt.Println("FAKEPOWTEST is set in the environment: the difficulty rule is disabled; refusing to run")
		os.Exit(3)
	}
	x := &H{run: run, now: time.Now().Unix()}
	scale := 1
	if run.Thorough() {
		scale = 25
	}
	x.sectionDifficulty(rng.Fork(1), scale)
	x.sectionHeader(rng.Fork(2), scale)
	x.sectionEntry(rng.Fork(3), scale)
	x.sectionBatch(rng.Fork(4), scale)
	x.sectionUncles(rng.Fork(5), scale)
	x.sectionImport(rng.Fork(7), scale)
	x.sectionClockEdge(rng.Fork(6))
	run.Notes["clock_reading"] = x.now
	run.Finish()
}

// ---------------------------------------------------------------------------------------------------------------------
// 1. difficulty

var dts = []int64{-7, -1, 0, 1, 9, 10, 11, 19, 20, 21, 179, 180, 181, 239, 240, 241, 989, 990, 999, 1000, 1001, 1009, 1010, 5000}

func minima() []*big.Int {
	return []*big.Int{params.MinimumDifficultyGenesis, params.MinimumDifficultyHF1, params.MinimumDifficultyHF3, params.MinimumDifficultyHF5}
}

func pickDifficulty(r *hx.Rng) *big.Int {
	ms := minima()
	m := ms[r.Intn(len(ms))]
	switch r.Intn(12) {
	case 0:
		return new(big.Int).Sub(m, big.NewInt(1))
	case 1:
		return new(big.Int).Set(m)
	case 2:
		return new(big.Int).Add(m, big.NewInt(1))
	case 3: // just above a minimum so that a decrease crosses it
		return new(big.Int).Add(m, u(uint64(r.Intn(1<<uint(4+r.Intn(24))))))
	case 4: // multiples of the divisors ± 1
		d := []int64{2048, 16, 128, 1024}[r.Intn(4)]
		k := int64(1 + r.Intn(1<<20))
		return big.NewInt(d*k + int64(r.Intn(3)) - 1)
	case 5:
		return big.NewInt(int64(r.Intn(5000)))
	case 6:
		return new(big.Int).SetBytes(r.Bytes(1 + r.Intn(12)))
	case 7:
		return big.NewInt(-int64(r.Intn(100000)))
	default:
		return new(big.Int).Add(m, new(big.Int).SetBytes(r.Bytes(1+r.Intn(6))))
	}
}

// heightsAround returns parent heights such that parent+1 is at, just before and just after every fork of the schedule.
func heightsAround(c *params.ChainConfig, r *hx.Rng) []uint64 {
	var hs []uint64
	for _, f := range forkHeights(c) {
		for d := int64(-3); d <= 2; d++ {
			if v := int64(f) + d; v >= 0 {
				hs = append(hs, uint64(v))
			}
		}
	}
	hs = append(hs, 0, 1, 2, 3, uint64(r.Intn(100000)), uint64(r.Intn(50)), 1<<32+uint64(r.Intn(9)))
	return hs
}

func (x *H) sectionDifficulty(r *hx.Rng, scale int) {
	cfgs := builtin()
	n := 0
	for rounds := 0; rounds < 2*scale; rounds++ {
		all := append([]cfgT{}, cfgs...)
		for i := 0; i < 14; i++ {
			all = append(all, randomCfg(r))
		}
		for _, c := range all {
			for _, pn := range heightsAround(c.c, r) {
				for k := 0; k < 5; k++ {
					pt := uint64(1500000000 + r.Intn(1<<28))
					dt := dts[r.Intn(len(dts))]
					tm := uint64(int64(pt) + dt)
					if r.Intn(40) == 0 { // uint64 edge
						tm = ^uint64(0) - uint64(r.Intn(3))
					}
					parent := newHeader(r, c.c, common.Hash{}, pn, u(pt), pickDifficulty(r), 4712388, 0, 0)
					var grand *types.Header
					if r.Intn(3) == 0 && pn > 0 {
						gt := int64(pt) - []int64{-3, 0, 1, 239, 240, 241, 480, 30000}[r.Intn(8)]
						grand = newHeader(r, c.c, common.Hash{}, pn-1, u(uint64(gt)), pickDifficulty(r), 4712388, 0, 0)
					}
					x.diffCase(c, tm, parent, grand)
					n++
				}
			}
		}
	}
	x.run.Notes["difficulty_cases"] = n
}

// ---------------------------------------------------------------------------------------------------------------------
// 2. verifyHeader boundary lattice

type mut func(h *types.Header)

func (x *H) sectionHeader(r *hx.Rng, scale int) {
	cfgs := builtin()
	bases := 250 * scale
	n := 0
	for b := 0; b < bases; b++ {
		var c cfgT
		if b%4 == 3 {
			c = randomCfg(r)
		} else {
			c = cfgs[r.Intn(len(cfgs))]
		}
		hs := heightsAround(c.c, r)
		pn := hs[r.Intn(len(hs))]
		// the clock is read once per base (a base takes milliseconds); all its candidates keep >= 1000 s from the 15 s edge
		now := time.Now().Unix()
		// parent: a plausible stored header; times at least 10^6 s in the past
		pt := uint64(now) - 1000000 - uint64(r.Intn(1<<24))
		pgl := []uint64{4712388, 5000, 5119, 5120, 5121, 6000, 1 << 20, 1<<63 - 1, 1<<63 - 1024, 1 << 40, 4712388 + uint64(r.Intn(1<<22))}[r.Intn(11)]
		if r.Intn(25) == 0 {
			pgl = []uint64{1 << 63, 1<<63 + 1, ^uint64(0), ^uint64(0) - 5000, 1<<63 + 1<<53}[r.Intn(5)] // impossible for a verified parent (genesis only)
		}
		parent := newHeader(r, c.c, common.BytesToHash(r.Bytes(32)), pn, u(pt), pickDifficulty(r), pgl, 0, r.Intn(33))
		var grand *types.Header
		if pn > 0 && r.Intn(2) == 0 {
			grand = newHeader(r, c.c, common.Hash{}, pn-1, u(pt-uint64(1+r.Intn(500))), pickDifficulty(r), pgl, 0, 0)
		}
		uncle := r.Intn(3) == 0
		fail := uint64(0)
		if r.Intn(4) == 0 {
			fail = pn + 1
		}
		seal := r.Intn(2) == 0
		lim := pgl / 1024
		// candidate values per field
		var times []*big.Int
		for _, d := range []int64{-1, 0, 1, 2, 10, 239, 240, 241, 1000} {
			times = append(times, big.NewInt(int64(pt)+d))
		}
		times = append(times, big.NewInt(now-1000), big.NewInt(now+15+1000), big.NewInt(now+1000000))
		// timestamps of 2^64*k + t with a plausible t: the low 64 bits look valid (and the difficulty function only sees them)
		for _, m := range []*big.Int{two64, new(big.Int).Mul(two64, big.NewInt(int64(2+r.Intn(5000)))), new(big.Int).Lsh(big.NewInt(1), 128), new(big.Int).Lsh(big.NewInt(1), 200)} {
			times = append(times, new(big.Int).Add(m, u(pt+uint64(1+r.Intn(600)))))
		}
		if uncle {
			times = append(times, new(big.Int).Sub(two64, big.NewInt(1)), new(big.Int).Set(two64), new(big.Int).Add(two64, u(pt+1)),
				new(big.Int).Add(two64, u(pt+500)), new(big.Int).Add(two64, u(pt-5)), new(big.Int).Sub(two256, big.NewInt(1)), new(big.Int).Set(two256),
				new(big.Int).Add(two256, big.NewInt(7)))
		}
		gls := []uint64{pgl, pgl + lim, pgl - lim, pgl + lim - 1, pgl - lim + 1, pgl + lim + 1, pgl - lim - 1, pgl + 1, pgl - 1, 4999, 5000, 5001, 1<<63 - 1, 1 << 63, 1<<63 + 1, 0, ^uint64(0)}
		extras := []int{0, 1, 31, 32, 33, 64}
		numbers := []uint64{pn + 1, pn, pn + 2, 0, pn + 1<<32}
		// build a candidate: choose field values, compute the matching difficulty with the real code so that only the
		// targeted rules fail ("mostly valid"), then optionally move the difficulty by one.
		mk := func(tm *big.Int, gl uint64, guSel int, extra int, num uint64, dd int64) *types.Header {
			var exp *big.Int
			o := hx.Safe(func() string {
				exp = aquahash.CalcDifficulty(c.c, tm.Uint64(), parent, grand)
				return ""
			})
			if o != "" || exp == nil {
				exp = big.NewInt(1)
			}
			d := new(big.Int).Add(exp, big.NewInt(dd))
			gu := uint64(0)
			switch guSel {
			case 1:
				gu = gl
			case 2:
				gu = gl + 1
			case 3:
				gu = gl - 1
			case 4:
				gu = gl / 2
			}
			return newHeader(r, c.c, parent.Hash(), num, tm, d, gl, gu, extra)
		}
		validT := times[2+r.Intn(7)]
		// single-field sweeps
		for _, tm := range times {
			x.hdrCase(c, now, uncle, seal, fail, parent, grand, mk(tm, pgl, 0, 0, pn+1, 0))
			n++
		}
		for _, gl := range gls {
			x.hdrCase(c, now, uncle, seal, fail, parent, grand, mk(validT, gl, r.Intn(5), 0, pn+1, 0))
			n++
		}
		for _, e := range extras {
			x.hdrCase(c, now, uncle, seal, fail, parent, grand, mk(validT, pgl, 0, e, pn+1, 0))
			n++
		}
		for _, num := range numbers {
			x.hdrCase(c, now, uncle, seal, fail, parent, grand, mk(validT, pgl, 0, 0, num, 0))
			n++
		}
		for _, dd := range []int64{-1, 1, 0} {
			x.hdrCase(c, now, uncle, seal, fail, parent, grand, mk(validT, pgl, 0, 0, pn+1, dd))
			n++
		}
		for gs := 0; gs <= 4; gs++ {
			x.hdrCase(c, now, uncle, seal, fail, parent, grand, mk(validT, pgl, gs, 0, pn+1, 0))
			n++
		}
		// random combinations (two or more rules may fail: the FIRST one must be reported)
		for k := 0; k < 45; k++ {
			dd := int64(0)
			if r.Intn(6) == 0 {
				dd = int64(r.Intn(3)) - 1
			}
			pickT := times[r.Intn(len(times))]
			if r.Intn(2) == 0 {
				pickT = validT
			}
			gl := gls[r.Intn(len(gls))]
			if r.Intn(2) == 0 {
				gl = pgl + uint64(r.Intn(int(lim%1000+1))) - uint64(r.Intn(int(lim%1000+1)))
			}
			x.hdrCase(c, now, uncle, seal, fail, parent, grand,
				mk(pickT, gl, r.Intn(5), extras[r.Intn(len(extras))]*b2i(r.Intn(4) == 0), numbers[r.Intn(len(numbers))*b2i(r.Intn(5) == 0)], dd))
			n++
		}
	}
	x.run.Notes["header_cases"] = n
}

// ---------------------------------------------------------------------------------------------------------------------
// chain builders

// extend builds a valid child of parent (grand may be nil) dt seconds later.
func (x *H) extend(r *hx.Rng, c *params.ChainConfig, parent, grand *types.Header, dt uint64) *types.Header {
	tm := new(big.Int).Add(parent.Time, u(dt))
	d := aquahash.CalcDifficulty(c, tm.Uint64(), parent, grand)
	gl := parent.GasLimit
	if lim := gl / 1024; lim > 1 && r.Intn(2) == 0 {
		gl = gl + uint64(r.Intn(int(lim))) - uint64(r.Intn(int(lim)))
		if gl < 5000 {
			gl = parent.GasLimit
		}
	}
	return newHeader(r, c, parent.Hash(), parent.Number.Uint64()+1, tm, d, gl, uint64(r.Intn(5000)), r.Intn(33))
}

// seedChain creates a stored chain segment starting at height start (no ancestors below it) of the given length.
func (x *H) seedChain(r *hx.Rng, c *params.ChainConfig, start uint64, length int) []*types.Header {
	t0 := uint64(x.now) - 2000000 - uint64(r.Intn(1<<22))
	first := newHeader(r, c, common.BytesToHash(r.Bytes(32)), start, u(t0), pickDifficulty(r), 4712388+uint64(r.Intn(100000)), 0, 0)
	if first.Difficulty.Sign() <= 0 {
		first.Difficulty = big.NewInt(46039386)
	}
	hs := []*types.Header{first}
	for len(hs) < length {
		var g *types.Header
		if len(hs) >= 2 {
			g = hs[len(hs)-2]
		}
		hs = append(hs, x.extend(r, c, hs[len(hs)-1], g, uint64(1+r.Intn(400))))
	}
	return hs
}

func pickStart(r *hx.Rng, c *params.ChainConfig) uint64 {
	fh := forkHeights(c)
	switch {
	case len(fh) > 0 && r.Intn(3) > 0:
		f := fh[r.Intn(len(fh))]
		back := uint64(r.Intn(12))
		if f > back {
			return f - back
		}
		return 0
	case r.Intn(2) == 0:
		return uint64(r.Intn(4))
	default:
		return uint64(14990 + r.Intn(30))
	}
}

// ---------------------------------------------------------------------------------------------------------------------
// 3. VerifyHeader (public entry: known header, parent / grandparent lookups)

func (x *H) sectionEntry(r *hx.Rng, scale int) {
	cfgs := builtin()
	n := 0
	for i := 0; i < 300*scale; i++ {
		c := cfgs[r.Intn(len(cfgs))]
		if r.Intn(4) == 0 {
			c = randomCfg(r)
		}
		start := pickStart(r, c.c)
		seg := x.seedChain(r, c.c, start, 1+r.Intn(5))
		tip := seg[len(seg)-1]
		var g *types.Header
		if len(seg) >= 2 {
			g = seg[len(seg)-2]
		}
		cand := x.extend(r, c.c, tip, g, uint64(1+r.Intn(400)))
		stored := append([]*types.Header{}, seg...)
		switch r.Intn(9) {
		case 0: // candidate already known
			stored = append(stored, cand)
		case 1: // parent missing
			stored = stored[:len(stored)-1]
		case 2: // grandparent missing
			if len(stored) >= 2 {
				stored = append(stored[:len(stored)-2], stored[len(stored)-1])
			}
		case 3: // wrong number: the (hash, number) lookup of the parent fails
			cand.Number = new(big.Int).Add(cand.Number, big.NewInt(int64(r.Intn(3))-1))
		case 4: // a rule violation
			switch r.Intn(6) {
			case 5: // timestamp 2^64*k + t: low 64 bits (and hence the difficulty) unchanged
				cand.Time = new(big.Int).Add(cand.Time, new(big.Int).Mul(two64, big.NewInt(int64(1+r.Intn(3)*r.Intn(100000)))))
			case 0:
				cand.Difficulty = new(big.Int).Add(cand.Difficulty, big.NewInt(1))
			case 1:
				cand.Time = new(big.Int).Set(tip.Time)
			case 2:
				cand.GasLimit = tip.GasLimit + tip.GasLimit/1024
			case 3:
				cand.Extra = make([]byte, 33)
			case 4:
				cand.GasUsed = cand.GasLimit + 1
			}
		}
		fail := uint64(0)
		if r.Intn(5) == 0 {
			fail = cand.Number.Uint64()
		}
		seal := r.Intn(2) == 0
		ch := newChain(c.c)
		for _, h := range stored {
			ch.addHeader(h)
		}
		line := fmt.Sprintf("vh %s %d %d %d %s %s", c.spec, time.Now().Unix(), b2i(seal), fail, renderList(stored), render(cand, true))
		x.run.Current(line)
		out := hx.Safe(func() string { return class(engine(fail).VerifyHeader(ch, cand, seal)) })
		if strings.HasPrefix(out, "panic") {
			out = "panic"
		}
		x.run.Count("vh:" + out)
		x.run.Case(line, out)
		n++
	}
	x.run.Notes["entry_cases"] = n
}

// ---------------------------------------------------------------------------------------------------------------------
// 4. VerifyHeaders: batches under GOMAXPROCS 1..16 with jitter; first failure compared with one-by-one verification

func (x *H) runBatch(c *params.ChainConfig, fail uint64, stored, batch []*types.Header, seals []bool, procs int, jitter bool) string {
	ch := newChain(c)
	for _, h := range stored {
		ch.addHeader(h)
	}
	if jitter {
		j := uint64(procs) * 7919
		ch.jitter = &j
	}
	old := runtime.GOMAXPROCS(procs)
	defer runtime.GOMAXPROCS(old)
	return hx.Guard(30*time.Second, func() string {
		abort, results := engine(fail).VerifyHeaders(ch, batch, seals)
		defer close(abort)
		out := make([]string, len(batch))
		for i := range batch {
			out[i] = strings.TrimPrefix(class(<-results), "err ")
		}
		return strings.Join(out, ",")
	})
}

// sequential: one-by-one VerifyHeader, inserting each accepted header; returns "none" or "<index> <class>"
func (x *H) sequential(c *params.ChainConfig, fail uint64, stored, batch []*types.Header, seals []bool) string {
	ch := newChain(c)
	for _, h := range stored {
		ch.addHeader(h)
	}
	eng := engine(fail)
	for i, h := range batch {
		if err := eng.VerifyHeader(ch, h, seals[i]); err != nil {
			return fmt.Sprintf("%d %s", i, strings.TrimPrefix(class(err), "err "))
		}
		ch.addHeader(h)
	}
	return "none"
}

func firstFailure(res string) string {
	for i, s := range strings.Split(res, ",") {
		if s != "ok" {
			return fmt.Sprintf("%d %s", i, s)
		}
	}
	return "none"
}

func (x *H) sectionBatch(r *hx.Rng, scale int) {
	cfgs := builtin()
	n, runs := 0, 0
	procsList := []int{1, 2, 3, 4, 8, 16}
	for i := 0; i < 150*scale; i++ {
		c := cfgs[r.Intn(len(cfgs))]
		if r.Intn(5) == 0 {
			c = randomCfg(r)
			for c.c.HF[10] != nil { // the experimental HF10 rule can panic inside a worker goroutine (exercised in the other sections)
				c = randomCfg(r)
			}
		}
		start := pickStart(r, c.c)
		now := time.Now().Unix()
		nStored := 1 + r.Intn(4)
		nBatch := 1 + r.Intn(40)
		if r.Intn(4) == 0 {
			nBatch = 1 + r.Intn(4)
		}
		all := x.seedChain(r, c.c, start, nStored+nBatch)
		stored, batch := all[:nStored], all[nStored:]
		contiguous := true
		// faults
		nf := []int{0, 1, 1, 2, 3}[r.Intn(5)]
		for f := 0; f < nf; f++ {
			k := r.Intn(len(batch))
			h := types.CopyHeader(batch[k])
			switch r.Intn(9) {
			case 8: // timestamp 2^64*k + t
				h.Time = new(big.Int).Add(h.Time, new(big.Int).Lsh(big.NewInt(int64(1+r.Intn(7))), uint(64+64*r.Intn(3))))
			case 0:
				h.Difficulty = new(big.Int).Add(h.Difficulty, big.NewInt(1))
			case 1:
				h.Extra = make([]byte, 33)
			case 2:
				h.GasUsed = h.GasLimit + 1
			case 3:
				h.Time = new(big.Int).SetInt64(now + 5000)
			case 4:
				h.GasLimit = h.GasLimit + h.GasLimit/512
			case 5: // break the hash link (outside the precondition of InsertChain/ValidateHeaderChain)
				h.ParentHash = common.BytesToHash(r.Bytes(32))
				contiguous = false
			case 6: // number off by one with intact hash link
				h.Number = new(big.Int).Add(h.Number, big.NewInt(1))
				contiguous = false
			case 7:
				h.Time = new(big.Int).Sub(h.Time, big.NewInt(100000))
			}
			batch[k] = h
			// descendants keep pointing at the ORIGINAL hash unless re-linked: re-link so that the batch stays contiguous
			if contiguous {
				for j := k + 1; j < len(batch); j++ {
					hj := types.CopyHeader(batch[j])
					hj.ParentHash = batch[j-1].Hash()
					batch[j] = hj
				}
			}
		}
		// exactly one of: ancestry of the first header unknown / its grandparent unknown / some batch headers already known.
		// (A known header whose own parent or grandparent is missing cannot occur in a chain database, which is closed under
		// parents; the batch and one-by-one paths order the "known" short-cut differently there, so it is not generated.)
		switch r.Intn(8) {
		case 0:
			stored = stored[:len(stored)-1]
		case 1:
			if len(stored) >= 2 {
				stored = append(append([]*types.Header{}, stored[:len(stored)-2]...), stored[len(stored)-1])
			}
		case 2:
			if len(stored) >= 2 || stored[0].Number.Uint64() == 0 {
				kn := 1 + r.Intn(3)
				for k := 0; k < len(batch) && k < kn; k++ {
					stored = append(append([]*types.Header{}, stored...), batch[k])
				}
			}
		}
		fail := uint64(0)
		if r.Intn(3) == 0 {
			fail = batch[r.Intn(len(batch))].Number.Uint64()
		}
		seals := make([]bool, len(batch))
		sb := make([]byte, len(batch))
		for k := range seals {
			seals[k] = r.Intn(3) > 0
			sb[k] = byte('0' + b2i(seals[k]))
		}
		line := fmt.Sprintf("batch %s %d %d %d %s %s %s", c.spec, now, fail, b2i(contiguous), renderList(stored), renderList(batch), string(sb))
		x.run.Current(line)
		ref := ""
		for pi, procs := range procsList {
			for rep := 0; rep < 2; rep++ {
				got := x.runBatch(c.c, fail, stored, batch, seals, procs, rep == 1)
				runs++
				if pi == 0 && rep == 0 {
					ref = got
				} else if got != ref {
					x.run.Violate("batch-schedule-dependent", "batch-schedule-dependent", line, fmt.Sprintf("GOMAXPROCS=%d jitter=%v: %s  vs GOMAXPROCS=1: %s", procs, rep == 1, got, ref))
				}
			}
		}
		if strings.HasPrefix(ref, "panic") || ref == "hang" {
			ref = strings.Fields(ref)[0]
		}
		if contiguous && ref != "panic" && ref != "hang" {
			seq := hx.Safe(func() string { return x.sequential(c.c, fail, stored, batch, seals) })
			if ff := firstFailure(ref); ff != seq {
				x.run.Violate("batch-first-failure", "batch-first-failure", line, "batch first failure: "+ff+"  one-by-one: "+seq)
			}
			x.run.Count("batch:first=" + strings.Join(strings.Fields(firstFailure(ref))[1:], ""))
		} else {
			x.run.Count("batch:noncontiguous")
		}
		x.run.Case(line, ref)
		n++
	}
	x.run.Notes["batch_cases"] = n
	x.run.Notes["batch_runs"] = runs
	x.run.Notes["gomaxprocs"] = procsList
}

// ---------------------------------------------------------------------------------------------------------------------
// 5. VerifyUncles on small block trees

var exemptParent = common.HexToHash("0x6b818656fb5059ab4dd070e2c2822a7774065090e74ff31515764212c88e2923")
var exemptParent2 = common.HexToHash("0x0afd1b00b8e1a49652beeb860e3b58dacc865dd3e3d9d303374ed3ffdfef8eea")

func (x *H) sectionUncles(r *hx.Rng, scale int) {
	cfgs := builtin()
	n := 0
	for i := 0; i < 400*scale; i++ {
		c := cfgs[r.Intn(len(cfgs))]
		if r.Intn(6) == 0 {
			c = randomCfg(r)
		}
		cc := c.c
		var start uint64
		// xver: the chain crosses a version-changing fork (HF5/HF8/HF9) at main index kF; the block AT the fork includes a side
		// block from just below it, and the block under test tries to include that uncle again (uncle hashes are taken with the
		// version of the uncle's own height on both sides of the fork)
		xver, kF := false, 0
		switch r.Intn(5) {
		case 4:
			var fs []uint64
			for _, hf := range []int{5, 8, 9} {
				if f := cc.HF[hf]; f != nil && f.Uint64() >= 6 {
					fs = append(fs, f.Uint64())
				}
			}
			if len(fs) == 0 {
				cc = []*params.ChainConfig{params.TestnetChainConfig, params.Testnet2ChainConfig, params.MainnetChainConfig}[r.Intn(3)]
				c = cfgT{map[*params.ChainConfig]string{params.TestnetChainConfig: "@testnet", params.Testnet2ChainConfig: "@testnet2", params.MainnetChainConfig: "@mainnet"}[cc], cc}
				for _, hf := range []int{5, 8, 9} {
					if f := cc.HF[hf]; f != nil && f.Uint64() >= 6 {
						fs = append(fs, f.Uint64())
					}
				}
			}
			f := fs[r.Intn(len(fs))]
			kF = 3 + r.Intn(3)
			start = f - uint64(kF)
			xver = true
		case 0: // around the HF5 uncle-limit switch
			start = 0
			if h5 := cc.HF[5]; h5 != nil && h5.Uint64() > 6 {
				start = h5.Uint64() - uint64(4+r.Intn(8))
			}
		case 1: // around the 15000 boundary of the historic exemptions
			start = uint64(14990 + r.Intn(12))
		case 2:
			start = uint64(r.Intn(3))
		default:
			start = pickStart(r, cc)
		}
		length := 9 + r.Intn(4)
		if xver {
			length = kF + 3 + r.Intn(4)
		}
		main := x.seedChain(r, cc, start, length)
		// side blocks: siblings of main[k] (children of main[k-1]), k >= 1
		sides := map[int][]*types.Header{}
		for k := 1; k < length; k++ {
			ns := r.Intn(3)
			if xver && ns == 0 {
				ns = 1
			}
			for s := 0; s < ns; s++ {
				var g *types.Header
				if k >= 2 {
					g = main[k-2]
				}
				sides[k] = append(sides[k], x.extend(r, cc, main[k-1], g, uint64(1+r.Intn(400))))
			}
		}
		// blocks of the main chain; some include earlier side blocks as uncles
		ch := newChain(cc)
		// the local head is unrelated to the block under test: the uncle limit must follow the BLOCK's number, not the head's
		ch.head = newHeader(r, cc, common.Hash{}, []uint64{0, 1, 4, 6, 100, 30000, 1 << 30}[r.Intn(7)], u(uint64(x.now)-5000000), big.NewInt(46039386), 4712388, 0, 0)
		var blocks []*types.Block
		included := []*types.Header{}
		var xverUncle *types.Header
		for k := 0; k < length-1; k++ {
			var us []*types.Header
			if k >= 2 && (r.Intn(3) == 0 || (xver && k == kF)) {
				d := 1 + r.Intn(2)
				if xver && k == kF {
					d = 1
				}
				if k-d >= 1 && len(sides[k-d]) > 0 {
					uu := sides[k-d][r.Intn(len(sides[k-d]))]
					us = append(us, uu)
					included = append(included, uu)
					if xver && k == kF {
						xverUncle = uu
					}
				}
			}
			hd := types.CopyHeader(main[k])
			if len(us) > 0 {
				hd.UncleHash = types.CalcUncleHash(us)
				// the hash of main[k] changes: re-link the rest of the main chain and the side blocks hanging off it
				b := types.NewBlock(hd, nil, us, nil)
				b.SetVersionConfig(cc)
				main[k] = b.Header()
				main[k].Version = cc.GetBlockVersion(main[k].Number)
				if k+1 < length {
					main[k+1].ParentHash = main[k].Hash()
				}
				for _, s := range sides[k+1] {
					s.ParentHash = main[k].Hash()
				}
				blocks = append(blocks, b)
			} else {
				b := types.NewBlock(hd, nil, nil, nil)
				b.SetVersionConfig(cc)
				main[k] = b.Header()
				main[k].Version = cc.GetBlockVersion(main[k].Number)
				if k+1 < length {
					main[k+1].ParentHash = main[k].Hash()
				}
				for _, s := range sides[k+1] {
					s.ParentHash = main[k].Hash()
				}
				blocks = append(blocks, b)
			}
		}
		nStoredBlocks := len(blocks)
		if !xver && r.Intn(6) == 0 { // shallow history: fewer than 7 ancestors available
			drop := r.Intn(nStoredBlocks)
			blocks = blocks[drop:]
		}
		for _, b := range blocks {
			ch.addBlock(b)
		}
		tip := length - 1 // the block under test is main[tip]
		// candidate uncle pool
		var us []*types.Header
		kind := []string{}
		nu := []int{0, 1, 1, 1, 2, 2, 3}[r.Intn(7)]
		if xver && xverUncle != nil && r.Intn(4) > 0 {
			us = append(us, xverUncle)
			kind = append(kind, "included-xver")
			nu = 1
		}
		for len(us) < nu {
			switch r.Intn(13) {
			case 0, 1, 2, 3: // a side block at depth d (1 = sibling of the block itself → dangling by rule; 2..7 in window; 8+ too old)
				d := 1 + r.Intn(9)
				if tip-d+1 >= 1 && tip-d+1 < length && len(sides[tip-d+1]) > 0 {
					us = append(us, sides[tip-d+1][r.Intn(len(sides[tip-d+1]))])
					kind = append(kind, fmt.Sprintf("side%d", d))
				}
			case 4: // already included by an ancestor
				if len(included) > 0 {
					us = append(us, included[r.Intn(len(included))])
					kind = append(kind, "included")
				}
			case 5: // same uncle twice
				if len(us) > 0 {
					us = append(us, us[len(us)-1])
					kind = append(kind, "twice")
				}
			case 6: // an ancestor
				k := tip - 1 - r.Intn(8)
				if k >= 0 {
					us = append(us, main[k])
					kind = append(kind, "ancestor")
				}
			case 7: // side block with an invalid header
				d := 2 + r.Intn(5)
				if tip-d+1 >= 1 && len(sides[tip-d+1]) > 0 {
					bad := types.CopyHeader(sides[tip-d+1][0])
					switch r.Intn(5) {
					case 0:
						bad.Difficulty = new(big.Int).Add(bad.Difficulty, big.NewInt(1))
					case 1:
						bad.Time = new(big.Int).Set(main[tip-d].Time)
					case 2:
						bad.Extra = make([]byte, 33)
					case 3:
						bad.GasUsed = bad.GasLimit + 1
					case 4:
						bad.Number = new(big.Int).Add(bad.Number, big.NewInt(1))
					}
					us = append(us, bad)
					kind = append(kind, "invalid")
				}
			case 8: // far-future uncle timestamp (uncles are not checked against the clock) with the matching difficulty
				d := 2 + r.Intn(5)
				if tip-d+1 >= 1 && tip-d >= 0 {
					var g *types.Header
					if tip-d-1 >= 0 {
						g = main[tip-d-1]
					}
					us = append(us, x.extend(r, cc, main[tip-d], g, 100000000+uint64(r.Intn(1000))))
					kind = append(kind, "future")
				}
			case 9: // unknown parent
				o := x.extend(r, cc, main[tip-1], nil, 5)
				o.ParentHash = common.BytesToHash(r.Bytes(32))
				us = append(us, o)
				kind = append(kind, "orphan")
			case 10: // historic exemption keyed by (uncle.ParentHash, uncle.Number): not a real relative, never verified
				o := x.extend(r, cc, main[tip-1], nil, 5)
				if r.Intn(2) == 0 {
					o.ParentHash, o.Number = exemptParent, big.NewInt(14003)
				} else {
					o.ParentHash, o.Number = exemptParent2, big.NewInt(14001)
				}
				if r.Intn(4) == 0 {
					o.Number = big.NewInt(14002)
				}
				o.Version = cc.GetBlockVersion(o.Number)
				us = append(us, o)
				kind = append(kind, "exempt")
			case 11: // fresh valid side block at depth 2..7 not known to the chain
				d := 2 + r.Intn(6)
				if tip-d >= 0 {
					var g *types.Header
					if tip-d-1 >= 0 {
						g = main[tip-d-1]
					}
					us = append(us, x.extend(r, cc, main[tip-d], g, uint64(1+r.Intn(300))))
					kind = append(kind, fmt.Sprintf("fresh%d", d))
				}
			default:
			}
		}
		hd := types.CopyHeader(main[tip])
		blk := types.NewBlock(hd, nil, us, nil)
		blk.SetVersionConfig(cc)
		fail := uint64(0)
		if len(us) > 0 && r.Intn(6) == 0 {
			fail = us[r.Intn(len(us))].Number.Uint64()
		}
		stored := make([]string, len(blocks))
		for k, b := range blocks {
			stored[k] = renderBlockCfg(cc, b)
		}
		sl := strings.Join(stored, ",")
		if sl == "" {
			sl = "-"
		}
		line := fmt.Sprintf("unc %s %d %s %s", c.spec, fail, sl, renderBlockCfg(cc, blk))
		x.run.Current(line)
		out := hx.Safe(func() string { return class(engine(fail).VerifyUncles(ch, blk)) })
		if strings.HasPrefix(out, "panic") {
			out = "panic"
		}
		x.run.Count("unc:" + out)
		for _, k := range kind {
			x.run.Count("unc-kind:" + k)
		}
		x.run.Case(line, out)
		n++
	}
	x.run.Notes["uncle_cases"] = n
}

// ---------------------------------------------------------------------------------------------------------------------
// 6. the clock edge: timestamps next to "15 s in the future", judged with the harness' own clock reading and slack

func (x *H) sectionClockEdge(r *hx.Rng) {
	c := builtin()[5]
	n, skipped := 0, 0
	for i := 0; i < 40; i++ {
		pt := uint64(time.Now().Unix()) - 100
		parent := newHeader(r, c.c, common.Hash{}, 20, u(pt), big.NewInt(46039386*2), 4712388, 0, 0)
		for _, off := range []int64{15 - 1, 15, 15 + 3, 15 + 30} {
			t0 := time.Now()
			reading := t0.Unix()
			tm := big.NewInt(reading + off)
			d := aquahash.CalcDifficulty(c.c, tm.Uint64(), parent, nil)
			h := newHeader(r, c.c, parent.Hash(), 21, tm, d, 4712388, 0, 0)
			line := fmt.Sprintf("hdr %s %d 0 0 0 %s - %s", c.spec, reading, render(parent, false), render(h, false))
			out := class(engine(0).VerifVerifyHeader(newChain(c.c), h, parent, nil, false, false))
			// accepted cases (off <= 15) stay accepted as the clock advances; rejected cases need the call to have
			// happened within 2 s of the reading (off >= 18)
			if off > 15 && time.Since(t0) > 1500*time.Millisecond {
				skipped++
				continue
			}
			x.run.Case(line, out)
			x.run.Count("edge:" + out)
			n++
		}
	}
	x.run.Notes["clock_edge_cases"] = n
	x.run.Notes["clock_edge_skipped"] = skipped
}

// ---------------------------------------------------------------------------------------------------------------------
// 7. the import entry points that ESTABLISH the contiguity precondition of batch verification: the real
//    HeaderChain.ValidateHeaderChain / BlockChain.InsertHeaderChain and BlockChain.InsertChain on a real chain (memory DB,
//    fake seal), with linked batches (control), batches whose item i is re-pointed at a known sibling of item i-1 (i = 1 and
//    i >= 2), number gaps, swapped order, an unknown parent hash, an invalid inner header, and a timestamp of 2^64*k + t.
//    A refused batch must leave nothing behind: no header/block of it stored, head unchanged.

func withVersion(c *params.ChainConfig, h *types.Header) *types.Header {
	h = types.CopyHeader(h)
	h.Version = c.GetBlockVersion(h.Number)
	return h
}

func (x *H) sectionImport(r *hx.Rng, scale int) {
	log.Root().SetHandler(log.DiscardHandler())
	cfgs := []cfgT{builtin()[5], builtin()[2], builtin()[4], builtin()[1]}
	ctx := context.Background()
	n := 0
	for i := 0; i < 24*scale; i++ {
		c := cfgs[i%len(cfgs)]
		cc := c.c
		eng := aquahash.NewFaker()
		gdb := aquadb.NewMemDatabase()
		gspec := &core.Genesis{Config: cc}
		genesis := gspec.MustCommit(gdb)
		nMain := 2 + r.Intn(9)
		if c.spec == "@testnet2" && r.Intn(2) == 0 {
			nMain = 5 + r.Intn(16) // across HF8 = 8 and HF9 = 19
		}
		mainB, _ := core.GenerateChain(ctx, cc, genesis, eng, gdb, nMain, nil)
		P := mainB[len(mainB)-1]
		branchB, _ := core.GenerateChain(ctx, cc, P, eng, gdb, 2, nil)
		off := int64(-1 - r.Intn(8))
		branchA, _ := core.GenerateChain(ctx, cc, P, eng, gdb, 3, func(i int, gen *core.BlockGen) { gen.OffsetTime(off) })
		for kind := 0; kind <= 8; kind++ {
			for _, blockMode := range []bool{false, true} {
				db := aquadb.NewMemDatabase()
				gspec.MustCommit(db)
				bc, err := core.NewBlockChain(ctx, db, nil, cc, eng, vm.Config{})
				if err != nil {
					x.run.Violate("setup", "setup", c.spec, err.Error())
					continue
				}
				if _, err := bc.InsertChain(mainB); err != nil {
					x.run.Violate("setup", "setup-main", c.spec, err.Error())
					bc.Stop()
					continue
				}
				if _, err := bc.InsertChain(branchB); err != nil {
					x.run.Violate("setup", "setup-branch", c.spec, err.Error())
					bc.Stop()
					continue
				}
				A := []*types.Header{withVersion(cc, branchA[0].Header()), withVersion(cc, branchA[1].Header()), withVersion(cc, branchA[2].Header())}
				B := []*types.Header{withVersion(cc, branchB[0].Header()), withVersion(cc, branchB[1].Header())}
				var batch []*types.Header
				mustReject := true
				name := ""
				switch kind {
				case 0:
					batch, mustReject, name = A[:1+r.Intn(3)], false, "linked"
				case 1:
					a1 := types.CopyHeader(A[1])
					a1.ParentHash = B[0].Hash()
					batch, name = []*types.Header{A[0], a1}, "repoint-1-at-known-sibling"
				case 2:
					a2 := types.CopyHeader(A[2])
					a2.ParentHash = B[1].Hash()
					batch, name = []*types.Header{A[0], A[1], a2}, "repoint-2-at-known-sibling"
				case 3:
					batch, name = []*types.Header{A[0], A[2]}, "number-gap"
				case 4:
					batch, name = []*types.Header{A[1], A[0]}, "swapped"
				case 5:
					k := 1 + r.Intn(3)
					last := types.CopyHeader(A[k-1])
					mult := []*big.Int{two64, new(big.Int).Mul(two64, big.NewInt(int64(2+r.Intn(1000)))), new(big.Int).Lsh(big.NewInt(1), 128), new(big.Int).Lsh(big.NewInt(1), 255)}[r.Intn(4)]
					last.Time = new(big.Int).Add(last.Time, mult) // low 64 bits stay the plausible timestamp, the difficulty still matches them
					batch = append(append([]*types.Header{}, A[:k-1]...), last)
					name = "time-plus-2^64k"
				case 6:
					a1 := types.CopyHeader(A[1])
					a1.ParentHash = common.BytesToHash(r.Bytes(32))
					batch, name = []*types.Header{A[0], a1}, "repoint-1-at-unknown"
				case 7:
					a1 := types.CopyHeader(A[1])
					a1.Difficulty = new(big.Int).Add(a1.Difficulty, big.NewInt(1))
					a2 := types.CopyHeader(A[2])
					a2.ParentHash = a1.Hash()
					batch, name = []*types.Header{A[0], a1, a2}, "invalid-inner"
				case 8:
					a1 := types.CopyHeader(A[1])
					a1.ParentHash = P.Hash() // an ancestor, not the predecessor
					batch, name = []*types.Header{A[0], a1}, "repoint-1-at-grandparent"
				}
				headBefore := bc.CurrentHeader().Hash()
				blockBefore := bc.CurrentBlock().Hash()
				var stored []*types.Header
				stored = append(stored, withVersion(cc, genesis.Header()))
				for _, b := range mainB {
					stored = append(stored, withVersion(cc, b.Header()))
				}
				stored = append(stored, B...)
				now := time.Now().Unix()
				tag := fmt.Sprintf("import %s kind=%s blocks=%v main=%d", c.spec, name, blockMode, nMain)
				x.run.Current(tag)
				var ierr error
				var idx int
				res := hx.Safe(func() string {
					if blockMode {
						var blocks types.Blocks
						for k, h := range batch {
							src := branchA[0]
							for _, cand := range branchA {
								if cand.NumberU64() == h.Number.Uint64() {
									src = cand
								}
							}
							_ = k
							blocks = append(blocks, types.NewBlockWithHeader(h).WithBody(src.Transactions(), src.Uncles()))
						}
						idx, ierr = bc.InsertChain(blocks)
					} else {
						idx, ierr = bc.InsertHeaderChain(batch, 1)
					}
					return ""
				})
				newStored := 0
				for _, h := range batch {
					if blockMode {
						if bc.GetBlock(h.Hash(), h.Number.Uint64()) != nil {
							newStored++
						}
					} else if bc.GetHeader(h.Hash(), h.Number.Uint64()) != nil {
						newStored++
					}
				}
				headChanged := b2i(bc.CurrentHeader().Hash() != headBefore || bc.CurrentBlock().Hash() != blockBefore)
				out := "ok"
				switch {
				case res != "":
					out = "panic"
				case ierr != nil && strings.Contains(ierr.Error(), "non contiguous"):
					out = fmt.Sprintf("err noncontiguous %d %d", newStored, headChanged)
				case ierr != nil:
					out = fmt.Sprintf("err %d %s %d %d", idx, strings.TrimPrefix(class(ierr), "err "), newStored, headChanged)
				}
				mode := "headers"
				if blockMode {
					mode = "blocks"
				}
				x.run.Count("import[" + mode + "," + name + "]:" + strings.Join(strings.Fields(out)[:min(2, len(strings.Fields(out)))], "-"))
				if mustReject {
					// in block mode the valid prefix before a rule violation (kinds 5, 7) is legitimately imported: only the offending
					// header and its successors must stay out; a non-contiguous batch is refused as a whole
					// first item that must stay out: the re-pointed / gapped / swapped / invalid / time-wrapped one
					brk := map[int]int{1: 1, 2: 2, 3: 1, 4: 1, 5: len(batch) - 1, 6: 1, 7: 1, 8: 1}[kind]
					bad := out == "panic"
					if blockMode {
						// insertChain2 imports the linked prefix of a non-contiguous batch (returning nil) and the valid prefix before a
						// rule violation: only the offending item and its successors must stay out
						for _, h := range batch[brk:] {
							if bc.GetBlock(h.Hash(), h.Number.Uint64()) != nil || bc.GetHeader(h.Hash(), h.Number.Uint64()) != nil ||
								bc.CurrentHeader().Hash() == h.Hash() || bc.CurrentBlock().Hash() == h.Hash() {
								bad = true
							}
						}
					} else {
						// ValidateHeaderChain runs before any write: a refused batch leaves nothing behind
						bad = bad || out == "ok" || newStored != 0 || headChanged != 0
					}
					if bad {
						x.run.Violate("invalid-batch-imported", "invalid-batch-imported "+mode+" "+name,
							map[string]string{"config": c.spec, "mode": mode, "kind": name, "stored": renderList(stored), "batch": renderList(batch)},
							fmt.Sprintf("%s import of a %s batch: result %q (batch items now stored: %d, head changed: %d); expected: refused, nothing of the invalid part stored, head unchanged", mode, name, out, newStored, headChanged))
					}
				} else if out != "ok" {
					x.run.Violate("valid-batch-refused", "valid-batch-refused "+mode, map[string]string{"config": c.spec, "batch": renderList(batch)}, "a linked valid batch was refused: "+out)
				}
				if !blockMode {
					line := fmt.Sprintf("ihc %s %d %s %s", c.spec, now, renderList(stored), renderList(batch))
					x.run.Case(line, out)
					n++
				}
				// Stop() commits recent states by canonical number; after a header-only import onto a full chain the canonical
				// block body may be missing (outside C13) - recover
				hx.Safe(func() string { bc.Stop(); return "" })
			}
		}
	}
	x.run.Notes["import_cases"] = n
	x.sectionImportKnownPrefix(r.Fork(11), scale)
	x.sectionImportHistory(r.Fork(12), scale)
}

// 7b. batches that START WITH ALREADY-IMPORTED blocks (canonical, or a known side block) or with a known block and a valid new
//     one, followed by a block whose header violates exactly one rule while its body and state are fine. insertChain consumes
//     the VerifyHeaders results by position, one receive per block: the error must come at the invalid item's index, the item
//     must not be stored nor become head. Through InsertChain (blocks) and InsertHeaderChain (headers; also judged by the model).
func (x *H) sectionImportKnownPrefix(r *hx.Rng, scale int) {
	cfgs := []cfgT{builtin()[5], builtin()[2], builtin()[4], builtin()[1]}
	ctx := context.Background()
	rules := []string{"extra-33", "time-equals-parent", "difficulty+1", "difficulty-1", "gaslimit-moved-by-parent/1024", "gaslimit-4999", "gasused>gaslimit", "number-gap", "time-plus-2^64"}
	n := 0
	for i := 0; i < 20*scale; i++ {
		c := cfgs[i%len(cfgs)]
		cc := c.c
		eng := aquahash.NewFaker()
		gdb := aquadb.NewMemDatabase()
		gspec := &core.Genesis{Config: cc}
		genesis := gspec.MustCommit(gdb)
		nMain := 3 + r.Intn(8)
		if c.spec == "@testnet2" && r.Intn(2) == 0 {
			nMain = 5 + r.Intn(16)
		}
		mainB, _ := core.GenerateChain(ctx, cc, genesis, eng, gdb, nMain, nil)
		P := mainB[len(mainB)-1]
		branchB, _ := core.GenerateChain(ctx, cc, P, eng, gdb, 2, nil)
		off := int64(-1 - r.Intn(8))
		branchA, _ := core.GenerateChain(ctx, cc, P, eng, gdb, 2, func(i int, gen *core.BlockGen) { gen.OffsetTime(off) })
		branchC, _ := core.GenerateChain(ctx, cc, branchB[1], eng, gdb, 2, nil)
		canon := append(append(types.Blocks{}, mainB...), branchB...)
		for shape := 0; shape < 3; shape++ {
			rule := r.Intn(len(rules))
			for _, blockMode := range []bool{true, false} {
				db := aquadb.NewMemDatabase()
				gspec.MustCommit(db)
				bc, err := core.NewBlockChain(ctx, db, nil, cc, eng, vm.Config{})
				if err != nil {
					continue
				}
				if _, err := bc.InsertChain(canon); err != nil {
					x.run.Violate("setup", "setup-canon", c.spec, err.Error())
					hx.Safe(func() string { bc.Stop(); return "" })
					continue
				}
				var prefix types.Blocks
				var victim, vparent *types.Block
				shapeName := ""
				switch shape {
				case 0:
					k := 1 + r.Intn(3)
					if k > len(canon) {
						k = len(canon)
					}
					prefix, victim, vparent, shapeName = canon[len(canon)-k:], branchC[0], branchB[1], fmt.Sprintf("known-canonical-%d", k)
				case 1:
					if _, err := bc.InsertChain(types.Blocks{branchA[0]}); err != nil {
						x.run.Violate("setup", "setup-side", c.spec, err.Error())
					}
					prefix, victim, vparent, shapeName = types.Blocks{branchA[0]}, branchA[1], branchA[0], "known-side"
				case 2:
					prefix, victim, vparent, shapeName = types.Blocks{branchB[1], branchC[0]}, branchC[1], branchC[0], "known-then-valid-new"
				}
				th := withVersion(cc, victim.Header())
				switch rule {
				case 0:
					th.Extra = make([]byte, 33)
				case 1:
					th.Time = new(big.Int).Set(vparent.Time())
				case 2:
					th.Difficulty = new(big.Int).Add(th.Difficulty, big.NewInt(1))
				case 3:
					th.Difficulty = new(big.Int).Sub(th.Difficulty, big.NewInt(1))
				case 4:
					th.GasLimit = vparent.GasLimit() + vparent.GasLimit()/1024
				case 5:
					th.GasLimit = 4999
				case 6:
					th.GasUsed = th.GasLimit + 1
				case 7:
					th.Number = new(big.Int).Add(th.Number, big.NewInt(1))
					th.Version = cc.GetBlockVersion(th.Number)
				case 8:
					th.Time = new(big.Int).Add(th.Time, new(big.Int).Lsh(big.NewInt(int64(1+r.Intn(5))), 64))
				}
				X := types.NewBlockWithHeader(th).WithBody(victim.Transactions(), victim.Uncles())
				batchBlocks := append(append(types.Blocks{}, prefix...), X)
				var batch []*types.Header
				for _, b := range batchBlocks {
					batch = append(batch, withVersion(cc, b.Header()))
				}
				var stored []*types.Header
				stored = append(stored, withVersion(cc, genesis.Header()))
				for _, b := range canon {
					stored = append(stored, withVersion(cc, b.Header()))
				}
				if shape == 1 {
					stored = append(stored, withVersion(cc, branchA[0].Header()))
				}
				mode := "headers"
				if blockMode {
					mode = "blocks"
				}
				tag := fmt.Sprintf("import %s %s rule=%s mode=%s main=%d", c.spec, shapeName, rules[rule], mode, nMain)
				x.run.Current(tag)
				now := time.Now().Unix()
				var ierr error
				var idx int
				res := hx.Safe(func() string {
					if blockMode {
						idx, ierr = bc.InsertChain(batchBlocks)
					} else {
						idx, ierr = bc.InsertHeaderChain(batch, 1)
					}
					return ""
				})
				xh := X.Header()
				xStored := bc.GetBlock(X.Hash(), X.NumberU64()) != nil || bc.GetHeader(xh.Hash(), xh.Number.Uint64()) != nil
				xHead := bc.CurrentBlock().Hash() == X.Hash() || bc.CurrentHeader().Hash() == X.Hash()
				out := "ok"
				switch {
				case res != "":
					out = "panic"
				case ierr != nil && strings.Contains(ierr.Error(), "non contiguous"):
					out = "err noncontiguous 0 0"
				case ierr != nil && strings.HasPrefix(ierr.Error(), "future block"):
					out = fmt.Sprintf("err %d future %d %d", idx, b2i(xStored), b2i(xHead))
				case ierr != nil:
					out = fmt.Sprintf("err %d %s %d %d", idx, strings.TrimPrefix(class(ierr), "err "), b2i(xStored), b2i(xHead))
				}
				x.run.Count("import-known-prefix[" + mode + "," + shapeName[:10] + "," + rules[rule] + "]:" + strings.Join(strings.Fields(out)[:min(3, len(strings.Fields(out)))], "-"))
				bad := out == "panic" || xStored || xHead
				if rule != 7 && (ierr == nil || idx != len(batch)-1) {
					bad = true // the header error must be reported at the invalid item's own index
				}
				if bad {
					x.run.Violate("invalid-batch-imported", "invalid-batch-imported known-prefix "+mode,
						map[string]string{"config": c.spec, "mode": mode, "shape": shapeName, "rule": rules[rule], "stored": renderList(stored), "batch": renderList(batch)},
						fmt.Sprintf("%s import of [%s, block violating %s]: result %q, invalid item stored=%v head=%v; expected an error at index %d and the item neither stored nor head",
							mode, shapeName, rules[rule], out, xStored, xHead, len(batch)-1))
				}
				if !blockMode {
					x.run.Case(fmt.Sprintf("ihc %s %d %s %s", c.spec, now, renderList(stored), renderList(batch)), out)
					n++
				}
				hx.Safe(func() string { bc.Stop(); return "" })
			}
		}
	}
	x.run.Notes["import_known_prefix_cases"] = n
}

// 7c. offer histories: the verdict on a block whose parent is present must be the engine's verdict on (block, parent chain) —
//     whatever the node was offered before. Valid blocks X1, X2, X3 on top of the head are first offered early (parent missing:
//     "unknown ancestor"), or after a failed sibling, or repeatedly, and then offered in order. Judged directly: when
//     Engine.VerifyHeader accepts the header against the current chain (bodies come from GenerateChain and are valid), InsertChain /
//     InsertHeaderChain must accept it and the head must advance (kind `valid-block-refused`).
func (x *H) sectionImportHistory(r *hx.Rng, scale int) {
	cfgs := []cfgT{builtin()[5], builtin()[2], builtin()[4], builtin()[1]}
	ctx := context.Background()
	histories := []string{"control", "x2-early", "x3-x2-early", "x2-early-twice", "bad-sibling-then-x2-early", "x2-early-then-one-by-one", "x2x3-early-batch"}
	n := 0
	for i := 0; i < 12*scale; i++ {
		c := cfgs[i%len(cfgs)]
		cc := c.c
		eng := aquahash.NewFaker()
		gdb := aquadb.NewMemDatabase()
		gspec := &core.Genesis{Config: cc}
		genesis := gspec.MustCommit(gdb)
		nMain := 2 + r.Intn(8)
		if c.spec == "@testnet2" && r.Intn(2) == 0 {
			nMain = 5 + r.Intn(16)
		}
		mainB, _ := core.GenerateChain(ctx, cc, genesis, eng, gdb, nMain, nil)
		X, _ := core.GenerateChain(ctx, cc, mainB[len(mainB)-1], eng, gdb, 3, nil)
		for hi, hist := range histories {
			for _, blockMode := range []bool{true, false} {
				db := aquadb.NewMemDatabase()
				gspec.MustCommit(db)
				bc, err := core.NewBlockChain(ctx, db, nil, cc, eng, vm.Config{})
				if err != nil {
					continue
				}
				if _, err := bc.InsertChain(mainB); err != nil {
					x.run.Violate("setup", "setup-history", c.spec, err.Error())
					hx.Safe(func() string { bc.Stop(); return "" })
					continue
				}
				mode := "headers"
				if blockMode {
					mode = "blocks"
				}
				offer := func(bs ...*types.Block) (int, error) {
					if blockMode {
						return bc.InsertChain(types.Blocks(bs))
					}
					var hs []*types.Header
					for _, b := range bs {
						hs = append(hs, withVersion(cc, b.Header()))
					}
					return bc.InsertHeaderChain(hs, 1)
				}
				tag := fmt.Sprintf("history %s %s mode=%s main=%d", c.spec, hist, mode, nMain)
				x.run.Current(tag)
				early := []string{}
				rec := func(idx int, err error) {
					if err == nil {
						early = append(early, "ok")
					} else {
						early = append(early, fmt.Sprintf("%d:%s", idx, strings.TrimPrefix(class(err), "err ")))
					}
				}
				res := hx.Safe(func() string {
					switch hi {
					case 1:
						rec(offer(X[1]))
					case 2:
						rec(offer(X[2]))
						rec(offer(X[1]))
					case 3:
						rec(offer(X[1]))
						rec(offer(X[1]))
					case 4:
						bad := withVersion(cc, X[0].Header())
						bad.Extra = make([]byte, 33)
						rec(offer(types.NewBlockWithHeader(bad).WithBody(X[0].Transactions(), X[0].Uncles())))
						rec(offer(X[1]))
					case 5:
						rec(offer(X[1]))
					case 6:
						rec(offer(X[1], X[2]))
					}
					return ""
				})
				// now in order; before each step the engine's own verdict on the header against the current chain
				final := []string{}
				ok := res == ""
				steps := [][]*types.Block{{X[0], X[1], X[2]}}
				if hi == 5 {
					steps = [][]*types.Block{{X[0]}, {X[1]}, {X[2]}}
				}
				for _, st := range steps {
					engineOK := eng.VerifyHeader(bc, withVersion(cc, st[0].Header()), true) == nil
					var idx int
					var ierr error
					r2 := hx.Safe(func() string { idx, ierr = offer(st...); return "" })
					if r2 != "" {
						final = append(final, "panic")
						ok = false
						continue
					}
					if ierr == nil {
						final = append(final, "ok")
					} else {
						final = append(final, fmt.Sprintf("%d:%s", idx, strings.ReplaceAll(strings.TrimPrefix(class(ierr), "err "), " ", "_")))
					}
					if engineOK && ierr != nil {
						ok = false
					}
				}
				last := X[2]
				headOK := bc.CurrentHeader().Hash() == last.Hash()
				if blockMode {
					headOK = headOK && bc.CurrentBlock().Hash() == last.Hash()
				}
				x.run.Count("history[" + mode + "," + hist + "]:" + strings.Join(early, ",") + "=>" + strings.Join(final, ","))
				if !ok || !headOK {
					x.run.Violate("valid-block-refused", "valid-block-refused history "+mode,
						map[string]string{"config": c.spec, "mode": mode, "history": hist, "early": strings.Join(early, ","), "in-order": strings.Join(final, ","),
							"blocks": renderList([]*types.Header{withVersion(cc, X[0].Header()), withVersion(cc, X[1].Header()), withVersion(cc, X[2].Header())})},
						fmt.Sprintf("%s import after history %q (early offers: %s): in-order import of three valid blocks gave %s, head at the last block: %v; Engine.VerifyHeader accepts each header once its parent is present, so the verdict must not depend on earlier offers",
							mode, hist, strings.Join(early, ","), strings.Join(final, ","), headOK))
				}
				n++
				hx.Safe(func() string { bc.Stop(); return "" })
			}
		}
	}
	x.run.Notes["import_history_cases"] = n
}

// c08: correspondence harness for property C08 (EVM instructions compute what the specification defines).
// Drives the REAL core/vm in-process: single-op programs through vm.NewEVM(...).Call on an in-memory StateDB for every
// instruction-set epoch, validity / stack-arity / stack-limit probes of all 256 opcode bytes, instruction-set and gas-table
// selection for the built-in chain configs around every fork height, jump-destination analysis on random code (directly
// and through real JUMPs), and the pure gas functions through overlay accessors. Every case line is evaluated by the Lean
// driver (Impl model + Spec); nothing is judged in Go.
package main

import (
	"bytes"
	"encoding/hex"
	"fmt"
	"math/big"
	"sort"
	"strings"
	"time"

	"gitlab.com/aquachain/aquachain/aquadb"
	"gitlab.com/aquachain/aquachain/common"
	"gitlab.com/aquachain/aquachain/core/state"
	"gitlab.com/aquachain/aquachain/core/vm"
	"gitlab.com/aquachain/aquachain/params"
	"verifharness/hx"
)

const runGas = 10000000

var (
	sender   = common.HexToAddress("0x00000000000000000000000000000000000c0ffe")
	contract = common.HexToAddress("0x00000000000000000000000000000000000c0de0")
	two256   = new(big.Int).Lsh(big.NewInt(1), 256)
)

func bi(s string) *big.Int {
	v, ok := new(big.Int).SetString(s, 16)
	if !ok {
		panic(s)
	}
	return v
}
func pow2(k uint) *big.Int { return new(big.Int).Lsh(big.NewInt(1), k) }
func add(a *big.Int, d int64) *big.Int {
	r := new(big.Int).Add(a, big.NewInt(d))
	return r.Mod(r, two256)
}
func hexb(v *big.Int) string { return v.Text(16) }

// ---- epochs: custom chain configs that make NewInterpreter take each branch of its switch ---------------------------

type epoch struct {
	name string
	spec string // c:<homestead>:<byzantium>:<constantinople>:<hf1>:<hf5>
	gt   string // hs | hf1
	cfg  *params.ChainConfig
}

func mkCfg(hs, bz, cs, h1, h5 *big.Int) *params.ChainConfig {
	c := &params.ChainConfig{ChainId: big.NewInt(1337), HomesteadBlock: hs, EIP150Block: big.NewInt(0), ByzantiumBlock: bz, ConstantinopleBlock: cs,
		HF: params.ForkMap{}}
	if h1 != nil {
		c.HF[1] = h1
	}
	if h5 != nil {
		c.HF[5] = h5
	}
	return c
}

func o(b *big.Int) string {
	if b == nil {
		return "-"
	}
	return b.String()
}

func mkEpoch(name string, hs, bz, cs *big.Int, hf1 bool, h5 *big.Int) epoch {
	var h1 *big.Int
	gt := "hs"
	if hf1 {
		h1, gt = big.NewInt(0), "hf1"
	}
	return epoch{name, fmt.Sprintf("c:%s:%s:%s:%s:%s", o(hs), o(bz), o(cs), o(h1), o(h5)), gt, mkCfg(hs, bz, cs, h1, h5)}
}

var z = big.NewInt(0)

var epochs = []epoch{
	mkEpoch("spring", z, nil, nil, true, z),
	mkEpoch("spring", z, nil, nil, false, z),
	mkEpoch("constantinople", z, z, z, true, nil),
	mkEpoch("byzantium", z, z, nil, false, nil),
	mkEpoch("homestead", z, nil, nil, true, nil),
	mkEpoch("frontier", nil, nil, nil, false, nil),
}

// ---- the real EVM -------------------------------------------------------------------------------------------------

type env struct {
	db *state.StateDB
	vr *hx.Run // for the direct judgement "nothing handed into the call was mutated"
}

var contractBalance = big.NewInt(777000777)

func newEnv() *env {
	db, err := state.New(common.Hash{}, state.NewDatabase(aquadb.NewMemDatabase()))
	if err != nil {
		panic(err)
	}
	db.CreateAccount(contract)
	db.CreateAccount(sender)
	db.SetBalance(contract, new(big.Int).Set(contractBalance))
	return &env{db: db}
}

// tracer records, for the probes, the stack length seen at every step and the pc of a faulting step.
type tracer struct {
	lastStack []string // the stack (top first, at most 4 words) and its depth as the most recent step found it
	lastDepth int
	keepStack bool
	frames    []*frameRec // depth-2 frames of a call tree (keepFrames)
	keepFrames bool
	inFrame   bool
	stackLens []int
	pcs       []uint64
	faultPC   int64
	faultErr  string
}

// frameRec: what a tracer sees of one child frame (CREATE init code or CALLed code): its own code and input, the gas it was
// entered with, and its last step (halting instruction with the stack it found, memory range returned) or fault.
type frameRec struct {
	code, input  []byte
	addr, caller common.Address
	gasEntry     uint64
	lastOp       vm.OpCode
	lastGas      uint64
	lastCost     uint64
	depth        int
	top          []string
	ret          []byte
	fault        string
}

func (t *tracer) frameStep(pc uint64, op vm.OpCode, gas, cost uint64, m *vm.Memory, st *vm.Stack, c *vm.Contract, depth int, err error) {
	if depth != 2 {
		t.inFrame = false
		return
	}
	if !t.inFrame {
		t.inFrame = true
		t.frames = append(t.frames, &frameRec{code: append([]byte{}, c.Code...), input: append([]byte{}, c.Input...), addr: c.Address(),
			caller: c.Caller(), gasEntry: gas})
	}
	f := t.frames[len(t.frames)-1]
	if err != nil {
		if f.fault == "" {
			f.fault = failClass(err)
		}
		return
	}
	f.lastOp, f.lastGas, f.lastCost = op, gas, cost
	d := st.Data()
	f.depth = len(d)
	f.top = f.top[:0]
	for i := len(d) - 1; i >= 0 && i >= len(d)-4; i-- {
		f.top = append(f.top, d[i].Text(16))
	}
	f.ret = nil
	if (op == vm.RETURN || op == vm.REVERT) && len(d) >= 2 {
		off, size := d[len(d)-1], d[len(d)-2]
		if size.Sign() > 0 && off.IsUint64() && size.IsUint64() && off.Uint64()+size.Uint64() <= uint64(m.Len()) {
			f.ret = append([]byte{}, m.Data()[off.Uint64():off.Uint64()+size.Uint64()]...)
		}
	}
}

func (t *tracer) CaptureStart(from common.Address, to common.Address, call bool, input []byte, gas uint64, value *big.Int) error {
	return nil
}
func (t *tracer) CaptureState(e *vm.EVM, pc uint64, op vm.OpCode, gas, cost uint64, m *vm.Memory, st *vm.Stack, c *vm.Contract, depth int, err error) error {
	if t.keepFrames {
		t.frameStep(pc, op, gas, cost, m, st, c, depth, err)
		return nil
	}
	if depth != 1 {
		return nil
	}
	if err != nil { // the deferred report of a failure that happened before the step was logged (stack validation, gas)
		if t.faultPC < 0 {
			t.faultPC, t.faultErr = int64(pc), err.Error()
		}
		return nil
	}
	if t.keepStack {
		d := st.Data()
		t.lastDepth = len(d)
		t.lastStack = t.lastStack[:0]
		for i := len(d) - 1; i >= 0 && i >= len(d)-4; i-- {
			t.lastStack = append(t.lastStack, d[i].Text(16))
		}
		return nil
	}
	t.stackLens = append(t.stackLens, len(st.Data()))
	t.pcs = append(t.pcs, pc)
	return nil
}
func (t *tracer) CaptureFault(e *vm.EVM, pc uint64, op vm.OpCode, gas, cost uint64, m *vm.Memory, st *vm.Stack, c *vm.Contract, depth int, err error) error {
	if t.keepFrames {
		if depth == 2 && t.inFrame && len(t.frames) > 0 && t.frames[len(t.frames)-1].fault == "" {
			t.frames[len(t.frames)-1].fault = failClass(err)
		}
		return nil
	}
	if depth == 1 && t.faultPC < 0 {
		t.faultPC = int64(pc)
		if err != nil {
			t.faultErr = err.Error()
		}
	}
	return nil
}
func (t *tracer) CaptureEnd(output []byte, gasUsed uint64, d time.Duration, err error) error { return nil }

func (e *env) run(cfg *params.ChainConfig, height uint64, code, input []byte, gas uint64, tr *tracer) (ret []byte, left uint64, err error) {
	ctx := vm.Context{
		CanTransfer: func(vm.StateDB, common.Address, *big.Int) bool { return true },
		Transfer:    func(vm.StateDB, common.Address, common.Address, *big.Int) {},
		GetHash:     func(uint64) common.Hash { return common.Hash{} },
		Origin:      sender, GasPrice: big.NewInt(1), Coinbase: common.Address{}, GasLimit: runGas,
		BlockNumber: new(big.Int).SetUint64(height), Time: big.NewInt(1000), Difficulty: big.NewInt(1),
	}
	value := new(big.Int)
	inputCopy := append([]byte{}, input...)
	vcfg := vm.Config{}
	if tr != nil {
		tr.faultPC = -1
		vcfg = vm.Config{Debug: true, Tracer: tr}
	}
	snap := e.db.Snapshot()
	e.db.SetCode(contract, code)
	evm := vm.NewEVM(ctx, e.db, cfg, vcfg)
	ret, left, err = evm.Call(vm.AccountRef(sender), contract, input, gas, value)
	e.db.RevertToSnapshot(snap)
	// aliasing judgement: every big.Int / byte slice handed INTO the call (call value, block context, call data, the state's
	// balance object) must be unchanged afterwards — a pointer pushed on the operand stack instead of a copy ends up in the
	// integer pool and is overwritten by the next instruction that takes a recycled word.
	if e.vr != nil {
		mut := func(sig, have, want string) {
			e.vr.Violate("env-input-mutated", sig, map[string]string{"code": hx.Hex(code), "calldata": hx.Hex(inputCopy), "height": fmt.Sprint(height)},
				fmt.Sprintf("%s handed into the call was mutated by the program: now %s, was %s", sig, have, want))
		}
		if value.Sign() != 0 {
			mut("CALLVALUE", value.String(), "0")
		}
		if ctx.GasPrice.Cmp(big.NewInt(1)) != 0 {
			mut("GASPRICE", ctx.GasPrice.String(), "1")
		}
		if !ctx.BlockNumber.IsUint64() || ctx.BlockNumber.Uint64() != height {
			mut("NUMBER", ctx.BlockNumber.String(), fmt.Sprint(height))
		}
		if ctx.Time.Cmp(big.NewInt(1000)) != 0 {
			mut("TIMESTAMP", ctx.Time.String(), "1000")
		}
		if ctx.Difficulty.Cmp(big.NewInt(1)) != 0 {
			mut("DIFFICULTY", ctx.Difficulty.String(), "1")
		}
		if !bytes.Equal(input, inputCopy) {
			mut("CALLDATA", hx.Hex(input), hx.Hex(inputCopy))
		}
		if b := e.db.GetBalance(contract); b.Cmp(contractBalance) != 0 {
			mut("BALANCE", b.String(), contractBalance.String())
			e.db.SetBalance(contract, new(big.Int).Set(contractBalance))
		}
	}
	return
}

func push32(v *big.Int) []byte {
	b := make([]byte, 33)
	b[0] = 0x7f
	vb := v.Bytes()
	copy(b[33-len(vb):], vb)
	return b
}

var epilogue = []byte{0x60, 0x00, 0x52, 0x60, 0x20, 0x60, 0x00, 0xf3} // PUSH1 0 MSTORE PUSH1 32 PUSH1 0 RETURN

type opDef struct {
	name  string
	code  byte
	arity int
}

var ops = []opDef{
	{"ADD", 0x01, 2}, {"MUL", 0x02, 2}, {"SUB", 0x03, 2}, {"DIV", 0x04, 2}, {"SDIV", 0x05, 2}, {"MOD", 0x06, 2}, {"SMOD", 0x07, 2},
	{"ADDMOD", 0x08, 3}, {"MULMOD", 0x09, 3}, {"EXP", 0x0a, 2}, {"SIGNEXTEND", 0x0b, 2},
	{"LT", 0x10, 2}, {"GT", 0x11, 2}, {"SLT", 0x12, 2}, {"SGT", 0x13, 2}, {"EQ", 0x14, 2}, {"ISZERO", 0x15, 1},
	{"AND", 0x16, 2}, {"OR", 0x17, 2}, {"XOR", 0x18, 2}, {"NOT", 0x19, 1}, {"BYTE", 0x1a, 2},
	{"SHL", 0x1b, 2}, {"SHR", 0x1c, 2}, {"SAR", 0x1d, 2},
}

func errClass(err error) string {
	if err == nil {
		return "ok"
	}
	s := err.Error()
	switch {
	case strings.HasPrefix(s, "invalid opcode"):
		return "invalid"
	case strings.HasPrefix(s, "stack underflow"):
		return "underflow"
	case strings.HasPrefix(s, "stack limit reached"):
		return "limit"
	case strings.HasPrefix(s, "invalid jump destination"):
		return "badjump"
	case err == vm.ErrOutOfGas:
		return "oog"
	}
	return "other"
}


// ---- program generator (section 6) -----------------------------------------------------------------------------------

type asm struct {
	code   []byte
	labels map[int]int   // label id -> position
	fixups map[int][]int // label id -> positions of the 2-byte operands to patch
}

func newAsm() *asm { return &asm{labels: map[int]int{}, fixups: map[int][]int{}} }
func (a *asm) op(b ...byte) { a.code = append(a.code, b...) }
func (a *asm) push(v *big.Int) {
	b := v.Bytes()
	if len(b) == 0 {
		b = []byte{0}
	}
	a.code = append(a.code, byte(0x5f+len(b)))
	a.code = append(a.code, b...)
}
func (a *asm) pushN(n int64) { a.push(big.NewInt(n)) }
func (a *asm) push32(v *big.Int) { a.code = append(a.code, push32(v)...) }
func (a *asm) pushLabel(id int) {
	a.code = append(a.code, 0x61, 0, 0)
	a.fixups[id] = append(a.fixups[id], len(a.code)-2)
}
func (a *asm) label(id int) { a.labels[id] = len(a.code); a.code = append(a.code, 0x5b) }
func (a *asm) finish() []byte {
	for id, fs := range a.fixups {
		pos, ok := a.labels[id]
		if !ok {
			pos = len(a.code) + 7 // dangling label: an invalid destination
		}
		for _, f := range fs {
			a.code[f], a.code[f+1] = byte(pos>>8), byte(pos)
		}
	}
	return a.code
}

var arithOps = []byte{0x01, 0x02, 0x03, 0x04, 0x05, 0x06, 0x07, 0x0a, 0x0b, 0x10, 0x11, 0x12, 0x13, 0x14, 0x16, 0x17, 0x18, 0x1a, 0x1b, 0x1c, 0x1d}
var envOps = []byte{0x30, 0x32, 0x33, 0x34, 0x36, 0x38, 0x3a, 0x41, 0x42, 0x43, 0x44, 0x45, 0x58, 0x59, 0x5a, 0x3d}

// genProgram: a mostly-valid program over the modelled opcode subset: arithmetic on lattice/random operands, memory and
// SHA3 traffic at small (sometimes huge) offsets, call-data and code copies, DUP/SWAP at random depths, forward jumps,
// conditional jumps, counted loops, occasional junk bytes / truncated PUSH / bad jump targets, and a RETURN/REVERT/STOP tail.
func genProgram(r *hx.Rng, operand func(*hx.Rng) *big.Int) []byte {
	a := newAsm()
	nextLabel := 0
	depth := 0 // approximate stack depth
	smallOff := func() *big.Int {
		switch r.Intn(40) {
		case 0:
			return new(big.Int).Lsh(big.NewInt(1), uint(10+r.Intn(56)))
		case 1:
			return operand(r)
		default:
			return big.NewInt(int64(r.Intn(200)))
		}
	}
	smallLen := func() *big.Int {
		switch r.Intn(30) {
		case 0:
			return big.NewInt(0)
		case 1:
			return operand(r)
		default:
			return big.NewInt(int64(r.Intn(100)))
		}
	}
	n := 2 + r.Intn(14)
	for i := 0; i < n; i++ {
		sel := r.Intn(64)
		switch {
		case sel >= 62:
			sel = 15
		case sel >= 60:
			sel = 14
		default:
			sel = sel % 14
		}
		switch sel {
		case 0, 1, 2: // binary arithmetic
			a.push(operand(r))
			a.push(operand(r))
			a.op(arithOps[r.Intn(len(arithOps))])
			depth++
		case 3: // unary / ternary
			if r.Bool() {
				a.push(operand(r))
				a.op([]byte{0x15, 0x19}[r.Intn(2)])
			} else {
				a.push(operand(r))
				a.push(operand(r))
				a.push(operand(r))
				a.op([]byte{0x08, 0x09}[r.Intn(2)])
			}
			depth++
		case 4: // arithmetic on what is on the stack
			if depth >= 2 {
				a.op(arithOps[r.Intn(len(arithOps))])
				depth--
			} else {
				a.op(envOps[r.Intn(len(envOps))])
				depth++
			}
		case 5: // MSTORE / MSTORE8
			a.push(operand(r))
			a.push(smallOff())
			a.op([]byte{0x52, 0x53}[r.Intn(2)])
		case 6: // MLOAD
			a.push(smallOff())
			a.op(0x51)
			depth++
		case 7: // SHA3
			a.push(smallLen())
			a.push(smallOff())
			a.op(0x20)
			depth++
		case 8: // CALLDATALOAD / CALLDATACOPY / CODECOPY
			switch r.Intn(3) {
			case 0:
				a.push(smallOff())
				a.op(0x35)
				depth++
			default:
				a.push(smallLen())
				a.push(smallOff())
				a.push(smallOff())
				a.op([]byte{0x37, 0x39}[r.Intn(2)])
			}
		case 9: // DUP / SWAP / POP (mostly within the current depth)
			k := r.Intn(16)
			if depth > 0 && r.Intn(10) > 0 {
				k = r.Intn(depth)
				if k > 15 {
					k = 15
				}
			}
			switch r.Intn(3) {
			case 0:
				a.op(byte(0x80 + k))
				depth++
			case 1:
				if depth > 1 && r.Intn(10) > 0 && k >= depth-1 {
					k = depth - 2
				}
				a.op(byte(0x90 + k))
			default:
				if depth > 0 || r.Intn(10) == 0 {
					a.op(0x50)
					depth--
				}
			}
		case 10: // forward jump over some bytes
			id := nextLabel
			nextLabel++
			a.pushLabel(id)
			a.op(0x56)
			for j := r.Intn(4); j > 0; j-- {
				b := byte(r.U64())
				if b >= 0x60 && b <= 0x7f && r.Intn(4) > 0 { // a PUSH here would swallow the label (kept, but rarer)
					b = 0xfe
				}
				a.op(b)
			}
			if r.Intn(20) > 0 {
				a.label(id)
			}
		case 11: // conditional forward jump
			id := nextLabel
			nextLabel++
			a.push(operand(r))
			if r.Bool() {
				a.op(0x15)
			}
			a.pushLabel(id)
			a.op(0x57)
			a.push(operand(r))
			a.op(0x50)
			if r.Intn(20) > 0 {
				a.label(id)
			}
		case 12: // counted loop: PUSH n; L: PUSH1 1; SWAP1; SUB; DUP1; PUSH L; JUMPI; POP
			id := nextLabel
			nextLabel++
			a.pushN(int64(1 + r.Intn(6)))
			a.label(id)
			a.op(0x60, 0x01, 0x90, 0x03, 0x80)
			a.pushLabel(id)
			a.op(0x57, 0x50)
		case 13: // environment
			a.op(envOps[r.Intn(len(envOps))])
			depth++
		case 14: // jump to a computed / arbitrary destination
			if r.Intn(3) == 0 {
				a.push(operand(r))
			} else {
				a.pushN(int64(r.Intn(len(a.code) + 20)))
			}
			a.op([]byte{0x56, 0x57}[r.Intn(2)])
		case 15: // junk: any byte, or a PUSH truncated by the end of the code later on
			if r.Intn(3) == 0 {
				a.op(byte(r.U64()))
			} else {
				a.op(byte(0x60 + r.Intn(32)))
				for j := r.Intn(3); j > 0; j-- {
					a.op(byte(r.U64()))
				}
			}
			depth++
		}
		if depth < 0 {
			depth = 0
		}
	}
	switch r.Intn(9) {
	case 8: // PUSHn truncated by the end of the code (the missing bytes read as zeros)
		nb := 1 + r.Intn(32)
		a.op(byte(0x5f + nb))
		for j := r.Intn(nb); j > 0; j-- {
			a.op(byte(1 + r.Intn(255)))
		}
	case 0:
		a.op(0x00)
	case 1: // fall off the end
	case 2: // REVERT
		a.push(smallLen())
		a.push(smallOff())
		a.op(0xfd)
	case 3: // stack-limit loop: L: PUSH1 0 PUSH1 0 PUSH L JUMP
		id := nextLabel
		a.label(id)
		a.op(0x60, 0x00, 0x60, 0x00)
		a.pushLabel(id)
		a.op(0x56)
	default: // store the top of the stack and return the memory around it
		off := int64(r.Intn(64))
		if depth > 0 {
			a.pushN(off)
			a.op(0x52)
		}
		if r.Intn(4) > 0 {
			a.pushN(32 + int64(r.Intn(40)))
			a.pushN(off - int64(r.Intn(int(off)+1)))
		} else {
			a.push(smallLen())
			a.push(smallOff())
		}
		a.op(0xf3)
	}
	return a.finish()
}

func failClass(err error) string {
	c := errClass(err)
	if c == "other" && err != nil && strings.Contains(err.Error(), "gas uint64 overflow") {
		return "overflow"
	}
	if c == "other" && err != nil && strings.Contains(err.Error(), "return data out of bounds") {
		return "rdoob"
	}
	return c
}

func main() {
	run := hx.Start()
	rng := hx.NewRng(run.Seed)
	run.Watch(60*time.Second, 3<<30, func(cur string) string { return cur })
	e := newEnv()
	e.vr = run
	tSec := time.Now()
	lap := func(name string) {
		run.Notes["wall_"+name] = fmt.Sprintf("%.1fs", time.Since(tSec).Seconds())
		tSec = time.Now()
	}

	// ---- 1. single-op programs -----------------------------------------------------------------------------------
	doOp := func(ep epoch, op opDef, args []*big.Int) {
		var code []byte
		for i := len(args) - 1; i >= 0; i-- { // args[0] must end on top
			code = append(code, push32(args[i])...)
		}
		code = append(code, op.code)
		code = append(code, epilogue...)
		as := make([]string, len(args))
		for i, a := range args {
			as[i] = hexb(a)
		}
		line := "op " + ep.name + " " + ep.gt + " " + op.name + " " + strings.Join(as, " ")
		run.Current(line)
		out := hx.Safe(func() string {
			ret, left, err := e.run(ep.cfg, 0, code, nil, runGas, nil)
			if err != nil {
				c := errClass(err)
				if c != "invalid" {
					c = "other:" + c
				}
				return "err " + c
			}
			return "ok " + new(big.Int).SetBytes(ret).Text(16) + " " + fmt.Sprint(runGas-left)
		})
		run.Case(line, out)
		run.Count("op:" + op.name + ":" + strings.Fields(out)[0])
	}

	full := []*big.Int{}
	{
		seen := map[string]bool{}
		addv := func(v *big.Int) {
			if v.Sign() >= 0 && v.Cmp(two256) < 0 && !seen[v.String()] {
				seen[v.String()] = true
				full = append(full, v)
			}
		}
		for _, s := range []int64{0, 1, 2, 3, 7, 8, 15, 16, 30, 31, 32, 33, 63, 64, 65, 127, 128, 255, 256, 257, 511, 512} {
			addv(big.NewInt(s))
		}
		for _, k := range []uint{63, 64, 128, 255} {
			addv(add(pow2(k), -1))
			addv(pow2(k))
			addv(add(pow2(k), 1))
		}
		addv(add(two256, -2))
		addv(add(two256, -1))
		addv(bi("8000000000000000000000000000000000000000000000000000000000000080"))
		addv(bi("00000000000000000000000000000000000000000000000000000000ffff8000"))
		addv(bi("0102030405060708090a0b0c0d0e0f101112131415161718191a1b1c1d1e1f20"))
	}
	small := []*big.Int{big.NewInt(0), big.NewInt(1), big.NewInt(2), big.NewInt(31), big.NewInt(32), big.NewInt(255), big.NewInt(256), big.NewInt(257),
		add(pow2(64), -1), add(pow2(64), 1), add(pow2(255), -1), pow2(255), add(pow2(255), 1), add(two256, -1)}
	tern := small
	if run.Thorough() {
		tern = full
	}
	lattice := func(ep epoch, vals, tvals []*big.Int) {
		for _, op := range ops {
			switch op.arity {
			case 1:
				for _, a := range vals {
					doOp(ep, op, []*big.Int{a})
				}
			case 2:
				for _, a := range vals {
					for _, b := range vals {
						doOp(ep, op, []*big.Int{a, b})
					}
				}
			case 3:
				for _, a := range tvals {
					for _, b := range tvals {
						for _, c := range tvals {
							doOp(ep, op, []*big.Int{a, b, c})
						}
					}
				}
			}
		}
	}
	for i, ep := range epochs {
		if i == 0 {
			lattice(ep, full, tern)
		} else if run.Thorough() {
			lattice(ep, full, small)
		} else {
			lattice(ep, small, small[:8])
		}
	}
	run.Notes["lattice_full"] = len(full)
	run.Notes["lattice_small"] = len(small)

	randOperand := func(r *hx.Rng) *big.Int {
		switch r.Intn(10) {
		case 0:
			return big.NewInt(int64(r.Intn(600)))
		case 1:
			k := uint(r.Intn(257))
			return add(new(big.Int).Mod(pow2(k), two256), int64(r.Intn(5)-2))
		case 2:
			return full[r.Intn(len(full))]
		case 3: // few significant bytes at a random position
			b := make([]byte, 32)
			n := 1 + r.Intn(4)
			p := r.Intn(33 - n)
			copy(b[p:], r.Bytes(n))
			return new(big.Int).SetBytes(b)
		case 4: // negative small
			return add(two256, -int64(1+r.Intn(70000)))
		default:
			return new(big.Int).SetBytes(r.Bytes(32))
		}
	}
	nRand := 20000
	if run.Thorough() {
		nRand = 1000000
	}
	rr := rng.Fork(1)
	for i := 0; i < nRand; i++ {
		ep := epochs[0]
		if rr.Intn(4) == 0 {
			ep = epochs[rr.Intn(len(epochs))]
		}
		op := ops[rr.Intn(len(ops))]
		args := make([]*big.Int, op.arity)
		for j := range args {
			args[j] = randOperand(rr)
		}
		if op.arity >= 2 && rr.Intn(12) == 0 {
			args[1] = args[0]
		}
		if op.arity == 3 && rr.Intn(6) == 0 { // products/sums that exceed 2^256 with a large modulus
			args[2] = add(two256, -int64(1+rr.Intn(1000)))
		}
		doOp(ep, op, args)
	}

	lap("ops")
	// ---- 2. valid-opcode set and gas table selected per (config, height) -------------------------------------------
	probeSel := func(cfgName string, cfg *params.ChainConfig, h uint64) {
		line := fmt.Sprintf("sel %s %d", cfgName, h)
		run.Current(line)
		out := hx.Safe(func() string {
			var sb strings.Builder
			for i := 0; i < 64; i++ {
				nib := 0
				for j := 0; j < 4; j++ {
					_, _, err := e.run(cfg, h, []byte{byte(4*i + j)}, nil, runGas, nil)
					if errClass(err) != "invalid" {
						nib |= 8 >> uint(j)
					}
				}
				fmt.Fprintf(&sb, "%x", nib)
			}
			// EXP with a two-byte exponent: 3 + 3 + 10 + 2*ExpByte
			_, left, err := e.run(cfg, h, []byte{0x61, 0x01, 0x00, 0x60, 0x02, 0x0a, 0x00}, nil, runGas, nil)
			if err != nil {
				return sb.String() + " err"
			}
			return fmt.Sprintf("%s %d", sb.String(), (runGas-left-16)/2)
		})
		run.Case(line, out)
		run.Count("sel:" + cfgName)
	}
	builtin := []struct {
		name string
		cfg  *params.ChainConfig
	}{{"mainnet", params.MainnetChainConfig}, {"testnet", params.TestnetChainConfig}, {"testnet2", params.Testnet2ChainConfig},
		{"testnet3", params.Testnet3ChainConfig}, {"dev", params.AllAquahashProtocolChanges}, {"devclique", params.AllCliqueProtocolChanges},
		{"test", params.TestChainConfig}}
	for _, b := range builtin {
		hs := map[uint64]bool{0: true, 1: true, 1 << 40: true}
		addh := func(x *big.Int) {
			if x != nil {
				h := x.Uint64()
				hs[h], hs[h+1] = true, true
				if h > 0 {
					hs[h-1] = true
				}
			}
		}
		c := b.cfg
		for _, x := range []*big.Int{c.HomesteadBlock, c.EIP150Block, c.EIP155Block, c.EIP158Block, c.ByzantiumBlock, c.ConstantinopleBlock} {
			addh(x)
		}
		for _, x := range c.HF {
			addh(x)
		}
		var heights []uint64
		for h := range hs {
			heights = append(heights, h)
		}
		sort.Slice(heights, func(i, j int) bool { return heights[i] < heights[j] })
		for _, h := range heights {
			probeSel(b.name, c, h)
		}
		for i := 0; i < 6; i++ {
			probeSel(b.name, c, uint64(rng.Intn(60000)))
		}
	}
	// custom schedules: every order of the four forks at small heights, probed below/at/above each
	rs := rng.Fork(2)
	nSel := 60
	if run.Thorough() {
		nSel = 1500
	}
	for i := 0; i < nSel; i++ {
		pick := func() *big.Int {
			if rs.Intn(3) == 0 {
				return nil
			}
			return big.NewInt(int64(rs.Intn(6)))
		}
		hsb, bz, cs, h1, h5 := pick(), pick(), pick(), pick(), pick()
		cfg := mkCfg(hsb, bz, cs, h1, h5)
		spec := fmt.Sprintf("c:%s:%s:%s:%s:%s", o(hsb), o(bz), o(cs), o(h1), o(h5))
		for h := uint64(0); h <= 6; h++ {
			probeSel(spec, cfg, h)
		}
	}
	for _, ep := range epochs {
		probeSel(ep.spec, ep.cfg, 0)
	}

	lap("sel")
	// ---- 3. stack arity and stack limit of every opcode byte in every epoch (real interpreter, tracer) -------------
	seenEp := map[string]bool{}
	for _, ep := range epochs {
		if seenEp[ep.name] {
			continue
		}
		seenEp[ep.name] = true
		for b := 0; b < 256; b++ {
			line := fmt.Sprintf("arity %s %d", ep.name, b)
			run.Current(line)
			out := hx.Safe(func() string {
				for k := 0; k <= 18; k++ {
					var code []byte
					for i := 0; i < k; i++ {
						code = append(code, 0x60, 0x00)
					}
					code = append(code, byte(b), 0x5b)
					tr := &tracer{}
					_, _, err := e.run(ep.cfg, 0, code, nil, runGas, tr)
					c := errClass(err)
					if c == "invalid" {
						return "invalid"
					}
					if c == "underflow" && tr.faultPC == int64(2*k) {
						continue
					}
					// the op at step k executed (or failed for another reason); the next step shows the stack
					if len(tr.stackLens) > k+1 {
						return fmt.Sprintf("ok %d %d", k, tr.stackLens[k+1])
					}
					return fmt.Sprintf("ok %d -", k)
				}
				return "ok >18 -"
			})
			run.Case(line, out)
			run.Count("arity:" + strings.Fields(out)[0])
		}
	}

	lap("arity")
	// ---- 4. jump destinations ---------------------------------------------------------------------------------------
	rj := rng.Fork(3)
	genCode := func(r *hx.Rng) []byte {
		n := r.Intn(80)
		if r.Intn(8) == 0 {
			n = r.Intn(400)
		}
		code := make([]byte, n)
		for i := range code {
			switch r.Intn(6) {
			case 0:
				code[i] = 0x5b
			case 1:
				code[i] = byte(0x60 + r.Intn(32))
			case 2:
				code[i] = []byte{0x7f, 0x7e, 0x67, 0x68, 0x66, 0x60, 0x5f, 0x80}[r.Intn(8)]
			default:
				code[i] = byte(r.U64())
			}
		}
		return code
	}
	nJd := 3000
	if run.Thorough() {
		nJd = 60000
	}
	dests := func(r *hx.Rng, n int) []*big.Int {
		ds := []*big.Int{big.NewInt(int64(n)), big.NewInt(int64(n) + 1), add(pow2(63), -1), pow2(63), pow2(64), add(two256, -1)}
		if n > 0 {
			p := int64(r.Intn(n))
			ds = append(ds, big.NewInt(p), add(pow2(64), p), add(pow2(63), p), add(pow2(62), p), add(pow2(255), p))
		}
		return ds
	}
	for i := 0; i < nJd; i++ {
		code := genCode(rj)
		line := "jd " + hx.Hex(code)
		run.Current(line)
		out := hx.Safe(func() string {
			s := vm.VerifJumpdests(code)
			if s == "" {
				return "-"
			}
			return s
		})
		run.Case(line, out)
		if strings.Contains(out, "1") {
			run.Count("jd:has-valid")
		} else {
			run.Count("jd:none-valid")
		}
		if i%4 == 0 {
			for _, d := range dests(rj, len(code)) {
				l2 := "jdx " + hx.Hex(code) + " " + hexb(d)
				run.Current(l2)
				run.Case(l2, hx.Safe(func() string {
					if vm.VerifHasJumpdest(code, d) {
						return "1"
					}
					return "0"
				}))
				run.Count("jdx")
			}
		}
		if i%3 == 0 { // through the real interpreter: PUSH32 dest JUMP <code>
			ds := dests(rj, len(code)+34)
			d := ds[rj.Intn(len(ds))]
			if rj.Intn(2) == 0 && len(code) > 0 {
				d = big.NewInt(int64(34 + rj.Intn(len(code))))
			}
			l3 := "jump " + hx.Hex(code) + " " + hexb(d)
			run.Current(l3)
			out := hx.Safe(func() string {
				prog := append(append(push32(d), 0x56), code...)
				tr := &tracer{}
				_, _, err := e.run(epochs[0].cfg, 0, prog, nil, 100000, tr)
				if err != nil && tr.faultPC == 33 && errClass(err) == "badjump" {
					return "invalid"
				}
				if len(tr.pcs) >= 3 && tr.pcs[2] == d.Uint64() && d.IsUint64() {
					return "valid"
				}
				return "unknown:" + errClass(err)
			})
			run.Case(l3, out)
			run.Count("jump:" + out)
		}
	}

	lap("jumpdest")
	// ---- 5. pure gas functions through the accessors ---------------------------------------------------------------
	u64lat := []uint64{0, 1, 31, 32, 33, 63, 64, 65, 1023, 1024, 1025, 1 << 16, 1<<20 - 1, 1 << 20, 1<<20 + 1, 1 << 24, 1<<32 - 1, 1 << 32, 1<<32 + 1,
		0x1fffffffc0, 0x1fffffffdf, 0x1fffffffe0, 0x1fffffffe1, 0x2000000000, 0x2000000001, 0x3000000000, 0xffffffffc0, 0xffffffffe0, 0xffffffffe1, 0x10000000000,
		1 << 59, 1<<63 - 1, 1 << 63, 1<<64 - 33, 1<<64 - 32, 1<<64 - 31, 1<<64 - 2, 1<<64 - 1}
	cmem := func(words uint64) uint64 { return 3*words + words*words/512 }
	memLens := []uint64{0, 32, 64, 1024, 1 << 16, 1 << 20}
	gasOut := func(g uint64, err error) string {
		if err != nil {
			if vm.VerifIsGasUintOverflow(err) {
				return "overflow"
			}
			return "err:" + err.Error()
		}
		return fmt.Sprintf("ok %d", g)
	}
	doMemgas := func(memLen, newSize uint64) {
		last := cmem(memLen / 32)
		line := fmt.Sprintf("memgas %x %x %x", memLen, last, newSize)
		run.Current(line)
		out := hx.Safe(func() string {
			fee, nl, err := vm.VerifMemoryGasCost(memLen, last, newSize)
			if err != nil {
				return gasOut(0, err)
			}
			return fmt.Sprintf("ok %d %d", fee, nl)
		})
		run.Case(line, out)
		run.Count("memgas:" + strings.Fields(out)[0])
	}
	for _, ml := range memLens {
		for _, ns := range u64lat {
			doMemgas(ml, ns)
		}
	}
	rg := rng.Fork(4)
	randU64 := func(r *hx.Rng) uint64 {
		switch r.Intn(6) {
		case 0:
			return u64lat[r.Intn(len(u64lat))]
		case 1:
			return uint64(r.Intn(5000))
		case 2:
			return (uint64(1) << uint(r.Intn(64))) + uint64(r.Intn(65)) - 32
		case 3:
			return r.U64() >> uint(r.Intn(64))
		default:
			return r.U64() % (1 << 41)
		}
	}
	nG := 4000
	if run.Thorough() {
		nG = 100000
	}
	for i := 0; i < nG; i++ {
		doMemgas(memLens[rg.Intn(len(memLens))], randU64(rg))
	}
	for _, n := range u64lat {
		line := fmt.Sprintf("ws %x", n)
		run.Case(line, fmt.Sprint(vm.VerifToWordSize(n)))
	}
	for i := 0; i < nG/4; i++ {
		n := randU64(rg)
		run.Case(fmt.Sprintf("ws %x", n), fmt.Sprint(vm.VerifToWordSize(n)))
	}
	for _, a := range full {
		for _, b := range full {
			run.Case("ms "+hexb(a)+" "+hexb(b), hexb(vm.VerifCalcMemSize(a, b)))
		}
	}
	run.Count("ws+ms")

	// gas functions of the table: (kind, opcode, param, index of the operand from the top, stack depth)
	type gk struct {
		kind  string
		op    byte
		param uint64
		back  int
		depth int
	}
	gks := []gk{{"mload", 0x51, 0, -1, 1}, {"mstore", 0x52, 0, -1, 2}, {"mstore8", 0x53, 0, -1, 2}, {"sha3", 0x20, 0, 1, 2},
		{"cdcopy", 0x37, 0, 2, 3}, {"codecopy", 0x39, 0, 2, 3}, {"rdcopy", 0x3e, 0, 2, 3}, {"extcopy", 0x3c, 700, 3, 4},
		{"log", 0xa0, 0, 1, 2}, {"log", 0xa1, 1, 1, 3}, {"log", 0xa2, 2, 1, 4}, {"log", 0xa3, 3, 1, 5}, {"log", 0xa4, 4, 1, 6},
		{"create", 0xf0, 0, -1, 3}, {"return", 0xf3, 0, -1, 2}, {"revert", 0xfd, 0, -1, 2}, {"exp", 0x0a, 50, 1, 2}, {"exp", 0x0a, 10, 1, 2}}
	bigOperands := append([]*big.Int{}, full...)
	for _, n := range u64lat {
		bigOperands = append(bigOperands, new(big.Int).SetUint64(n))
	}
	doG := func(k gk, memLen, msz uint64, opnd *big.Int) {
		last := cmem(memLen / 32)
		line := fmt.Sprintf("g %s %d %x %x %x %s", k.kind, k.param, memLen, last, msz, hexb(opnd))
		run.Current(line)
		out := hx.Safe(func() string {
			st := make([]*big.Int, k.depth)
			for i := range st {
				st[i] = big.NewInt(int64(7 + i))
			}
			if k.back >= 0 {
				st[len(st)-1-k.back] = new(big.Int).Set(opnd)
			}
			gt := params.GasTableHF1
			if k.kind == "exp" {
				gt.ExpByte = k.param
			}
			if k.kind == "extcopy" {
				gt.ExtcodeCopy = k.param
			}
			return gasOut(vm.VerifGasFn(k.op, gt, st, memLen, last, msz))
		})
		run.Case(line, out)
		run.Count("g:" + k.kind + ":" + strings.Fields(out)[0])
	}
	for _, k := range gks {
		for _, o := range bigOperands {
			doG(k, 0, 0, o)
			if k.back < 0 {
				break
			}
		}
		for _, ms := range u64lat {
			if ms%32 == 0 { // the interpreter only passes word-rounded sizes
				doG(k, 64, ms, big.NewInt(33))
			}
		}
	}
	for i := 0; i < nG; i++ {
		k := gks[rg.Intn(len(gks))]
		ms := randU64(rg) / 32 * 32
		var opnd *big.Int
		switch rg.Intn(4) {
		case 0:
			opnd = bigOperands[rg.Intn(len(bigOperands))]
		case 1:
			opnd = new(big.Int).SetBytes(rg.Bytes(32))
		default:
			opnd = new(big.Int).SetUint64(randU64(rg))
		}
		doG(k, memLens[rg.Intn(len(memLens))], ms, opnd)
	}
	// callGas
	doCG := func(cbs, avail, base uint64, cost *big.Int) {
		line := fmt.Sprintf("callgas %x %x %x %s", cbs, avail, base, hexb(cost))
		run.Current(line)
		gt := params.GasTableHF1
		gt.CreateBySuicide = cbs
		run.Case(line, hx.Safe(func() string { return gasOut(vm.VerifCallGas(gt, avail, base, cost)) }))
		run.Count("callgas")
	}
	cgl := []uint64{0, 1, 63, 64, 65, 127, 128, 700, 25000, 1 << 32, 1<<63 - 1, 1 << 63, 1<<64 - 1}
	for _, cbs := range []uint64{0, 25000} {
		for _, av := range cgl {
			for _, ba := range cgl {
				for _, co := range []*big.Int{big.NewInt(0), big.NewInt(1), big.NewInt(64), big.NewInt(700), add(pow2(64), -1), pow2(64), add(two256, -1)} {
					doCG(cbs, av, ba, co)
				}
			}
		}
	}
	for i := 0; i < nG; i++ {
		av := randU64(rg)
		ba := randU64(rg)
		if rg.Intn(3) > 0 && av > 0 {
			ba = ba % av
		}
		var co *big.Int
		if rg.Intn(3) == 0 {
			co = new(big.Int).SetBytes(rg.Bytes(1 + rg.Intn(32)))
		} else {
			co = new(big.Int).SetUint64(randU64(rg))
		}
		doCG([]uint64{0, 25000, 1}[rg.Intn(3)], av, ba, co)
	}

	lap("gas")
	// ---- 6. whole programs over the modelled opcode subset --------------------------------------------------------
	rp := rng.Fork(5)
	nProg := 6000
	if run.Thorough() {
		nProg = 120000
	}
	for i := 0; i < nProg; i++ {
		ep := epochs[0]
		if rp.Intn(3) == 0 {
			ep = epochs[rp.Intn(len(epochs))]
		}
		code := genProgram(rp, randOperand)
		input := rp.Bytes(rp.Intn(80))
		gas := uint64(100000)
		switch rp.Intn(5) {
		case 0:
			gas = uint64(rp.Intn(400))
		case 1:
			gas = uint64(rp.Intn(4000))
		}
		line := fmt.Sprintf("prog %s %s %d %s %s", ep.name, ep.gt, gas, hx.Hex(code), hx.Hex(input))
		run.Current(line)
		out := hx.Safe(func() string {
			tr := &tracer{keepStack: true}
			ret, left, err := e.run(ep.cfg, 0, code, input, gas, tr)
			digest := fmt.Sprintf("d%d:%s", tr.lastDepth, strings.Join(tr.lastStack, ","))
			if err != nil {
				if strings.Contains(err.Error(), "execution reverted") {
					return fmt.Sprintf("revert %s %d %s", hx.Hex(ret), left, digest)
				}
				return "fail " + failClass(err)
			}
			return fmt.Sprintf("ok %s %d %s", hx.Hex(ret), left, digest)
		})
		run.Case(line, out)
		f := strings.Fields(out)
		if f[0] == "fail" {
			run.Count("prog:fail:" + f[1])
		} else {
			run.Count("prog:" + f[0])
		}
	}
	lap("prog")
	// ---- 7. per-op boundary lattices for the data-movement / control-flow opcodes ------------------------------------
	// each case is a tiny directed program judged like section 6 (return data, gas left, stack digest); the op under test is
	// counted under dop:<NAME>
	emit := func(tag string, ep epoch, gas uint64, code, input []byte) {
		line := fmt.Sprintf("prog %s %s %d %s %s", ep.name, ep.gt, gas, hx.Hex(code), hx.Hex(input))
		run.Current(line)
		out := hx.Safe(func() string {
			tr := &tracer{keepStack: true}
			ret, left, err := e.run(ep.cfg, 0, code, input, gas, tr)
			digest := fmt.Sprintf("d%d:%s", tr.lastDepth, strings.Join(tr.lastStack, ","))
			if err != nil {
				if strings.Contains(err.Error(), "execution reverted") {
					return fmt.Sprintf("revert %s %d %s", hx.Hex(ret), left, digest)
				}
				return "fail " + failClass(err)
			}
			return fmt.Sprintf("ok %s %d %s", hx.Hex(ret), left, digest)
		})
		run.Case(line, out)
		run.Count("dop:" + tag + ":" + strings.Fields(out)[0])
	}
	ep0 := epochs[0]
	offs := []*big.Int{big.NewInt(0), big.NewInt(1), big.NewInt(31), big.NewInt(32), big.NewInt(33), big.NewInt(63), big.NewInt(64), big.NewInt(65),
		big.NewInt(1000), pow2(16), pow2(20), pow2(32), add(pow2(63), -1), add(pow2(64), -32), add(pow2(64), -1), pow2(64), add(pow2(64), 1), pow2(255), add(two256, -1)}
	lens := []*big.Int{big.NewInt(0), big.NewInt(1), big.NewInt(31), big.NewInt(32), big.NewInt(33), big.NewInt(64), big.NewInt(100), pow2(16), add(pow2(64), -1), pow2(64), add(two256, -1)}
	datas := [][]byte{nil, {0xaa}, rng.Bytes(31), rng.Bytes(32), rng.Bytes(33), rng.Bytes(64), rng.Bytes(70)}
	retTail := func(a *asm, n int64) { a.pushN(n); a.pushN(0); a.op(0xf3) }
	for _, d := range datas {
		dl := int64(len(d))
		cdOffs := append([]*big.Int{big.NewInt(dl - 1), big.NewInt(dl), big.NewInt(dl + 1), big.NewInt(dl - 32), big.NewInt(dl - 31)}, offs...)
		for _, o := range cdOffs {
			if o.Sign() < 0 {
				continue
			}
			a := newAsm() // CALLDATALOAD
			a.push(o)
			a.op(0x35)
			a.pushN(0)
			a.op(0x52)
			retTail(a, 32)
			emit("CALLDATALOAD", ep0, 100000, a.finish(), d)
			for _, l := range lens {
				for _, mo := range []int64{0, 1, 33} {
					a := newAsm() // CALLDATACOPY mo o l ; RETURN 0..160
					a.push(l)
					a.push(o)
					a.pushN(mo)
					a.op(0x37)
					a.op(0x59) // MSIZE
					retTail(a, 160)
					emit("CALLDATACOPY", ep0, 100000, a.finish(), d)
				}
			}
		}
	}
	for _, o := range offs {
		for _, l := range lens {
			a := newAsm() // CODECOPY 5 o l
			a.push(l)
			a.push(o)
			a.pushN(5)
			a.op(0x39)
			a.op(0x38, 0x59)
			retTail(a, 128)
			emit("CODECOPY", ep0, 100000, a.finish(), nil)
			a = newAsm() // SHA3 over freshly written memory
			a.push(bi("0102030405060708090a0b0c0d0e0f101112131415161718191a1b1c1d1e1f20"))
			a.pushN(7)
			a.op(0x52)
			a.push(l)
			a.push(o)
			a.op(0x20)
			a.op(0x59)
			emit("SHA3", ep0, 200000, a.finish(), nil)
			for _, hop := range []byte{0xf3, 0xfd} { // RETURN / REVERT (o, l) after an MSTORE
				a = newAsm()
				a.push(add(two256, -7))
				a.pushN(3)
				a.op(0x52)
				a.push(l)
				a.push(o)
				a.op(hop)
				emit(map[byte]string{0xf3: "RETURN", 0xfd: "REVERT"}[hop], ep0, 100000, a.finish(), nil)
			}
			for _, mo := range []int64{0, 40} { // RETURNDATACOPY with the (empty) buffer of a frame that made no call
				a = newAsm()
				a.push(l)
				a.push(o)
				a.pushN(mo)
				a.op(0x3e, 0x3d, 0x59)
				emit("RETURNDATACOPY", ep0, 100000, a.finish(), nil)
			}
		}
		for _, v := range []*big.Int{big.NewInt(0), big.NewInt(0x1ff), pow2(255), add(two256, -1), bi("0102030405060708090a0b0c0d0e0f101112131415161718191a1b1c1d1e1f20")} {
			for _, g := range []uint64{100000, 2000000} {
				a := newAsm() // MSTORE / MSTORE8 / MLOAD / MSIZE at offset o
				a.push(v)
				a.push(o)
				a.op(0x52)
				a.push(v)
				a.push(add(o, 3))
				a.op(0x53)
				a.push(o)
				a.op(0x51)
				a.op(0x59)
				a.pushN(0)
				a.op(0x52)
				retTail(a, 64)
				emit("MSTORE/MSTORE8/MLOAD", ep0, g, a.finish(), nil)
				a = newAsm()
				a.push(o)
				a.op(0x51, 0x59, 0x5a)
				emit("MLOAD", ep0, g, a.finish(), nil)
			}
		}
	}
	for n := 1; n <= 16; n++ { // DUPn / SWAPn with exactly enough, one too few, and plenty of stack
		for _, have := range []int{n - 1, n, n + 1, 20} {
			for _, opb := range []byte{byte(0x7f + n), byte(0x8f + n)} {
				a := newAsm()
				for i := 0; i < have; i++ {
					a.pushN(int64(100 + i))
				}
				a.op(opb)
				a.pushN(0)
				a.op(0x52)
				retTail(a, 32)
				name := "DUP"
				if opb >= 0x90 {
					name = "SWAP"
				}
				emit(name, ep0, 100000, a.finish(), nil)
			}
		}
	}
	for n := 1; n <= 32; n++ { // PUSHn complete, truncated by the end of the code, and followed by code
		data := rng.Bytes(n)
		data[0] |= 1
		for _, k := range []int{0, 1, n / 2, n - 1, n} {
			if k < 0 || k > n {
				continue
			}
			code := append([]byte{byte(0x5f + n)}, data[:k]...)
			emit("PUSH", ep0, 100000, code, nil)
		}
		a := newAsm()
		a.op(byte(0x5f + n))
		a.op(data...)
		a.op(0x58, 0x50, 0x60, 0x00, 0x52)
		retTail(a, 32)
		emit("PUSH", ep0, 100000, a.finish(), nil)
	}
	for _, d := range append(offs, big.NewInt(4), big.NewInt(5), big.NewInt(36), big.NewInt(37), big.NewInt(38), big.NewInt(70)) { // JUMP / JUMPI / PC / JUMPDEST / GAS
		for _, cond := range []*big.Int{nil, big.NewInt(0), big.NewInt(1), pow2(255)} {
			a := newAsm()
			if cond != nil {
				a.push(cond)
			}
			a.push32(d) // keeps the layout independent of d
			if cond != nil {
				a.op(0x57)
			} else {
				a.op(0x56)
			}
			a.op(0x58, 0x5b, 0x7f) // PC JUMPDEST PUSH32 <31 bytes + a JUMPDEST inside the data> ...
			for i := 0; i < 31; i++ {
				a.op(0x5b)
			}
			a.op(0x5b, 0x5b, 0x58, 0x5a, 0x50, 0x60, 0x00, 0x52)
			retTail(a, 32)
			emit("JUMP/JUMPI/PC/JUMPDEST/GAS", ep0, 100000, a.finish(), nil)
		}
	}
	for _, k := range []int{1021, 1022, 1023, 1024} { // the stack limit: k items, then one instruction of every (pops, pushes) shape
		for _, opb := range []byte{0x01, 0x08, 0x15, 0x50, 0x52, 0x58, 0x5b, 0x60, 0x80, 0x8f, 0x90, 0x9f, 0x35, 0x37} {
			a := newAsm()
			a.pushN(1)
			for i := 1; i < k; i++ {
				a.op(0x80)
			}
			a.op(opb)
			if opb == 0x60 {
				a.op(0x07)
			}
			a.op(0x00)
			emit("stacklimit", ep0, 100000, a.finish(), nil)
		}
	}
	for _, ep := range epochs[1:] { // a few of each in the other epochs (validity of REVERT / RETURNDATA* differs)
		for _, opb := range []byte{0x3d, 0x3e, 0xfd, 0x35, 0x37, 0x39, 0x51, 0x52, 0x53, 0x56, 0x57, 0x58, 0x59, 0x5a, 0x5b, 0x50, 0x80, 0x90, 0x60, 0x7f, 0x20, 0xf3} {
			a := newAsm()
			a.pushN(0)
			a.pushN(0)
			a.pushN(0)
			a.op(opb)
			a.op(0x00)
			emit("epochs", ep, 100000, a.finish(), []byte{1, 2, 3})
		}
	}
	// RETURNDATACOPY with a non-empty return-data buffer and getDataBig, through the accessors
	for _, rl := range []int{0, 1, 32, 33, 64} {
		ret := rng.Bytes(rl)
		for i := range ret {
			ret[i] |= 1
		}
		dofs := append([]*big.Int{big.NewInt(int64(rl) - 1), big.NewInt(int64(rl)), big.NewInt(int64(rl) + 1)}, offs...)
		for _, dof := range dofs {
			if dof.Sign() < 0 {
				continue
			}
			for _, l := range []*big.Int{big.NewInt(0), big.NewInt(1), big.NewInt(31), big.NewInt(32), big.NewInt(33), big.NewInt(int64(rl)), big.NewInt(64), add(pow2(64), -1), pow2(64), add(two256, -1)} {
				for _, mo := range []int64{0, 5, 32} {
					memLen := uint64(0)
					if l.Sign() != 0 && l.IsUint64() && l.Uint64() < 4096 { // what the prologue would have grown the memory to
						memLen = (uint64(mo) + l.Uint64() + 31) / 32 * 32
					} else if l.Sign() != 0 {
						continue // unpayable request: never reaches the instruction body
					}
					line := fmt.Sprintf("rdc %s %d %x %s %s", hx.Hex(ret), memLen, mo, hexb(dof), hexb(l))
					run.Current(line)
					run.Case(line, hx.Safe(func() string {
						m, err := vm.VerifReturnDataCopy(ret, memLen, big.NewInt(mo), dof, l)
						if err != nil {
							if vm.VerifIsReturnDataOOB(err) {
								return "oob"
							}
							return "err:" + err.Error()
						}
						return "ok " + hx.Hex(m)
					}))
					run.Count("rdc")
				}
			}
		}
		for _, st := range dofs {
			if st.Sign() < 0 {
				continue
			}
			for _, sz := range []int64{0, 1, 31, 32, 33, 64, 100} {
				line := fmt.Sprintf("gdb %s %s %x", hx.Hex(ret), hexb(st), sz)
				run.Case(line, hx.Hex(vm.VerifGetDataBig(ret, st, big.NewInt(sz))))
				run.Count("gdb")
			}
		}
	}
	lap("dop")
	// ---- 8. live results against integer-pool traffic --------------------------------------------------------------------
	// the result of every computational opcode stays on the stack while 2–4 pool-consuming instructions (PUSH, DUP, PC, MSIZE, ADD)
	// run, then everything is combined and returned: a result that aliases a pooled big.Int is overwritten before it is read.
	fast := []*big.Int{big.NewInt(0), big.NewInt(1), big.NewInt(2), big.NewInt(3), big.NewInt(31), big.NewInt(32), big.NewInt(255), big.NewInt(256),
		pow2(255), add(two256, -1), new(big.Int).SetBytes(rng.Bytes(32))}
	tails := [][]byte{
		{0x60, 0x02, 0x60, 0x03, 0x01, 0x01},                         // PUSH1 2 PUSH1 3 ADD ADD
		{0x58, 0x59, 0x80, 0x01, 0x01, 0x01},                         // PC MSIZE DUP1 ADD ADD ADD
		{0x60, 0x07, 0x80, 0x58, 0x59, 0x01, 0x01, 0x01, 0x18},       // PUSH1 7 DUP1 PC MSIZE ADD ADD ADD XOR
		{0x80, 0x60, 0x05, 0x60, 0x09, 0x02, 0x01, 0x18},             // DUP1 PUSH1 5 PUSH1 9 MUL ADD XOR
		{0x61, 0x01, 0x00, 0x58, 0x5a, 0x50, 0x03, 0x90, 0x03},       // PUSH2 256 PC GAS POP SUB SWAP1 SUB
	}
	nLive := 0
	doLive := func(op opDef, args []*big.Int) {
		a := newAsm()
		for i := len(args) - 1; i >= 0; i-- {
			a.push(args[i])
		}
		a.op(op.code)
		a.op(tails[nLive%len(tails)]...)
		nLive++
		a.pushN(0)
		a.op(0x52)
		retTail(a, 32)
		emit("live:"+op.name, ep0, 100000, a.finish(), nil)
	}
	for _, op := range ops {
		switch op.arity {
		case 1:
			for _, x := range fast {
				doLive(op, []*big.Int{x})
				doLive(op, []*big.Int{x})
			}
		case 2:
			for _, x := range fast {
				for _, y := range fast {
					doLive(op, []*big.Int{x, y})
					doLive(op, []*big.Int{x, y})
				}
			}
		case 3:
			for _, x := range fast[:4] {
				for _, y := range fast[:4] {
					for _, z := range []*big.Int{big.NewInt(0), big.NewInt(1), big.NewInt(2), add(two256, -1)} {
						doLive(op, []*big.Int{x, y, z})
					}
				}
			}
		}
	}
	lap("live")
	// ---- 9. call trees: a factory CREATEs several init codes and CALLs the deployed codes; every child frame is judged on its
	// own code by the Spec interpreter (jump destinations of one code must not depend on another code of the same tree) ----
	rt := rng.Fork(7)
	jumpLayout := func(r *hx.Rng, a *asm, tail func(a *asm)) {
		// PUSH2 <target> JUMP <layout of JUMPDESTs and PUSHn whose data contains 0x5b bytes> JUMPDEST <tail>
		start := len(a.code)
		a.op(0x61, 0, 0, 0x56)
		L := 12 + r.Intn(16)
		var cand []int
		for len(a.code)-start-4 < L {
			switch r.Intn(3) {
			case 0:
				cand = append(cand, len(a.code))
				a.op(0x5b)
			default:
				n := 1 + r.Intn(5)
				a.op(byte(0x5f + n))
				for j := 0; j < n; j++ {
					if r.Intn(2) == 0 {
						cand = append(cand, len(a.code))
						a.op(0x5b)
					} else {
						a.op(byte(1 + r.Intn(0x50)))
					}
				}
			}
		}
		cand = append(cand, len(a.code))
		a.op(0x5b) // landing
		t := cand[r.Intn(len(cand))]
		a.code[start+1], a.code[start+2] = byte(t>>8), byte(t)
		tail(a)
	}
	mkRuntime := func(r *hx.Rng) []byte {
		a := newAsm()
		jumpLayout(r, a, func(a *asm) {
			a.op(0x58) // PC
			a.pushN(0)
			a.op(0x52)
			retTail(a, 32)
		})
		return a.finish()
	}
	mkInit := func(r *hx.Rng, runtime []byte) []byte {
		a := newAsm()
		jumpLayout(r, a, func(a *asm) {
			// CODECOPY(0, <runtime offset>, len) ; RETURN(0, len)
			a.pushN(int64(len(runtime)))
			a.op(0x61, 0, 0) // patched below
			fix := len(a.code) - 2
			a.pushN(0)
			a.op(0x39)
			a.pushN(int64(len(runtime)))
			a.pushN(0)
			a.op(0xf3)
			off := len(a.code)
			a.code[fix], a.code[fix+1] = byte(off>>8), byte(off)
			a.op(runtime...)
		})
		return a.finish()
	}
	nTree := 120
	if run.Thorough() {
		nTree = 4000
	}
	for i := 0; i < nTree; i++ {
		k := 2 + rt.Intn(2)
		inits := make([][]byte, k)
		for j := range inits {
			inits[j] = mkInit(rt, mkRuntime(rt))
		}
		for order := 0; order < 2; order++ { // the same init codes in both orders
			seq := inits
			if order == 1 {
				seq = make([][]byte, k)
				for j := range inits {
					seq[j] = inits[k-1-j]
				}
			}
			var input []byte
			fa := newAsm()
			for _, ic := range seq {
				// CALLDATACOPY(0, off, len); CREATE(0, 0, len); then CALL(gas, addr, 0, 0, 0, 0, 0); POP
				fa.pushN(int64(len(ic)))
				fa.pushN(int64(len(input)))
				fa.pushN(0)
				fa.op(0x37)
				fa.pushN(int64(len(ic)))
				fa.pushN(0)
				fa.pushN(0)
				fa.op(0xf0)
				fa.pushN(0)
				fa.pushN(0)
				fa.pushN(0)
				fa.pushN(0)
				fa.pushN(0)
				fa.op(0x85, 0x5a, 0xf1, 0x50, 0x50) // DUP6 GAS CALL POP POP
				input = append(input, ic...)
			}
			fa.op(0x00)
			factory := fa.finish()
			tr := &tracer{keepFrames: true}
			run.Current("tree " + hx.Hex(factory) + " " + hx.Hex(input))
			hx.Safe(func() string {
				e.run(ep0.cfg, 0, factory, input, 3000000000, tr)
				return ""
			})
			for idx, f := range tr.frames {
				line := fmt.Sprintf("frame %s %s %d %s %s %s %s %d %s %s", ep0.name, ep0.gt, f.gasEntry, hx.Hex(f.code), hx.Hex(f.input),
					hex.EncodeToString(f.addr[:]), hex.EncodeToString(f.caller[:]), idx, hx.Hex(factory), hx.Hex(input))
				var out string
				digest := fmt.Sprintf("d%d:%s", f.depth, strings.Join(f.top, ","))
				switch {
				case f.fault != "":
					out = "fail " + f.fault
				case f.lastOp == vm.REVERT:
					out = fmt.Sprintf("revert %s %d %s", hx.Hex(f.ret), f.lastGas-f.lastCost, digest)
				case f.lastOp == vm.RETURN || f.lastOp == vm.STOP:
					out = fmt.Sprintf("ok %s %d %s", hx.Hex(f.ret), f.lastGas-f.lastCost, digest)
				default:
					out = "unfinished " + f.lastOp.String()
				}
				run.Case(line, out)
				run.Count("frame:" + strings.Fields(out)[0])
			}
			run.Count(fmt.Sprintf("tree:frames=%d", len(tr.frames)))
		}
	}
	lap("tree")
	// ---- 10. environment words against integer-pool recycling: <pusher> <consumer> <pushes that take recycled words> <pusher again> ----
	pushers := []struct {
		name string
		code []byte
	}{{"CALLVALUE", []byte{0x34}}, {"GASPRICE", []byte{0x3a}}, {"NUMBER", []byte{0x43}}, {"TIMESTAMP", []byte{0x42}}, {"DIFFICULTY", []byte{0x44}},
		{"GASLIMIT", []byte{0x45}}, {"BALANCE", []byte{0x30, 0x31}}, {"ADDRESS", []byte{0x30}}, {"CALLER", []byte{0x33}}, {"ORIGIN", []byte{0x32}},
		{"COINBASE", []byte{0x41}}, {"CALLDATASIZE", []byte{0x36}}, {"CALLDATALOAD", []byte{0x60, 0x00, 0x35}}, {"CODESIZE", []byte{0x38}},
		{"MSIZE", []byte{0x59}}, {"PC", []byte{0x58}}, {"GAS", []byte{0x5a}}}
	consumers := [][]byte{
		{0x50},                   // POP
		{0x60, 0x05, 0x01},       // PUSH1 5 ADD
		{0x15},                   // ISZERO
		{0x60, 0x00, 0x55},       // PUSH1 0 SSTORE
		{0x60, 0x00, 0x52},       // PUSH1 0 MSTORE
		{0x80, 0x02},             // DUP1 MUL
		{0x60, 0x03, 0x90, 0x03}, // PUSH1 3 SWAP1 SUB
		{0x60, 0x01, 0x1b},       // PUSH1 1 SHL
		{0x19, 0x50},             // NOT POP
	}
	refills := [][]byte{
		{0x60, 0x09, 0x60, 0x21},             // PUSH1 9 PUSH1 0x21
		{0x58, 0x59, 0x61, 0x12, 0x34},       // PC MSIZE PUSH2 0x1234
		{0x60, 0x07, 0x80, 0x80},             // PUSH1 7 DUP1 DUP1
		{0x36, 0x38, 0x60, 0x2a, 0x60, 0x2b}, // CALLDATASIZE CODESIZE PUSH1 42 PUSH1 43
	}
	for _, ep := range []epoch{epochs[0], epochs[3]} {
		for _, pu := range pushers {
			for _, co := range consumers {
				for _, rf := range refills {
					a := newAsm()
					a.op(pu.code...)
					a.op(co...)
					a.op(rf...)
					a.op(pu.code...) // read the same environment word again, after recycled words were handed out
					a.pushN(0)
					a.op(0x52)
					retTail(a, 32)
					emit("env:"+pu.name, ep, 100000, a.finish(), []byte{0xca, 0xfe, 0xba, 0xbe})
				}
			}
		}
	}
	lap("env")
	run.Finish()
}

// c06: correspondence harness for transaction application (property C06). Drives the real core.ApplyMessage,
// core.ApplyTransaction, StateProcessor.Process, core.IntrinsicGas, core.GasPool and (a few) BlockChain.InsertChain in-process.
//
// Case kinds written for the Lean model (lean/Driver/C06.lean):
//
//	ig   IntrinsicGas(data, creation, homestead)
//	gp   a GasPool AddGas/SubGas script (incl. the overflow panic)
//	msg  one ApplyMessage on a generated (sender state x message x callee behaviour); the model receives what the EVM was
//	     observed to leave behind at depth 0 (gas left, error class, refund counter, balances/nonces of the tracked accounts)
//	     and must reproduce the result, the pool and the tracked balances/nonces
//	blk  one block through ApplyTransaction step by step (and through Process on an identical world, compared); the model
//	     must reproduce receipts, cumulative gas, pool and — for blocks with an invalid transaction — the error
//
// Independently of the model the property is judged directly on the real code (J1..J10 below, `run.Violate`).
package main

import (
	"bytes"
	"context"
	"fmt"
	"math/big"
	"os"
	"strings"
	"time"

	"gitlab.com/aquachain/aquachain/aquadb"
	"gitlab.com/aquachain/aquachain/common"
	"gitlab.com/aquachain/aquachain/consensus/aquahash"
	"gitlab.com/aquachain/aquachain/core"
	"gitlab.com/aquachain/aquachain/core/state"
	"gitlab.com/aquachain/aquachain/core/types"
	"gitlab.com/aquachain/aquachain/core/vm"
	"gitlab.com/aquachain/aquachain/crypto"
	"gitlab.com/aquachain/aquachain/params"
	"gitlab.com/aquachain/aquachain/rlp"
	"verifharness/hx"
	"verifharness/txlib"
)

var (
	run     *hx.Run
	keys    [3]txlib.Key
	cbAddr  = txlib.AddrN(0xcb0000)
	other   = txlib.AddrN(0x07e400) // an existing externally owned account nobody signs for
	emptyA  = txlib.AddrN(0xe00000) // a pre-existing EMPTY account (only pre-EIP158 worlds)
	calleeA = txlib.AddrN(0xc0de00)
	helperA = txlib.AddrN(0xc0de01)
	big0    = new(big.Int)
)

const (
	sigRefundBelowIntrinsic = "gasUsed<intrinsic:explained-by-refund(consumed>=intrinsic,refund<=consumed/2)"
	sigToCreatedOutside     = "failed-call-leaves-empty-recipient:StateTransition.to()-creates-the-account-outside-the-EVM-snapshot(pre-EIP158)"
	sigFrontierCodeStore    = "frontier-code-store-out-of-gas-is-reported-failed-but-not-reverted"
)

func bi(x uint64) *big.Int { return new(big.Int).SetUint64(x) }

// ---------------------------------------------------------------------------------------------------------------------
// callee behaviours

type behaviour struct {
	name     string
	code     []byte            // runtime code installed at calleeA (calls) or used as init code (creations)
	storage  map[uint64]uint64 // initial storage of the callee
	balance  *big.Int          // initial balance of the callee
	touches  bool              // the EVM may move value to/from tracked accounts beyond the top-level transfer
	wantFail bool              // expected to fail (when gas suffices to reach the failing instruction)
	helper   []byte            // code installed at helperA
}

func pushes(a *txlib.Asm, vs ...uint64) *txlib.Asm {
	for _, v := range vs {
		a.PushU(v)
	}
	return a
}

// callTo appends CALL(gas, to, value, 0,0,0,0) and POPs the result.
func callTo(a *txlib.Asm, to common.Address, value uint64, gas uint64) *txlib.Asm {
	pushes(a, 0, 0, 0, 0)
	a.PushU(value).PushAddr(to).PushU(gas).Op(txlib.CALL, txlib.POP)
	return a
}

func behaviours(r *hx.Rng, rules txlib.Rules, sender, coinbase common.Address) []behaviour {
	var out []behaviour
	add := func(b behaviour) { out = append(out, b) }
	add(behaviour{name: "stop", code: []byte{txlib.STOP}})
	add(behaviour{name: "nocode", code: nil})
	add(behaviour{name: "revert", code: new(txlib.Asm).PushU(0).PushU(0).Op(txlib.REVERT).Bytes(), wantFail: true})
	add(behaviour{name: "oog-loop", code: new(txlib.Asm).Op(txlib.JUMPDEST).PushU(0).Op(txlib.JUMP).Bytes(), wantFail: true})
	add(behaviour{name: "invalid", code: []byte{txlib.INVALID}, wantFail: true})
	add(behaviour{name: "stack-underflow", code: []byte{txlib.ADD}, wantFail: true})
	// SSTORE-clearing: n slots preset to 1 are zeroed (refund 15000 each), then `pad` JUMPDESTs
	n := 1 + r.Intn(3)
	pad := r.Intn(4)
	{
		a := new(txlib.Asm)
		st := map[uint64]uint64{}
		for i := 0; i < n; i++ {
			a.PushU(0).PushU(uint64(i)).Op(txlib.SSTORE)
			st[uint64(i)] = 1
		}
		for i := 0; i < pad; i++ {
			a.Op(txlib.JUMPDEST)
		}
		a.Op(txlib.STOP)
		add(behaviour{name: fmt.Sprintf("sstore-clear%d", n), code: a.Bytes(), storage: st})
	}
	// success with effects: SSTORE + LOG0
	add(behaviour{name: "store-log", code: new(txlib.Asm).PushU(7).PushU(1).Op(txlib.SSTORE).PushU(0).PushU(0).Op(txlib.LOG0, txlib.STOP).Bytes()})
	// failure after partial effects: SSTORE, LOG0, value transfer to `other`, CREATE-less; then INVALID or REVERT
	for _, tail := range []byte{txlib.INVALID, txlib.REVERT} {
		a := new(txlib.Asm).PushU(7).PushU(1).Op(txlib.SSTORE).PushU(0).PushU(0).Op(txlib.LOG0)
		callTo(a, other, 3, 30000)
		callTo(a, sender, 2, 30000)
		callTo(a, coinbase, 1, 30000)
		a.PushU(0).PushU(0).Op(tail)
		nm := "partial-then-invalid"
		if tail == txlib.REVERT {
			nm = "partial-then-revert"
		}
		add(behaviour{name: nm, code: a.Bytes(), balance: bi(1000), wantFail: true})
	}
	// self-destruct to: other / sender / coinbase / self / a new account
	for i, ben := range []common.Address{other, sender, coinbase, calleeA, txlib.AddrN(0x5e1f00)} {
		a := new(txlib.Asm).PushAddr(ben).Op(txlib.SELFDESTRUCT)
		add(behaviour{name: []string{"suicide-other", "suicide-sender", "suicide-coinbase", "suicide-self", "suicide-new"}[i], code: a.Bytes(),
			balance: bi(uint64(r.Intn(3)) * 500), touches: true})
	}
	// the callee pays the sender / the coinbase (the EVM's own effect on the accounts the fee machinery also writes)
	add(behaviour{name: "pay-sender", code: callTo(new(txlib.Asm), sender, 5, 30000).Op(txlib.STOP).Bytes(), balance: bi(100), touches: true})
	add(behaviour{name: "pay-coinbase", code: callTo(new(txlib.Asm), coinbase, 5, 30000).Op(txlib.STOP).Bytes(), balance: bi(100), touches: true})
	// nested: the callee calls a helper that fails after writing; the callee itself succeeds
	{
		h := new(txlib.Asm).PushU(9).PushU(2).Op(txlib.SSTORE).Op(txlib.INVALID).Bytes()
		a := callTo(new(txlib.Asm), helperA, 1, 40000).PushU(5).PushU(3).Op(txlib.SSTORE, txlib.STOP)
		add(behaviour{name: "inner-fail-outer-ok", code: a.Bytes(), helper: h, balance: bi(10)})
	}
	return out
}

// init codes for contract creation
func initCodes(r *hx.Rng, sender, coinbase common.Address) []behaviour {
	var out []behaviour
	add := func(b behaviour) { out = append(out, b) }
	ret := func(n uint64) []byte { return new(txlib.Asm).PushU(n).PushU(0).Op(txlib.RETURN).Bytes() }
	add(behaviour{name: "create-empty-code", code: []byte{txlib.STOP}})
	add(behaviour{name: "create-1byte", code: ret(1)})
	add(behaviour{name: "create-noinit", code: nil})
	add(behaviour{name: "create-100bytes", code: ret(100)})
	add(behaviour{name: "create-big", code: ret(uint64(2000 + r.Intn(3000)))})
	add(behaviour{name: "create-over-maxcode", code: ret(params.MaxCodeSize + 1), wantFail: true})
	add(behaviour{name: "create-revert", code: new(txlib.Asm).PushU(0).PushU(0).Op(txlib.REVERT).Bytes(), wantFail: true})
	add(behaviour{name: "create-invalid", code: new(txlib.Asm).PushU(7).PushU(1).Op(txlib.SSTORE, txlib.INVALID).Bytes(), wantFail: true})
	add(behaviour{name: "create-oog", code: new(txlib.Asm).Op(txlib.JUMPDEST).PushU(0).Op(txlib.JUMP).Bytes(), wantFail: true})
	add(behaviour{name: "create-store-then-return", code: append(new(txlib.Asm).PushU(7).PushU(1).Op(txlib.SSTORE).Bytes(), ret(3)...)})
	add(behaviour{name: "create-suicide-sender", code: new(txlib.Asm).PushAddr(sender).Op(txlib.SELFDESTRUCT).Bytes(), touches: true})
	add(behaviour{name: "create-pay-coinbase", code: callTo(new(txlib.Asm), coinbase, 1, 30000).Op(txlib.STOP).Bytes(), touches: true})
	return out
}

// ---------------------------------------------------------------------------------------------------------------------
// worlds

type spec struct {
	rules    txlib.Rules
	cbIdx    int // 3 = dedicated coinbase, 0..2 = a sender is the coinbase
	bal      [4]*big.Int
	nonce    [4]uint64
	beh      behaviour
	create   bool
	preEmpty bool // install emptyA (pre-EIP158 style empty account)
	collide  bool // put an account with a nonce at the creation address
	from     int
	cbOv     *common.Address // dedicated coinbase other than cbAddr (e.g. the address a later creation of the block targets)
}

func (s *spec) coinbase() common.Address {
	if s.cbIdx == 3 {
		if s.cbOv != nil {
			return *s.cbOv
		}
		return cbAddr
	}
	return keys[s.cbIdx].Addr
}

func (s *spec) tracked() []common.Address {
	if s.cbOv != nil {
		return []common.Address{keys[0].Addr, keys[1].Addr, keys[2].Addr, *s.cbOv}
	}
	return []common.Address{keys[0].Addr, keys[1].Addr, keys[2].Addr, cbAddr}
}

func (s *spec) build() *state.StateDB {
	st := txlib.NewState()
	tr := s.tracked()
	for i, a := range tr {
		if s.bal[i].Sign() != 0 || s.nonce[i] != 0 {
			st.SetBalance(a, s.bal[i])
			st.SetNonce(a, s.nonce[i])
		}
	}
	st.SetBalance(other, bi(12345))
	if s.preEmpty {
		st.CreateAccount(emptyA)
	}
	if !s.create {
		if s.beh.code != nil {
			st.SetCode(calleeA, s.beh.code)
			st.SetNonce(calleeA, 1)
		}
		if s.beh.balance != nil && s.beh.balance.Sign() > 0 {
			st.SetBalance(calleeA, s.beh.balance)
		}
		for k, v := range s.beh.storage {
			st.SetState(calleeA, common.BigToHash(bi(k)), common.BigToHash(bi(v)))
		}
		if s.beh.helper != nil {
			st.SetCode(helperA, s.beh.helper)
			st.SetNonce(helperA, 1)
		}
	}
	if s.collide {
		st.SetNonce(crypto.CreateAddress(keys[s.from].Addr, s.nonce[s.from]), 5)
	}
	return txlib.Settle(st, false)
}

func trackedStr(st *state.StateDB, tr []common.Address) string {
	var sb strings.Builder
	for i, a := range tr {
		if i > 0 {
			sb.WriteByte(';')
		}
		fmt.Fprintf(&sb, "%s,%d", st.GetBalance(a), st.GetNonce(a))
	}
	return sb.String()
}

func obsStr(o *txlib.Obs) string {
	var sb strings.Builder
	for i := range o.Bal {
		if i > 0 {
			sb.WriteByte(';')
		}
		fmt.Fprintf(&sb, "%s,%d", o.Bal[i], o.Nonce[i])
	}
	return sb.String()
}

func errClass(err error) string {
	switch {
	case err == nil:
		return "nil"
	case err == core.ErrNonceTooHigh:
		return "nonce-high"
	case err == core.ErrNonceTooLow:
		return "nonce-low"
	case err == core.ErrGasLimitReached:
		return "gas-limit-reached"
	case err == vm.ErrOutOfGas:
		return "oog"
	case err == vm.ErrInsufficientBalance:
		return "insufficient-balance"
	case strings.Contains(err.Error(), "insufficient balance to pay for gas"):
		return "funds-for-gas"
	}
	return "other:" + strings.ReplaceAll(err.Error(), " ", "_")
}

func vmErrClass(err error) string {
	switch {
	case err == nil:
		return "n"
	case err == vm.ErrInsufficientBalance:
		return "i"
	case err.Error() == "evm: execution reverted":
		return "r"
	}
	return "o"
}

func countNz(data []byte) (nz, z int) {
	for _, b := range data {
		if b != 0 {
			nz++
		}
	}
	return nz, len(data) - nz
}

func intrinsic(data []byte, create, homestead bool) uint64 {
	g, err := core.IntrinsicGas(data, create, homestead)
	if err != nil {
		panic(err)
	}
	return g
}

// evmField renders the EVM observation for the model.
func evmField(o *txlib.Obs, err error, failed bool) string {
	if o == nil || !o.Fired {
		switch {
		case err != nil:
			return "na"
		case failed:
			return "coll"
		default:
			return "skip"
		}
	}
	// the EVM's effect on the refund counter is what it ADDED (AddRefund); the counter's lifetime is the StateDB's business
	return fmt.Sprintf("f~%d~%s~%d~%s", o.GasLeft, vmErrClass(o.Err), o.Refund-o.RefundIn, obsStr(o))
}

// ---------------------------------------------------------------------------------------------------------------------
// message generation

type txg struct {
	from   int
	to     *common.Address
	nonce  uint64
	check  bool
	price  *big.Int
	gas    uint64
	value  *big.Int
	data   []byte
	expect string // "" = valid by construction; otherwise the error class the block must be rejected with
}

func randData(r *hx.Rng) []byte {
	switch r.Intn(5) {
	case 0:
		return nil
	case 1:
		return make([]byte, r.Intn(40)) // all zero
	case 2:
		d := r.Bytes(r.Intn(60))
		for i := range d {
			if r.Intn(3) == 0 {
				d[i] = 0
			}
		}
		return d
	case 3:
		d := make([]byte, 1+r.Intn(1200))
		for i := range d {
			if r.Intn(2) == 0 {
				d[i] = byte(1 + r.Intn(255))
			}
		}
		return d
	}
	return []byte{byte(r.Intn(256))}
}

func randPrice(r *hx.Rng) *big.Int {
	switch r.Intn(6) {
	case 0:
		return new(big.Int)
	case 1:
		return big.NewInt(1)
	case 2:
		return bi(uint64(1 + r.Intn(100)))
	case 3:
		return bi(1000000000 * uint64(1+r.Intn(50)))
	case 4:
		return new(big.Int).Lsh(big.NewInt(1), uint(60+r.Intn(40)))
	}
	return bi(uint64(r.Intn(1000000)))
}

func randValue(r *hx.Rng) *big.Int {
	switch r.Intn(5) {
	case 0, 1:
		return new(big.Int)
	case 2:
		return big.NewInt(1)
	case 3:
		return bi(uint64(r.Intn(100000)))
	}
	return new(big.Int).Lsh(big.NewInt(1), uint(r.Intn(70)))
}

// ---------------------------------------------------------------------------------------------------------------------
// direct judgements on one executed message

type execResult struct {
	used    uint64
	failed  bool
	err     error
	obs     *txlib.Obs
	logs    int
	pre     [4]*big.Int
	preN    [4]uint64
	post    [4]*big.Int
	postN   [4]uint64
	gpPre   uint64
	gpPost  uint64
	preAll  map[common.Address]txlib.Acct
	postAll map[common.Address]txlib.Acct
}

var knownSeen = map[string]int{}

// known reports a reproduction of a known finding (at most 3 violation records per signature and run; all are counted).
func known(kind, sig string, in interface{}, detail string) {
	run.Count("known:" + sig[:40])
	knownSeen[sig]++
	if knownSeen[sig] <= 3 {
		run.Violate(kind, sig, in, detail)
	}
}

func judge(s *spec, m txg, res *execResult, label string) {
	in := map[string]interface{}{"label": label, "rules": s.rules.Name, "behaviour": s.beh.name, "from": m.from, "create": m.to == nil,
		"nonce": m.nonce, "price": m.price.String(), "gas": m.gas, "value": m.value.String(), "data": hx.Hex(m.data),
		"senderBalance": s.bal[m.from].String(), "senderNonce": s.nonce[m.from], "coinbaseIdx": s.cbIdx}
	viol := func(kind, sig, detail string) { run.Violate(kind, sig, in, detail) }
	if res.err != nil {
		return
	}
	f := m.from
	cb := s.cbIdx
	fee := new(big.Int).Mul(bi(res.used), m.price)
	// J1 nonce + 1
	if res.postN[f] != res.preN[f]+1 {
		viol("nonce-not-plus-one", "nonce:"+s.beh.name, fmt.Sprintf("nonce %d -> %d", res.preN[f], res.postN[f]))
	}
	if m.check && res.preN[f] != m.nonce {
		viol("wrong-nonce-accepted", "nonce-accepted", fmt.Sprintf("account nonce %d, tx nonce %d", res.preN[f], m.nonce))
	}
	// J5 gas bounds
	ig := intrinsic(m.data, m.to == nil, s.rules.Homestead)
	if res.used > m.gas {
		viol("gas-above-limit", "gasUsed>gasLimit", fmt.Sprintf("used %d limit %d", res.used, m.gas))
	}
	if m.gas < ig {
		viol("below-intrinsic-accepted", "gas<intrinsic-accepted", fmt.Sprintf("gas %d intrinsic %d", m.gas, ig))
	}
	if res.gpPost+res.used != res.gpPre {
		viol("pool-not-conserved", "pool", fmt.Sprintf("pool %d -> %d, used %d", res.gpPre, res.gpPost, res.used))
	}
	if res.obs != nil && res.obs.Fired {
		o := res.obs
		if o.GasLeft > o.GasGiven || o.GasGiven != m.gas-ig {
			viol("evm-gas-contract", "evm-gas", fmt.Sprintf("given %d (limit %d - intrinsic %d) left %d", o.GasGiven, m.gas, ig, o.GasLeft))
		}
		consumed := m.gas - o.GasLeft
		refund := consumed - res.used
		if res.used > consumed || refund > consumed/2 || refund > o.Refund {
			viol("refund-above-cap", "refund-cap", fmt.Sprintf("consumed %d used %d refund %d counter %d", consumed, res.used, refund, o.Refund))
		}
		if o.RefundIn != 0 {
			viol("refund-counter-carried-over", "refund-counter-not-reset-between-transactions", fmt.Sprintf("refund counter is %d when the transaction starts", o.RefundIn))
		}
		if consumed < ig {
			viol("consumed-below-intrinsic", "consumed<intrinsic", fmt.Sprintf("consumed %d intrinsic %d", consumed, ig))
		}
		if res.used < ig {
			if consumed >= ig && refund <= consumed/2 {
				known("gas-below-intrinsic", sigRefundBelowIntrinsic, in, fmt.Sprintf("used %d < intrinsic %d (consumed %d, refund %d)", res.used, ig, consumed, refund))
			} else {
				viol("gas-below-intrinsic", "gasUsed<intrinsic:unexplained", fmt.Sprintf("used %d < intrinsic %d (consumed %d)", res.used, ig, consumed))
			}
		}
		if (o.Err != nil) != res.failed {
			viol("failed-flag", "failed-flag", fmt.Sprintf("vm err %v, failed=%v", o.Err, res.failed))
		}
	} else if res.used < ig {
		viol("gas-below-intrinsic", "gasUsed<intrinsic:no-evm", fmt.Sprintf("used %d < intrinsic %d", res.used, ig))
	}
	// Frontier rules only (no built-in network): a creation whose code deposit cannot be paid returns ErrCodeStoreOutOfGas,
	// which TransitionDb reports as failed although nothing is reverted (value moved, account kept, gas not consumed).
	frontierCodeStore := m.to == nil && !s.rules.Homestead && res.obs != nil && res.obs.Err != nil && res.obs.Err.Error() == vm.ErrCodeStoreOutOfGas.Error()
	if frontierCodeStore {
		known("failed-exec-state-survives", sigFrontierCodeStore, in, "creation reported failed under Frontier rules but its effects are kept")
		return
	}
	// J3/J4 sender debit / coinbase credit when the EVM is known not to touch them
	valueMoved := new(big.Int)
	if !res.failed {
		valueMoved.Set(m.value)
	}
	toTracked := -1
	if m.to != nil {
		for i, a := range s.tracked() {
			if a == *m.to {
				toTracked = i
			}
		}
	}
	if !s.beh.touches || res.failed {
		exp := [4]*big.Int{}
		for i := range exp {
			exp[i] = new(big.Int).Set(res.pre[i])
		}
		exp[f].Sub(exp[f], fee)
		exp[f].Sub(exp[f], valueMoved)
		if toTracked >= 0 {
			exp[toTracked].Add(exp[toTracked], valueMoved)
		}
		exp[cb].Add(exp[cb], fee)
		for i := range exp {
			if exp[i].Cmp(res.post[i]) != 0 {
				kind := "balance-of-bystander"
				if i == f {
					kind = "sender-debit"
				} else if i == cb {
					kind = "coinbase-credit"
				}
				viol(kind, kind+":"+s.beh.name, fmt.Sprintf("account %d: before %s after %s expected %s (used %d price %s value %s failed %v)", i, res.pre[i],
					res.post[i], exp[i], res.used, m.price, m.value, res.failed))
			}
		}
	}
	// J11 (single message): the committed content (copy, Commit, RawDump of the trie) carries the same tracked balances as the live objects
	if res.postAll != nil {
		for i, a := range s.tracked() {
			cb := new(big.Int)
			if x, ok := res.postAll[a]; ok {
				cb = x.Bal
			}
			if cb.Cmp(res.post[i]) != 0 {
				viol("committed-state-differs-from-live", fmt.Sprintf("msg-committed!=live:%d", i), fmt.Sprintf("account %d: committed %s, live %s", i, cb, res.post[i]))
			}
		}
	}
	// J2 failed execution: nothing but the gas payment and the nonce survives (whole state compared)
	if res.failed && res.preAll != nil {
		if res.logs != 0 {
			viol("failed-keeps-logs", "failed-logs:"+s.beh.name, fmt.Sprintf("%d logs after a failed execution", res.logs))
		}
		allowed := map[common.Address]bool{keys[f].Addr: true, s.coinbase(): true}
		for _, a := range txlib.DiffDumps(res.preAll, res.postAll, s.rules.EIP158) {
			if allowed[a] {
				continue
			}
			if m.to != nil && a == *m.to && !s.rules.EIP158 {
				if _, was := res.preAll[a]; !was && res.postAll[a].IsEmpty() {
					known("failed-exec-state-survives", sigToCreatedOutside, in, fmt.Sprintf("account %x created by a failed call", a))
					continue
				}
			}
			if m.to == nil && !s.rules.Homestead && res.obs != nil && res.obs.Err != nil && res.obs.Err.Error() == vm.ErrCodeStoreOutOfGas.Error() {
				continue // reported once per case above (frontierCodeStore)
			}
			viol("failed-exec-state-survives", "failed-state:"+s.beh.name, fmt.Sprintf("account %x: before %v after %v", a, res.preAll[a], res.postAll[a]))
		}
		// the two allowed accounts may differ only in balance / nonce
		for a := range allowed {
			x, y := res.preAll[a], res.postAll[a]
			if x.Code != y.Code || fmt.Sprint(x.Storage) != fmt.Sprint(y.Storage) {
				viol("failed-exec-state-survives", "failed-state-code:"+s.beh.name, fmt.Sprintf("account %x code/storage changed", a))
			}
		}
	}
}

// execMsg runs one message through core.ApplyMessage on a freshly built world.
func execMsg(s *spec, m txg, gpInit uint64, fullDump bool) (*execResult, string, string) {
	st := s.build()
	tr := s.tracked()
	res := &execResult{gpPre: gpInit}
	for i, a := range tr {
		res.pre[i] = new(big.Int).Set(st.GetBalance(a))
		res.preN[i] = st.GetNonce(a)
	}
	preS := trackedStr(st, tr)
	if fullDump {
		res.preAll = txlib.DumpAll(st, false)
	}
	tracer := txlib.NewTracer(st, tr)
	msg := types.NewMessage(keys[m.from].Addr, m.to, m.nonce, m.value, m.gas, m.price, m.data, m.check)
	header := &types.Header{Number: s.rules.Number, Time: big.NewInt(1000), Difficulty: big.NewInt(1), GasLimit: gpInit, Coinbase: s.coinbase()}
	cb := s.coinbase()
	evm := vm.NewEVM(core.NewEVMContext(msg, header, nil, &cb), st, s.rules.Cfg, vm.Config{Debug: true, Tracer: tracer})
	gp := new(core.GasPool).AddGas(gpInit)
	st.Prepare(common.Hash{1}, common.Hash{2}, 0)
	_, used, failed, err := core.ApplyMessage(evm, msg, gp)
	res.used, res.failed, res.err, res.obs = used, failed, err, tracer.Cur
	res.gpPost = gp.Gas()
	res.logs = len(st.GetLogs(common.Hash{1}))
	for i, a := range tr {
		res.post[i] = new(big.Int).Set(st.GetBalance(a))
		res.postN[i] = st.GetNonce(a)
	}
	nz, z := countNz(m.data)
	ct := "t"
	if m.to == nil {
		ct = "c"
	}
	in := fmt.Sprintf("msg %d %d %d %d %d %s %d %d %s %d %s %d %d %s %s", b2i(s.rules.Homestead), b2i(s.rules.Byzantium), s.cbIdx, gpInit, m.from, ct,
		m.nonce, b2i(m.check), m.price, m.gas, m.value, nz, z, preS, evmField(tracer.Cur, err, failed))
	var out string
	if err != nil {
		out = "err " + errClass(err)
	} else {
		out = fmt.Sprintf("ok %d %d %d %s", used, b2i(failed), gp.Gas(), trackedStr(st, tr))
		if fullDump {
			// what ApplyTransaction does next: Finalise(true) (Byzantium) or IntermediateRoot(eip158)
			res.postAll = txlib.DumpAll(st, s.rules.Byzantium || s.rules.EIP158)
		}
	}
	return res, in, out
}

func b2i(b bool) int {
	if b {
		return 1
	}
	return 0
}

// newSpec draws a world: rules, coinbase, tracked balances/nonces, behaviour.
func newSpec(r *hx.Rng, rulesAll []txlib.Rules) *spec {
	s := &spec{rules: rulesAll[r.Intn(len(rulesAll))], cbIdx: 3, from: r.Intn(3)}
	if r.Intn(8) == 0 {
		s.cbIdx = r.Intn(3)
	}
	for i := range s.bal {
		switch r.Intn(4) {
		case 0:
			s.bal[i] = new(big.Int)
		case 1:
			s.bal[i] = bi(uint64(r.Intn(1000000)))
		default:
			s.bal[i] = new(big.Int).Lsh(big.NewInt(1), uint(60+r.Intn(60)))
		}
		if r.Intn(3) > 0 {
			s.nonce[i] = uint64(r.Intn(50))
		}
	}
	s.preEmpty = !s.rules.EIP158 && r.Intn(3) == 0
	s.create = r.Intn(4) == 0
	var lib []behaviour
	if s.create {
		lib = initCodes(r, keys[s.from].Addr, s.coinbase())
	} else {
		lib = behaviours(r, s.rules, keys[s.from].Addr, s.coinbase())
	}
	s.beh = lib[r.Intn(len(lib))]
	if s.create && r.Intn(25) == 0 {
		s.collide = true
	}
	return s
}

// targets for a call
func pickTo(r *hx.Rng, s *spec) *common.Address {
	var a common.Address
	switch r.Intn(12) {
	case 0:
		a = other
	case 1:
		a = keys[s.from].Addr
	case 2:
		a = s.coinbase()
	case 3:
		a = txlib.AddrN(0x99ff00) // does not exist
	case 4:
		a = txlib.AddrN(uint64(1 + r.Intn(8))) // precompile (absent from the state)
	case 5:
		if s.preEmpty {
			a = emptyA
		} else {
			a = calleeA
		}
	default:
		a = calleeA
	}
	return &a
}

// expectOf is the validity predicate of the property statement, evaluated on the generated inputs (independent of the model):
// wrong nonce / cannot prepay gas*price / gas above the pool / gas below intrinsic / cannot pay the value, in the order the
// real code tests them.
func expectOf(s *spec, m txg, gpInit uint64) string {
	bal := s.bal[m.from]
	cost := new(big.Int).Mul(bi(m.gas), m.price)
	ig := intrinsic(m.data, m.to == nil, s.rules.Homestead)
	switch {
	case m.check && s.nonce[m.from] < m.nonce:
		return "nonce-high"
	case m.check && s.nonce[m.from] > m.nonce:
		return "nonce-low"
	case bal.Cmp(cost) < 0:
		return "funds-for-gas"
	case m.gas > gpInit:
		return "gas-limit-reached"
	case m.gas < ig:
		return "oog"
	case new(big.Int).Sub(bal, cost).Cmp(m.value) < 0:
		return "insufficient-balance"
	}
	return ""
}

// fillMsg draws the message for a world and then fixes the sender's balance relative to the cost (boundary lattice).
func fillMsg(r *hx.Rng, s *spec, gpInit uint64) txg {
	m := txg{from: s.from, check: r.Intn(10) != 0, price: randPrice(r), value: randValue(r)}
	if s.create {
		m.data = s.beh.code
	} else {
		m.to = pickTo(r, s)
		m.data = randData(r)
	}
	ig := intrinsic(m.data, m.to == nil, s.rules.Homestead)
	switch r.Intn(12) {
	case 0:
		m.gas = ig
	case 1:
		if ig > 0 {
			m.gas = ig - 1
		}
	case 2:
		m.gas = ig + uint64(r.Intn(30))
	case 3:
		m.gas = ig + uint64(r.Intn(6000))
	case 4:
		m.gas = gpInit
	case 5:
		m.gas = gpInit + 1
	default:
		m.gas = ig + 20000 + uint64(r.Intn(400000))
	}
	// nonce
	m.nonce = s.nonce[m.from]
	if m.check {
		switch r.Intn(16) {
		case 0:
			m.nonce++
		case 1:
			if m.nonce > 0 {
				m.nonce--
			}
		}
	} else {
		m.nonce = uint64(r.Intn(100))
	}
	// sender balance relative to the up-front cost gas*price (+ value)
	cost := new(big.Int).Mul(bi(m.gas), m.price)
	full := new(big.Int).Add(cost, m.value)
	switch r.Intn(9) {
	case 0: // exactly enough
		s.bal[m.from] = full
	case 1: // one wei short of the value
		s.bal[m.from] = new(big.Int).Sub(full, big.NewInt(1))
	case 2: // one wei short of the gas
		s.bal[m.from] = new(big.Int).Sub(cost, big.NewInt(1))
	case 3: // exactly the gas
		s.bal[m.from] = cost
	default:
		s.bal[m.from] = new(big.Int).Add(full, new(big.Int).Lsh(big.NewInt(1), uint(r.Intn(80))))
	}
	if s.bal[m.from].Sign() < 0 {
		s.bal[m.from] = new(big.Int)
	}
	m.expect = expectOf(s, m, gpInit)
	return m
}

func runMsgCases(r *hx.Rng, n int) {
	rulesAll := txlib.Variants()
	for i := 0; i < n; i++ {
		s := newSpec(r, rulesAll)
		gpInit := uint64(1000000 + r.Intn(7000000))
		m := fillMsg(r, s, gpInit)
		doMsg(s, m, gpInit, "random")
	}
}

func doMsg(s *spec, m txg, gpInit uint64, label string) {
	run.Current(fmt.Sprintf("msg %s %s gas=%d", s.rules.Name, s.beh.name, m.gas))
	var res *execResult
	var in, out string
	o := hx.Safe(func() string {
		res, in, out = execMsg(s, m, gpInit, true)
		return ""
	})
	if o != "" {
		run.Violate("panic", "panic:msg:"+s.beh.name, map[string]interface{}{"rules": s.rules.Name, "behaviour": s.beh.name, "gas": m.gas}, o)
		return
	}
	run.Case(in, out)
	run.Count("msg:rules:" + s.rules.Name)
	run.Count("msg:beh:" + s.beh.name)
	if res.err != nil {
		run.Count("msg:outcome:err:" + errClass(res.err))
	} else if res.failed {
		run.Count("msg:outcome:failed")
	} else {
		run.Count("msg:outcome:ok")
	}
	if res.obs != nil && res.obs.Fired {
		run.Count("msg:evm:" + vmErrClass(res.obs.Err))
		if res.obs.Refund > 0 {
			run.Count("msg:refund-counter>0")
			consumed := m.gas - res.obs.GasLeft
			if res.obs.Refund == consumed/2 {
				run.Count("msg:refund-exactly-at-cap")
			} else if res.obs.Refund > consumed/2 {
				run.Count("msg:refund-capped")
			}
		}
	} else if res.err == nil {
		run.Count("msg:evm:not-entered")
	}
	// validity by construction: an invalid message must be refused with the expected class, a valid one must not be refused
	got := errClass(res.err)
	if m.expect != "" && got != m.expect && res.err == nil {
		run.Violate("invalid-tx-accepted", "invalid-accepted:"+m.expect, map[string]interface{}{"rules": s.rules.Name, "expect": m.expect, "gas": m.gas,
			"price": m.price.String(), "value": m.value.String(), "balance": s.bal[m.from].String()}, "expected "+m.expect+" got "+got)
	}
	if m.expect == "" && res.err != nil {
		run.Violate("valid-tx-refused", "valid-refused:"+got, map[string]interface{}{"rules": s.rules.Name, "gas": m.gas, "price": m.price.String(),
			"value": m.value.String(), "balance": s.bal[m.from].String(), "behaviour": s.beh.name}, "valid by construction, got "+got)
	}
	judge(s, m, res, label)
}

// ---------------------------------------------------------------------------------------------------------------------
// boundary lattice: refund exactly at the cap, gas = intrinsic, exact balance, price 0, pool remainder

func runBoundary(r *hx.Rng) {
	for _, rules := range txlib.Variants() {
		// refund at / around the cap: consumed = 21000 + 4z + (n*5006 + pad); refund counter = n*15000
		for n := 1; n <= 2; n++ {
			for _, delta := range []int{-8, -4, -1, 0, 1, 4, 8} {
				// want consumed/2 == 15000n + delta/…: choose z and pad with 4z + pad = 30000n - 21000 - 5006n + 2*delta
				tot := 30000*n - 21000 - 5006*n + 2*delta
				if tot < 0 {
					continue
				}
				z, pad := tot/4, tot%4
				a := new(txlib.Asm)
				stg := map[uint64]uint64{}
				for i := 0; i < n; i++ {
					a.PushU(0).PushU(uint64(i)).Op(txlib.SSTORE)
					stg[uint64(i)] = 1
				}
				for i := 0; i < pad; i++ {
					a.Op(txlib.JUMPDEST)
				}
				a.Op(txlib.STOP)
				s := &spec{rules: rules, cbIdx: 3, from: 0, beh: behaviour{name: fmt.Sprintf("sstore-clear%d", n), code: a.Bytes(), storage: stg}}
				for i := range s.bal {
					s.bal[i] = bi(0)
				}
				price := bi(uint64(1 + r.Intn(1000)))
				m := txg{from: 0, to: &calleeA, nonce: 0, check: true, price: price, gas: 200000, value: new(big.Int), data: make([]byte, z)}
				s.bal[0] = new(big.Int).Mul(bi(m.gas), price) // exactly enough
				doMsg(s, m, 200000, "refund-cap")              // gas == pool remainder as well
			}
		}
		// gas exactly intrinsic / price 0 / exact balance, on plain transfers and creations
		for _, create := range []bool{false, true} {
			for _, price := range []uint64{0, 1, 7} {
				for _, short := range []int{0, 1} {
					s := &spec{rules: rules, cbIdx: 3, from: 1, create: create, beh: behaviour{name: "nocode"}}
					if create {
						s.beh = behaviour{name: "create-noinit"}
					}
					for i := range s.bal {
						s.bal[i] = bi(0)
					}
					data := []byte{0, 1, 0, 2}
					if create {
						data = nil
					}
					ig := intrinsic(data, create, rules.Homestead)
					m := txg{from: 1, nonce: 3, check: true, price: bi(price), gas: ig, value: bi(1000), data: data}
					s.nonce[1] = 3
					if !create {
						m.to = &other
					}
					s.bal[1] = new(big.Int).Add(new(big.Int).Mul(bi(ig), bi(price)), bi(1000))
					if short == 1 {
						s.bal[1].Sub(s.bal[1], big.NewInt(1))
					}
					m.expect = expectOf(s, m, ig)
					doMsg(s, m, ig, "exact")
				}
			}
		}
	}
}

// ---------------------------------------------------------------------------------------------------------------------
// IntrinsicGas and GasPool

func runIntrinsic(r *hx.Rng, n int) {
	emit := func(data []byte, create, hs bool) {
		nz, z := countNz(data)
		out := hx.Safe(func() string {
			g, err := core.IntrinsicGas(data, create, hs)
			if err != nil {
				return "err"
			}
			return fmt.Sprintf("ok %d", g)
		})
		run.Case(fmt.Sprintf("ig %d %d %d %d", nz, z, b2i(create), b2i(hs)), out)
		run.Count("ig")
	}
	for _, create := range []bool{false, true} {
		for _, hs := range []bool{false, true} {
			emit(nil, create, hs)
			emit([]byte{}, create, hs)
			emit([]byte{0}, create, hs)
			emit([]byte{1}, create, hs)
			emit(make([]byte, 70000), create, hs)
			emit(bytes.Repeat([]byte{0xff}, 70000), create, hs)
		}
	}
	for i := 0; i < n; i++ {
		emit(randData(r), r.Bool(), r.Bool())
	}
}

func runGasPool(r *hx.Rng, n int) {
	const max = ^uint64(0)
	pick := func() uint64 {
		switch r.Intn(7) {
		case 0:
			return 0
		case 1:
			return 1
		case 2:
			return max
		case 3:
			return max - uint64(r.Intn(3))
		case 4:
			return max / 2
		case 5:
			return max/2 + 1
		}
		return r.U64() >> uint(r.Intn(64))
	}
	for i := 0; i < n; i++ {
		var script []string
		var outs []string
		gp := new(core.GasPool)
		steps := 1 + r.Intn(5)
		for k := 0; k < steps; k++ {
			amt := pick()
			if r.Intn(3) > 0 {
				script = append(script, fmt.Sprintf("a%d", amt))
				o := hx.Safe(func() string { gp.AddGas(amt); return "ok" })
				if o != "ok" {
					outs = append(outs, "panic")
					break
				}
				outs = append(outs, fmt.Sprintf("%d", gp.Gas()))
			} else {
				script = append(script, fmt.Sprintf("s%d", amt))
				if err := gp.SubGas(amt); err != nil {
					if err != core.ErrGasLimitReached {
						outs = append(outs, "other")
					} else {
						outs = append(outs, "limit")
					}
				} else {
					outs = append(outs, fmt.Sprintf("%d", gp.Gas()))
				}
			}
		}
		run.Case("gp "+strings.Join(script, ","), strings.Join(outs, ","))
		run.Count("gp")
	}
}

// ---------------------------------------------------------------------------------------------------------------------
// blocks

type blockTx struct {
	m   txg
	beh behaviour
	to  common.Address
}

// buildBlockWorld installs one callee per transaction (at calleeA+2k) and the tracked accounts.
func runBlocks(r *hx.Rng, n int) {
	rulesAll := txlib.Variants()
	for bi_ := 0; bi_ < n; bi_++ {
		rules := rulesAll[r.Intn(len(rulesAll))]
		if o := hx.Safe(func() string { oneBlock(r, rules); return "" }); o != "" {
			run.Violate("panic", "panic:block", map[string]interface{}{"rules": rules.Name}, o)
			if run.Hist["violation:panic"] == 1 {
				fmt.Fprintln(os.Stderr, "first block panic:", o)
			}
		}
	}
}

func oneBlock(r *hx.Rng, rules txlib.Rules) {
	ntx := 1 + r.Intn(5)
	cbIdx := 3
	if r.Intn(8) == 0 {
		cbIdx = r.Intn(3)
	}
	var nonces [3]uint64
	for i := range nonces {
		nonces[i] = uint64(r.Intn(20))
	}
	startNonce := nonces
	// family "coinbase = target of a failing creation": an earlier transaction pays its fee to the coinbase X, then a creation
	// whose contract address IS X fails (top-level creation by sender 2, or an inner CREATE of the callee), then more fees follow.
	// Judged at the block's root: what Commit writes for X must be what the live object says (fees + reward).
	family := r.Intn(5) == 0
	inner := family && r.Bool()
	famAt := -1
	cbA := cbAddr
	if family {
		ntx = 3 + r.Intn(3)
		cbIdx = 3
		famAt = 1 + r.Intn(ntx-2)
		if inner {
			cbA = crypto.CreateAddress(txlib.AddrN(0xc0de00+uint64(2*famAt)), 1)
		} else {
			cbA = crypto.CreateAddress(keys[2].Addr, nonces[2])
		}
	}
	coinbase := cbA
	if cbIdx != 3 {
		coinbase = keys[cbIdx].Addr
	}
	var cbOv *common.Address
	if family {
		cbOv = &cbA
	}
	tracked := []common.Address{keys[0].Addr, keys[1].Addr, keys[2].Addr, cbA}
	gasLimit := uint64(300000 + r.Intn(3000000))
	if family {
		gasLimit += 1000000
	}
	remaining := gasLimit
	invalidAt := -1
	if !family && r.Intn(3) == 0 {
		invalidAt = r.Intn(ntx)
	}
	need := [3]*big.Int{new(big.Int), new(big.Int), new(big.Int)}
	var txs []blockTx
	for k := 0; k < ntx; k++ {
		from := r.Intn(3)
		if family {
			from = r.Intn(2) // sender 2 is reserved for the creation that targets the coinbase
		}
		create := r.Intn(4) == 0
		var b behaviour
		if k == famAt && !inner {
			from, create = 2, true
			failing := [][]byte{new(txlib.Asm).PushU(7).PushU(1).Op(txlib.SSTORE, txlib.INVALID).Bytes(), new(txlib.Asm).Op(txlib.JUMPDEST).PushU(0).Op(txlib.JUMP).Bytes(),
				new(txlib.Asm).PushU(0).PushU(0).Op(txlib.REVERT).Bytes()}
			w := r.Intn(3)
			b = behaviour{name: []string{"create-at-coinbase-invalid", "create-at-coinbase-oog", "create-at-coinbase-revert"}[w], code: failing[w], wantFail: true}
		} else if k == famAt && inner {
			create = false
			// MSTORE8(0, 0xfe); CREATE(value 1, mem 0, len 1) -> init code INVALID fails at the address that is the coinbase; POP; STOP
			code := new(txlib.Asm).PushU(0xfe).PushU(0).Op(0x53).PushU(1).PushU(0).PushU(1).Op(txlib.CREATE, txlib.POP, txlib.STOP).Bytes()
			b = behaviour{name: "inner-create-at-coinbase-fails", code: code, balance: bi(50)}
		} else if create {
			lib := initCodes(r, keys[from].Addr, coinbase)
			b = lib[r.Intn(len(lib))]
		} else {
			lib := behaviours(r, rules, keys[from].Addr, coinbase)
			b = lib[r.Intn(len(lib))]
		}
		sp := &spec{rules: rules, cbIdx: cbIdx, from: from, cbOv: cbOv}
		sp.beh = b
		m := txg{from: from, check: true, price: randPrice(r), value: randValue(r), nonce: nonces[from]}
		if m.price.BitLen() > 64 {
			m.price = bi(uint64(r.Intn(1000)))
		}
		if family && m.price.Sign() == 0 {
			m.price = bi(uint64(1 + r.Intn(50)))
		}
		callee := txlib.AddrN(0xc0de00 + uint64(2*k))
		if create {
			m.data = b.code
		} else {
			m.to = &callee
			if k != famAt && r.Intn(6) == 0 {
				t := keys[r.Intn(3)].Addr
				m.to = &t
			}
			m.data = randData(r)
		}
		ig := intrinsic(m.data, m.to == nil, rules.Homestead)
		m.gas = ig + uint64(r.Intn(120000))
		if r.Intn(6) == 0 {
			m.gas = ig
		}
		if k == famAt {
			m.gas = ig + 60000 + uint64(r.Intn(60000)) // enough to get into the creation
		}
		if k == ntx-1 && r.Intn(3) == 0 && remaining >= ig {
			m.gas = remaining // exactly the pool remainder (upper bound: earlier txs may have given gas back, so this is ≤ the real remainder)
		}
		if m.gas > remaining {
			if remaining < ig {
				ntx = k
				break
			}
			m.gas = remaining
		}
		if k == invalidAt {
			switch r.Intn(5) {
			case 0:
				m.nonce += 1 + uint64(r.Intn(3))
				m.expect = "nonce-high"
			case 1:
				if m.nonce > 0 {
					m.nonce--
					m.expect = "nonce-low"
				} else {
					m.nonce++
					m.expect = "nonce-high"
				}
			case 2:
				if ig > 0 {
					m.gas = ig - 1
					m.expect = "oog"
				}
			case 3:
				m.gas = gasLimit + 1 + uint64(r.Intn(1000)) // certainly above what is left
				m.expect = "gas-limit-reached"
			case 4:
				m.expect = "poor" // decided below: balance short by one wei of gas (funds-for-gas) or of value (insufficient-balance)
			}
		}
		if m.expect == "" || m.expect == "poor" {
			remaining -= m.gas // pessimistic (nothing given back)
		}
		cost := new(big.Int).Mul(bi(m.gas), m.price)
		cost.Add(cost, m.value)
		need[from].Add(need[from], cost)
		if m.expect == "" || m.expect == "poor" {
			nonces[from]++
		}
		txs = append(txs, blockTx{m: m, beh: b, to: callee})
		if k == invalidAt {
			break
		}
	}
	if len(txs) == 0 {
		return
	}
	// balances: enough for everything (the pessimistic bound), except the "poor" sender who is one wei short in total
	var bal [4]*big.Int
	for i := 0; i < 3; i++ {
		bal[i] = new(big.Int).Add(need[i], bi(uint64(r.Intn(3))*1000000))
	}
	bal[3] = bi(uint64(r.Intn(2)) * 999)
	last := &txs[len(txs)-1]
	if last.m.expect == "poor" {
		f := last.m.from
		// the poor sender pays all its earlier transactions in full (no refunds assumed → it may end up with more than
		// planned, so make every earlier tx of that sender a plain no-code call with gas == intrinsic: cost is exact)
		exact := true
		for k := 0; k < len(txs)-1; k++ {
			if txs[k].m.from == f {
				exact = false
			}
		}
		// an earlier transaction may also PAY the poor sender (suicide-sender, pay-sender, transfers): require none at all
		if !exact || len(txs) != 1 {
			last.m.expect = ""
		} else if last.m.value.Sign() > 0 && r.Bool() {
			bal[f] = new(big.Int).Sub(need[f], big.NewInt(1))
			last.m.expect = "insufficient-balance"
		} else if new(big.Int).Mul(bi(last.m.gas), last.m.price).Sign() > 0 {
			bal[f] = new(big.Int).Sub(new(big.Int).Mul(bi(last.m.gas), last.m.price), big.NewInt(1))
			last.m.expect = "funds-for-gas"
		} else {
			last.m.expect = ""
		}
	}
	build := func() *state.StateDB {
		st := txlib.NewState()
		for i, a := range tracked {
			st.SetBalance(a, bal[i])
			if i < 3 {
				st.SetNonce(a, startNonce[i])
			}
		}
		st.SetBalance(other, bi(12345))
		for _, t := range txs {
			if t.m.to == nil {
				continue
			}
			if t.beh.code != nil {
				st.SetCode(t.to, t.beh.code)
				st.SetNonce(t.to, 1)
			}
			if t.beh.balance != nil && t.beh.balance.Sign() > 0 {
				st.SetBalance(t.to, t.beh.balance)
			}
			for k, v := range t.beh.storage {
				st.SetState(t.to, common.BigToHash(bi(k)), common.BigToHash(bi(v)))
			}
			if t.beh.helper != nil {
				st.SetCode(helperA, t.beh.helper)
				st.SetNonce(helperA, 1)
			}
		}
		return txlib.Settle(st, false)
	}
	// sign
	signer := types.MakeSigner(rules.Cfg, rules.Number)
	var stxs []*types.Transaction
	for _, t := range txs {
		var tx *types.Transaction
		if t.m.to == nil {
			tx = types.NewContractCreation(t.m.nonce, t.m.value, t.m.gas, t.m.price, t.m.data)
		} else {
			tx = types.NewTransaction(t.m.nonce, *t.m.to, t.m.value, t.m.gas, t.m.price, t.m.data)
		}
		stx, err := types.SignTx(tx, signer, keys[t.m.from].Priv)
		if err != nil {
			panic(err)
		}
		stxs = append(stxs, stx)
	}
	header := &types.Header{Version: rules.Cfg.GetBlockVersion(rules.Number), ParentHash: common.Hash{9}, Number: rules.Number, Time: big.NewInt(1000), Difficulty: big.NewInt(1), GasLimit: gasLimit,
		Coinbase: coinbase}
	block := types.NewBlock(header, stxs, nil, nil)
	bc := chainFor(rules)
	run.Current(fmt.Sprintf("blk %s ntx=%d", rules.Name, len(txs)))

	// --- step by step through ApplyTransaction (mirrors the loop of Process) ---
	st := build()
	preS := trackedStr(st, tracked)
	tracer := txlib.NewTracer(st, tracked)
	vmcfg := vm.Config{Debug: true, Tracer: tracer}
	gp := new(core.GasPool).AddGas(gasLimit)
	usedGas := new(uint64)
	hdr := block.Header()
	var receipts types.Receipts
	var toks, recs []string
	errAt, errCls := -1, ""
	var sumUsed uint64
	feeSum := new(big.Int)
	for i, tx := range stxs {
		st.Prepare(tx.Hash(), block.Hash(), i)
		tracer.Reset()
		var pre [4]*big.Int
		var preN [4]uint64
		for j, a := range tracked {
			pre[j] = new(big.Int).Set(st.GetBalance(a))
			preN[j] = st.GetNonce(a)
		}
		gpPre := gp.Gas()
		receipt, gas, err := core.ApplyTransaction(rules.Cfg, bc, nil, gp, st, hdr, tx, usedGas, vmcfg)
		m := txs[i].m
		nz, z := countNz(m.data)
		ct := "t"
		if m.to == nil {
			ct = "c"
		}
		failed := receipt != nil && receipt.Status == types.ReceiptStatusFailed
		toks = append(toks, fmt.Sprintf("%d:%s:%d:%s:%d:%s:%d:%d:%s", m.from, ct, m.nonce, m.price, m.gas, m.value, nz, z, evmField(tracer.Cur, err, failed)))
		if err != nil {
			errAt, errCls = i, errClass(err)
			break
		}
		receipts = append(receipts, receipt)
		sumUsed += receipt.GasUsed
		feeSum.Add(feeSum, new(big.Int).Mul(bi(receipt.GasUsed), txs[i].m.price))
		// J7 cumulative gas, J9 receipt format
		if receipt.CumulativeGasUsed != sumUsed || receipt.GasUsed != gas || *usedGas != sumUsed || sumUsed > gasLimit {
			run.Violate("cumulative-gas", "cumulative", map[string]interface{}{"rules": rules.Name, "index": i},
				fmt.Sprintf("cumulative %d, sum %d, usedGas %d, limit %d", receipt.CumulativeGasUsed, sumUsed, *usedGas, gasLimit))
		}
		hasRoot := checkReceiptFormat(rules, receipt, st, i)
		recs = append(recs, fmt.Sprintf("%d,%d,%d,%d,%d", b2i(failed), receipt.CumulativeGasUsed, receipt.GasUsed, b2i(hasRoot), b2i(m.to == nil)))
		if m.to == nil && failed && len(st.GetCode(receipt.ContractAddress)) != 0 {
			run.Violate("failed-create-keeps-code", "failed-create-code", map[string]interface{}{"rules": rules.Name, "behaviour": txs[i].beh.name}, "code survives a failed creation")
		}
		if failed && len(receipt.Logs) != 0 {
			run.Violate("failed-keeps-logs", "failed-logs:"+txs[i].beh.name, map[string]interface{}{"rules": rules.Name}, "logs in the receipt of a failed tx")
		}
		// per-tx direct judgement (tracked accounts only)
		res := &execResult{used: gas, failed: failed, obs: tracer.Cur, gpPre: gpPre, gpPost: gp.Gas(), pre: pre, preN: preN}
		for j, a := range tracked {
			res.post[j] = new(big.Int).Set(st.GetBalance(a))
			res.postN[j] = st.GetNonce(a)
		}
		sp := &spec{rules: rules, cbIdx: cbIdx, from: m.from, beh: txs[i].beh, cbOv: cbOv}
		sp.bal[m.from] = pre[m.from]
		sp.nonce[m.from] = preN[m.from]
		judge(sp, m, res, "block")
		run.Count("blk:tx:beh:" + txs[i].beh.name)
		if failed {
			run.Count("blk:tx:failed")
		} else {
			run.Count("blk:tx:ok")
		}
	}
	in := fmt.Sprintf("blk %d %d %d %d %s %s", b2i(rules.Homestead), b2i(rules.Byzantium), cbIdx, gasLimit, preS, strings.Join(toks, " "))
	var out string
	if errAt >= 0 {
		out = fmt.Sprintf("err %d %s", errAt, errCls)
		run.Count("blk:invalid:" + errCls)
	} else {
		out = fmt.Sprintf("ok %d %d %s %s", *usedGas, gp.Gas(), strings.Join(recs, ";"), trackedStr(st, tracked))
		run.Count("blk:valid")
	}
	run.Case(in, out)
	run.Count("blk:rules:" + rules.Name)
	if family {
		run.Count("blk:family:coinbase-is-target-of-failing-creation")
		if inner {
			run.Count("blk:family:inner-create")
		}
	}
	// J11: what the block's root commits is what the live objects say (Finalise/Commit write every modified account), and the
	// coinbase's COMMITTED balance is what it had plus the fees of the block
	if errAt < 0 {
		committed := txlib.DumpAll(st, rules.EIP158 || rules.Byzantium)
		for j, a := range tracked {
			cb := new(big.Int)
			if x, ok := committed[a]; ok {
				cb = x.Bal
			}
			if cb.Cmp(st.GetBalance(a)) != 0 {
				who := "sender"
				if a == coinbase {
					who = "coinbase"
				}
				run.Violate("committed-state-differs-from-live", "committed!=live:"+who, map[string]interface{}{"rules": rules.Name, "case": in, "family": family},
					fmt.Sprintf("account %d (%s): committed balance %s, live StateDB object %s", j, who, cb, st.GetBalance(a)))
			}
		}
		untouched := cbIdx == 3
		for _, t := range txs {
			if t.beh.touches || strings.HasPrefix(t.beh.name, "partial") || (t.m.to != nil && *t.m.to == coinbase) {
				untouched = false
			}
		}
		if untouched {
			want := new(big.Int).Add(bal[3], feeSum)
			got := new(big.Int)
			if x, ok := committed[coinbase]; ok {
				got = x.Bal
			}
			if got.Cmp(want) != 0 {
				run.Violate("coinbase-credit", "coinbase-credit-at-root", map[string]interface{}{"rules": rules.Name, "case": in, "family": family},
					fmt.Sprintf("coinbase holds %s in the committed state, expected %s + fees %s", got, bal[3], feeSum))
			}
			run.Count("blk:coinbase-fee-judged-at-root")
		}
	}
	// validity by construction (J8)
	want := txs[len(txs)-1].m.expect
	if want != "" && errAt < 0 {
		run.Violate("invalid-tx-accepted", "block-invalid-accepted:"+want, map[string]interface{}{"rules": rules.Name, "case": in}, "block with an invalid transaction ("+want+") was processed")
	} else if want != "" && errCls != want {
		run.Violate("invalid-tx-wrong-error", "block-invalid-class:"+want+":"+errCls, map[string]interface{}{"rules": rules.Name, "case": in}, "expected "+want+", got "+errCls)
	} else if want == "" && errAt >= 0 {
		run.Violate("valid-tx-refused", "block-valid-refused:"+errCls, map[string]interface{}{"rules": rules.Name, "case": in}, "valid block refused: "+errCls)
	}

	// --- the same block through StateProcessor.Process on an identical world ---
	st2 := build()
	proc := core.NewStateProcessor(rules.Cfg, bc, bc.Engine())
	rs2, _, used2, err2 := proc.Process(block, st2, vm.Config{})
	if (err2 != nil) != (errAt >= 0) || (err2 != nil && errClass(err2) != errCls) {
		run.Violate("process-differs-from-loop", "process-error", map[string]interface{}{"rules": rules.Name, "case": in},
			fmt.Sprintf("Process error %v, step-by-step %s", err2, out))
	}
	if err2 == nil && errAt < 0 {
		if used2 != *usedGas || len(rs2) != len(receipts) {
			run.Violate("process-differs-from-loop", "process-gas", map[string]interface{}{"rules": rules.Name, "case": in}, fmt.Sprintf("Process used %d, loop %d", used2, *usedGas))
		} else {
			for i := range rs2 {
				a, _ := rlp.EncodeToBytes(rs2[i])
				b, _ := rlp.EncodeToBytes(receipts[i])
				if !bytes.Equal(a, b) || rs2[i].GasUsed != receipts[i].GasUsed {
					run.Violate("process-differs-from-loop", "process-receipt", map[string]interface{}{"rules": rules.Name, "case": in}, fmt.Sprintf("receipt %d differs", i))
				}
			}
			// Process = loop + engine.Finalize
			bc.Engine().Finalize(bc, hdr, st, stxs, nil, receipts)
			if r1, r2 := st.IntermediateRoot(rules.EIP158), st2.IntermediateRoot(rules.EIP158); r1 != r2 {
				run.Violate("process-differs-from-loop", "process-root", map[string]interface{}{"rules": rules.Name, "case": in}, "state roots differ")
			}
			// re-open the state Process produced at its committed root: fees + reward must be there
			if root, cerr := st2.Commit(rules.EIP158); cerr == nil {
				if re, oerr := state.New(root, st2.Database()); oerr == nil {
					for j, a := range tracked {
						if re.GetBalance(a).Cmp(st.GetBalance(a)) != 0 {
							who := "sender"
							if a == coinbase {
								who = "coinbase"
							}
							run.Violate("committed-state-differs-from-live", "process-committed!=live:"+who, map[string]interface{}{"rules": rules.Name, "case": in, "family": family},
								fmt.Sprintf("account %d (%s): %s in the state re-opened at the root Process committed, %s in the live StateDB after the same transactions + Finalize",
									j, who, re.GetBalance(a), st.GetBalance(a)))
						}
					}
				}
			}
		}
		// ValidateState's gas comparison
		if len(rs2) > 0 && rs2[len(rs2)-1].CumulativeGasUsed != used2 {
			run.Violate("cumulative-gas", "process-cumulative", map[string]interface{}{"rules": rules.Name}, "last cumulative != usedGas")
		}
	}
}

var chains = map[string]*core.BlockChain{}

func chainFor(rules txlib.Rules) *core.BlockChain {
	if bc, ok := chains[rules.Name]; ok {
		return bc
	}
	bc, _ := txlib.NewChain(rules.Cfg)
	chains[rules.Name] = bc
	return bc
}

// checkReceiptFormat: pre-Byzantium the consensus encoding starts with the 32-byte intermediate root, afterwards with the status.
func checkReceiptFormat(rules txlib.Rules, rc *types.Receipt, st *state.StateDB, idx int) bool {
	enc, err := rlp.EncodeToBytes(rc)
	if err != nil {
		panic(err)
	}
	content, _, err := rlp.SplitList(enc)
	if err != nil {
		panic(err)
	}
	_, first, _, err := rlp.Split(content)
	if err != nil {
		panic(err)
	}
	hasRoot := len(first) == 32
	in := map[string]interface{}{"rules": rules.Name, "index": idx}
	if hasRoot == rules.Byzantium {
		run.Violate("receipt-format", "receipt-format", in, fmt.Sprintf("byzantium=%v but first field has %d bytes", rules.Byzantium, len(first)))
	}
	if hasRoot {
		if root := st.IntermediateRoot(rules.EIP158); !bytes.Equal(first, root[:]) {
			run.Violate("receipt-format", "receipt-root", in, "PostState is not the intermediate state root")
		}
	} else {
		okb := len(first) == 1 && first[0] == 1
		failb := len(first) == 0
		if !(okb && rc.Status == types.ReceiptStatusSuccessful) && !(failb && rc.Status == types.ReceiptStatusFailed) {
			run.Violate("receipt-format", "receipt-status", in, fmt.Sprintf("status field %x vs Status %d", first, rc.Status))
		}
	}
	return hasRoot
}

// ---------------------------------------------------------------------------------------------------------------------
// a few blocks through the real BlockChain.InsertChain: an invalid transaction or a wrong header.GasUsed rejects the block

func runInsertChain(r *hx.Rng, n int) {
	for i := 0; i < n; i++ {
		rules := txlib.Variants()[4] // byzantium rules; heights 1.. (all forks at 0)
		if o := hx.Safe(func() string { oneInsert(r, rules, i); return "" }); o != "" {
			run.Violate("panic", "panic:insert", map[string]interface{}{"rules": rules.Name}, o)
		}
	}
}

func oneInsert(r *hx.Rng, rules txlib.Rules, idx int) {
	db := newMemDB()
	funds := new(big.Int).Lsh(big.NewInt(1), 80)
	g := &core.Genesis{Config: rules.Cfg, GasLimit: 4712388, Difficulty: big.NewInt(1), Alloc: core.GenesisAlloc{keys[0].Addr: {Balance: funds}}}
	genesis := g.MustCommit(db)
	engine := aquahash.NewFullFaker()
	bc, err := core.NewBlockChain(context.Background(), db, nil, rules.Cfg, engine, vm.Config{})
	if err != nil {
		panic(err)
	}
	defer bc.Stop()
	signer := types.MakeSigner(rules.Cfg, big.NewInt(1))
	mk := func(nonce uint64, gas uint64, price int64, value *big.Int) *types.Transaction {
		tx, err := types.SignTx(types.NewTransaction(nonce, other, value, gas, big.NewInt(price), nil), signer, keys[0].Priv)
		if err != nil {
			panic(err)
		}
		return tx
	}
	mode := idx % 7
	var bad *types.Transaction
	switch mode {
	case 1:
		bad = mk(5, 21000, 1, big.NewInt(1)) // nonce too high
	case 2:
		bad = mk(1, 20999, 1, big.NewInt(1)) // below intrinsic
	case 3:
		bad = mk(1, 21000, 1, new(big.Int).Lsh(big.NewInt(1), 90)) // cannot pay the value
	case 4:
		bad = mk(1, 5000000, 1, big.NewInt(1)) // above the block gas limit
	}
	good, _ := core.GenerateChain(context.Background(), rules.Cfg, genesis, engine, db, 1, func(i int, b *core.BlockGen) {
		b.SetCoinbase(cbAddr)
		b.AddTx(mk(0, 21000+uint64(r.Intn(100)), 1+int64(r.Intn(5)), big.NewInt(int64(r.Intn(1000)))))
	})
	blk := good[0]
	label := []string{"valid", "nonce-high", "below-intrinsic", "cannot-pay-value", "above-block-gas", "header-gasused+1", "empty-block-claims-gas"}[mode]
	if mode == 6 {
		// a block WITHOUT transactions whose header claims gasUsed > 0
		empty, _ := core.GenerateChain(context.Background(), rules.Cfg, genesis, engine, db, 1, func(i int, b *core.BlockGen) { b.SetCoinbase(cbAddr) })
		h := empty[0].Header()
		h.GasUsed = uint64(1 + r.Intn(100000))
		blk = empty[0].WithSeal(h)
	}
	if bad != nil {
		h := blk.Header()
		blk = types.NewBlock(h, append(types.Transactions{}, append(blk.Transactions(), bad)...), nil, nil)
		// NewBlock recomputes TxHash; receipts/bloom/root of the original remain (irrelevant: Process fails first)
	} else if mode == 5 {
		h := blk.Header()
		h.GasUsed++
		blk = blk.WithSeal(h)
	}
	headBefore := bc.CurrentBlock().Hash()
	_, ierr := bc.InsertChain(types.Blocks{blk})
	run.Count("insert:" + label)
	in := map[string]interface{}{"mode": label}
	if mode == 0 {
		if ierr != nil || bc.CurrentBlock().Hash() != blk.Hash() {
			run.Violate("valid-block-refused", "insert-valid", in, fmt.Sprint(ierr))
		}
		return
	}
	if ierr == nil || bc.CurrentBlock().Hash() != headBefore {
		run.Violate("invalid-block-accepted", "insert:"+label, in, fmt.Sprintf("InsertChain error %v, head moved: %v", ierr, bc.CurrentBlock().Hash() != headBefore))
	}
}

// ---------------------------------------------------------------------------------------------------------------------

func newMemDB() aquadb.Database { return aquadb.NewMemDatabase() }

func main() {
	run = hx.Start()
	for i := range keys {
		keys[i] = txlib.NewKey(i)
	}
	run.Watch(120*time.Second, 3<<30, func(cur string) string { return "watchdog:" + strings.SplitN(cur, " ", 3)[0] })
	r := hx.NewRng(run.Seed)
	nMsg, nBlk, nIg, nGp, nIns, nFs := 8000, 1200, 300, 400, 7, 30
	if run.Thorough() {
		nMsg, nBlk, nIg, nGp, nIns, nFs = 40000, 5000, 3000, 4000, 28, 300
	}
	runIntrinsic(r.Fork(1), nIg)
	runGasPool(r.Fork(2), nGp)
	runBoundary(r.Fork(3))
	runMsgCases(r.Fork(4), nMsg)
	runBlocks(r.Fork(5), nBlk)
	runInsertChain(r.Fork(6), nIns)
	runFastSync(r.Fork(7), nFs)
	run.Finish()
}

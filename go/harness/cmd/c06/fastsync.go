// fastsync.go: the same generated valid chains imported on BOTH import paths — a full node (BlockChain.InsertChain, transactions
// executed) and a fast-syncing node (InsertHeaderChain + InsertReceiptChain fed with bodies and the CONSENSUS encoding of the
// receipts, so that core.SetReceiptsData has to derive TxHash, ContractAddress, per-transaction GasUsed and the log positions).
// Receipts are read back on both nodes through GetReceiptsByHash, core.GetBlockReceipts and core.GetReceipt and judged per
// receipt; the per-transaction gas the fast node serves is additionally compared with the model (`srd` cases:
// Tx.setReceiptsData_spec = differences of the cumulative values).
package main

import (
	"bytes"
	"context"
	"fmt"
	"math/big"
	"strings"

	"gitlab.com/aquachain/aquachain/aquadb"
	"gitlab.com/aquachain/aquachain/common"
	"gitlab.com/aquachain/aquachain/consensus/aquahash"
	"gitlab.com/aquachain/aquachain/core"
	"gitlab.com/aquachain/aquachain/core/types"
	"gitlab.com/aquachain/aquachain/core/vm"
	"gitlab.com/aquachain/aquachain/crypto"
	"gitlab.com/aquachain/aquachain/rlp"
	"verifharness/hx"
	"verifharness/txlib"
)

type fsTx struct {
	from   int
	create bool
	to     common.Address
	beh    behaviour
	value  *big.Int
	price  *big.Int
	data   []byte
	extra  uint64 // gas above intrinsic
}

func runFastSync(r *hx.Rng, n int) {
	variants := txlib.Variants()
	for i := 0; i < n; i++ {
		rules := variants[1+r.Intn(len(variants)-1)] // homestead, hf5, eip158, byzantium (both receipt formats)
		if o := hx.Safe(func() string { oneFastSync(r, rules); return "" }); o != "" {
			run.Violate("panic", "panic:fastsync", map[string]interface{}{"rules": rules.Name}, o)
		}
	}
}

func oneFastSync(r *hx.Rng, rules txlib.Rules) {
	// block sizes: 1, 2, 3 and 5+ transactions, in random order
	layout := []int{1, 2, 3, 5 + r.Intn(3)}
	for i := range layout {
		j := r.Intn(len(layout))
		layout[i], layout[j] = layout[j], layout[i]
	}
	// plan the transactions and the callee installed for each
	funds := new(big.Int).Lsh(big.NewInt(1), 90)
	alloc := core.GenesisAlloc{other: {Balance: bi(12345)}}
	for i := range keys {
		alloc[keys[i].Addr] = core.GenesisAccount{Balance: funds}
	}
	var plan [][]fsTx
	k := 0
	for _, sz := range layout {
		var blk []fsTx
		for j := 0; j < sz; j++ {
			t := fsTx{from: r.Intn(3), value: bi(uint64(r.Intn(50))), price: bi(uint64(r.Intn(5))), extra: uint64(25000 + r.Intn(150000))}
			t.create = r.Intn(5) == 0
			if t.create {
				lib := initCodes(r, keys[t.from].Addr, cbAddr)
				t.beh = lib[r.Intn(len(lib))]
				if t.beh.name == "create-over-maxcode" { // needs ~5M gas: keep the blocks small
					t.beh = lib[0]
				}
				t.data = t.beh.code
			} else {
				lib := behaviours(r, rules, keys[t.from].Addr, cbAddr)
				t.beh = lib[r.Intn(len(lib))]
				t.to = txlib.AddrN(0xfa5700 + uint64(k))
				t.data = randData(r)
				acct := core.GenesisAccount{Balance: new(big.Int), Nonce: 1, Code: t.beh.code, Storage: map[common.Hash]common.Hash{}}
				if t.beh.balance != nil {
					acct.Balance = t.beh.balance
				}
				for sk, sv := range t.beh.storage {
					acct.Storage[common.BigToHash(bi(sk))] = common.BigToHash(bi(sv))
				}
				if t.beh.code == nil {
					acct.Nonce = 0
				}
				alloc[t.to] = acct
				if t.beh.helper != nil {
					alloc[helperA] = core.GenesisAccount{Balance: new(big.Int), Nonce: 1, Code: t.beh.helper}
				}
			}
			k++
			blk = append(blk, t)
		}
		plan = append(plan, blk)
	}
	gspec := &core.Genesis{Config: rules.Cfg, GasLimit: 8000000, Difficulty: big.NewInt(1), Alloc: alloc}
	engine := aquahash.NewFullFaker()
	genDb := aquadb.NewMemDatabase()
	genesis := gspec.MustCommit(genDb)
	type meta struct {
		t      fsTx
		sender common.Address
		nonce  uint64
	}
	metas := make([][]meta, len(plan))
	blocks, genReceipts := core.GenerateChain(context.Background(), rules.Cfg, genesis, engine, genDb, len(plan), func(i int, b *core.BlockGen) {
		b.SetCoinbase(cbAddr)
		signer := types.MakeSigner(rules.Cfg, b.Number())
		for _, t := range plan[i] {
			sender := keys[t.from].Addr
			nonce := b.TxNonce(sender)
			ig := intrinsic(t.data, t.create, rules.Homestead)
			var raw *types.Transaction
			if t.create {
				raw = types.NewContractCreation(nonce, t.value, ig+t.extra, t.price, t.data)
			} else {
				raw = types.NewTransaction(nonce, t.to, t.value, ig+t.extra, t.price, t.data)
			}
			tx, err := types.SignTx(raw, signer, keys[t.from].Priv)
			if err != nil {
				panic(err)
			}
			b.AddTx(tx)
			metas[i] = append(metas[i], meta{t, sender, nonce})
		}
	})
	// what travels over the wire during fast sync: the consensus RLP only
	wire := make([]types.Receipts, len(genReceipts))
	for i, rs := range genReceipts {
		enc, err := rlp.EncodeToBytes(rs)
		if err != nil {
			panic(err)
		}
		if err := rlp.DecodeBytes(enc, &wire[i]); err != nil {
			panic(err)
		}
	}
	newNode := func() (*core.BlockChain, aquadb.Database) {
		db := aquadb.NewMemDatabase()
		gspec.MustCommit(db)
		bc, err := core.NewBlockChain(context.Background(), db, nil, rules.Cfg, engine, vm.Config{})
		if err != nil {
			panic(err)
		}
		return bc, db
	}
	full, fullDb := newNode()
	defer full.Stop()
	fast, fastDb := newNode()
	defer fast.Stop()
	in := map[string]interface{}{"rules": rules.Name, "layout": fmt.Sprint(layout)}
	run.Current(fmt.Sprintf("fastsync %s %v", rules.Name, layout))
	if n, err := full.InsertChain(blocks); err != nil {
		run.Violate("valid-block-refused", "fastsync-full-insert", in, fmt.Sprintf("full node refused generated block %d: %v", n, err))
		return
	}
	headers := make([]*types.Header, len(blocks))
	for i, b := range blocks {
		headers[i] = b.Header()
	}
	if n, err := fast.InsertHeaderChain(headers, 1); err != nil {
		run.Violate("valid-block-refused", "fastsync-headers", in, fmt.Sprintf("fast node refused header %d: %v", n, err))
		return
	}
	if n, err := fast.InsertReceiptChain(blocks, wire); err != nil {
		run.Violate("valid-block-refused", "fastsync-receipts", in, fmt.Sprintf("fast node refused receipts %d: %v", n, err))
		return
	}
	run.Count("fastsync:chains:" + rules.Name)

	type node struct {
		name string
		bc   *core.BlockChain
		db   aquadb.Database
	}
	nodes := []node{{"full", full, fullDb}, {"fast", fast, fastDb}}
	served := map[string][]types.Receipts{}
	for _, nd := range nodes {
		for bi_, block := range blocks {
			txs := block.Transactions()
			rs := nd.bc.GetReceiptsByHash(block.Hash())
			served[nd.name] = append(served[nd.name], rs)
			where := fmt.Sprintf("%s node, %s, block %d (%d txs)", nd.name, rules.Name, block.NumberU64(), len(txs))
			vin := map[string]interface{}{"rules": rules.Name, "node": nd.name, "layout": fmt.Sprint(layout), "block": block.NumberU64(), "ntx": len(txs)}
			viol := func(kind, sig, detail string) { run.Violate(kind, sig, vin, where+": "+detail) }
			if len(rs) != len(txs) {
				viol("receipt-count", "served-receipt-count:"+nd.name, fmt.Sprintf("%d receipts for %d transactions", len(rs), len(txs)))
				continue
			}
			// the three read paths serve the same thing
			rs2 := core.GetBlockReceipts(nd.db, block.Hash(), block.NumberU64())
			if len(rs2) != len(rs) {
				viol("receipt-read-paths", "served-read-paths:"+nd.name, "GetBlockReceipts and GetReceiptsByHash differ in length")
			}
			var sum uint64
			var prevCum uint64
			logIdx := uint(0)
			var cums, gases []string
			for j, rc := range rs {
				tx := txs[j]
				mt := metas[bi_][j]
				ig := intrinsic(tx.Data(), tx.To() == nil, rules.Homestead)
				run.Count("fastsync:receipts:" + nd.name)
				cums = append(cums, fmt.Sprint(rc.CumulativeGasUsed))
				gases = append(gases, fmt.Sprint(rc.GasUsed))
				// GasUsed = cumulative[j] − cumulative[j−1]
				if rc.GasUsed != rc.CumulativeGasUsed-prevCum {
					viol("receipt-gas-not-cumulative-difference", fmt.Sprintf("served-gasUsed!=cumulative-difference:%s:index>=%d", nd.name, min(j, 2)),
						fmt.Sprintf("tx %d: gasUsed %d, cumulative %d, previous cumulative %d", j, rc.GasUsed, rc.CumulativeGasUsed, prevCum))
				}
				prevCum = rc.CumulativeGasUsed
				if rc.GasUsed > tx.Gas() {
					viol("gas-above-limit", "served-gasUsed>gasLimit:"+nd.name, fmt.Sprintf("tx %d: gasUsed %d, gas limit %d", j, rc.GasUsed, tx.Gas()))
				}
				if rc.GasUsed < ig {
					refunding := strings.HasPrefix(mt.t.beh.name, "sstore-clear") || strings.Contains(mt.t.beh.name, "suicide")
					if refunding && 2*rc.GasUsed >= ig {
						known("gas-below-intrinsic", sigRefundBelowIntrinsic, vin, fmt.Sprintf("%s: tx %d (%s): served gasUsed %d < intrinsic %d", where, j, mt.t.beh.name, rc.GasUsed, ig))
					} else {
						viol("gas-below-intrinsic", "served-gasUsed<intrinsic:unexplained:"+nd.name, fmt.Sprintf("tx %d (%s): gasUsed %d < intrinsic %d", j, mt.t.beh.name, rc.GasUsed, ig))
					}
				}
				sum += rc.GasUsed
				// derived fields
				if rc.TxHash != tx.Hash() {
					viol("receipt-derived-field", "served-txhash:"+nd.name, fmt.Sprintf("tx %d: receipt carries another transaction hash", j))
				}
				wantAddr := common.Address{}
				if tx.To() == nil {
					wantAddr = crypto.CreateAddress(mt.sender, mt.nonce)
				}
				if rc.ContractAddress != wantAddr {
					viol("receipt-derived-field", "served-contract-address:"+nd.name, fmt.Sprintf("tx %d: contract address %x, expected %x", j, rc.ContractAddress, wantAddr))
				}
				for _, lg := range rc.Logs {
					if lg.BlockNumber != block.NumberU64() || lg.BlockHash != block.Hash() || lg.TxHash != tx.Hash() || lg.TxIndex != uint(j) || lg.Index != logIdx {
						viol("receipt-derived-field", "served-log-position:"+nd.name, fmt.Sprintf("tx %d: log position (block %d, txIndex %d, index %d), expected (%d, %d, %d)",
							j, lg.BlockNumber, lg.TxIndex, lg.Index, block.NumberU64(), j, logIdx))
					}
					logIdx++
				}
				// by transaction hash
				one, bh, bn, idx := core.GetReceipt(nd.db, tx.Hash())
				if one == nil || bh != block.Hash() || bn != block.NumberU64() || idx != uint64(j) || one.GasUsed != rc.GasUsed || one.CumulativeGasUsed != rc.CumulativeGasUsed {
					viol("receipt-read-paths", "served-getreceipt:"+nd.name, fmt.Sprintf("tx %d: GetReceipt disagrees with GetReceiptsByHash", j))
				}
				if j < len(rs2) && (rs2[j].GasUsed != rc.GasUsed || rs2[j].TxHash != rc.TxHash) {
					viol("receipt-read-paths", "served-getblockreceipts:"+nd.name, fmt.Sprintf("tx %d: GetBlockReceipts disagrees with GetReceiptsByHash", j))
				}
			}
			if sum != block.GasUsed() || block.GasUsed() > block.GasLimit() {
				viol("cumulative-gas", "served-sum!=header.gasUsed:"+nd.name, fmt.Sprintf("sum of the receipts' gasUsed %d, header gasUsed %d, gas limit %d", sum, block.GasUsed(), block.GasLimit()))
			}
			if len(rs) > 0 && rs[len(rs)-1].CumulativeGasUsed != block.GasUsed() {
				viol("cumulative-gas", "served-last-cumulative:"+nd.name, "last cumulative gas differs from header gasUsed")
			}
			// the model derives the per-transaction gas from the cumulative values (core.SetReceiptsData)
			if nd.name == "fast" {
				run.Case("srd "+strings.Join(cums, ","), strings.Join(gases, ","))
				run.Count(fmt.Sprintf("srd:ntx:%d", min(len(txs), 5)))
			}
		}
	}
	// fast = full, field by field
	for bi_, block := range blocks {
		fr, ar := served["fast"][bi_], served["full"][bi_]
		if len(fr) != len(ar) {
			continue
		}
		for j := range fr {
			var diffs []string
			if fr[j].GasUsed != ar[j].GasUsed {
				diffs = append(diffs, fmt.Sprintf("gasUsed %d vs %d", fr[j].GasUsed, ar[j].GasUsed))
			}
			if fr[j].CumulativeGasUsed != ar[j].CumulativeGasUsed {
				diffs = append(diffs, "cumulativeGasUsed")
			}
			if fr[j].Status != ar[j].Status {
				diffs = append(diffs, "status")
			}
			if !bytes.Equal(fr[j].PostState, ar[j].PostState) {
				diffs = append(diffs, "postState")
			}
			if fr[j].Bloom != ar[j].Bloom {
				diffs = append(diffs, "bloom")
			}
			if fr[j].TxHash != ar[j].TxHash {
				diffs = append(diffs, "txHash")
			}
			if fr[j].ContractAddress != ar[j].ContractAddress {
				diffs = append(diffs, "contractAddress")
			}
			if len(fr[j].Logs) != len(ar[j].Logs) {
				diffs = append(diffs, "log count")
			} else {
				for q := range fr[j].Logs {
					a, b := fr[j].Logs[q], ar[j].Logs[q]
					if a.Address != b.Address || !bytes.Equal(a.Data, b.Data) || fmt.Sprint(a.Topics) != fmt.Sprint(b.Topics) || a.BlockNumber != b.BlockNumber ||
						a.BlockHash != b.BlockHash || a.TxHash != b.TxHash || a.TxIndex != b.TxIndex || a.Index != b.Index {
						diffs = append(diffs, fmt.Sprintf("log %d", q))
					}
				}
			}
			if len(diffs) > 0 {
				run.Violate("fast-differs-from-full", "fast!=full:"+strings.SplitN(diffs[0], " ", 2)[0], map[string]interface{}{"rules": rules.Name, "layout": fmt.Sprint(layout),
					"block": block.NumberU64(), "tx": j}, fmt.Sprintf("%s block %d (%d txs) tx %d: fast node and full node serve different receipts: %s", rules.Name,
					block.NumberU64(), len(fr), j, strings.Join(diffs, ", ")))
			}
		}
	}
}

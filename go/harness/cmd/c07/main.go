// c07: correspondence + direct-judgement harness for property C07 (EVM execution is total, gas-bounded and sandboxed).
//
// Drives the REAL core/vm (EVM.Call / Create / StaticCall / CallCode on a real core/state.StateDB) under an own
// implementation of vm.Tracer, on random, structured and adversarial byte code, for gas budgets 0 … block limit (plus a few
// far larger budgets that are the only way to reach the depth limit under the 63/64 rule), in five rule sets:
// homestead (pre-HF1 and HF1 gas table), byzantium, HF5 "spring" before HF7 (STATICCALL exists, Byzantium rules off) and
// spring with Byzantium rules.
//
// Direct judgements (the property statement, on the real code, per run and per frame):
//
//	panic                 a Go panic escaped EVM.Call/Create/…                    ("terminates without crashing the node")
//	hang / oom            watchdog                                                 ("terminates")
//	gas-overuse           leftover gas > gas given (top level); a frame's gas exceeds what it was given; gas grows between
//	                      two steps of a frame by more than the child frame was given
//	memory-unpaid         3w + w²/512 > gas spent in the frame so far, w = len(memory)/32 (at every step of every frame)
//	depth-exceeded        evm.depth of a running frame > 1025 (nesting below the outermost frame > 1024)
//	failed-frame-state    a frame returned an error (CALL*/CREATE pushed 0, or the top-level call returned err) and the world
//	                      (existence, balance, nonce, code, storage, suicide flags, logs, refund of every address/slot the
//	                      run ever touched) differs from the world when the frame was entered — a failed CREATE may keep its
//	                      creator's nonce increment
//	static-write          under Byzantium rules, inside a STATICCALL frame (or a top-level StaticCall): a state-modifying
//	                      opcode (SSTORE, LOGn, CREATE, SELFDESTRUCT, CALL with value) executed, or balance / nonce / code /
//	                      storage / log count differ between frame entry and exit
//
// Correspondence: for every run whose trace has at most stepCap steps a case line carries the oracle the Lean model needs
// (opcode, operand values, StateDB answers, callee description per step); the model (Aqv.Model.Vm.run with the generated
// tables) replays it and must reproduce outcome class, leftover gas, number of steps, maximal depth, maximal memory and a
// checksum over (gas, cost, memory length, depth, stack height, opcode) of every executed step.
package main

import (
	"fmt"
	"math/big"
	"runtime"
	"sort"
	"strings"
	"time"

	"gitlab.com/aquachain/aquachain/aquadb"
	"gitlab.com/aquachain/aquachain/common"
	"gitlab.com/aquachain/aquachain/core/state"
	"gitlab.com/aquachain/aquachain/core/vm"
	"gitlab.com/aquachain/aquachain/crypto"
	"gitlab.com/aquachain/aquachain/params"
	"verifharness/hx"
)

const (
	stepCap    = 12000// traces up to this many steps are replayed by the model
	blockLimit = params.GenesisGasLimit
	csMod      = 2147483647
)

// ---------------------------------------------------------------------------------------------------------------------
// rule sets (the same table as vfConfigs in go/overlay/core/vm/dump_flags_test.go; cross-checked through the `cfg` case)

type ruleSet struct {
	name   string
	cfg    *params.ChainConfig
	height uint64
}

func ruleSets() []ruleSet {
	byz := &params.ChainConfig{ChainId: big.NewInt(7), HomesteadBlock: big.NewInt(0), EIP150Block: big.NewInt(0), EIP155Block: big.NewInt(0),
		EIP158Block: big.NewInt(0), ByzantiumBlock: big.NewInt(0), Aquahash: new(params.AquahashConfig), HF: params.ForkMap{1: big.NewInt(0)}}
	return []ruleSet{
		{"homestead", params.MainnetChainConfig, 100},
		{"homesteadHF1", params.MainnetChainConfig, 5000},
		{"byzantium", byz, 10},
		{"springPre7", params.MainnetChainConfig, 30000},
		{"spring", params.MainnetChainConfig, 40000},
	}
}

// ---------------------------------------------------------------------------------------------------------------------
// addresses

var (
	addrS = common.HexToAddress("0x1000000000000000000000000000000000000001") // sender (EOA, rich)
	addrA = common.HexToAddress("0xaa00000000000000000000000000000000000001") // main contract
	addrB = common.HexToAddress("0xbb00000000000000000000000000000000000002") // helper contract
	addrC = common.HexToAddress("0xcc00000000000000000000000000000000000003") // helper contract
	addrE = common.HexToAddress("0xee00000000000000000000000000000000000004") // existing EMPTY account
	addrN = common.HexToAddress("0xdd00000000000000000000000000000000000005") // non-existent account
	addrP = common.HexToAddress("0x1100000000000000000000000000000000000006") // poor EOA (balance 0) — unused as sender except for balance tests
)

var emptyCodeHash = crypto.Keccak256Hash(nil)

// ---------------------------------------------------------------------------------------------------------------------
// StateDB wrapper: records the universe of addresses / slots the run touches (for the world view)

type wdb struct {
	*state.StateDB
	seen  map[common.Address]int
	order []common.Address
	slots map[common.Address][]common.Hash
	sseen map[common.Address]map[common.Hash]bool
}

func newWdb(s *state.StateDB) *wdb {
	return &wdb{StateDB: s, seen: map[common.Address]int{}, slots: map[common.Address][]common.Hash{}, sseen: map[common.Address]map[common.Hash]bool{}}
}
func (w *wdb) note(a common.Address) {
	if _, ok := w.seen[a]; !ok {
		w.seen[a] = len(w.order)
		w.order = append(w.order, a)
	}
}
func (w *wdb) noteSlot(a common.Address, k common.Hash) {
	w.note(a)
	m := w.sseen[a]
	if m == nil {
		m = map[common.Hash]bool{}
		w.sseen[a] = m
	}
	if !m[k] {
		m[k] = true
		w.slots[a] = append(w.slots[a], k)
	}
}
func (w *wdb) CreateAccount(a common.Address)             { w.note(a); w.StateDB.CreateAccount(a) }
func (w *wdb) SubBalance(a common.Address, v *big.Int)    { w.note(a); w.StateDB.SubBalance(a, v) }
func (w *wdb) AddBalance(a common.Address, v *big.Int)    { w.note(a); w.StateDB.AddBalance(a, v) }
func (w *wdb) SetNonce(a common.Address, n uint64)        { w.note(a); w.StateDB.SetNonce(a, n) }
func (w *wdb) SetCode(a common.Address, c []byte)         { w.note(a); w.StateDB.SetCode(a, c) }
func (w *wdb) Suicide(a common.Address) bool              { w.note(a); return w.StateDB.Suicide(a) }
func (w *wdb) GetState(a common.Address, k common.Hash) common.Hash {
	w.noteSlot(a, k)
	return w.StateDB.GetState(a, k)
}
func (w *wdb) SetState(a common.Address, k, v common.Hash) { w.noteSlot(a, k); w.StateDB.SetState(a, k, v) }

type acctView struct {
	exist, suicided bool
	bal             string
	nonce           uint64
	code            string
	storage         string
}

func (v acctView) core() string { return fmt.Sprintf("b=%s n=%d c=%s st=%s", v.bal, v.nonce, v.code, v.storage) }
func (v acctView) full() string { return fmt.Sprintf("e=%t s=%t %s", v.exist, v.suicided, v.core()) }

type worldView struct {
	accts  []acctView // aligned with wdb.order (prefix)
	logs   int
	refund uint64
}

func (w *wdb) view() *worldView {
	s := w.StateDB
	out := &worldView{accts: make([]acctView, len(w.order)), logs: len(s.Logs()), refund: s.GetRefund()}
	for i, a := range w.order {
		v := acctView{exist: s.Exist(a), suicided: s.HasSuicided(a), bal: s.GetBalance(a).String(), nonce: s.GetNonce(a)}
		if c := s.GetCode(a); len(c) > 0 {
			v.code = s.GetCodeHash(a).Hex()[2:10] + fmt.Sprint(len(c))
		}
		var sb strings.Builder
		for _, k := range w.slots[a] {
			if val := s.GetState(a, k); val != (common.Hash{}) {
				sb.WriteString(k.Hex()[58:] + "=" + val.Hex()[58:] + ";")
			}
		}
		v.storage = sb.String()
		out.accts[i] = v
	}
	return out
}

var absentAcct = acctView{bal: "0"}

// diffViews: "" if equal. creator/nonce tolerance: the account `creator` may have nonce = before+1 (failed CREATE).
func (w *wdb) diffViews(before, after *worldView, staticOnly bool, creator *common.Address) string {
	for i := range after.accts {
		b := absentAcct
		if i < len(before.accts) {
			b = before.accts[i]
		}
		a := after.accts[i]
		if creator != nil && w.order[i] == *creator && a.nonce == b.nonce+1 {
			a.nonce = b.nonce
		}
		if staticOnly {
			if a.core() != b.core() {
				return fmt.Sprintf("account %x: entry{%s} exit{%s}", w.order[i], b.core(), a.core())
			}
		} else if a.full() != b.full() {
			return fmt.Sprintf("account %x: entry{%s} exit{%s}", w.order[i], b.full(), a.full())
		}
	}
	if before.logs != after.logs {
		return fmt.Sprintf("log count: entry %d exit %d", before.logs, after.logs)
	}
	if !staticOnly && before.refund != after.refund {
		return fmt.Sprintf("refund counter: entry %d exit %d", before.refund, after.refund)
	}
	return ""
}

// ---------------------------------------------------------------------------------------------------------------------
// tracer

type pendingCall struct {
	op      vm.OpCode
	view    *worldView
	creator common.Address
	static  bool // the callee frame runs in static context (by the harness' own tracking of STATICCALL nesting)
	pc      uint64
}

type frameInfo struct {
	given      uint64
	static     bool
	steps      int
	lastAfter  uint64
	lastCall   bool
	lastCost   uint64
	childGiven uint64
	childSeen  bool
	pend       *pendingCall
}

type stepRec struct {
	op      byte
	args    []*big.Int
	flags   string
	execErr bool
}

type tracer struct {
	run      *hx.Run
	db       *wdb
	byz      bool
	desc     string // replayable description of the case (for violations)
	frames   []*frameInfo
	topStat  bool
	steps    []stepRec
	nsteps   int
	executed int
	maxDepth int
	maxMem   int
	cs       uint64
	viol     map[string]bool
	opHist   *[256]int
}

func (t *tracer) violate(kind, sig, detail string) {
	key := kind + "|" + sig
	if t.viol[key] {
		return
	}
	t.viol[key] = true
	t.run.Violate(kind, sig, t.desc, detail)
}

func (t *tracer) CaptureStart(from, to common.Address, create bool, input []byte, gas uint64, value *big.Int) error {
	return nil
}
func (t *tracer) CaptureEnd(output []byte, gasUsed uint64, d time.Duration, err error) error { return nil }

func isCallLike(op vm.OpCode) bool {
	return op == vm.CALL || op == vm.CALLCODE || op == vm.DELEGATECALL || op == vm.STATICCALL || op == vm.CREATE
}

func needsArgs(op vm.OpCode) bool {
	switch op {
	case vm.EXP, vm.SHA3, vm.CALLDATACOPY, vm.CODECOPY, vm.EXTCODECOPY, vm.RETURNDATACOPY, vm.MLOAD, vm.MSTORE, vm.MSTORE8,
		vm.LOG0, vm.LOG1, vm.LOG2, vm.LOG3, vm.LOG4, vm.CREATE, vm.CALL, vm.CALLCODE, vm.RETURN, vm.DELEGATECALL, vm.STATICCALL, vm.REVERT:
		return true
	}
	return false
}

var argCount = map[vm.OpCode]int{vm.EXP: 2, vm.SHA3: 2, vm.CALLDATACOPY: 3, vm.CODECOPY: 3, vm.EXTCODECOPY: 4, vm.RETURNDATACOPY: 3, vm.MLOAD: 1,
	vm.MSTORE: 1, vm.MSTORE8: 1, vm.LOG0: 2, vm.LOG1: 2, vm.LOG2: 2, vm.LOG3: 2, vm.LOG4: 2, vm.CREATE: 3, vm.CALL: 7, vm.CALLCODE: 7, vm.RETURN: 2,
	vm.DELEGATECALL: 6, vm.STATICCALL: 6, vm.REVERT: 2}

func back(st *vm.Stack, n int) *big.Int {
	d := st.Data()
	if n >= len(d) {
		return new(big.Int)
	}
	return d[len(d)-1-n]
}

func bstr(b bool, t, f string) string {
	if b {
		return t
	}
	return f
}

func (t *tracer) precompiles() map[common.Address]vm.PrecompiledContract {
	if t.byz {
		return vm.PrecompiledContractsByzantium
	}
	return vm.PrecompiledContractsHomestead
}

// calleeFlags: the oracle answers about the callee of a CALL-family step / of a top-level call
func (t *tracer) calleeFlags(callee common.Address, input []byte) string {
	s := t.db.StateDB
	fl := bstr(s.Exist(callee), "E", "e") + bstr(s.Empty(callee), "M", "m")
	if p, ok := t.precompiles()[callee]; ok {
		fl += fmt.Sprintf("P%d.", p.RequiredGas(input))
	}
	if len(s.GetCode(callee)) == 0 {
		fl += "Z"
	}
	return fl
}

func (t *tracer) createFlags(creator common.Address, value *big.Int, codeLen int) string {
	s := t.db.StateDB
	fl := bstr(s.GetBalance(creator).Cmp(value) >= 0, "T", "t")
	nonce := s.GetNonce(creator)
	na := crypto.CreateAddress(creator, nonce)
	h := s.GetCodeHash(na)
	if s.GetNonce(na) != 0 || (h != (common.Hash{}) && h != emptyCodeHash) {
		fl += "X"
	}
	if codeLen == 0 {
		fl += "Z"
	}
	return fl
}

func (t *tracer) popTo(depth int) {
	for len(t.frames) > depth {
		t.frames = t.frames[:len(t.frames)-1]
	}
}

func (t *tracer) resolve(fr *frameInfo, top *big.Int) {
	p := fr.pend
	fr.pend = nil
	if p == nil {
		return
	}
	now := t.db.view()
	failed := top.Sign() == 0
	if failed {
		var cr *common.Address
		if p.op == vm.CREATE {
			cr = &p.creator
		}
		if d := t.db.diffViews(p.view, now, false, cr); d != "" {
			t.violate("failed-frame-state", fmt.Sprintf("%s-frame-failed-but-state-changed", p.op), fmt.Sprintf("pc=%d %s", p.pc, d))
		}
	}
	if p.static && t.byz {
		if d := t.db.diffViews(p.view, now, true, nil); d != "" {
			t.violate("static-write", "static-frame-changed-state", fmt.Sprintf("%s at pc=%d: %s", p.op, p.pc, d))
		}
	}
}

func (t *tracer) CaptureState(env *vm.EVM, pc uint64, op vm.OpCode, gas, cost uint64, memory *vm.Memory, stack *vm.Stack, contract *vm.Contract, depth int, err error) error {
	t.nsteps++
	if depth < 1 {
		t.violate("depth-exceeded", "depth<1", fmt.Sprint(depth))
		return nil
	}
	t.popTo(depth)
	if len(t.frames) < depth {
		st := t.topStat
		if n := len(t.frames); n > 0 {
			par := t.frames[n-1]
			st = par.static
			if par.pend != nil {
				st = par.pend.static
			}
			par.childGiven, par.childSeen = gas, true
		}
		for len(t.frames) < depth {
			t.frames = append(t.frames, &frameInfo{given: gas, static: st})
		}
	}
	fr := t.frames[depth-1]
	if fr.steps > 0 {
		if fr.pend != nil {
			t.resolve(fr, back(stack, 0))
		}
		allowed := fr.lastAfter
		if fr.lastCall {
			extra := fr.lastCost + params.CallStipend
			if fr.childSeen {
				extra = fr.childGiven
			}
			if allowed+extra >= allowed {
				allowed += extra
			}
		}
		if gas > allowed {
			t.violate("gas-overuse", "gas-grows-within-frame", fmt.Sprintf("depth=%d pc=%d op=%s gas=%d allowed=%d", depth, pc, op, gas, allowed))
		}
	}
	fr.steps++
	fr.childSeen = false
	if gas > fr.given {
		t.violate("gas-overuse", "frame-gas-exceeds-given", fmt.Sprintf("depth=%d pc=%d gas=%d given=%d", depth, pc, gas, fr.given))
	}
	if depth > int(params.CallCreateDepth)+1 {
		t.violate("depth-exceeded", "depth>1025", fmt.Sprintf("depth=%d", depth))
	}
	if ro := vm.VerifC07ReadOnly(env); ro != fr.static && t.byz {
		// the Go flag is the mechanism, the harness' tracking is the specification of "static context"
		t.violate("static-write", "readOnly-flag-differs-from-static-context", fmt.Sprintf("depth=%d pc=%d readOnly=%t static=%t", depth, pc, ro, fr.static))
	}
	rec := stepRec{op: byte(op)}
	if needsArgs(op) {
		n := argCount[op]
		for i := 0; i < n && i < len(stack.Data()); i++ {
			rec.args = append(rec.args, new(big.Int).Set(back(stack, i)))
		}
	}
	if err != nil {
		// deferred capture of a step that failed before execution (invalid opcode, stack, write protection, memory
		// overflow, out of gas): the model must fail at this step on its own; only the oracle answers are recorded
		rec.flags = t.oracleFlags(op, stack, memory, contract, true)
		if len(t.steps) < stepCap+1 {
			t.steps = append(t.steps, rec)
		}
		fr.lastAfter, fr.lastCall = gas, false
		return nil
	}
	t.executed++
	if depth > t.maxDepth {
		t.maxDepth = depth
	}
	t.opHist[byte(op)]++
	// ---- memory paid
	ml := memory.Len()
	if ml > t.maxMem {
		t.maxMem = ml
	}
	w := uint64(ml) / 32
	fee := w*params.MemoryGas + w*w/params.QuadCoeffDiv
	if cost > gas {
		t.violate("gas-overuse", "cost>gas", fmt.Sprintf("depth=%d pc=%d op=%s gas=%d cost=%d", depth, pc, op, gas, cost))
	} else if spent := fr.given - (gas - cost); fee > spent || ml%32 != 0 {
		t.violate("memory-unpaid", fmt.Sprintf("memory-exceeds-paid-gas:%s", op), fmt.Sprintf("depth=%d pc=%d memLen=%d fee=%d spentInFrame=%d", depth, pc, ml, fee, spent))
	}
	// ---- static
	if fr.static && t.byz {
		valueCall := op == vm.CALL && len(stack.Data()) >= 3 && back(stack, 2).Sign() != 0
		if op == vm.SSTORE || (op >= vm.LOG0 && op <= vm.LOG4) || op == vm.CREATE || op == vm.SELFDESTRUCT || valueCall {
			t.violate("static-write", fmt.Sprintf("state-modifying-op-executed-in-static-context:%s", op), fmt.Sprintf("depth=%d pc=%d", depth, pc))
		}
	}
	roBit := uint64(0)
	if vm.VerifC07ReadOnly(env) {
		roBit = 1 // interpreter.readOnly as the real EVM has it at this step: replayed by the model (Event.ro) through every nesting
	}
	t.cs = (t.cs*1000003 + gas%csMod + 3*(cost%csMod) + 5*uint64(ml) + 7*uint64(depth) + 11*uint64(len(stack.Data())) + 13*uint64(op) + 17*roBit) % csMod
	rec.flags = t.oracleFlags(op, stack, memory, contract, false)
	if len(t.steps) < stepCap+1 {
		t.steps = append(t.steps, rec)
	}
	fr.lastAfter, fr.lastCall, fr.lastCost = gas-cost, isCallLike(op), cost
	if isCallLike(op) {
		fr.pend = &pendingCall{op: op, view: t.db.view(), creator: contract.Address(), static: fr.static || op == vm.STATICCALL, pc: pc}
	}
	return nil
}

func (t *tracer) oracleFlags(op vm.OpCode, stack *vm.Stack, memory *vm.Memory, contract *vm.Contract, failed bool) string {
	s := t.db.StateDB
	n := len(stack.Data())
	switch op {
	case vm.SSTORE:
		if n < 2 {
			return ""
		}
		val := s.GetState(contract.Address(), common.BigToHash(back(stack, 0)))
		y := common.BigToHash(back(stack, 1))
		switch {
		case val == (common.Hash{}) && y != (common.Hash{}):
			return "s0"
		case val != (common.Hash{}) && y == (common.Hash{}):
			return "s1"
		}
		return "s2"
	case vm.SELFDESTRUCT:
		if n < 1 {
			return ""
		}
		a := common.BigToAddress(back(stack, 0))
		return bstr(s.Exist(a), "E", "e") + bstr(s.Empty(a), "M", "m") + bstr(s.GetBalance(contract.Address()).Sign() != 0, "B", "")
	case vm.CALL, vm.CALLCODE:
		if n < 7 {
			return ""
		}
		a := common.BigToAddress(back(stack, 1))
		var input []byte
		if !failed {
			input = memory.Get(back(stack, 3).Int64(), back(stack, 4).Int64())
		}
		return bstr(s.GetBalance(contract.Address()).Cmp(back(stack, 2)) >= 0, "T", "t") + t.calleeFlags(a, input)
	case vm.DELEGATECALL, vm.STATICCALL:
		if n < 6 {
			return ""
		}
		a := common.BigToAddress(back(stack, 1))
		var input []byte
		if !failed {
			input = memory.Get(back(stack, 2).Int64(), back(stack, 3).Int64())
		}
		return "T" + t.calleeFlags(a, input)
	case vm.CREATE:
		if n < 3 {
			return ""
		}
		cl := 1
		if back(stack, 2).Sign() == 0 {
			cl = 0
		}
		return t.createFlags(contract.Address(), back(stack, 0), cl)
	}
	return ""
}

func (t *tracer) CaptureFault(env *vm.EVM, pc uint64, op vm.OpCode, gas, cost uint64, memory *vm.Memory, stack *vm.Stack, contract *vm.Contract, depth int, err error) error {
	// execute returned an error for the step captured last (Run also reports REVERT's errExecutionReverted here)
	if err != nil && err.Error() == "evm: execution reverted" {
		return nil
	}
	if n := len(t.steps); n > 0 && n == t.nsteps {
		t.steps[n-1].execErr = true
	}
	return nil
}

// ---------------------------------------------------------------------------------------------------------------------
// assembler + program generators

type asm struct{ b []byte }

func (a *asm) op(ops ...byte) *asm { a.b = append(a.b, ops...); return a }
func (a *asm) push(v *big.Int) *asm {
	bs := v.Bytes()
	if len(bs) == 0 {
		bs = []byte{0}
	}
	if len(bs) > 32 {
		bs = bs[len(bs)-32:]
	}
	a.b = append(a.b, byte(0x60+len(bs)-1))
	a.b = append(a.b, bs...)
	return a
}
func (a *asm) pushU(v uint64) *asm              { return a.push(new(big.Int).SetUint64(v)) }
func (a *asm) pushAddr(x common.Address) *asm   { a.b = append(a.b, 0x73); a.b = append(a.b, x[:]...); return a }
func (a *asm) push2(v int) *asm                 { a.b = append(a.b, 0x61, byte(v>>8), byte(v)); return a }
func (a *asm) pos() int                         { return len(a.b) }
func (a *asm) patch2(at int, v int)             { a.b[at] = byte(v >> 8); a.b[at+1] = byte(v) }

func pow2(n uint) *big.Int { return new(big.Int).Lsh(big.NewInt(1), n) }

var hugeVals = []*big.Int{
	new(big.Int).Sub(pow2(256), big.NewInt(1)), pow2(255), pow2(64), new(big.Int).Sub(pow2(64), big.NewInt(1)), pow2(63),
	new(big.Int).Sub(pow2(63), big.NewInt(1)), pow2(32), big.NewInt(0xffffffffe0), big.NewInt(0xffffffffe1), big.NewInt(0xffffffffc1),
	pow2(31), pow2(24), pow2(20), pow2(16), new(big.Int).Sub(pow2(64), big.NewInt(32)), new(big.Int).Sub(pow2(64), big.NewInt(31)),
	new(big.Int).Sub(pow2(256), big.NewInt(32)), pow2(128),
}

type gen struct {
	r      *hx.Rng
	byz    bool // REVERT / RETURNDATA* / STATICCALL available
	shifts bool // SHL/SHR/SAR available
}

func (g *gen) small() *big.Int {
	if g.r.Intn(12) == 0 {
		return big.NewInt(int64(32*(1+g.r.Intn(4)) - 1 - g.r.Intn(2))) // last / last-but-one byte of a memory word
	}
	switch g.r.Intn(6) {
	case 0:
		return big.NewInt(0)
	case 1:
		return big.NewInt(int64(g.r.Intn(4)) * 32)
	case 2:
		return big.NewInt(int64(g.r.Intn(256)))
	case 3:
		return big.NewInt(int64(g.r.Intn(2048)))
	case 4:
		return big.NewInt(int64(1 + g.r.Intn(33)))
	}
	return big.NewInt(int64(g.r.Intn(70000)))
}
func (g *gen) huge() *big.Int { return hugeVals[g.r.Intn(len(hugeVals))] }
func (g *gen) val(hugePct int) *big.Int {
	if g.r.Intn(100) < hugePct {
		return g.huge()
	}
	return g.small()
}
func (g *gen) word() *big.Int {
	switch g.r.Intn(4) {
	case 0:
		return g.small()
	case 1:
		return g.huge()
	}
	return new(big.Int).SetBytes(g.r.Bytes(1 + g.r.Intn(32)))
}

var targets = []common.Address{addrA, addrB, addrC, addrE, addrN, addrS}

func (g *gen) target() common.Address {
	switch g.r.Intn(10) {
	case 0, 1, 2:
		return addrB
	case 3, 4:
		return addrC
	case 5:
		return addrA
	case 6:
		return common.BytesToAddress([]byte{byte(1 + g.r.Intn(9))}) // precompiles 1..8 (9 is not one)
	case 7:
		return addrE
	case 8:
		return addrN
	}
	return targets[g.r.Intn(len(targets))]
}

// init code library for CREATE (each at most 32 bytes so that one MSTORE places it)
func (g *gen) initCode() []byte {
	a := &asm{}
	switch g.r.Intn(12) {
	case 0: // empty
	case 1: // deploy n zero bytes
		a.push(g.small()).pushU(0).op(0xf3)
	case 2: // deploy too much code (EIP-170 limit 24576)
		a.pushU(uint64(24576 + g.r.Intn(3))).pushU(0).op(0xf3)
	case 3: // revert
		a.pushU(uint64(g.r.Intn(64))).pushU(0).op(0xfd)
	case 4: // invalid
		a.op(0xfe)
	case 5: // infinite loop
		a.op(0x5b).pushU(0).op(0x56)
	case 6: // selfdestruct to B
		a.pushAddr(addrB).op(0xff)
	case 7: // nested create of empty code, then return 1 byte
		a.pushU(0).pushU(0).pushU(0).op(0xf0, 0x50).pushU(1).pushU(0).op(0xf3)
	case 8: // sstore then deploy 5 bytes
		a.pushU(7).pushU(1).op(0x55).pushU(5).pushU(0).op(0xf3)
	case 9: // log then stop
		a.pushU(0).pushU(0).op(0xa0, 0x00)
	case 10: // deploy a large but legal code: costs 200 gas/byte
		a.pushU(uint64(1000 + g.r.Intn(23000))).pushU(0).op(0xf3)
	case 11: // call B with all gas then return
		a.pushU(0).pushU(0).pushU(0).pushU(0).pushU(0).pushAddr(addrB).op(0x5a, 0xf1, 0x50).pushU(2).pushU(0).op(0xf3)
	}
	if len(a.b) > 32 {
		a.b = a.b[:32]
	}
	return a.b
}

func (g *gen) gasOperand(a *asm) {
	switch g.r.Intn(8) {
	case 0:
		a.pushU(0)
	case 1:
		a.push(g.small())
	case 2:
		a.push(g.huge())
	case 3:
		a.pushU(2300)
	case 4:
		a.pushU(uint64(g.r.Intn(200000)))
	default:
		a.op(0x5a) // GAS
	}
}

func (g *gen) memRange(a *asm, hugePct int) { // pushes len then off  (off on top)
	a.push(g.val(hugePct)).push(g.val(hugePct))
}

// snippet: stack-neutral fragment
func (g *gen) snippet(a *asm, depth int) {
	r := g.r
	switch r.Intn(30) {
	case 0, 1: // arithmetic
		ops := []byte{0x01, 0x02, 0x03, 0x04, 0x05, 0x06, 0x07, 0x0a, 0x0b, 0x10, 0x11, 0x12, 0x13, 0x14, 0x16, 0x17, 0x18, 0x1a}
		if g.shifts {
			ops = append(ops, 0x1b, 0x1c, 0x1d)
		}
		a.push(g.word()).push(g.word()).op(ops[r.Intn(len(ops))], 0x50)
	case 2: // addmod/mulmod
		a.push(g.word()).push(g.word()).push(g.word()).op(byte(0x08+r.Intn(2)), 0x50)
	case 3: // iszero / not
		a.push(g.word()).op([]byte{0x15, 0x19}[r.Intn(2)], 0x50)
	case 4, 5: // mstore / mstore8
		a.push(g.word()).push(g.val(8)).op(byte(0x52 + r.Intn(2)))
	case 6: // mload
		a.push(g.val(8)).op(0x51, 0x50)
	case 7: // sha3
		g.memRange(a, 6)
		a.op(0x20, 0x50)
	case 8, 9: // copies
		a.push(g.val(8)).push(g.val(15)).push(g.val(8))
		ops := []byte{0x37, 0x39}
		if g.byz {
			ops = append(ops, 0x3e)
		}
		a.op(ops[r.Intn(len(ops))])
	case 10: // extcodecopy
		a.push(g.val(8)).push(g.val(15)).push(g.val(8)).pushAddr(g.target()).op(0x3c)
	case 11: // log n
		n := r.Intn(5)
		for i := 0; i < n; i++ {
			a.push(g.word())
		}
		g.memRange(a, 5)
		a.op(byte(0xa0 + n))
	case 12, 13: // sstore
		v := big.NewInt(0)
		if r.Intn(3) > 0 {
			v = g.word()
		}
		a.push(v).pushU(uint64(r.Intn(4))).op(0x55)
	case 14: // sload
		a.pushU(uint64(r.Intn(4))).op(0x54, 0x50)
	case 15, 16, 17, 18: // call family
		kind := r.Intn(4)
		if kind == 3 && !g.byz {
			kind = r.Intn(3)
		}
		if kind == 2 && false {
			kind = 0
		}
		hp := 5
		a.push(g.val(hp)).push(g.val(hp)).push(g.val(hp)).push(g.val(hp)) // retLen retOff inLen inOff
		if kind == 0 || kind == 1 {
			switch r.Intn(5) {
			case 0:
				a.pushU(1)
			case 1:
				a.push(g.word())
			default:
				a.pushU(0)
			}
		}
		if r.Intn(8) == 0 {
			a.op(0x30) // ADDRESS: self call
		} else {
			a.pushAddr(g.target())
		}
		g.gasOperand(a)
		a.op([]byte{0xf1, 0xf2, 0xf4, 0xfa}[kind])
		if g.byz && r.Intn(3) == 0 { // use the return data
			a.op(0x50, 0x3d).pushU(0).pushU(uint64(r.Intn(64))).op(0x3e)
		} else {
			a.op(0x50)
		}
	case 19, 20: // create
		code := g.initCode()
		word := make([]byte, 32)
		copy(word, code)
		a.push(new(big.Int).SetBytes(word))
		if new(big.Int).SetBytes(word).Sign() == 0 {
			// push() emitted PUSH1 0
		}
		a.pushU(0).op(0x52)
		sz := uint64(len(code))
		if r.Intn(10) == 0 {
			sz = uint64(r.Intn(64))
		}
		a.pushU(sz).pushU(0)
		if r.Intn(4) == 0 {
			a.pushU(uint64(1 + r.Intn(3)))
		} else {
			a.pushU(0)
		}
		a.op(0xf0, 0x50)
	case 21, 22: // environment
		ops := []byte{0x30, 0x32, 0x33, 0x34, 0x36, 0x38, 0x3a, 0x41, 0x42, 0x43, 0x44, 0x45, 0x58, 0x59, 0x5a}
		if g.byz {
			ops = append(ops, 0x3d)
		}
		a.op(ops[r.Intn(len(ops))], 0x50)
	case 23: // balance / extcodesize / blockhash / calldataload
		switch r.Intn(4) {
		case 0:
			a.pushAddr(g.target()).op(0x31, 0x50)
		case 1:
			a.pushAddr(g.target()).op(0x3b, 0x50)
		case 2:
			a.push(g.word()).op(0x40, 0x50)
		case 3:
			a.push(g.val(20)).op(0x35, 0x50)
		}
	case 24: // dup / swap
		k := 1 + r.Intn(16)
		for i := 0; i < k; i++ {
			a.pushU(uint64(i))
		}
		a.op(byte(0x80 + k - 1))
		if k >= 2 {
			a.op(byte(0x90 + r.Intn(k-1)))
		}
		for i := 0; i <= k; i++ {
			a.op(0x50)
		}
	case 25: // forward jump over junk
		a.op(0x61)
		at := a.pos()
		a.op(0, 0)
		if r.Bool() {
			a.op(0x56)
		} else {
			a.push(g.word()).op(0x90, 0x57) // cond under dest: PUSH dest PUSH cond SWAP1 JUMPI
		}
		a.op(r.Bytes(r.Intn(6))...)
		a.patch2(at, a.pos())
		a.op(0x5b)
	case 26: // counted loop around a snippet
		if depth >= 2 {
			a.op(0x5b)
			return
		}
		cnt := uint64(2 + r.Intn(40))
		if r.Intn(12) == 0 {
			cnt = 1 << 40
		}
		a.pushU(cnt)
		start := a.pos()
		a.op(0x5b)
		g.snippet(a, depth+1)
		a.pushU(1).op(0x90, 0x03, 0x80).push2(start).op(0x57, 0x50)
	case 27: // msize-relative growth: MSIZE + 32 → MSTORE (memory grows every time)
		a.pushU(1).op(0x59, 0x52)
	case 28: // return data copy out of bounds / gas-heavy exp
		if g.byz && r.Bool() {
			a.push(g.val(10)).push(g.val(30)).push(g.val(10)).op(0x3e)
		} else {
			a.push(g.huge()).push(g.word()).op(0x0a, 0x50)
		}
	case 29: // pc / jumpdest
		a.op(0x5b, 0x58, 0x50)
	}
}

func (g *gen) ending(a *asm) {
	r := g.r
	switch r.Intn(12) {
	case 0, 1:
		a.op(0x00)
	case 2, 3, 4:
		g.memRange(a, 4)
		a.op(0xf3)
	case 5, 6:
		g.memRange(a, 4)
		if g.byz {
			a.op(0xfd)
		} else {
			a.op(0xf3)
		}
	case 7:
		a.op(0xfe)
	case 8:
		a.pushAddr(g.target()).op(0xff)
	case 9: // run off the end
	case 10: // truncated PUSH
		n := 1 + r.Intn(32)
		a.op(byte(0x60 + n - 1))
		a.op(r.Bytes(r.Intn(n))...)
	case 11: // jump into push data / to a random place
		a.push2(r.Intn(len(a.b) + 4)).op(0x56)
	}
}

func (g *gen) structured(n int) []byte {
	a := &asm{}
	for i := 0; i < n; i++ {
		g.snippet(a, 0)
	}
	g.ending(a)
	return a.b
}

// adversarial templates
func (g *gen) template(k int) []byte {
	a := &asm{}
	r := g.r
	switch k % 14 {
	case 0: // deep recursion through CALL to self with all gas
		a.pushU(0).pushU(0).pushU(0).pushU(0).pushU(0).op(0x30, 0x5a, 0xf1, 0x00)
	case 1: // … DELEGATECALL
		a.pushU(0).pushU(0).pushU(0).pushU(0).op(0x30, 0x5a, 0xf4, 0x00)
	case 2: // … CALLCODE
		a.pushU(0).pushU(0).pushU(0).pushU(0).pushU(0).op(0x30, 0x5a, 0xf2, 0x00)
	case 3: // … STATICCALL (invalid before Byzantium) then SSTORE after the call returns
		a.pushU(0).pushU(0).pushU(0).pushU(0).op(0x30, 0x5a, 0xfa).pushU(1).pushU(0).op(0x55, 0x00)
	case 4: // recursion that writes, then fails at the bottom: SSTORE(depth-ish), call self, then INVALID if call failed
		a.op(0x5a).pushU(0).op(0x55).pushU(0).pushU(0).pushU(0).pushU(0).pushU(0).op(0x30, 0x5a, 0xf1).op(0x15).push2(0).op(0x57, 0x00)
		// the JUMPI target 0 is not a JUMPDEST: failing call => invalid jump => this frame fails too
	case 5: // CREATE in a loop (init code = empty) until out of gas
		a.op(0x5b).pushU(0).pushU(0).pushU(0).op(0xf0, 0x50).pushU(0).op(0x56)
	case 6: // CREATE whose init code CREATEs … (init code copies the running code: CODECOPY whole code, CREATE it)
		a.op(0x38).pushU(0).pushU(0).op(0x39, 0x38).pushU(0).pushU(0).op(0xf0, 0x00)
	case 7: // stack overflow loop
		a.op(0x5b).pushU(1).pushU(0).op(0x56)
	case 8: // memory bomb: MSTORE at growing offsets (offset doubles)
		a.pushU(32).op(0x5b, 0x80).pushU(1).op(0x90, 0x52, 0x80, 0x01).pushU(2).op(0x56)
	case 9: // every precompile with calldata as input, all gas, then return the output
		p := 1 + r.Intn(9)
		a.op(0x36).pushU(0).pushU(0).op(0x37)                                                    // calldatacopy(0,0,size)
		a.pushU(uint64(r.Intn(128))).pushU(0).op(0x36).pushU(0).pushU(0).pushU(uint64(p)).op(0x5a, 0xf1) // call(gas,p,0,0,size,0,retlen)
		a.op(0x50).pushU(64).pushU(0).op(0xf3)
	case 10: // value-bearing CALL to a non-existent account / precompile, then REVERT or INVALID
		a.pushU(0).pushU(0).pushU(0).pushU(0).pushU(1).pushAddr([]common.Address{addrN, addrE, common.BytesToAddress([]byte{3}), addrB}[r.Intn(4)]).op(0x5a, 0xf1, 0x50)
		if g.byz && r.Bool() {
			a.pushU(0).pushU(0).op(0xfd)
		} else {
			a.op(0xfe)
		}
	case 11: // STATICCALL into B/C (which may write), then report
		a.pushU(32).pushU(0).pushU(0).pushU(0).pushAddr([]common.Address{addrB, addrC}[r.Intn(2)]).op(0x5a, 0xfa)
		a.pushU(0).op(0x52).pushU(32).pushU(0).op(0xf3)
	case 12: // SELFDESTRUCT at depth: call self with small gas limits, selfdestruct when gas is low
		a.op(0x5a).push2(3000).op(0x10) // gas > 3000 ?
		a.push2(0).op(0x57) // placeholder jump (patched)
		jp := a.pos() - 3
		a.pushAddr(addrB).op(0xff)
		a.patch2(jp, a.pos())
		a.op(0x5b).pushU(0).pushU(0).pushU(0).pushU(0).pushU(0).op(0x30, 0x5a, 0xf1).pushU(0).pushU(0)
		if g.byz && r.Bool() {
			a.op(0xfd)
		} else {
			a.op(0xf3)
		}
	case 13: // 2^256-sized offsets/lengths on every memory opcode in turn (each must fail cleanly)
		ops := []byte{0x20, 0x37, 0x39, 0x51, 0x52, 0x53, 0xa0, 0xf3}
		op := ops[r.Intn(len(ops))]
		a.push(g.huge()).push(g.huge()).push(g.huge()).op(op)
	}
	return a.b
}

func (g *gen) helper() []byte {
	a := &asm{}
	r := g.r
	switch r.Intn(10) {
	case 0:
		a.op(0x00)
	case 1: // return 32 bytes
		a.pushU(32).pushU(0).op(0xf3)
	case 2: // revert with data
		if g.byz {
			a.pushU(uint64(r.Intn(100))).pushU(0).op(0xfd)
		} else {
			a.op(0xfe)
		}
	case 3:
		a.op(0xfe)
	case 4: // write storage and log, then return
		a.pushU(uint64(1 + r.Intn(5))).pushU(uint64(r.Intn(4))).op(0x55).pushU(0).pushU(0).op(0xa0).pushU(0).pushU(0).op(0xf3)
	case 5: // write then fail
		a.pushU(9).pushU(1).op(0x55).op(0xfe)
	case 6: // selfdestruct
		a.pushAddr(g.target()).op(0xff)
	case 7: // call A back with all gas
		a.pushU(0).pushU(0).pushU(0).pushU(0).pushU(0).pushAddr(addrA).op(0x5a, 0xf1, 0x00)
	default:
		return g.structured(1 + r.Intn(8))
	}
	return a.b
}

// ---------------------------------------------------------------------------------------------------------------------
// one case

type caseSpec struct {
	rs      ruleSet
	kind    string // call | callcode | static | create | precompile
	codeA   []byte
	codeB   []byte
	codeC   []byte
	input   []byte
	gas     uint64
	value   *big.Int
	to      common.Address
	family  string
	storage bool // pre-populate storage of A
}

func (c *caseSpec) String() string {
	return fmt.Sprintf("rules=%s kind=%s family=%s gas=%d value=%s to=%x A=%x B=%x C=%x input=%x prestorage=%t", c.rs.name, c.kind, c.family, c.gas, c.value,
		c.to, c.codeA, c.codeB, c.codeC, c.input, c.storage)
}

func errClass(err error) string {
	if err == nil {
		return "ok"
	}
	s := err.Error()
	switch {
	case s == "evm: execution reverted":
		return "revert"
	case err == vm.ErrOutOfGas:
		return "fail-outOfGas"
	case err == vm.ErrCodeStoreOutOfGas:
		return "fail-codeStoreOutOfGas"
	case err == vm.ErrDepth:
		return "fail-depth"
	case err == vm.ErrInsufficientBalance:
		return "fail-insufficientBalance"
	case err == vm.ErrContractAddressCollision:
		return "fail-collision"
	case s == "gas uint64 overflow":
		return "fail-gasUintOverflow"
	case s == "evm: write protection":
		return "fail-writeProtection"
	case s == "evm: max code size exceeded":
		return "fail-maxCodeSize"
	case s == "evm: return data out of bounds" || strings.HasPrefix(s, "invalid jump destination"):
		return "fail-execError"
	case strings.HasPrefix(s, "invalid opcode"):
		return "fail-invalidOpcode"
	case strings.HasPrefix(s, "stack underflow"):
		return "fail-stackUnderflow"
	case strings.HasPrefix(s, "stack limit reached"):
		return "fail-stackLimit"
	}
	return "fail-other:" + strings.ReplaceAll(s, " ", "_")
}

func hexBig(b *big.Int) string {
	if b.Sign() == 0 {
		return "0"
	}
	return b.Text(16)
}

func canTransfer(db vm.StateDB, a common.Address, v *big.Int) bool { return db.GetBalance(a).Cmp(v) >= 0 }
func transfer(db vm.StateDB, from, to common.Address, v *big.Int) {
	db.SubBalance(from, v)
	db.AddBalance(to, v)
}

func runCase(run *hx.Run, c *caseSpec, opHist *[256]int) (class string) {
	desc := c.String()
	run.Current(desc)
	sdb, err := state.New(common.Hash{}, state.NewDatabase(aquadb.NewMemDatabase()))
	if err != nil {
		panic(err)
	}
	db := newWdb(sdb)
	for _, a := range []common.Address{addrS, addrA, addrB, addrC, addrE, addrN, addrP} {
		db.note(a)
	}
	for i := 1; i <= 9; i++ {
		db.note(common.BytesToAddress([]byte{byte(i)}))
	}
	db.CreateAccount(addrS)
	db.AddBalance(addrS, new(big.Int).Lsh(big.NewInt(1), 80))
	db.CreateAccount(addrA)
	db.SetCode(addrA, c.codeA)
	db.AddBalance(addrA, big.NewInt(1000))
	db.SetNonce(addrA, 1)
	db.CreateAccount(addrB)
	db.SetCode(addrB, c.codeB)
	db.SetNonce(addrB, 1)
	db.CreateAccount(addrC)
	db.SetCode(addrC, c.codeC)
	db.AddBalance(addrC, big.NewInt(5))
	db.CreateAccount(addrE)
	db.CreateAccount(addrP)
	if c.storage {
		db.SetState(addrA, common.BytesToHash([]byte{1}), common.BytesToHash([]byte{0x11}))
		db.SetState(addrA, common.BytesToHash([]byte{2}), common.BytesToHash([]byte{0x22}))
		db.SetState(addrB, common.BytesToHash([]byte{1}), common.BytesToHash([]byte{0x33}))
	}
	num := new(big.Int).SetUint64(c.rs.height)
	tr := &tracer{run: run, db: db, desc: desc, viol: map[string]bool{}, opHist: opHist, topStat: c.kind == "static"}
	ctx := vm.Context{CanTransfer: canTransfer, Transfer: transfer, GetHash: func(n uint64) common.Hash { return common.BytesToHash([]byte{byte(n)}) },
		Origin: addrS, GasPrice: big.NewInt(1), Coinbase: common.BytesToAddress([]byte{0xc0}), GasLimit: blockLimit, BlockNumber: num,
		Time: big.NewInt(1500000000), Difficulty: big.NewInt(131072)}
	evm := vm.NewEVM(ctx, db, c.rs.cfg, vm.Config{Debug: true, Tracer: tr})
	_, _, _, byz := vm.VerifC07Rules(evm)
	tr.byz = byz

	// oracle entry 0: the top-level callee
	top := ""
	switch c.kind {
	case "call", "callcode", "precompile":
		top = bstr(sdb.GetBalance(addrS).Cmp(c.value) >= 0, "T", "t") + tr.calleeFlags(c.to, c.input)
	case "static":
		top = "T" + tr.calleeFlags(c.to, c.input)
	case "create":
		top = tr.createFlags(addrS, c.value, len(c.codeA))
	}
	before := db.view()
	nonceBefore := sdb.GetNonce(addrS)
	var rootBefore common.Hash
	checkRoot := c.kind != "create" && c.family != "arity-probe"
	if checkRoot {
		rootBefore = sdb.Copy().IntermediateRoot(false)
	}
	var (
		left uint64
		rerr error
	)
	out := hx.Safe(func() string {
		switch c.kind {
		case "call", "precompile":
			_, left, rerr = evm.Call(vm.AccountRef(addrS), c.to, c.input, c.gas, c.value)
		case "callcode":
			_, left, rerr = evm.CallCode(vm.AccountRef(addrS), c.to, c.input, c.gas, c.value)
		case "static":
			_, left, rerr = evm.StaticCall(vm.AccountRef(addrS), c.to, c.input, c.gas)
		case "create":
			_, _, left, rerr = evm.Create(vm.AccountRef(addrS), c.codeA, c.gas, c.value)
		}
		return ""
	})
	if strings.HasPrefix(out, "panic") {
		msg := out
		if len(msg) > 160 {
			msg = msg[:160]
		}
		sig := msg
		for _, d := range "0123456789" {
			sig = strings.ReplaceAll(sig, string(d), "#")
		}
		run.Violate("panic", sig, desc, out)
		run.Count("outcome:panic")
		return "panic"
	}
	class = errClass(rerr)
	// ---- top-level judgements
	if left > c.gas {
		tr.violate("gas-overuse", "leftover>given", fmt.Sprintf("given=%d leftover=%d", c.gas, left))
	}
	after := db.view()
	if rerr != nil {
		var cr *common.Address
		if c.kind == "create" {
			cr = &addrS
		}
		if d := db.diffViews(before, after, false, cr); d != "" {
			tr.violate("failed-frame-state", "top-level-"+c.kind+"-failed-but-state-changed", class+": "+d)
		}
		if checkRoot {
			if r2 := sdb.Copy().IntermediateRoot(false); r2 != rootBefore {
				tr.violate("failed-frame-state", "top-level-"+c.kind+"-failed-but-state-root-changed", fmt.Sprintf("%s: root %x -> %x", class, rootBefore, r2))
			}
		}
	}
	if c.kind == "create" && rerr != nil && class != "fail-depth" && class != "fail-insufficientBalance" {
		if n := sdb.GetNonce(addrS); n != nonceBefore+1 {
			tr.violate("failed-frame-state", "failed-create-lost-creator-nonce-increment", fmt.Sprintf("%s: nonce %d -> %d", class, nonceBefore, n))
		}
	}
	if c.kind == "static" && byz {
		if d := db.diffViews(before, after, true, nil); d != "" {
			tr.violate("static-write", "top-level-static-call-changed-state", d)
		}
	}
	if vm.VerifC07Depth(evm) != 0 || vm.VerifC07ReadOnly(evm) {
		tr.violate("depth-exceeded", "evm-not-restored-after-call", fmt.Sprintf("depth=%d readOnly=%t", vm.VerifC07Depth(evm), vm.VerifC07ReadOnly(evm)))
	}
	// ---- statistics
	trivial := tr.nsteps < 3
	oc := class
	if trivial {
		oc = "t-" + class
	}
	run.Count("outcome:" + oc)
	run.Count("rules:" + c.rs.name)
	run.Count("kind:" + c.kind)
	run.Count("family:" + c.family)
	switch {
	case tr.nsteps == 0:
		run.Count("steps:0")
	case tr.nsteps < 3:
		run.Count("steps:1-2")
	case tr.nsteps < 30:
		run.Count("steps:3-29")
	case tr.nsteps < 300:
		run.Count("steps:30-299")
	case tr.nsteps < 3000:
		run.Count("steps:300-2999")
	default:
		run.Count("steps:3000+")
	}
	switch {
	case tr.maxDepth <= 1:
		run.Count("depth:<=1")
	case tr.maxDepth < 10:
		run.Count("depth:2-9")
	case tr.maxDepth < 1025:
		run.Count("depth:10-1024")
	default:
		run.Count("depth:1025")
	}
	if tr.maxMem > 1<<16 {
		run.Count("mem:>64K")
	}
	if c.family == "template-deep" {
		run.Count(fmt.Sprintf("deep:%s:%s:maxdepth=%d:%s", c.rs.name, c.kind, tr.maxDepth, class))
	}
	// ---- case line for the model
	if tr.nsteps > stepCap {
		run.Count("model:skipped-long-trace")
		return class
	}
	var sb strings.Builder
	vnz := 0
	if c.value != nil && c.value.Sign() != 0 {
		vnz = 1
	}
	kind := c.kind
	if kind == "precompile" {
		kind = "call"
	}
	fmt.Fprintf(&sb, "run %s %s %d %d %s %s", c.rs.name, kind, c.gas, vnz, bstr(trivial, "t", "n"), "-:-:"+top)
	for _, s := range tr.steps {
		sb.WriteByte(' ')
		fmt.Fprintf(&sb, "%x:", s.op)
		for i, a := range s.args {
			if i > 0 {
				sb.WriteByte('.')
			}
			sb.WriteString(hexBig(a))
		}
		if len(s.args) == 0 {
			sb.WriteByte('-')
		}
		sb.WriteByte(':')
		sb.WriteString(s.flags)
		if s.execErr {
			sb.WriteByte('x')
		}
	}
	run.Case(sb.String(), fmt.Sprintf("%s %d %d %d %d %d", oc, left, tr.nsteps+1, tr.maxDepth, tr.maxMem, tr.cs))
	return class
}

// ---------------------------------------------------------------------------------------------------------------------

// ---------------------------------------------------------------------------------------------------------------------
// precompile lattice: every address 1..9 in every rule set, called directly (EVM.Call from an EOA) with inputs that ANNOUNCE
// extreme lengths, at gas 0 / required-1 / required / plenty. Judged: no panic, no hang, and the bytes the Go runtime
// allocated during the call (runtime.MemStats.TotalAlloc is monotonic and unaffected by GC; the harness is single-threaded
// apart from the watchdog, which allocates nothing) at most allocBase + allocPerGas·(gas charged). The bound is generous by
// two orders of magnitude over the model's 64·(gas+1)+32 for modexp buffers, so it cannot alarm on the unchanged tree, and
// still far below what a buffer of an announced-but-unpaid length costs.

const (
	allocBase   = 1 << 20 // 1 MiB: EVM/StateDB bookkeeping of one call, crypto scratch
	allocPerGas = 256     // bytes per unit of gas charged
)

type preCase struct {
	addr   byte
	input  []byte
	maxLen uint64 // largest announced (uint64-truncated) length, for ordering
	tag    string
}

func word32(v *big.Int) []byte {
	w := make([]byte, 32)
	b := v.Bytes()
	if len(b) > 32 {
		b = b[len(b)-32:]
	}
	copy(w[32-len(b):], b)
	return w
}

func precompileLattice(run *hx.Run, sets []ruleSet, rng *hx.Rng) {
	lens := []*big.Int{big.NewInt(0), big.NewInt(1), big.NewInt(32), pow2(16), pow2(26), pow2(31), pow2(62),
		new(big.Int).Sub(pow2(64), big.NewInt(1)), pow2(255)}
	var cases []preCase
	r := rng.Fork(0x9e07)
	data96 := r.Bytes(96)
	ff96 := make([]byte, 96)
	for i := range ff96 {
		ff96[i] = 0xff
	}
	for _, b := range lens {
		for _, e := range lens {
			for _, m := range lens {
				hdr := append(append(word32(b), word32(e)...), word32(m)...)
				mx := uint64(0)
				for _, v := range []*big.Int{b, e, m} {
					if u := v.Uint64(); u > mx {
						mx = u
					}
				}
				tag := fmt.Sprintf("modexp-hdr(%s,%s,%s)", hexBig(b), hexBig(e), hexBig(m))
				cases = append(cases, preCase{5, hdr, mx, tag}, preCase{5, append(append([]byte{}, hdr...), data96...), mx, tag + "+data"})
				if b.BitLen() <= 6 && m.BitLen() <= 6 {
					cases = append(cases, preCase{5, append(append([]byte{}, hdr...), ff96...), mx, tag + "+ff"})
				}
			}
		}
	}
	// every address (incl. 9 = not a precompile): 0-length, short, word-boundary, pairing-boundary, large real inputs, and
	// modexp-shaped headers announcing huge lengths
	sizes := []int{0, 1, 31, 32, 33, 64, 127, 128, 129, 191, 192, 193, 384, 1000, 4096, 65536, 1 << 20}
	for a := 1; a <= 9; a++ {
		for _, n := range sizes {
			z := make([]byte, n)
			cases = append(cases, preCase{byte(a), z, 0, fmt.Sprintf("zeros(%d)", n)})
			if n > 0 && n <= 65536 {
				cases = append(cases, preCase{byte(a), r.Bytes(n), 0, fmt.Sprintf("random(%d)", n)})
				f := make([]byte, n)
				for i := range f {
					f[i] = 0xff
				}
				cases = append(cases, preCase{byte(a), f, 0, fmt.Sprintf("ff(%d)", n)})
			}
		}
		if a != 5 {
			for _, v := range []*big.Int{pow2(26), pow2(62), pow2(255)} {
				hdr := append(append(word32(v), word32(v)...), word32(v)...)
				cases = append(cases, preCase{byte(a), hdr, 0, "huge-claimed-header"})
			}
		}
	}
	sort.SliceStable(cases, func(i, j int) bool { return cases[i].maxLen < cases[j].maxLen })
	plenty := uint64(2 * blockLimit)
	exactCap := uint64(10000000)
	if run.Thorough() {
		exactCap = 100000000
	}
	allocViolated := false
	for si, rs := range sets {
		num := new(big.Int).SetUint64(rs.height)
		for ci, c := range cases {
			if allocViolated && c.maxLen >= 1<<31 {
				run.Count("precompile:skipped-after-alloc-violation")
				continue // an unpaid allocation was already seen; do not escalate to sizes that kill the process
			}
			if si != 2 && si != 4 && c.addr == 5 && ci%3 != 0 {
				continue // where 0x05 is not a precompile a third of the modexp lattice is enough
			}
			addr := common.BytesToAddress([]byte{c.addr})
			probe := vm.NewEVM(vm.Context{BlockNumber: num}, nil, rs.cfg, vm.Config{})
			_, _, _, byz := vm.VerifC07Rules(probe)
			pcs := vm.PrecompiledContractsHomestead
			if byz {
				pcs = vm.PrecompiledContractsByzantium
			}
			gases := []uint64{0, plenty}
			if p, ok := pcs[addr]; ok {
				req := uint64(0)
				if out := hx.Safe(func() string { req = p.RequiredGas(c.input); return "" }); out != "" {
					run.Violate("panic", "precompile-RequiredGas-panics", fmt.Sprintf("rules=%s addr=%d input=%x", rs.name, c.addr, clip(c.input)), out)
					continue
				}
				if req <= exactCap {
					gases = append(gases, req)
					if req > 0 {
						gases = append(gases, req-1)
					}
				}
			}
			for _, gas := range gases {
				desc := fmt.Sprintf("precompile-lattice rules=%s addr=%d gas=%d %s input(%d)=%x", rs.name, c.addr, gas, c.tag, len(c.input), clip(c.input))
				run.Current(desc)
				sdb, err := state.New(common.Hash{}, state.NewDatabase(aquadb.NewMemDatabase()))
				if err != nil {
					panic(err)
				}
				sdb.CreateAccount(addrS)
				sdb.AddBalance(addrS, big.NewInt(1000000))
				ctx := vm.Context{CanTransfer: canTransfer, Transfer: transfer, GetHash: func(n uint64) common.Hash { return common.Hash{} },
					Origin: addrS, GasPrice: big.NewInt(1), GasLimit: blockLimit, BlockNumber: num, Time: big.NewInt(1500000000), Difficulty: big.NewInt(131072)}
				evm := vm.NewEVM(ctx, sdb, rs.cfg, vm.Config{})
				var (
					ret    []byte
					left   uint64
					rerr   error
					m0, m1 runtime.MemStats
				)
				runtime.ReadMemStats(&m0)
				out := hx.Safe(func() string {
					ret, left, rerr = evm.Call(vm.AccountRef(addrS), addr, c.input, gas, new(big.Int))
					return ""
				})
				runtime.ReadMemStats(&m1)
				if strings.HasPrefix(out, "panic") {
					sig := out
					if len(sig) > 120 {
						sig = sig[:120]
					}
					for _, d := range "0123456789" {
						sig = strings.ReplaceAll(sig, string(d), "#")
					}
					run.Violate("panic", "precompile:"+sig, desc, out)
					run.Count("precompile:panic")
					continue
				}
				if left > gas {
					run.Violate("gas-overuse", "precompile-leftover>given", desc, fmt.Sprintf("given=%d leftover=%d", gas, left))
					continue
				}
				charged := gas - left
				alloc := m1.TotalAlloc - m0.TotalAlloc
				if bound := uint64(allocBase) + allocPerGas*charged; alloc > bound {
					run.Violate("precompile-alloc", fmt.Sprintf("precompile-0x%02x-allocates-beyond-paid-gas", c.addr), desc,
						fmt.Sprintf("allocated %d bytes during the call, gas charged %d, bound %d (= %d + %d·gas)", alloc, charged, bound, allocBase, allocPerGas))
					allocViolated = true
				}
				run.Count("precompile:" + errClass(rerr))
				switch {
				case alloc > 1<<24:
					run.Count("precompile-alloc:>16MiB")
				case alloc > 1<<16:
					run.Count("precompile-alloc:64KiB-16MiB")
				default:
					run.Count("precompile-alloc:<=64KiB")
				}
				if len(c.input) <= 4096 {
					ol := fmt.Sprint(len(ret))
					if c.addr == 1 && rerr == nil {
						ol = "-" // ecrecover: 32 or 0 depending on values the model does not interpret
					}
					run.Case(fmt.Sprintf("pre %s %d %d %s", rs.name, c.addr, gas, hx.Hex(c.input)), fmt.Sprintf("pre-%s %d %s %d", errClass(rerr), left, ol, alloc))
				}
			}
		}
	}
}

func clip(b []byte) []byte {
	if len(b) > 200 {
		return b[:200]
	}
	return b
}

func gasBudget(r *hx.Rng) uint64 {
	lattice := []uint64{0, 1, 2, 3, 5, 20, 21, 100, 699, 700, 701, 1000, 2300, 2301, 5000, 9000, 9700, 20000, 21000, 25000, 32000, 32003, 53000, 100000,
		200000, 1000000, blockLimit - 1, blockLimit}
	switch r.Intn(10) {
	case 0, 1:
		return lattice[r.Intn(len(lattice))]
	case 2, 3, 4:
		return uint64(r.Intn(120000))
	case 5, 6:
		return uint64(r.Intn(1000000))
	case 7:
		return blockLimit
	}
	// log-uniform
	return r.U64() % (uint64(1) << uint(1+r.Intn(22))) % (blockLimit + 1)
}

func main() {
	run := hx.Start()
	run.Watch(60*time.Second, 3<<30, func(cur string) string {
		if i := strings.Index(cur, " gas="); i > 0 {
			return "watchdog:" + cur[:i]
		}
		return "watchdog"
	})
	rng := hx.NewRng(run.Seed)
	sets := ruleSets()
	var opHist [256]int
	famTime := map[string]float64{}
	slowest, slowDesc := 0.0, ""

	// ---- the rule sets as the EVM sees them (cross-check with Gen.VmFlags.configs in the model driver)
	for _, rs := range sets {
		evm := vm.NewEVM(vm.Context{BlockNumber: new(big.Int).SetUint64(rs.height)}, nil, rs.cfg, vm.Config{})
		h, e150, e158, byz := vm.VerifC07Rules(evm)
		gt := vm.VerifC07GasTable(evm)
		names := vm.VerifC07SetNames(evm)
		run.Case(fmt.Sprintf("cfg %s %d", rs.name, rs.height), fmt.Sprintf("%s %t %t %t %t %d.%d.%d.%d.%d.%d.%d.%d", strings.Join(names, ","), h, e150, e158, byz,
			gt[0], gt[1], gt[2], gt[3], gt[4], gt[5], gt[6], gt[7]))
	}

	n := 2600
	if run.Thorough() {
		n = 60000
	}
	for i := 0; i < n; i++ {
		r := rng.Fork(uint64(i))
		rs := sets[i%len(sets)]
		isByzSet := rs.name == "byzantium" || rs.name == "springPre7" || rs.name == "spring"
		g := &gen{r: r, byz: isByzSet, shifts: rs.name == "springPre7" || rs.name == "spring"}
		c := &caseSpec{rs: rs, value: new(big.Int), to: addrA, kind: "call", storage: r.Intn(3) == 0}
		c.codeB, c.codeC = g.helper(), g.helper()
		tk := 99
		switch f := r.Intn(100); {
		case f < 45:
			c.family = "structured"
			c.codeA = g.structured(1 + r.Intn(24))
		case f < 70:
			c.family = "template"
			tk = r.Intn(14)
			c.codeA = g.template(tk)
		case f < 80:
			c.family = "random-bytes"
			c.codeA = r.Bytes(1 + r.Intn(64))
		case f < 88:
			c.family = "random-valid-ops"
			// random opcodes preceded by enough pushes to get going
			a := &asm{}
			for k := 0; k < 8; k++ {
				a.push(g.val(10))
			}
			a.op(r.Bytes(1 + r.Intn(40))...)
			c.codeA = a.b
		default:
			c.family = "precompile-direct"
			c.kind = "precompile"
			c.to = common.BytesToAddress([]byte{byte(1 + r.Intn(9))})
			c.codeA = g.structured(2)
		}
		c.input = r.Bytes(r.Intn(200))
		if r.Intn(4) == 0 {
			// modexp-shaped input: three 32-byte lengths (small or huge) followed by data
			in := make([]byte, 0, 200)
			for k := 0; k < 3; k++ {
				w := make([]byte, 32)
				v := g.val(25).Bytes()
				copy(w[32-len(v):], v)
				in = append(in, w...)
			}
			c.input = append(in, r.Bytes(r.Intn(100))...)
		}
		c.gas = gasBudget(r)
		if c.kind != "precompile" {
			switch k := r.Intn(20); {
			case k < 11:
				c.kind = "call"
			case k < 14:
				c.kind = "static"
			case k < 18:
				c.kind = "create"
			default:
				c.kind = "callcode"
			}
		}
		if c.kind == "call" || c.kind == "create" || c.kind == "callcode" || c.kind == "precompile" {
			switch r.Intn(12) {
			case 0, 1:
				c.value = big.NewInt(int64(1 + r.Intn(1000)))
			case 2:
				if r.Intn(4) == 0 {
					c.value = new(big.Int).Lsh(big.NewInt(1), 90) // more than the sender has
				}
			}
		}
		if c.family == "template" && tk < 5 && r.Intn(7) == 0 {
			// the only way to reach the depth limit under the 63/64 rule: far more gas than a block holds
			c.gas = uint64(1)<<41 + r.U64()%(uint64(1)<<42)
			c.family = "template-deep"
		}
		t0 := time.Now()
		runCase(run, c, &opHist)
		famTime[c.family] += time.Since(t0).Seconds()
		if d := time.Since(t0).Seconds(); d > slowest {
			slowest, slowDesc = d, c.String()
		}
	}
	run.Notes["family_seconds"] = famTime
	if len(slowDesc) > 600 {
		slowDesc = slowDesc[:600]
	}
	run.Notes["slowest_case"] = fmt.Sprintf("%.2fs %s", slowest, slowDesc)
	// ---- arity probes: every opcode byte with every stack height around its arity (operands zero / small / huge), in every
	// rule set: validateStack must reject what execute cannot handle (an opcode executing with too few items panics)
	for ri, rs := range sets {
		isByzSet := rs.name == "byzantium" || rs.name == "springPre7" || rs.name == "spring"
		for op := 0; op < 256; op++ {
			maxH := 8
			if op >= 0x80 && op <= 0x9f {
				maxH = 18
			}
			for h := 0; h <= maxH; h++ {
				r := rng.Fork(uint64(1000000 + ri*100000 + op*32 + h))
				g := &gen{r: r, byz: isByzSet}
				a := &asm{}
				mode := r.Intn(3)
				for k := 0; k < h; k++ {
					switch mode {
					case 0:
						a.pushU(0)
					case 1:
						a.push(g.small())
					default:
						a.push(g.val(40))
					}
				}
				a.op(byte(op), 0x00)
				c := &caseSpec{rs: rs, value: new(big.Int), to: addrA, kind: "call", family: "arity-probe", codeA: a.b, codeB: []byte{0x00}, codeC: []byte{0xfe},
					gas: 200000, input: []byte{1, 2, 3}}
				if r.Intn(4) == 0 {
					c.kind = "static"
				}
				t0 := time.Now()
				cls := runCase(run, c, &opHist)
				famTime[c.family] += time.Since(t0).Seconds()
				if h == 0 && cls == "fail-invalidOpcode" {
					break // not an opcode of this instruction set: the stack height is irrelevant
				}
			}
		}
	}
	tpre := time.Now()
	precompileLattice(run, sets, rng)
	famTime["precompile-lattice"] = time.Since(tpre).Seconds()
	run.Notes["family_seconds"] = famTime
	// opcode coverage
	covered := 0
	for i := 0; i < 256; i++ {
		if opHist[i] > 0 {
			covered++
		}
	}
	run.Notes["distinct_opcodes_executed"] = covered
	triv, total := 0, 0
	for k, v := range run.Hist {
		if strings.HasPrefix(k, "outcome:") {
			total += v
			if strings.HasPrefix(k, "outcome:t-") {
				triv += v
			}
		}
	}
	if total > 0 {
		run.Notes["trivial_outcome_percent"] = 100 * triv / total
	}
	run.Finish()
}

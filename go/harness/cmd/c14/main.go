// c14: correspondence harness for the proof-of-work seal rules (property C14).
// Drives the REAL code in-process: (*Aquahash).VerifySeal and Seal with real argon2id (and test-mode ethash),
// params.GetBlockVersion, Header.Hash / HashNoNonce / Block.Hash / MinerHash.  The hash primitives are evaluated here with
// the real Go functions (crypto.VersionHash, ethashdag hashimoto) and handed to the Lean model as a table; the model
// rebuilds the seed / the RLP encoding itself and looks the value up, so a change of the seed construction, of the version
// dispatch or of the comparison shows up as a disagreement and is judged by the Spec.
package main

import (
	"context"
	"encoding/binary"
	"encoding/hex"
	"fmt"
	"math/big"
	"strings"
	"time"

	"gitlab.com/aquachain/aquachain/common"
	"gitlab.com/aquachain/aquachain/consensus/aquahash"
	"gitlab.com/aquachain/aquachain/consensus/aquahash/ethashdag"
	"gitlab.com/aquachain/aquachain/core/types"
	"gitlab.com/aquachain/aquachain/crypto"
	"gitlab.com/aquachain/aquachain/params"
	"gitlab.com/aquachain/aquachain/rlp"
	"golang.org/x/crypto/argon2"
	"verifharness/hx"
)

type cfgT struct {
	spec string
	c    *params.ChainConfig
}

func builtin() []cfgT {
	return []cfgT{
		{"@mainnet", params.MainnetChainConfig}, {"@testnet", params.TestnetChainConfig}, {"@testnet2", params.Testnet2ChainConfig},
		{"@testnet3", params.Testnet3ChainConfig}, {"@dev", params.AllAquahashProtocolChanges}, {"@test", params.TestChainConfig},
	}
}

func customCfg(chainId uint64, forks [][2]uint64) cfgT {
	fm := params.ForkMap{}
	parts := []string{}
	for _, f := range forks {
		if _, dup := fm[int(f[0])]; dup {
			continue
		}
		fm[int(f[0])] = new(big.Int).SetUint64(f[1])
		parts = append(parts, fmt.Sprintf("%d=%d", f[0], f[1]))
	}
	return cfgT{fmt.Sprintf("c%d/%s", chainId, strings.Join(parts, ",")), &params.ChainConfig{ChainId: new(big.Int).SetUint64(chainId), HF: fm, Aquahash: new(params.AquahashConfig)}}
}

func randomCfg(r *hx.Rng) cfgT {
	var forks [][2]uint64
	for _, hf := range []uint64{1, 5, 8, 9, 7} {
		if r.Intn(4) != 0 {
			forks = append(forks, [2]uint64{hf, uint64(r.Intn(40))})
		}
	}
	return customCfg(uint64(1+r.Intn(5)), forks)
}

type fakeChain struct{ cfg *params.ChainConfig }

func (f *fakeChain) Config() *params.ChainConfig                   { return f.cfg }
func (f *fakeChain) GetContext() context.Context                   { return context.Background() }
func (f *fakeChain) CurrentHeader() *types.Header                  { return nil }
func (f *fakeChain) GetHeader(common.Hash, uint64) *types.Header   { return nil }
func (f *fakeChain) GetHeaderByNumber(uint64) *types.Header        { return nil }
func (f *fakeChain) GetHeaderByHash(common.Hash) *types.Header     { return nil }
func (f *fakeChain) GetBlock(common.Hash, uint64) *types.Block     { return nil }

func hexb(b []byte) string {
	if len(b) == 0 {
		return "-"
	}
	return hex.EncodeToString(b)
}

func bigHex(x *big.Int) string {
	if x.Sign() < 0 {
		return "-" + new(big.Int).Neg(x).Text(16)
	}
	return x.Text(16)
}

func class(err error) string {
	if err == nil {
		return "ok"
	}
	switch err.Error() {
	case "nonce out of range":
		return "err nonce-out-of-range"
	case "non-positive difficulty":
		return "err invalid-difficulty"
	case "invalid mix digest":
		return "err invalid-mix-digest"
	case "invalid proof-of-work":
		return "err invalid-pow"
	}
	return "err other:" + strings.ReplaceAll(err.Error(), " ", "_")
}

func randHeader(r *hx.Rng, number uint64, diff *big.Int) *types.Header {
	h := &types.Header{
		ParentHash: common.BytesToHash(r.Bytes(32)), UncleHash: types.EmptyUncleHash, Coinbase: common.BytesToAddress(r.Bytes(20)),
		Root: common.BytesToHash(r.Bytes(32)), TxHash: types.EmptyRootHash, ReceiptHash: types.EmptyRootHash,
		Difficulty: new(big.Int).Set(diff), Number: new(big.Int).SetUint64(number), GasLimit: 4712388 + uint64(r.Intn(1000)), GasUsed: uint64(r.Intn(3) * r.Intn(100000)),
		Time: big.NewInt(1500000000 + int64(r.Intn(1<<28))), Extra: r.Bytes(r.Intn(33)),
	}
	if r.Intn(4) == 0 {
		copy(h.Bloom[:], r.Bytes(256))
	}
	return h
}

func seedOf(hnn []byte, nonce uint64, littleEndian bool) []byte {
	s := make([]byte, 40)
	copy(s, hnn)
	if littleEndian {
		binary.LittleEndian.PutUint64(s[32:], nonce)
	} else {
		binary.BigEndian.PutUint64(s[32:], nonce)
	}
	return s
}

// vhEntry evaluates crypto.VersionHash(v, data) with the real primitive (only for the argon2id versions).
func vhEntry(v int, data []byte) string {
	return fmt.Sprintf("%d:%s=%s", v, hexb(data), hexb(crypto.VersionHash(byte(v), data)))
}

var two256 = new(big.Int).Lsh(big.NewInt(1), 256)

type H struct {
	run    *hx.Run
	real   *aquahash.Aquahash // argon2id only (no ethash caches)
	tester *aquahash.Aquahash // ModeTest: small ethash caches/datasets
	dag    *ethashdag.EthashDAG
}

// sealCase runs the real VerifySeal on h (which carries Version, Nonce, MixDigest, Difficulty) and writes the case.
func (x *H) sealCase(eng *aquahash.Aquahash, h *types.Header, tag string) string {
	v := int(h.Version)
	var hnn []byte
	hn := hx.Safe(func() string { hnn = h.HashNoNonce().Bytes(); return "" })
	if hn != "" {
		return "panic"
	}
	nonce := h.Nonce.Uint64()
	tbl := []string{}
	if v >= 2 && v <= 4 {
		tbl = append(tbl, vhEntry(v, seedOf(hnn, nonce, true)))
		if be := seedOf(hnn, nonce, false); string(be) != string(seedOf(hnn, nonce, true)) {
			tbl = append(tbl, vhEntry(v, be))
		}
		for w := 2; w <= 4; w++ { // the other argon2id versions on the same seed (a wrong-version dispatch picks one of these)
			if w != v {
				tbl = append(tbl, vhEntry(w, seedOf(hnn, nonce, true)))
			}
		}
	}
	if v == 1 && h.Number.Uint64()/30000 < 2048 && h.Difficulty.Sign() > 0 {
		_, digest, result, err := x.dag.VerifySeal(h.Number.Uint64(), h)
		if err != nil {
			return "skip"
		}
		tbl = append(tbl, "e:"+hexb(digest)+"/"+hexb(result))
	}
	ts := strings.Join(tbl, ",")
	if ts == "" {
		ts = "-"
	}
	line := fmt.Sprintf("seal %d %s %s %d %d %s %s", h.Number.Uint64(), bigHex(h.Difficulty), hexb(h.MixDigest.Bytes()), nonce, v, hexb(hnn), ts)
	x.run.Current(line)
	out := hx.Safe(func() string { return class(eng.VerifySeal(&fakeChain{params.TestChainConfig}, h)) })
	if strings.HasPrefix(out, "panic") {
		out = "panic"
	}
	x.run.Count("seal[" + tag + "]:" + out)
	x.run.Case(line, out)
	return out
}

// sealCaseN: real VerifySeal with the target numerator replaced by N (argon2id versions only).
func (x *H) sealCaseN(h *types.Header, N *big.Int) {
	v := int(h.Version)
	hnn := h.HashNoNonce().Bytes()
	nonce := h.Nonce.Uint64()
	line := fmt.Sprintf("sealn %s %d %s %s %d %d %s %s", N.Text(16), h.Number.Uint64(), bigHex(h.Difficulty), hexb(h.MixDigest.Bytes()), nonce, v, hexb(hnn),
		vhEntry(v, seedOf(hnn, nonce, true)))
	x.run.Current(line)
	old := aquahash.VerifSetMaxUint256(new(big.Int).Set(N))
	out := hx.Safe(func() string { return class(x.real.VerifySeal(&fakeChain{params.TestChainConfig}, h)) })
	aquahash.VerifSetMaxUint256(old)
	if strings.HasPrefix(out, "panic") {
		out = "panic"
	}
	x.run.Count("sealn:" + out)
	x.run.Case(line, out)
}

func main() {
	run := hx.Start()
	rng := hx.NewRng(run.Seed)
	run.Watch(120*time.Second, 3<<30, func(cur string) string { return cur })
	x := &H{run: run}
	x.real = aquahash.New(&aquahash.Config{StartVersion: 2, PowMode: aquahash.ModeNormal})
	x.tester = aquahash.NewTester()
	x.dag = ethashdag.New(&ethashdag.Config{CachesInMem: 1, PowMode: ethashdag.ModeTest})
	scale := 1
	if run.Thorough() {
		scale = 40
	}
	x.sectionPrimitive(rng.Fork(7), scale)
	x.sectionVersion(rng.Fork(1), scale)
	x.sectionVerify(rng.Fork(2), scale)
	x.sectionHashes(rng.Fork(3), scale)
	x.sectionSeal(rng.Fork(4), scale)
	x.sectionSealLoop(rng.Fork(8))
	x.sectionEthash(rng.Fork(5), scale)
	run.Finish()
}

// ---------------------------------------------------------------------------------------------------------------------
// 0. the fork-selected hash is what the statement says: Keccak-256 for version 1, argon2id with 1 / 16 / 32 KiB
//    (one pass, one lane, 32-byte tag) for versions 2 / 3 / 4 — judged against x/crypto/argon2 called directly.

func (x *H) sectionPrimitive(r *hx.Rng, scale int) {
	mem := map[int]uint32{2: 1, 3: 16, 4: 32}
	n := 0
	for i := 0; i < 60*scale; i++ {
		data := r.Bytes([]int{0, 1, 40, 40, 40, 64, 500 + r.Intn(100)}[r.Intn(7)])
		for v := 2; v <= 4; v++ {
			got := crypto.VersionHash(byte(v), data)
			want := argon2.IDKey(data, nil, 1, mem[v], 1, 32)
			if string(got) != string(want) {
				x.run.Violate("version-hash-parameters", fmt.Sprintf("version-hash-parameters v%d", v), map[string]string{"version": fmt.Sprint(v), "data": hexb(data)},
					fmt.Sprintf("crypto.VersionHash(%d, data) = %s, argon2id(time 1, %d KiB, 1 lane) = %s", v, hexb(got), mem[v], hexb(want)))
			}
			n++
		}
		if got, want := crypto.VersionHash(1, data), crypto.Keccak256(data); string(got) != string(want) {
			x.run.Violate("version-hash-parameters", "version-hash-parameters v1", hexb(data), "VersionHash(1, ·) is not Keccak-256")
		}
	}
	x.run.Notes["primitive_checks"] = n
}

// ---------------------------------------------------------------------------------------------------------------------
// 1. version by height

func (x *H) sectionVersion(r *hx.Rng, scale int) {
	cfgs := builtin()
	for i := 0; i < 30*scale; i++ {
		cfgs = append(cfgs, randomCfg(r))
	}
	n := 0
	for _, c := range cfgs {
		hs := []uint64{0, 1, 2, uint64(r.Intn(100000)), 1 << 40}
		for _, hf := range []int{5, 8, 9} {
			if f := c.c.HF[hf]; f != nil {
				for d := int64(-2); d <= 2; d++ {
					if v := int64(f.Uint64()) + d; v >= 0 {
						hs = append(hs, uint64(v))
					}
				}
			}
		}
		for _, h := range hs {
			line := fmt.Sprintf("ver %s %d", c.spec, h)
			out := hx.Safe(func() string { return fmt.Sprint(int(c.c.GetBlockVersion(new(big.Int).SetUint64(h)))) })
			x.run.Case(line, out)
			x.run.Count("ver:" + out)
			n++
		}
	}
	x.run.Notes["version_cases"] = n
}

// ---------------------------------------------------------------------------------------------------------------------
// 2. VerifySeal with real argon2id: targets straddling the computed hash, degenerate difficulties, digest, versions, epochs

func (x *H) sectionVerify(r *hx.Rng, scale int) {
	n := 0
	for i := 0; i < 260*scale; i++ {
		v := 2 + r.Intn(3)
		number := uint64(r.Intn(1 << 20))
		h := randHeader(r, number, big.NewInt(1))
		h.Version = types.HeaderVersion(v)
		nonce := []uint64{0, 1, 0x0102030405060708, 1 << 63, ^uint64(0), r.U64(), r.U64()}[r.Intn(7)]
		h.Nonce = types.EncodeNonce(nonce)
		hnn := h.HashNoNonce().Bytes() // difficulty is part of the pre-image: fixed per difficulty below
		_ = hnn
		// choose difficulties relative to the hash obtained WITH that difficulty in the header: iterate to a fixed point is
		// impossible (the difficulty is hashed), so compute the hash for the candidate difficulty and derive neighbours that
		// are then re-hashed; the straddling cases below use the exact quotient for the final header.
		cands := []*big.Int{big.NewInt(1), big.NewInt(0), big.NewInt(-1), big.NewInt(2), new(big.Int).Set(two256), new(big.Int).Add(two256, big.NewInt(1)),
			new(big.Int).Sub(two256, big.NewInt(1)), new(big.Int).Neg(two256), new(big.Int).SetBytes(r.Bytes(1 + r.Intn(31)))}
		for _, d := range cands {
			hh := types.CopyHeader(h)
			hh.Difficulty = d
			x.sealCase(x.real, hh, "deg")
			n++
		}
		// straddling by one: the difficulty is part of the hashed header, so no choice of difficulty puts the target next to
		// the hash. Instead the numerator N of target = N / difficulty (package variable maxUint256) is replaced through the
		// overlay accessor AFTER hashing: N = H*d - 1, H*d, H*d + d - 1, (H+1)*d  ->  target = H-1, H, H, H+1.
		for _, d := range []*big.Int{big.NewInt(1), big.NewInt(2), big.NewInt(3), big.NewInt(int64(1 + r.Intn(100000))), new(big.Int).SetBytes(r.Bytes(1 + r.Intn(20)))} {
			if d.Sign() <= 0 {
				continue
			}
			hh := types.CopyHeader(h)
			hh.Difficulty = d
			hv := new(big.Int).SetBytes(crypto.VersionHash(byte(v), seedOf(hh.HashNoNonce().Bytes(), nonce, true)))
			hd := new(big.Int).Mul(hv, d)
			for _, N := range []*big.Int{new(big.Int).Sub(hd, big.NewInt(1)), hd, new(big.Int).Sub(new(big.Int).Add(hd, d), big.NewInt(1)), new(big.Int).Add(hd, d)} {
				if N.Sign() < 0 {
					continue
				}
				x.sealCaseN(hh, N)
				n++
			}
		}
		// wrong mix digest on an otherwise passing seal (difficulty 1 always passes)
		hm := types.CopyHeader(h)
		hm.MixDigest = common.BytesToHash(r.Bytes(1 + r.Intn(32)))
		x.sealCase(x.real, hm, "mix")
		n++
		// unset / unknown versions (panic), epoch bound
		if i%6 == 0 {
			for _, bv := range []int{0, 5, 255} {
				hb := types.CopyHeader(h)
				hb.Version = types.HeaderVersion(bv)
				x.sealCase(x.real, hb, "badver")
				n++
			}
			for _, num := range []uint64{30000*2048 - 1, 30000 * 2048, 30000*2048 + 1, ^uint64(0)} {
				he := types.CopyHeader(h)
				he.Number = new(big.Int).SetUint64(num)
				x.sealCase(x.real, he, "epoch")
				n++
			}
		}
	}
	// exact boundaries: the difficulty is part of the hashed header, so H depends on d. Enumerate small difficulties d and
	// nonces until H(d, nonce) lands exactly on / next to floor(2^256/d) is hopeless for 256-bit values; instead use
	// difficulties that make the target huge or tiny, and targets derived AFTER hashing through the quotient:
	// for a fixed header (d fixed) the verdict must flip exactly between hash <= target and hash > target — covered by
	// the Lean theorem target_boundary; here many (d, H) pairs on both sides with |log2(d*H) - 256| small are generated.
	for i := 0; i < 400*scale; i++ {
		v := 2 + r.Intn(3)
		h := randHeader(r, uint64(r.Intn(1<<20)), big.NewInt(1))
		h.Version = types.HeaderVersion(v)
		h.Nonce = types.EncodeNonce(r.U64())
		// d ~ 2^k with k small: the hash passes with probability 2^-k; both outcomes appear
		k := uint(r.Intn(4))
		h.Difficulty = new(big.Int).Add(new(big.Int).Lsh(big.NewInt(1), k), big.NewInt(int64(r.Intn(3))))
		x.sealCase(x.real, h, "coin")
		n++
	}
	x.run.Notes["verify_cases"] = n
}

// ---------------------------------------------------------------------------------------------------------------------
// 3. Header.Hash / HashNoNonce / MinerHash: version by height and explicit versions

func fieldsOf(h *types.Header) string {
	return strings.Join([]string{hexb(h.ParentHash.Bytes()), hexb(h.UncleHash.Bytes()), hexb(h.Coinbase.Bytes()), hexb(h.Root.Bytes()), hexb(h.TxHash.Bytes()),
		hexb(h.ReceiptHash.Bytes()), hexb(h.Bloom[:]), bigHex(h.Difficulty), bigHex(h.Number), fmt.Sprintf("%x", h.GasLimit), fmt.Sprintf("%x", h.GasUsed),
		bigHex(h.Time), hexb(h.Extra), hexb(h.MixDigest.Bytes()), hexb(h.Nonce[:])}, " ")
}

func hashTable(h *types.Header) string {
	encAll, _ := rlp.EncodeToBytes(h)
	encNo, _ := rlp.EncodeToBytes([]interface{}{h.ParentHash, h.UncleHash, h.Coinbase, h.Root, h.TxHash, h.ReceiptHash, h.Bloom, h.Difficulty, h.Number,
		h.GasLimit, h.GasUsed, h.Time, h.Extra})
	tbl := []string{}
	for v := 2; v <= 4; v++ {
		tbl = append(tbl, vhEntry(v, encAll))
	}
	tbl = append(tbl, vhEntry(3, encNo))
	// miner hash seeds: over the keccak and over the argon2id-B seal-free hash
	kec := crypto.Keccak256(encNo)
	arg := crypto.VersionHash(3, encNo)
	for v := 2; v <= 4; v++ {
		tbl = append(tbl, vhEntry(v, seedOf(kec, h.Nonce.Uint64(), true)))
	}
	tbl = append(tbl, vhEntry(3, seedOf(arg, h.Nonce.Uint64(), true)))
	return strings.Join(tbl, ",")
}

func (x *H) sectionHashes(r *hx.Rng, scale int) {
	cfgs := builtin()
	n := 0
	for i := 0; i < 160*scale; i++ {
		c := cfgs[r.Intn(len(cfgs))]
		if r.Intn(2) == 0 {
			c = []cfgT{cfgs[1], cfgs[2], randomCfg(r), randomCfg(r)}[r.Intn(4)] // schedules with HF8 / HF9
		}
		hs := []uint64{uint64(r.Intn(100))}
		for _, hf := range []int{5, 8, 9} {
			if f := c.c.HF[hf]; f != nil {
				hs = append(hs, f.Uint64(), f.Uint64()+1)
				if f.Uint64() > 0 {
					hs = append(hs, f.Uint64()-1)
				}
			}
		}
		number := hs[r.Intn(len(hs))]
		h := randHeader(r, number, new(big.Int).SetBytes(r.Bytes(1+r.Intn(8))))
		h.Nonce = types.EncodeNonce(r.U64())
		if r.Intn(2) == 0 {
			h.MixDigest = common.BytesToHash(r.Bytes(32))
		}
		// version by height: Block.SetVersionConfig + Block.Hash / HashNoNonce / MinerHash
		line := fmt.Sprintf("hh %s %s %s", c.spec, fieldsOf(h), hashTable(h))
		x.run.Current(line)
		out := hx.Safe(func() string {
			b := types.NewBlockWithHeader(h)
			b.SetVersionConfig(c.c)
			hd := b.Header()
			if hd.Hash() != b.Hash() {
				return "block-hash-differs-from-header-hash"
			}
			return fmt.Sprintf("%d %s %s %s", int(b.Version()), hexb(b.Hash().Bytes()), hexb(b.HashNoNonce().Bytes()), hexb(b.MinerHash().Bytes()))
		})
		if strings.HasPrefix(out, "panic") {
			out = "panic"
		}
		x.run.Case(line, out)
		x.run.Count("hh:v" + strings.Fields(out)[0])
		n++
		// explicit versions 0..5 on the header
		for _, v := range []int{0, 1, 2, 3, 4, 5} {
			if r.Intn(2) == 0 {
				continue
			}
			hv := types.CopyHeader(h)
			hv.Version = types.HeaderVersion(v)
			line := fmt.Sprintf("hv %d %s %s", v, fieldsOf(hv), hashTable(hv))
			part := func(f func() []byte) string {
				o := hx.Safe(func() string { return hexb(f()) })
				if strings.HasPrefix(o, "panic") {
					return "panic"
				}
				return o
			}
			out := part(func() []byte { return hv.Hash().Bytes() }) + " " + part(func() []byte { return hv.HashNoNonce().Bytes() }) + " " +
				part(func() []byte { return types.NewBlockWithHeader(hv).MinerHash().Bytes() })
			x.run.Case(line, out)
			x.run.Count(fmt.Sprintf("hv:v%d", v))
			n++
		}
	}
	x.run.Notes["hash_cases"] = n
}

// ---------------------------------------------------------------------------------------------------------------------
// 4. Seal (the node's own miner) with 1..16 threads at heights around HF5/HF8/HF9; every returned seal must verify

func (x *H) sectionSeal(r *hx.Rng, scale int) {
	cfgs := []cfgT{builtin()[1], builtin()[2], builtin()[5], builtin()[0]}
	n, unsetProbe, unsetRejected := 0, 0, 0
	threadsList := []int{1, 2, 3, 4, 8, 16}
	for i := 0; i < 90*scale; i++ {
		c := cfgs[r.Intn(len(cfgs))]
		if r.Intn(3) == 0 {
			c = randomCfg(r)
		}
		// heights with an argon2id version (>= HF5) around the version-changing forks
		var hs []uint64
		for _, hf := range []int{5, 8, 9} {
			if f := c.c.HF[hf]; f != nil {
				hs = append(hs, f.Uint64(), f.Uint64()+1, f.Uint64()+uint64(r.Intn(50)))
				if f.Uint64() > 0 {
					hs = append(hs, f.Uint64()-1)
				}
			}
		}
		if len(hs) == 0 {
			continue
		}
		number := hs[r.Intn(len(hs))]
		v := int(c.c.GetBlockVersion(new(big.Int).SetUint64(number)))
		if v < 2 {
			continue // ethash heights are mined in sectionEthash
		}
		diff := big.NewInt(int64(1 + r.Intn(300)))
		if r.Intn(5) == 0 {
			diff = big.NewInt(1)
		}
		h := randHeader(r, number, diff)
		h.Version = types.HeaderVersion(v) // as the worker sets it (Version by height)
		threads := threadsList[r.Intn(len(threadsList))]
		eng := aquahash.New(&aquahash.Config{StartVersion: 2, PowMode: aquahash.ModeNormal})
		eng.SetThreads(threads)
		blk := types.NewBlockWithHeader(h)
		tag := fmt.Sprintf("seal cfg=%s number=%d diff=%s threads=%d", c.spec, number, diff, threads)
		x.run.Current(tag)
		var sealed *types.Block
		res := hx.Guard(60*time.Second, func() string {
			b, err := eng.Seal(&fakeChain{c.c}, blk, nil)
			if err != nil {
				return "err " + err.Error()
			}
			sealed = b
			return ""
		})
		if res != "" || sealed == nil {
			x.run.Violate("seal-failed", "seal-failed", tag, "Seal returned "+res)
			continue
		}
		sh := sealed.Header()
		if int(sh.Version) != v {
			x.run.Violate("sealed-version", "sealed-version", tag, fmt.Sprintf("sealed header version %d, version by height %d", sh.Version, v))
		}
		if err := x.real.VerifySeal(&fakeChain{c.c}, sh); err != nil {
			x.run.Violate("mined-seal-rejected", "mined-seal-rejected", tag+" nonce="+fmt.Sprint(sh.Nonce.Uint64()), "VerifySeal of the miner's own result: "+err.Error())
		}
		// the sealed header differs from the input only in nonce / digest / version
		chk := types.CopyHeader(sh)
		chk.Nonce, chk.MixDigest, chk.Version = h.Nonce, h.MixDigest, h.Version
		if chk.HashNoNonce() != h.HashNoNonce() {
			x.run.Violate("sealed-header-changed", "sealed-header-changed", tag, "Seal altered fields other than nonce/mix digest")
		}
		x.sealCase(x.real, sh, fmt.Sprintf("mined-t%d", threads))
		x.run.Count(fmt.Sprintf("mined:v%d", v))
		n++
		// observation (not part of the property's precondition): a block handed to Seal WITHOUT the version of its height
		if v == 3 && unsetProbe < 6*scale {
			hu := types.CopyHeader(h)
			hu.Version = 0
			b2, err := eng.Seal(&fakeChain{c.c}, types.NewBlockWithHeader(hu), nil)
			if err == nil && b2 != nil {
				unsetProbe++
				if x.real.VerifySeal(&fakeChain{c.c}, b2.Header()) != nil {
					unsetRejected++
				}
			}
		}
	}
	x.run.Notes["mined_blocks"] = n
	x.run.Notes["threads"] = threadsList
	x.run.Notes["observation_seal_with_unset_block_version_at_v3_heights"] = fmt.Sprintf("%d of %d seals rejected by VerifySeal (mine takes HashNoNonce before setting header.Version; outside the worker's usage)", unsetRejected, unsetProbe)
}

// ---------------------------------------------------------------------------------------------------------------------
// 4b. seal-and-verify loop: many multi-threaded seals at very low difficulty on the argon2id versions for a fixed time
//     budget. Every block Seal returns is judged by the real VerifySeal (an interleaving of the sealer goroutines that
//     makes a thread report a nonce it did not hash shows up as `mined-seal-rejected`). Only per-block assertions: two runs
//     are never compared; the number of rounds depends on the machine and is reported in the histogram.

func (x *H) sectionSealLoop(r *hx.Rng) {
	budget := 18 * time.Second
	if x.run.Thorough() {
		budget = 150 * time.Second
	}
	threadsList := []int{2, 3, 4, 8, 16, 16, 8, 16}
	engines := map[int]*aquahash.Aquahash{}
	for _, t := range threadsList {
		if engines[t] == nil {
			e := aquahash.New(&aquahash.Config{StartVersion: 2, PowMode: aquahash.ModeNormal})
			e.SetThreads(t)
			engines[t] = e
		}
	}
	// heights whose version by height is 2, 3, 4 on testnet2 (HF5=0, HF8=8, HF9=19)
	c := builtin()[2]
	heights := map[int]uint64{2: 3, 3: 12, 4: 40}
	chain := &fakeChain{c.c}
	deadline := time.Now().Add(budget)
	rounds, bad := 0, 0
	base := randHeader(r, 1, big.NewInt(2))
	for time.Now().Before(deadline) {
		for k := 0; k < 64; k++ {
			v := 2 + (rounds % 3)
			threads := threadsList[(rounds/3)%len(threadsList)]
			h := types.CopyHeader(base)
			h.Number = new(big.Int).SetUint64(heights[v])
			h.Difficulty = big.NewInt(int64(2 + rounds%3))
			h.GasUsed = uint64(rounds) // a fresh seal-free hash every round
			h.Version = types.HeaderVersion(v)
			if rounds%256 == 0 {
				x.run.Current(fmt.Sprintf("seal-loop round=%d threads=%d version=%d", rounds, threads, v))
			}
			sealed, err := engines[threads].Seal(chain, types.NewBlockWithHeader(h), nil)
			rounds++
			x.run.Hist[fmt.Sprintf("seal-loop:threads=%d", threads)]++
			if err != nil || sealed == nil {
				x.run.Violate("seal-failed", "seal-failed", fmt.Sprintf("seal-loop round=%d threads=%d version=%d", rounds, threads, v), fmt.Sprint("Seal returned ", err))
				continue
			}
			sh := sealed.Header()
			if e := x.real.VerifySeal(chain, sh); e != nil {
				bad++
				x.run.Violate("mined-seal-rejected", "mined-seal-rejected",
					map[string]string{"threads": fmt.Sprint(threads), "version": fmt.Sprint(v), "difficulty": sh.Difficulty.String(), "nonce": fmt.Sprint(sh.Nonce.Uint64()),
						"hashNoNonce": hexb(sh.HashNoNonce().Bytes()), "minerHash": hexb(sealed.MinerHash().Bytes())},
					fmt.Sprintf("Seal with %d threads returned a block (version %d, difficulty %s, nonce %d) that VerifySeal rejects: %v", threads, v, sh.Difficulty, sh.Nonce.Uint64(), e))
			}
		}
	}
	x.run.Notes["seal_loop_rounds"] = rounds
	x.run.Notes["seal_loop_rejected"] = bad
	x.run.Notes["seal_loop_budget_s"] = budget.Seconds()
}

// ---------------------------------------------------------------------------------------------------------------------
// 5. version 1: test-mode ethash (small cache/dataset): verify around the target and mine

func (x *H) sectionEthash(r *hx.Rng, scale int) {
	n := 0
	for i := 0; i < 12*scale; i++ {
		number := uint64(r.Intn(29000))
		h := randHeader(r, number, big.NewInt(1))
		h.Version = 1
		h.Nonce = types.EncodeNonce(r.U64())
		_, digest, result, err := x.dag.VerifySeal(number, h)
		if err != nil {
			continue
		}
		h.MixDigest = common.BytesToHash(digest)
		x.sealCase(x.tester, h, "ethash")
		n++
		for _, d := range []*big.Int{big.NewInt(0), big.NewInt(-5), big.NewInt(2), big.NewInt(3), new(big.Int).Set(two256)} {
			hh := types.CopyHeader(h)
			hh.Difficulty = d
			// the digest depends on HashNoNonce which depends on the difficulty: recompute so that only the target decides
			if d.Sign() > 0 {
				_, dg, _, _ := x.dag.VerifySeal(number, hh)
				hh.MixDigest = common.BytesToHash(dg)
			}
			x.sealCase(x.tester, hh, "ethash")
			n++
		}
		hw := types.CopyHeader(h)
		hw.MixDigest = common.BytesToHash(r.Bytes(32))
		x.sealCase(x.tester, hw, "ethash-mix")
		n++
		_ = result
	}
	// mining with test-mode ethash (version-1 heights), 1..4 threads
	mined := 0
	for i := 0; i < 3*scale; i++ {
		number := uint64(1 + r.Intn(3))
		h := randHeader(r, number, big.NewInt(int64(1+r.Intn(40))))
		h.Version = 1
		eng := aquahash.NewTester()
		eng.SetThreads(1 + r.Intn(4))
		tag := fmt.Sprintf("seal-ethash number=%d diff=%s", number, h.Difficulty)
		x.run.Current(tag)
		var sealed *types.Block
		res := hx.Guard(90*time.Second, func() string {
			b, err := eng.Seal(&fakeChain{params.MainnetChainConfig}, types.NewBlockWithHeader(h), nil)
			if err != nil {
				return "err " + err.Error()
			}
			sealed = b
			return ""
		})
		if res != "" || sealed == nil {
			x.run.Violate("seal-failed", "seal-failed", tag, "Seal returned "+res)
			continue
		}
		if err := eng.VerifySeal(&fakeChain{params.MainnetChainConfig}, sealed.Header()); err != nil {
			x.run.Violate("mined-seal-rejected", "mined-seal-rejected", tag, "VerifySeal of the miner's own ethash result: "+err.Error())
		}
		x.sealCase(x.tester, sealed.Header(), "mined-ethash")
		mined++
	}
	x.run.Notes["ethash_cases"] = n
	x.run.Notes["ethash_mined"] = mined
}

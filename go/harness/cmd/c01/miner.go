package main

import (
	"fmt"
	"math/big"

	"gitlab.com/aquachain/aquachain/common"
	"gitlab.com/aquachain/aquachain/consensus/aquahash"
	"gitlab.com/aquachain/aquachain/consensus/misc"
	"gitlab.com/aquachain/aquachain/core"
	"gitlab.com/aquachain/aquachain/core/state"
	"gitlab.com/aquachain/aquachain/core/types"
	"gitlab.com/aquachain/aquachain/core/vm"
	"gitlab.com/aquachain/aquachain/opt/miner"
	"verifharness/chainx"
	"verifharness/hx"
)

// freshTxs signs a few transactions that are executable on top of `st` (nonces taken from the state).
func freshTxs(rt *chainx.RichTree, r *hx.Rng, st *state.StateDB, alive []chainx.Contract) []*types.Transaction {
	var out []*types.Transaction
	next := map[int]uint64{}
	n := 1 + r.Intn(4)
	for k := 0; k < n; k++ {
		from := r.Intn(len(rt.Keys))
		if _, ok := next[from]; !ok {
			next[from] = st.GetNonce(rt.Addrs[from])
		}
		nonce := next[from]
		next[from]++
		price := big.NewInt(int64(1 + r.Intn(5)))
		var raw *types.Transaction
		pick := func(kind string) (chainx.Contract, bool) {
			for _, c := range alive {
				if c.Kind == kind {
					return c, true
				}
			}
			return chainx.Contract{}, false
		}
		w := func(n uint64) []byte { return common.BigToHash(new(big.Int).SetUint64(n)).Bytes() }
		switch r.Intn(6) {
		case 5:
			switch r.Intn(3) {
			case 0:
				raw = types.NewTransaction(nonce, chainx.CallValueAddr, big.NewInt(int64(1+r.Intn(500))), 120000, price, nil)
			case 1:
				raw = types.NewContractCreation(nonce, big.NewInt(int64(1+r.Intn(500))), 150000, price, chainx.CodeCallValue)
			default:
				raw = types.NewTransaction(nonce, chainx.DelegatorAddr, big.NewInt(int64(1+r.Intn(500))), 150000, price, nil)
			}
		case 0:
			raw = types.NewContractCreation(nonce, big.NewInt(int64(r.Intn(9))), 200000, price, chainx.Deployer(chainx.CodeWriter))
		case 1:
			if c, ok := pick("writer"); ok {
				raw = types.NewTransaction(nonce, c.Addr, big.NewInt(0), 120000, price, append(w(uint64(r.Intn(6))), w(uint64(r.Intn(4)))...))
			}
		case 2:
			if c, ok := pick("logger"); ok {
				raw = types.NewTransaction(nonce, c.Addr, big.NewInt(0), 90000, price, append(append(w(3), w(104)...), w(uint64(r.Intn(100)))...))
			}
		case 3:
			if c, ok := pick("revert"); ok {
				raw = types.NewTransaction(nonce, c.Addr, big.NewInt(0), 50000, price, nil)
			}
		}
		if raw == nil {
			raw = types.NewTransaction(nonce, rt.Addrs[r.Intn(len(rt.Addrs))], big.NewInt(int64(1+r.Intn(1000))), 21000, price, nil)
		}
		tx, err := types.SignTx(raw, rt.Signer, rt.Keys[from])
		if err != nil {
			panic(err)
		}
		out = append(out, tx)
	}
	return out
}

// ownBlockAccepted: a block assembled on top of node `id` by (a) worker.commitNewWork — the miner — and (b) a by-hand
// ApplyTransaction + engine.Finalize builder, must be accepted by InsertChain of ANOTHER node with identical results.
func (c *treeCtx) ownBlockAccepted(run *hx.Run, rt *chainx.RichTree, r *hx.Rng, id int, seedTag string) {
	t := c.t
	path := t.PathIDs(id)
	eng := aquahash.NewFaker()
	for _, how := range []string{"worker", "byhand"} {
		input := map[string]interface{}{"tree": c.name, "seed": seedTag, "parent": id, "height": t.Nodes[id].Block.NumberU64() + 1, "builder": how}
		run.Current(fmt.Sprintf("own-block %s on node %d of %s", how, id, c.name))
		db1 := newMemDB()
		bc1 := t.OpenChain(db1, &core.CacheConfig{Disabled: true})
		if len(path) > 0 {
			if _, err := bc1.InsertChain(t.Blocks(path)); err != nil {
				run.Violate("valid-block-refused", "valid-block-refused:own-setup", input, err.Error())
				return
			}
		}
		if bc1.CurrentBlock().Hash() != t.Nodes[id].Block.Hash() {
			bc1.Stop()
			return
		}
		// possible uncles: siblings of ancestors (stored as side blocks on the building node)
		var uncleBlocks []*types.Block
		for _, u := range rt.UncleCandidates(id) {
			if t.Td(u).Cmp(t.Td(id)) >= 0 {
				continue // would move (or coin-flip) the head of the building node away from the intended parent
			}
			if _, err := bc1.InsertChain(t.Blocks(t.PathIDs(u))); err == nil {
				uncleBlocks = append(uncleBlocks, t.Nodes[u].Block)
			}
			break
		}
		if bc1.CurrentBlock().Hash() != t.Nodes[id].Block.Hash() {
			run.Count("own-block:head-moved")
			bc1.Stop()
			return
		}
		st, _ := bc1.State()
		txs := freshTxs(rt, r, st, rt.Contracts[id])
		coinbase := common.Address{0xcb, byte(id)}
		var block *types.Block
		var receipts types.Receipts
		var post *state.StateDB
		if how == "worker" {
			pcfg := core.DefaultTxPoolConfig
			pcfg.Journal = ""
			pool := core.NewTxPool(pcfg, t.Cfg, bc1)
			pool.AddLocals(txs)
			block, receipts, post = miner.VerifC01CommitWork(t.Cfg, eng, bc1, pool, db1, coinbase, []byte("c01"), uncleBlocks)
			pool.Stop()
		} else {
			parent := bc1.CurrentBlock()
			num := new(big.Int).Add(parent.Number(), common.Big1)
			header := &types.Header{ParentHash: parent.Hash(), Number: num, GasLimit: core.CalcGasLimit(parent), Extra: []byte("c01h"),
				Time: new(big.Int).Add(parent.Time(), big.NewInt(int64(5+r.Intn(300)))), Coinbase: coinbase, Version: t.Cfg.GetBlockVersion(num)}
			if err := eng.Prepare(bc1, header); err != nil {
				bc1.Stop()
				return
			}
			post, _ = bc1.StateAt(parent.Root())
			if hf4 := t.Cfg.GetHF(4); hf4 != nil && hf4.Cmp(num) == 0 {
				misc.ApplyHardFork4(post)
			}
			if hf5 := t.Cfg.GetHF(5); hf5 != nil && hf5.Cmp(num) == 0 {
				misc.ApplyHardFork5(post)
			}
			gp := new(core.GasPool).AddGas(header.GasLimit)
			var included []*types.Transaction
			for _, tx := range txs {
				post.Prepare(tx.Hash(), common.Hash{}, len(included))
				snap := post.Snapshot()
				rc, _, err := core.ApplyTransaction(t.Cfg, bc1, &coinbase, gp, post, header, tx, &header.GasUsed, vm.Config{})
				if err != nil {
					post.RevertToSnapshot(snap)
					continue
				}
				included = append(included, tx)
				receipts = append(receipts, rc)
			}
			var uh []*types.Header
			for _, u := range uncleBlocks {
				uh = append(uh, u.Header())
			}
			block, _ = eng.Finalize(bc1, header, post, included, uh, receipts)
		}
		if block == nil {
			run.Count("own-block:not-built")
			bc1.Stop()
			continue
		}
		c.judgeOwn(run, r, how, input, t.Blocks(path), bc1, block, receipts, post, how == "byhand")
		bc1.Stop()
	}
}

// judgeOwn: a block the node built itself must be accepted by a fresh node holding the same ancestry AND by the building
// node, with the builder's receipts, state root and gas.
func (c *treeCtx) judgeOwn(run *hx.Run, r *hx.Rng, how string, input map[string]interface{}, ancestry types.Blocks, builder *core.BlockChain,
	block *types.Block, receipts types.Receipts, post *state.StateDB, emitCase bool) {
	t := c.t
	run.Count(fmt.Sprintf("own-block:%s", how))
	run.Count(fmt.Sprintf("own-block-txs:%d", len(block.Transactions())))
	run.Count(fmt.Sprintf("own-block-uncles:%d", len(block.Uncles())))
	archive := r.Bool()
	cache := &core.CacheConfig{Disabled: true}
	if !archive {
		cache = &core.CacheConfig{}
	}
	db2 := newMemDB()
	bc2 := t.OpenChain(db2, cache)
	defer bc2.Stop()
	if len(ancestry) > 0 {
		bc2.InsertChain(ancestry)
	}
	line := ""
	if emitCase {
		line = impInput(bc2, t.Cfg, block)
	}
	detail := fmt.Sprintf("%d txs, %d uncles", len(block.Transactions()), len(block.Uncles()))
	n, err := bc2.InsertChain(types.Blocks{block})
	if err != nil {
		run.Violate("own-block-refused", "own-block-refused:"+how+":"+errClass(err), input,
			fmt.Sprintf("a fresh node: InsertChain = (%d, %v) for a block assembled by the node's own %s path (%s)", n, err, how, detail))
		if line != "" {
			run.Case(line, "reject "+errClass(err))
		}
	} else {
		rs := core.GetBlockReceipts(db2, block.Hash(), block.NumberU64())
		if line != "" {
			run.Case(line, impAccept(block.Header(), rs))
		}
		if canonReceipts(rs) != canonReceipts(receipts) {
			run.Violate("own-block-differs", "own-block-differs:receipts:"+how, input, "receipts of the importer differ from the builder's: "+firstDiff(canonReceipts(rs), canonReceipts(receipts)))
		}
		if !bc2.HasState(block.Root()) {
			run.Violate("own-block-differs", "own-block-differs:root:"+how, input, "the importer has no state under the header's root")
		}
		run.Count("own-block-accepted")
	}
	if root := post.IntermediateRoot(t.Cfg.IsEIP158(block.Number())); root != block.Root() {
		run.Violate("own-block-differs", "own-block-differs:root:"+how, input, fmt.Sprintf("builder state root %x, header root %x", root[:6], block.Root().Bytes()[:6]))
	}
	var last uint64
	if len(receipts) > 0 {
		last = receipts[len(receipts)-1].CumulativeGasUsed
	}
	if block.GasUsed() != last {
		run.Violate("own-block-differs", "own-block-differs:gas:"+how, input, fmt.Sprintf("header gas used %d, builder's last cumulative gas %d", block.GasUsed(), last))
	}
	// the building node imports its own block through the same path
	if builder != nil {
		if n, err := builder.InsertChain(types.Blocks{block}); err != nil {
			run.Violate("own-block-refused", "own-block-refused-by-builder:"+how+":"+errClass(err), input,
				fmt.Sprintf("the building node: InsertChain = (%d, %v) for its own block (%s)", n, err, detail))
		} else {
			run.Count("own-block-accepted-by-builder")
		}
	}
}

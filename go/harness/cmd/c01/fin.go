package main

import (
	"fmt"
	"math/big"
	"strings"

	"gitlab.com/aquachain/aquachain/common"
	"gitlab.com/aquachain/aquachain/consensus/misc"
	"gitlab.com/aquachain/aquachain/core"
	"gitlab.com/aquachain/aquachain/core/state"
	"gitlab.com/aquachain/aquachain/core/types"
	"gitlab.com/aquachain/aquachain/core/vm"
	"verifharness/chainx"
	"verifharness/hx"
)

// finCases ties StateDB.Finalise (the Go map loops) to the model's `finalise`: the transactions of a block are executed
// with the real EVM (ApplyMessage), the dirty set is dumped right before Finalise, and the account / storage contents
// are read back from the tries right after it.
//
//	fin <del> <entry>|<entry>…      entry = <addr idx>,<hasObj>,<suicided>,<nonce>,<balance>,<codeEmpty>,<k>:<v>:<pre>;<k>:<v>:<pre>…
//	go: <idx>=<present>,<nonce>,<balance>,<k>:<v>;…|…
func (c *treeCtx) finCases(run *hx.Run, r *hx.Rng, id int) {
	t := c.t
	n := t.Nodes[id]
	if len(n.Block.Transactions()) == 0 {
		return
	}
	header := n.Block.Header()
	parent := t.Nodes[n.Parent].Block
	st, err := state.New(parent.Root(), state.NewDatabase(t.GenDB()))
	if err != nil {
		return
	}
	if hf4 := t.Cfg.GetHF(4); hf4 != nil && hf4.Cmp(header.Number) == 0 {
		misc.ApplyHardFork4(st)
	}
	gp := new(core.GasPool).AddGas(header.GasLimit)
	del := t.Cfg.IsEIP158(header.Number)
	for i, tx := range n.Block.Transactions() {
		run.Current(fmt.Sprintf("fin %s node %d tx %d", c.name, id, i))
		msg, err := tx.AsMessage(types.MakeSigner(t.Cfg, header.Number))
		if err != nil {
			return
		}
		st.Prepare(tx.Hash(), common.Hash{}, i)
		cb := header.Coinbase
		vmenv := vm.NewEVM(core.NewEVMContext(msg, header, nil, &cb), st, t.Cfg, vm.Config{})
		if _, _, _, err := core.ApplyMessage(vmenv, msg, gp); err != nil {
			return
		}
		dirty := st.VerifC01Dirty()
		idx := map[common.Address]int{}
		var in []string
		for k, e := range dirty {
			idx[e.Addr] = k
			var kv []string
			for j := range e.Keys {
				kv = append(kv, fmt.Sprintf("%s:%s:%s", small(e.Keys[j]), small(e.Vals[j]), small(e.Pre[j])))
			}
			in = append(in, fmt.Sprintf("%d,%d,%d,%d,%s,%d,%s", k, b2i(e.HasObj), b2i(e.Suicided), e.Nonce, e.Balance.String(), b2i(e.CodeEmpty), strings.Join(kv, ";")))
		}
		st.Finalise(del)
		var out []string
		for k, e := range dirty {
			present, nonce, bal := st.VerifC01Leaf(e.Addr)
			if !present {
				out = append(out, fmt.Sprintf("%d=0", k))
				continue
			}
			vals := st.VerifC01Storage(e.Addr, e.Keys)
			var kv []string
			for j := range e.Keys {
				kv = append(kv, fmt.Sprintf("%s:%s", small(e.Keys[j]), small(vals[j])))
			}
			out = append(out, fmt.Sprintf("%d=1,%d,%s,%s", k, nonce, bal.String(), strings.Join(kv, ";")))
		}
		run.Case(fmt.Sprintf("fin %d %s", b2i(del), strings.Join(in, "|")), strings.Join(out, "|"))
		run.Count("fin-cases")
		run.Count(fmt.Sprintf("fin-dirty-size:%d", min(len(dirty), 6)))
	}
	_ = r
}

func small(h common.Hash) string { return new(big.Int).SetBytes(h[:]).String() }

func b2i(b bool) int {
	if b {
		return 1
	}
	return 0
}

var _ = chainx.Quiet

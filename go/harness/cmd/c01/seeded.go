package main

import (
	"bytes"
	"fmt"
	"math/big"

	"gitlab.com/aquachain/aquachain/common"
	"gitlab.com/aquachain/aquachain/core/types"
	"gitlab.com/aquachain/aquachain/crypto"
	"gitlab.com/aquachain/aquachain/rlp"
	"gitlab.com/aquachain/aquachain/trie"
	"verifharness/chainx"
	"verifharness/hx"
)

type rawList [][]byte

func (l rawList) Len() int           { return len(l) }
func (l rawList) GetRlp(i int) []byte { return l[i] }

// independentRoot: the root of the trie { rlp(i) ↦ item_i }, built here with keys from the general RLP encoder.
func independentRoot(l rawList) common.Hash {
	tr := new(trie.Trie)
	for i, it := range l {
		k, err := rlp.EncodeToBytes(uint(i))
		if err != nil {
			panic(err)
		}
		tr.Update(k, it)
	}
	return tr.Hash()
}

// deriveShaChecks: `types.DeriveSha` (the transaction / receipt root) for every list length 0..300 against an independent
// construction, and the property actually needed by "every commitment equals the value recomputed from the body": the root
// commits to EVERY element — changing any single element, dropping the last, or swapping two changes the root.
func deriveShaChecks(run *hx.Run, r *hx.Rng) {
	maxLen := 300
	if run.Thorough() {
		maxLen = 1100
	}
	items := make(rawList, maxLen)
	for i := range items {
		items[i] = append([]byte{0xc8}, r.Bytes(8)...) // distinct well-formed RLP lists
	}
	for n := 0; n <= maxLen; n++ {
		if n > 300 && n%37 != 0 && n != 1023 && n != 1024 && n != 1025 {
			continue
		}
		l := items[:n]
		run.Current(fmt.Sprintf("derivesha len %d", n))
		root := types.DeriveSha(l)
		run.Count("derivesha-lengths")
		if want := independentRoot(l); root != want {
			run.Violate("derivesha-differs", "derivesha-differs", map[string]interface{}{"len": n},
				fmt.Sprintf("DeriveSha of a %d-element list is %x, the trie {rlp(i) -> item_i} has root %x", n, root[:6], want[:6]))
		}
		// sensitivity to single elements (all positions for short lists, the encoding boundaries for long ones)
		pos := []int{0, 1, 2, 55, 56, 126, 127, 128, 129, 130, 254, 255, 256, 257, n - 2, n - 1}
		if n > 40 && !(n >= 126 && n <= 132) && !(n >= 254 && n <= 259) && n != 56 && n != 57 && n%50 != 0 && n != 1024 && n != 1025 {
			continue
		}
		if n <= 40 {
			pos = pos[:0]
			for i := 0; i < n; i++ {
				pos = append(pos, i)
			}
		}
		for _, j := range pos {
			if j < 0 || j >= n {
				continue
			}
			mod := append(rawList{}, l...)
			mod[j] = append([]byte{0xc8}, bytes.Repeat([]byte{byte(j)}, 8)...)
			run.Count("derivesha-sensitivity")
			if types.DeriveSha(mod) == root {
				run.Violate("root-ignores-element", "derivesha-ignores-element", map[string]interface{}{"len": n, "index": j},
					fmt.Sprintf("replacing element %d of a %d-element list leaves DeriveSha unchanged: the root does not commit to that element", j, n))
			}
			if j+1 < n {
				sw := append(rawList{}, l...)
				sw[j], sw[j+1] = sw[j+1], sw[j]
				if types.DeriveSha(sw) == root {
					run.Violate("root-ignores-element", "derivesha-ignores-order", map[string]interface{}{"len": n, "index": j},
						fmt.Sprintf("swapping elements %d and %d of a %d-element list leaves DeriveSha unchanged", j, j+1, n))
				}
			}
		}
		if n > 0 && types.DeriveSha(l[:n-1]) == root {
			run.Violate("root-ignores-element", "derivesha-ignores-last", map[string]interface{}{"len": n}, "dropping the last element leaves DeriveSha unchanged")
		}
	}
}

var bigKinds = []string{"equiv-tx@0", "equiv-tx@1", "equiv-tx@127", "equiv-tx@128", "equiv-tx@129", "equiv-tx@255", "equiv-tx@256", "equiv-tx@last",
	"drop-tx@0", "drop-tx@128", "dup-tx@0", "dup-tx@128", "swap-tx@0", "swap-tx@127", "swap-tx@128", "txhash", "receipthash", "root", "gasused-1"}

// bigBlocks: blocks with 129..260 transactions (list indices crossing the one-byte / two-byte RLP key boundary), imported
// under a few histories and hit with body-element corruptions at the boundary indices — including the replacement of a
// transaction by one that EXECUTES identically, so that only the transaction root can tell the bodies apart.
func bigBlocks(run *hx.Run, r *hx.Rng, k int) {
	rt := chainx.NewRichTree(chainx.RichOpts{GasLimit: 8000000, Shifted: k%2 == 1})
	sizes := []int{129 + r.Intn(2), 131 + r.Intn(125), 257 + r.Intn(4)}
	a := rt.AddBigBlock(r, 0, sizes[0])
	rt.AddBigBlock(r, a.ID, sizes[1])
	rt.AddBigBlock(r, 0, sizes[2]) // a sibling fork re-using the same nonces
	rt.AddRichChild(r, a.ID)
	c := newTreeCtx(rt.Tree, fmt.Sprintf("big#%d%v", k, sizes))
	describe(run, rt)
	seedTag := fmt.Sprintf("seed=%d big=%d", run.Seed, k)
	for h := 0; h < 3; h++ {
		c.runHistory(run, genHistory(rt.Tree, r, h), seedTag)
	}
	c.validCases(run, rt)
	for _, id := range []int{1, 2, 3} {
		run.Count(fmt.Sprintf("big-block-txs:%d+", len(rt.Nodes[id].Block.Transactions())/64*64))
		kinds := bigKinds
		if id != 1 {
			kinds = []string{"equiv-tx@0", "equiv-tx@128", "equiv-tx@255", "equiv-tx@256", "equiv-tx@last", "swap-tx@127", "drop-tx@0"}
		}
		c.corruptBlock(run, rt, r, id, seedTag, kinds)
	}
}

// forkDivergentCode: two forks put DIFFERENT code at the SAME address (same deployer and nonce, different init code); later
// blocks on each fork observe that address through EXTCODESIZE / BALANCE / EXTCODECOPY from another contract (the observed
// account's code is not loaded by a call in that block), call it, and destroy/re-probe it.  Delivered as A only, B only,
// A→B, B→A, interleaved, with and without restarts, archive and pruning: every per-block result must be the builder's.
func forkDivergentCode(run *hx.Run, r *hx.Rng, k int) {
	rt := chainx.NewRichTree(chainx.RichOpts{Shifted: k%3 == 2})
	lib := chainx.Library()
	base := 0
	for i := r.Intn(3); i > 0; i-- { // a common prefix
		base = rt.AddRichChild(r, base).ID
	}
	dep := r.Intn(len(rt.Keys))
	ia := r.Intn(len(lib))
	ib := (ia + 1 + r.Intn(len(lib)-1)) % len(lib)
	for len(lib[ia].Code) == len(lib[ib].Code) {
		ib = (ib + 1) % len(lib)
	}
	var target common.Address
	deploy := func(parent int, code []byte) int {
		return rt.AddTxBlock(parent, "create-divergent", func(nonce func(common.Address) uint64) []*types.Transaction {
			n := nonce(rt.Addrs[dep])
			target = crypto.CreateAddress(rt.Addrs[dep], n)
			return []*types.Transaction{rt.Sign(types.NewContractCreation(n, big.NewInt(int64(r.Intn(50))), 200000, big.NewInt(1), chainx.Deployer(code)), dep)}
		}).ID
	}
	a1 := deploy(base, lib[ia].Code)
	ta := target
	b1 := deploy(base, lib[ib].Code)
	if ta != target {
		panic("fork-divergent deployment landed on different addresses")
	}
	probe := func(parent int) int {
		who := (dep + 1) % len(rt.Keys)
		return rt.AddTxBlock(parent, "probe-extcode", func(nonce func(common.Address) uint64) []*types.Transaction {
			return []*types.Transaction{rt.Sign(types.NewTransaction(nonce(rt.Addrs[who]), chainx.ProbeAddr, big.NewInt(0), 150000, big.NewInt(2),
				common.LeftPadBytes(target.Bytes(), 32)), who)}
		}).ID
	}
	a2, b2 := probe(a1), probe(b1)
	// one more round: an ordinary block, then the probe again (the size is asked for a second time on each fork)
	a3, b3 := rt.AddRichChild(r, a2).ID, rt.AddRichChild(r, b2).ID
	a4, b4 := probe(a3), probe(b3)
	A := append(rt.PathIDs(a4)) // includes the common prefix
	B := rt.PathIDs(b4)
	_ = a2
	_ = b2
	c := newTreeCtx(rt.Tree, fmt.Sprintf("forkcode#%d(%s|%s)", k, lib[ia].Name, lib[ib].Name))
	describe(run, rt)
	seedTag := fmt.Sprintf("seed=%d forkcode=%d", run.Seed, k)
	mk := func(label string, archive bool, restartAfter int, batches ...[]int) history {
		h := history{Label: label, Archive: archive, Batches: batches, Restart: map[int]bool{}}
		if restartAfter >= 0 {
			h.Restart[restartAfter] = true
		}
		return h
	}
	for _, archive := range []bool{true, false} {
		c.runHistory(run, mk("A-only", archive, -1, A), seedTag)
		c.runHistory(run, mk("B-only", archive, -1, B), seedTag)
		c.runHistory(run, mk("A-then-B", archive, -1, A, B), seedTag)
		c.runHistory(run, mk("B-then-A", archive, -1, B, A), seedTag)
		c.runHistory(run, mk("A-restart-B", archive, 0, A, B), seedTag)
		c.runHistory(run, mk("B-restart-A", archive, 0, B, A), seedTag)
	}
	for h := 1; h <= 4; h++ {
		c.runHistory(run, genHistory(rt.Tree, r, h), seedTag)
	}
	c.validCases(run, rt)
	run.Count("fork-divergent-code-trees")
}

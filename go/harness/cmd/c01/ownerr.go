package main

import (
	"fmt"
	"math/big"

	"gitlab.com/aquachain/aquachain/common"
	"gitlab.com/aquachain/aquachain/consensus/aquahash"
	"gitlab.com/aquachain/aquachain/core"
	"gitlab.com/aquachain/aquachain/core/types"
	"gitlab.com/aquachain/aquachain/opt/miner"
	"verifharness/chainx"
	"verifharness/hx"
)

// ownBlockErrorBranches drives worker.commitNewWork with pending sets that make Work.commitTransaction fail MID-BLOCK in each
// of the ways commitTransactions distinguishes; whatever was skipped, the block that comes out must be accepted by a fresh
// node and by the builder with the builder's root / receipts / gas.
//
//	overspend     a sender with two transfers each covered by its balance but not both: the second fails with
//	              vm.ErrInsufficientBalance AFTER the nonce was bumped and the gas bought (default branch: Shift)
//	gas-exhaust   callers burning ~2M gas each until a candidate's gas limit exceeds what is left in the block's gas pool
//	              (ErrGasLimitReached: Pop), followed by a cheap transfer that still fits
//	stale-low     the pool's pending lists are older than the head: first candidates have nonces already used (ErrNonceTooLow: Shift)
//	rewound-high  the head was rewound below the state the pending lists were built on (ErrNonceTooHigh: Pop)
//	pre-eip155    replay-protected candidates before the EIP155 height are ignored, unprotected ones are mined
func ownBlockErrorBranches(run *hx.Run, r *hx.Rng, k int) {
	eng := aquahash.NewFaker()
	for _, mode := range []string{"overspend", "gas-exhaust", "stale-low", "rewound-high", "pre-eip155"} {
		opts := chainx.RichOpts{EmptyPct: 20, UnclePct: 30, Shifted: k%2 == 1 && mode != "pre-eip155"}
		if mode == "pre-eip155" {
			opts.EIP155At = 3
		}
		rt := chainx.NewRichTree(opts)
		t := rt.Tree
		base := 0
		if mode != "pre-eip155" {
			for i := 1 + r.Intn(5); i > 0; i-- {
				base = rt.AddRichChild(r, base).ID
			}
		}
		c := &treeCtx{t: t, name: fmt.Sprintf("own-err#%d(%s)", k, mode)}
		input := map[string]interface{}{"scenario": "own-block-error-branch", "mode": mode, "seed": run.Seed, "k": k, "height": t.Nodes[base].Block.NumberU64() + 1}
		run.Current(fmt.Sprintf("own-block error branch %s #%d", mode, k))
		db1 := newMemDB()
		bc1 := t.OpenChain(db1, &core.CacheConfig{Disabled: true})
		if p := t.PathIDs(base); len(p) > 0 {
			if _, err := bc1.InsertChain(t.Blocks(p)); err != nil {
				run.Violate("valid-block-refused", "valid-block-refused:own-setup", input, err.Error())
				bc1.Stop()
				continue
			}
		}
		st, _ := bc1.State()
		nonce := func(key int) uint64 { return st.GetNonce(t.Addrs[key]) }
		transfer := func(key int, n uint64, to common.Address, val *big.Int, gas uint64, price int64, data []byte) *types.Transaction {
			return t.Sign(types.NewTransaction(n, to, val, gas, big.NewInt(price), data), key)
		}
		dest := common.BytesToAddress([]byte{0xd0, 0xe5, byte(k)})
		var txs []*types.Transaction
		ancestry := t.Blocks(t.PathIDs(base))
		poolCfg := core.DefaultTxPoolConfig
		poolCfg.Journal = ""
		pool := core.NewTxPool(poolCfg, t.Cfg, bc1)
		wantSkipped := 0
		switch mode {
		case "overspend":
			a, b := r.Intn(4), 0
			b = (a + 1 + r.Intn(3)) % 4
			bal := st.GetBalance(t.Addrs[a])
			v := new(big.Int).Div(new(big.Int).Mul(bal, big.NewInt(int64(55+r.Intn(40)))), big.NewInt(100))
			txs = append(txs, transfer(a, nonce(a), dest, v, 21000, 2, nil), transfer(a, nonce(a)+1, dest, v, 21000, 2, nil),
				transfer(b, nonce(b), dest, big.NewInt(int64(1+r.Intn(99))), 21000, 1, nil))
			if r.Bool() { // a third one from the overspender that is affordable again (nonce gap after the skipped one: too high)
				txs = append(txs, transfer(a, nonce(a)+2, dest, big.NewInt(5), 21000, 2, nil))
			}
			wantSkipped = 1
		case "gas-exhaust":
			var loop common.Address
			for _, ct := range chainx.GenesisContracts() {
				if ct.Kind == "loop" {
					loop = ct.Addr
				}
			}
			burn := uint64(1500000 + r.Intn(600000))
			for key := 0; key < 3; key++ {
				txs = append(txs, transfer(key, nonce(key), loop, big.NewInt(0), burn, int64(9-key), nil))
			}
			txs = append(txs, transfer(3, nonce(3), dest, big.NewInt(7), 21000, 1, nil))
			wantSkipped = 1
		case "stale-low":
			a, b := r.Intn(4), 0
			b = (a + 1 + r.Intn(3)) % 4
			first := transfer(a, nonce(a), dest, big.NewInt(11), 21000, 3, nil)
			txs = append(txs, first, transfer(a, nonce(a)+1, dest, big.NewInt(12), 21000, 3, nil), transfer(b, nonce(b), dest, big.NewInt(13), 21000, 1, nil))
		case "rewound-high":
			a, b := r.Intn(4), 0
			b = (a + 1 + r.Intn(3)) % 4
			// one more block in which `a` spends a nonce; the pending lists are then built on top of it
			adv := rt.AddTxBlock(base, "advance", func(nf func(common.Address) uint64) []*types.Transaction {
				return []*types.Transaction{transfer(a, nf(t.Addrs[a]), dest, big.NewInt(3), 21000, 1, nil)}
			})
			if _, err := bc1.InsertChain(types.Blocks{adv.Block}); err != nil {
				run.Violate("valid-block-refused", "valid-block-refused:own-setup", input, err.Error())
			}
			st, _ = bc1.State()
			pool.Stop()
			pool = core.NewTxPool(poolCfg, t.Cfg, bc1)
			txs = append(txs, transfer(a, nonce(a), dest, big.NewInt(21), 21000, 3, nil), transfer(a, nonce(a)+1, dest, big.NewInt(22), 21000, 3, nil),
				transfer(b, nonce(b), dest, big.NewInt(23), 21000, 1, nil))
		case "pre-eip155":
			hs := types.HomesteadSigner{}
			for key := 0; key < 4; key++ {
				raw := types.NewTransaction(nonce(key), dest, big.NewInt(int64(10+key)), 21000, big.NewInt(int64(1+key)), nil)
				var tx *types.Transaction
				if key%2 == 0 {
					tx = t.Sign(raw, key) // replay protected: must be ignored below the EIP155 height
				} else {
					tx, _ = types.SignTx(raw, hs, t.Keys[key])
				}
				txs = append(txs, tx)
			}
			wantSkipped = 2
		}
		for i, err := range pool.AddLocals(txs) {
			if err != nil {
				run.Count("own-err:pool-refused:" + mode)
				_ = i
			}
		}
		pool.Stop() // freeze the pending lists: the pool no longer follows the head
		switch mode {
		case "stale-low": // the head moves on with the first candidate already mined
			adv := rt.AddTxBlock(base, "advance", func(nf func(common.Address) uint64) []*types.Transaction { return txs[:1] })
			if _, err := bc1.InsertChain(types.Blocks{adv.Block}); err != nil {
				run.Violate("valid-block-refused", "valid-block-refused:own-setup", input, err.Error())
			}
			ancestry = append(ancestry, adv.Block)
			wantSkipped = 1
		case "rewound-high": // the head is rewound below the block the pending lists were built on
			bc1.SetHead(t.Nodes[base].Block.NumberU64())
			wantSkipped = 2
		}
		block, receipts, post := miner.VerifC01CommitWork(t.Cfg, eng, bc1, pool, db1, common.Address{0xcb, byte(k)}, []byte("c01e"), nil)
		if block == nil {
			run.Count("own-block:not-built")
			bc1.Stop()
			continue
		}
		skipped := len(txs) - len(block.Transactions())
		run.Count(fmt.Sprintf("own-err:%s:skipped=%d", mode, skipped))
		if skipped < wantSkipped {
			run.Count("own-err:scenario-missed:" + mode) // the intended failure did not occur (visible in the histogram, not an alarm)
		}
		c.judgeOwn(run, r, "worker/"+mode, input, ancestry, bc1, block, receipts, post, false)
		bc1.Stop()
	}
}

package main

import (
	"fmt"
	"math/big"
	"strings"

	"gitlab.com/aquachain/aquachain/aquadb"
	"gitlab.com/aquachain/aquachain/common"
	"gitlab.com/aquachain/aquachain/core"
	"gitlab.com/aquachain/aquachain/core/types"
	"verifharness/chainx"
	"verifharness/hx"
)

func newMemDB() aquadb.Database { return aquadb.NewMemDatabase() }

var corruptionKinds = []string{"txhash", "unclehash", "root", "receipthash", "bloom", "gasused+1", "gasused-1",
	"drop-tx", "dup-tx", "swap-tx", "foreign-tx", "drop-uncle", "alter-uncle", "add-uncle", "swap-uncles"}

func flip(h common.Hash) common.Hash { h[31] ^= 1; return h }

// corrupt applies ONE corruption to an otherwise valid block. The header hash changes for header corruptions; body
// corruptions keep the header (and so the hash).
func corrupt(t *chainx.RichTree, r *hx.Rng, id int, kind string) (*types.Block, bool) {
	b := t.Nodes[id].Block
	h := b.Header()
	txs := append([]*types.Transaction{}, b.Transactions()...)
	uncles := b.Uncles()
	// targeted body corruptions `<what>@<index>` (index "last" = len-1): used on very large blocks
	if at := strings.Index(kind, "@"); at > 0 {
		what, idxS := kind[:at], kind[at+1:]
		idx := len(txs) - 1
		if idxS != "last" {
			fmt.Sscan(idxS, &idx)
		}
		if idx < 0 || idx >= len(txs) {
			return nil, false
		}
		switch what {
		case "equiv-tx": // same sender, nonce, gas, price, zero value — only the (never existing) recipient differs: executes identically
			old := txs[idx]
			key := t.KeyOf(old)
			if key < 0 || old.To() == nil || old.Value().Sign() != 0 || len(old.Data()) != 0 || old.To()[17] != 0xe0 {
				return nil, false
			}
			txs[idx] = t.Sign(types.NewTransaction(old.Nonce(), chainx.GhostAddr(1, idx), big.NewInt(0), old.Gas(), old.GasPrice(), nil), key)
		case "drop-tx":
			txs = append(txs[:idx], txs[idx+1:]...)
		case "dup-tx":
			txs = append(txs[:idx+1], txs[idx:]...)
		case "swap-tx":
			if idx+1 >= len(txs) {
				return nil, false
			}
			txs[idx], txs[idx+1] = txs[idx+1], txs[idx]
		default:
			return nil, false
		}
		return types.NewBlockWithHeader(h).WithBody(txs, uncles), true
	}
	switch kind {
	case "txhash":
		h.TxHash = flip(h.TxHash)
	case "unclehash":
		h.UncleHash = flip(h.UncleHash)
	case "root":
		h.Root = flip(h.Root)
	case "receipthash":
		h.ReceiptHash = flip(h.ReceiptHash)
	case "bloom":
		h.Bloom[r.Intn(256)] ^= 1 << uint(r.Intn(8))
	case "gasused+1":
		if h.GasUsed+1 > h.GasLimit {
			return nil, false
		}
		h.GasUsed++
	case "gasused-1":
		if h.GasUsed == 0 {
			return nil, false
		}
		h.GasUsed--
	case "drop-tx":
		if len(txs) == 0 {
			return nil, false
		}
		k := r.Intn(len(txs))
		txs = append(txs[:k], txs[k+1:]...)
	case "dup-tx":
		if len(txs) == 0 {
			return nil, false
		}
		k := r.Intn(len(txs))
		txs = append(txs[:k+1], txs[k:]...)
	case "swap-tx":
		if len(txs) < 2 {
			return nil, false
		}
		i := r.Intn(len(txs) - 1)
		if txs[i].Hash() == txs[i+1].Hash() {
			return nil, false
		}
		txs[i], txs[i+1] = txs[i+1], txs[i]
	case "foreign-tx":
		if len(t.Txs) == 0 {
			return nil, false
		}
		f := t.Txs[r.Intn(len(t.Txs))]
		if len(txs) == 0 {
			txs = append(txs, f)
		} else {
			k := r.Intn(len(txs))
			if txs[k].Hash() == f.Hash() {
				return nil, false
			}
			txs[k] = f
		}
	case "drop-uncle":
		if len(uncles) == 0 {
			return nil, false
		}
		uncles = uncles[1:]
	case "alter-uncle":
		if len(uncles) == 0 {
			return nil, false
		}
		uncles[0].Coinbase[19] ^= 1
	case "add-uncle":
		if len(uncles) >= 2 {
			return nil, false
		}
		// any other block of the tree at a lower height serves: whether or not it is a legal uncle, the uncle hash no longer matches
		var cands []int
		for _, n := range t.Nodes[1:] {
			if n.Block.NumberU64() < b.NumberU64() && n.ID != id {
				cands = append(cands, n.ID)
			}
		}
		if len(cands) == 0 {
			return nil, false
		}
		uncles = append(uncles, t.Nodes[cands[r.Intn(len(cands))]].Block.Header())
	case "swap-uncles":
		if len(uncles) < 2 {
			return nil, false
		}
		uncles[0], uncles[1] = uncles[1], uncles[0]
	default:
		return nil, false
	}
	return types.NewBlockWithHeader(h).WithBody(txs, uncles), true
}

type refusal struct {
	c     *treeCtx
	rt    *chainx.RichTree
	run   *hx.Run
	input map[string]interface{}
	kind  string
}

func (f *refusal) viol(kind, detail string) {
	f.run.Violate(kind, kind+":"+f.kind, f.input, detail)
}

// expectRefused delivers `batch` (whose element `at` is the corrupted block) and judges the outcome against the property:
// InsertChain must fail at index `at`, and head, database and head state must be what they were before the batch plus the
// valid prefix (`want*` are taken from a twin node that imported only the valid prefix).
func (f *refusal) expectRefused(bc *core.BlockChain, db aquadb.Database, batch types.Blocks, at int, wantHead common.Hash, wantSnap map[string]string, wantState string) (string, bool) {
	n, err := bc.InsertChain(batch)
	ok := true
	if err == nil {
		f.viol("inconsistent-block-accepted", fmt.Sprintf("InsertChain returned (%d, nil) for a batch whose block %d has a %s corruption", n, at, f.kind))
		ok = false
	} else if n != at {
		f.viol("abort-index-wrong", fmt.Sprintf("InsertChain failed at index %d (%v), the corrupted block is at %d", n, err, at))
		ok = false
	}
	if got := bc.CurrentBlock().Hash(); got != wantHead {
		f.viol("refused-block-moved-head", fmt.Sprintf("head is %x after the refused batch, expected %x", got[:6], wantHead[:6]))
		ok = false
	}
	if d := snapDiff(wantSnap, dbSnapshot(db)); d != "" {
		f.viol("refused-block-wrote-db", "database differs after the refused batch: "+d)
		ok = false
	}
	if st, e := bc.State(); e != nil {
		f.viol("refused-block-broke-state", fmt.Sprintf("head state unreadable after the refused batch: %v", e))
		ok = false
	} else if d := dumpDigest(st); d != wantState {
		f.viol("refused-block-changed-state", "head state content differs after the refused batch")
		ok = false
	}
	return errClass(err), ok
}

// corruptBlock runs every applicable single corruption of node id through three delivery shapes.
func (c *treeCtx) corruptBlock(run *hx.Run, rt *chainx.RichTree, r *hx.Rng, id int, seedTag string, kinds []string) {
	t := c.t
	node := t.Nodes[id]
	path := t.PathIDs(node.Parent)
	for _, kind := range kinds {
		cb, ok := corrupt(rt, r, id, kind)
		if !ok {
			run.Count("corruption-na:" + kind)
			continue
		}
		archive := r.Bool()
		cache := &core.CacheConfig{Disabled: true}
		if !archive {
			cache = &core.CacheConfig{TrieNodeLimit: r.Intn(2)}
		}
		shape := r.Intn(3)
		f := &refusal{c: c, rt: rt, run: run, kind: kind, input: map[string]interface{}{"tree": c.name, "seed": seedTag, "node": id, "height": node.Block.NumberU64(),
			"corruption": kind, "archive": archive, "shape": shape, "txs": len(node.Block.Transactions()), "uncles": len(node.Block.Uncles())}}
		run.Current(fmt.Sprintf("corrupt %s node %d %s shape %d", c.name, id, kind, shape))
		// twin: a node that received only the valid blocks
		tdb := newMemDB()
		twin := t.OpenChain(tdb, cache)
		if len(path) > 0 {
			if _, err := twin.InsertChain(t.Blocks(path)); err != nil {
				f.viol("valid-block-refused", fmt.Sprintf("path to node %d refused: %v", node.Parent, err))
				continue
			}
		}
		wantHead := twin.CurrentBlock().Hash()
		wantSnap := dbSnapshot(tdb)
		st, _ := twin.State()
		wantState := dumpDigest(st)
		line := impInput(twin, t.Cfg, cb)

		db := newMemDB()
		bc := t.OpenChain(db, cache)
		var class string
		var good bool
		switch {
		case shape == 1 && len(path) > 0: // the valid tail of the path and the corrupted block in ONE batch
			k := 1 + r.Intn(len(path))
			if len(path)-k > 0 {
				bc.InsertChain(t.Blocks(path[:len(path)-k]))
			}
			batch := append(t.Blocks(path[len(path)-k:]), cb)
			class, good = f.expectRefused(bc, db, batch, k, wantHead, wantSnap, wantState)
			run.Count("corruption-shape:after-valid-prefix")
		case shape == 2 && len(node.Children) > 0 && cb.Hash() == node.Block.Hash(): // followed by a valid child in the same batch
			if len(path) > 0 {
				bc.InsertChain(t.Blocks(path))
			}
			child := t.Nodes[node.Children[0]].Block
			class, good = f.expectRefused(bc, db, types.Blocks{cb, child}, 0, wantHead, wantSnap, wantState)
			if bc.GetBlockByHash(child.Hash()) != nil {
				f.viol("block-after-invalid-written", "the block following the refused one in the batch was written")
			}
			run.Count("corruption-shape:before-valid-child")
		default:
			if len(path) > 0 {
				bc.InsertChain(t.Blocks(path))
			}
			class, good = f.expectRefused(bc, db, types.Blocks{cb}, 0, wantHead, wantSnap, wantState)
			run.Count("corruption-shape:alone")
		}
		run.Count("corruption:" + kind)
		run.Count("refusal-class:" + class)
		if line != "" {
			if class == "ok" {
				rs := core.GetBlockReceipts(db, cb.Hash(), cb.NumberU64())
				run.Case(line, impAccept(cb.Header(), rs))
			} else {
				run.Case(line, "reject "+class)
			}
		}
		// the genuine block must still be importable afterwards, with the builder's results
		if good {
			if _, err := bc.InsertChain(types.Blocks{node.Block}); err != nil {
				f.viol("valid-block-refused", fmt.Sprintf("the genuine block was refused after its corrupted variant: %v", err))
			} else {
				rs := core.GetBlockReceipts(db, node.Block.Hash(), node.Block.NumberU64())
				got := blockResult{Root: node.Block.Root(), Gas: node.Block.GasUsed(), Receipts: canonReceipts(rs)}
				if !got.eq(c.builder[id]) {
					f.viol("nondeterministic-import", "genuine block after refusal: "+got.diff(c.builder[id]))
				}
				run.Count("genuine-after-refusal")
				// … and re-sending the corrupted body now that the hash is known must not disturb what is stored
				if cb.Hash() == node.Block.Hash() {
					before := dbSnapshot(db)
					bc.InsertChain(types.Blocks{cb})
					if d := snapDiff(before, dbSnapshot(db)); d != "" {
						f.viol("refused-block-wrote-db", "re-sending a corrupted body for a known hash changed the database: "+d)
					}
					run.Count("known-hash-resend")
				}
			}
		}
		bc.Stop()
		twin.Stop()
	}
}

var _ = big.NewInt

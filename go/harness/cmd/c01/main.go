// C01 harness — metamorphic differential of block import on the real node (see docs/notes/C01.md).
package main

import (
	"fmt"
	"time"

	"gitlab.com/aquachain/aquachain/core/types"
	"verifharness/chainx"
	"verifharness/hx"
)

var current string

func main() {
	chainx.Quiet()
	run := hx.Start()
	defer run.Finish()
	run.Watch(120*time.Second, 3<<30, func(cur string) string { return "hang " + cur })
	// a panic anywhere in the real code (builder or importer) is an outcome, not a harness crash
	defer func() {
		if e := recover(); e != nil {
			msg := fmt.Sprint(e)
			if len(msg) > 300 {
				msg = msg[:300]
			}
			run.Violate("panic", "panic in the real code", map[string]interface{}{"seed": run.Seed, "tier": run.Tier, "while": current}, "panic while "+current+": "+msg)
			run.Notes["aborted"] = "panic"
		}
	}()
	realMain(run)
}

func realMain(run *hx.Run) {
	t0 := time.Now()
	rng := hx.NewRng(run.Seed)

	// constants assumed by theorem build_then_import (NewBlock's shortcuts for empty lists)
	if types.DeriveSha(types.Transactions{}) != types.EmptyRootHash || types.DeriveSha(types.Receipts{}) != types.EmptyRootHash ||
		types.CalcUncleHash(nil) != types.EmptyUncleHash || types.CreateBloom(nil) != (types.Bloom{}) {
		run.Violate("newblock-constants", "newblock-constants", "empty lists", "DeriveSha/CalcUncleHash/CreateBloom of empty lists differ from the constants NewBlock writes")
	}

	trees, histories, blocks, corruptPerTree, ownPerTree, finPerTree, knowns := 6, 14, 22, 3, 4, 8, 3
	long := 140
	if run.Thorough() {
		trees, histories, blocks, corruptPerTree, ownPerTree, finPerTree, knowns = 40, 40, 30, 6, 5, 10, 20
	}
	run.Notes["trees"] = trees
	run.Notes["histories_per_tree"] = histories

	for ti := 0; ti < trees; ti++ {
		r := rng.Fork(uint64(1000 + ti))
		opts := chainx.RichOpts{Shifted: ti%2 == 1, EmptyPct: 10 + 10*(ti%3), UnclePct: 60}
		if ti%4 >= 2 {
			opts.MinOffset, opts.MaxOffset = -200, 600
		}
		current = fmt.Sprintf("building tree %d", ti)
		rt := chainx.NewRichTree(opts)
		n := blocks/2 + r.Intn(blocks)
		rt.GrowRich(r, n, 15+10*(ti%3))
		current = fmt.Sprintf("checking tree %d", ti)
		name := fmt.Sprintf("rich#%d(shifted=%v,blocks=%d,depth=%d)", ti, opts.Shifted, n, rt.Depth())
		c := newTreeCtx(rt.Tree, name)
		seedTag := fmt.Sprintf("seed=%d tree=%d", run.Seed, ti)
		describe(run, rt)
		for k := 0; k < histories; k++ {
			c.runHistory(run, genHistory(rt.Tree, r, k), seedTag)
		}
		// model cases for every block of the tree (valid blocks: the node must accept them)
		c.validCases(run, rt)
		// single-field corruptions
		for _, id := range pickTargets(rt, r, corruptPerTree) {
			c.corruptBlock(run, rt, r, id, seedTag, corruptionKinds)
		}
		// the node accepts what it builds
		for k := 0; k < ownPerTree; k++ {
			id := r.Intn(len(rt.Nodes))
			if k == 0 { // once per tree: build the block at the height of the HF4 state edit
				for _, n := range rt.Nodes {
					if hf4 := rt.Cfg.GetHF(4); hf4 != nil && n.Block.NumberU64()+1 == hf4.Uint64() {
						id = n.ID
					}
				}
			}
			c.ownBlockAccepted(run, rt, r.Fork(uint64(300+k)), id, seedTag)
		}
		// Finalise: Go map loops vs the model's fold
		for k := 0; k < finPerTree; k++ {
			c.finCases(run, r, 1+r.Intn(len(rt.Nodes)-1))
		}
	}

	// one long chain: more than 128 blocks so that the pruning node garbage-collects and flushes tries during import
	{
		r := rng.Fork(77)
		rt := chainx.NewRichTree(chainx.RichOpts{EmptyPct: 70, UnclePct: 10, MaxTxs: 2})
		for i := 0; i < long; i++ {
			rt.AddRichChild(r, len(rt.Nodes)-1)
		}
		for i := 0; i < 6; i++ { // a few forks near the tip and one deep fork
			rt.AddRichChild(r, len(rt.Nodes)-1-r.Intn(4))
		}
		rt.AddRichChild(r, 3)
		c := newTreeCtx(rt.Tree, fmt.Sprintf("long(%d)", long))
		describe(run, rt)
		hs := 4
		if run.Thorough() {
			hs = 16
		}
		for k := 0; k < hs; k++ {
			h := genHistory(rt.Tree, r, k+1)
			if k%2 == 0 { // make sure the pruning configurations are well represented on the long chain
				h.Archive, h.NodeLim, h.TimeLim = false, 0, time.Duration(k%3)
				h.Label += "/forced-prune"
			}
			c.runHistory(run, h, fmt.Sprintf("seed=%d long", run.Seed))
		}
	}

	for k := 0; k < knowns; k++ {
		knownReimport(run, rng.Fork(uint64(5000+k)))
	}
	run.Notes["t_main_s"] = time.Since(t0).Seconds()
	current = "DeriveSha differential"
	deriveShaChecks(run, rng.Fork(6000))
	run.Notes["t_derivesha_s"] = time.Since(t0).Seconds()
	bigs, forkCodes := 1, 3
	if run.Thorough() {
		bigs, forkCodes = 4, 20
	}
	for k := 0; k < bigs; k++ {
		current = fmt.Sprintf("big-block tree %d", k)
		bigBlocks(run, rng.Fork(uint64(7000+k)), k)
	}
	run.Notes["t_big_s"] = time.Since(t0).Seconds()
	bhForks, senderFams := 2, 2
	if run.Thorough() {
		bhForks, senderFams = 12, 8
	}
	for k := 0; k < bhForks; k++ {
		current = fmt.Sprintf("blockhash forks %d", k)
		blockhashForks(run, rng.Fork(uint64(9500+k)), k)
	}
	for k := 0; k < senderFams; k++ {
		current = fmt.Sprintf("sender-cache family %d", k)
		senderCacheFamily(run, rng.Fork(uint64(9700+k)), k)
	}
	ownErrs := 2
	if run.Thorough() {
		ownErrs = 12
	}
	for k := 0; k < ownErrs; k++ {
		current = fmt.Sprintf("own-block error branches %d", k)
		ownBlockErrorBranches(run, rng.Fork(uint64(9000+k)), k)
	}
	for k := 0; k < forkCodes; k++ {
		current = fmt.Sprintf("fork-divergent-code tree %d", k)
		forkDivergentCode(run, rng.Fork(uint64(8000+k)), k)
	}
}

// describe records the input distribution.
func describe(run *hx.Run, rt *chainx.RichTree) {
	for id, ks := range rt.Kinds {
		for _, k := range ks {
			run.Count("tx:" + k)
		}
		if len(ks) == 0 {
			run.Count("blocks:empty")
		}
		run.Count(fmt.Sprintf("uncles-per-block:%d", len(rt.Uncles[id])))
	}
	for _, n := range rt.Nodes[1:] {
		h := n.Block.NumberU64()
		if h <= 12 {
			run.Count(fmt.Sprintf("height:%02d", h))
		} else {
			run.Count("height:13+")
		}
		run.Count("blocks")
		for _, rc := range n.Receipts {
			if len(rc.PostState) > 0 {
				run.Count("receipts:pre-byzantium")
			} else if rc.Status == 0 {
				run.Count("receipts:failed")
			} else {
				run.Count("receipts:ok")
			}
			if len(rc.Logs) > 0 {
				run.Count("receipts:with-logs")
			}
		}
	}
	forks := 0
	for _, n := range rt.Nodes {
		if len(n.Children) > 1 {
			forks++
		}
	}
	run.Count(fmt.Sprintf("trees-with-forks:%v", forks > 0))
}

// pickTargets prefers blocks with several transactions and with uncles.
func pickTargets(rt *chainx.RichTree, r *hx.Rng, k int) []int {
	var rich, withUncles, any []int
	for _, n := range rt.Nodes[1:] {
		any = append(any, n.ID)
		if len(n.Block.Transactions()) >= 2 {
			rich = append(rich, n.ID)
		}
		if len(n.Block.Uncles()) >= 1 {
			withUncles = append(withUncles, n.ID)
		}
	}
	var out []int
	for i := 0; i < k; i++ {
		pool := any
		switch {
		case i%3 == 0 && len(rich) > 0:
			pool = rich
		case i%3 == 1 && len(withUncles) > 0:
			pool = withUncles
		}
		out = append(out, pool[r.Intn(len(pool))])
	}
	return out
}

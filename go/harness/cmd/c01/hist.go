package main

import (
	"bytes"
	"fmt"
	"time"

	"gitlab.com/aquachain/aquachain/core/types"
	"gitlab.com/aquachain/aquachain/rlp"

	"gitlab.com/aquachain/aquachain/common"
	"gitlab.com/aquachain/aquachain/core"
	"gitlab.com/aquachain/aquachain/core/state"
	"verifharness/chainx"
	"verifharness/hx"
)

// history is one way a block tree reaches a node.
type history struct {
	Label   string
	Archive bool
	NodeLim int
	TimeLim time.Duration
	Batches [][]int
	Restart map[int]bool // restart (close + reopen on the same database) after batch i
	FromRLP bool         // deliver blocks decoded from their RLP bytes (cold objects) instead of the shared in-memory objects
}

func (h history) cache() *core.CacheConfig {
	if h.Archive {
		return &core.CacheConfig{Disabled: true}
	}
	return &core.CacheConfig{TrieNodeLimit: h.NodeLim, TrieTimeLimit: h.TimeLim}
}

func (h history) replay() interface{} {
	var rs []int
	for i := range h.Batches {
		if h.Restart[i] {
			rs = append(rs, i)
		}
	}
	return map[string]interface{}{"label": h.Label, "archive": h.Archive, "trieNodeLimit": h.NodeLim, "trieTimeLimit": h.TimeLim.String(),
		"batches": h.Batches, "restartAfter": rs, "fromRLP": h.FromRLP}
}

// dfsOrder: branch by branch (children visited in random order).
func dfsOrder(t *chainx.Tree, r *hx.Rng) []int {
	var out []int
	var rec func(id int)
	rec = func(id int) {
		if id != 0 {
			out = append(out, id)
		}
		cs := append([]int{}, t.Nodes[id].Children...)
		for i := len(cs) - 1; i > 0; i-- {
			j := r.Intn(i + 1)
			cs[i], cs[j] = cs[j], cs[i]
		}
		for _, c := range cs {
			rec(c)
		}
	}
	rec(0)
	return out
}

// bfsOrder: height by height (all forks advance in lock step).
func bfsOrder(t *chainx.Tree) []int {
	var out []int
	level := []int{0}
	for len(level) > 0 {
		var next []int
		for _, id := range level {
			next = append(next, t.Nodes[id].Children...)
		}
		out = append(out, next...)
		level = next
	}
	return out
}

func singletons(order []int) [][]int {
	var out [][]int
	for _, id := range order {
		out = append(out, []int{id})
	}
	return out
}

// maximalRuns: the longest batches InsertChain accepts as contiguous.
func maximalRuns(t *chainx.Tree, order []int) [][]int {
	var out [][]int
	for i := 0; i < len(order); {
		j := i + 1
		for j < len(order) && t.Nodes[order[j]].Parent == order[j-1] {
			j++
		}
		out = append(out, order[i:j])
		i = j
	}
	return out
}

func genHistory(t *chainx.Tree, r *hx.Rng, k int) history {
	h := history{Restart: map[int]bool{}}
	if k == 0 {
		h.Label, h.Archive = "reference", true
		h.Batches = singletons(t.ParentClosedOrder(r))
		return h
	}
	var order []int
	switch r.Intn(3) {
	case 0:
		order, h.Label = t.ParentClosedOrder(r), "interleaved"
	case 1:
		order, h.Label = dfsOrder(t, r), "branchwise"
	default:
		order, h.Label = bfsOrder(t), "lockstep"
	}
	switch r.Intn(3) {
	case 0:
		h.Batches, h.Label = singletons(order), h.Label+"/single"
	case 1:
		h.Batches, h.Label = maximalRuns(t, order), h.Label+"/maxbatch"
	default:
		h.Batches, h.Label = t.Batches(r, order), h.Label+"/split"
	}
	// re-send some already delivered batches (known blocks)
	if r.Intn(3) == 0 && len(h.Batches) > 2 {
		var out [][]int
		for i, b := range h.Batches {
			out = append(out, b)
			if r.Intn(4) == 0 {
				out = append(out, h.Batches[r.Intn(i+1)])
			}
		}
		h.Batches, h.Label = out, h.Label+"/resend"
	}
	if r.Intn(4) == 0 {
		h.FromRLP = true
		h.Label += "/rlp"
	}
	h.Archive = r.Bool()
	if h.Archive {
		h.Label += "/archive"
	} else {
		h.NodeLim = r.Intn(2)
		h.TimeLim = []time.Duration{0, time.Nanosecond, time.Hour}[r.Intn(3)]
		h.Label += fmt.Sprintf("/prune(%d,%s)", h.NodeLim, h.TimeLim)
	}
	switch r.Intn(3) {
	case 0: // warm caches throughout
	case 1:
		for i := range h.Batches {
			if r.Intn(5) == 0 {
				h.Restart[i] = true
			}
		}
		h.Label += "/restarts"
	default:
		for i := range h.Batches {
			h.Restart[i] = true
		}
		h.Label += "/restart-each"
	}
	return h
}

type treeCtx struct {
	t          *chainx.Tree
	name       string
	builder    map[int]blockResult
	dumps      map[int]string
	bytes      map[int][]byte // RLP of every block as the builder handed it out
	txReported bool
}

// blocksFor returns the blocks of a batch: the tree's shared objects, or fresh objects decoded from the recorded bytes.
func (c *treeCtx) blocksFor(h history, batch []int) types.Blocks {
	if !h.FromRLP {
		return c.t.Blocks(batch)
	}
	out := make(types.Blocks, len(batch))
	for i, id := range batch {
		b := new(types.Block)
		if err := rlp.DecodeBytes(c.bytes[id], b); err != nil {
			panic(err)
		}
		b.SetVersionConfig(c.t.Cfg)
		out[i] = b
	}
	return out
}

// inputIntact: importing must not change the blocks it is handed (they are shared with peers, caches and other nodes).
func (c *treeCtx) inputIntact(run *hx.Run, input interface{}) {
	for _, n := range c.t.Nodes[1:] {
		enc, _ := rlp.EncodeToBytes(n.Block)
		if !bytes.Equal(enc, c.bytes[n.ID]) {
			run.Violate("import-mutated-input", "import-mutated-input", input,
				fmt.Sprintf("node %d (height %d): the in-memory block no longer encodes to the bytes it had before the import (%d txs)", n.ID, n.Block.NumberU64(), len(n.Block.Transactions())))
			c.bytes[n.ID] = enc // report once per mutation
		} else if types.DeriveSha(n.Block.Transactions()) != n.Block.TxHash() {
			run.Violate("import-mutated-input", "in-memory-body-mismatch", input, fmt.Sprintf("node %d: in-memory body does not match header.TxHash", n.ID))
		}
	}
	if ch := c.t.ChangedTxs(); len(ch) > 0 && !c.txReported {
		c.txReported = true
		tx := c.t.Txs[ch[0]]
		run.Violate("import-mutated-input", "execution-mutated-transaction", input,
			fmt.Sprintf("%d transaction object(s) no longer encode to the bytes they were signed with after being executed (first: nonce %d to %x, value now %v)", len(ch), tx.Nonce(), tx.To(), tx.Value()))
	}
	run.Count("cmp:input-intact")
}

func newTreeCtx(t *chainx.Tree, name string) *treeCtx {
	c := &treeCtx{t: t, name: name, builder: map[int]blockResult{}, dumps: map[int]string{}, bytes: map[int][]byte{}}
	sdb := state.NewDatabase(t.GenDB())
	for _, n := range t.Nodes {
		c.builder[n.ID] = blockResult{Root: n.Block.Root(), Gas: n.Block.GasUsed(), Receipts: canonReceipts(n.Receipts)}
		c.bytes[n.ID], _ = rlp.EncodeToBytes(n.Block)
		if n.ID != 0 && types.DeriveSha(n.Block.Transactions()) != n.Block.TxHash() {
			panic(fmt.Sprintf("builder handed out node %d whose body does not match its transaction root", n.ID))
		}
		st, err := state.New(n.Block.Root(), sdb)
		if err != nil {
			panic(err)
		}
		c.dumps[n.ID] = dumpDigest(st)
	}
	return c
}

// runHistory imports the tree under one history on the real node and judges every observable per-block result against the
// builder's own values (hence all histories against each other).
func (c *treeCtx) runHistory(run *hx.Run, h history, seedTag string) {
	t := c.t
	obs := map[common.Hash][]blockResult{}
	db := newMemDB()
	bc := t.OpenChain(db, h.cache())
	attach(bc, t.Cfg, obs)
	input := map[string]interface{}{"tree": c.name, "seed": seedTag, "history": h.replay()}
	viol := func(kind, sig, detail string) {
		run.Violate(kind, sig, input, detail)
	}
	for bi, batch := range h.Batches {
		run.Current(fmt.Sprintf("history %s %s batch %d", c.name, h.Label, bi))
		n, err := bc.InsertChain(c.blocksFor(h, batch))
		if err != nil {
			viol("valid-block-refused", "valid-block-refused:"+errClass(err), fmt.Sprintf("batch %d %v: InsertChain = (%d, %v) for a chain of valid blocks", bi, batch, n, err))
			run.Count("history-errors")
		}
		if h.Restart[bi] {
			bc.Stop()
			bc = t.OpenChain(db, h.cache())
			attach(bc, t.Cfg, obs)
			run.Count("restarts")
		}
	}
	// every Process call of this history
	for hash, rs := range obs {
		id := c.t.ByHash[hash]
		for _, r := range rs {
			run.Count("cmp:process")
			if !r.eq(c.builder[id]) {
				viol("nondeterministic-import", "process-differs-from-builder", fmt.Sprintf("node %d (height %d): Process gave %s (import vs builder)", id, t.Nodes[id].Block.NumberU64(), r.diff(c.builder[id])))
			}
		}
		if len(rs) > 1 {
			run.Count("reprocessed-blocks")
		}
	}
	// what the node has stored
	delivered := map[int]bool{}
	for _, b := range h.Batches {
		for _, id := range b {
			delivered[id] = true
		}
	}
	for _, n := range t.Nodes[1:] {
		if !delivered[n.ID] {
			continue
		}
		hash := n.Block.Hash()
		blk := bc.GetBlockByHash(hash)
		if blk == nil {
			viol("block-missing", "block-missing", fmt.Sprintf("node %d was delivered but is not in the database", n.ID))
			continue
		}
		if rs := core.GetBlockReceipts(db, hash, n.Block.NumberU64()); rs != nil || len(obs[hash]) > 0 {
			run.Count("cmp:receipts")
			got := blockResult{Root: blk.Root(), Gas: blk.GasUsed(), Receipts: canonReceipts(rs)}
			if !got.eq(c.builder[n.ID]) {
				viol("nondeterministic-import", "stored-differs-from-builder", fmt.Sprintf("node %d (height %d): stored %s (stored vs builder)", n.ID, n.Block.NumberU64(), got.diff(c.builder[n.ID])))
			}
			if rs2 := bc.GetReceiptsByHash(hash); canonReceipts(rs2) != canonReceipts(rs) {
				viol("nondeterministic-import", "cache-differs-from-db", fmt.Sprintf("node %d: GetReceiptsByHash differs from the database", n.ID))
			}
		} else {
			run.Count("stored-without-state")
		}
		if bc.HasState(blk.Root()) {
			st, err := bc.StateAt(blk.Root())
			if err == nil {
				run.Count("cmp:state")
				if d := dumpDigest(st); d != c.dumps[n.ID] {
					viol("nondeterministic-import", "state-content-differs", fmt.Sprintf("node %d: state content under root %x differs from the builder's", n.ID, blk.Root().Bytes()[:6]))
				}
			}
		}
	}
	c.inputIntact(run, input)
	// what a peer (or this node after a restart) reads from the database: every stored body must match its header
	bc.Stop()
	bc = t.OpenChain(db, h.cache())
	for _, n := range t.Nodes[1:] {
		if !delivered[n.ID] {
			continue
		}
		if got := bc.GetBlockByHash(n.Block.Hash()); got != nil {
			run.Count("cmp:stored-body")
			if types.DeriveSha(got.Transactions()) != got.TxHash() || types.CalcUncleHash(got.Uncles()) != got.UncleHash() {
				viol("stored-body-inconsistent", "stored-body-inconsistent", fmt.Sprintf("node %d (height %d): the body read back from the database after a restart does not match the header's transaction root / uncle hash", n.ID, n.Block.NumberU64()))
			}
		}
	}
	run.Count("histories")
	if h.FromRLP {
		run.Count("histories:from-rlp")
	}
	if h.Archive {
		run.Count("histories:archive")
	} else {
		run.Count("histories:pruning")
	}
	bc.Stop()
}

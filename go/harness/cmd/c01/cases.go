package main

import (
	"fmt"
	"strings"

	"gitlab.com/aquachain/aquachain/core"
	"gitlab.com/aquachain/aquachain/core/types"
	"gitlab.com/aquachain/aquachain/core/vm"
	"gitlab.com/aquachain/aquachain/params"
	"verifharness/hx"
)

// impInput renders one `imp` case for the model driver: the header's six commitments, the component values recomputed
// by the real code OUTSIDE the import path (DeriveSha of the body, CalcUncleHash, an independent Process on the parent
// state, the engine's header/uncle verdicts) and the per-transaction effects.  bc must hold the parent block and state.
//
//	imp hv=<0|1> uv=<0|1> byz=<0|1> num=<n> ntx=<k> H=<tx>,<uncle>,<root>,<receipt>,<bloom>,<gas> B=<tx>,<uncle> P=<ok|err>,<root>,<receipt> R=<r>/<r>…
//	r = <failed>;<post|->;<gas>;<log>+<log>…      log = <addr>:<topic>:<topic>…
func impInput(bc *core.BlockChain, cfg *params.ChainConfig, block *types.Block) string {
	h := block.Header()
	hv, uv := 0, 0
	if bc.Engine().VerifyHeader(bc, h, true) == nil {
		hv = 1
	}
	if bc.Engine().VerifyUncles(bc, block) == nil {
		uv = 1
	}
	byz := 0
	if cfg.IsByzantium(h.Number) {
		byz = 1
	}
	var sb strings.Builder
	fmt.Fprintf(&sb, "imp hv=%d uv=%d byz=%d num=%d ntx=%d", hv, uv, byz, h.Number.Uint64(), len(block.Transactions()))
	fmt.Fprintf(&sb, " H=%x,%x,%x,%x,%s,%d", h.TxHash, h.UncleHash, h.Root, h.ReceiptHash, bloomHex(h.Bloom), h.GasUsed)
	fmt.Fprintf(&sb, " B=%x,%x", types.DeriveSha(block.Transactions()), types.CalcUncleHash(block.Uncles()))
	parent := bc.GetBlock(block.ParentHash(), block.NumberU64()-1)
	if parent == nil {
		return "" // the parent itself was refused: reported by the caller
	}
	st, err := bc.StateAt(parent.Root())
	if err != nil {
		return ""
	}
	// the state side is only meaningful (and only safe to run: Process assumes verified uncles) once the earlier checks pass
	var rs types.Receipts
	var perr error
	if hv == 1 && uv == 1 && types.DeriveSha(block.Transactions()) == h.TxHash && types.CalcUncleHash(block.Uncles()) == h.UncleHash {
		rs, _, _, perr = core.NewStateProcessor(cfg, bc, bc.Engine()).Process(block, st, vm.Config{})
	} else {
		perr = fmt.Errorf("not run")
	}
	if perr != nil {
		sb.WriteString(" P=err,0,0 R=")
		return sb.String()
	}
	root := st.IntermediateRoot(cfg.IsEIP158(h.Number))
	fmt.Fprintf(&sb, " P=ok,%x,%x R=", root, types.DeriveSha(rs))
	for i, r := range rs {
		if i > 0 {
			sb.WriteByte('/')
		}
		failed := 0
		if r.Status == types.ReceiptStatusFailed && len(r.PostState) == 0 {
			failed = 1
		}
		post := "-"
		if len(r.PostState) > 0 {
			post = fmt.Sprintf("%x", r.PostState)
		}
		fmt.Fprintf(&sb, "%d;%s;%d;", failed, post, r.GasUsed)
		for j, l := range r.Logs {
			if j > 0 {
				sb.WriteByte('+')
			}
			fmt.Fprintf(&sb, "%x", l.Address[:])
			for _, t := range l.Topics {
				fmt.Fprintf(&sb, ":%x", t[:])
			}
		}
	}
	return sb.String()
}

// impAccept renders what the node stored for an accepted block in the form the model prints.
func impAccept(h *types.Header, rs types.Receipts) string {
	var cum []string
	for _, r := range rs {
		cum = append(cum, fmt.Sprint(r.CumulativeGasUsed))
	}
	return fmt.Sprintf("accept gas=%d cum=%s bloom=%s", h.GasUsed, strings.Join(cum, ","), bloomHex(types.CreateBloom(rs)))
}

// validCases: every block of the tree, delivered to a node that holds its parent, as a model case (the node must accept).
func (c *treeCtx) validCases(run *hx.Run, rt interface{}) {
	t := c.t
	db := newMemDB()
	bc := t.OpenChain(db, &core.CacheConfig{Disabled: true})
	defer bc.Stop()
	for _, id := range t.ParentClosedOrder(hxRng(1)) {
		n := t.Nodes[id]
		run.Current(fmt.Sprintf("valid-case %s node %d", c.name, id))
		if bc.GetBlock(n.Block.ParentHash(), n.Block.NumberU64()-1) == nil {
			continue
		}
		line := impInput(bc, t.Cfg, n.Block)
		_, err := bc.InsertChain(types.Blocks{n.Block})
		if err != nil {
			run.Violate("valid-block-refused", "valid-block-refused:"+errClass(err), map[string]interface{}{"tree": c.name, "node": id, "delivery": "parent-closed order, one block per call, archive"},
				fmt.Sprintf("node %d (height %d) refused: %v", id, n.Block.NumberU64(), err))
		}
		if line == "" {
			continue
		}
		if err != nil {
			run.Case(line, "reject "+errClass(err))
			continue
		}
		run.Case(line, impAccept(n.Block.Header(), core.GetBlockReceipts(db, n.Block.Hash(), n.Block.NumberU64())))
		run.Count("valid-cases")
	}
}

func hxRng(s uint64) *hx.Rng { return hx.NewRng(s) }

package main

import (
	"fmt"
	"math/big"

	"gitlab.com/aquachain/aquachain/common"
	"gitlab.com/aquachain/aquachain/core"
	"gitlab.com/aquachain/aquachain/core/types"
	"gitlab.com/aquachain/aquachain/rlp"
	"verifharness/chainx"
	"verifharness/hx"
)

// blockhashForks: a contract storing BLOCKHASH(NUMBER-k), k = 1..8, is called in blocks of two competing branches that fork
// after the last scheduled hard fork (so that difficulty follows block times): branch A is heavier per block, branch B is
// lighter but grows one or two blocks past A — B's block number L+1 is executed while the head is A's block number L
// (its number is head+1 although it is NOT a child of the head).  BLOCKHASH must be answered from the block's own ancestry:
// every delivery order, warm or cold, has to reproduce the builder's roots.
func blockhashForks(run *hx.Run, r *hx.Rng, k int) {
	rt := chainx.NewRichTree(chainx.RichOpts{EmptyPct: 60, MaxTxs: 2, Shifted: k%2 == 1})
	t := rt.Tree
	prefix := 8
	if k%2 == 1 {
		prefix = 12
	}
	prefix += r.Intn(2)
	base := 0
	for i := 0; i < prefix; i++ {
		base = rt.AddRichChild(r, base).ID
	}
	probe := func(parent int, dt int64) int {
		return rt.AddHandBuilt(parent, dt, "blockhash", func(nonce func(common.Address) uint64) []*types.Transaction {
			key := r.Intn(len(t.Keys))
			return []*types.Transaction{t.Sign(types.NewTransaction(nonce(t.Addrs[key]), chainx.BlockhashAddr, big.NewInt(0), 250000, big.NewInt(1), nil), key)}
		}).ID
	}
	L := 1 + r.Intn(3)
	a, b := base, base
	var A, B []int
	for i := 0; i < L; i++ {
		a = probe(a, int64(3+r.Intn(20)))
		A = append(A, a)
	}
	for i := 0; i < L+1+r.Intn(2); i++ {
		b = probe(b, int64(300+r.Intn(200)))
		B = append(B, b)
	}
	c := newTreeCtx(t, fmt.Sprintf("blockhash#%d(prefix=%d,A=%d,B=%d)", k, prefix, len(A), len(B)))
	describe(run, rt)
	if t.Td(A[L-1]).Cmp(t.Td(B[L-1])) <= 0 {
		run.Count("blockhash:branch-A-not-heavier") // the situation under test needs the head to stay on A (visible, not an alarm)
	}
	P := t.PathIDs(base)
	seedTag := fmt.Sprintf("seed=%d blockhash=%d", run.Seed, k)
	mk := func(label string, archive bool, restartAfter int, batches ...[]int) history {
		h := history{Label: label, Archive: archive, Batches: batches, Restart: map[int]bool{}}
		if restartAfter >= 0 {
			h.Restart[restartAfter] = true
		}
		return h
	}
	var singlesB [][]int
	for _, id := range B {
		singlesB = append(singlesB, []int{id})
	}
	for _, archive := range []bool{true, false} {
		c.runHistory(run, mk("B-only(cold reference)", archive, -1, P, B), seedTag)
		c.runHistory(run, mk("A-then-B", archive, -1, P, A, B), seedTag)
		c.runHistory(run, mk("A-then-B-blockwise", archive, -1, append([][]int{P, A}, singlesB...)...), seedTag)
		c.runHistory(run, mk("B-then-A", archive, -1, P, B, A), seedTag)
		c.runHistory(run, mk("A-restart-B", archive, 1, P, A, B), seedTag)
	}
	for h := 1; h <= 3; h++ {
		c.runHistory(run, genHistory(t, r, h), seedTag)
	}
	run.Count("blockhash-fork-trees")
}

// senderCacheFamily: "warm vs cold" around the EIP155 height.  On a private config with EIP155Block = F > 0, for every block
// of a short chain crossing F candidate blocks are formed (the block itself; a transaction replaced by its replay-protected /
// unprotected twin with the transaction root adjusted — INVALID below F, valid from F on), the sender caches of the very
// transaction objects are pre-warmed with the OTHER signer, and the candidate is imported (a) as these objects on a node that
// has been running, (b) decoded from its RLP bytes on a cold node.  Verdict, head and state root must agree, and a block
// carrying a replay-protected transaction below F must be refused by both.
func senderCacheFamily(run *hx.Run, r *hx.Rng, k int) {
	F := uint64(3 + k%2)
	rt := chainx.NewRichTree(chainx.RichOpts{EIP155At: F})
	t := rt.Tree
	eip, hs := types.NewEIP155Signer(t.Cfg.ChainId), types.HomesteadSigner{}
	dest := common.BytesToAddress([]byte{0xd1, byte(k)})
	sign := func(raw *types.Transaction, protected bool, key int) *types.Transaction {
		var s types.Signer = hs
		if protected {
			s = eip
		}
		tx, err := types.SignTx(raw, s, t.Keys[key])
		if err != nil {
			panic(err)
		}
		return tx
	}
	cur := 0
	for h := uint64(1); h <= F+1; h++ {
		cur = rt.AddTxBlock(cur, "signer-mix", func(nonce func(common.Address) uint64) []*types.Transaction {
			var out []*types.Transaction
			used := map[int]bool{}
			for i := 1 + r.Intn(2); i > 0; i-- {
				key := r.Intn(len(t.Keys))
				if used[key] {
					continue
				}
				used[key] = true
				raw := types.NewTransaction(nonce(t.Addrs[key]), dest, big.NewInt(int64(1+r.Intn(50))), 21000, big.NewInt(int64(1+r.Intn(3))), nil)
				out = append(out, sign(raw, h >= F && r.Bool(), key))
			}
			return out
		}).ID
	}
	for _, n := range t.Nodes[1:] {
		h := n.Block.NumberU64()
		type cand struct {
			name    string
			block   *types.Block
			invalid bool
		}
		// fresh transaction objects for every candidate (the caches under test live in the objects)
		reTx := func(tx *types.Transaction) *types.Transaction {
			var c types.Transaction
			b, _ := rlp.EncodeToBytes(tx)
			if err := rlp.DecodeBytes(b, &c); err != nil {
				panic(err)
			}
			return &c
		}
		var cands []cand
		var same []*types.Transaction
		for _, tx := range n.Block.Transactions() {
			same = append(same, reTx(tx))
		}
		cands = append(cands, cand{"as-built", types.NewBlockWithHeader(n.Block.Header()).WithBody(same, nil), false})
		if len(n.Block.Transactions()) > 0 {
			i := r.Intn(len(n.Block.Transactions()))
			old := n.Block.Transactions()[i]
			key := t.KeyOf(old)
			if key >= 0 {
				twin := sign(types.NewTransaction(old.Nonce(), *old.To(), old.Value(), old.Gas(), old.GasPrice(), nil), !old.Protected(), key)
				var txs []*types.Transaction
				for j, tx := range n.Block.Transactions() {
					if j == i {
						txs = append(txs, twin)
					} else {
						txs = append(txs, reTx(tx))
					}
				}
				hd := n.Block.Header()
				hd.TxHash = types.DeriveSha(types.Transactions(txs))
				cands = append(cands, cand{fmt.Sprintf("twin(protected=%v)", twin.Protected()), types.NewBlockWithHeader(hd).WithBody(txs, nil), twin.Protected() && h < F})
			}
		}
		for _, cd := range cands {
			input := map[string]interface{}{"scenario": "sender-cache warm vs cold", "eip155Block": F, "height": h, "candidate": cd.name, "seed": run.Seed, "k": k}
			run.Current(fmt.Sprintf("sender-cache F=%d height %d %s", F, h, cd.name))
			enc, err := rlp.EncodeToBytes(cd.block)
			if err != nil {
				panic(err)
			}
			type res struct {
				class string
				head  common.Hash
				root  common.Hash
			}
			deliver := func(warm bool) res {
				bc, _ := t.NewChain(&core.CacheConfig{Disabled: true})
				defer bc.Stop()
				if p := t.Path(n.Parent); len(p) > 0 {
					bc.InsertChain(p)
				}
				blk := cd.block
				if warm {
					for _, tx := range blk.Transactions() { // what a tx pool / RPC layer / an earlier fork import leaves behind in the objects
						types.Sender(eip, tx)
						if r.Bool() {
							types.Sender(hs, tx)
							types.Sender(eip, tx)
						}
					}
				} else {
					blk = new(types.Block)
					if err := rlp.DecodeBytes(enc, blk); err != nil {
						panic(err)
					}
					blk.SetVersionConfig(t.Cfg)
				}
				_, err := bc.InsertChain(types.Blocks{blk})
				return res{errClass(err), bc.CurrentBlock().Hash(), bc.CurrentBlock().Root()}
			}
			w, cold := deliver(true), deliver(false)
			run.Count("sender-cache:" + cd.name + ":" + cold.class)
			if w != cold {
				run.Violate("warm-cold-differ", "warm-cold-differ:sender-cache", input,
					fmt.Sprintf("the same block bytes: a node holding the transaction objects (sender caches filled under another signer) answers %s / head %x, a cold node decoding the bytes answers %s / head %x",
						w.class, w.head[:6], cold.class, cold.head[:6]))
			}
			if cd.invalid && (w.class == "ok" || cold.class == "ok") {
				run.Violate("inconsistent-block-accepted", "inconsistent-block-accepted:protected-tx-before-eip155", input,
					fmt.Sprintf("a block at height %d < EIP155Block %d carrying a replay-protected transaction was accepted (warm: %s, cold: %s)", h, F, w.class, cold.class))
			}
			if !cd.invalid && cold.class != "ok" {
				run.Violate("valid-block-refused", "valid-block-refused:"+cold.class, input, fmt.Sprintf("valid candidate %s at height %d refused by a cold node: %s", cd.name, h, cold.class))
			}
		}
	}
	run.Count("sender-cache-trees")
}

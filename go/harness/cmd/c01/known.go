package main

import (
	"context"
	"fmt"
	"math/big"

	"gitlab.com/aquachain/aquachain/common"
	"gitlab.com/aquachain/aquachain/consensus/aquahash"
	"gitlab.com/aquachain/aquachain/core"
	"gitlab.com/aquachain/aquachain/core/types"
	"verifharness/chainx"
	"verifharness/hx"
)

// knownReimport: a block that is already known WITH state but lies above the head (tip of a longer, lighter side branch)
// is delivered again with a body that no longer matches the header (two independent transfers swapped: same receipts, same
// state root, same gas — only the transaction root differs).  The node must not accept it: whatever is stored under that
// hash afterwards must still match the header.
func knownReimport(run *hx.Run, r *hx.Rng) {
	t := chainx.NewTree(chainx.Opts{ForkFree: true})
	g := t.Nodes[0].Block
	eng := aquahash.NewFaker()
	k := 8 + r.Intn(5)
	A, _ := core.GenerateChain(context.Background(), t.Cfg, g, eng, t.GenDB(), k, func(i int, b *core.BlockGen) {
		b.SetCoinbase(common.Address{0xaa})
		b.OffsetTime(-235)
	})
	ntx := 2 + r.Intn(2)
	B, _ := core.GenerateChain(context.Background(), t.Cfg, g, eng, t.GenDB(), k+1, func(i int, b *core.BlockGen) {
		b.SetCoinbase(common.Address{0xbb})
		b.OffsetTime(1000)
		if i == k {
			for j := 0; j < ntx; j++ {
				raw := types.NewTransaction(0, common.Address{0x77}, big.NewInt(int64(1+r.Intn(9))), 21000, big.NewInt(int64(1+j)), nil)
				tx, _ := types.SignTx(raw, t.Signer, t.Keys[j])
				b.AddTx(tx)
			}
		}
	})
	archive := r.Bool()
	cache := &core.CacheConfig{Disabled: true}
	if !archive {
		cache = &core.CacheConfig{}
	}
	input := map[string]interface{}{"scenario": "known-reimport-body", "heavy": k, "light": k + 1, "txs": ntx, "archive": archive}
	run.Current("known-reimport-body")
	db := newMemDB()
	bc := t.OpenChain(db, cache)
	if _, err := bc.InsertChain(A); err != nil {
		run.Violate("valid-block-refused", "valid-block-refused:known-setup", input, err.Error())
		return
	}
	if _, err := bc.InsertChain(B); err != nil {
		run.Violate("valid-block-refused", "valid-block-refused:known-setup", input, err.Error())
		return
	}
	tip := B[k]
	if bc.CurrentBlock().Hash() != A[k-1].Hash() || !bc.HasBlockAndState(tip.Hash(), tip.NumberU64()) {
		run.Count("known-reimport:setup-missed") // the light branch won or lost its state: not the situation under test
		bc.Stop()
		return
	}
	txs := append([]*types.Transaction{}, tip.Transactions()...)
	i := r.Intn(len(txs) - 1)
	txs[i], txs[i+1] = txs[i+1], txs[i]
	tampered := types.NewBlockWithHeader(tip.Header()).WithBody(txs, nil)
	before := dbSnapshot(db)
	n, err := bc.InsertChain(types.Blocks{tampered})
	bc.Stop()
	after := dbSnapshot(db)
	// judge what is stored, through a fresh node on the same database (no block cache)
	bc2 := t.OpenChain(db, cache)
	bad := ""
	for _, b := range append(append(types.Blocks{}, A...), B...) {
		got := bc2.GetBlockByHash(b.Hash())
		if got == nil {
			continue
		}
		if types.DeriveSha(got.Transactions()) != got.TxHash() || types.CalcUncleHash(got.Uncles()) != got.UncleHash() {
			bad = fmt.Sprintf("block %d (%x…): stored body does not match the header's transaction root / uncle hash", got.NumberU64(), got.Hash().Bytes()[:6])
		}
	}
	bc2.Stop()
	_ = before
	_ = after
	run.Count("known-reimport:" + errClass(err))
	if bad != "" {
		run.Violate("inconsistent-block-accepted", "known-reimport-body", input,
			fmt.Sprintf("InsertChain(known block, tampered body) = (%d, %v); %s", n, err, bad))
	} else if err == nil {
		run.Violate("inconsistent-block-accepted", "known-reimport-body", input,
			fmt.Sprintf("InsertChain(known block above the head, tampered body) = (%d, nil): a block whose transaction root does not match its body was not refused", n))
	}
	run.Count("known-reimport")
}

package main

import (
	"bytes"
	"crypto/sha256"
	"encoding/hex"
	"encoding/json"
	"fmt"
	"sort"
	"strings"

	"gitlab.com/aquachain/aquachain/aquadb"
	"gitlab.com/aquachain/aquachain/common"
	"gitlab.com/aquachain/aquachain/core"
	"gitlab.com/aquachain/aquachain/core/state"
	"gitlab.com/aquachain/aquachain/core/types"
	"gitlab.com/aquachain/aquachain/core/vm"
	"gitlab.com/aquachain/aquachain/params"
)

// blockResult is "the result of importing a block": post-state root, receipts (consensus fields incl. logs), gas used.
type blockResult struct {
	Root     common.Hash
	Gas      uint64
	Receipts string
}

func (a blockResult) eq(b blockResult) bool { return a.Root == b.Root && a.Gas == b.Gas && a.Receipts == b.Receipts }

func (a blockResult) diff(b blockResult) string {
	switch {
	case a.Root != b.Root:
		return fmt.Sprintf("state root %x vs %x", a.Root[:6], b.Root[:6])
	case a.Gas != b.Gas:
		return fmt.Sprintf("gas used %d vs %d", a.Gas, b.Gas)
	default:
		return "receipts " + firstDiff(a.Receipts, b.Receipts)
	}
}

func firstDiff(a, b string) string {
	i := 0
	for i < len(a) && i < len(b) && a[i] == b[i] {
		i++
	}
	lo := i - 20
	if lo < 0 {
		lo = 0
	}
	cut := func(s string) string {
		hi := i + 40
		if hi > len(s) {
			hi = len(s)
		}
		if lo > len(s) {
			return ""
		}
		return s[lo:hi]
	}
	return fmt.Sprintf("at %d: %q vs %q", i, cut(a), cut(b))
}

// canonReceipts renders the CONSENSUS fields of receipts: status | post state, cumulative gas, bloom, logs(address, topics, data).
func canonReceipts(rs types.Receipts) string {
	var sb strings.Builder
	for _, r := range rs {
		if len(r.PostState) > 0 {
			fmt.Fprintf(&sb, "p%x", r.PostState)
		} else {
			fmt.Fprintf(&sb, "s%d", r.Status)
		}
		bl := sha256.Sum256(r.Bloom[:])
		fmt.Fprintf(&sb, ",c%d,b%x,[", r.CumulativeGasUsed, bl[:8])
		for _, l := range r.Logs {
			fmt.Fprintf(&sb, "%x", l.Address[:])
			for _, t := range l.Topics {
				fmt.Fprintf(&sb, ":%x", t[:])
			}
			fmt.Fprintf(&sb, "=%x;", l.Data)
		}
		sb.WriteString("]|")
	}
	return sb.String()
}

// dumpDigest hashes the full content of a state (every account: nonce, balance, code hash, code, storage).
func dumpDigest(st *state.StateDB) string {
	d := st.RawDump()
	b, err := json.Marshal(d)
	if err != nil {
		panic(err)
	}
	h := sha256.Sum256(b)
	return hex.EncodeToString(h[:12])
}

// recProc wraps the chain's real StateProcessor and records what every Process call produced.
type recProc struct {
	inner core.Processor
	cfg   *params.ChainConfig
	obs   map[common.Hash][]blockResult
	calls int
}

func (p *recProc) Process(block *types.Block, statedb *state.StateDB, cfg vm.Config) (types.Receipts, []*types.Log, uint64, error) {
	rs, logs, gas, err := p.inner.Process(block, statedb, cfg)
	p.calls++
	if err == nil {
		// the root is taken on a copy: the recorder must not touch the state the validator is about to inspect
		root := statedb.Copy().IntermediateRoot(p.cfg.IsEIP158(block.Number()))
		p.obs[block.Hash()] = append(p.obs[block.Hash()], blockResult{Root: root, Gas: gas, Receipts: canonReceipts(rs)})
	}
	return rs, logs, gas, err
}

func attach(bc *core.BlockChain, cfg *params.ChainConfig, obs map[common.Hash][]blockResult) *recProc {
	p := &recProc{inner: core.NewStateProcessor(cfg, bc, bc.Engine()), cfg: cfg, obs: obs}
	bc.SetProcessor(p)
	return p
}

// dbSnapshot digests every key/value of a MemDatabase.
func dbSnapshot(db aquadb.Database) map[string]string {
	m := db.(*aquadb.MemDatabase)
	out := map[string]string{}
	for _, k := range m.Keys() {
		v, _ := m.Get(k)
		h := sha256.Sum256(v)
		out[string(k)] = string(h[:8])
	}
	return out
}

func snapDiff(a, b map[string]string) string {
	var ds []string
	for k, v := range a {
		if w, ok := b[k]; !ok {
			ds = append(ds, fmt.Sprintf("deleted %x", trunc([]byte(k))))
		} else if w != v {
			ds = append(ds, fmt.Sprintf("changed %x", trunc([]byte(k))))
		}
	}
	for k := range b {
		if _, ok := a[k]; !ok {
			ds = append(ds, fmt.Sprintf("added %x", trunc([]byte(k))))
		}
	}
	sort.Strings(ds)
	if len(ds) > 4 {
		ds = append(ds[:4], fmt.Sprintf("… %d more", len(ds)-4))
	}
	return strings.Join(ds, ", ")
}

func trunc(b []byte) []byte {
	if len(b) > 12 {
		return b[:12]
	}
	return b
}

// errClass maps the import path's errors to the small enum shared with the model.
func errClass(err error) string {
	if err == nil {
		return "ok"
	}
	s := err.Error()
	switch {
	case strings.Contains(s, "uncle root hash mismatch"):
		return "uncle-hash"
	case strings.Contains(s, "transaction root hash mismatch"):
		return "tx-root"
	case strings.Contains(s, "invalid gas used"):
		return "gas-used"
	case strings.Contains(s, "invalid bloom"):
		return "bloom"
	case strings.Contains(s, "invalid receipt root"):
		return "receipt-root"
	case strings.Contains(s, "invalid merkle root"):
		return "state-root"
	case strings.Contains(s, "uncle") || strings.Contains(s, "Uncle"):
		return "uncles"
	case strings.Contains(s, "nonce too") || strings.Contains(s, "insufficient") || strings.Contains(s, "gas limit reached") ||
		strings.Contains(s, "intrinsic gas") || strings.Contains(s, "invalid sender") || strings.Contains(s, "invalid transaction"):
		return "apply"
	case strings.Contains(s, "unknown ancestor"):
		return "unknown-ancestor"
	default:
		return "header"
	}
}

func hashHex(h common.Hash) string { return hex.EncodeToString(h[:]) }

func bloomHex(b types.Bloom) string {
	s := b.Big().Text(16)
	return s
}

var _ = bytes.Equal

package main

// specItem: an independent, hand-written description of how Go values map to RLP items (the "supported types" of the
// property): used to tie the real typed ENCODERS to the Lean spec encoder (`enc <item>` lines), while typed DECODERS are
// tied by round trip + canonicity on the real code.

import (
	"math/big"
	"reflect"
	"strings"

	"gitlab.com/aquachain/aquachain/core/types"
	"gitlab.com/aquachain/aquachain/rlp"
)

var (
	bigType  = reflect.TypeOf(big.Int{})
	rawType  = reflect.TypeOf(rlp.RawValue{})
	txType   = reflect.TypeOf(types.Transaction{})
	rcptType = reflect.TypeOf(types.Receipt{})
	logType  = reflect.TypeOf(types.Log{})
	blkType  = reflect.TypeOf(types.Block{})
)

func minBE(u uint64) []byte { return new(big.Int).SetUint64(u).Bytes() }

func isByteKind(t reflect.Type) bool { return t.Kind() == reflect.Uint8 }

func specItem(v reflect.Value) interface{} {
	t := v.Type()
	switch {
	case t == bigType:
		b := v.Addr().Interface().(*big.Int)
		return b.Bytes()
	case t == rawType:
		var it interface{}
		if err := rlp.DecodeBytes(v.Bytes(), &it); err != nil {
			panic(err)
		}
		return it
	case t == txType:
		tx := v.Addr().Interface().(*types.Transaction)
		vv, r, s := tx.RawSignatureValues()
		var to []byte
		if tx.To() != nil {
			to = tx.To().Bytes()
		}
		return []interface{}{minBE(tx.Nonce()), tx.GasPrice().Bytes(), minBE(tx.Gas()), to, tx.Value().Bytes(), tx.Data(), vv.Bytes(), r.Bytes(), s.Bytes()}
	case t == logType:
		l := v.Addr().Interface().(*types.Log)
		topics := []interface{}{}
		for _, tp := range l.Topics {
			topics = append(topics, tp.Bytes())
		}
		return []interface{}{l.Address.Bytes(), topics, l.Data}
	case t == rcptType:
		r := v.Addr().Interface().(*types.Receipt)
		var st []byte
		if len(r.PostState) > 0 {
			st = r.PostState
		} else if r.Status == types.ReceiptStatusSuccessful {
			st = []byte{1}
		} else {
			st = []byte{}
		}
		logs := []interface{}{}
		for _, l := range r.Logs {
			logs = append(logs, specItem(reflect.ValueOf(l).Elem()))
		}
		return []interface{}{st, minBE(r.CumulativeGasUsed), r.Bloom.Bytes(), logs}
	case t == blkType:
		b := v.Addr().Interface().(*types.Block)
		txs := []interface{}{}
		for _, tx := range b.Transactions() {
			txs = append(txs, specItem(reflect.ValueOf(tx).Elem()))
		}
		uncles := []interface{}{}
		for _, u := range b.Uncles() {
			uncles = append(uncles, specItem(reflect.ValueOf(u).Elem()))
		}
		return []interface{}{specItem(reflect.ValueOf(b.Header()).Elem()), txs, uncles}
	}
	switch t.Kind() {
	case reflect.Uint, reflect.Uint8, reflect.Uint16, reflect.Uint32, reflect.Uint64, reflect.Uintptr:
		return minBE(v.Uint())
	case reflect.Bool:
		if v.Bool() {
			return []byte{1}
		}
		return []byte{}
	case reflect.String:
		return []byte(v.String())
	case reflect.Slice, reflect.Array:
		if isByteKind(t.Elem()) {
			b := make([]byte, v.Len())
			for i := range b {
				b[i] = byte(v.Index(i).Uint())
			}
			return b
		}
		xs := []interface{}{}
		for i := 0; i < v.Len(); i++ {
			xs = append(xs, specItem(v.Index(i)))
		}
		return xs
	case reflect.Struct:
		xs := []interface{}{}
		for i := 0; i < t.NumField(); i++ {
			f := t.Field(i)
			if f.PkgPath != "" {
				continue // unexported
			}
			tag := f.Tag.Get("rlp")
			if tag == "-" {
				continue
			}
			if strings.Contains(tag, "tail") {
				for j := 0; j < v.Field(i).Len(); j++ {
					xs = append(xs, specItem(v.Field(i).Index(j)))
				}
				continue
			}
			xs = append(xs, specItem(v.Field(i)))
		}
		return xs
	case reflect.Ptr:
		if v.IsNil() {
			et := t.Elem()
			switch {
			case et == bigType:
				return []byte{}
			case et.Kind() == reflect.Array && isByteKind(et.Elem()):
				return []byte{}
			case et.Kind() == reflect.Struct || et.Kind() == reflect.Array:
				return []interface{}{}
			default:
				return specItem(reflect.Zero(et))
			}
		}
		return specItem(v.Elem())
	case reflect.Interface:
		if v.IsNil() {
			return []interface{}{}
		}
		return specItem(v.Elem())
	}
	panic("specItem: unsupported " + t.String())
}

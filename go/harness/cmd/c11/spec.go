package main

// specItem: an independent, hand-written description of how Go values map to RLP items (the "supported types" of the
// property): used to tie the real typed ENCODERS to the Lean spec encoder (`enc <item>` lines) and, as the rendering of
// decoded values, the real typed DECODERS to the Lean typed model (`tdec <tydesc> <hex>` lines).
//
// Modes: rawLeaf renders an rlp.RawValue as an opaque leaf `r<hex>` (its content need not be a valid item);
// nilLeaf renders a nil pointer (other than *big.Int, which is the type `big` itself) as `n` (`tenc` lines).

import (
	"math/big"
	"reflect"
	"strings"

	"gitlab.com/aquachain/aquachain/core/types"
	"gitlab.com/aquachain/aquachain/rlp"
)

var (
	bigType  = reflect.TypeOf(big.Int{})
	rawType  = reflect.TypeOf(rlp.RawValue{})
	txType   = reflect.TypeOf(types.Transaction{})
	rcptType = reflect.TypeOf(types.Receipt{})
	logType  = reflect.TypeOf(types.Log{})
	blkType  = reflect.TypeOf(types.Block{})
)

func minBE(u uint64) []byte { return new(big.Int).SetUint64(u).Bytes() }

func isByteKind(t reflect.Type) bool { return t.Kind() == reflect.Uint8 }

type specMode struct{ rawLeaf, nilLeaf bool }

type rawLeaf []byte
type nilLeaf struct{}

func specItem(v reflect.Value) interface{} { return specItemM(v, specMode{}) }

func specItemM(v reflect.Value, m specMode) interface{} {
	t := v.Type()
	switch {
	case t == bigType:
		b := v.Addr().Interface().(*big.Int)
		return b.Bytes()
	case t == rawType:
		if m.rawLeaf {
			return rawLeaf(append([]byte{}, v.Bytes()...))
		}
		var it interface{}
		if err := rlp.DecodeBytes(v.Bytes(), &it); err != nil {
			panic(err)
		}
		return it
	case t == txType:
		tx := v.Addr().Interface().(*types.Transaction)
		vv, r, s := tx.RawSignatureValues()
		var to interface{} = []byte(nil)
		if tx.To() != nil {
			to = tx.To().Bytes()
		} else if m.nilLeaf {
			to = nilLeaf{}
		}
		return []interface{}{minBE(tx.Nonce()), tx.GasPrice().Bytes(), minBE(tx.Gas()), to, tx.Value().Bytes(), tx.Data(), vv.Bytes(), r.Bytes(), s.Bytes()}
	case t == logType:
		l := v.Addr().Interface().(*types.Log)
		topics := []interface{}{}
		for _, tp := range l.Topics {
			topics = append(topics, tp.Bytes())
		}
		return []interface{}{l.Address.Bytes(), topics, l.Data}
	case t == rcptType:
		r := v.Addr().Interface().(*types.Receipt)
		var st []byte
		if len(r.PostState) > 0 {
			st = r.PostState
		} else if r.Status == types.ReceiptStatusSuccessful {
			st = []byte{1}
		} else {
			st = []byte{}
		}
		logs := []interface{}{}
		for _, l := range r.Logs {
			logs = append(logs, specItemM(reflect.ValueOf(l).Elem(), m))
		}
		return []interface{}{st, minBE(r.CumulativeGasUsed), r.Bloom.Bytes(), logs}
	case t == blkType:
		b := v.Addr().Interface().(*types.Block)
		txs := []interface{}{}
		for _, tx := range b.Transactions() {
			txs = append(txs, specItemM(reflect.ValueOf(tx).Elem(), m))
		}
		uncles := []interface{}{}
		for _, u := range b.Uncles() {
			uncles = append(uncles, specItemM(reflect.ValueOf(u).Elem(), m))
		}
		return []interface{}{specItemM(reflect.ValueOf(b.Header()).Elem(), m), txs, uncles}
	}
	switch t.Kind() {
	case reflect.Uint, reflect.Uint8, reflect.Uint16, reflect.Uint32, reflect.Uint64, reflect.Uintptr:
		return minBE(v.Uint())
	case reflect.Bool:
		if v.Bool() {
			return []byte{1}
		}
		return []byte{}
	case reflect.String:
		return []byte(v.String())
	case reflect.Slice, reflect.Array:
		if isByteKind(t.Elem()) {
			b := make([]byte, v.Len())
			for i := range b {
				b[i] = byte(v.Index(i).Uint())
			}
			return b
		}
		xs := []interface{}{}
		for i := 0; i < v.Len(); i++ {
			xs = append(xs, specItemM(v.Index(i), m))
		}
		return xs
	case reflect.Struct:
		xs := []interface{}{}
		for i := 0; i < t.NumField(); i++ {
			f := t.Field(i)
			if f.PkgPath != "" {
				continue // unexported
			}
			tag := f.Tag.Get("rlp")
			if tag == "-" {
				continue
			}
			if strings.Contains(tag, "tail") {
				for j := 0; j < v.Field(i).Len(); j++ {
					xs = append(xs, specItemM(v.Field(i).Index(j), m))
				}
				continue
			}
			xs = append(xs, specItemM(v.Field(i), m))
		}
		return xs
	case reflect.Ptr:
		if v.IsNil() {
			et := t.Elem()
			switch {
			case et == bigType:
				return []byte{}
			case m.nilLeaf:
				return nilLeaf{}
			case et.Kind() == reflect.Array && isByteKind(et.Elem()):
				return []byte{}
			case et.Kind() == reflect.Struct || et.Kind() == reflect.Array:
				return []interface{}{}
			default:
				return specItemM(reflect.Zero(et), m)
			}
		}
		return specItemM(v.Elem(), m)
	case reflect.Interface:
		if v.IsNil() {
			return []interface{}{}
		}
		return specItemM(v.Elem(), m)
	}
	panic("specItem: unsupported " + t.String())
}

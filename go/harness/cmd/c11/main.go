// c11: correspondence harness for RLP (property C11). Calls the real rlp package in-process.
package main

import (
	"bytes"
	"fmt"
	"io"
	"math/big"
	"reflect"
	"strings"
	"time"

	"gitlab.com/aquachain/aquachain/common"
	"gitlab.com/aquachain/aquachain/core/state"
	"gitlab.com/aquachain/aquachain/core/types"
	"gitlab.com/aquachain/aquachain/rlp"
	"verifharness/hx"
)

var alphabet = []byte{0x00, 0x01, 0x7f, 0x80, 0x81, 0xb7, 0xb8, 0xb9, 0xbf, 0xc0, 0xc1, 0xf7, 0xf8, 0xf9, 0xff, 0x37, 0x38}

func render(v interface{}) string {
	switch x := v.(type) {
	case []byte:
		if len(x) == 0 {
			return "s"
		}
		return "s" + hx.Hex(x)
	case []interface{}:
		parts := make([]string, len(x))
		for i, e := range x {
			parts[i] = render(e)
		}
		return "[" + strings.Join(parts, ",") + "]"
	case rawLeaf:
		if len(x) == 0 {
			return "r"
		}
		return "r" + hx.Hex([]byte(x))
	case nilLeaf:
		return "n"
	default:
		return fmt.Sprintf("?%T", v)
	}
}

func decIface(bs []byte) string {
	return hx.Safe(func() string {
		var v interface{}
		if err := rlp.DecodeBytes(bs, &v); err != nil {
			return "err"
		}
		return "ok " + render(v)
	})
}

// decStream decodes the same bytes through an explicit Stream without input limit knowledge (reader wrapper),
// then requires EOF — the second entry point named by the property.
func decStream(bs []byte) string {
	return hx.Safe(func() string {
		s := rlp.NewStream(bytes.NewReader(bs), uint64(len(bs)))
		var v interface{}
		if err := s.Decode(&v); err != nil {
			return "err"
		}
		var w interface{}
		if err := s.Decode(&w); err != io.EOF {
			return "err" // more than one value / trailing garbage
		}
		return "ok " + render(v)
	})
}

// errKind names the sentinel errors of the Stream (the interface{} path returns them unwrapped).
func errKind(err error) string {
	switch err {
	case io.EOF:
		return "eof"
	case io.ErrUnexpectedEOF:
		return "unexpectedEOF"
	case rlp.ErrValueTooLarge:
		return "valueTooLarge"
	case rlp.ErrElemTooLarge:
		return "elemTooLarge"
	case rlp.ErrCanonSize:
		return "canonSize"
	case rlp.ErrCanonInt:
		return "canonInt"
	case rlp.ErrExpectedString:
		return "expectedString"
	case rlp.ErrExpectedList:
		return "expectedList"
	case rlp.ErrMoreThanOneValue:
		return "moreThanOneValue"
	}
	return "other(" + strings.ReplaceAll(err.Error(), " ", "_") + ")"
}

// sdecTokens: both entry points with the error kind, for the Go-shaped Stream machine of the model:
//   <ok|err> S=<tok> B=<tok>, tok = ok:<item> | err:<kind>; a failing second phase of the Stream entry point is err:more.
func sdecTokens(bs []byte) string {
	return hx.Safe(func() string {
		st := rlp.NewStream(bytes.NewReader(bs), uint64(len(bs)))
		var v interface{}
		tokS := ""
		if err := st.Decode(&v); err != nil {
			tokS = "err:" + errKind(err)
		} else {
			var w interface{}
			if err := st.Decode(&w); err != io.EOF {
				tokS = "err:more"
			} else {
				tokS = "ok:" + render(v)
			}
		}
		var u interface{}
		tokB := ""
		if err := rlp.DecodeBytes(bs, &u); err != nil {
			tokB = "err:" + errKind(err)
		} else {
			tokB = "ok:" + render(u)
		}
		verdict := "ok"
		if strings.HasPrefix(tokS, "err") {
			verdict = "err" // first word = accept/reject, so rejected inputs count as trivial in the evidence
		}
		return verdict + " S=" + tokS + " B=" + tokB
	})
}

// sprim runs ONE primitive of a fresh NewStream(r, len) — the operations of the Stream machine that the interface{}
// path does not exercise (Uint, Bool, Raw) plus Bytes and Kind — with the error kind.
func sprim(op string, bs []byte) string {
	return hx.Safe(func() string {
		st := rlp.NewStream(bytes.NewReader(bs), uint64(len(bs)))
		fail := func(err error) string {
			k := errKind(err)
			switch {
			case strings.HasPrefix(err.Error(), "rlp: invalid boolean"):
				k = "badBool"
			case err.Error() == "rlp: uint overflow":
				k = "uintOverflow"
			}
			return "err " + k
		}
		switch op {
		case "uint":
			v, err := st.Uint()
			if err != nil {
				return fail(err)
			}
			return fmt.Sprintf("ok %d", v)
		case "bool":
			v, err := st.Bool()
			if err != nil {
				return fail(err)
			}
			return fmt.Sprintf("ok %v", v)
		case "bytes":
			v, err := st.Bytes()
			if err != nil {
				return fail(err)
			}
			return "ok " + hx.Hex(v)
		case "raw":
			v, err := st.Raw()
			if err != nil {
				return fail(err)
			}
			return "ok " + hx.Hex(v)
		case "kind":
			k, n, err := st.Kind()
			if err != nil {
				return fail(err)
			}
			return fmt.Sprintf("ok %v %d", k, n)
		}
		return "bad-op"
	})
}

func split(bs []byte) string {
	return hx.Safe(func() string {
		k, content, rest, err := rlp.Split(bs)
		if err != nil {
			return "err"
		}
		ks := "S"
		if k == rlp.List {
			ks = "L"
		}
		return "ok " + ks + " " + hx.Hex(content) + " " + hx.Hex(rest)
	})
}

// guarded runs f and turns a panic into the token "panic" (raw.go indexes slices with sizes taken from the input).
func guarded(f func() string) (out string) {
	defer func() {
		if recover() != nil {
			out = "panic"
		}
	}()
	return f()
}

// rsplit: Split / SplitString / SplitList with error kinds, for the Go-shaped model of raw.go:
//   <ok|err> split=<tok> str=<tok> list=<tok>, tok = ok:[<K>:]<content>:<rest> | err:<kind> | panic
func rsplit(bs []byte) string {
	t1 := guarded(func() string {
		k, c, r, err := rlp.Split(bs)
		if err != nil {
			return "err:" + errKind(err)
		}
		return fmt.Sprintf("ok:%v:%s:%s", k, hx.Hex(c), hx.Hex(r))
	})
	t2 := guarded(func() string {
		c, r, err := rlp.SplitString(bs)
		if err != nil {
			return "err:" + errKind(err)
		}
		return "ok:" + hx.Hex(c) + ":" + hx.Hex(r)
	})
	t3 := guarded(func() string {
		c, r, err := rlp.SplitList(bs)
		if err != nil {
			return "err:" + errKind(err)
		}
		return "ok:" + hx.Hex(c) + ":" + hx.Hex(r)
	})
	v := "err"
	if strings.HasPrefix(t1, "ok") {
		v = "ok"
	}
	return v + " split=" + t1 + " str=" + t2 + " list=" + t3
}

func countValues(bs []byte) string {
	return guarded(func() string {
		n, err := rlp.CountValues(bs)
		if err != nil {
			return "err " + errKind(err)
		}
		return fmt.Sprintf("ok %d", n)
	})
}

// be returns the minimal big-endian bytes of v (v > 0).
func be(v uint64) []byte { return new(big.Int).SetUint64(v).Bytes() }

// sizeLattice: long-form headers (B8..BF, F8..FF) whose size field encodes 2^k-j .. 2^k+j for k = 6..64, j <= 20, with
// 0..3 bytes of payload following, standalone and nested as the last element of a short list.
func sizeLattice(each func(bs []byte, nested bool)) {
	seen := map[uint64]bool{}
	for k := uint(6); k <= 64; k++ {
		for j := int64(-20); j <= 20; j++ {
			var v uint64
			if k == 64 {
				if j >= 0 {
					continue
				}
				v = ^uint64(0) - uint64(-j) + 1 // 2^64 - |j|
			} else {
				p := uint64(1) << k
				if j < 0 {
					v = p - uint64(-j)
				} else {
					v = p + uint64(j)
				}
			}
			if v == 0 || seen[v] {
				continue
			}
			seen[v] = true
			sz := be(v)
			for _, base := range []byte{0xb7, 0xf7} {
				for pay := 0; pay <= 3; pay++ {
					x := append([]byte{base + byte(len(sz))}, sz...)
					x = append(x, bytes.Repeat([]byte{0x00}, pay)...)
					each(x, false)
					inner := append([]byte{0x01}, x...)
					each(append([]byte{0xc0 + byte(len(inner))}, inner...), true)
				}
			}
		}
	}
}

func genItem(r *hx.Rng, depth int) interface{} {
	if depth <= 0 || r.Intn(3) > 0 {
		var n int
		switch r.Intn(8) {
		case 0:
			n = 0
		case 1:
			n = 1
		case 2:
			n = hx.NewRng(r.U64()).Pick([]int{54, 55, 56, 57, 255, 256, 257})
		default:
			n = r.Intn(12)
		}
		b := r.Bytes(n)
		if n == 1 && r.Bool() {
			b[0] = alphabet[r.Intn(len(alphabet))]
		}
		return b
	}
	n := r.Intn(5)
	xs := make([]interface{}, n)
	for i := range xs {
		xs[i] = genItem(r, depth-1)
	}
	return xs
}

func main() {
	run := hx.Start()
	rng := hx.NewRng(run.Seed)
	stall := 20 * time.Second
	if run.Thorough() {
		stall = 240 * time.Second // the thorough tier runs under -race; the 16 MB boundary values take minutes there
	}
	run.Watch(stall, 3<<30, func(cur string) string { return cur })

	exhaustivePhase := true
	doDec := func(bs []byte) {
		run.Current("dec " + hx.Hex(bs)) // progress for the watchdog (the untyped phases take > 20 s in the thorough tier)
		o := decIface(bs)
		run.Case("dec "+hx.Hex(bs), o)
		if strings.HasPrefix(o, "ok") {
			run.Count("dec:ok")
		} else {
			run.Count("dec:" + strings.Fields(o)[0])
		}
		s := decStream(bs)
		if s != o {
			run.Violate("stream-differs", "stream-vs-decodebytes", hx.Hex(bs), "Stream: "+s+" DecodeBytes: "+o)
		}
		// the Stream entry point (NewStream(r, len) + Decode + second Decode = io.EOF) against the Go-shaped Stream
		// machine of the model (Aqv.Model.RlpStream); the length-5 layer of the thorough exhaustive scope is left to
		// the `dec` line to keep the case file within bounds
		if !(run.Thorough() && len(bs) == 5 && exhaustivePhase) {
			run.Case("sdec "+hx.Hex(bs), sdecTokens(bs))
			run.Count("sdec")
		}
	}

	// 1. exhaustive small scope over the boundary alphabet
	maxLen := 4
	if run.Thorough() {
		maxLen = 5
	}
	var rec func(prefix []byte)
	rec = func(prefix []byte) {
		if len(prefix) > 0 {
			doDec(prefix)
			if len(prefix) <= 3 {
				run.Case("split "+hx.Hex(prefix), split(prefix))
				run.Case("rsplit "+hx.Hex(prefix), rsplit(prefix))
				run.Case("cv "+hx.Hex(prefix), countValues(prefix))
			}
		}
		if len(prefix) == maxLen {
			return
		}
		for _, a := range alphabet {
			rec(append(append([]byte{}, prefix...), a))
		}
	}
	rec(nil)
	exhaustivePhase = false
	doDec([]byte{})
	run.Notes["exhaustive_alphabet_len"] = maxLen

	// 2. random items: encode, decode, single-byte mutations, truncations, trailing bytes
	nItems := 4000
	if run.Thorough() {
		nItems = 150000
	}
	r2 := rng.Fork(2)
	for i := 0; i < nItems; i++ {
		it := genItem(r2, 4)
		enc, err := rlp.EncodeToBytes(it)
		if err != nil {
			run.Violate("encode-error", "encode-error", render(it), err.Error())
			continue
		}
		run.Case("enc "+render(it), "ok "+hx.Hex(enc))
		run.Count("enc")
		doDec(enc)
		run.Case("split "+hx.Hex(enc), split(enc))
		run.Case("rsplit "+hx.Hex(enc), rsplit(enc))
		run.Case("cv "+hx.Hex(enc), countValues(enc))
		if len(enc) > 0 {
			for k := 0; k < 4; k++ {
				m := append([]byte{}, enc...)
				pos := r2.Intn(len(m))
				switch r2.Intn(3) {
				case 0:
					m[pos] = alphabet[r2.Intn(len(alphabet))]
				case 1:
					m[pos] ^= 1 << uint(r2.Intn(8))
				default:
					m[pos] = byte(r2.U64())
				}
				doDec(m)
			}
			doDec(enc[:r2.Intn(len(enc))])
			doDec(append(append([]byte{}, enc...), byte(r2.U64())))
		}
	}

	// 3. long-form size boundaries (string and list), canonical and non-canonical headers
	for _, n := range []int{55, 56, 57, 255, 256, 257, 65535, 65536, 65537} {
		payload := bytes.Repeat([]byte{0x7}, n)
		e, _ := rlp.EncodeToBytes(payload)
		doDec(e)
		run.Case("enc "+render(payload), "ok "+hx.Hex(e))
		le, _ := rlp.EncodeToBytes([]interface{}{payload})
		doDec(le)
		// non-minimal: one more length byte with a leading zero
		for _, base := range []byte{0xb7, 0xf7} {
			lb := big.NewInt(int64(n)).Bytes()
			bad := append([]byte{base + byte(len(lb)) + 1, 0}, lb...)
			bad = append(bad, payload...)
			doDec(bad)
			if n < 56 {
				doDec(append(append([]byte{base + 1, byte(n)}, payload...)))
			}
		}
	}

	// 3b. list payloads and raw values of EXACTLY the boundary sizes (header-size arithmetic: intsize/headsize/puthead),
	//     and agreement of the three encoder entry points (EncodeToBytes / Encode(w) / EncodeToReader).
	sizes := []int{54, 55, 56, 57, 254, 255, 256, 257, 65534, 65535, 65536, 65537}
	goOnly := []int{}
	if run.Thorough() {
		goOnly = []int{1<<24 - 1, 1 << 24, 1<<24 + 1}
	}
	strOfEncLen := func(n int) []byte { // a string whose ENCODING is exactly n bytes long
		for l := n - 1; l >= 0 && l >= n-5; l-- {
			b := bytes.Repeat([]byte{0x99}, l)
			if e, _ := rlp.EncodeToBytes(b); len(e) == n {
				return b
			}
		}
		return nil
	}
	for _, n := range append(append([]int{}, sizes...), goOnly...) {
		inner := strOfEncLen(n)
		if inner == nil {
			continue
		}
		vals := []interface{}{
			[]interface{}{inner},                                  // list payload exactly n
			[]interface{}{[]interface{}{inner}},                   // nested
			[]interface{}{inner[:len(inner)/2], inner[len(inner)/2:]}, // two strings (payload n+header delta)
		}
		if raw, err := rlp.EncodeToBytes(inner); err == nil {
			vals = append(vals, []interface{}{rlp.RawValue(raw)}, rlp.RawValue(raw))
		}
		for _, v := range vals {
			run.Current(fmt.Sprintf("boundary-enc size=%d", n))
			e1, err1 := rlp.EncodeToBytes(v)
			var buf bytes.Buffer
			err2 := rlp.Encode(&buf, v)
			_, rd, err3 := rlp.EncodeToReader(v)
			var e3 []byte
			if err3 == nil {
				e3, _ = io.ReadAll(rd)
			}
			if err1 != nil || err2 != nil || err3 != nil || !bytes.Equal(e1, buf.Bytes()) || !bytes.Equal(e1, e3) {
				run.Violate("encoder-paths-differ", fmt.Sprintf("size=%d", n), map[string]interface{}{"payload_size": n},
					fmt.Sprintf("EncodeToBytes/Encode/EncodeToReader disagree at boundary size %d (lens %d/%d/%d)", n, len(e1), buf.Len(), len(e3)))
			}
			run.Count("boundary-enc")
			big := false
			for _, g := range goOnly {
				big = big || g == n
			}
			if big {
				// too large for the line protocol: judge the round trip directly on the real code
				var back interface{}
				if err := rlp.DecodeBytes(e1, &back); err != nil {
					run.Violate("roundtrip-boundary", fmt.Sprintf("size=%d", n), map[string]interface{}{"payload_size": n}, "decode(encode(v)) failed: "+err.Error())
				} else if re, _ := rlp.EncodeToBytes(back); !bytes.Equal(re, e1) {
					run.Violate("roundtrip-boundary", fmt.Sprintf("size=%d", n), map[string]interface{}{"payload_size": n}, "re-encoding differs")
				}
				continue
			}
			var it interface{}
			if rv, ok := v.(rlp.RawValue); ok {
				_ = rlp.DecodeBytes(rv, &it)
			} else {
				it = deRaw(v)
			}
			run.Case("enc "+render(it), "ok "+hx.Hex(e1))
			doDec(e1)
		}
	}

	// 3c. the primitives of the Stream machine on a fresh stream: every string up to length 3 over the alphabet, every
	//     single byte, and encodings of integers / strings with mutations
	prims := []string{"uint", "bool", "bytes", "raw", "kind"}
	doPrim := func(bs []byte) {
		run.Current("sprim " + hx.Hex(bs))
		for _, op := range prims {
			run.Case("sprim "+op+" "+hx.Hex(bs), sprim(op, bs))
		}
		run.Count("sprim")
	}
	var recP func(prefix []byte)
	recP = func(prefix []byte) {
		doPrim(prefix)
		if len(prefix) == 3 {
			return
		}
		for _, a := range alphabet {
			recP(append(append([]byte{}, prefix...), a))
		}
	}
	recP(nil)
	for b := 0; b < 256; b++ {
		doPrim([]byte{byte(b)})
	}
	r4 := rng.Fork(4)
	nPrim := 1500
	if run.Thorough() {
		nPrim = 40000
	}
	for i := 0; i < nPrim; i++ {
		var v interface{}
		switch r4.Intn(3) {
		case 0:
			v = rU64(r4)
		case 1:
			v = rBytes(r4)
		default:
			v = genItem(r4, 2)
		}
		e, err := rlp.EncodeToBytes(v)
		if err != nil {
			continue
		}
		doPrim(e)
		for k := 0; k < 3 && len(e) > 0; k++ {
			m := append([]byte{}, e...)
			pos := r4.Intn(len(m))
			switch r4.Intn(3) {
			case 0:
				m[pos] = alphabet[r4.Intn(len(alphabet))]
			case 1:
				m[pos] ^= 1 << uint(r4.Intn(8))
			default:
				m = m[:pos]
			}
			doPrim(m)
		}
	}

	// 3e. size-field lattice through ALL entry points: DecodeBytes and Stream (dec/sdec), Split/SplitString/SplitList
	//     (split/rsplit), CountValues (cv) — and, for the nested form, the list walk SplitList + CountValues of the content.
	//     No outcome may be a panic or a hang; the models (readHead over Nat, the Go-shaped raw.go model) must agree.
	sizeLattice(func(bs []byte, nested bool) {
		doDec(bs)
		run.Case("split "+hx.Hex(bs), split(bs))
		rs, cv := rsplit(bs), countValues(bs)
		run.Case("rsplit "+hx.Hex(bs), rs)
		run.Case("cv "+hx.Hex(bs), cv)
		if strings.Contains(rs, "panic") || strings.Contains(cv, "panic") {
			run.Violate("panic", "raw-size-field", hx.Hex(bs), "Split/SplitString/SplitList/CountValues panicked on a size-field lattice input: "+rs+" cv="+cv)
		}
		run.Count("size-lattice")
		if nested {
			content, _, err := func() (c, r []byte, err error) {
				defer func() {
					if recover() != nil {
						err = fmt.Errorf("panic")
					}
				}()
				return rlp.SplitList(bs)
			}()
			if err == nil {
				cv2, rs2 := countValues(content), rsplit(content[1:])
				run.Case("cv "+hx.Hex(content), cv2)
				run.Case("rsplit "+hx.Hex(content[1:]), rs2) // the element after 0x01
				if strings.Contains(rs2, "panic") || strings.Contains(cv2, "panic") {
					run.Violate("panic", "raw-size-field", hx.Hex(bs), "list walk SplitList+CountValues panicked: cv(content)="+cv2+" "+rs2)
				}
				run.Count("size-lattice-walk")
			}
		}
	})

	// 3d. concurrent FIRST use of never-seen types (type cache lock discipline; see concurrent.go). Runs before the typed
	//     section so that most element types are still unknown to the cache as well.
	concurrentFirstUse(run, rng.Fork(5))

	typed(run, rng.Fork(3))
	run.Finish()
}

// deRaw replaces RawValue leaves by the item they encode (for rendering the expected item).
func deRaw(v interface{}) interface{} {
	switch x := v.(type) {
	case rlp.RawValue:
		var it interface{}
		_ = rlp.DecodeBytes(x, &it)
		return it
	case []interface{}:
		out := make([]interface{}, len(x))
		for i := range x {
			out[i] = deRaw(x[i])
		}
		return out
	default:
		return v
	}
}

// ---------------------------------------------------------------------------------------------------------------
// Typed targets: the property judged directly on the real code —
//   (R) for every generated value v:  decode(encode(v)) == v
//   (C) for every byte string bs:     decode(bs) ok  ⇒  encode(decoded) == bs
// and the typed decoders/encoders compared with the Lean typed model (Aqv.Model.RlpTyped):
//   tdec <tydesc> <hex>   → ok <decoded value rendered as an item> | err     (every canonical encoding, mutation and the
//                                                                              small exhaustive scope of every target)
//   tenc <tydesc> <value> → ok <hex>                                          (values incl. nil pointers, rendered `n`)
// The type descriptor of each Go target type is written by hand next to the target:
//   u8 u16 u32 u64 | big | bool | b ([]byte, string) | b<N> ([N]byte) | l(T) ([]T) | a<N>(T) ([N]T) | s(T,…) struct |
//   st(T,…;T) struct with `rlp:"tail"` | p(T) *T | pn(T) *T `rlp:"nil"` | raw | if (interface{})
// ---------------------------------------------------------------------------------------------------------------

const (
	dIgnLite = "s(u16,b)"
	dHeader  = "s(b32,b32,b20,b32,b32,b32,b256,big,big,u64,u64,big,b,b32,b8)" // Version is `rlp:"-"`
	dTx      = "s(u64,big,u64,pn(b20),big,b,big,big,big)"                      // txdata; Hash is `rlp:"-"`
	dLog     = "s(b20,l(b32),b)"                                               // rlpLog
	dReceipt = "s(b,u64,b256,l(p(" + dLog + ")))"                              // receiptRLP (+ status rule, see skipErr)
	dAccount = "s(u64,big,b32,b)"
	dBlock   = "s(p(" + dHeader + "),l(p(" + dTx + ")),l(p(" + dHeader + ")))" // extblock
)

type tNil struct {
	A uint64
	P *common.Address `rlp:"nil"`
	B []byte
}
type tTail struct {
	A    uint8
	Tail []uint16 `rlp:"tail"`
}
type tIgn struct {
	A uint32
	X uint64 `rlp:"-"`
	B string
}
type tArr struct {
	A [1]byte
	B [1]byte
	C [2]byte
	D [0]byte
	E [33]byte
}
type tNest struct {
	U   uint64
	Big *big.Int
	S   []tIgnLite
	P   *tIgnLite
	R   rlp.RawValue
	F   bool
	I   interface{}
}
type tIgnLite struct {
	A uint16
	B []byte
}
// every element kind that makeOptionalPtrDecoder distinguishes (fix 7811107)
type tOpt struct {
	A *uint64      `rlp:"nil"`
	B *[]byte      `rlp:"nil"`
	C *[4]byte     `rlp:"nil"`
	D *[]uint16    `rlp:"nil"`
	E *tIgnLite    `rlp:"nil"`
	F *[2]uint16   `rlp:"nil"`
	G *bool        `rlp:"nil"`
	H *string      `rlp:"nil"`
	I *interface{} `rlp:"nil"`
}

const dOpt = "s(pn(u64),pn(b),pn(b4),pn(l(u16)),pn(" + dIgnLite + "),pn(a2(u16)),pn(bool),pn(b),pn(if))"

// plain pointers of every element kind: never nil after decoding; nil encodes per makePtrWriter
type tPtrs struct {
	A *uint64
	B *[]byte
	C *[4]byte
	D *[]uint16
	E *tIgnLite
	F *[2]uint16
	G *bool
	H *string
	I *big.Int
	J **uint64
	K *interface{}
}

const dPtrs = "s(p(u64),p(b),p(b4),p(l(u16)),p(" + dIgnLite + "),p(a2(u16)),p(bool),p(b),big,p(p(u64)),p(if))"

// `rlp:"nil"` on a pointer to a pointer: Go keeps strict=false (both empty values decode to nil) — outside the
// canonical sub-universe (Ty.canon), compared with the model only.
type tPP struct {
	A uint8
	P **uint64 `rlp:"nil"`
}

const dPP = "s(u8,pn(p(u64)))"

type tUints struct {
	A uint8
	B uint16
	C uint32
	D uint64
	E uint
	F *big.Int
}

type target struct {
	name string
	mk   func() interface{}          // fresh pointer to decode into
	gen  func(r *hx.Rng) interface{} // random value (pointer), may be nil if only (C) applies
	eq   func(a, b interface{}) bool
	desc string // type descriptor understood by the Lean driver
	// noCanon: the type is outside the canonical sub-universe (Go accepts two encodings by design); the direct
	// canonicity judgement is skipped, the comparison with the model is not.
	noCanon bool
	// skipErr: a decode error containing this text comes from a rule outside the descriptor language (the status
	// rule of Receipt.DecodeRLP); such cases are not sent to the model.
	skipErr string
	// genEnc: values that are only encoded (nil plain pointers do not round-trip by design) — `tenc`/`enc` lines
	genEnc func(r *hx.Rng) interface{}
}

func deepEq(a, b interface{}) bool { return reflect.DeepEqual(a, b) }

func encEq(a, b interface{}) bool {
	x, e1 := rlp.EncodeToBytes(a)
	y, e2 := rlp.EncodeToBytes(b)
	return e1 == nil && e2 == nil && bytes.Equal(x, y)
}

func rBig(r *hx.Rng) *big.Int {
	switch r.Intn(5) {
	case 0:
		return new(big.Int)
	case 1:
		return big.NewInt(int64(r.Intn(300)))
	default:
		return new(big.Int).SetBytes(r.Bytes(1 + r.Intn(33)))
	}
}
func rU64(r *hx.Rng) uint64 {
	switch r.Intn(6) {
	case 0:
		return 0
	case 1:
		return uint64(r.Intn(2)) + 127
	case 2:
		return uint64(r.Intn(3)) + 255
	case 3:
		return ^uint64(0) - uint64(r.Intn(2))
	default:
		return r.U64() >> uint(r.Intn(64))
	}
}
func rBytes(r *hx.Rng) []byte {
	switch r.Intn(6) {
	case 0:
		return []byte{}
	case 1:
		return []byte{alphabet[r.Intn(len(alphabet))]}
	case 2:
		return r.Bytes(54 + r.Intn(4))
	default:
		return r.Bytes(r.Intn(40))
	}
}
func rAddr(r *hx.Rng) common.Address { var a common.Address; copy(a[:], r.Bytes(20)); return a }
func rHash(r *hx.Rng) common.Hash {
	var a common.Hash
	if r.Intn(4) > 0 {
		copy(a[:], r.Bytes(32))
	}
	return a
}

func rHeader(r *hx.Rng) *types.Header {
	h := &types.Header{ParentHash: rHash(r), UncleHash: rHash(r), Coinbase: rAddr(r), Root: rHash(r), TxHash: rHash(r),
		ReceiptHash: rHash(r), Difficulty: rBig(r), Number: rBig(r), GasLimit: rU64(r), GasUsed: rU64(r), Time: rBig(r),
		Extra: rBytes(r), MixDigest: rHash(r)}
	copy(h.Bloom[:], r.Bytes(256))
	copy(h.Nonce[:], r.Bytes(8))
	return h
}
func rTx(r *hx.Rng) *types.Transaction {
	var tx *types.Transaction
	if r.Intn(3) == 0 {
		tx = types.NewContractCreation(rU64(r), rBig(r), rU64(r), rBig(r), rBytes(r))
	} else {
		tx = types.NewTransaction(rU64(r), rAddr(r), rBig(r), rU64(r), rBig(r), rBytes(r))
	}
	// attach arbitrary signature values through the RLP form (no key needed for the codec property)
	var fields []interface{}
	b, _ := rlp.EncodeToBytes(tx)
	_ = rlp.DecodeBytes(b, &fields)
	fields[6], fields[7], fields[8] = rBig(r).Bytes(), rBig(r).Bytes(), rBig(r).Bytes()
	b, _ = rlp.EncodeToBytes(fields)
	out := new(types.Transaction)
	if err := rlp.DecodeBytes(b, out); err != nil {
		return tx
	}
	return out
}
func rLog(r *hx.Rng) *types.Log {
	l := &types.Log{Address: rAddr(r), Data: rBytes(r), Topics: []common.Hash{}}
	for i := r.Intn(5); i > 0; i-- {
		l.Topics = append(l.Topics, rHash(r))
	}
	return l
}
func rReceipt(r *hx.Rng) *types.Receipt {
	var root []byte
	if r.Bool() {
		root = r.Bytes(32)
	}
	rc := types.NewReceipt(root, r.Bool(), rU64(r))
	for i := r.Intn(3); i > 0; i-- {
		rc.Logs = append(rc.Logs, rLog(r))
	}
	rc.Bloom = types.CreateBloom(types.Receipts{rc})
	return rc
}

func targets() []target {
	return []target{
		{"uint8", func() interface{} { return new(uint8) }, func(r *hx.Rng) interface{} { v := uint8(rU64(r)); return &v }, deepEq, "u8", false, "", nil},
		{"uint16", func() interface{} { return new(uint16) }, func(r *hx.Rng) interface{} { v := uint16(rU64(r)); return &v }, deepEq, "u16", false, "", nil},
		{"uint32", func() interface{} { return new(uint32) }, func(r *hx.Rng) interface{} { v := uint32(rU64(r)); return &v }, deepEq, "u32", false, "", nil},
		{"uint64", func() interface{} { return new(uint64) }, func(r *hx.Rng) interface{} { v := rU64(r); return &v }, deepEq, "u64", false, "", nil},
		{"bool", func() interface{} { return new(bool) }, func(r *hx.Rng) interface{} { v := r.Bool(); return &v }, deepEq, "bool", false, "", nil},
		{"big", func() interface{} { return new(big.Int) }, func(r *hx.Rng) interface{} { return rBig(r) }, func(a, b interface{}) bool { return a.(*big.Int).Cmp(b.(*big.Int)) == 0 }, "big", false, "", nil},
		{"bytes", func() interface{} { return new([]byte) }, func(r *hx.Rng) interface{} { v := rBytes(r); return &v }, deepEq, "b", false, "", nil},
		{"string", func() interface{} { return new(string) }, func(r *hx.Rng) interface{} { v := string(rBytes(r)); return &v }, deepEq, "b", false, "", nil},
		{"[1]byte", func() interface{} { return new([1]byte) }, func(r *hx.Rng) interface{} { v := [1]byte{alphabet[r.Intn(len(alphabet))]}; return &v }, deepEq, "b1", false, "", nil},
		{"[][1]byte", func() interface{} { return new([][1]byte) }, func(r *hx.Rng) interface{} {
			v := [][1]byte{}
			for i := r.Intn(4); i > 0; i-- {
				v = append(v, [1]byte{alphabet[r.Intn(len(alphabet))]})
			}
			return &v
		}, deepEq, "l(b1)", false, "", nil},
		{"[20]byte", func() interface{} { return new([20]byte) }, func(r *hx.Rng) interface{} { var v [20]byte; copy(v[:], r.Bytes(20)); if r.Intn(3) == 0 { v[0] = 0 }; return &v }, deepEq, "b20", false, "", nil},
		{"[]uint16", func() interface{} { return new([]uint16) }, func(r *hx.Rng) interface{} {
			v := []uint16{}
			for i := r.Intn(5); i > 0; i-- {
				v = append(v, uint16(rU64(r)))
			}
			return &v
		}, deepEq, "l(u16)", false, "", nil},
		{"[3]uint16", func() interface{} { return new([3]uint16) }, func(r *hx.Rng) interface{} { v := [3]uint16{uint16(rU64(r)), uint16(rU64(r)), uint16(rU64(r))}; return &v }, deepEq, "a3(u16)", false, "", nil},
		{"tNil", func() interface{} { return new(tNil) }, func(r *hx.Rng) interface{} {
			v := &tNil{A: rU64(r), B: rBytes(r)}
			if r.Bool() {
				a := rAddr(r)
				v.P = &a
			}
			return v
		}, deepEq, "s(u64,pn(b20),b)", false, "", nil},
		{"tTail", func() interface{} { return new(tTail) }, func(r *hx.Rng) interface{} {
			v := &tTail{A: uint8(rU64(r)), Tail: []uint16{}}
			for i := r.Intn(4); i > 0; i-- {
				v.Tail = append(v.Tail, uint16(rU64(r)))
			}
			return v
		}, encEq, "st(u8;u16)", false, "", nil},
		{"tIgn", func() interface{} { return new(tIgn) }, func(r *hx.Rng) interface{} { return &tIgn{A: uint32(rU64(r)), B: string(rBytes(r))} }, deepEq, "s(u32,b)", false, "", nil},
		{"tArr", func() interface{} { return new(tArr) }, func(r *hx.Rng) interface{} {
			v := &tArr{}
			v.A[0] = alphabet[r.Intn(len(alphabet))]
			v.B[0] = byte(r.Intn(3))
			copy(v.C[:], r.Bytes(2))
			copy(v.E[:], r.Bytes(33))
			return v
		}, deepEq, "s(b1,b1,b2,b0,b33)", false, "", nil},
		{"tUints", func() interface{} { return new(tUints) }, func(r *hx.Rng) interface{} {
			return &tUints{uint8(rU64(r)), uint16(rU64(r)), uint32(rU64(r)), rU64(r), uint(rU64(r)), rBig(r)}
		}, encEq, "s(u8,u16,u32,u64,u64,big)", false, "", nil},
		{"tNest", func() interface{} { return new(tNest) }, func(r *hx.Rng) interface{} {
			v := &tNest{U: rU64(r), Big: rBig(r), S: []tIgnLite{}, F: r.Bool(), I: rBytes(r)}
			for i := r.Intn(3); i > 0; i-- {
				v.S = append(v.S, tIgnLite{uint16(rU64(r)), rBytes(r)})
			}
			v.P = &tIgnLite{uint16(rU64(r)), rBytes(r)}
			raw, _ := rlp.EncodeToBytes(genItem(r, 2))
			v.R = raw
			return v
		}, encEq, "s(u64,big,l("+dIgnLite+"),p("+dIgnLite+"),raw,bool,if)", false, "", nil},
		{"Header", func() interface{} { return new(types.Header) }, func(r *hx.Rng) interface{} { return rHeader(r) }, encEq, dHeader, false, "", nil},
		{"Transaction", func() interface{} { return new(types.Transaction) }, func(r *hx.Rng) interface{} { return rTx(r) }, encEq, dTx, false, "", nil},
		{"Log", func() interface{} { return new(types.Log) }, func(r *hx.Rng) interface{} { return rLog(r) }, encEq, dLog, false, "", nil},
		{"Receipt", func() interface{} { return new(types.Receipt) }, func(r *hx.Rng) interface{} { return rReceipt(r) }, encEq, dReceipt, false, "invalid receipt status", nil},
		{"Account", func() interface{} { return new(state.Account) }, func(r *hx.Rng) interface{} {
			return &state.Account{Nonce: rU64(r), Balance: rBig(r), Root: rHash(r), CodeHash: r.Bytes(32)}
		}, encEq, dAccount, false, "", nil},
		{"Block", func() interface{} { return new(types.Block) }, func(r *hx.Rng) interface{} {
			var txs []*types.Transaction
			for i := r.Intn(3); i > 0; i-- {
				txs = append(txs, rTx(r))
			}
			var uncles []*types.Header
			for i := r.Intn(3); i > 0; i-- {
				uncles = append(uncles, rHeader(r))
			}
			return types.NewBlock(rHeader(r), txs, uncles, nil)
		}, encEq, dBlock, false, "", nil},
		{"tOpt", func() interface{} { return new(tOpt) }, func(r *hx.Rng) interface{} {
			v := &tOpt{}
			if r.Bool() {
				x := rU64(r)
				v.A = &x
			}
			if r.Bool() {
				x := rBytes(r)
				v.B = &x
			}
			if r.Bool() {
				var x [4]byte
				copy(x[:], r.Bytes(4))
				v.C = &x
			}
			if r.Bool() {
				x := []uint16{}
				for i := r.Intn(3); i > 0; i-- {
					x = append(x, uint16(rU64(r)))
				}
				v.D = &x
			}
			if r.Bool() {
				v.E = &tIgnLite{uint16(rU64(r)), rBytes(r)}
			}
			if r.Bool() {
				v.F = &[2]uint16{uint16(rU64(r)), uint16(rU64(r))}
			}
			if r.Bool() {
				x := r.Bool()
				v.G = &x
			}
			if r.Bool() {
				x := string(rBytes(r))
				v.H = &x
			}
			if r.Bool() {
				// an interface holding the empty string would encode as 0x80, the wrong kind of empty value for
				// *interface{} (not a supported value: no round trip by design of `rlp:"nil"`)
				var x interface{} = genItem(r, 2)
				if b, ok := x.([]byte); ok && len(b) == 0 {
					x = []byte{1}
				}
				v.I = &x
			}
			return v
		}, encEq, dOpt, false, "", nil},
		{"tPtrs", func() interface{} { return new(tPtrs) }, func(r *hx.Rng) interface{} { return mkPtrs(r, true) }, encEq, dPtrs, false, "",
			func(r *hx.Rng) interface{} { return mkPtrs(r, false) }},
		{"tPP", func() interface{} { return new(tPP) }, func(r *hx.Rng) interface{} {
			v := &tPP{A: uint8(rU64(r))}
			if r.Bool() {
				var q *uint64
				if r.Bool() {
					x := rU64(r)
					q = &x
				}
				v.P = &q
			}
			return v
		}, encEq, dPP, true, "", nil},
	}
}


func mkPtrs(r *hx.Rng, allSet bool) *tPtrs {
	some := func() bool { return allSet || r.Intn(3) > 0 }
	v := &tPtrs{}
	if some() {
		x := rU64(r)
		v.A = &x
	}
	if some() {
		x := rBytes(r)
		v.B = &x
	}
	if some() {
		var x [4]byte
		copy(x[:], r.Bytes(4))
		v.C = &x
	}
	if some() {
		x := []uint16{}
		for i := r.Intn(3); i > 0; i-- {
			x = append(x, uint16(rU64(r)))
		}
		v.D = &x
	}
	if some() {
		v.E = &tIgnLite{uint16(rU64(r)), rBytes(r)}
	}
	if some() {
		v.F = &[2]uint16{uint16(rU64(r)), uint16(rU64(r))}
	}
	if some() {
		x := r.Bool()
		v.G = &x
	}
	if some() {
		x := string(rBytes(r))
		v.H = &x
	}
	if some() {
		v.I = rBig(r)
	}
	if some() {
		var q *uint64
		if r.Bool() {
			x := rU64(r)
			q = &x
		}
		v.J = &q
	}
	if some() {
		var x interface{} = genItem(r, 2)
		v.K = &x
	}
	return v
}

func safeSpecItem(v interface{}) (it interface{}, ok bool) { return safeSpecItemM(v, specMode{}) }

func safeSpecItemM(v interface{}, m specMode) (it interface{}, ok bool) {
	defer func() {
		if recover() != nil {
			ok = false
		}
	}()
	return specItemM(reflect.ValueOf(v).Elem(), m), true
}

func typed(run *hx.Run, rng *hx.Rng) {
	nVals := 300
	if run.Thorough() {
		nVals = 8000
	}
	for _, t := range targets() {
		t := t
		checkCanon := func(bs []byte, origin string) {
			run.Current("typed " + t.name + " " + hx.Hex(bs))
			out := hx.Safe(func() string {
				p := t.mk()
				if err := rlp.DecodeBytes(bs, p); err != nil {
					if t.skipErr != "" && strings.Contains(err.Error(), t.skipErr) {
						run.Count("tdec-skipped:" + t.name)
					} else {
						run.Case("tdec "+t.desc+" "+hx.Hex(bs), "err")
						run.Count("tdec:err")
					}
					return "err"
				}
				// the decoded value, rendered through the independent Go-value→item mapping, for the Lean typed decoder
				if it, ok := safeSpecItemM(p, specMode{rawLeaf: true}); ok {
					run.Case("tdec "+t.desc+" "+hx.Hex(bs), "ok "+render(it))
					run.Count("tdec:ok")
					run.Count("tdec-ok:" + t.name)
				} else {
					run.Count("tdec-unrendered:" + t.name)
				}
				if t.noCanon {
					return "ok"
				}
				re, err := rlp.EncodeToBytes(p)
				if err != nil {
					return "reenc-error " + err.Error()
				}
				if !bytes.Equal(re, bs) {
					return "noncanon " + hx.Hex(re)
				}
				return "ok"
			})
			run.Count("typed:" + strings.Fields(out)[0])
			switch {
			case strings.HasPrefix(out, "noncanon"):
				run.Violate("typed-noncanonical", t.name+" "+hx.Hex(bs), map[string]string{"type": t.name, "input": hx.Hex(bs)},
					"decoding succeeded but the value re-encodes to "+strings.Fields(out)[1]+" ("+origin+")")
			case strings.HasPrefix(out, "panic"), strings.HasPrefix(out, "reenc-error"):
				run.Violate("typed-"+strings.Fields(out)[0], t.name+" "+hx.Hex(bs), map[string]string{"type": t.name, "input": hx.Hex(bs)}, out)
			}
		}
		r := rng.Fork(uint64(len(t.name))*131 + uint64(t.name[0]))
		limit := nVals
		for i := 0; i < limit; i++ {
			v := t.gen(r)
			enc, err := rlp.EncodeToBytes(v)
			if err != nil {
				run.Violate("encode-error", t.name, t.name, err.Error())
				continue
			}
			if i == 0 && run.Thorough() && len(enc) > 300 {
				limit = nVals / 4 // large consensus values (header, block, receipt): keep the case file within bounds
			}
			// tie the typed encoder to the spec encoder: the model re-encodes the independently derived item
			if it, ok := safeSpecItem(v); ok {
				run.Case("enc "+render(it), "ok "+hx.Hex(enc))
				run.Count("enc-typed")
			} else {
				run.Count("enc-typed-skipped")
			}
			// tie the typed encoder (incl. its nil-pointer rules) to the Lean typed encoder
			if it, ok := safeSpecItemM(v, specMode{rawLeaf: true, nilLeaf: true}); ok {
				run.Case("tenc "+t.desc+" "+render(it), "ok "+hx.Hex(enc))
				run.Count("tenc")
			} else {
				run.Count("tenc-skipped")
			}
			run.Current("typed-rt " + t.name + " " + hx.Hex(enc))
			out := hx.Safe(func() string {
				p := t.mk()
				if err := rlp.DecodeBytes(enc, p); err != nil {
					return "err " + err.Error()
				}
				if !t.eq(v, p) {
					return "differs"
				}
				return "ok"
			})
			run.Count("typed-rt:" + strings.Fields(out)[0])
			if out != "ok" {
				run.Violate("typed-roundtrip", t.name+" "+hx.Hex(enc), map[string]string{"type": t.name, "input": hx.Hex(enc)},
					"decode(encode(v)) "+out)
			}
			checkCanon(enc, "canonical")
			// mutations of a valid encoding
			for k := 0; k < 6 && len(enc) > 0; k++ {
				m := append([]byte{}, enc...)
				pos := r.Intn(len(m))
				switch r.Intn(4) {
				case 0:
					m[pos] = alphabet[r.Intn(len(alphabet))]
				case 1:
					m[pos] ^= 1 << uint(r.Intn(8))
				case 2:
					m[pos] = byte(r.U64())
				default:
					// swap empty string / empty list markers, a classic canonicity hole
					for j := range m {
						if m[j] == 0x80 || m[j] == 0xc0 {
							if r.Intn(3) == 0 {
								m[j] ^= 0x40
							}
						}
					}
				}
				checkCanon(m, "mutation")
			}
		}
		// encode-only values (nil plain pointers): typed encoder vs the spec encoder and vs the Lean typed encoder
		for i := 0; t.genEnc != nil && i < nVals; i++ {
			v := t.genEnc(r)
			enc, err := rlp.EncodeToBytes(v)
			if err != nil {
				run.Violate("encode-error", t.name, t.name, err.Error())
				continue
			}
			if it, ok := safeSpecItem(v); ok {
				run.Case("enc "+render(it), "ok "+hx.Hex(enc))
				run.Count("enc-typed")
			}
			if it, ok := safeSpecItemM(v, specMode{rawLeaf: true, nilLeaf: true}); ok {
				run.Case("tenc "+t.desc+" "+render(it), "ok "+hx.Hex(enc))
				run.Count("tenc")
				run.Count("tenc-nilptrs")
			}
		}
		// small exhaustive scope per type
		var rec func(prefix []byte)
		rec = func(prefix []byte) {
			if len(prefix) > 0 {
				checkCanon(prefix, "exhaustive")
			}
			if len(prefix) == 3 {
				return
			}
			for _, a := range alphabet {
				rec(append(append([]byte{}, prefix...), a))
			}
		}
		rec(nil)
		// every single byte, and short integers/strings/lists around the value boundaries the alphabet does not
		// contain (2 for bool, leading zeros behind 0x82/0x83, 9-byte integers)
		for b := 0; b < 256; b++ {
			checkCanon([]byte{byte(b)}, "single-byte")
		}
		vals := []byte{0x00, 0x01, 0x02, 0x7f, 0x80, 0xff}
		for _, h := range []byte{0x81, 0x82, 0x83, 0x88, 0x89, 0xc1, 0xc2, 0xc3} {
			for _, a := range vals {
				checkCanon([]byte{h, a}, "short")
				for _, b := range vals {
					checkCanon([]byte{h, a, b}, "short")
				}
			}
		}
	}
}

package main

// Concurrent FIRST use of never-seen types (property C11: "decoding ... does so without panicking").
//
// The rlp package builds the decoder/writer of a Go type on first use and caches it (rlp/typecache.go). While a type
// is being generated, an EMPTY placeholder *typeinfo is parked in the cache (needed for recursive types); the lock
// discipline must make sure no other goroutine can ever observe that placeholder. Sequential checks cannot see a
// violation of that discipline, so this section creates struct types at run time (reflect.StructOf: fresh field names
// per round, many distinct field types, nested fresh structs behind slices and pointers, `rlp:"nil"` and `rlp:"tail"`
// tags), computes the canonical encoding of a value WITHOUT showing the type to the rlp package (through the
// independent specItem mapping), and then lets 16..64 start-gated goroutines use the type for the first time at once:
// half of them decode the canonical bytes into a fresh value and re-encode it, the others encode the value and decode
// the result. Judgement: no panic, and every goroutine's outcome equals the sequential outcome computed afterwards
// (which itself must be: decode ok, re-encoding = the canonical bytes).

import (
	"bytes"
	"fmt"
	"math/big"
	"reflect"
	"runtime"
	"sync"
	"time"

	"gitlab.com/aquachain/aquachain/rlp"
	"verifharness/hx"
)

var freshCounter int

func freshName() string {
	freshCounter++
	return fmt.Sprintf("F%d", freshCounter)
}

var (
	tU8, tU16, tU32, tU64 = reflect.TypeOf(uint8(0)), reflect.TypeOf(uint16(0)), reflect.TypeOf(uint32(0)), reflect.TypeOf(uint64(0))
	tBool, tString        = reflect.TypeOf(false), reflect.TypeOf("")
	tBytes                = reflect.TypeOf([]byte(nil))
	tArr4, tArr20         = reflect.TypeOf([4]byte{}), reflect.TypeOf([20]byte{})
	tBigPtr               = reflect.TypeOf((*big.Int)(nil))
	tU16s                 = reflect.TypeOf([]uint16(nil))
)

// freshStruct builds a struct type that the process has never seen: every field name is new.
func freshStruct(r *hx.Rng, depth, nFields int) reflect.Type {
	var fs []reflect.StructField
	for i := 0; i < nFields; i++ {
		f := reflect.StructField{Name: freshName()}
		k := r.Intn(16)
		if depth <= 0 && k >= 12 {
			k = r.Intn(12)
		}
		switch k {
		case 0:
			f.Type = tU8
		case 1:
			f.Type = tU16
		case 2:
			f.Type = tU32
		case 3:
			f.Type = tU64
		case 4:
			f.Type = tBool
		case 5:
			f.Type = tString
		case 6:
			f.Type = tBytes
		case 7:
			f.Type = tArr4
		case 8:
			f.Type = tArr20
		case 9:
			f.Type = tBigPtr
		case 10:
			f.Type = tU16s
		case 11:
			f.Type = reflect.PtrTo(tArr20)
			f.Tag = `rlp:"nil"`
		case 12:
			f.Type = freshStruct(r, depth-1, 2+r.Intn(4))
		case 13:
			f.Type = reflect.SliceOf(freshStruct(r, depth-1, 1+r.Intn(4)))
		case 14:
			f.Type = reflect.PtrTo(freshStruct(r, depth-1, 1+r.Intn(4)))
		default:
			f.Type = reflect.SliceOf(reflect.PtrTo(freshStruct(r, depth-1, 1+r.Intn(3))))
		}
		fs = append(fs, f)
	}
	if r.Intn(3) == 0 {
		fs = append(fs, reflect.StructField{Name: freshName(), Type: tU16s, Tag: `rlp:"tail"`})
	}
	return reflect.StructOf(fs)
}

// wideStruct: n fields, each of a distinct never-seen one- or two-field struct type.
func wideStruct(r *hx.Rng, n int) reflect.Type {
	fs := make([]reflect.StructField, n)
	for i := range fs {
		fs[i] = reflect.StructField{Name: freshName(), Type: freshStruct(r, 0, 1+r.Intn(2))}
	}
	return reflect.StructOf(fs)
}

// fillValue sets v (addressable) to a random supported value of its type, without using the rlp package.
func fillValue(r *hx.Rng, v reflect.Value) {
	t := v.Type()
	switch {
	case t == tBigPtr:
		v.Set(reflect.ValueOf(rBig(r)))
		return
	case t == tBytes:
		v.SetBytes(rBytes(r))
		return
	}
	switch t.Kind() {
	case reflect.Uint8, reflect.Uint16, reflect.Uint32, reflect.Uint64:
		v.SetUint(rU64(r) & (1<<uint(t.Bits()) - 1))
	case reflect.Bool:
		v.SetBool(r.Bool())
	case reflect.String:
		v.SetString(string(rBytes(r)))
	case reflect.Array:
		for i := 0; i < v.Len(); i++ {
			v.Index(i).SetUint(uint64(r.Intn(256)))
		}
	case reflect.Slice:
		n := r.Intn(3)
		s := reflect.MakeSlice(t, n, n)
		for i := 0; i < n; i++ {
			fillValue(r, s.Index(i))
		}
		v.Set(s)
	case reflect.Ptr:
		if t.Elem() == tArr20 && r.Bool() {
			return // `rlp:"nil"` recipient-like field left nil
		}
		p := reflect.New(t.Elem())
		fillValue(r, p.Elem())
		v.Set(p)
	case reflect.Struct:
		for i := 0; i < v.NumField(); i++ {
			fillValue(r, v.Field(i))
		}
	}
}

type firstUseResult struct{ out string }

func concurrentFirstUse(run *hx.Run, rng *hx.Rng) {
	rounds := 120
	if run.Thorough() {
		rounds = 1200
	}
	t0 := time.Now()
	for round := 0; round < rounds; round++ {
		r := rng.Fork(uint64(round) + 1000)
		var typ reflect.Type
		if round%10 == 0 {
			typ = wideStruct(r, 300) // a long generation: the placeholder stays parked for a long time
		} else {
			typ = freshStruct(r, 2, 12+r.Intn(24))
		}
		val := reflect.New(typ) // pointer to the value
		fillValue(r, val.Elem())
		// canonical bytes without showing `typ` to the rlp package
		item, ok := safeSpecItem(val.Interface())
		if !ok {
			run.Count("conc:unrendered")
			continue
		}
		canon, err := rlp.EncodeToBytes(item)
		if err != nil {
			run.Count("conc:unencodable")
			continue
		}
		sig := fmt.Sprintf("round=%d type=%s", round, hx.Hex(canon[:min(len(canon), 12)]))
		run.Current("concurrent-first-use " + sig)

		decodeFirst := func() string { // decode the canonical bytes into a fresh value, then re-encode it
			return hx.Safe(func() string {
				p := reflect.New(typ).Interface()
				if err := rlp.DecodeBytes(canon, p); err != nil {
					return "decode-err " + err.Error()
				}
				re, err := rlp.EncodeToBytes(p)
				if err != nil {
					return "encode-err " + err.Error()
				}
				return "ok " + hx.Hex(re)
			})
		}
		encodeFirst := func() string { // encode the value, then decode the result into a fresh value
			return hx.Safe(func() string {
				e, err := rlp.EncodeToBytes(val.Interface())
				if err != nil {
					return "encode-err " + err.Error()
				}
				p := reflect.New(typ).Interface()
				if err := rlp.DecodeBytes(e, p); err != nil {
					return "decode-err " + err.Error()
				}
				return "ok " + hx.Hex(e)
			})
		}

		n := []int{16, 32, 64}[round%3]
		results := make([]string, n)
		gate := make(chan struct{})
		var wg sync.WaitGroup
		for g := 0; g < n; g++ {
			wg.Add(1)
			go func(g int) {
				defer wg.Done()
				<-gate
				for spin := 0; spin < (g%8)*20; spin++ { // small stagger
					runtime.Gosched()
				}
				if g%2 == 0 {
					results[g] = decodeFirst()
				} else {
					results[g] = encodeFirst()
				}
			}(g)
		}
		close(gate)
		wg.Wait()

		// sequential reference, computed afterwards
		want := "ok " + hx.Hex(canon)
		seqD, seqE := decodeFirst(), encodeFirst()
		if seqD != want || seqE != want {
			run.Violate("first-use-sequential", sig, map[string]interface{}{"round": round, "canonical": hx.Hex(canon)},
				"sequential use of a fresh type does not round-trip its canonical encoding: decode-first "+short(seqD)+" encode-first "+short(seqE))
		}
		bad, panics := 0, 0
		first := ""
		for g, out := range results {
			ref := seqD
			if g%2 == 1 {
				ref = seqE
			}
			if out != ref {
				bad++
				if bytes.HasPrefix([]byte(out), []byte("panic")) {
					panics++
				}
				if first == "" {
					first = fmt.Sprintf("goroutine %d of %d: %s (sequential: %s)", g, n, short(out), short(ref))
				}
			}
		}
		run.Count("conc:rounds")
		if bad > 0 {
			kind := "first-use-differs"
			if panics > 0 {
				kind = "panic"
			}
			run.Violate(kind, "concurrent-first-use", map[string]interface{}{"round": round, "goroutines": n, "canonical": hx.Hex(canon),
				"fields": typ.NumField()},
				fmt.Sprintf("concurrent first use of a fresh type: %d of %d goroutines differ from the sequential result (%d panics); %s", bad, n, panics, first))
			run.Count("conc:bad-rounds")
		}
	}
	run.Notes["concurrent_first_use_rounds"] = rounds
	run.Notes["concurrent_first_use_s"] = fmt.Sprintf("%.1f", time.Since(t0).Seconds())
}

func short(s string) string {
	if len(s) > 160 {
		return s[:160] + "…"
	}
	return s
}

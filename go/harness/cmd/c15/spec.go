package main

// spec.go — the abstract pool state observed through the overlay accessor, its rendering for the Lean model driver, and
// a direct Go-side evaluation of the clauses of property C15 on observed states and transitions.

import (
	"fmt"
	"sort"
	"strings"

	"gitlab.com/aquachain/aquachain/core"
)

type AList struct {
	Present         bool
	CostCap, GasCap uint64
	Txs             []ATx
}

type AState struct {
	GasPrice, MaxGas uint64
	CNonce, PNonce   [nAccounts]uint64
	Balance          [nAccounts]uint64
	Local            [nAccounts]bool
	Pend, Queue      [nAccounts]AList
	All              []ATx
	Heap             []ATx // txPricedList.items in array order
	Stales           int
}

// intrinsicGas is what the code under test charges for a plain transfer without data (params.TxGas), read from the
// real IntrinsicGas so that a change of the constant reaches the model through the case lines.
var intrinsicGas = func() uint64 {
	g, err := core.IntrinsicGas(nil, false, true)
	if err != nil {
		panic(err)
	}
	return g
}()

type ACfg struct {
	PriceLimit, PriceBump, AccountSlots, GlobalSlots, AccountQueue, GlobalQueue uint64
	NoLocals                                                                    bool
}

func (c ACfg) String() string {
	nl := 0
	if c.NoLocals {
		nl = 1
	}
	return fmt.Sprintf("cfg=%d,%d,%d,%d,%d,%d,%d,%d", c.PriceLimit, c.PriceBump, c.AccountSlots, c.GlobalSlots, c.AccountQueue, c.GlobalQueue, nl, intrinsicGas)
}

func lessTx(a, b ATx) bool {
	if a.S != b.S {
		return a.S < b.S
	}
	if a.N != b.N {
		return a.N < b.N
	}
	if a.P != b.P {
		return a.P < b.P
	}
	if a.G != b.G {
		return a.G < b.G
	}
	return a.V < b.V
}

// Observe takes a snapshot of the real pool and abstracts it.
func Observe(w *World, pool *core.TxPool) *AState {
	sn := pool.VerifSnap(w.addrs)
	s := &AState{GasPrice: sn.GasPrice.Uint64(), MaxGas: sn.MaxGas}
	for i, a := range w.addrs {
		s.CNonce[i], s.PNonce[i], s.Balance[i], s.Local[i] = sn.CNonce[a], sn.PNonce[a], sn.Balance[a].Uint64(), sn.Locals[a]
		if txs, ok := sn.Pending[a]; ok {
			s.Pend[i] = AList{true, sn.PCostCap[a].Uint64(), sn.PGasCap[a], w.AbsList(txs)}
		}
		if txs, ok := sn.Queue[a]; ok {
			s.Queue[i] = AList{true, sn.QCostCap[a].Uint64(), sn.QGasCap[a], w.AbsList(txs)}
		}
	}
	for a := range sn.Pending {
		if _, ok := w.idx[a]; !ok {
			panic("pending list of an unknown account")
		}
	}
	for a := range sn.Queue {
		if _, ok := w.idx[a]; !ok {
			panic("queue list of an unknown account")
		}
	}
	s.All = w.AbsList(sn.All)
	s.Heap = w.AbsList(sn.PricedItems)
	s.Stales = sn.PricedStales
	sort.Slice(s.All, func(i, j int) bool { return lessTx(s.All[i], s.All[j]) })
	return s
}

func renderLists(ls *[nAccounts]AList) string {
	var parts []string
	for i, l := range ls {
		if l.Present {
			parts = append(parts, fmt.Sprintf("%d/%d/%d/%s", i, l.CostCap, l.GasCap, renderTxs(l.Txs)))
		}
	}
	if len(parts) == 0 {
		return "-"
	}
	return strings.Join(parts, ";")
}

func (s *AState) String() string {
	var ac []string
	for i := 0; i < nAccounts; i++ {
		l := 0
		if s.Local[i] {
			l = 1
		}
		ac = append(ac, fmt.Sprintf("%d:%d:%d:%d", s.CNonce[i], s.Balance[i], s.PNonce[i], l))
	}
	return fmt.Sprintf("gp=%d mg=%d ac=%s pe=%s qu=%s all=%s ph=%s ps=%d", s.GasPrice, s.MaxGas, strings.Join(ac, ";"),
		renderLists(&s.Pend), renderLists(&s.Queue), renderTxs(s.All), renderTxs(s.Heap), s.Stales)
}

type key struct{ S, N int }

// occupants maps (sender, nonce) to the transactions of pending ∪ queue at that slot.
func (s *AState) occupants() map[key][]ATx {
	m := map[key][]ATx{}
	for i := 0; i < nAccounts; i++ {
		for _, t := range s.Pend[i].Txs {
			m[key{t.S, t.N}] = append(m[key{t.S, t.N}], t)
		}
		for _, t := range s.Queue[i].Txs {
			m[key{t.S, t.N}] = append(m[key{t.S, t.N}], t)
		}
	}
	return m
}

func (s *AState) pooled(t ATx) bool {
	for _, l := range [2]*[nAccounts]AList{&s.Pend, &s.Queue} {
		for _, u := range l[t.S].Txs {
			if u == t {
				return true
			}
		}
	}
	return false
}

func (s *AState) counts() (pend, queued, nlQueued int) {
	for i := 0; i < nAccounts; i++ {
		pend += len(s.Pend[i].Txs)
		queued += len(s.Queue[i].Txs)
		if !s.Local[i] {
			nlQueued += len(s.Queue[i].Txs)
		}
	}
	return
}

type clauseFail struct {
	clause, detail string
	acct           int // run clause: the account and the first missing nonce
	missing        uint64
}

// CheckInv evaluates the state clauses of C15 on an observed state:
//
//	run     per sender the pending nonces are exactly chainNonce, chainNonce+1, …
//	afford  every pending transaction has cost ≤ balance and gas ≤ block gas limit
//	unique  at most one transaction per (sender, nonce) across pending ∪ queue (and every list holds only its owner's)
//	limits  (after operations that run the pool's limit enforcement, see limitsApply) for non-local senders:
//	        queued per account ≤ AccountQueue; queued pool-wide ≤ GlobalQueue; pending pool-wide ≤ GlobalSlots unless
//	        no non-local account holds more than its guaranteed AccountSlots
func (s *AState) CheckInv(cfg ACfg, withLimits bool) []clauseFail {
	var out []clauseFail
	for i := 0; i < nAccounts; i++ {
		for k, t := range s.Pend[i].Txs {
			if t.S != i {
				out = append(out, clauseFail{clause: "unique", detail: fmt.Sprintf("pending list of %d holds %v", i, t)})
			}
			if uint64(t.N) != s.CNonce[i]+uint64(k) {
				out = append(out, clauseFail{clause: "run", detail: fmt.Sprintf("account %d chain nonce %d pending nonces %v", i, s.CNonce[i], nonces(s.Pend[i].Txs)), acct: i, missing: s.CNonce[i] + uint64(k)})
				break
			}
		}
		for _, t := range s.Pend[i].Txs {
			if t.Cost() > s.Balance[i] || t.G > s.MaxGas {
				out = append(out, clauseFail{clause: "afford", detail: fmt.Sprintf("pending %v cost %d balance %d gaslimit %d", t, t.Cost(), s.Balance[i], s.MaxGas)})
			}
		}
		for _, t := range s.Queue[i].Txs {
			if t.S != i {
				out = append(out, clauseFail{clause: "unique", detail: fmt.Sprintf("queue list of %d holds %v", i, t)})
			}
		}
	}
	for k, ts := range s.occupants() {
		if len(ts) > 1 {
			out = append(out, clauseFail{clause: "unique", detail: fmt.Sprintf("slot %v held by %v", k, ts)})
		}
	}
	if withLimits {
		out = append(out, s.checkLimits(cfg)...)
	}
	return out
}

func (s *AState) checkLimits(cfg ACfg) []clauseFail {
	var out []clauseFail
	pend, _, nlq := s.counts()
	for i := 0; i < nAccounts; i++ {
		if !s.Local[i] && uint64(len(s.Queue[i].Txs)) > cfg.AccountQueue {
			out = append(out, clauseFail{clause: "limit-account-queue", detail: fmt.Sprintf("account %d queued %d > %d", i, len(s.Queue[i].Txs), cfg.AccountQueue)})
		}
	}
	if uint64(nlq) > cfg.GlobalQueue {
		out = append(out, clauseFail{clause: "limit-global-queue", detail: fmt.Sprintf("non-local queued %d > %d", nlq, cfg.GlobalQueue)})
	}
	if uint64(pend) > cfg.GlobalSlots {
		for i := 0; i < nAccounts; i++ {
			if !s.Local[i] && uint64(len(s.Pend[i].Txs)) > cfg.AccountSlots {
				out = append(out, clauseFail{clause: "limit-global-slots", detail: fmt.Sprintf("pending %d > %d while non-local account %d holds %d > %d", pend, cfg.GlobalSlots, i, len(s.Pend[i].Txs), cfg.AccountSlots)})
				break
			}
		}
	}
	return out
}

func nonces(ts []ATx) []int {
	out := make([]int, len(ts))
	for i, t := range ts {
		out[i] = t.N
	}
	return out
}

// CheckLimitsAfterAdd: a successful add that is not a replacement runs the enforcement for the sender's queue and for the
// two pool-wide limits (judged when the pool was not full, so that no discard re-queued another account's followers).
func CheckLimitsAfterAdd(pre, post *AState, cfg ACfg, t ATx, res string) []clauseFail {
	if res != "ok" || uint64(len(pre.All)+1) > cfg.GlobalSlots+cfg.GlobalQueue || len(pre.occupants()[key{t.S, t.N}]) > 0 {
		return nil
	}
	var out []clauseFail
	for _, f := range post.checkLimits(cfg) {
		if f.clause == "limit-account-queue" && !strings.Contains(f.detail, fmt.Sprintf("account %d ", t.S)) {
			continue // other accounts' queues are only capped when they are promoted themselves
		}
		f.clause += "-after-add"
		out = append(out, f)
	}
	return out
}

// bumpOK is txList.Add's acceptance rule for replacing old by new.
func bumpOK(old, new ATx, bump uint64) bool {
	return new.P > old.P && new.P >= old.P*(100+bump)/100
}

// CheckReplacement: a slot (sender, nonce) that changes its occupant during one operation must satisfy the price bump
// rule. Not judged when the pool could have been full during the operation (an eviction followed by a fresh insert is
// not a replacement); `adds` is the number of transactions the operation may insert.
func CheckReplacement(pre, post *AState, cfg ACfg, adds int) []clauseFail {
	if uint64(len(pre.All)+adds) > cfg.GlobalSlots+cfg.GlobalQueue {
		return nil
	}
	var out []clauseFail
	po := post.occupants()
	for k, ts := range pre.occupants() {
		if len(ts) != 1 || len(po[k]) != 1 {
			continue
		}
		if o, n := ts[0], po[k][0]; o != n && !bumpOK(o, n, cfg.PriceBump) {
			out = append(out, clauseFail{clause: "bump", detail: fmt.Sprintf("slot %v: %v replaced by %v with bump %d%%", k, o, n, cfg.PriceBump)})
		}
	}
	return out
}

// validNow is validateTx against the state the pool holds after the reset (non-local price floor included).
func (s *AState) validNow(t ATx) bool {
	return t.Kind == 0 && t.G <= s.MaxGas && (s.Local[t.S] || t.P >= s.GasPrice) && uint64(t.N) >= s.CNonce[t.S] &&
		t.Cost() <= s.Balance[t.S] && t.G >= intrinsicGas
}

// CheckReorg: after a reset from old to new head every transaction of discarded \ included that is still valid must be
// in pending ∪ queue, unless its slot is held by a competitor (at most one per sender and nonce). Judged exactly where the
// theorems apply (Props/C15: reorg_reinjects, reorg_reinjects_local): within the pool's 64 block horizon, and either the
// pool has room — what is pooled plus what is re-injected fits AccountQueue, GlobalQueue and GlobalSlots, so the pool never
// fills up (the only refusal of a valid transaction with a free slot is full-pool-and-underpriced) and no limit binds — or
// the sender is local (exempt from every limit, never underpriced).
func CheckReorg(pre, post *AState, cfg ACfg, disc, inc []ATx, oldNum, newNum uint64) []clauseFail {
	d := oldNum - newNum
	if newNum > oldNum {
		d = newNum - oldNum
	}
	if d > 64 {
		return nil
	}
	incl := map[ATx]bool{}
	for _, t := range inc {
		incl[t] = true
	}
	var re []ATx
	for _, t := range disc {
		if !incl[t] {
			re = append(re, t)
		}
	}
	total := uint64(len(pre.All) + len(re))
	room := total <= cfg.GlobalSlots && total <= cfg.GlobalQueue && total <= cfg.AccountQueue
	var out []clauseFail
	occ := post.occupants()
	for _, t := range re {
		if !room && !pre.Local[t.S] {
			continue
		}
		if !post.validNow(t) || post.pooled(t) {
			continue
		}
		if len(occ[key{t.S, t.N}]) > 0 {
			continue // slot taken by a competitor
		}
		out = append(out, clauseFail{clause: "reorg-reinject", detail: fmt.Sprintf("%v dropped out of the chain, is still valid (nonce %d balance %d gasprice %d) but is in neither pending nor queue", t, post.CNonce[t.S], post.Balance[t.S], post.GasPrice)})
	}
	return out
}

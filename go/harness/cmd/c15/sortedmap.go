package main

// sortedmap.go — cache coherence of txSortedMap: random method sequences on a REAL txSortedMap (through the overlay
// accessor), one case line per call for the Lean machine Aqv.Model.TxSortedMap, and a direct judgement after every call:
// a cache that is present is the nonce-sorted contents, and Flatten returns the nonce-sorted contents.

import (
	"fmt"
	"math/big"
	"strings"

	"gitlab.com/aquachain/aquachain/common"
	"gitlab.com/aquachain/aquachain/core"
	"gitlab.com/aquachain/aquachain/core/types"
	"verifharness/hx"
)

func smTx(tx *types.Transaction) string {
	return fmt.Sprintf("0:%d:%s:%d:%s", tx.Nonce(), tx.GasPrice().String(), tx.Gas(), tx.Value().String())
}

func smTxs(txs types.Transactions) string {
	if len(txs) == 0 {
		return "-"
	}
	ss := make([]string, len(txs))
	for i, tx := range txs {
		ss[i] = smTx(tx)
	}
	return strings.Join(ss, ",")
}

func smState(v *core.VerifSortedMap) (string, bool, string) {
	items, cache, isNil := v.Dump()
	ca := "n"
	if !isNil {
		ca = smTxs(cache)
	}
	coherent := isNil || smTxs(cache) == smTxs(items)
	return "it=" + smTxs(items) + " ca=" + ca, coherent, smTxs(items)
}

func sortedMapCases(run *hx.Run, rng *hx.Rng, nseq, maxOps int) {
	mk := func(nonce, price uint64) *types.Transaction {
		return types.NewTransaction(nonce, common.Address{0xbb}, big.NewInt(0), 21000, new(big.Int).SetUint64(price), nil)
	}
	for s := 0; s < nseq; s++ {
		r := rng.Fork(uint64(s))
		v := core.NewVerifSortedMap()
		var script []string
		base := uint64(r.Intn(4))
		for k := 0; k < 2+r.Intn(maxOps); k++ {
			pre, _, _ := smState(v)
			var op string
			var res types.Transactions
			items, _, _ := v.Dump()
			hi := base
			if n := len(items); n > 0 {
				hi = items[n-1].Nonce()
			}
			switch c := r.Intn(20); {
			case c < 7: // put: mostly extending, often replacing the highest or a present nonce, sometimes below
				n := hi + 1
				switch r.Intn(6) {
				case 0, 1:
					n = hi
				case 2:
					if len(items) > 0 {
						n = items[r.Intn(len(items))].Nonce()
					}
				case 3:
					n = base + uint64(r.Intn(int(hi-base)+3))
				}
				tx := mk(n, uint64(1+r.Intn(30)))
				v.Put(tx)
				op = "op=put o.tx=" + smTx(tx)
			case c < 11:
				op = "op=flatten"
				res = v.Flatten()
			case c < 13:
				th := base + uint64(r.Intn(int(hi-base)+3))
				op = fmt.Sprintf("op=forward o.a=%d", th)
				res = v.Forward(th)
			case c < 15:
				k := r.Intn(len(items) + 2)
				op = fmt.Sprintf("op=cap o.a=%d", k)
				res = v.Cap(k)
			case c < 16:
				p := uint64(r.Intn(32))
				op = fmt.Sprintf("op=filter o.a=%d", p)
				res = v.Filter(func(tx *types.Transaction) bool { return tx.GasPrice().Cmp(new(big.Int).SetUint64(p)) > 0 })
			case c < 18:
				n := base + uint64(r.Intn(int(hi-base)+3))
				op = fmt.Sprintf("op=remove o.a=%d", n)
				if tx := v.Remove(n); tx != nil {
					res = types.Transactions{tx}
				}
			default:
				st := base + uint64(r.Intn(int(hi-base)+3))
				op = fmt.Sprintf("op=ready o.a=%d", st)
				res = v.Ready(st)
			}
			script = append(script, op)
			post, coherent, sorted := smState(v)
			run.Current("sortedmap " + op)
			run.Case("sm=1 "+pre+" "+op, "res="+smTxs(res)+" "+post)
			run.Count("sortedmap:calls")
			if !coherent {
				run.Violate("cache-coherence", "cache-coherence", map[string]interface{}{"section": "sortedmap", "script": script},
					"txSortedMap after "+strings.Join(script, "; ")+": "+post+" — the cached list is not the nonce-sorted contents")
				break
			}
			if strings.HasPrefix(op, "op=flatten") && smTxs(res) != sorted {
				run.Violate("cache-coherence", "flatten", map[string]interface{}{"section": "sortedmap", "script": script},
					"Flatten returned "+smTxs(res)+" for contents "+sorted)
				break
			}
		}
		run.Count("sortedmap:sequences")
	}
}

package main

// lattice.go — boundary lattice for the replacement rule: gas prices far beyond everyday values (around 2^32, 2^53,
// 2^64/110, 2^63, 2^64, 2^128) crossed with replacement prices at and around the bump threshold, for pending and queued
// slots, local and remote submissions, price bumps 0 (sanitised to the default), 10 and 100.  Prices and balances are
// big integers here, so this section talks to the pool and renders the case lines without the uint64 abstraction of ATx.

import (
	"fmt"
	"math/big"
	"sort"
	"strings"
	"time"

	"gitlab.com/aquachain/aquachain/common"
	"gitlab.com/aquachain/aquachain/core"
	"gitlab.com/aquachain/aquachain/core/types"
	"gitlab.com/aquachain/aquachain/params"
	"verifharness/hx"
)

func bigTxStr(w *World, tx *types.Transaction) string {
	from, err := types.Sender(poolSigner, tx)
	if err != nil {
		panic(err)
	}
	return fmt.Sprintf("%d:%d:%s:%d:%s", w.idx[from], tx.Nonce(), tx.GasPrice().String(), tx.Gas(), tx.Value().String())
}

func bigTxs(w *World, txs types.Transactions) string {
	if len(txs) == 0 {
		return "-"
	}
	ss := make([]string, len(txs))
	for i, tx := range txs {
		ss[i] = bigTxStr(w, tx)
	}
	return strings.Join(ss, ",")
}

// renderSnapBig renders a pool snapshot in the case-line format with arbitrary-precision numbers.
func renderSnapBig(w *World, pool *core.TxPool) string {
	sn := pool.VerifSnap(w.addrs)
	var ac []string
	for _, a := range w.addrs {
		l := 0
		if sn.Locals[a] {
			l = 1
		}
		ac = append(ac, fmt.Sprintf("%d:%s:%d:%d", sn.CNonce[a], sn.Balance[a].String(), sn.PNonce[a], l))
	}
	lists := func(m map[common.Address]types.Transactions, cc map[common.Address]*big.Int, gc map[common.Address]uint64) string {
		var parts []string
		for i, a := range w.addrs {
			if txs, ok := m[a]; ok {
				parts = append(parts, fmt.Sprintf("%d/%s/%d/%s", i, cc[a].String(), gc[a], bigTxs(w, txs)))
			}
		}
		if len(parts) == 0 {
			return "-"
		}
		return strings.Join(parts, ";")
	}
	all := append(types.Transactions{}, sn.All...)
	sort.Slice(all, func(i, j int) bool { return bigTxStr(w, all[i]) < bigTxStr(w, all[j]) })
	return fmt.Sprintf("gp=%s mg=%d ac=%s pe=%s qu=%s all=%s ph=%s ps=%d", sn.GasPrice.String(), sn.MaxGas, strings.Join(ac, ";"),
		lists(sn.Pending, sn.PCostCap, sn.PGasCap), lists(sn.Queue, sn.QCostCap, sn.QGasCap), bigTxs(w, all), bigTxs(w, sn.PricedItems), sn.PricedStales)
}

func pow2(k uint) *big.Int { return new(big.Int).Lsh(big.NewInt(1), k) }

// priceLattice runs the lattice; every case is a fresh pool: submit the old transaction, then the replacement.
func priceLattice(run *hx.Run) {
	one := big.NewInt(1)
	q := new(big.Int).Div(pow2(64), big.NewInt(110)) // ⌊2^64/110⌋: where P·110 first exceeds 64 bits
	add := func(x *big.Int, d int64) *big.Int { return new(big.Int).Add(x, big.NewInt(d)) }
	prices := []*big.Int{one, add(pow2(32), -1), add(pow2(32), 1), pow2(53), add(q, -1), q, add(q, 1), pow2(63),
		add(pow2(64), -1), pow2(64), add(pow2(64), 1), pow2(128), new(big.Int).Div(pow2(64), big.NewInt(200)), add(new(big.Int).Div(pow2(64), big.NewInt(200)), 1)}
	w := NewWorld()
	w.bigBalance = pow2(200)
	key := w.keys[0]
	mk := func(nonce uint64, price *big.Int) *types.Transaction {
		tx, err := types.SignTx(types.NewTransaction(nonce, common.Address{0xaa}, big.NewInt(1), 21000, price, nil), types.HomesteadSigner{}, key)
		if err != nil {
			panic(err)
		}
		return tx
	}
	for _, bump := range []uint64{0, 10, 100} {
		for _, queued := range []bool{false, true} {
			for _, local := range []bool{false, true} {
				for _, P := range prices {
					cfg := core.TxPoolConfig{Journal: "", Rejournal: time.Hour, PriceLimit: 1, PriceBump: bump, AccountSlots: 16, GlobalSlots: 4096,
						AccountQueue: 64, GlobalQueue: 1024, Lifetime: 1000 * time.Hour}
					eff := bump
					if eff < 1 {
						eff = 10
					}
					// the threshold of txList.Add: ⌊P·(100+bump)/100⌋
					th := new(big.Int).Div(new(big.Int).Mul(P, big.NewInt(int64(100+eff))), big.NewInt(100))
					for _, R := range []*big.Int{P, add(P, 1), add(th, -1), th, add(th, 1)} {
						if R.Sign() <= 0 {
							continue
						}
						g := w.newBlock(nil, 100000, nil, [nAccounts]AcctSt{})
						w.SetHead(g)
						pool := core.NewTxPool(cfg, params.TestChainConfig, w)
						nonce := uint64(0)
						if queued {
							nonce = 5
						}
						oldTx, newTx := mk(nonce, P), mk(nonce, R)
						submit := func(tx *types.Transaction) error {
							if local {
								return pool.AddLocal(tx)
							}
							return pool.AddRemote(tx)
						}
						cfgStr := fmt.Sprintf("cfg=1,%d,16,4096,64,1024,0,%d", pool.VerifConfig().PriceBump, intrinsicGas)
						l := 0
						if local {
							l = 1
						}
						run.Current(fmt.Sprintf("price lattice P=%s R=%s bump=%d queued=%v local=%v", P, R, bump, queued, local))
						pre0 := renderSnapBig(w, pool)
						e1 := submit(oldTx)
						mid := renderSnapBig(w, pool)
						run.Case(cfgStr+" "+pre0+fmt.Sprintf(" op=add o.loc=%d o.kind=0 o.tx=%s", l, bigTxStr(w, oldTx)), "res="+errClass(e1)+" "+mid)
						e2 := submit(newTx)
						post := renderSnapBig(w, pool)
						run.Case(cfgStr+" "+mid+fmt.Sprintf(" op=add o.loc=%d o.kind=0 o.tx=%s", l, bigTxStr(w, newTx)), "res="+errClass(e2)+" "+post)
						run.Count("lattice:replacements")
						// direct judgement: accepted only if strictly dearer and at or above the threshold (computed on big integers)
						ruleOK := R.Cmp(P) > 0 && R.Cmp(th) >= 0
						same := R.Cmp(P) == 0
						if e1 != nil {
							run.Violate("lattice-setup", "lattice-setup", run.NCases, fmt.Sprintf("old transaction price %s refused: %v", P, e1))
						} else if e2 == nil && !ruleOK && !same {
							run.Violate("bump", fmt.Sprintf("bump lattice P=%s R=%s bump=%d", P, R, eff), map[string]interface{}{"P": P.String(), "R": R.String(), "bump": eff, "queued": queued, "local": local},
								fmt.Sprintf("price %s replaced by %s with bump %d%% (threshold %s): accepted without the configured bump", P, R, eff, th))
						} else if e2 != nil && ruleOK {
							run.Violate("bump-refused", fmt.Sprintf("bump lattice P=%s R=%s bump=%d", P, R, eff), run.NCases,
								fmt.Sprintf("price %s not replaced by %s with bump %d%% (threshold %s) although the rule is met: %v", P, R, eff, th, e2))
						}
						if e2 == nil {
							run.Count("lattice:accepted")
						}
						pool.Stop()
					}
				}
			}
		}
	}
}

package main

// world.go — accounts, a cache of signed transactions, and a scripted fake chain implementing the interface the
// transaction pool needs (CurrentBlock / GetBlock / StateAt / SubscribeChainHeadEvent).

import (
	"encoding/binary"
	"fmt"
	"math/big"
	"sort"
	"strconv"
	"strings"
	"sync"

	"github.com/btcsuite/btcd/btcec/v2"
	"gitlab.com/aquachain/aquachain/aqua/event"
	"gitlab.com/aquachain/aquachain/aquadb"
	"gitlab.com/aquachain/aquachain/common"
	"gitlab.com/aquachain/aquachain/core"
	"gitlab.com/aquachain/aquachain/core/state"
	"gitlab.com/aquachain/aquachain/core/types"
	"gitlab.com/aquachain/aquachain/crypto"
	"gitlab.com/aquachain/aquachain/params"
)

const nAccounts = 6

// ATx is the abstract transaction the Lean model talks about: (sender index, nonce, gas price, gas limit, value).
// Signing is deterministic (RFC 6979), so the five fields determine the transaction hash.
type ATx struct {
	S, N    int
	P, G, V uint64
	Kind    int // 0 = well-formed, 1 = oversized data, 2 = signed for another chain id (invalid sender for the pool)
}

func (t ATx) Cost() uint64 { return t.V + t.P*t.G }
func (t ATx) String() string {
	return fmt.Sprintf("%d:%d:%d:%d:%d", t.S, t.N, t.P, t.G, t.V)
}

func renderTxs(ts []ATx) string {
	if len(ts) == 0 {
		return "-"
	}
	ss := make([]string, len(ts))
	for i, t := range ts {
		ss[i] = t.String()
	}
	return strings.Join(ss, ",")
}

type AcctSt struct {
	Nonce   uint64
	Balance uint64
}

// FBlock is a block of the scripted chain together with the account state after it.
type FBlock struct {
	blk    *types.Block
	parent *FBlock
	num    uint64
	gasLim uint64
	txs    []ATx
	st     [nAccounts]AcctSt
	root   common.Hash
}

// Keyring holds the accounts and the cache of signed transactions; it is shared by all worlds of a run so that every
// abstract transaction is signed (and its sender recovered) once.
type Keyring struct {
	keys    []*btcec.PrivateKey
	addrs   []common.Address
	idx     map[common.Address]int
	txmu    sync.Mutex
	txcache map[ATx]*types.Transaction
	rev     map[common.Hash]ATx
}

var ring = newKeyring()

type typesTx = types.Transaction

type World struct {
	*Keyring

	mu         sync.RWMutex
	byHash     map[common.Hash]*FBlock
	byRoot     map[common.Hash]*FBlock
	head       *FBlock
	counter    uint64
	hi         [nAccounts]uint64  // highest chain nonce any block has reached per account
	headNonces map[[2]uint64]bool // (account, chain nonce) pairs of every block that has been the head
	bigBalance *big.Int           // when set, every account holds this balance (price lattice: beyond uint64)
	feed       event.Feed
}

func NewWorld() *World {
	return &World{Keyring: ring, byHash: map[common.Hash]*FBlock{}, byRoot: map[common.Hash]*FBlock{}}
}

func newKeyring() *Keyring {
	w := &Keyring{idx: map[common.Address]int{}, txcache: map[ATx]*types.Transaction{}, rev: map[common.Hash]ATx{}}
	for i := 0; i < nAccounts; i++ {
		k := crypto.ToECDSAUnsafe(crypto.Keccak256([]byte("verif-c15-key-" + strconv.Itoa(i))))
		w.keys = append(w.keys, k)
		a := crypto.PubkeyToAddress(k.PubKey())
		w.addrs = append(w.addrs, a)
		w.idx[a] = i
	}
	return w
}

var (
	poolSigner  = types.NewEIP155Signer(params.TestChainConfig.ChainId)
	alienSigner = types.NewEIP155Signer(big.NewInt(77))
	bigData     = make([]byte, 33*1024)
)

// Tx returns the (cached) signed transaction for an abstract one.
func (w *Keyring) Tx(t ATx) *types.Transaction {
	w.txmu.Lock()
	defer w.txmu.Unlock()
	if tx, ok := w.txcache[t]; ok {
		return tx
	}
	var data []byte
	var signer types.Signer = types.HomesteadSigner{}
	switch t.Kind {
	case 1:
		data = bigData
	case 2:
		signer = alienSigner
	}
	raw := types.NewTransaction(uint64(t.N), common.Address{0xaa}, new(big.Int).SetUint64(t.V), t.G, new(big.Int).SetUint64(t.P), data)
	tx, err := types.SignTx(raw, signer, w.keys[t.S])
	if err != nil {
		panic(err)
	}
	if t.Kind == 0 {
		// warm the sender cache the way the pool will ask for it
		if _, err := types.Sender(poolSigner, tx); err != nil {
			panic(err)
		}
	}
	w.txcache[t] = tx
	w.rev[tx.Hash()] = t
	return tx
}

// Abs maps a real transaction seen in the pool back to its abstract form.
func (w *Keyring) Abs(tx *types.Transaction) ATx {
	w.txmu.Lock()
	defer w.txmu.Unlock()
	if t, ok := w.rev[tx.Hash()]; ok {
		return t
	}
	panic("transaction of unknown origin in the pool: " + tx.Hash().Hex())
}

func (w *Keyring) AbsList(txs types.Transactions) []ATx {
	out := make([]ATx, len(txs))
	for i, tx := range txs {
		out[i] = w.Abs(tx)
	}
	return out
}

// ---- scripted chain -------------------------------------------------------------------------------------------------

func (w *World) newBlock(parent *FBlock, gasLim uint64, txs []ATx, st [nAccounts]AcctSt) *FBlock {
	w.mu.Lock()
	defer w.mu.Unlock()
	w.counter++
	var rb [8]byte
	binary.BigEndian.PutUint64(rb[:], w.counter)
	root := crypto.Keccak256Hash([]byte("verif-c15-root"), rb[:])
	h := &types.Header{Root: root, GasLimit: gasLim, Number: new(big.Int), Difficulty: big.NewInt(1), Time: new(big.Int).SetUint64(w.counter), Version: 1}
	num := uint64(0)
	if parent != nil {
		num = parent.num + 1
		h.ParentHash = parent.blk.Hash()
	}
	h.Number.SetUint64(num)
	real := make([]*types.Transaction, len(txs))
	for i, t := range txs {
		real[i] = w.Tx(t)
	}
	b := &FBlock{blk: types.NewBlock(h, real, nil, nil), parent: parent, num: num, gasLim: gasLim, txs: txs, st: st, root: root}
	for i, a := range st {
		if a.Nonce > w.hi[i] {
			w.hi[i] = a.Nonce
		}
	}
	w.byHash[b.blk.Hash()] = b
	w.byRoot[root] = b
	return b
}

// Extend builds a child of parent: credits are applied first, then the candidate transactions are executed in order
// (only those with the exact next nonce, an affordable cost and gas within the block limit are included).
func (w *World) Extend(parent *FBlock, gasLim uint64, cands []ATx, credits [nAccounts]uint64) *FBlock {
	st := parent.st
	for i := range st {
		st[i].Balance += credits[i]
	}
	var inc []ATx
	for _, t := range cands {
		a := &st[t.S]
		if t.Kind != 0 || uint64(t.N) != a.Nonce || t.Cost() > a.Balance || t.G > gasLim || t.G < intrinsicGas {
			continue
		}
		a.Nonce++
		a.Balance -= t.Cost()
		inc = append(inc, t)
	}
	return w.newBlock(parent, gasLim, inc, st)
}

func (w *World) SetHead(b *FBlock) {
	w.mu.Lock()
	w.head = b
	if w.headNonces == nil {
		w.headNonces = map[[2]uint64]bool{}
	}
	for i, a := range b.st {
		w.headNonces[[2]uint64{uint64(i), a.Nonce}] = true
	}
	w.mu.Unlock()
}

// WasHeadNonce: did some block that has been the head give account i the chain nonce n?
func (w *World) WasHeadNonce(i int, n uint64) bool {
	w.mu.RLock()
	defer w.mu.RUnlock()
	return w.headNonces[[2]uint64{uint64(i), n}]
}

func (w *World) Head() *FBlock {
	w.mu.RLock()
	defer w.mu.RUnlock()
	return w.head
}

func (w *World) HiNonce(i int) uint64 {
	w.mu.RLock()
	defer w.mu.RUnlock()
	return w.hi[i]
}

func (w *World) CurrentBlock() *types.Block { return w.Head().blk }

func (w *World) GetBlock(hash common.Hash, number uint64) *types.Block {
	w.mu.RLock()
	defer w.mu.RUnlock()
	if b, ok := w.byHash[hash]; ok && b.num == number {
		return b.blk
	}
	return nil
}

func (w *World) StateAt(root common.Hash) (*state.StateDB, error) {
	w.mu.RLock()
	b, ok := w.byRoot[root]
	w.mu.RUnlock()
	if !ok {
		return nil, fmt.Errorf("unknown root %x", root)
	}
	sdb, err := state.New(common.Hash{}, state.NewDatabase(aquadb.NewMemDatabase()))
	if err != nil {
		return nil, err
	}
	for i, a := range b.st {
		if a.Nonce != 0 || a.Balance != 0 || w.bigBalance != nil {
			sdb.SetNonce(w.addrs[i], a.Nonce)
			sdb.SetBalance(w.addrs[i], new(big.Int).SetUint64(a.Balance))
			if w.bigBalance != nil {
				sdb.SetBalance(w.addrs[i], new(big.Int).Set(w.bigBalance))
			}
		}
	}
	return sdb, nil
}

func (w *World) SubscribeChainHeadEvent(ch chan<- core.ChainHeadEvent) event.Subscription {
	return w.feed.Subscribe(ch)
}

// Branches returns (discarded, included): the transactions of the blocks left behind and of the blocks gained when the
// head moves from old to new, computed on the harness' own block tree (independently of the pool's walk).
func Branches(old, new *FBlock) (disc, inc []ATx) {
	a, b := old, new
	for a.num > b.num {
		disc = append(disc, a.txs...)
		a = a.parent
	}
	for b.num > a.num {
		inc = append(inc, b.txs...)
		b = b.parent
	}
	for a != b {
		disc = append(disc, a.txs...)
		inc = append(inc, b.txs...)
		a, b = a.parent, b.parent
	}
	return
}

func sortedAddrs(m map[common.Address]types.Transactions, idx map[common.Address]int) []common.Address {
	out := make([]common.Address, 0, len(m))
	for a := range m {
		out = append(out, a)
	}
	sort.Slice(out, func(i, j int) bool { return idx[out[i]] < idx[out[j]] })
	return out
}

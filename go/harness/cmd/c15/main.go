// Harness for property C15 (transaction pool): drives the REAL core.TxPool over a scripted fake chain with random
// histories (local/remote adds with colliding nonces/prices/duplicates/replacements, SetGasPrice, head advances and
// reorganisations that change balances and nonces, random slot/queue limits). After EVERY operation
//   - the clauses of the property are evaluated directly on the observed state/transition (run.Violate), and
//   - one case line <config, pre-state, op> TAB <result, post-state> is emitted for the Lean model driver, which checks
//     that the observed transition is one the model allows (trace validation) and re-evaluates Spec.Inv.
//
// Thorough tier adds concurrent submissions/head events from several goroutines judged by the state clauses.
package main

import (
	"encoding/json"
	"fmt"
	"io"
	"math/big"
	"os"
	"path/filepath"
	"sort"
	"strings"
	"time"

	"gitlab.com/aquachain/aquachain/common/log"
	"gitlab.com/aquachain/aquachain/core"
	"gitlab.com/aquachain/aquachain/params"
	"gitlab.com/aquachain/aquachain/rlp"
	"verifharness/hx"
)

// ---- histories (explicit, replayable) -------------------------------------------------------------------------------

type BlockSpec struct {
	Gas     uint64            `json:"gas"`
	Txs     []ATx             `json:"txs"`
	Credits [nAccounts]uint64 `json:"credits"`
}

type Op struct {
	Kind   string      `json:"op"` // add | adds | price | head
	Local  bool        `json:"local,omitempty"`
	Txs    []ATx       `json:"txs,omitempty"`
	Price  uint64      `json:"price,omitempty"`
	Back   int         `json:"back,omitempty"`
	Blocks []BlockSpec `json:"blocks,omitempty"`
}

type History struct {
	Journal bool              `json:"journal,omitempty"` // run with a local transaction journal and check it after every operation
	Cfg     ACfg              `json:"cfg"`
	Genesis [nAccounts]AcctSt `json:"genesis"`
	GasLim  uint64            `json:"gaslimit"`
	Ops     []Op              `json:"ops"`
}

func (o Op) String() string {
	l := 0
	if o.Local {
		l = 1
	}
	switch o.Kind {
	case "add":
		return fmt.Sprintf("add(l%d k%d %v)", l, o.Txs[0].Kind, o.Txs[0])
	case "adds":
		return fmt.Sprintf("adds(l%d %s)", l, renderTxs(o.Txs))
	case "price":
		return fmt.Sprintf("price(%d)", o.Price)
	case "head":
		var bs []string
		for _, b := range o.Blocks {
			var cr []string
			for i, c := range b.Credits {
				if c != 0 {
					cr = append(cr, fmt.Sprintf("%d+%d", i, c))
				}
			}
			bs = append(bs, fmt.Sprintf("{g%d %s %s}", b.Gas, renderTxs(b.Txs), strings.Join(cr, " ")))
		}
		return fmt.Sprintf("head(back%d %s)", o.Back, strings.Join(bs, ""))
	}
	return "?"
}

func (h *History) String() string {
	var g []string
	for _, a := range h.Genesis {
		g = append(g, fmt.Sprintf("%d/%d", a.Nonce, a.Balance))
	}
	ops := make([]string, len(h.Ops))
	for i, o := range h.Ops {
		ops[i] = o.String()
	}
	return h.Cfg.String() + " gen=" + strings.Join(g, ";") + fmt.Sprintf(" gl=%d ", h.GasLim) + strings.Join(ops, " ")
}

func errClass(err error) string {
	switch {
	case err == nil:
		return "ok"
	case err == core.ErrUnderpriced:
		return "underpriced"
	case err == core.ErrReplaceUnderpriced:
		return "replace"
	case err == core.ErrNonceTooLow:
		return "nonce"
	case err == core.ErrInsufficientFunds:
		return "funds"
	case err == core.ErrIntrinsicGas:
		return "intrinsic"
	case err == core.ErrGasLimit:
		return "gaslimit"
	case err == core.ErrInvalidSender:
		return "sender"
	case err == core.ErrOversizedData:
		return "oversized"
	case strings.HasPrefix(err.Error(), "known transaction"):
		return "known"
	}
	return "other:" + strings.ReplaceAll(err.Error(), " ", "_")
}

// ---- one pool instance over one world --------------------------------------------------------------------------------

type Sim struct {
	w       *World
	pool    *core.TxPool
	cfg     ACfg
	journal string
}

// lifetime of idle queued transactions; only the concurrent tier shortens it
var poolLifetime = 1000 * time.Hour

func realCfg(c ACfg) core.TxPoolConfig {
	return core.TxPoolConfig{NoLocals: c.NoLocals, Journal: "", Rejournal: time.Hour, PriceLimit: c.PriceLimit, PriceBump: c.PriceBump,
		AccountSlots: c.AccountSlots, GlobalSlots: c.GlobalSlots, AccountQueue: c.AccountQueue, GlobalQueue: c.GlobalQueue, Lifetime: poolLifetime}
}

// journalDir is where journals of histories with Journal=true live (the run's output directory, never /tmp)
var journalDir = "."
var journalSeq int

func NewSim(w *World, h *History) *Sim {
	g := w.newBlock(nil, h.GasLim, nil, h.Genesis)
	w.SetHead(g)
	cfg := realCfg(h.Cfg)
	sim := &Sim{w: w, cfg: h.Cfg}
	if h.Journal && !h.Cfg.NoLocals {
		journalSeq++
		sim.journal = filepath.Join(journalDir, fmt.Sprintf("journal-%d.rlp", journalSeq))
		os.Remove(sim.journal)
		cfg.Journal = sim.journal
	}
	sim.pool = core.NewTxPool(cfg, params.TestChainConfig, w)
	return sim
}

func (s *Sim) Close() {
	s.pool.Stop()
	if s.journal != "" {
		os.Remove(s.journal)
		os.Remove(s.journal + ".new")
	}
}

// readJournal decodes the journal file into abstract transactions.
func (s *Sim) readJournal() (map[ATx]bool, error) {
	f, err := os.Open(s.journal)
	if err != nil {
		return nil, err
	}
	defer f.Close()
	out := map[ATx]bool{}
	st := rlp.NewStream(f, 0)
	for {
		tx := new(coreTx)
		if err := st.Decode(tx); err != nil {
			if err == io.EOF {
				return out, nil
			}
			return nil, err
		}
		out[s.w.Abs(tx)] = true
	}
}

// checkJournal: (1) a transaction accepted from a local sender is appended to the journal at once; (2) after a rotation
// the journal holds exactly the pooled transactions of the local senders.
func (s *Sim) checkJournal(o Op, res string, post *AState) []clauseFail {
	var out []clauseFail
	if s.journal == "" {
		return nil
	}
	if o.Kind == "add" && res == "ok" && o.Txs[0].Kind == 0 && post.Local[o.Txs[0].S] {
		j, err := s.readJournal()
		if err != nil {
			return []clauseFail{{clause: "journal", detail: "cannot read journal: " + err.Error()}}
		}
		if !j[o.Txs[0]] {
			out = append(out, clauseFail{clause: "journal", detail: fmt.Sprintf("accepted local transaction %v not journaled", o.Txs[0])})
		}
	}
	if err := s.pool.VerifRotateJournal(); err != nil {
		return append(out, clauseFail{clause: "journal", detail: "rotate: " + err.Error()})
	}
	j, err := s.readJournal()
	if err != nil {
		return append(out, clauseFail{clause: "journal", detail: "cannot read journal: " + err.Error()})
	}
	want := map[ATx]bool{}
	for i := 0; i < nAccounts; i++ {
		if post.Local[i] {
			for _, t := range post.Pend[i].Txs {
				want[t] = true
			}
			for _, t := range post.Queue[i].Txs {
				want[t] = true
			}
		}
	}
	for t := range want {
		if !j[t] {
			out = append(out, clauseFail{clause: "journal", detail: fmt.Sprintf("after rotation the journal lacks the pooled local transaction %v", t)})
		}
	}
	for t := range j {
		if !want[t] {
			out = append(out, clauseFail{clause: "journal", detail: fmt.Sprintf("after rotation the journal holds %v, which is not a pooled transaction of a local sender", t)})
		}
	}
	return out
}

type stepResult struct {
	opStr     string // op rendering for the model
	res       string
	disc, inc []ATx
	oldNum    uint64
	newNum    uint64
	adds      int
	isReset   bool
	limits    bool // the operation ends with the pool's limit enforcement over all accounts
}

// apply executes one operation on the real pool.
func (s *Sim) apply(o Op) (r stepResult) {
	l := 0
	if o.Local {
		l = 1
	}
	switch o.Kind {
	case "add":
		t := o.Txs[0]
		tx := s.w.Tx(t)
		var err error
		if o.Local {
			err = s.pool.AddLocal(tx)
		} else {
			err = s.pool.AddRemote(tx)
		}
		r.opStr = fmt.Sprintf("op=add o.loc=%d o.kind=%d o.tx=%v", l, t.Kind, t)
		r.res = errClass(err)
		r.adds = 1
	case "adds":
		txs := make([]*coreTx, len(o.Txs))
		for i, t := range o.Txs {
			txs[i] = s.w.Tx(t)
		}
		var errs []error
		if o.Local {
			errs = s.pool.AddLocals(txs)
		} else {
			errs = s.pool.AddRemotes(txs)
		}
		cs := make([]string, len(errs))
		for i, e := range errs {
			cs[i] = errClass(e)
		}
		r.opStr = fmt.Sprintf("op=adds o.loc=%d o.txs=%s", l, renderTxs(o.Txs))
		r.res = strings.Join(cs, ",")
		if len(cs) == 0 {
			r.res = "-"
		}
		r.adds = len(o.Txs)
	case "price":
		s.pool.SetGasPrice(new(big.Int).SetUint64(o.Price))
		r.opStr = fmt.Sprintf("op=price o.p=%d", o.Price)
		r.res = "ok"
	case "head":
		old := s.w.Head()
		base := old
		for i := 0; i < o.Back && base.parent != nil; i++ {
			base = base.parent
		}
		nw := base
		for _, b := range o.Blocks {
			nw = s.w.Extend(nw, b.Gas, b.Txs, b.Credits)
		}
		r.isReset = true
		r.disc, r.inc = Branches(old, nw)
		r.oldNum, r.newNum = old.num, nw.num
		var st []string
		for _, a := range nw.st {
			st = append(st, fmt.Sprintf("%d/%d", a.Nonce, a.Balance))
		}
		same := 0
		if nw == old {
			same = 1
		}
		linear := 0
		if nw.parent == old {
			linear = 1
		}
		r.opStr = fmt.Sprintf("op=reset o.old=%d o.new=%d o.same=%d o.lin=%d o.mg=%d o.view=%s o.disc=%s o.inc=%s", old.num, nw.num, same, linear, nw.gasLim, strings.Join(st, ";"), renderTxs(r.disc), renderTxs(r.inc))
		s.w.SetHead(nw)
		s.pool.VerifReset(old.blk.Header(), nw.blk.Header())
		r.res = "ok"
		r.adds = len(r.disc)
		r.limits = true
	}
	return
}

type failure struct {
	clause, detail string
	step           int
}

// runHistory executes a history on a fresh pool. emit=true writes model cases and counts statistics.
func runHistory(run *hx.Run, h *History, emit bool) (fails []failure) {
	w := NewWorld()
	sim := NewSim(w, h)
	defer sim.Close()
	cfgStr := h.Cfg.String()
	pre := Observe(w, sim.pool)
	for _, f := range pre.CheckInv(h.Cfg, true) {
		fails = append(fails, failure{f.clause, f.detail, -1})
	}
	for i, o := range h.Ops {
		var r stepResult
		cur := fmt.Sprintf("%s step %d %s", h.String(), i, o.String())
		run.Current(cur)
		p := hx.Safe(func() string { r = sim.apply(o); return "" })
		if p != "" {
			fails = append(fails, failure{"panic", p + " at " + o.String(), i})
			return
		}
		post := Observe(w, sim.pool)
		var cf []clauseFail
		cf = append(cf, post.CheckInv(h.Cfg, r.limits)...)
		cf = append(cf, CheckReplacement(pre, post, h.Cfg, r.adds)...)
		if o.Kind == "add" {
			cf = append(cf, CheckLimitsAfterAdd(pre, post, h.Cfg, o.Txs[0], r.res)...)
		}
		cf = append(cf, sim.checkJournal(o, r.res, post)...)
		if emit && sim.journal != "" {
			run.Count("journal:rotations-checked")
		}
		if r.isReset {
			cf = append(cf, CheckReorg(pre, post, h.Cfg, r.disc, r.inc, r.oldNum, r.newNum)...)
		}
		for _, f := range cf {
			if f.clause == "run" && r.isReset && post.CNonce[f.acct] < pre.CNonce[f.acct] && f.missing < pre.CNonce[f.acct] {
				// the chain nonce moved back and the first missing nonce lies in the re-injected range
				f.clause = "run-reinject-hole"
			}
			fails = append(fails, failure{f.clause, f.detail, i})
		}
		if emit {
			run.Case(cfgStr+" "+pre.String()+" "+r.opStr, "res="+r.res+" "+post.String())
			run.Count("op:" + o.Kind)
			for _, c := range strings.Split(r.res, ",") {
				if o.Kind == "add" || o.Kind == "adds" {
					run.Count("add:" + c)
				}
			}
			if r.isReset {
				if len(r.disc) > 0 {
					run.Count("reset:with-discarded")
				}
				if r.newNum <= r.oldNum {
					run.Count("reset:reorg-not-longer")
				}
			}
			pe, qu, _ := post.counts()
			run.Count(fmt.Sprintf("size:pending<=%d", bucket(pe)))
			run.Count(fmt.Sprintf("size:queued<=%d", bucket(qu)))
			if len(post.All) != len(pre.All) || pe+qu > 0 {
				run.Count("state:nonempty-or-changed")
			}
		}
		pre = post
		if len(fails) > 0 {
			return // the first failing step is what gets reported and shrunk
		}
	}
	return
}

func bucket(n int) int {
	for _, b := range []int{0, 2, 5, 10, 20, 50} {
		if n <= b {
			return b
		}
	}
	return 1000
}

// shrink removes operations (and whole blocks / single block transactions) while the same clause keeps failing.
func shrink(run *hx.Run, h History, clause string) History {
	failsSame := func(c *History) bool {
		for _, f := range runHistory(run, c, false) {
			if f.clause == clause {
				return true
			}
		}
		return false
	}
	budget := 500
	for changed := true; changed && budget > 0; {
		changed = false
		for i := len(h.Ops) - 1; i >= 0 && budget > 0; i-- {
			c := h
			c.Ops = append(append([]Op{}, h.Ops[:i]...), h.Ops[i+1:]...)
			budget--
			if failsSame(&c) {
				h, changed = c, true
			}
		}
		// simplify head operations: drop whole blocks, then single block transactions and credits
		for i := 0; i < len(h.Ops) && budget > 0; i++ {
			if h.Ops[i].Kind != "head" {
				continue
			}
			for b := len(h.Ops[i].Blocks) - 1; b >= 0 && budget > 0; b-- {
				c := cloneHistory(h)
				c.Ops[i].Blocks = append(c.Ops[i].Blocks[:b], c.Ops[i].Blocks[b+1:]...)
				budget--
				if failsSame(&c) {
					h, changed = c, true
					continue
				}
				for k := len(h.Ops[i].Blocks[b].Txs) - 1; k >= 0 && budget > 0; k-- {
					c := cloneHistory(h)
					c.Ops[i].Blocks[b].Txs = append(c.Ops[i].Blocks[b].Txs[:k], c.Ops[i].Blocks[b].Txs[k+1:]...)
					budget--
					if failsSame(&c) {
						h, changed = c, true
					}
				}
				if h.Ops[i].Blocks[b].Credits != [nAccounts]uint64{} && budget > 0 {
					c := cloneHistory(h)
					c.Ops[i].Blocks[b].Credits = [nAccounts]uint64{}
					budget--
					if failsSame(&c) {
						h, changed = c, true
					}
				}
			}
		}
	}
	return h
}

func cloneHistory(h History) History {
	c := h
	c.Ops = make([]Op, len(h.Ops))
	for i, o := range h.Ops {
		c.Ops[i] = o
		c.Ops[i].Txs = append([]ATx{}, o.Txs...)
		c.Ops[i].Blocks = make([]BlockSpec, len(o.Blocks))
		for j, b := range o.Blocks {
			c.Ops[i].Blocks[j] = b
			c.Ops[i].Blocks[j].Txs = append([]ATx{}, b.Txs...)
		}
	}
	return c
}

// shrunk counts how many failures of a kind were minimised in this run; the first few of every kind are shrunk by delta
// debugging, later ones are reported with the history that found them (shrinking re-runs the history hundreds of times).
var shrunk = map[string]int{}

func report(run *hx.Run, h *History, fails []failure) {
	seen := map[string]bool{}
	for _, f := range fails {
		if seen[f.clause] {
			continue
		}
		seen[f.clause] = true
		small, detail := *h, f.detail
		if shrunk[f.clause] < 3 {
			shrunk[f.clause]++
			small = shrink(run, *h, f.clause)
			for _, g := range runHistory(run, &small, false) {
				if g.clause == f.clause {
					detail = g.detail
					break
				}
			}
		} else if f.step >= 0 && f.step+1 < len(small.Ops) {
			small.Ops = small.Ops[:f.step+1] // at least cut the history at the failing step
		}
		run.Violate(f.clause, f.clause+" "+small.String(), small, detail+" | history: "+small.String())
	}
}

type coreTx = typesTx

func main() {
	run := hx.Start()
	journalDir = run.OutDir
	log.Root().SetHandler(log.DiscardHandler())
	run.Watch(60*time.Second, 3<<30, func(cur string) string { return "hang " + cur })
	rng := hx.NewRng(run.Seed)

	// 1. corpus: hand-written boundary histories and minimised past failures, every run
	root := os.Getenv("VERIF_ROOT")
	if root == "" {
		root = "/verif"
	}
	files, _ := filepath.Glob(filepath.Join(root, "corpus", "C15", "*.json"))
	sort.Strings(files)
	if run.Replay != "" {
		files = []string{run.Replay}
	}
	for _, f := range files {
		b, err := os.ReadFile(f)
		if err != nil {
			continue
		}
		var h History
		var wrapper struct {
			Input *History `json:"input"`
		}
		if json.Unmarshal(b, &wrapper) == nil && wrapper.Input != nil && len(wrapper.Input.Ops) > 0 {
			h = *wrapper.Input
		} else if err := json.Unmarshal(b, &h); err != nil {
			fmt.Println("corpus: cannot parse", f, err)
			continue
		}
		run.Count("corpus:histories")
		if fails := runHistory(run, &h, true); len(fails) > 0 {
			report(run, &h, fails)
		}
	}
	if run.Replay != "" {
		run.Finish()
		return
	}

	// 1b. price lattice for the replacement rule (prices up to 2^128)
	priceLattice(run)

	// 1c. txSortedMap cache coherence: method sequences on a real txSortedMap
	if run.Thorough() {
		sortedMapCases(run, rng.Fork(0x5a), 4000, 40)
	} else {
		sortedMapCases(run, rng.Fork(0x5a), 600, 30)
	}

	// 2. random sequential histories
	nh, maxOps := 800, 60
	if run.Thorough() {
		nh, maxOps = 3000, 100
	}
	for i := 0; i < nh; i++ {
		h := genHistory(run, rng.Fork(uint64(i)), maxOps)
		run.Count("histories")
		if fails := runHistory(run, h, true); len(fails) > 0 {
			report(run, h, fails)
		}
	}

	// 3. concurrent submissions and head changes (state clauses at snapshot points)
	nc := 8
	if run.Thorough() {
		nc = 100
	}
	core.VerifSetEvictionInterval(3 * time.Millisecond) // the real idle-eviction tick runs during the concurrent histories
	poolLifetime = 10 * time.Millisecond
	for i := 0; i < nc; i++ {
		concurrentRun(run, rng.Fork(uint64(1000000+i)))
	}
	core.VerifSetEvictionInterval(time.Minute)
	poolLifetime = 1000 * time.Hour

	// 4. concurrent readers of Pending()/Content()/Stats() against writers (every view handed out is judged)
	nr, per := 3, 1500
	if run.Thorough() {
		nr, per = 8, 2500
	}
	for i := 0; i < nr; i++ {
		readerStress(run, rng.Fork(uint64(2000000+i)), per)
	}
	run.Notes["accounts"] = nAccounts
	run.Finish()
}

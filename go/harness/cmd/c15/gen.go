package main

// gen.go — random history generator. The generator runs its own instance of the real pool for feedback (nonces close to
// the pool's view, blocks built from what is pending) and emits explicit, replayable operations.

import (
	"fmt"
	"strconv"
	"strings"
	"sync"
	"sync/atomic"
	"time"

	"math/big"

	"gitlab.com/aquachain/aquachain/common"
	"gitlab.com/aquachain/aquachain/core"
	"gitlab.com/aquachain/aquachain/core/types"
	"verifharness/hx"
)

func newBig(x uint64) *big.Int { return new(big.Int).SetUint64(x) }

var (
	prices   = []uint64{1, 1, 2, 3, 5, 10, 10, 11, 12, 20, 50}
	gasLims  = []uint64{100000, 100000, 60000, 1000000}
	balances = []uint64{0, 2000000, 30000000, 30000000, 1000000000, 1000000000, 1000000000, 1000000000}
)

func genCfg(r *hx.Rng) ACfg {
	c := ACfg{PriceLimit: 1, PriceBump: 10, AccountSlots: 16, GlobalSlots: 4096, AccountQueue: 64, GlobalQueue: 1024}
	if r.Intn(4) == 0 {
		c.PriceLimit = uint64(1 + r.Intn(3))
	}
	c.PriceBump = []uint64{1, 10, 10, 25, 100}[r.Intn(5)]
	if r.Intn(2) == 0 { // tight limits
		c.AccountSlots = []uint64{0, 1, 2, 2, 3, 16}[r.Intn(6)]
		c.GlobalSlots = []uint64{0, 1, 2, 3, 5, 8, 4096}[r.Intn(7)]
		c.AccountQueue = []uint64{0, 1, 2, 3, 4, 64}[r.Intn(6)]
		c.GlobalQueue = []uint64{0, 1, 2, 4, 6, 1024}[r.Intn(6)]
	}
	c.NoLocals = r.Intn(10) == 0
	return c
}

func genTx(r *hx.Rng, st *AState) ATx {
	s := r.Intn(nAccounts)
	if r.Intn(3) > 0 {
		s = r.Intn(3) // concentrate on a few senders so that collisions happen
	}
	pn := int(st.PNonce[s])
	var n int
	switch r.Intn(12) {
	case 0, 1, 2, 3, 4:
		n = pn
	case 5, 6:
		n = pn + 1
	case 7:
		n = pn + 2 + r.Intn(3)
	case 8, 9:
		n = pn - 1 - r.Intn(2)
	case 10:
		n = int(st.CNonce[s]) + r.Intn(3) - 1
	default:
		n = r.Intn(10)
	}
	if n < 0 {
		n = 0
	}
	t := ATx{S: s, N: n, P: prices[r.Intn(len(prices))], G: 21000, V: 100}
	switch r.Intn(14) {
	case 0:
		t.G = 20000 // below intrinsic gas
	case 1:
		t.G = 50000
	case 2:
		t.G = 90000
	case 3:
		t.G = 200000
	}
	switch r.Intn(16) {
	case 0:
		t.V = 0
	case 1:
		t.V = st.Balance[s] / 2
	case 2:
		t.V = st.Balance[s]
	case 3:
		t.V = 1500000
	}
	if k := r.Intn(60); k < 2 {
		t.Kind = 1 + k
	}
	return t
}

func genBlock(r *hx.Rng, st *AState, history []ATx) BlockSpec {
	b := BlockSpec{Gas: gasLims[r.Intn(len(gasLims))]}
	// a miner takes a prefix of every pending list ...
	for i := 0; i < nAccounts; i++ {
		if l := st.Pend[i].Txs; len(l) > 0 && r.Intn(3) > 0 {
			b.Txs = append(b.Txs, l[:1+r.Intn(len(l))]...)
		}
	}
	// ... other miners include whatever they have seen: for some accounts the next nonces out of everything ever submitted
	// (this covers transactions the pool has evicted or lost in the meantime)
	for i := 0; i < nAccounts; i++ {
		if r.Intn(4) != 0 {
			continue
		}
		next := int(st.CNonce[i])
		for k := 0; k < 3; k++ {
			found := false
			for _, t := range history {
				if t.S == i && t.N == next && t.Kind == 0 {
					b.Txs = append(b.Txs, t)
					found = true
					break
				}
			}
			if !found {
				break
			}
			next++
		}
	}
	// ... and transactions the pool never saw or no longer holds (competitors at the same nonce included)
	for k := r.Intn(3); k > 0; k-- {
		if len(history) > 0 && r.Bool() {
			b.Txs = append(b.Txs, history[r.Intn(len(history))])
		} else {
			s := r.Intn(nAccounts)
			b.Txs = append(b.Txs, ATx{S: s, N: int(st.CNonce[s]) + r.Intn(2), P: prices[r.Intn(len(prices))], G: 21000, V: uint64(r.Intn(3)) * 50})
		}
	}
	r2 := hx.NewRng(r.U64())
	for i := len(b.Txs) - 1; i > 0; i-- { // shuffle; Extend keeps what executes in this order
		j := r2.Intn(i + 1)
		b.Txs[i], b.Txs[j] = b.Txs[j], b.Txs[i]
	}
	if r.Intn(3) == 0 {
		b.Credits[r.Intn(nAccounts)] = balances[r.Intn(len(balances))]
	}
	return b
}

func genHistory(run *hx.Run, r *hx.Rng, maxOps int) *History {
	h := &History{Cfg: genCfg(r), GasLim: gasLims[r.Intn(len(gasLims))], Journal: r.Intn(8) == 0}
	for i := range h.Genesis {
		h.Genesis[i] = AcctSt{Nonce: []uint64{0, 0, 0, 1, 3}[r.Intn(5)], Balance: balances[r.Intn(len(balances))]}
	}
	w := NewWorld()
	sim := NewSim(w, h)
	defer sim.Close()
	n := 5 + r.Intn(maxOps-4)
	var seen []ATx
	for i := 0; i < n; i++ {
		st := Observe(w, sim.pool)
		var o Op
		switch k := r.Intn(100); {
		case k < 50:
			t := genTx(r, st)
			if len(seen) > 0 && r.Intn(10) == 0 {
				t = seen[r.Intn(len(seen))] // duplicate / resubmission
			}
			o = Op{Kind: "add", Local: r.Intn(6) == 0, Txs: []ATx{t}}
		case k < 60:
			m := 1 + r.Intn(5)
			o = Op{Kind: "adds", Local: r.Intn(8) == 0}
			for j := 0; j < m; j++ {
				t := genTx(r, st)
				t.Kind = 0
				if j > 0 && r.Bool() { // runs of consecutive nonces of one sender
					p := o.Txs[j-1]
					t.S, t.N = p.S, p.N+1
				}
				o.Txs = append(o.Txs, t)
			}
		case k < 68:
			o = Op{Kind: "price", Price: []uint64{1, 1, 2, 3, 3, 4, 6, 11}[r.Intn(8)]}
		case k < 88: // head advance
			o = Op{Kind: "head", Back: 0}
			for j := 1 + r.Intn(2); j > 0; j-- {
				o.Blocks = append(o.Blocks, genBlock(r, st, seen))
			}
		default: // reorganisation: drop `back` blocks, follow a branch of 0..3 new ones
			o = Op{Kind: "head", Back: 1 + r.Intn(3)}
			for j := r.Intn(4); j > 0; j-- {
				o.Blocks = append(o.Blocks, genBlock(r, st, seen))
			}
			if r.Intn(25) == 0 { // a jump beyond the pool's 64 block reorg horizon
				for j := 0; j < 66; j++ {
					o.Blocks = append(o.Blocks, BlockSpec{Gas: 100000})
				}
			}
		}
		for _, t := range o.Txs {
			if t.Kind == 0 {
				seen = append(seen, t)
			}
		}
		h.Ops = append(h.Ops, o)
		if p := hx.Safe(func() string { sim.apply(o); return "" }); p != "" {
			break // the code under test panicked; runHistory reproduces and reports it
		}
	}
	return h
}

// ---- concurrency ------------------------------------------------------------------------------------------------------

// concurrentRun: several goroutines submit transactions while another publishes head events through the real event
// feed (the pool's own loop goroutine performs the resets). Snapshots are taken under the pool lock, i.e. between two
// operations, and judged by the state clauses against the pool's own view of the chain.
func concurrentRun(run *hx.Run, r *hx.Rng) {
	h := &History{Cfg: genCfg(r), GasLim: 100000}
	for i := range h.Genesis {
		h.Genesis[i] = AcctSt{Nonce: 0, Balance: balances[1+r.Intn(len(balances)-1)]}
	}
	w := NewWorld()
	sim := NewSim(w, h)
	defer sim.Close()
	var wg sync.WaitGroup
	var rmu sync.Mutex // hx.Run is not safe for concurrent use
	run.Current("concurrent run " + h.Cfg.String())
	stop := make(chan struct{})
	fail := func(where string, fs []clauseFail) {
		rmu.Lock()
		defer rmu.Unlock()
		for _, f := range fs {
			if f.clause == "run" && f.missing < w.HiNonce(f.acct) {
				f.clause = "run-reinject-hole" // a hole below a nonce the chain had already reached: re-injection after a rollback
			}
			run.Violate("concurrent-"+f.clause, "concurrent-"+f.clause, map[string]interface{}{"cfg": h.Cfg, "seed": run.Seed}, where+": "+f.detail)
		}
	}
	for g := 0; g < 3; g++ {
		wg.Add(1)
		rg := r.Fork(uint64(g))
		go func() {
			defer wg.Done()
			defer func() {
				if e := recover(); e != nil {
					rmu.Lock()
					run.Violate("concurrent-panic", "concurrent-panic", h.Cfg, fmt.Sprint(e))
					rmu.Unlock()
				}
			}()
			for i := 0; i < 150; i++ {
				st := Observe(w, sim.pool)
				t := genTx(rg, st)
				t.Kind = 0
				tx := w.Tx(t)
				if rg.Intn(8) == 0 {
					sim.pool.AddLocal(tx)
				} else if rg.Intn(5) == 0 {
					sim.pool.SetGasPrice(newBig(uint64(1 + rg.Intn(5))))
				} else {
					sim.pool.AddRemote(tx)
				}
			}
		}()
	}
	wg.Add(1)
	rh := r.Fork(99)
	go func() { // head events
		defer wg.Done()
		for i := 0; i < 40; i++ {
			st := Observe(w, sim.pool)
			old := w.Head()
			base := old
			if rh.Intn(4) == 0 {
				for k := 1 + rh.Intn(2); k > 0 && base.parent != nil; k-- {
					base = base.parent
				}
			}
			b := genBlock(rh, st, nil)
			nw := w.Extend(base, b.Gas, b.Txs, b.Credits)
			w.SetHead(nw)
			w.feed.Send(core.ChainHeadEvent{Block: nw.blk})
			time.Sleep(time.Duration(rh.Intn(300)) * time.Microsecond)
		}
	}()
	obsDone := make(chan struct{})
	go func() { // observer
		defer close(obsDone)
		for {
			select {
			case <-stop:
				return
			default:
			}
			st := Observe(w, sim.pool)
			fail("mid-run snapshot", st.CheckInv(h.Cfg, false))
			rmu.Lock()
			run.Count("concurrent:snapshots")
			rmu.Unlock()
			run.Current("concurrent run " + h.Cfg.String()) // progress for the watchdog
			time.Sleep(200 * time.Microsecond)
		}
	}()
	done := make(chan struct{})
	go func() { wg.Wait(); close(done) }()
	select {
	case <-done:
	case <-time.After(120 * time.Second):
		rmu.Lock()
		run.Violate("hang", "concurrent-hang", h.Cfg, "concurrent run did not finish within 120 s")
		rmu.Unlock()
		close(stop)
		return
	}
	close(stop)
	<-obsDone
	for sim.pool.VerifHeadBacklog() > 0 {
		time.Sleep(time.Millisecond)
	}
	st := Observe(w, sim.pool)
	fail("final snapshot", st.CheckInv(h.Cfg, false))
	var hi []string
	for i := 0; i < nAccounts; i++ {
		hi = append(hi, strconv.FormatUint(w.HiNonce(i), 10))
	}
	run.Case(h.Cfg.String()+" "+st.String()+" op=check o.hi="+strings.Join(hi, ";"), "res=ok "+st.String())
	run.Count("concurrent:runs")
}

// ---- concurrent readers -----------------------------------------------------------------------------------------------

// judgeReaderView checks one map handed out by Pending()/Content() — a fact of every linearisable snapshot: per sender
// the pending transactions are that sender's, their nonces are consecutive (strictly increasing, no duplicate, no gap) and
// the first one is the chain nonce of some block that has been the head; queued lists are strictly increasing.
func judgeReaderView(w *World, pending, queued map[common.Address]types.Transactions, submitted *[nAccounts]int64) (string, string) {
	for a, txs := range pending {
		i, ok := w.idx[a]
		if !ok {
			return "reader-unique", "pending list of an unknown account"
		}
		for k, tx := range txs {
			if tx == nil {
				return "reader-run", fmt.Sprintf("account %d: nil entry at position %d of %d", i, k, len(txs))
			}
			t := w.Abs(tx)
			if t.S != i {
				return "reader-unique", fmt.Sprintf("pending list of %d holds %v", i, t)
			}
			if k > 0 && tx.Nonce() != txs[k-1].Nonce()+1 {
				return "reader-run", fmt.Sprintf("account %d: position %d of %d holds nonce %d after nonce %d: not an ordered gap-free run", i, k, len(txs), tx.Nonce(), txs[k-1].Nonce())
			}
		}
		if len(txs) > 0 && !w.WasHeadNonce(i, txs[0].Nonce()) {
			return "reader-run", fmt.Sprintf("account %d: pending starts at nonce %d, which was never the chain nonce", i, txs[0].Nonce())
		}
		if n := atomic.LoadInt64(&submitted[i]); int64(len(txs)) > n {
			return "reader-run", fmt.Sprintf("account %d: %d pending handed out, only %d ever submitted", i, len(txs), n)
		}
	}
	for a, txs := range queued {
		i := w.idx[a]
		for k, tx := range txs {
			if tx == nil || (k > 0 && tx.Nonce() <= txs[k-1].Nonce()) {
				return "reader-unique", fmt.Sprintf("account %d: queued list not strictly increasing at position %d of %d", i, k, len(txs))
			}
		}
	}
	return "", ""
}

// readerStress: several goroutines read Pending()/Content()/Stats() in a tight loop while writers submit long runs,
// replace pending transactions and move the head. Every view a reader obtains is judged; after quiescence the views are
// read again (a corrupted sort cache would persist) and compared with the tables seen through the accessor.
func readerStress(run *hx.Run, r *hx.Rng, perSender int) {
	h := &History{Cfg: ACfg{PriceLimit: 1, PriceBump: 10, AccountSlots: 16, GlobalSlots: 4096, AccountQueue: 64, GlobalQueue: 1024}, GasLim: 100000}
	for i := range h.Genesis {
		h.Genesis[i] = AcctSt{Nonce: 0, Balance: 1 << 50}
	}
	w := NewWorld()
	sim := NewSim(w, h)
	defer sim.Close()
	var rmu sync.Mutex
	var submitted [nAccounts]int64
	reported := 0
	fail := func(kind, where, detail string) {
		rmu.Lock()
		defer rmu.Unlock()
		if reported < 5 {
			reported++
			run.Violate("concurrent-"+kind, "concurrent-"+kind, map[string]interface{}{"section": "reader-stress", "seed": run.Seed}, where+": "+detail)
		}
	}
	run.Current("reader stress")
	var wprog int64 // writer progress (hang detection)
	var writers, readers sync.WaitGroup
	stop := make(chan struct{})
	// writers: two senders with long consecutive runs and occasional replacements
	for s := 0; s < 2; s++ {
		writers.Add(1)
		rg := r.Fork(uint64(s))
		s := s
		go func() {
			defer writers.Done()
			for n := 0; n < perSender; n++ {
				atomic.AddInt64(&submitted[s], 1)
				sim.pool.AddRemote(w.Tx(ATx{S: s, N: n, P: 10, G: 21000, V: 1}))
				if n > 4 && rg.Intn(6) == 0 { // replace a recent pending transaction (same nonce, price bump)
					sim.pool.AddRemote(w.Tx(ATx{S: s, N: n - 1 - rg.Intn(4), P: 12 + uint64(rg.Intn(3))*2, G: 21000, V: 1}))
				}
				atomic.AddInt64(&wprog, 1)
				run.Current("reader stress")
			}
		}()
	}
	// writer: the head advances over what is pending, sometimes after stepping back one block
	writers.Add(1)
	rh := r.Fork(77)
	go func() {
		defer writers.Done()
		for i := 0; i < perSender/25; i++ {
			st := Observe(w, sim.pool)
			base := w.Head()
			if rh.Intn(5) == 0 && base.parent != nil {
				base = base.parent
			}
			var cands []ATx
			for a := 0; a < 2; a++ {
				if l := st.Pend[a].Txs; len(l) > 0 {
					cands = append(cands, l[:1+rh.Intn(minInt(len(l), 8))]...)
				}
			}
			nw := w.Extend(base, 100000000, cands, [nAccounts]uint64{})
			w.SetHead(nw)
			w.feed.Send(core.ChainHeadEvent{Block: nw.blk})
			atomic.AddInt64(&wprog, 1)
			run.Current("reader stress")
			time.Sleep(2 * time.Millisecond)
		}
	}()
	views := int64(0)
	for g := 0; g < 6; g++ {
		readers.Add(1)
		g := g
		go func() {
			defer readers.Done()
			defer func() {
				if e := recover(); e != nil {
					fail("reader-panic", "reader", fmt.Sprint(e))
				}
			}()
			for k := 0; ; k++ {
				select {
				case <-stop:
					return
				default:
				}
				var kind, detail string
				switch (k + g) % 3 {
				case 0:
					p, _ := sim.pool.Pending()
					kind, detail = judgeReaderView(w, p, nil, &submitted)
				case 1:
					p, q := sim.pool.Content()
					kind, detail = judgeReaderView(w, p, q, &submitted)
				default:
					sim.pool.Stats()
				}
				atomic.AddInt64(&views, 1)
				if kind != "" {
					fail(kind, "view handed to a concurrent reader", detail)
				}
			}
		}()
	}
	done := make(chan struct{})
	go func() { writers.Wait(); close(done) }()
	// a hang is the absence of writer progress (not a wall-clock budget: a loaded machine under -race is slow, not stuck)
	for lastP, lastT, waiting := int64(-1), time.Now(), true; waiting; {
		select {
		case <-done:
			waiting = false
		case <-time.After(500 * time.Millisecond):
			if p := atomic.LoadInt64(&wprog); p != lastP {
				lastP, lastT = p, time.Now()
			} else if time.Since(lastT) > 120*time.Second {
				fail("hang", "reader stress", "writers made no progress for 120 s")
				waiting = false
			}
		}
	}
	close(stop)
	readers.Wait()
	for sim.pool.VerifHeadBacklog() > 0 {
		run.Current("reader stress: draining head events")
		time.Sleep(time.Millisecond)
	}
	time.Sleep(5 * time.Millisecond)
	// quiescence: read again (twice, from several goroutines first so that a cold cache is rebuilt concurrently once more)
	var again sync.WaitGroup
	for g := 0; g < 4; g++ {
		again.Add(1)
		go func() { defer again.Done(); sim.pool.Pending(); sim.pool.Content() }()
	}
	again.Wait()
	for round := 0; round < 2; round++ {
		run.Current("reader stress: views after quiescence")
		p, q := sim.pool.Content()
		if kind, detail := judgeReaderView(w, p, q, &submitted); kind != "" {
			fail(kind, "view after quiescence", detail)
		}
		p2, _ := sim.pool.Pending()
		if kind, detail := judgeReaderView(w, p2, nil, &submitted); kind != "" {
			fail(kind, "view after quiescence", detail)
		}
		// against the pool's own tables
		st := Observe(w, sim.pool)
		for i, a := range w.addrs {
			got := w.AbsList(p2[a])
			if len(got) != len(st.Pend[i].Txs) {
				fail("reader-run", "view after quiescence", fmt.Sprintf("account %d: Pending() hands out %d transactions, the pending list holds %d", i, len(got), len(st.Pend[i].Txs)))
				continue
			}
			for k := range got {
				if got[k] != st.Pend[i].Txs[k] {
					fail("reader-run", "view after quiescence", fmt.Sprintf("account %d: Pending() position %d is %v, the pending list has %v there", i, k, got[k], st.Pend[i].Txs[k]))
					break
				}
			}
		}
		for _, f := range st.CheckInv(h.Cfg, false) {
			fail(f.clause, "state after quiescence", f.detail)
		}
	}
	rmu.Lock()
	run.Hist["concurrent:reader-views"] += int(atomic.LoadInt64(&views))
	run.Count("concurrent:reader-stress-runs")
	rmu.Unlock()
}

func minInt(a, b int) int {
	if a < b {
		return a
	}
	return b
}

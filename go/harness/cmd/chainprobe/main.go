package main

import (
	"fmt"
	"verifharness/chainx"
	"verifharness/hx"
)

func main() {
	chainx.Quiet()
	r := hx.NewRng(1)
	t := chainx.NewTree(chainx.Opts{WithTxs: true, MinOffset: -9, MaxOffset: 400, ForkFree: true})
	t.Grow(r, 14, 30)
	for _, n := range t.Nodes {
		fmt.Println(n.ID, n.Parent, n.Block.NumberU64(), n.Block.Difficulty(), n.Block.Time(), len(n.Block.Transactions()), t.Td(n.ID))
	}
	bc, _ := t.NewChain(nil)
	for _, b := range t.Batches(r, t.ParentClosedOrder(r)) {
		i, err := bc.InsertChain(t.Blocks(b))
		fmt.Println(b, i, err, t.ByHash[bc.CurrentBlock().Hash()])
	}
}
